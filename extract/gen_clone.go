package main

// Gen/Clone.lean: what every clone routine of ast.go does with every declared
// field of every struct type it handles.
//
// The routines are pattern-matched statement by statement; the shapes understood
// are exactly the ones present in the source today:
//
//	SelectStatement.Clone   clone := *s ; clone.F = make(T, 0, len(s.F)) ; clone.F = cloneSources(s.F) ;
//	                        clone.F = CloneExpr(s.F) ; if s.F != nil { clone.F = &T{…} } ;
//	                        for _, x := range s.F { clone.F = append(clone.F, &T{…}) } ; return &clone
//	cloneSources            make + range + append(cloneSource(s))
//	cloneSource             nil check ; type switch with `return s.Clone()` / `return &T{…}` ; panic
//	Measurement.Clone       var x *T ; if m.F != nil && m.F.G != nil { x = &T{…} } ; return &Measurement{…}   (or the return alone)
//	CloneRegexLiteral       fixed body text
//	CloneExpr               nil check ; type switch: optional `a := make([]E, len(x.F)) ; for i, v := range x.F { a[i] = CloneExpr(v) }` ; return &T{…}
//
// inside a composite literal a field value is one of  src.F | CloneX(src.F) | src.F.Clone() |
// src.F.Copy() | append([]string(nil), src.F...) | &T{…} | a local prepared as above.
// Anything else makes the generator fail (broken tie).

import (
	"fmt"
	"go/ast"
	"go/token"
	"go/types"
	"sort"
	"strings"
)

type ckind struct {
	tag  string // scalar string libValue boxed ptrLib ptrNode ifaceNode slice
	name string // library type / interface name / struct name
	elem *ckind
}

type cguard struct {
	tag     string // nilOk nilPanics needs
	inner   string // field name of the target (needs)
	innerTy string
}

type ctreat struct {
	tag   string // copied shared dropped deepLib deep deepSlice
	via   string // routine name ("" for deepSlice of scalars)
	guard cguard
}

type cfield struct {
	name  string
	kind  ckind
	treat ctreat
}

type crow struct {
	routine string
	ty      string
	fields  []cfield
}

type cloneGen struct {
	p    *pkgInfo
	rows []crow
}

func (g *cloneGen) kindOf(t types.Type) ckind {
	switch u := t.(type) {
	case *types.Basic:
		if u.Info()&types.IsString != 0 {
			return ckind{tag: "string"}
		}
		if u.Info()&(types.IsBoolean|types.IsNumeric) != 0 {
			return ckind{tag: "scalar"}
		}
	case *types.Named:
		obj := u.Obj()
		local := obj.Pkg() != nil && obj.Pkg().Path() == "github.com/influxdata/influxql"
		switch ut := u.Underlying().(type) {
		case *types.Basic:
			return g.kindOf(ut)
		case *types.Struct:
			if !local {
				return ckind{tag: "libValue", name: obj.Pkg().Name() + "." + obj.Name()}
			}
		case *types.Interface:
			if local {
				return ckind{tag: "ifaceNode", name: obj.Name()}
			}
		case *types.Slice:
			e := g.kindOf(ut.Elem())
			return ckind{tag: "slice", elem: &e}
		}
	case *types.Interface:
		if u.Empty() {
			return ckind{tag: "boxed"}
		}
	case *types.Slice:
		e := g.kindOf(u.Elem())
		return ckind{tag: "slice", elem: &e}
	case *types.Pointer:
		if n, ok := u.Elem().(*types.Named); ok {
			if _, ok := n.Underlying().(*types.Struct); ok {
				obj := n.Obj()
				if obj.Pkg() != nil && obj.Pkg().Path() == "github.com/influxdata/influxql" {
					return ckind{tag: "ptrNode", name: obj.Name()}
				}
				return ckind{tag: "ptrLib", name: obj.Pkg().Name() + "." + obj.Name()}
			}
		}
	}
	fail("Clone: field type %s has no kind", t)
	return ckind{}
}

func (k ckind) isRef() bool {
	return k.tag == "ptrNode" || k.tag == "ifaceNode" || k.tag == "slice" || k.tag == "ptrLib" || k.tag == "boxed"
}

// structOf returns the named struct type denoted by a composite literal type expression.
func (g *cloneGen) structOf(e ast.Expr) (*types.Named, *types.Struct) {
	tv, ok := g.p.info.Types[e]
	if !ok {
		fail("Clone: no type for %s", g.p.text(e))
	}
	n, ok := tv.Type.(*types.Named)
	if !ok {
		fail("Clone: %s is not a named type", g.p.text(e))
	}
	st, ok := n.Underlying().(*types.Struct)
	if !ok {
		fail("Clone: %s is not a struct", g.p.text(e))
	}
	return n, st
}

type localDef struct {
	treat ctreat
}

// nilOkCallee checks that the callee starts with `if <param> == nil { return nil }`.
func (g *cloneGen) nilOkCallee(name string) {
	fd := g.p.fn(name)
	if len(fd.Body.List) == 0 {
		fail("Clone: %s has an empty body", name)
	}
	param := fd.Type.Params.List[0].Names[0].Name
	got := strings.Join(strings.Fields(g.p.text(fd.Body.List[0])), " ")
	if got != "if "+param+" == nil { return nil }" {
		fail("Clone: %s does not start with a nil check: %q", name, got)
	}
}

// composite analyses `&T{…}` (or `T{…}`) whose field values are read from the expression text src.
func (g *cloneGen) composite(routine string, e ast.Expr, src string, locals map[string]localDef) string {
	if u, ok := e.(*ast.UnaryExpr); ok && u.Op == token.AND {
		e = u.X
	}
	lit, ok := e.(*ast.CompositeLit)
	if !ok {
		fail("Clone %s: not a composite literal: %s", routine, g.p.text(e))
	}
	named, st := g.structOf(lit.Type)
	vals := map[string]ast.Expr{}
	for _, el := range lit.Elts {
		kv, ok := el.(*ast.KeyValueExpr)
		if !ok {
			fail("Clone %s: positional composite literal %s", routine, g.p.text(lit))
		}
		vals[kv.Key.(*ast.Ident).Name] = kv.Value
	}
	row := crow{routine: routine, ty: named.Obj().Name()}
	for i := 0; i < st.NumFields(); i++ {
		f := st.Field(i)
		k := g.kindOf(f.Type())
		cf := cfield{name: f.Name(), kind: k}
		v, present := vals[f.Name()]
		delete(vals, f.Name())
		if !present {
			cf.treat = ctreat{tag: "dropped"}
		} else {
			cf.treat = g.fieldValue(routine, f.Name(), k, v, src, locals)
		}
		row.fields = append(row.fields, cf)
	}
	for n := range vals {
		fail("Clone %s: literal sets unknown field %s", routine, n)
	}
	g.rows = append(g.rows, row)
	return routine
}

func plain(k ckind) ctreat {
	if k.isRef() {
		return ctreat{tag: "shared"}
	}
	return ctreat{tag: "copied"}
}

func (g *cloneGen) fieldValue(routine, fname string, k ckind, v ast.Expr, src string, locals map[string]localDef) ctreat {
	want := src + "." + fname
	txt := g.p.text(v)
	if txt == want {
		return plain(k)
	}
	if id, ok := v.(*ast.Ident); ok {
		if ld, ok := locals[id.Name]; ok {
			return ld.treat
		}
	}
	if u, ok := v.(*ast.UnaryExpr); ok && u.Op == token.AND {
		sub := g.composite(routine+"/"+fname, v, want, locals)
		return ctreat{tag: "deep", via: sub, guard: cguard{tag: "nilPanics"}}
	}
	if call, ok := v.(*ast.CallExpr); ok {
		fun := g.p.text(call.Fun)
		switch {
		case (fun == "CloneExpr" || fun == "CloneRegexLiteral" || fun == "cloneSource") && len(call.Args) == 1 && g.p.text(call.Args[0]) == want:
			g.nilOkCallee(fun)
			return ctreat{tag: "deep", via: fun, guard: cguard{tag: "nilOk"}}
		case fun == want+".Clone" && len(call.Args) == 0 && k.tag == "ptrNode":
			return ctreat{tag: "deep", via: k.name + ".Clone", guard: cguard{tag: "nilPanics"}}
		case fun == want+".Copy" && len(call.Args) == 0 && k.tag == "ptrLib":
			return ctreat{tag: "deepLib"}
		case fun == "append" && len(call.Args) == 2 && call.Ellipsis.IsValid() && g.p.text(call.Args[1]) == want &&
			k.tag == "slice" && !k.elem.isRef() && g.p.text(call.Args[0]) == "[]"+k.elem.tag+"(nil)":
			return ctreat{tag: "deepSlice", guard: cguard{tag: "nilOk"}}
		}
	}
	fail("Clone %s: field %s has an unknown value expression %s", routine, fname, txt)
	return ctreat{}
}

// ---- the routines ----

func (g *cloneGen) selectClone() {
	const R = "SelectStatement.Clone"
	fd := g.p.fn(R)
	recv := fd.Recv.List[0].Names[0].Name
	body := fd.Body.List
	if len(body) < 2 || g.p.text(body[0]) != "clone := *"+recv {
		fail("%s: does not start with clone := *%s", R, recv)
	}
	if g.p.text(body[len(body)-1]) != "return &clone" {
		fail("%s: does not end with return &clone", R)
	}
	obj := g.p.info.Defs[fd.Recv.List[0].Names[0]]
	st := obj.Type().(*types.Pointer).Elem().(*types.Named).Underlying().(*types.Struct)
	row := crow{routine: R, ty: "SelectStatement"}
	idx := map[string]int{}
	for i := 0; i < st.NumFields(); i++ {
		f := st.Field(i)
		k := g.kindOf(f.Type())
		idx[f.Name()] = i
		row.fields = append(row.fields, cfield{name: f.Name(), kind: k, treat: plain(k)})
	}
	pendingMake := map[string]bool{}
	field := func(lhs ast.Expr) (string, *cfield) {
		sel, ok := lhs.(*ast.SelectorExpr)
		if !ok || g.p.text(sel.X) != "clone" {
			fail("%s: assignment to %s", R, g.p.text(lhs))
		}
		i, ok := idx[sel.Sel.Name]
		if !ok {
			fail("%s: unknown field %s", R, sel.Sel.Name)
		}
		return sel.Sel.Name, &row.fields[i]
	}
	for _, s := range body[1 : len(body)-1] {
		switch s := s.(type) {
		case *ast.AssignStmt:
			if len(s.Lhs) != 1 || len(s.Rhs) != 1 || s.Tok != token.ASSIGN {
				fail("%s: unknown statement %s", R, g.p.text(s))
			}
			name, cf := field(s.Lhs[0])
			src := recv + "." + name
			call, ok := s.Rhs[0].(*ast.CallExpr)
			if !ok {
				fail("%s: unknown statement %s", R, g.p.text(s))
			}
			switch fun := g.p.text(call.Fun); {
			case fun == "make" && len(call.Args) == 3 && g.p.text(call.Args[1]) == "0" && g.p.text(call.Args[2]) == "len("+src+")" && cf.kind.tag == "slice":
				pendingMake[name] = true
				cf.treat = ctreat{tag: "dropped"} // until the filling loop is seen
			case fun == "cloneSources" && len(call.Args) == 1 && g.p.text(call.Args[0]) == src && cf.kind.tag == "slice":
				g.cloneSourcesShape()
				cf.treat = ctreat{tag: "deepSlice", via: "cloneSource", guard: cguard{tag: "nilOk"}}
			case fun == "CloneExpr" && len(call.Args) == 1 && g.p.text(call.Args[0]) == src:
				g.nilOkCallee("CloneExpr")
				cf.treat = ctreat{tag: "deep", via: "CloneExpr", guard: cguard{tag: "nilOk"}}
			default:
				fail("%s: unknown statement %s", R, g.p.text(s))
			}
		case *ast.IfStmt:
			// if s.F != nil { clone.F = &T{…} }
			if s.Init != nil || s.Else != nil || len(s.Body.List) != 1 {
				fail("%s: unknown if statement %s", R, g.p.text(s.Cond))
			}
			as, ok := s.Body.List[0].(*ast.AssignStmt)
			if !ok || len(as.Lhs) != 1 || as.Tok != token.ASSIGN {
				fail("%s: unknown if body", R)
			}
			name, cf := field(as.Lhs[0])
			src := recv + "." + name
			if g.p.text(s.Cond) != src+" != nil" {
				fail("%s: unknown guard %s", R, g.p.text(s.Cond))
			}
			sub := g.composite(R+"/"+name, as.Rhs[0], src, nil)
			cf.treat = ctreat{tag: "deep", via: sub, guard: cguard{tag: "nilOk"}}
		case *ast.RangeStmt:
			// for _, x := range s.F { clone.F = append(clone.F, &T{…}) }
			if s.Tok != token.DEFINE || g.p.text(s.Key) != "_" || s.Value == nil || len(s.Body.List) != 1 {
				fail("%s: unknown range statement", R)
			}
			as, ok := s.Body.List[0].(*ast.AssignStmt)
			if !ok || len(as.Lhs) != 1 || as.Tok != token.ASSIGN {
				fail("%s: unknown range body", R)
			}
			name, cf := field(as.Lhs[0])
			if g.p.text(s.X) != recv+"."+name || !pendingMake[name] {
				fail("%s: range over %s fills %s (or no make before it)", R, g.p.text(s.X), name)
			}
			call, ok := as.Rhs[0].(*ast.CallExpr)
			if !ok || g.p.text(call.Fun) != "append" || len(call.Args) != 2 || g.p.text(call.Args[0]) != "clone."+name {
				fail("%s: unknown range body %s", R, g.p.text(as))
			}
			sub := g.composite(R+"/"+name+"[]", call.Args[1], g.p.text(s.Value), nil)
			cf.treat = ctreat{tag: "deepSlice", via: sub, guard: cguard{tag: "nilPanics"}}
			delete(pendingMake, name)
		default:
			fail("%s: unknown statement %s", R, g.p.text(s))
		}
	}
	g.rows = append(g.rows, row)
}

func (g *cloneGen) cloneSourcesShape() {
	got := strings.Join(strings.Fields(g.p.text(g.p.fn("cloneSources").Body)), " ")
	want := "{ clone := make(Sources, 0, len(sources)) for _, s := range sources { clone = append(clone, cloneSource(s)) } return clone }"
	if got != want {
		fail("cloneSources: unknown body %q", got)
	}
	g.nilOkCallee("cloneSource")
}

// typeSwitchRoutine handles `if x == nil { return nil } ; switch x := x.(type) { case *T: …; return … } ; panic`.
// The switch may be the last statement (cloneSource, with a panicking default) or be followed by a panic (CloneExpr).
func (g *cloneGen) typeSwitchRoutine(R string) {
	fd := g.p.fn(R)
	g.nilOkCallee(R)
	param := fd.Type.Params.List[0].Names[0].Name
	body := fd.Body.List
	var sw *ast.TypeSwitchStmt
	switch {
	case len(body) == 2:
		sw, _ = body[1].(*ast.TypeSwitchStmt)
	case len(body) == 3 && strings.HasPrefix(g.p.text(body[2]), "panic("):
		sw, _ = body[1].(*ast.TypeSwitchStmt)
	}
	if sw == nil || g.p.text(sw.Assign) != param+" := "+param+".(type)" {
		fail("%s: unknown body shape", R)
	}
	for _, c := range sw.Body.List {
		cc := c.(*ast.CaseClause)
		if cc.List == nil {
			if len(cc.Body) != 1 || !strings.HasPrefix(g.p.text(cc.Body[0]), "panic(") {
				fail("%s: default case does not panic", R)
			}
			continue
		}
		if len(cc.List) != 1 || len(cc.Body) == 0 {
			fail("%s: unknown case %s", R, g.p.text(cc))
		}
		ret, ok := cc.Body[len(cc.Body)-1].(*ast.ReturnStmt)
		if !ok || len(ret.Results) != 1 {
			fail("%s: case %s does not end with a return", R, g.p.text(cc.List[0]))
		}
		locals := map[string]localDef{}
		pre := cc.Body[:len(cc.Body)-1]
		switch len(pre) {
		case 0:
		case 2:
			// a := make([]E, len(x.F)) ; for i, v := range x.F { a[i] = CALL(v) }
			as, ok1 := pre[0].(*ast.AssignStmt)
			rs, ok2 := pre[1].(*ast.RangeStmt)
			if !ok1 || !ok2 || as.Tok != token.DEFINE || len(as.Lhs) != 1 {
				fail("%s: unknown prelude in case %s", R, g.p.text(cc.List[0]))
			}
			a := g.p.text(as.Lhs[0])
			mk, ok := as.Rhs[0].(*ast.CallExpr)
			if !ok || g.p.text(mk.Fun) != "make" || len(mk.Args) != 2 || g.p.text(mk.Args[1]) != "len("+g.p.text(rs.X)+")" {
				fail("%s: unknown prelude in case %s", R, g.p.text(cc.List[0]))
			}
			if len(rs.Body.List) != 1 || rs.Key == nil || rs.Value == nil {
				fail("%s: unknown loop in case %s", R, g.p.text(cc.List[0]))
			}
			i, v := g.p.text(rs.Key), g.p.text(rs.Value)
			fill := strings.Join(strings.Fields(g.p.text(rs.Body.List[0])), " ")
			if fill != a+"["+i+"] = CloneExpr("+v+")" {
				fail("%s: unknown loop body %q", R, fill)
			}
			g.nilOkCallee("CloneExpr")
			locals[a] = localDef{ctreat{tag: "deepSlice", via: "CloneExpr", guard: cguard{tag: "nilOk"}}}
			// the local must be used for the field it was built from
			locals[a+"\x00src"] = localDef{ctreat{via: g.p.text(rs.X)}}
		default:
			fail("%s: unknown prelude in case %s", R, g.p.text(cc.List[0]))
		}
		r := ret.Results[0]
		if call, ok := r.(*ast.CallExpr); ok {
			// return s.Clone(): delegate to the method's row
			if g.p.text(call.Fun) != param+".Clone" || len(call.Args) != 0 {
				fail("%s: unknown return %s", R, g.p.text(r))
			}
			star, ok := cc.List[0].(*ast.StarExpr)
			if !ok {
				fail("%s: case %s", R, g.p.text(cc.List[0]))
			}
			g.delegate(R, g.p.text(star.X)+".Clone")
			continue
		}
		g.compositeChecked(R, r, param, locals)
	}
}

// compositeChecked is composite plus the check that a prepared local is used for the field it was built from.
func (g *cloneGen) compositeChecked(R string, e ast.Expr, src string, locals map[string]localDef) {
	g.composite(R, e, src, locals)
	row := g.rows[len(g.rows)-1]
	u := e.(*ast.UnaryExpr).X.(*ast.CompositeLit)
	for _, el := range u.Elts {
		kv := el.(*ast.KeyValueExpr)
		if id, ok := kv.Value.(*ast.Ident); ok {
			if s, ok := locals[id.Name+"\x00src"]; ok && s.treat.via != src+"."+kv.Key.(*ast.Ident).Name {
				fail("%s %s: local %s built from %s is stored in field %s", R, row.ty, id.Name, s.treat.via, g.p.text(kv.Key))
			}
		}
	}
}

var delegations [][2]string

// delegate copies the rows of routine `to` for use under routine `from` (`return s.Clone()`).
func (g *cloneGen) delegate(from, to string) {
	delegations = append(delegations, [2]string{from, to})
}

func (g *cloneGen) measurementClone() {
	const R = "Measurement.Clone"
	fd := g.p.fn(R)
	recv := fd.Recv.List[0].Names[0].Name
	body := fd.Body.List
	if len(body) == 1 {
		// the repaired shape: a single `return &Measurement{…, Regex: CloneRegexLiteral(m.Regex), …}`
		ret, ok := body[0].(*ast.ReturnStmt)
		if !ok || len(ret.Results) != 1 {
			fail("%s: unknown body shape", R)
		}
		g.compositeChecked(R, ret.Results[0], recv, nil)
		return
	}
	if len(body) != 3 {
		fail("%s: unknown body shape", R)
	}
	// var x *T
	ds, ok := body[0].(*ast.DeclStmt)
	if !ok {
		fail("%s: first statement is not a var declaration", R)
	}
	vs := ds.Decl.(*ast.GenDecl).Specs[0].(*ast.ValueSpec)
	if len(vs.Names) != 1 || len(vs.Values) != 0 {
		fail("%s: unknown var declaration", R)
	}
	x := vs.Names[0].Name
	// if m.F != nil && m.F.G != nil { x = &T{…} }
	is, ok := body[1].(*ast.IfStmt)
	if !ok || is.Init != nil || is.Else != nil || len(is.Body.List) != 1 {
		fail("%s: unknown if statement", R)
	}
	cond, ok := is.Cond.(*ast.BinaryExpr)
	if !ok || cond.Op != token.LAND {
		fail("%s: unknown guard %s", R, g.p.text(is.Cond))
	}
	l, ok1 := cond.X.(*ast.BinaryExpr)
	r, ok2 := cond.Y.(*ast.BinaryExpr)
	if !ok1 || !ok2 || l.Op != token.NEQ || r.Op != token.NEQ || g.p.text(l.Y) != "nil" || g.p.text(r.Y) != "nil" {
		fail("%s: unknown guard %s", R, g.p.text(is.Cond))
	}
	lsel, ok1 := l.X.(*ast.SelectorExpr)
	rsel, ok2 := r.X.(*ast.SelectorExpr)
	if !ok1 || !ok2 || g.p.text(lsel.X) != recv || g.p.text(rsel.X) != g.p.text(lsel) {
		fail("%s: unknown guard %s", R, g.p.text(is.Cond))
	}
	as, ok := is.Body.List[0].(*ast.AssignStmt)
	if !ok || as.Tok != token.ASSIGN || g.p.text(as.Lhs[0]) != x {
		fail("%s: unknown guarded statement", R)
	}
	fname := lsel.Sel.Name
	sub := g.composite(R+"/"+fname, as.Rhs[0], recv+"."+fname, nil)
	locals := map[string]localDef{
		x:             {ctreat{tag: "deep", via: sub, guard: cguard{tag: "needs", inner: rsel.Sel.Name, innerTy: g.rows[len(g.rows)-1].ty}}},
		x + "\x00src": {ctreat{via: recv + "." + fname}},
	}
	ret, ok := body[2].(*ast.ReturnStmt)
	if !ok || len(ret.Results) != 1 {
		fail("%s: does not end with a return", R)
	}
	g.compositeChecked(R, ret.Results[0], recv, locals)
}

func (g *cloneGen) cloneRegexLiteral() {
	const R = "CloneRegexLiteral"
	got := strings.Join(strings.Fields(g.p.text(g.p.fn(R).Body)), " ")
	want := "{ if r == nil { return nil } clone := &RegexLiteral{} if r.Val != nil { clone.Val = regexp.MustCompile(r.Val.String()) } return clone }"
	if got != want {
		fail("%s: unknown body %q", R, got)
	}
	// the struct must have exactly the one field the body rebuilds
	obj := g.p.info.Defs[g.p.fn(R).Type.Params.List[0].Names[0]]
	st := obj.Type().(*types.Pointer).Elem().(*types.Named).Underlying().(*types.Struct)
	if st.NumFields() != 1 || st.Field(0).Name() != "Val" {
		fail("%s: RegexLiteral no longer has the single field Val", R)
	}
	g.rows = append(g.rows, crow{routine: R, ty: "RegexLiteral", fields: []cfield{{name: "Val", kind: g.kindOf(st.Field(0).Type()), treat: ctreat{tag: "deepLib"}}}})
}

// implementers lists the struct types with a pointer-receiver marker method (expr(), source()).
func (g *cloneGen) implementers(marker string) []string {
	var out []string
	for k, fd := range g.p.funcs {
		if fd.Name.Name == marker && fd.Recv != nil {
			if _, ok := fd.Recv.List[0].Type.(*ast.StarExpr); !ok {
				fail("Clone: %s has a value receiver", k)
			}
			out = append(out, strings.TrimSuffix(k, "."+marker))
		}
	}
	sort.Strings(out)
	return out
}

func genClone(p *pkgInfo) *leanFile {
	g := &cloneGen{p: p}
	delegations = nil
	g.selectClone()
	g.typeSwitchRoutine("cloneSource")
	g.measurementClone()
	g.cloneRegexLiteral()
	g.typeSwitchRoutine("CloneExpr")
	for _, d := range delegations {
		n := 0
		for _, r := range g.rows {
			if r.routine == d[1] {
				g.rows = append(g.rows, crow{routine: d[0], ty: r.ty, fields: r.fields})
				n++
			}
		}
		if n != 1 {
			fail("Clone: delegation %s -> %s found %d rows", d[0], d[1], n)
		}
	}
	// ids
	structSet, routineSet := map[string]bool{}, map[string]bool{}
	var addKind func(k ckind)
	addKind = func(k ckind) {
		if k.tag == "ptrNode" {
			structSet[k.name] = true
		}
		if k.elem != nil {
			addKind(*k.elem)
		}
	}
	for _, r := range g.rows {
		structSet[r.ty] = true
		routineSet[r.routine] = true
		for _, f := range r.fields {
			addKind(f.kind)
		}
	}
	exprs, sources := g.implementers("expr"), g.implementers("source")
	for _, s := range append(append([]string{}, exprs...), sources...) {
		structSet[s] = true
	}
	structs, routines := sortedKeys(structSet), sortedKeys(routineSet)
	sid, rid := indexOf(structs), indexOf(routines)
	sort.SliceStable(g.rows, func(i, j int) bool {
		if g.rows[i].routine != g.rows[j].routine {
			return g.rows[i].routine < g.rows[j].routine
		}
		return g.rows[i].ty < g.rows[j].ty
	})

	f := newLean("Clone", "InfluxQL.Model.CloneTable")
	f.pf("open InfluxQL.CloneTable\n\n")
	f.pf("/-- Struct types of ast.go that a clone routine handles or that implement `Expr` / `Source`; a struct id is an index into this list. -/\ndef structNames : List (List Char) := [\n")
	for i, s := range structs {
		f.pf("  %s%s  -- %d %s\n", leanChars(s), comma(i, len(structs)), i, s)
	}
	f.pf("]\n\n/-- Clone routines (a `/` suffix names a composite literal written inline in the routine); a routine id is an index into this list. -/\ndef routineNames : List (List Char) := [\n")
	for i, s := range routines {
		f.pf("  %s%s  -- %d %s\n", leanChars(s), comma(i, len(routines)), i, s)
	}
	f.pf("]\n\n/-- Struct ids with an `expr()` marker method: the dynamic types an `Expr` can have. -/\ndef exprTypes : List Nat := %s\n\n", cloneNatList(exprs, sid))
	f.pf("/-- Struct ids with a `source()` marker method. -/\ndef sourceTypes : List Nat := %s\n\n", cloneNatList(sources, sid))
	f.pf("/-- Routine that rebuilds a value of the interface, and the interface's implementers. -/\ndef ifaceRoutines : List (List Char × Nat × List Nat) := [(%s, %d, exprTypes), (%s, %d, sourceTypes)]\n\n",
		leanChars("Expr"), rid["CloneExpr"], leanChars("Source"), rid["cloneSource"])
	var leanKind func(k ckind) string
	leanKind = func(k ckind) string {
		switch k.tag {
		case "scalar", "string", "boxed":
			return "." + k.tag
		case "libValue", "ptrLib", "ifaceNode":
			return fmt.Sprintf("(.%s %s)", k.tag, leanChars(k.name))
		case "ptrNode":
			return fmt.Sprintf("(.ptrNode %d)", sid[k.name])
		case "slice":
			return "(.slice " + leanKind(*k.elem) + ")"
		}
		fail("Clone: kind %v", k)
		return ""
	}
	leanGuard := func(c cguard) string {
		switch c.tag {
		case "nilOk", "nilPanics":
			return "." + c.tag
		case "needs":
			// index of the inner field in the target struct
			for _, r := range g.rows {
				if r.ty == c.innerTy {
					for i, fl := range r.fields {
						if fl.name == c.inner {
							return fmt.Sprintf("(.needs %d)", i)
						}
					}
				}
			}
		}
		fail("Clone: guard %v", c)
		return ""
	}
	leanTreat := func(t ctreat) string {
		switch t.tag {
		case "copied", "shared", "dropped", "deepLib":
			return "." + t.tag
		case "deep":
			return fmt.Sprintf("(.deep %d %s)", rid[t.via], leanGuard(t.guard))
		case "deepSlice":
			if t.via == "" {
				return fmt.Sprintf("(.deepSlice none %s)", leanGuard(t.guard))
			}
			return fmt.Sprintf("(.deepSlice (some %d) %s)", rid[t.via], leanGuard(t.guard))
		}
		fail("Clone: treatment %v", t)
		return ""
	}
	f.pf("/-- One row per (clone routine, struct type): every declared field with its kind and treatment. -/\ndef cloneTable : List Row := [\n")
	for i, r := range g.rows {
		f.pf("  -- %s on %s\n  { routine := %d, ty := %d, fields := [\n", r.routine, r.ty, rid[r.routine], sid[r.ty])
		for j, fl := range r.fields {
			f.pf("      { name := %s, kind := %s, treat := %s }%s  -- %s\n", leanChars(fl.name), leanKind(fl.kind), leanTreat(fl.treat), comma(j, len(r.fields)), fl.name)
		}
		f.pf("    ] }%s\n", comma(i, len(g.rows)))
	}
	f.pf("]\n")
	return f
}

func comma(i, n int) string {
	if i+1 < n {
		return ","
	}
	return ""
}

func sortedKeys(m map[string]bool) []string {
	var out []string
	for k := range m {
		out = append(out, k)
	}
	sort.Strings(out)
	return out
}

func indexOf(xs []string) map[string]int {
	m := map[string]int{}
	for i, x := range xs {
		m[x] = i
	}
	return m
}

func cloneNatList(xs []string, id map[string]int) string {
	var parts []string
	for _, x := range xs {
		parts = append(parts, fmt.Sprint(id[x]))
	}
	return "[" + strings.Join(parts, ", ") + "]"
}

func init() { registerGen("Clone", genClone) }

package main

import (
	"go/ast"
	"go/token"
	"go/types"
	"sort"
	"strings"
)

// genSites lists the places in parser.go and scanner.go where the Go runtime could panic:
// explicit panic calls, type assertions without comma-ok (outside type switches), index and slice
// expressions with a non-constant index that is not the key of an enclosing `range` over the same
// operand (map indexing excluded: it cannot panic), and integer division / remainder by a
// non-constant. Entries: (function, kind, source text with whitespace collapsed), in source order.
func genSites(p *pkgInfo) *leanFile {
	f := newLean("Sites")
	type site struct{ fn, kind, text string }
	var sites []site
	norm := func(n ast.Node) string { return strings.Join(strings.Fields(p.text(n)), " ") }
	isConst := func(e ast.Expr) bool {
		if e == nil {
			return true
		}
		tv, ok := p.info.Types[e]
		return ok && tv.Value != nil
	}
	isMap := func(e ast.Expr) bool {
		tv, ok := p.info.Types[e]
		if !ok || tv.Type == nil {
			return false
		}
		_, m := tv.Type.Underlying().(*types.Map)
		return m
	}
	isInteger := func(e ast.Expr) bool {
		tv, ok := p.info.Types[e]
		if !ok || tv.Type == nil {
			return false
		}
		b, ok := tv.Type.Underlying().(*types.Basic)
		return ok && b.Info()&types.IsInteger != 0
	}
	for _, fname := range []string{"parser.go", "scanner.go"} {
		file := p.files[fname]
		if file == nil {
			fail("%s not found", fname)
		}
		var decls []*ast.FuncDecl
		for _, d := range file.Decls {
			if fd, ok := d.(*ast.FuncDecl); ok && fd.Body != nil {
				decls = append(decls, fd)
			}
		}
		sort.SliceStable(decls, func(i, j int) bool { return decls[i].Pos() < decls[j].Pos() })
		for _, fd := range decls {
			name := funcKey(fd)
			okAsserts := map[*ast.TypeAssertExpr]bool{}
			type rng struct{ key, x string }
			var ranges []rng
			var walk func(n ast.Node)
			walk = func(n ast.Node) {
				if n == nil {
					return
				}
				switch x := n.(type) {
				case *ast.AssignStmt:
					if len(x.Lhs) == 2 && len(x.Rhs) == 1 {
						if ta, ok := x.Rhs[0].(*ast.TypeAssertExpr); ok {
							okAsserts[ta] = true
						}
					}
				case *ast.ValueSpec:
					if len(x.Names) == 2 && len(x.Values) == 1 {
						if ta, ok := x.Values[0].(*ast.TypeAssertExpr); ok {
							okAsserts[ta] = true
						}
					}
				case *ast.RangeStmt:
					key := ""
					if id, ok := x.Key.(*ast.Ident); ok {
						key = id.Name
					}
					ranges = append(ranges, rng{key, norm(x.X)})
					walk(x.X)
					walk(x.Body)
					ranges = ranges[:len(ranges)-1]
					return
				case *ast.CallExpr:
					if id, ok := x.Fun.(*ast.Ident); ok && id.Name == "panic" {
						sites = append(sites, site{name, "panic", norm(x)})
					}
				case *ast.TypeAssertExpr:
					if x.Type != nil && !okAsserts[x] {
						sites = append(sites, site{name, "assert", norm(x)})
					}
				case *ast.IndexExpr:
					if !isConst(x.Index) && !isMap(x.X) {
						guarded := false
						if id, ok := x.Index.(*ast.Ident); ok {
							for _, r := range ranges {
								if r.key == id.Name && r.x == norm(x.X) {
									guarded = true
								}
							}
						}
						if !guarded {
							sites = append(sites, site{name, "index", norm(x)})
						}
					}
				case *ast.SliceExpr:
					if !isConst(x.Low) || !isConst(x.High) || !isConst(x.Max) {
						sites = append(sites, site{name, "slice", norm(x)})
					}
				case *ast.BinaryExpr:
					if (x.Op == token.QUO || x.Op == token.REM) && isInteger(x.X) && !isConst(x.Y) {
						sites = append(sites, site{name, "div", norm(x)})
					}
				}
				// generic descent
				ast.Inspect(n, func(c ast.Node) bool {
					if c == n || c == nil {
						return c == n
					}
					walk(c)
					return false
				})
			}
			walk(fd.Body)
		}
	}
	f.pf("/-- Places in parser.go and scanner.go where the Go runtime could panic: (function, kind, text). -/\n")
	f.pf("def panicSites : List (List Char × List Char × List Char) := [\n")
	for i, s := range sites {
		sep := ","
		if i == len(sites)-1 {
			sep = ""
		}
		f.pf("  (%s, %s, %s)%s\n", leanChars(s.fn), leanChars(s.kind), leanChars(s.text), sep)
	}
	f.pf("]\n")
	return f
}

func init() { registerGen("Sites", genSites) }

package main

import (
	"go/ast"
	"go/constant"
	"go/token"
	"go/types"
	"sort"
	"strings"
)

// genPriv extracts every `RequiredPrivileges` method of ast.go into a table: one row per statement
// type. Only the exact shapes below are understood; anything else fails loudly.
//
//	literal               return ExecutionPrivileges{{Admin: b, Name: "" | s.Field, Privilege: C}, …}, nil
//	sources               return s.Sources.RequiredPrivileges()
//	literalIfNoSources    if [!s.Exact ||] len(s.Sources) == 0 { return <literal> }; return s.Sources.RequiredPrivileges()
//	continuousQuery       CreateContinuousQueryStatement (read on s.Database; target database != "" adds a write)
//	select                SelectStatement (sources, then the INTO target)
//	explain               return e.Statement.RequiredPrivileges()
//
// plus the constants of Sources.RequiredPrivileges itself.

type privEntry struct {
	admin bool
	name  string // "" or field name of the receiver
	priv  string
}

func init() { registerGen("Priv", genPriv) }

func squash(s string) string { return strings.Join(strings.Fields(s), " ") }

func genPriv(p *pkgInfo) *leanFile {
	f := newLean("Priv")

	// --- the Privilege constants, in value order
	type pc struct {
		name string
		val  int64
	}
	var consts []pc
	for _, d := range p.files["ast.go"].Decls {
		gd, ok := d.(*ast.GenDecl)
		if !ok || gd.Tok != token.CONST {
			continue
		}
		isPriv := false
		for _, s := range gd.Specs {
			vs := s.(*ast.ValueSpec)
			if vs.Type != nil {
				isPriv = p.text(vs.Type) == "Privilege"
			}
			if !isPriv {
				continue
			}
			for _, n := range vs.Names {
				obj, _ := p.info.Defs[n].(*types.Const)
				if obj == nil {
					fail("Privilege constant %s has no constant value", n.Name)
				}
				v, ok := constant.Int64Val(constant.ToInt(obj.Val()))
				if !ok {
					fail("Privilege constant %s is not an integer", n.Name)
				}
				consts = append(consts, pc{n.Name, v})
			}
		}
	}
	if len(consts) == 0 {
		fail("no constants of type Privilege found")
	}
	sort.Slice(consts, func(i, j int) bool { return consts[i].val < consts[j].val })
	isConst := map[string]bool{}
	for i, c := range consts {
		if c.val != int64(i) {
			fail("Privilege constants are not 0..n-1: %s = %d", c.name, c.val)
		}
		isConst[c.name] = true
	}

	// --- helpers
	fieldsUsed := map[string]bool{}
	parseEntry := func(where, recv string, cl *ast.CompositeLit, nameMustBe string) privEntry {
		e := privEntry{}
		seen := map[string]bool{}
		for _, el := range cl.Elts {
			kv, ok := el.(*ast.KeyValueExpr)
			if !ok {
				fail("%s: positional element in ExecutionPrivilege literal %s", where, p.text(cl))
			}
			k := p.text(kv.Key)
			if seen[k] {
				fail("%s: duplicate key %s", where, k)
			}
			seen[k] = true
			v := p.text(kv.Value)
			switch k {
			case "Admin":
				switch v {
				case "true":
					e.admin = true
				case "false":
				default:
					fail("%s: Admin: %s is not a boolean literal", where, v)
				}
			case "Name":
				switch {
				case nameMustBe != "":
					if v != nameMustBe {
						fail("%s: Name: %s, expected %s", where, v, nameMustBe)
					}
				case v == `""`:
				case strings.HasPrefix(v, recv+".") && isIdent(v[len(recv)+1:]):
					e.name = v[len(recv)+1:]
					fieldsUsed[e.name] = true
				default:
					fail("%s: Name: %s is neither \"\" nor a field of the receiver", where, v)
				}
			case "Privilege":
				if !isConst[v] {
					fail("%s: Privilege: %s is not a Privilege constant", where, v)
				}
				e.priv = v
			default:
				fail("%s: unknown key %s", where, k)
			}
		}
		if !seen["Privilege"] {
			fail("%s: literal without Privilege: %s", where, p.text(cl))
		}
		if nameMustBe != "" && !seen["Name"] {
			fail("%s: literal without Name: %s", where, p.text(cl))
		}
		return e
	}
	// `ExecutionPrivileges{{…}, …}`
	parseList := func(where, recv string, e ast.Expr) []privEntry {
		cl, ok := e.(*ast.CompositeLit)
		if !ok || cl.Type == nil || p.text(cl.Type) != "ExecutionPrivileges" {
			fail("%s: not an ExecutionPrivileges literal: %s", where, p.text(e))
		}
		var out []privEntry
		for _, el := range cl.Elts {
			ecl, ok := el.(*ast.CompositeLit)
			if !ok || ecl.Type != nil {
				fail("%s: element is not an elided ExecutionPrivilege literal: %s", where, p.text(el))
			}
			out = append(out, parseEntry(where, recv, ecl, ""))
		}
		if len(out) == 0 {
			fail("%s: empty ExecutionPrivileges literal", where)
		}
		return out
	}
	// `return <list literal>, nil`
	returnList := func(where, recv string, st ast.Stmt) ([]privEntry, bool) {
		rs, ok := st.(*ast.ReturnStmt)
		if !ok || len(rs.Results) != 2 || p.text(rs.Results[1]) != "nil" {
			return nil, false
		}
		if _, ok := rs.Results[0].(*ast.CompositeLit); !ok {
			return nil, false
		}
		return parseList(where, recv, rs.Results[0]), true
	}
	leanEntry := func(e privEntry) string {
		n := ".empty"
		if e.name != "" {
			n = "." + e.name
		}
		b := "false"
		if e.admin {
			b = "true"
		}
		return "⟨" + b + ", " + n + ", ." + e.priv + "⟩"
	}
	leanEntries := func(es []privEntry) string {
		var parts []string
		for _, e := range es {
			parts = append(parts, leanEntry(e))
		}
		return "[" + strings.Join(parts, ", ") + "]"
	}
	leanBool := func(b bool) string {
		if b {
			return "true"
		}
		return "false"
	}

	// --- all RequiredPrivileges methods
	var keys []string
	for k := range p.funcs {
		if strings.HasSuffix(k, ".RequiredPrivileges") {
			keys = append(keys, k)
		}
	}
	sort.Strings(keys)
	type row struct{ kind, rule, src string }
	var rows []row
	var selectEntry, srcEntry *privEntry
	for _, k := range keys {
		fd := p.funcs[k]
		kind := strings.TrimSuffix(k, ".RequiredPrivileges")
		if fd.Recv == nil || len(fd.Recv.List) != 1 || len(fd.Recv.List[0].Names) != 1 {
			fail("%s: unnamed receiver", k)
		}
		recv := fd.Recv.List[0].Names[0].Name
		if sig := p.text(fd.Type); !strings.HasSuffix(sig, "() (ExecutionPrivileges, error)") {
			fail("%s: signature %s", k, sig)
		}
		body := fd.Body.List
		src := squash(p.text(fd.Body))
		delegate := "return " + recv + ".Sources.RequiredPrivileges()"

		if kind == "Sources" {
			// var ep ExecutionPrivileges; for _, source := range a { switch source := source.(type) {…} }; return ep, nil
			if len(body) != 3 || squash(p.text(body[0])) != "var ep ExecutionPrivileges" || squash(p.text(body[2])) != "return ep, nil" {
				fail("Sources.RequiredPrivileges: unknown frame: %s", src)
			}
			rs, ok := body[1].(*ast.RangeStmt)
			if !ok || p.text(rs.Key) != "_" || p.text(rs.Value) != "source" || p.text(rs.X) != recv || len(rs.Body.List) != 1 {
				fail("Sources.RequiredPrivileges: unknown loop: %s", squash(p.text(body[1])))
			}
			ts, ok := rs.Body.List[0].(*ast.TypeSwitchStmt)
			if !ok || squash(p.text(ts.Assign)) != "source := source.(type)" || len(ts.Body.List) != 3 {
				fail("Sources.RequiredPrivileges: unknown type switch")
			}
			for _, c := range ts.Body.List {
				cc := c.(*ast.CaseClause)
				switch {
				case len(cc.List) == 1 && p.text(cc.List[0]) == "*Measurement":
					if len(cc.Body) != 1 {
						fail("Sources.RequiredPrivileges: *Measurement case has %d statements", len(cc.Body))
					}
					as, ok := cc.Body[0].(*ast.AssignStmt)
					if !ok || len(as.Lhs) != 1 || p.text(as.Lhs[0]) != "ep" || as.Tok != token.ASSIGN {
						fail("Sources.RequiredPrivileges: *Measurement case: %s", squash(p.text(cc.Body[0])))
					}
					call, ok := as.Rhs[0].(*ast.CallExpr)
					if !ok || p.text(call.Fun) != "append" || len(call.Args) != 2 || p.text(call.Args[0]) != "ep" || call.Ellipsis != token.NoPos {
						fail("Sources.RequiredPrivileges: *Measurement case: %s", squash(p.text(cc.Body[0])))
					}
					cl, ok := call.Args[1].(*ast.CompositeLit)
					if !ok || cl.Type == nil || p.text(cl.Type) != "ExecutionPrivilege" {
						fail("Sources.RequiredPrivileges: appended value: %s", p.text(call.Args[1]))
					}
					e := parseEntry("Sources.RequiredPrivileges", "source", cl, "source.Database")
					srcEntry = &e
				case len(cc.List) == 1 && p.text(cc.List[0]) == "*SubQuery":
					want := []string{"privs, err := source.Statement.RequiredPrivileges()", "if err != nil { return nil, err }", "ep = append(ep, privs...)"}
					if len(cc.Body) != len(want) {
						fail("Sources.RequiredPrivileges: *SubQuery case has %d statements", len(cc.Body))
					}
					for i, w := range want {
						if squash(p.text(cc.Body[i])) != w {
							fail("Sources.RequiredPrivileges: *SubQuery case: %s", squash(p.text(cc.Body[i])))
						}
					}
				case cc.List == nil:
					if len(cc.Body) != 1 || !strings.HasPrefix(squash(p.text(cc.Body[0])), "return nil, fmt.Errorf(") {
						fail("Sources.RequiredPrivileges: default case")
					}
				default:
					fail("Sources.RequiredPrivileges: unknown case %s", squash(p.text(cc)))
				}
			}
			if srcEntry == nil {
				fail("Sources.RequiredPrivileges: no *Measurement case")
			}
			continue
		}

		if !strings.HasSuffix(kind, "Statement") {
			fail("%s: receiver is neither Sources nor a statement type", k)
		}
		switch {
		case len(body) == 1 && squash(p.text(body[0])) == delegate:
			rows = append(rows, row{kind, ".sources", src})
		case len(body) == 1 && squash(p.text(body[0])) == "return "+recv+".Statement.RequiredPrivileges()":
			if kind != "ExplainStatement" {
				fail("%s: delegates to .Statement but is not ExplainStatement", k)
			}
			rows = append(rows, row{kind, ".explain", src})
		case len(body) == 1:
			es, ok := returnList(k, recv, body[0])
			if !ok {
				fail("%s: unknown single statement: %s", k, src)
			}
			rows = append(rows, row{kind, ".literal " + leanEntries(es), src})
		case len(body) == 2 && squash(p.text(body[1])) == delegate:
			is, ok := body[0].(*ast.IfStmt)
			if !ok || is.Init != nil || is.Else != nil || len(is.Body.List) != 1 {
				fail("%s: unknown conditional: %s", k, src)
			}
			var orNotExact bool
			switch squash(p.text(is.Cond)) {
			case "!" + recv + ".Exact || len(" + recv + ".Sources) == 0":
				orNotExact = true
			case "len(" + recv + ".Sources) == 0":
			default:
				fail("%s: unknown condition %s", k, p.text(is.Cond))
			}
			es, ok := returnList(k, recv, is.Body.List[0])
			if !ok {
				fail("%s: conditional branch is not a literal return: %s", k, src)
			}
			rows = append(rows, row{kind, ".literalIfNoSources " + leanBool(orNotExact) + " " + leanEntries(es), src})
		case kind == "SelectStatement":
			if len(body) != 4 ||
				squash(p.text(body[0])) != "ep, err := "+recv+".Sources.RequiredPrivileges()" ||
				squash(p.text(body[1])) != "if err != nil { return nil, err }" ||
				squash(p.text(body[3])) != "return ep, nil" {
				fail("%s: unknown frame: %s", k, src)
			}
			is, ok := body[2].(*ast.IfStmt)
			if !ok || is.Init != nil || is.Else != nil || len(is.Body.List) != 1 || squash(p.text(is.Cond)) != recv+".Target != nil" {
				fail("%s: unknown target branch: %s", k, squash(p.text(body[2])))
			}
			as, ok := is.Body.List[0].(*ast.AssignStmt)
			if !ok || len(as.Lhs) != 1 || p.text(as.Lhs[0]) != "ep" || as.Tok != token.ASSIGN {
				fail("%s: target branch: %s", k, squash(p.text(is.Body)))
			}
			call, ok := as.Rhs[0].(*ast.CallExpr)
			if !ok || p.text(call.Fun) != "append" || len(call.Args) != 2 || p.text(call.Args[0]) != "ep" || call.Ellipsis != token.NoPos {
				fail("%s: target branch: %s", k, squash(p.text(is.Body)))
			}
			cl, ok := call.Args[1].(*ast.CompositeLit)
			if !ok || cl.Type == nil || p.text(cl.Type) != "ExecutionPrivilege" {
				fail("%s: appended value: %s", k, p.text(call.Args[1]))
			}
			e := parseEntry(k, recv, cl, recv+".Target.Measurement.Database")
			selectEntry = &e
			rows = append(rows, row{kind, ".select", src})
		case kind == "CreateContinuousQueryStatement":
			if len(body) != 3 || squash(p.text(body[2])) != "return ep, nil" {
				fail("%s: unknown frame: %s", k, src)
			}
			as, ok := body[0].(*ast.AssignStmt)
			if !ok || as.Tok != token.DEFINE || len(as.Lhs) != 1 || p.text(as.Lhs[0]) != "ep" {
				fail("%s: first statement: %s", k, squash(p.text(body[0])))
			}
			base := parseList(k, recv, as.Rhs[0])
			tdb := recv + ".Source.Target.Measurement.Database"
			is, ok := body[1].(*ast.IfStmt)
			if !ok || is.Init != nil || is.Else != nil || squash(p.text(is.Cond)) != tdb+` != ""` || len(is.Body.List) != 3 {
				fail("%s: unknown target branch: %s", k, squash(p.text(body[1])))
			}
			rs, ok := is.Body.List[0].(*ast.AssignStmt)
			if !ok || rs.Tok != token.ASSIGN || p.text(rs.Lhs[0]) != "ep[0].Privilege" || !isConst[p.text(rs.Rhs[0])] {
				fail("%s: target branch, first statement: %s", k, squash(p.text(is.Body.List[0])))
			}
			ps, ok := is.Body.List[1].(*ast.AssignStmt)
			if !ok || ps.Tok != token.DEFINE || p.text(ps.Lhs[0]) != "p" {
				fail("%s: target branch, second statement: %s", k, squash(p.text(is.Body.List[1])))
			}
			cl, ok := ps.Rhs[0].(*ast.CompositeLit)
			if !ok || cl.Type == nil || p.text(cl.Type) != "ExecutionPrivilege" {
				fail("%s: target branch, second statement: %s", k, squash(p.text(is.Body.List[1])))
			}
			te := parseEntry(k, recv, cl, tdb)
			if squash(p.text(is.Body.List[2])) != "ep = append(ep, p)" {
				fail("%s: target branch, third statement: %s", k, squash(p.text(is.Body.List[2])))
			}
			rows = append(rows, row{kind, ".continuousQuery " + leanEntries(base) + " ." + p.text(rs.Rhs[0]) + " " + leanBool(te.admin) + " ." + te.priv, src})
		default:
			fail("%s: unknown body shape: %s", k, src)
		}
	}
	if selectEntry == nil {
		fail("SelectStatement.RequiredPrivileges not found")
	}
	if srcEntry == nil {
		fail("Sources.RequiredPrivileges not found")
	}
	if len(rows) == 0 {
		fail("no statement rows")
	}

	// --- emit
	f.pf("/-- The `Privilege` constants of ast.go in value order. -/\ninductive PrivConst where\n")
	for _, c := range consts {
		f.pf("  | %s\n", c.name)
	}
	f.pf("  deriving DecidableEq, Repr, Inhabited\n\n")

	var fields []string
	for n := range fieldsUsed {
		fields = append(fields, n)
	}
	sort.Strings(fields)
	f.pf("/-- Where the `Name` of a literal privilege comes from: `\"\"` or a string field of the receiver. -/\ninductive NameSource where\n  | empty\n")
	for _, n := range fields {
		f.pf("  | %s\n", n)
	}
	f.pf("  deriving DecidableEq, Repr, Inhabited\n\n")

	f.pf("/-- `ExecutionPrivilege{Admin, Name, Privilege}` as written in a literal. -/\nstructure PrivEntry where\n  admin : Bool\n  name : NameSource\n  priv : PrivConst\n  deriving DecidableEq, Repr, Inhabited\n\n")

	f.pf("/-- Every type with a `RequiredPrivileges` method (other than `Sources`), sorted by name. -/\ninductive StmtKind where\n")
	for _, r := range rows {
		f.pf("  | %s\n", r.kind)
	}
	f.pf("  deriving DecidableEq, Repr, Inhabited\n\n")
	f.pf("def StmtKind.all : List StmtKind := [")
	for i, r := range rows {
		if i > 0 {
			f.pf(", ")
		}
		f.pf(".%s", r.kind)
	}
	f.pf("]\n\n")
	f.pf("def StmtKind.name : StmtKind → String\n")
	for _, r := range rows {
		f.pf("  | .%s => %q\n", r.kind, r.kind)
	}
	f.pf("\n")

	f.pf("/-- Shape of a `RequiredPrivileges` body.\n")
	f.pf("* `literal es`: `return ExecutionPrivileges{es…}, nil`\n")
	f.pf("* `sources`: `return s.Sources.RequiredPrivileges()`\n")
	f.pf("* `literalIfNoSources orNotExact es`: `if [!s.Exact ||] len(s.Sources) == 0 { return es }; return s.Sources.RequiredPrivileges()`\n")
	f.pf("* `continuousQuery base reset tAdmin tPriv`: `ep := base; if s.Source.Target.Measurement.Database != \"\" { ep[0].Privilege = reset; ep = append(ep, {tAdmin, that database, tPriv}) }; return ep, nil`\n")
	f.pf("* `select`: `ep := s.Sources.RequiredPrivileges(); if s.Target != nil { ep = append(ep, selectTargetEntry on s.Target.Measurement.Database) }`\n")
	f.pf("* `explain`: `return e.Statement.RequiredPrivileges()` -/\n")
	f.pf("inductive PrivRule where\n  | literal (es : List PrivEntry)\n  | sources\n  | literalIfNoSources (orNotExact : Bool) (es : List PrivEntry)\n  | continuousQuery (base : List PrivEntry) (reset : PrivConst) (targetAdmin : Bool) (targetPriv : PrivConst)\n  | select\n  | explain\n  deriving DecidableEq, Repr, Inhabited\n\n")

	f.pf("/-- One row per statement type. -/\ndef privTable : List (StmtKind × PrivRule) := [\n")
	for i, r := range rows {
		sep := ","
		if i == len(rows)-1 {
			sep = ""
		}
		f.pf("  -- %s\n  (.%s, %s)%s\n", r.src, r.kind, r.rule, sep)
	}
	f.pf("]\n\n")
	f.pf("/-- `Sources.RequiredPrivileges`, `case *Measurement`: `Name: source.Database` with these. A `*SubQuery`\ncontributes `source.Statement.RequiredPrivileges()`; any other source is an error. -/\n")
	f.pf("def sourcesMeasurementAdmin : Bool := %s\ndef sourcesMeasurementPriv : PrivConst := .%s\n\n", leanBool(srcEntry.admin), srcEntry.priv)
	f.pf("/-- `SelectStatement.RequiredPrivileges`: the entry appended for `s.Target != nil`, `Name: s.Target.Measurement.Database`. -/\n")
	f.pf("def selectTargetAdmin : Bool := %s\ndef selectTargetPriv : PrivConst := .%s\n", leanBool(selectEntry.admin), selectEntry.priv)
	return f
}

func isIdent(s string) bool {
	if s == "" {
		return false
	}
	for i, r := range s {
		if !(r == '_' || (r >= 'a' && r <= 'z') || (r >= 'A' && r <= 'Z') || (i > 0 && r >= '0' && r <= '9')) {
			return false
		}
	}
	return true
}

package main

import (
	"go/ast"
	"go/token"
	"strings"
)

// genDuration extracts the unit table of ParseDuration and the ladder of FormatDuration.
func genDuration(p *pkgInfo) *leanFile {
	f := newLean("Duration")
	fd := p.fn("ParseDuration")
	// find the `switch a[i]` statement
	var sw *ast.SwitchStmt
	ast.Inspect(fd.Body, func(n ast.Node) bool {
		if s, ok := n.(*ast.SwitchStmt); ok && s.Tag != nil && p.text(s.Tag) == "a[i]" {
			if sw != nil {
				fail("ParseDuration: two switches on a[i]")
			}
			sw = s
		}
		return true
	})
	if sw == nil {
		fail("ParseDuration: switch a[i] not found")
	}
	type unit struct {
		r       rune
		two     string // multiplier when followed by 's' ("none" if no such form)
		one     string // multiplier otherwise ("none" = invalid)
		comment string
	}
	var units []unit
	multOf := func(st ast.Stmt, where string) (string, bool) {
		as, ok := st.(*ast.AssignStmt)
		if !ok || len(as.Lhs) != 1 || p.text(as.Lhs[0]) != "mult" || as.Tok != token.ASSIGN {
			return "", false
		}
		v, ok := p.constInt(as.Rhs[0])
		if !ok {
			fail("ParseDuration case %s: mult is not constant", where)
		}
		return "some " + itoa(v), true
	}
	sawDefault := false
	for _, c := range sw.Body.List {
		cc := c.(*ast.CaseClause)
		if cc.List == nil {
			if len(cc.Body) != 1 || p.text(cc.Body[0]) != "return 0, ErrInvalidDuration" {
				fail("ParseDuration: default clause is not `return 0, ErrInvalidDuration`")
			}
			sawDefault = true
			continue
		}
		u := unit{two: "none", one: "none", comment: strings.Join(strings.Fields(p.text(cc)), " ")}
		body := cc.Body
		// optional leading `if i+1 < len(a) && a[i+1] == 's' { unit = string(a[i : i+2]); mult = X; i++; break }`
		if len(body) > 0 {
			if is, ok := body[0].(*ast.IfStmt); ok {
				if p.text(is.Cond) != "i+1 < len(a) && a[i+1] == 's'" || is.Else != nil || is.Init != nil {
					fail("ParseDuration: unknown if in case: %s", p.text(is.Cond))
				}
				b := is.Body.List
				if len(b) != 4 || p.text(b[0]) != "unit = string(a[i : i+2])" || p.text(b[2]) != "i++" || p.text(b[3]) != "break" {
					fail("ParseDuration: unknown two-rune unit body: %s", p.text(is.Body))
				}
				m, ok := multOf(b[1], "two-rune")
				if !ok {
					fail("ParseDuration: two-rune unit body lacks mult assignment")
				}
				u.two = m
				body = body[1:]
			}
		}
		if len(body) != 1 {
			fail("ParseDuration: case body has %d trailing statements: %s", len(body), u.comment)
		}
		if m, ok := multOf(body[0], "one-rune"); ok {
			u.one = m
		} else if p.text(body[0]) != "return 0, ErrInvalidDuration" {
			fail("ParseDuration: unknown case tail %s", p.text(body[0]))
		}
		for _, e := range cc.List {
			v, ok := p.constInt(e)
			if !ok {
				fail("ParseDuration: non-constant case label")
			}
			uu := u
			uu.r = rune(v)
			units = append(units, uu)
		}
	}
	if !sawDefault {
		fail("ParseDuration: switch has no default clause")
	}
	f.pf("/-- `ParseDuration`: `switch a[i]` — per unit rune: multiplier (ns) when the next rune is `s`\n(two-rune unit), multiplier otherwise; `none` = `ErrInvalidDuration`. Unlisted runes are invalid. -/\n")
	f.pf("def durationUnits : List (Char × Option Int × Option Int) := [\n")
	for i, u := range units {
		sep := ","
		if i == len(units)-1 {
			sep = ""
		}
		f.pf("  (%s, %s, %s)%s\n", leanChar(u.r), u.two, u.one, sep)
	}
	f.pf("]\n\n")

	// The overflow guard, as text (the model mirrors it by hand; a change here is a broken tie).
	guard := ""
	ast.Inspect(fd.Body, func(n ast.Node) bool {
		if is, ok := n.(*ast.IfStmt); ok && strings.Contains(p.text(is.Body), "overflowed duration") {
			guard = p.text(is.Cond)
		}
		return true
	})
	f.pf("/-- Condition guarding the `overflowed duration` error in `ParseDuration`. -/\ndef durationOverflowGuard : String := %q\n\n", guard)

	// FormatDuration ladder
	ff := p.fn("FormatDuration")
	if len(ff.Body.List) != 2 {
		fail("FormatDuration: expected if-chain + return")
	}
	is, ok := ff.Body.List[0].(*ast.IfStmt)
	if !ok || p.text(is.Cond) != "d == 0" || p.text(is.Body) != "{\n\t\treturn \"0s\"\n\t}" {
		fail("FormatDuration: first branch is not d == 0 → \"0s\"")
	}
	f.pf("/-- `FormatDuration`: the `else if d%%X == 0 { return Sprintf(\"%%d<suffix>\", d/X) }` ladder, in source order. -/\ndef formatLadder : List (Int × List Char) := [\n")
	first := true
	for cur := is.Else; cur != nil; {
		ei, ok := cur.(*ast.IfStmt)
		if !ok {
			fail("FormatDuration: trailing else block")
		}
		be, ok := ei.Cond.(*ast.BinaryExpr)
		if !ok || be.Op != token.EQL || p.text(be.Y) != "0" {
			fail("FormatDuration: condition %s", p.text(ei.Cond))
		}
		me, ok := be.X.(*ast.BinaryExpr)
		if !ok || me.Op != token.REM || p.text(me.X) != "d" {
			fail("FormatDuration: condition %s", p.text(ei.Cond))
		}
		div, ok := p.constInt(me.Y)
		if !ok {
			fail("FormatDuration: non-constant divisor %s", p.text(me.Y))
		}
		// body: return fmt.Sprintf("%dX", d/DIV) possibly preceded by comments
		var ret *ast.ReturnStmt
		for _, s := range ei.Body.List {
			if r, ok := s.(*ast.ReturnStmt); ok {
				ret = r
			} else {
				fail("FormatDuration: unknown statement in ladder")
			}
		}
		if ret == nil || len(ret.Results) != 1 {
			fail("FormatDuration: ladder body without return")
		}
		call, ok := ret.Results[0].(*ast.CallExpr)
		if !ok || p.text(call.Fun) != "fmt.Sprintf" || len(call.Args) != 2 {
			fail("FormatDuration: ladder return is not Sprintf")
		}
		format, ok := p.constStr(call.Args[0])
		if !ok || !strings.HasPrefix(format, "%d") || strings.Contains(format[2:], "%") {
			fail("FormatDuration: format %s", p.text(call.Args[0]))
		}
		de, ok := call.Args[1].(*ast.BinaryExpr)
		if !ok || de.Op != token.QUO || p.text(de.X) != "d" {
			fail("FormatDuration: argument %s", p.text(call.Args[1]))
		}
		div2, ok := p.constInt(paren(de.Y))
		if !ok || div2 != div {
			fail("FormatDuration: divisor mismatch %s vs %s", p.text(me.Y), p.text(de.Y))
		}
		if !first {
			f.pf(",\n")
		}
		first = false
		f.pf("  (%s, %s)", itoa(div), leanChars(format[2:]))
		cur = ei.Else
	}
	f.pf("\n]\n\n")
	rs, ok := ff.Body.List[1].(*ast.ReturnStmt)
	if !ok || len(rs.Results) != 1 {
		fail("FormatDuration: final statement")
	}
	call, ok := rs.Results[0].(*ast.CallExpr)
	if !ok || p.text(call.Fun) != "fmt.Sprintf" || len(call.Args) != 2 || p.text(call.Args[1]) != "d" {
		fail("FormatDuration: final return")
	}
	format, ok := p.constStr(call.Args[0])
	if !ok || !strings.HasPrefix(format, "%d") {
		fail("FormatDuration: final format")
	}
	f.pf("/-- `FormatDuration`: suffix of the final `Sprintf(\"%%d<suffix>\", d)`. -/\ndef formatFallbackSuffix : List Char := %s\n", leanChars(format[2:]))
	return f
}

func paren(e ast.Expr) ast.Expr {
	for {
		pe, ok := e.(*ast.ParenExpr)
		if !ok {
			return e
		}
		e = pe.X
	}
}

func itoa(v int64) string {
	if v < 0 {
		return "(" + strings.TrimSpace(strings.Replace(strings.TrimSpace(sprint(v)), " ", "", -1)) + ")"
	}
	return sprint(v)
}

func init() { registerGen("Duration", genDuration) }

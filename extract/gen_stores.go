package main

// Gen/Stores.lean: inventory of heap stores whose target is not freshly built,
// for the functions reachable from a fixed set of operations.
//
// What counts as a store:   x.f = …   x[i] = …   *x = …   x.f++   m[k] = …   delete(m, k)
// copy(dst, …)   sort.Sort/Stable/Strings/Slice(x)   and  v = append(x, …)  (which may write into
// the backing array of x).  Stores into the storage of a local variable itself (fields of a
// struct value held in a local, e.g. `clone := *s; clone.Fields = …`) are not heap stores.
//
// The *base* of a store is the origin of the object that holds the written cell.  It is found
// syntactically: walk the left-hand side down to the first pointer / slice / map indirection and
// classify the value that is dereferenced there by the root variable it is read from:
//
//	receiver | param | closureParam (parameter of a func literal) | global (package-level variable)
//	clone   (result of Clone / CloneExpr / cloneSource(s) / CloneRegexLiteral, or reached from one)
//	call    (result of any other call that returns a pointer-like value)
//	fresh   (composite literal, make, new, &local, a declared-and-never-aliased local)
//
// A variable's class is the union over all assignments to it in the function (range variables,
// type-switch variables and comma-ok results take the class of the expression they are drawn
// from), iterated to a fixed point; the worst member of the union is reported.  Only stores
// whose base is not purely fresh are listed.
//
// Limits (documented, reviewed by hand in Props/C14.lean): no alias analysis through struct
// fields (a field that was just overwritten with make(...) still has the class of its holder);
// no inter-procedural flow (a callee storing through its parameter is listed in the callee, with
// base `param`, and it is the review that says what the callers pass); calls through interface
// values are resolved by method name to every method of the package with that name; stores done
// by library code other than copy/sort/append are not seen.

import (
	"go/ast"
	"go/token"
	"go/types"
	"sort"
	"strings"
)

const (
	cFresh = 1 << iota
	cClone
	cCall
	cClosureParam
	cParam
	cReceiver
	cGlobal
)

func worst(c int) string {
	switch {
	case c&cGlobal != 0:
		return "global"
	case c&cReceiver != 0:
		return "receiver"
	case c&cParam != 0:
		return "param"
	case c&cClosureParam != 0:
		return "closureParam"
	case c&cCall != 0:
		return "call"
	case c&cClone != 0:
		return "clone"
	}
	return "fresh"
}

var cloneFuncs = map[string]bool{"Clone": true, "CloneExpr": true, "cloneSources": true, "cloneSource": true, "CloneRegexLiteral": true}

type storeEntry struct{ fn, text, base string }

type funcAnalysis struct {
	p       *pkgInfo
	fd      *ast.FuncDecl
	classes map[types.Object]int
}

func (p *pkgInfo) isPkgLevel(o types.Object) bool {
	v, ok := o.(*types.Var)
	return ok && !v.IsField() && v.Pkg() != nil && v.Parent() == v.Pkg().Scope()
}

func pointerLike(t types.Type) bool {
	if t == nil {
		return true
	}
	switch u := t.Underlying().(type) {
	case *types.Basic:
		return u.Kind() == types.UnsafePointer || u.Kind() == types.UntypedNil
	case *types.Struct:
		for i := 0; i < u.NumFields(); i++ {
			if pointerLike(u.Field(i).Type()) {
				return true
			}
		}
		return false
	case *types.Array:
		return pointerLike(u.Elem())
	}
	return true
}

// rhsClass: the class of the objects a value of this expression can point to.
func (a *funcAnalysis) rhsClass(e ast.Expr) int {
	if tv, ok := a.p.info.Types[e]; ok && tv.Type != nil && !pointerLike(tv.Type) {
		return cFresh // a pure value: nothing can be stored through it
	}
	switch e := e.(type) {
	case *ast.ParenExpr:
		return a.rhsClass(e.X)
	case *ast.Ident:
		o := a.p.info.Uses[e]
		if o == nil {
			o = a.p.info.Defs[e]
		}
		if o == nil {
			return cFresh
		}
		if a.p.isPkgLevel(o) {
			return cGlobal
		}
		if _, ok := o.(*types.Var); ok {
			return a.classes[o]
		}
		return cFresh // nil, constants, functions
	case *ast.SelectorExpr:
		if id, ok := e.X.(*ast.Ident); ok {
			if _, ok := a.p.info.Uses[id].(*types.PkgName); ok {
				if _, ok := a.p.info.Uses[e.Sel].(*types.Var); ok {
					return cGlobal // variable of another package (time.UTC)
				}
				return cFresh
			}
		}
		return a.rhsClass(e.X)
	case *ast.IndexExpr:
		return a.rhsClass(e.X)
	case *ast.SliceExpr:
		return a.rhsClass(e.X)
	case *ast.StarExpr:
		return a.rhsClass(e.X)
	case *ast.TypeAssertExpr:
		return a.rhsClass(e.X)
	case *ast.UnaryExpr:
		if e.Op == token.AND {
			switch x := e.X.(type) {
			case *ast.CompositeLit:
				return cFresh
			case *ast.Ident:
				if o := a.p.info.Uses[x]; o != nil && !a.p.isPkgLevel(o) {
					return cFresh | a.classes[o] // address of a local; what the local holds stays reachable
				}
			}
			return a.rhsClass(e.X)
		}
		return cFresh
	case *ast.CompositeLit, *ast.FuncLit, *ast.BasicLit, *ast.BinaryExpr:
		return cFresh
	case *ast.CallExpr:
		if tv, ok := a.p.info.Types[e.Fun]; ok && tv.IsType() && len(e.Args) == 1 {
			return a.rhsClass(e.Args[0]) // conversion
		}
		switch fun := e.Fun.(type) {
		case *ast.Ident:
			if _, ok := a.p.info.Uses[fun].(*types.Builtin); ok {
				if fun.Name == "append" && len(e.Args) > 0 {
					if c := a.rhsClass(e.Args[0]); c != 0 {
						return c
					}
				}
				return cFresh
			}
			if cloneFuncs[fun.Name] {
				return cClone
			}
		case *ast.SelectorExpr:
			if cloneFuncs[fun.Sel.Name] {
				if _, isPkg := a.p.info.Uses[rootIdent(fun.X)].(*types.PkgName); !isPkg {
					return cClone
				}
			}
		}
		return cCall
	}
	return cCall
}

func rootIdent(e ast.Expr) *ast.Ident {
	for {
		switch x := e.(type) {
		case *ast.Ident:
			return x
		case *ast.ParenExpr:
			e = x.X
		case *ast.SelectorExpr:
			e = x.X
		case *ast.IndexExpr:
			e = x.X
		case *ast.StarExpr:
			e = x.X
		default:
			return &ast.Ident{Name: "?"}
		}
	}
}

func (a *funcAnalysis) obj(id *ast.Ident) types.Object {
	if o := a.p.info.Defs[id]; o != nil {
		return o
	}
	return a.p.info.Uses[id]
}

func (a *funcAnalysis) add(lhs ast.Expr, c int, changed *bool) {
	id, ok := lhs.(*ast.Ident)
	if !ok || id.Name == "_" {
		return
	}
	o := a.obj(id)
	if o == nil || a.p.isPkgLevel(o) {
		return
	}
	if a.classes[o]|c != a.classes[o] {
		a.classes[o] |= c
		*changed = true
	}
}

func (a *funcAnalysis) solve() {
	a.classes = map[types.Object]int{}
	if a.fd.Recv != nil {
		for _, f := range a.fd.Recv.List {
			for _, n := range f.Names {
				a.classes[a.p.info.Defs[n]] = cReceiver
			}
		}
	}
	for _, f := range a.fd.Type.Params.List {
		for _, n := range f.Names {
			a.classes[a.p.info.Defs[n]] = cParam
		}
	}
	if a.fd.Type.Results != nil {
		for _, f := range a.fd.Type.Results.List {
			for _, n := range f.Names {
				a.classes[a.p.info.Defs[n]] = cFresh
			}
		}
	}
	ast.Inspect(a.fd.Body, func(n ast.Node) bool {
		if fl, ok := n.(*ast.FuncLit); ok {
			for _, f := range fl.Type.Params.List {
				for _, n := range f.Names {
					a.classes[a.p.info.Defs[n]] = cClosureParam
				}
			}
		}
		return true
	})
	for changed := true; changed; {
		changed = false
		ast.Inspect(a.fd.Body, func(n ast.Node) bool {
			switch s := n.(type) {
			case *ast.AssignStmt:
				if len(s.Lhs) == len(s.Rhs) {
					for i := range s.Lhs {
						a.add(s.Lhs[i], a.rhsClass(s.Rhs[i]), &changed)
					}
				} else if len(s.Rhs) == 1 {
					c := a.rhsClass(s.Rhs[0])
					_, isCall := s.Rhs[0].(*ast.CallExpr)
					for i := range s.Lhs {
						if i == 0 || isCall {
							a.add(s.Lhs[i], c, &changed)
						} else {
							a.add(s.Lhs[i], cFresh, &changed)
						}
					}
				}
			case *ast.ValueSpec:
				for i, nm := range s.Names {
					c := cFresh
					if len(s.Values) == len(s.Names) {
						c = a.rhsClass(s.Values[i])
					} else if len(s.Values) == 1 {
						c = a.rhsClass(s.Values[0])
					}
					a.add(nm, c, &changed)
				}
			case *ast.RangeStmt:
				if s.Key != nil {
					a.add(s.Key, cFresh, &changed)
				}
				if s.Value != nil {
					a.add(s.Value, a.rhsClass(s.X), &changed)
				}
			case *ast.TypeSwitchStmt:
				if as, ok := s.Assign.(*ast.AssignStmt); ok {
					c := a.rhsClass(as.Rhs[0].(*ast.TypeAssertExpr).X)
					for _, cl := range s.Body.List {
						if o := a.p.info.Implicits[cl]; o != nil && a.classes[o]|c != a.classes[o] {
							a.classes[o] |= c
							changed = true
						}
					}
				}
			}
			return true
		})
	}
}

// target classifies the memory cell denoted by an lvalue: local storage, or the class of the object holding it.
func (a *funcAnalysis) target(e ast.Expr) (class int, local bool) {
	switch e := e.(type) {
	case *ast.ParenExpr:
		return a.target(e.X)
	case *ast.Ident:
		o := a.obj(e)
		if o != nil && a.p.isPkgLevel(o) {
			return cGlobal, false
		}
		return 0, true
	case *ast.SelectorExpr:
		if id, ok := e.X.(*ast.Ident); ok {
			if _, ok := a.p.info.Uses[id].(*types.PkgName); ok {
				return cGlobal, false
			}
		}
		if tv, ok := a.p.info.Types[e.X]; ok {
			if _, isPtr := tv.Type.Underlying().(*types.Pointer); !isPtr {
				return a.target(e.X)
			}
		}
		return a.rhsClass(e.X), false
	case *ast.IndexExpr:
		if tv, ok := a.p.info.Types[e.X]; ok {
			if _, isArr := tv.Type.Underlying().(*types.Array); isArr {
				return a.target(e.X)
			}
		}
		return a.rhsClass(e.X), false
	case *ast.StarExpr:
		return a.rhsClass(e.X), false
	}
	return cCall, false
}

func storeNormText(s string, max int) string {
	s = strings.Join(strings.Fields(s), " ")
	r := []rune(s)
	if len(r) > max {
		return string(r[:max]) + "…"
	}
	return s
}

func (a *funcAnalysis) stores() []storeEntry {
	a.solve()
	fn := funcKey(a.fd)
	var out []storeEntry
	emit := func(n ast.Node, c int) {
		if c == 0 || c == cFresh {
			return
		}
		e := storeEntry{fn, storeNormText(a.p.text(n), 72), worst(c)}
		if len(out) > 0 && out[len(out)-1] == e {
			return // same statement, several left-hand sides
		}
		out = append(out, e)
	}
	lvalue := func(stmt ast.Node, lhs ast.Expr) {
		if id, ok := lhs.(*ast.Ident); ok && id.Name == "_" {
			return
		}
		c, local := a.target(lhs)
		if !local {
			emit(stmt, c)
		}
	}
	ast.Inspect(a.fd.Body, func(n ast.Node) bool {
		switch s := n.(type) {
		case *ast.AssignStmt:
			for i, l := range s.Lhs {
				lvalue(s, l)
				// v = append(x, …) may write into the backing array of x
				if i < len(s.Rhs) {
					if call, ok := s.Rhs[i].(*ast.CallExpr); ok {
						if id, ok := call.Fun.(*ast.Ident); ok && id.Name == "append" && len(call.Args) > 0 {
							if _, ok := a.p.info.Uses[id].(*types.Builtin); ok {
								emit(s, a.rhsClass(call.Args[0]))
							}
						}
					}
				}
			}
		case *ast.IncDecStmt:
			lvalue(s, s.X)
		case *ast.ExprStmt:
			call, ok := s.X.(*ast.CallExpr)
			if !ok || len(call.Args) == 0 {
				return true
			}
			switch name := a.p.text(call.Fun); name {
			case "delete", "copy":
				if id, ok := call.Fun.(*ast.Ident); ok {
					if _, ok := a.p.info.Uses[id].(*types.Builtin); ok {
						emit(s, a.rhsClass(call.Args[0]))
					}
				}
			case "sort.Sort", "sort.Stable", "sort.Strings", "sort.Slice", "sort.SliceStable", "sort.Ints":
				emit(s, a.rhsClass(call.Args[0]))
			}
		}
		return true
	})
	return out
}

// ---- call graph ----

type callGraph struct {
	p       *pkgInfo
	declOf  map[types.Object]*ast.FuncDecl
	byName  map[string][]*ast.FuncDecl // methods by name
	callees map[*ast.FuncDecl][]*ast.FuncDecl
}

func newCallGraph(p *pkgInfo) *callGraph {
	g := &callGraph{p: p, declOf: map[types.Object]*ast.FuncDecl{}, byName: map[string][]*ast.FuncDecl{}, callees: map[*ast.FuncDecl][]*ast.FuncDecl{}}
	for _, fd := range p.funcs {
		if o := p.info.Defs[fd.Name]; o != nil {
			g.declOf[o] = fd
		}
		if fd.Recv != nil {
			g.byName[fd.Name.Name] = append(g.byName[fd.Name.Name], fd)
		}
	}
	return g
}

func (g *callGraph) calls(fd *ast.FuncDecl) []*ast.FuncDecl {
	if c, ok := g.callees[fd]; ok {
		return c
	}
	seen := map[*ast.FuncDecl]bool{}
	var out []*ast.FuncDecl
	add := func(d *ast.FuncDecl) {
		if d != nil && d.Body != nil && !seen[d] {
			seen[d] = true
			out = append(out, d)
		}
	}
	if fd.Body != nil {
		ast.Inspect(fd.Body, func(n ast.Node) bool {
			// every reference to a function or method of the package counts (calls and function values)
			switch e := n.(type) {
			case *ast.Ident:
				if o, ok := g.p.info.Uses[e].(*types.Func); ok {
					add(g.declOf[o])
				}
			case *ast.SelectorExpr:
				if sel := g.p.info.Selections[e]; sel != nil && sel.Kind() == types.MethodVal {
					if types.IsInterface(sel.Recv()) {
						for _, d := range g.byName[e.Sel.Name] {
							add(d)
						}
					} else {
						add(g.declOf[sel.Obj()])
					}
				}
			}
			return true
		})
	}
	g.callees[fd] = out
	return out
}

func (g *callGraph) closure(roots []string) []*ast.FuncDecl {
	seen := map[*ast.FuncDecl]bool{}
	var work, out []*ast.FuncDecl
	for _, r := range roots {
		fd := g.p.fn(r)
		if !seen[fd] {
			seen[fd] = true
			work = append(work, fd)
		}
	}
	for len(work) > 0 {
		fd := work[0]
		work = work[1:]
		out = append(out, fd)
		for _, c := range g.calls(fd) {
			if !seen[c] {
				seen[c] = true
				work = append(work, c)
			}
		}
	}
	sort.Slice(out, func(i, j int) bool { return funcKey(out[i]) < funcKey(out[j]) })
	return out
}

// methodsNamed returns the keys of all methods with the given name, sorted.
func (p *pkgInfo) methodsNamed(name string) []string {
	var out []string
	for k, fd := range p.funcs {
		if fd.Recv != nil && fd.Name.Name == name {
			out = append(out, k)
		}
	}
	sort.Strings(out)
	return out
}

func storesOf(p *pkgInfo, fds []*ast.FuncDecl) []storeEntry {
	var out []storeEntry
	for _, fd := range fds {
		if fd.Body == nil {
			continue
		}
		a := &funcAnalysis{p: p, fd: fd}
		out = append(out, a.stores()...)
	}
	return out
}

func leanStores(f *leanFile, name, doc string, es []storeEntry) {
	f.pf("/-- %s -/\ndef %s : List Store := [\n", doc, name)
	for i, e := range es {
		f.pf("  -- %s: %s\n  { fn := %s, text := %s, base := .%s }%s\n", e.fn, e.text, leanChars(e.fn), leanChars(e.text), e.base, comma(i, len(es)))
	}
	f.pf("]\n\n")
}

func leanNames(f *leanFile, name, doc string, xs []string) {
	f.pf("/-- %s -/\ndef %s : List (List Char) := [\n", doc, name)
	for i, x := range xs {
		f.pf("  %s%s  -- %s\n", leanChars(x), comma(i, len(xs)), x)
	}
	f.pf("]\n\n")
}

// readOnlyRoots: the operations the properties C14 / C17 call read-only on their receiver / on a shared AST.
func readOnlyRoots(p *pkgInfo) []string {
	roots := []string{
		// reduce, expand wildcards
		"Reduce", "SelectStatement.Reduce", "SelectStatement.RewriteFields",
		// evaluation
		"Eval", "EvalBool", "ValuerEval.Eval", "ValuerEval.EvalBool", "EvalType", "TypeValuerEval.EvalType", "FieldDimensions",
		"ConditionExpr", "HasTimeExpr", "ContainsVarRef", "IsSelector",
		// names
		"SelectStatement.ColumnNames", "SelectStatement.FieldExprByName", "SelectStatement.TimeFieldName", "SelectStatement.TimeAscending",
		"SelectStatement.HasWildcard", "SelectStatement.HasFieldWildcard", "SelectStatement.HasDimensionWildcard",
		"Fields.Names", "Fields.AliasNames", "Field.Name", "ExprNames", "BinaryExprName", "Sources.Measurements", "Dimensions.Normalize",
		// clone, walk
		"SelectStatement.Clone", "Measurement.Clone", "CloneExpr", "CloneRegexLiteral", "Walk", "WalkFunc",
	}
	roots = append(roots, p.methodsNamed("String")...)
	roots = append(roots, p.methodsNamed("RequiredPrivileges")...)
	roots = append(roots, p.methodsNamed("DefaultDatabase")...)
	sort.Strings(roots)
	return roots
}

// inPlaceFuncs: the operations documented to rewrite their receiver / argument in place (no closure:
// each function on its own).  Listed to show what the analysis reports for code that does mutate.
var inPlaceFuncs = []string{
	"Rewrite", "RewriteExpr", "RewriteFunc", "SelectStatement.GroupByInterval", "SelectStatement.RewriteDistinct",
	"SelectStatement.RewriteRegexConditions", "SelectStatement.RewriteTimeFields", "SelectStatement.SetTimeRange",
	"SelectStatement.rewriteWithoutTimeDimensions",
}

func genStores(p *pkgInfo) *leanFile {
	g := newCallGraph(p)
	roots := readOnlyRoots(p)
	fds := g.closure(roots)
	var names []string
	for _, fd := range fds {
		names = append(names, funcKey(fd))
	}
	f := newLean("Stores", "InfluxQL.Model.CloneTable")
	f.pf("open InfluxQL.CloneTable\n\n")
	leanNames(f, "readOnlyRoots", "Operations that C14 / C17 require to leave their receiver (a shared AST) alone.", roots)
	leanNames(f, "readOnlyFuncs", "Every function of the package reachable from `readOnlyRoots` (interface calls resolved by method name).", names)
	leanStores(f, "readOnlyStores", "Heap stores with a non-fresh base in `readOnlyFuncs`, by function name, then in source order.", storesOf(p, fds))
	var ip []*ast.FuncDecl
	for _, n := range inPlaceFuncs {
		ip = append(ip, p.fn(n))
	}
	leanNames(f, "inPlaceFuncs", "The in-place rewrites (each function on its own, no call-graph closure).", inPlaceFuncs)
	leanStores(f, "inPlaceStores", "Heap stores with a non-fresh base in `inPlaceFuncs`.", storesOf(p, ip))
	return f
}

func init() { registerGen("Stores", genStores) }

package main

import (
	"go/ast"
	"go/token"
	"go/types"
	"sort"
	"strings"
)

// genSitesAst: inventory of the places in ast.go where the Go runtime can panic for a reason
// visible in the syntax: index and slice expressions on slices/arrays/strings, type assertions
// without comma-ok (outside type switches), integer division or remainder by a non-constant,
// explicit panic calls. Each site is (function, kind, normalised expression text); no line
// numbers, so moving code is harmless, but adding, removing or rewriting a site changes the list.
//
// Filtered out as statically safe: `x[i]` where i is the key of an enclosing `for i := range x`
// over the same operand text; index/slice with only constant operands on arrays; map reads.
func genSitesAst(p *pkgInfo) *leanFile {
	return genSitesFor(p, "SitesAst", []string{"ast.go", "utils.go"})
}

type site struct{ fn, kind, text string }

func genSitesFor(p *pkgInfo, name string, files []string) *leanFile {
	var sites []site
	for _, fname := range files {
		f := p.files[fname]
		if f == nil {
			fail("%s missing", fname)
		}
		for _, d := range f.Decls {
			fd, ok := d.(*ast.FuncDecl)
			if !ok || fd.Body == nil {
				continue
			}
			sites = append(sites, sitesOfFunc(p, fd)...)
		}
	}
	sort.Slice(sites, func(i, j int) bool {
		if sites[i].fn != sites[j].fn {
			return sites[i].fn < sites[j].fn
		}
		if sites[i].kind != sites[j].kind {
			return sites[i].kind < sites[j].kind
		}
		return sites[i].text < sites[j].text
	})
	lf := newLean(name)
	lf.pf("/-- Potential panic sites of %s: (function, kind, expression). -/\n", strings.Join(files, ", "))
	lf.pf("def %s : List (String × String × String) := [\n", lowerFirst(name))
	for i, s := range sites {
		sep := ","
		if i == len(sites)-1 {
			sep = ""
		}
		lf.pf("  (%q, %q, %q)%s\n", s.fn, s.kind, s.text, sep)
	}
	lf.pf("]\n")
	return lf
}

func normText(s string) string { return strings.Join(strings.Fields(s), " ") }

func sitesOfFunc(p *pkgInfo, fd *ast.FuncDecl) []site {
	fn := funcKey(fd)
	var out []site
	// range keys in scope: operand text -> key name
	type rng struct{ operand, key string }
	var ranges []rng
	var walk func(n ast.Node, inTypeSwitch bool, okAssert map[*ast.TypeAssertExpr]bool)
	okAssert := map[*ast.TypeAssertExpr]bool{}
	// pre-pass: comma-ok assertions and type-switch guards
	ast.Inspect(fd.Body, func(n ast.Node) bool {
		switch n := n.(type) {
		case *ast.AssignStmt:
			if len(n.Lhs) == 2 && len(n.Rhs) == 1 {
				if ta, ok := n.Rhs[0].(*ast.TypeAssertExpr); ok {
					okAssert[ta] = true
				}
			}
		case *ast.ValueSpec:
			if len(n.Names) == 2 && len(n.Values) == 1 {
				if ta, ok := n.Values[0].(*ast.TypeAssertExpr); ok {
					okAssert[ta] = true
				}
			}
		case *ast.TypeSwitchStmt:
			ast.Inspect(n.Assign, func(m ast.Node) bool {
				if ta, ok := m.(*ast.TypeAssertExpr); ok {
					okAssert[ta] = true
				}
				return true
			})
		}
		return true
	})
	isIndexable := func(e ast.Expr) (bool, bool) { // (indexable non-map, is array)
		tv, ok := p.info.Types[e]
		if !ok || tv.Type == nil {
			return true, false // unknown: keep the site
		}
		t := tv.Type.Underlying()
		if pt, ok := t.(*types.Pointer); ok {
			t = pt.Elem().Underlying()
		}
		switch t.(type) {
		case *types.Map:
			return false, false
		case *types.Array:
			return true, true
		}
		return true, false
	}
	isConst := func(e ast.Expr) bool {
		if e == nil {
			return true
		}
		tv, ok := p.info.Types[e]
		return ok && tv.Value != nil
	}
	isInteger := func(e ast.Expr) bool {
		tv, ok := p.info.Types[e]
		if !ok || tv.Type == nil {
			return false
		}
		b, ok := tv.Type.Underlying().(*types.Basic)
		return ok && b.Info()&types.IsInteger != 0
	}
	walk = func(n ast.Node, inTypeSwitch bool, _ map[*ast.TypeAssertExpr]bool) {
		if n == nil {
			return
		}
		switch n := n.(type) {
		case *ast.RangeStmt:
			walk(n.X, false, nil)
			pushed := false
			if k, ok := n.Key.(*ast.Ident); ok && k.Name != "_" {
				ranges = append(ranges, rng{normText(p.text(n.X)), k.Name})
				pushed = true
			}
			walk(n.Body, false, nil)
			if pushed {
				ranges = ranges[:len(ranges)-1]
			}
			return
		case *ast.IndexExpr:
			if ok, isArr := isIndexable(n.X); ok {
				safe := false
				if id, ok := n.Index.(*ast.Ident); ok {
					for _, r := range ranges {
						if r.key == id.Name && r.operand == normText(p.text(n.X)) {
							safe = true
						}
					}
				}
				if isArr && isConst(n.Index) {
					safe = true
				}
				if !safe {
					out = append(out, site{fn, "index", normText(p.text(n))})
				}
			}
		case *ast.SliceExpr:
			if !(isConst(n.Low) && isConst(n.High) && isConst(n.Max)) {
				out = append(out, site{fn, "slice", normText(p.text(n))})
			} else if n.Low != nil || n.High != nil {
				out = append(out, site{fn, "slice", normText(p.text(n))})
			}
		case *ast.TypeAssertExpr:
			if n.Type != nil && !okAssert[n] {
				out = append(out, site{fn, "assert", normText(p.text(n))})
			}
		case *ast.BinaryExpr:
			if (n.Op == token.QUO || n.Op == token.REM) && isInteger(n.X) && !isConst(n.Y) {
				out = append(out, site{fn, "divide", normText(p.text(n))})
			}
		case *ast.AssignStmt:
			if (n.Tok == token.QUO_ASSIGN || n.Tok == token.REM_ASSIGN) && len(n.Lhs) == 1 && isInteger(n.Lhs[0]) && !isConst(n.Rhs[0]) {
				out = append(out, site{fn, "divide", normText(p.text(n))})
			}
		case *ast.CallExpr:
			if id, ok := n.Fun.(*ast.Ident); ok && id.Name == "panic" {
				out = append(out, site{fn, "panic", normText(p.text(n))})
			}
		}
		// generic descent
		ast.Inspect(n, func(m ast.Node) bool {
			if m == n || m == nil {
				return true
			}
			walk(m, false, nil)
			return false
		})
	}
	walk(fd.Body, false, nil)
	// de-duplicate identical sites within a function (keeps the list stable under copy/paste of a guard)
	seen := map[site]int{}
	var uniq []site
	for _, s := range out {
		seen[s]++
		if seen[s] == 1 {
			uniq = append(uniq, s)
		}
	}
	return uniq
}

func init() { registerGen("SitesAst", genSitesAst) }

package main

// Gen/Globals.lean (C17): the package-level variables of /repo and every way the code touches
// them outside `init` functions and package-level initialisers.
//
//	globalVars          name and type of every package-level variable (blank `_` assertions excluded)
//	globalWrites        heap stores whose base is a package-level variable (same analysis and limits
//	                    as Gen/Stores.lean: assignment, inc/dec, map update, delete, append, copy, sort)
//	                    plus plain assignments `v = …` to a package-level variable
//	globalUses          every other mention of a package-level variable outside init, as
//	                    (function, variable, mode): `read` (value read, index, range, passed on),
//	                    `addr` (&v), `call M` (method M called on it)
//	globalMethodStores  for every method of the package that is called on a package-level variable:
//	                    its heap stores with base `receiver` (they would be writes to the variable)
//
// Files are loaded as the harness builds them (-tags verif), so the instrumentation hooks are included.

import (
	"go/ast"
	"go/token"
	"go/types"
	"sort"
)

type globalUse struct{ fn, v, mode string }

func genGlobals(p *pkgInfo) *leanFile {
	// package-level variables, in file / source order
	type gvar struct{ name, typ string }
	var vars []gvar
	var fileNames []string
	for n := range p.files {
		fileNames = append(fileNames, n)
	}
	sort.Strings(fileNames)
	for _, fn := range fileNames {
		for _, d := range p.files[fn].Decls {
			gd, ok := d.(*ast.GenDecl)
			if !ok || gd.Tok != token.VAR {
				continue
			}
			for _, s := range gd.Specs {
				for _, nm := range s.(*ast.ValueSpec).Names {
					if nm.Name == "_" {
						continue
					}
					o := p.info.Defs[nm]
					if o == nil {
						fail("Globals: no object for %s", nm.Name)
					}
					vars = append(vars, gvar{nm.Name, types.TypeString(o.Type(), func(pk *types.Package) string {
						if pk.Path() == "github.com/influxdata/influxql" {
							return ""
						}
						return pk.Name()
					})})
				}
			}
		}
	}

	var fds []*ast.FuncDecl
	for _, fd := range p.funcs {
		if fd.Body != nil && !(fd.Recv == nil && fd.Name.Name == "init") {
			fds = append(fds, fd)
		}
	}
	// p.funcs is keyed by name, so of several init functions only one is in the map: make sure
	// none of the others is mistaken for an ordinary function (they are not in the map at all).
	sort.Slice(fds, func(i, j int) bool { return funcKey(fds[i]) < funcKey(fds[j]) })

	var writes []storeEntry
	var uses []globalUse
	calledMethods := map[*ast.FuncDecl]bool{}
	g := newCallGraph(p)
	for _, fd := range fds {
		a := &funcAnalysis{p: p, fd: fd}
		for _, s := range a.stores() {
			if s.base == "global" {
				writes = append(writes, s)
			}
		}
		fn := funcKey(fd)
		seen := map[globalUse]bool{}
		add := func(u globalUse) {
			if !seen[u] {
				seen[u] = true
				uses = append(uses, u)
			}
		}
		// parents: classify each mention by its syntactic context
		var stack []ast.Node
		ast.Inspect(fd.Body, func(n ast.Node) bool {
			if n == nil {
				stack = stack[:len(stack)-1]
				return true
			}
			stack = append(stack, n)
			id, ok := n.(*ast.Ident)
			if !ok {
				return true
			}
			o := p.info.Uses[id]
			if o == nil || !p.isPkgLevel(o) {
				return true
			}
			name := id.Name
			if o.Pkg() != nil && o.Pkg().Path() != "github.com/influxdata/influxql" {
				name = o.Pkg().Name() + "." + id.Name // variable of another package (io.EOF, time.UTC)
			}
			parent := stack[len(stack)-2]
			switch par := parent.(type) {
			case *ast.AssignStmt:
				for _, l := range par.Lhs {
					if l == ast.Expr(id) {
						writes = append(writes, storeEntry{fn, storeNormText(p.text(par), 72), "global"})
						return true
					}
				}
			case *ast.IncDecStmt:
				if par.X == ast.Expr(id) {
					writes = append(writes, storeEntry{fn, storeNormText(p.text(par), 72), "global"})
					return true
				}
			case *ast.UnaryExpr:
				if par.Op == token.AND {
					add(globalUse{fn, name, "addr"})
					return true
				}
			case *ast.SelectorExpr:
				if par.X == ast.Expr(id) {
					if sel := p.info.Selections[par]; sel != nil && sel.Kind() == types.MethodVal {
						add(globalUse{fn, name, "call " + par.Sel.Name})
						if d := g.declOf[sel.Obj()]; d != nil {
							calledMethods[d] = true
						}
						return true
					}
				}
			}
			add(globalUse{fn, name, "read"})
			return true
		})
	}
	sort.SliceStable(uses, func(i, j int) bool {
		if uses[i].fn != uses[j].fn {
			return uses[i].fn < uses[j].fn
		}
		if uses[i].v != uses[j].v {
			return uses[i].v < uses[j].v
		}
		return uses[i].mode < uses[j].mode
	})
	var methodStores []storeEntry
	var ms []*ast.FuncDecl
	for d := range calledMethods {
		ms = append(ms, d)
	}
	sort.Slice(ms, func(i, j int) bool { return funcKey(ms[i]) < funcKey(ms[j]) })
	var msNames []string
	for _, d := range ms {
		msNames = append(msNames, funcKey(d))
		a := &funcAnalysis{p: p, fd: d}
		for _, s := range a.stores() {
			if s.base == "receiver" {
				methodStores = append(methodStores, s)
			}
		}
	}

	// init functions: count them (all of them are excluded above only if they are named init and have no receiver)
	inits := 0
	for _, fn := range fileNames {
		for _, d := range p.files[fn].Decls {
			if fd, ok := d.(*ast.FuncDecl); ok && fd.Recv == nil && fd.Name.Name == "init" {
				inits++
			}
		}
	}

	f := newLean("Globals", "InfluxQL.Model.CloneTable")
	f.pf("open InfluxQL.CloneTable\n\n")
	f.pf("/-- Package-level variables of the package (name, type), by file then source order. -/\ndef globalVars : List (List Char × List Char) := [\n")
	for i, v := range vars {
		f.pf("  (%s, %s)%s  -- %s %s\n", leanChars(v.name), leanChars(v.typ), comma(i, len(vars)), v.name, v.typ)
	}
	f.pf("]\n\n/-- Number of `init` functions (excluded from the inventories below, like package-level initialisers). -/\ndef initFuncs : Nat := %d\n\n", inits)
	leanStores(f, "globalWrites", "Stores to (or through) package-level variables outside `init`.", writes)
	f.pf("/-- Every other mention of a package-level variable outside `init`: (function, variable, mode). -/\ndef globalUses : List (List Char × List Char × List Char) := [\n")
	for i, u := range uses {
		f.pf("  (%s, %s, %s)%s  -- %s: %s %s\n", leanChars(u.fn), leanChars(u.v), leanChars(u.mode), comma(i, len(uses)), u.fn, u.mode, u.v)
	}
	f.pf("]\n\n")
	leanNames(f, "globalMethods", "Methods of the package that are called on a package-level variable outside `init`.", msNames)
	leanStores(f, "globalMethodStores", "Heap stores with base `receiver` in `globalMethods` (writes to the variable they are called on).", methodStores)
	return f
}

func init() { registerGen("Globals", genGlobals) }

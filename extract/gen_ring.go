package main

import (
	"go/ast"
	"strings"
)

// genRing extracts what the ring model (lean/InfluxQL/Model/Ring.lean) is anchored in: the number of
// slots of `reader.buf` and `bufScanner.buf` (array lengths), and it pins the bodies of the functions
// that implement the two rings — reader.read / unread / curr and bufScanner.scanFunc / Unscan / curr —
// to the shapes the model transcribes.
func genRing(p *pkgInfo) *leanFile {
	f := newLean("Ring")
	slots := func(typ string) int64 {
		for _, file := range p.files {
			for _, d := range file.Decls {
				gd, ok := d.(*ast.GenDecl)
				if !ok {
					continue
				}
				for _, s := range gd.Specs {
					ts, ok := s.(*ast.TypeSpec)
					if !ok || ts.Name.Name != typ {
						continue
					}
					st, ok := ts.Type.(*ast.StructType)
					if !ok {
						fail("%s is not a struct", typ)
					}
					for _, fld := range st.Fields.List {
						for _, n := range fld.Names {
							if n.Name != "buf" {
								continue
							}
							at, ok := fld.Type.(*ast.ArrayType)
							if !ok || at.Len == nil {
								fail("%s.buf is not an array", typ)
							}
							v, ok := p.constInt(at.Len)
							if !ok {
								fail("%s.buf: length is not constant", typ)
							}
							return v
						}
					}
					fail("%s has no field buf", typ)
				}
			}
		}
		fail("type %s not found", typ)
		return 0
	}
	norm := func(s string) string { return strings.Join(strings.Fields(s), " ") }
	pin := func(fn, want string) {
		if got := norm(p.text(p.fn(fn).Body)); got != norm(want) {
			fail("%s: body changed: %q", fn, got)
		}
	}
	pin("reader.unread", `{ r.n++ }`)
	pin("reader.curr", `{
	verifAssertReaderPushback(r)
	i := (r.i - r.n + len(r.buf)) % len(r.buf)
	buf := &r.buf[i]
	return buf.ch, buf.pos
}`)
	pin("reader.read", `{
	// If we have unread characters then read them off the buffer first.
	if r.n > 0 {
		r.n--
		return r.curr()
	}

	// Read next rune from underlying reader.
	// Any error (including io.EOF) should return as EOF.
	ch, _, err := r.r.ReadRune()
	if err != nil {
		ch = eof
	} else if ch == '\r' {
		if ch, _, err := r.r.ReadRune(); err != nil {
			// nop
		} else if ch != '\n' {
			_ = r.r.UnreadRune()
		}
		ch = '\n'
	}

	// Save character and position to the buffer.
	r.i = (r.i + 1) % len(r.buf)
	buf := &r.buf[r.i]
	buf.ch, buf.pos = ch, r.pos
	verifOnRead(r)

	// Update position.
	// Only count EOF once.
	if ch == '\n' {
		r.pos.Line++
		r.pos.Char = 0
	} else if !r.eof {
		r.pos.Char++
	}

	// Mark the reader as EOF.
	// This is used so we don't double count EOF characters.
	if ch == eof {
		r.eof = true
	}

	return r.curr()
}`)
	pin("reader.ReadRune", `{
	ch, _ = r.read()
	if ch == eof {
		err = io.EOF
	}
	return
}`)
	pin("reader.UnreadRune", `{
	r.unread()
	return nil
}`)
	pin("bufScanner.Unscan", `{ s.n++ }`)
	pin("bufScanner.curr", `{
	verifAssertTokenPushback(s)
	buf := &s.buf[(s.i-s.n+len(s.buf))%len(s.buf)]
	return buf.tok, buf.pos, buf.lit
}`)
	pin("bufScanner.scanFunc", `{
	// If we have unread tokens then read them off the buffer first.
	if s.n > 0 {
		s.n--
		return s.curr()
	}

	// Move buffer position forward and save the token.
	s.i = (s.i + 1) % len(s.buf)
	buf := &s.buf[s.i]
	buf.tok, buf.pos, buf.lit = scan()

	return s.curr()
}`)
	pin("bufScanner.Scan", `{ return s.scanFunc(s.s.Scan) }`)
	pin("bufScanner.ScanRegex", `{ return s.scanFunc(s.s.ScanRegex) }`)
	if ev, ok := p.constInt(findConst(p, "eof")); !ok || ev != 0 {
		fail("const eof is not rune(0)")
	}
	f.pf("/-- `len(reader.buf)` (scanner.go). -/\ndef ringSlots : Nat := %d\n\n", slots("reader"))
	f.pf("/-- `len(bufScanner.buf)` (scanner.go). -/\ndef tokenSlots : Nat := %d\n", slots("bufScanner"))
	return f
}

// findConst returns the value expression of the package-level constant `name`.
func findConst(p *pkgInfo, name string) ast.Expr {
	for _, file := range p.files {
		for _, d := range file.Decls {
			gd, ok := d.(*ast.GenDecl)
			if !ok {
				continue
			}
			for _, s := range gd.Specs {
				vs, ok := s.(*ast.ValueSpec)
				if !ok {
					continue
				}
				for i, n := range vs.Names {
					if n.Name == name && i < len(vs.Values) {
						return vs.Values[i]
					}
				}
			}
		}
	}
	fail("constant %s not found", name)
	return nil
}

func init() { registerGen("Ring", genRing) }

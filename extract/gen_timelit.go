package main

import (
	"go/ast"
	"go/token"
	"strings"
)

// genTimeLit extracts what Model/TimeLit.lean is written against: the two date layouts, the two
// regular expressions deciding whether a string looks like a date, and (as exact shapes, checked
// here) the small functions that use them.
func genTimeLit(p *pkgInfo) *leanFile {
	f := newLean("TimeLit")
	consts := map[string]string{}
	regexes := map[string]string{}
	for _, file := range p.files {
		for _, d := range file.Decls {
			gd, ok := d.(*ast.GenDecl)
			if !ok || (gd.Tok != token.CONST && gd.Tok != token.VAR) {
				continue
			}
			for _, s := range gd.Specs {
				vs := s.(*ast.ValueSpec)
				for i, n := range vs.Names {
					if i >= len(vs.Values) {
						continue
					}
					switch n.Name {
					case "DateFormat", "DateTimeFormat":
						v, ok := p.constStr(vs.Values[i])
						if !ok {
							fail("%s is not a constant string", n.Name)
						}
						consts[n.Name] = v
					case "dateStringRegexp", "dateTimeStringRegexp":
						call, ok := vs.Values[i].(*ast.CallExpr)
						if !ok || p.text(call.Fun) != "regexp.MustCompile" || len(call.Args) != 1 {
							fail("%s is not regexp.MustCompile(<literal>)", n.Name)
						}
						v, ok := p.constStr(call.Args[0])
						if !ok {
							fail("%s: pattern is not a constant string", n.Name)
						}
						regexes[n.Name] = v
					}
				}
			}
		}
	}
	for _, n := range []string{"DateFormat", "DateTimeFormat"} {
		if _, ok := consts[n]; !ok {
			fail("constant %s not found", n)
		}
	}
	for _, n := range []string{"dateStringRegexp", "dateTimeStringRegexp"} {
		if _, ok := regexes[n]; !ok {
			fail("variable %s not found", n)
		}
	}
	norm := func(s string) string { return strings.Join(strings.Fields(s), " ") }
	expectBody := func(fn, want string) {
		got := norm(p.text(p.fn(fn).Body))
		if got != norm(want) {
			fail("%s: body changed: %s", fn, got)
		}
	}
	expectBody("isDateString", `{ return dateStringRegexp.MatchString(s) }`)
	expectBody("isDateTimeString", `{ return dateTimeStringRegexp.MatchString(s) }`)
	expectBody("StringLiteral.IsTimeLiteral", `{ return isDateTimeString(l.Val) || isDateString(l.Val) }`)
	expectBody("StringLiteral.ToTimeLiteral", `{
	if loc == nil {
		loc = time.UTC
	}

	if isDateTimeString(l.Val) {
		t, err := time.ParseInLocation(DateTimeFormat, l.Val, loc)
		if err != nil {
			// try to parse it as an RFCNano time
			t, err = time.ParseInLocation(time.RFC3339Nano, l.Val, loc)
			if err != nil {
				return nil, ErrInvalidTime
			}
		}
		return &TimeLiteral{Val: t}, nil
	} else if isDateString(l.Val) {
		t, err := time.ParseInLocation(DateFormat, l.Val, loc)
		if err != nil {
			return nil, ErrInvalidTime
		}
		return &TimeLiteral{Val: t}, nil
	}
	return nil, ErrInvalidTime
}`)
	f.pf("/-- `DateFormat` (parser.go). -/\ndef dateFormat : List Char := %s\n\n", leanChars(consts["DateFormat"]))
	f.pf("/-- `DateTimeFormat` (parser.go). -/\ndef dateTimeFormat : List Char := %s\n\n", leanChars(consts["DateTimeFormat"]))
	f.pf("/-- Pattern of `dateStringRegexp` (parser.go). -/\ndef dateStringPattern : List Char := %s\n\n", leanChars(regexes["dateStringRegexp"]))
	f.pf("/-- Pattern of `dateTimeStringRegexp` (parser.go). -/\ndef dateTimeStringPattern : List Char := %s\n", leanChars(regexes["dateTimeStringRegexp"]))
	return f
}

func init() { registerGen("TimeLit", genTimeLit) }

package main

import (
	"go/ast"
	"go/token"
)

// genSanitize extracts what property C15 is anchored in:
//   - the sources of the two regular expressions of sanitize.go,
//   - the shape of Sanitize (two identical replacement passes, set-password first) and
//     the replacement literal,
//   - the String methods of CreateUserStatement and SetPasswordUserStatement as a list of
//     print pieces, together with the fact whether they mention the Password field.
func genSanitize(p *pkgInfo) *leanFile {
	f := newLean("Sanitize")

	// ---- the two regexps
	want := map[string]bool{"sanitizeSetPassword": true, "sanitizeCreatePassword": true}
	file := p.files["sanitize.go"]
	if file == nil {
		fail("sanitize.go not found")
	}
	for _, d := range file.Decls {
		gd, ok := d.(*ast.GenDecl)
		if !ok || gd.Tok != token.VAR {
			continue
		}
		for _, s := range gd.Specs {
			vs, ok := s.(*ast.ValueSpec)
			if !ok || len(vs.Names) != 1 || len(vs.Values) != 1 || !want[vs.Names[0].Name] {
				continue
			}
			name := vs.Names[0].Name
			call, ok := vs.Values[0].(*ast.CallExpr)
			if !ok || p.text(call.Fun) != "regexp.MustCompile" || len(call.Args) != 1 {
				fail("%s: not regexp.MustCompile(<constant>)", name)
			}
			src, ok := p.constStr(call.Args[0])
			if !ok {
				fail("%s: pattern is not a constant string", name)
			}
			f.pf("/-- `%s = regexp.MustCompile(...)`: the pattern source. -/\ndef %sSource : List Char := %s\n\n", name, name, leanChars(src))
			delete(want, name)
		}
	}
	for n := range want {
		fail("%s not found in sanitize.go", n)
	}

	// ---- Sanitize: two passes of the same loop, set-password first, then create-user
	pass := func(re string) string {
		return "if matches := " + re + ".FindAllStringSubmatchIndex(query, -1); matches != nil {\n" +
			"\t\tvar buf strings.Builder\n" +
			"\t\ti := 0\n" +
			"\t\tfor _, match := range matches {\n" +
			"\t\t\tbuf.WriteString(query[i:match[2]])\n" +
			"\t\t\tbuf.WriteString(\"[REDACTED]\")\n" +
			"\t\t\ti = match[3]\n" +
			"\t\t}\n" +
			"\t\tbuf.WriteString(query[i:])\n" +
			"\t\tquery = buf.String()\n" +
			"\t}"
	}
	wantBody := "{\n\t" + pass("sanitizeSetPassword") + "\n\n\t" + pass("sanitizeCreatePassword") + "\n\treturn query\n}"
	if got := p.text(p.fn("Sanitize").Body); got != wantBody {
		fail("Sanitize: unknown body %q", got)
	}
	f.pf("/-- `Sanitize` is two passes of the same loop (body text checked by the extractor):\nfirst all matches of `sanitizeSetPassword`, then, on the result, all matches of\n`sanitizeCreatePassword`; each pass copies the text up to capture group 1, writes this literal\nand continues behind the group. -/\ndef sanitizeReplacement : List Char := %s\n\n", leanChars("[REDACTED]"))
	f.pf("/-- Order of the passes in `Sanitize`. -/\ndef sanitizePassOrder : List (List Char) := [%s, %s]\n\n", leanChars("sanitizeSetPassword"), leanChars("sanitizeCreatePassword"))

	// ---- the two String methods
	f.pf("/-- One step of a statement printer: a literal, `QuoteIdent(s.Name)`, or a literal written only\nwhen `s.Admin` is set. -/\ninductive PrintPiece where\n  | lit (s : List Char)\n  | quoteIdentName\n  | ifAdmin (s : List Char)\n  deriving DecidableEq, Repr\n\n")
	for _, m := range []struct{ recv, def string }{{"CreateUserStatement", "createUser"}, {"SetPasswordUserStatement", "setPasswordUser"}} {
		fd := p.fn(m.recv + ".String")
		if fd.Recv == nil || len(fd.Recv.List) != 1 || len(fd.Recv.List[0].Names) != 1 {
			fail("%s.String: unexpected receiver", m.recv)
		}
		recv := fd.Recv.List[0].Names[0].Name
		var pieces []string
		writeArg := func(st ast.Stmt) ast.Expr {
			as, ok := st.(*ast.AssignStmt)
			if !ok || len(as.Lhs) != 2 || len(as.Rhs) != 1 || p.text(as.Lhs[0]) != "_" || p.text(as.Lhs[1]) != "_" {
				fail("%s.String: unknown statement %q", m.recv, p.text(st))
			}
			call, ok := as.Rhs[0].(*ast.CallExpr)
			if !ok || p.text(call.Fun) != "buf.WriteString" || len(call.Args) != 1 {
				fail("%s.String: unknown statement %q", m.recv, p.text(st))
			}
			return call.Args[0]
		}
		stmts := fd.Body.List
		if len(stmts) < 3 || p.text(stmts[0]) != "var buf strings.Builder" || p.text(stmts[len(stmts)-1]) != "return buf.String()" {
			fail("%s.String: unknown frame", m.recv)
		}
		for _, st := range stmts[1 : len(stmts)-1] {
			if is, ok := st.(*ast.IfStmt); ok {
				if is.Init != nil || is.Else != nil || p.text(is.Cond) != recv+".Admin" {
					fail("%s.String: unknown conditional %q", m.recv, p.text(st))
				}
				for _, b := range is.Body.List {
					s, ok := p.constStr(writeArg(b))
					if !ok {
						fail("%s.String: non-constant text under the Admin condition", m.recv)
					}
					pieces = append(pieces, ".ifAdmin "+leanChars(s))
				}
				continue
			}
			arg := writeArg(st)
			if s, ok := p.constStr(arg); ok {
				pieces = append(pieces, ".lit "+leanChars(s))
			} else if p.text(arg) == "QuoteIdent("+recv+".Name)" {
				pieces = append(pieces, ".quoteIdentName")
			} else {
				fail("%s.String: unknown written value %q", m.recv, p.text(arg))
			}
		}
		reads := false
		ast.Inspect(fd.Body, func(n ast.Node) bool {
			if se, ok := n.(*ast.SelectorExpr); ok && se.Sel.Name == "Password" {
				reads = true
			}
			return true
		})
		f.pf("/-- `(*%s).String`, statement by statement. -/\ndef %sStringPieces : List PrintPiece := [", m.recv, m.def)
		for i, pc := range pieces {
			if i > 0 {
				f.pf(",\n  ")
			}
			f.pf("%s", pc)
		}
		f.pf("]\n\n/-- Does the body of `(*%s).String` mention a selector `.Password`? -/\ndef %sStringReadsPassword : Bool := %v\n\n", m.recv, m.def, reads)
	}
	return f
}

func init() { registerGen("Sanitize", genSanitize) }

package main

import (
	"bytes"
	"go/ast"
	"go/printer"
	"strings"
)

// genRewriteSwitch: the text of the functions whose checked models in Model/RewriteChecked.lean and
// Model/SourcesCodecChecked.lean are hand transcriptions (property C13), in a form that can be
// compared with a reviewed table:
//   - rewriteSwitch: the type switch of Rewrite, one row per case clause: the case's type list and the
//     statements of its body (printed without comments, whitespace collapsed). Which node types have
//     a case, which assertion each store makes and where a nil guard stands is all in here;
//   - rewriteRest: the statements of Rewrite around the switch;
//   - codecBodies: the statements of Sources.MarshalBinary, Sources.UnmarshalBinary,
//     encodeMeasurement, decodeMeasurement.
func genRewriteSwitch(p *pkgInfo) *leanFile {
	stmtText := func(n ast.Node) string {
		var b bytes.Buffer
		if err := printer.Fprint(&b, p.fset, n); err != nil {
			fail("printing a statement: %v", err)
		}
		return normText(b.String())
	}
	lf := newLean("RewriteSwitch")
	emitList := func(xs []string) string {
		var q []string
		for _, x := range xs {
			q = append(q, leanStrLit(x))
		}
		return "[" + strings.Join(q, ", ") + "]"
	}

	fd := p.fn("Rewrite")
	var sw *ast.TypeSwitchStmt
	var rest []string
	for _, st := range fd.Body.List {
		if ts, ok := st.(*ast.TypeSwitchStmt); ok {
			if sw != nil {
				fail("Rewrite has more than one type switch")
			}
			sw = ts
			rest = append(rest, "switch "+stmtText(ts.Assign)+" { … }")
			continue
		}
		rest = append(rest, stmtText(st))
	}
	if sw == nil {
		fail("Rewrite has no type switch")
	}
	lf.pf("/-- The type switch of `Rewrite`: per case clause the type list and the statements of the body. -/\n")
	lf.pf("def rewriteSwitch : List (List String × List String) := [\n")
	for i, c := range sw.Body.List {
		cc := c.(*ast.CaseClause)
		var tys, body []string
		if cc.List == nil {
			tys = []string{"default"}
		}
		for _, t := range cc.List {
			tys = append(tys, stmtText(t))
		}
		for _, st := range cc.Body {
			body = append(body, stmtText(st))
		}
		sep := ","
		if i == len(sw.Body.List)-1 {
			sep = ""
		}
		lf.pf("  (%s, %s)%s\n", emitList(tys), emitList(body), sep)
	}
	lf.pf("]\n\n")
	lf.pf("/-- The statements of `Rewrite` around the switch. -/\n")
	lf.pf("def rewriteRest : List String := %s\n\n", emitList(rest))

	lf.pf("/-- The statements of the `Sources` codec functions. -/\n")
	lf.pf("def codecBodies : List (String × List String) := [\n")
	names := []string{"Sources.MarshalBinary", "Sources.UnmarshalBinary", "encodeMeasurement", "decodeMeasurement"}
	for i, name := range names {
		f := p.fn(name)
		var body []string
		for _, st := range f.Body.List {
			body = append(body, stmtText(st))
		}
		sep := ","
		if i == len(names)-1 {
			sep = ""
		}
		lf.pf("  (%s, %s)%s\n", leanStrLit(name), emitList(body), sep)
	}
	lf.pf("]\n")
	return lf
}

// leanStrLit: a Lean string literal (Go's %q escapes are a superset problem only for non-ASCII
// and control characters, which do not occur in the statements printed here; fail otherwise).
func leanStrLit(s string) string {
	var b strings.Builder
	b.WriteByte('"')
	for _, r := range s {
		switch {
		case r == '"':
			b.WriteString("\\\"")
		case r == '\\':
			b.WriteString("\\\\")
		case r == '…':
			b.WriteRune(r)
		case r < 0x20 || r > 0x7e:
			fail("unexpected character %q in statement text", r)
		default:
			b.WriteRune(r)
		}
	}
	b.WriteByte('"')
	return b.String()
}

func init() { registerGen("RewriteSwitch", genRewriteSwitch) }

package main

import (
	"go/ast"
	"go/token"
	"strings"
)

// genRegex extracts the facts of matchExactRegex / matchRegex / isEncodableRune (ast.go) that the
// Lean model of the regex-to-literal rewrite (Model/Regex.lean, property C11) relies on:
// the literal limit, the fold-case guard, the operators the switch accepts (in source order),
// every size check with the case it stands in, the anchors accepted at the top level and the
// sequence of guards of matchExactRegex.
func genRegex(p *pkgInfo) *leanFile {
	f := newLean("Regex")

	// ---- matchRegex ----
	fd := p.fn("matchRegex")
	maxLit := int64(-1)
	ast.Inspect(fd.Body, func(n ast.Node) bool {
		gd, ok := n.(*ast.GenDecl)
		if !ok || gd.Tok != token.CONST {
			return true
		}
		for _, s := range gd.Specs {
			vs := s.(*ast.ValueSpec)
			for i, nm := range vs.Names {
				if nm.Name == "maxLiterals" {
					v, ok := p.constInt(vs.Values[i])
					if !ok {
						fail("matchRegex: maxLiterals is not a constant integer")
					}
					maxLit = v
				}
			}
		}
		return true
	})
	if maxLit < 0 {
		fail("matchRegex: const maxLiterals not found")
	}
	f.pf("/-- `const maxLiterals` in `matchRegex`. -/\ndef maxLiterals : Nat := %d\n\n", maxLit)

	// statements: const decl, fold guard, switch, return nil,false
	var stmts []ast.Stmt
	for _, s := range fd.Body.List {
		if ds, ok := s.(*ast.DeclStmt); ok {
			if gd, ok := ds.Decl.(*ast.GenDecl); ok && gd.Tok == token.CONST {
				continue
			}
		}
		stmts = append(stmts, s)
	}
	if len(stmts) != 3 {
		fail("matchRegex: expected fold-case guard, switch re.Op, final return; got %d statements", len(stmts))
	}
	guard, ok := stmts[0].(*ast.IfStmt)
	if !ok || guard.Else != nil || guard.Init != nil || !returnsNilFalse(p, guard.Body) {
		fail("matchRegex: first statement is not `if … { return nil, false }`")
	}
	gb, ok := guard.Cond.(*ast.BinaryExpr)
	if !ok || gb.Op != token.NEQ || p.text(gb.Y) != "0" {
		fail("matchRegex: fold guard is not `X != 0`: %s", p.text(guard.Cond))
	}
	and, ok := gb.X.(*ast.BinaryExpr)
	if !ok || and.Op != token.AND || p.text(and.X) != "re.Flags" {
		fail("matchRegex: fold guard is not `re.Flags&F != 0`: %s", p.text(guard.Cond))
	}
	flag, ok := p.constInt(and.Y)
	if !ok {
		fail("matchRegex: fold guard flag %s is not constant", p.text(and.Y))
	}
	f.pf("/-- Guard at the top of `matchRegex`: `if %s { return nil, false }`; the flag constant `%s`. -/\ndef foldGuardFlag : Nat := %d\n\n", p.text(guard.Cond), p.text(and.Y), flag)

	sw, ok := stmts[1].(*ast.SwitchStmt)
	if !ok || sw.Tag == nil || p.text(sw.Tag) != "re.Op" || sw.Init != nil {
		fail("matchRegex: second statement is not `switch re.Op`")
	}
	if rs, ok := stmts[2].(*ast.ReturnStmt); !ok || p.text(rs) != "return nil, false" {
		fail("matchRegex: does not end in `return nil, false`")
	}
	type check struct {
		op   int64
		cond string
	}
	var ops []int64
	var opNames []string
	var limitChecks []check
	var encChecks []int64
	var singleGuards []string
	for _, c := range sw.Body.List {
		cc := c.(*ast.CaseClause)
		if cc.List == nil {
			fail("matchRegex: switch has a default clause")
		}
		if len(cc.List) != 1 {
			fail("matchRegex: case with several labels: %s", p.text(cc.List[0]))
		}
		op, ok := p.constInt(cc.List[0])
		if !ok {
			fail("matchRegex: non-constant case label %s", p.text(cc.List[0]))
		}
		ops = append(ops, op)
		opNames = append(opNames, p.text(cc.List[0]))
		enc := false
		for _, st := range cc.Body {
			ast.Inspect(st, func(n ast.Node) bool {
				is, ok := n.(*ast.IfStmt)
				if !ok {
					return true
				}
				cond := p.text(is.Cond)
				switch {
				case strings.Contains(cond, "maxLiterals"):
					if !returnsNilFalse(p, is.Body) || is.Else != nil {
						fail("matchRegex: limit check `%s` does not just return nil, false", cond)
					}
					limitChecks = append(limitChecks, check{op, cond})
				case strings.Contains(cond, "isEncodableRune"):
					if cond != "!isEncodableRune(r)" && cond != "!isEncodableRune(rune(r))" {
						fail("matchRegex: unknown encodability check `%s`", cond)
					}
					if !returnsNilFalse(p, is.Body) || is.Else != nil {
						fail("matchRegex: encodability check does not just return nil, false")
					}
					enc = true
				case cond == "len(vals) == 1" || cond == "len(names) == 1":
					singleGuards = append(singleGuards, cond)
				case cond == "!ok":
					if !returnsNilFalse(p, is.Body) {
						fail("matchRegex: `if !ok` does not return nil, false")
					}
				default:
					fail("matchRegex: unknown if statement `%s` in case %s", cond, p.text(cc.List[0]))
				}
				return true
			})
		}
		if enc {
			encChecks = append(encChecks, op)
		}
	}
	f.pf("/-- `switch re.Op` of `matchRegex`: the accepted operators in source order (%s); everything\nelse falls through to `return nil, false`. -/\ndef matchRegexOps : List Nat := %s\n\n", strings.Join(opNames, ", "), natList(ops))
	f.pf("/-- Every `if … maxLiterals … { return nil, false }` of `matchRegex`: (operator of the enclosing case, condition). -/\ndef limitChecks : List (Nat × List Char) := [")
	for i, c := range limitChecks {
		if i > 0 {
			f.pf(", ")
		}
		f.pf("(%d, %s)", c.op, leanChars(c.cond))
	}
	f.pf("]\n\n")
	f.pf("/-- Cases of `matchRegex` that refuse runes failing `isEncodableRune`. -/\ndef encodableChecks : List Nat := %s\n\n", natList(encChecks))
	f.pf("/-- The two single-element short cuts of the concatenation loop, in source order. -/\ndef concatShortCuts : List (List Char) := [")
	for i, c := range singleGuards {
		if i > 0 {
			f.pf(", ")
		}
		f.pf("%s", leanChars(c))
	}
	f.pf("]\n\n")

	// ---- isEncodableRune ----
	fe := p.fn("isEncodableRune")
	if len(fe.Body.List) != 1 {
		fail("isEncodableRune: body is not a single return")
	}
	rs, ok := fe.Body.List[0].(*ast.ReturnStmt)
	if !ok || len(rs.Results) != 1 {
		fail("isEncodableRune: body is not a single return")
	}
	if got := p.text(rs.Results[0]); got != "utf8.ValidRune(r) && r != utf8.RuneError" {
		fail("isEncodableRune: unknown body %q", got)
	}
	be := rs.Results[0].(*ast.BinaryExpr).Y.(*ast.BinaryExpr)
	runeErr, ok := p.constInt(be.Y)
	if !ok {
		fail("isEncodableRune: utf8.RuneError does not resolve")
	}
	f.pf("/-- `isEncodableRune(r) = utf8.ValidRune(r) && r != utf8.RuneError` (body text checked by the extractor); `utf8.RuneError`. -/\ndef runeError : Nat := %d\n\n", runeErr)

	// ---- matchExactRegex ----
	fx := p.fn("matchExactRegex")
	var guards []string
	consts := map[string]int64{}
	for _, s := range fx.Body.List {
		is, ok := s.(*ast.IfStmt)
		if !ok {
			continue
		}
		cond := p.text(is.Cond)
		guards = append(guards, cond)
		if cond == "len(re.Sub) == 0" {
			if got := strings.Join(strings.Fields(stripComments(p.text(is.Body))), " "); got != "{ return nil, true }" {
				fail("matchExactRegex: `len(re.Sub) == 0` branch is %q", got)
			}
			continue
		}
		if !returnsNilFalse(p, is.Body) || is.Else != nil {
			fail("matchExactRegex: guard `%s` does not just return nil, false", cond)
		}
		if b, ok := is.Cond.(*ast.BinaryExpr); ok && b.Op == token.NEQ && strings.HasSuffix(p.text(b.X), ".Op") {
			v, ok := p.constInt(b.Y)
			if !ok {
				fail("matchExactRegex: %s is not constant", p.text(b.Y))
			}
			consts[p.text(b.X)] = v
		}
	}
	for _, k := range []string{"re.Op", "start.Op", "end.Op"} {
		if _, ok := consts[k]; !ok {
			fail("matchExactRegex: no `%s != <op>` guard", k)
		}
	}
	last := fx.Body.List[len(fx.Body.List)-1]
	if p.text(last) != "return matchRegex(re)" {
		fail("matchExactRegex: does not end in `return matchRegex(re)`")
	}
	src := p.text(fx.Body)
	for _, need := range []string{"re, err := syntax.Parse(v, syntax.Perl)", "re = re.Simplify()", "start := re.Sub[0]", "end := re.Sub[len(re.Sub)-1]", "re.Sub = re.Sub[1 : len(re.Sub)-1]"} {
		if !strings.Contains(src, need) {
			fail("matchExactRegex: statement `%s` not found", need)
		}
	}
	f.pf("/-- The guards of `matchExactRegex` in source order (each returns `nil, false`, except\n`len(re.Sub) == 0`, which returns `nil, true`). -/\ndef exactGuards : List (List Char) := [")
	for i, g := range guards {
		if i > 0 {
			f.pf(",\n  ")
		}
		f.pf("%s", leanChars(g))
	}
	f.pf("]\n\n")
	f.pf("/-- Operators demanded by `matchExactRegex`: of the whole expression, of its first and of its last sub-expression. -/\ndef exactTopOp : Nat := %d\ndef exactStartOp : Nat := %d\ndef exactEndOp : Nat := %d\n\n", consts["re.Op"], consts["start.Op"], consts["end.Op"])

	// ---- RewriteRegexConditions: which operators replace which ----
	fr := p.fn("SelectStatement.RewriteRegexConditions")
	var guardCond string
	var opIf *ast.IfStmt
	var lenCases []string
	ast.Inspect(fr.Body, func(n ast.Node) bool {
		switch s := n.(type) {
		case *ast.IfStmt:
			c := p.text(s.Cond)
			if strings.Contains(c, "be.Op != EQREGEX") {
				guardCond = c
			}
			if c == "be.Op == EQREGEX" {
				opIf = s
			}
		case *ast.SwitchStmt:
			if s.Tag == nil {
				for _, c := range s.Body.List {
					cc := c.(*ast.CaseClause)
					if cc.List == nil {
						lenCases = append(lenCases, "default")
					} else {
						lenCases = append(lenCases, p.text(cc.List[0]))
					}
				}
			}
		}
		return true
	})
	if guardCond != "!ok || (be.Op != EQREGEX && be.Op != NEQREGEX)" {
		fail("RewriteRegexConditions: unknown operator guard %q", guardCond)
	}
	if opIf == nil || opIf.Else == nil {
		fail("RewriteRegexConditions: `if be.Op == EQREGEX { … } else { … }` not found")
	}
	branch := func(b *ast.BlockStmt) (int64, int64) {
		if len(b.List) != 2 {
			fail("RewriteRegexConditions: operator branch has %d statements", len(b.List))
		}
		var vals [2]int64
		for i, want := range []string{"be.Op", "concatOp"} {
			as, ok := b.List[i].(*ast.AssignStmt)
			if !ok || len(as.Lhs) != 1 || p.text(as.Lhs[0]) != want || as.Tok != token.ASSIGN {
				fail("RewriteRegexConditions: expected assignment to %s", want)
			}
			v, ok := p.constInt(as.Rhs[0])
			if !ok {
				fail("RewriteRegexConditions: %s is not constant", p.text(as.Rhs[0]))
			}
			vals[i] = v
		}
		return vals[0], vals[1]
	}
	eb, ok := opIf.Else.(*ast.BlockStmt)
	if !ok {
		fail("RewriteRegexConditions: else branch is not a block")
	}
	o1, c1 := branch(opIf.Body)
	o2, c2 := branch(eb)
	if strings.Join(lenCases, ";") != "len(vals) == 0;len(vals) == 1;default" {
		fail("RewriteRegexConditions: unknown switch on the number of literals: %v", lenCases)
	}
	f.pf("/-- `RewriteRegexConditions`: (comparison, connective) substituted for `=~` and for `!~` (token numbers);\nthe switch on `len(vals)` has the cases 0, 1, default (checked by the extractor). -/\ndef rewriteOps : List (Nat × Nat) := [(%d, %d), (%d, %d)]\n", o1, c1, o2, c2)
	return f
}

func returnsNilFalse(p *pkgInfo, b *ast.BlockStmt) bool {
	return strings.Join(strings.Fields(stripComments(p.text(b))), " ") == "{ return nil, false }"
}

func stripComments(s string) string {
	var out []string
	for _, l := range strings.Split(s, "\n") {
		if i := strings.Index(l, "//"); i >= 0 {
			l = l[:i]
		}
		out = append(out, l)
	}
	return strings.Join(out, "\n")
}

func natList(v []int64) string {
	var parts []string
	for _, x := range v {
		parts = append(parts, sprint(x))
	}
	return "[" + strings.Join(parts, ", ") + "]"
}

func init() { registerGen("Regex", genRegex) }

package main

import (
	"go/ast"
	"go/token"
	"strconv"
	"strings"
)

// tokenNames returns the names of the Token constants in iota order.
func tokenNames(p *pkgInfo) []string {
	f := p.files["token.go"]
	if f == nil {
		fail("token.go missing")
	}
	for _, d := range f.Decls {
		gd, ok := d.(*ast.GenDecl)
		if !ok || gd.Tok != token.CONST || len(gd.Specs) == 0 {
			continue
		}
		vs := gd.Specs[0].(*ast.ValueSpec)
		if len(vs.Names) != 1 || vs.Names[0].Name != "ILLEGAL" {
			continue
		}
		if id, ok := vs.Type.(*ast.Ident); !ok || id.Name != "Token" {
			fail("ILLEGAL is not declared as Token = iota")
		}
		var names []string
		for i, s := range gd.Specs {
			vs := s.(*ast.ValueSpec)
			if len(vs.Names) != 1 {
				fail("token const spec with %d names", len(vs.Names))
			}
			if i > 0 && (vs.Type != nil || len(vs.Values) != 0) {
				fail("token constant %s has an explicit type or value", vs.Names[0].Name)
			}
			// cross-check with the type checker's value
			if obj := p.info.Defs[vs.Names[0]]; obj != nil {
				if c, ok := obj.(interface {
					Val() interface{ String() string }
				}); ok {
					_ = c
				}
			}
			names = append(names, vs.Names[0].Name)
		}
		return names
	}
	fail("Token const block not found")
	return nil
}

func genToken(p *pkgInfo) *leanFile {
	names := tokenNames(p)
	idx := map[string]int{}
	for i, n := range names {
		idx[n] = i
	}
	f := newLean("Token")
	f.pf("/-- `token.go`: the `Token` enumeration in iota order. -/\ninductive Token where\n")
	for _, n := range names {
		f.pf("  | %s\n", n)
	}
	f.pf("  deriving DecidableEq, Repr, Inhabited\n\n")
	f.pf("def Token.toNat : Token → Nat\n")
	for i, n := range names {
		f.pf("  | .%s => %d\n", n, i)
	}
	f.pf("\ndef Token.all : List Token := [")
	for i, n := range names {
		if i > 0 {
			f.pf(", ")
		}
		f.pf(".%s", n)
	}
	f.pf("]\n\n")

	// tokens = [...]string{ KEY: "str", ... }
	var tokStr = map[string]string{}
	found := false
	for _, d := range p.files["token.go"].Decls {
		gd, ok := d.(*ast.GenDecl)
		if !ok || gd.Tok != token.VAR {
			continue
		}
		for _, s := range gd.Specs {
			vs := s.(*ast.ValueSpec)
			if len(vs.Names) == 1 && vs.Names[0].Name == "tokens" && len(vs.Values) == 1 {
				cl, ok := vs.Values[0].(*ast.CompositeLit)
				if !ok {
					fail("tokens is not a composite literal")
				}
				for _, e := range cl.Elts {
					kv, ok := e.(*ast.KeyValueExpr)
					if !ok {
						fail("tokens element without key")
					}
					k, ok := kv.Key.(*ast.Ident)
					if !ok {
						fail("tokens key not an identifier")
					}
					s, ok := p.constStr(kv.Value)
					if !ok {
						fail("tokens[%s] is not a constant string", k.Name)
					}
					if _, ok := idx[k.Name]; !ok {
						fail("tokens key %s is not a Token constant", k.Name)
					}
					tokStr[k.Name] = s
				}
				found = true
			}
		}
	}
	if !found {
		fail("var tokens not found")
	}
	f.pf("/-- `tokens[...]`: the printed form (`Token.String()`); unlisted entries are \"\". -/\ndef Token.str : Token → List Char\n")
	for _, n := range names {
		f.pf("  | .%s => %s\n", n, leanChars(tokStr[n]))
	}
	f.pf("\n")

	// init(): keyword table
	type kw struct{ s, tok string }
	var kws []kw
	add := func(s, tok string) {
		for i := range kws {
			if kws[i].s == s {
				kws[i].tok = tok
				return
			}
		}
		kws = append(kws, kw{s, tok})
	}
	var initFn *ast.FuncDecl
	for _, d := range p.files["token.go"].Decls {
		if fd, ok := d.(*ast.FuncDecl); ok && fd.Name.Name == "init" && fd.Recv == nil {
			initFn = fd
		}
	}
	if initFn == nil {
		fail("token.go init() not found")
	}
	for _, st := range initFn.Body.List {
		switch st := st.(type) {
		case *ast.AssignStmt:
			txt := p.text(st)
			if txt == "keywords = make(map[string]Token)" {
				continue
			}
			// keywords["x"] = TOK
			ix, ok := st.Lhs[0].(*ast.IndexExpr)
			if !ok || len(st.Lhs) != 1 || len(st.Rhs) != 1 {
				fail("init: unknown assignment %q", txt)
			}
			if id, ok := ix.X.(*ast.Ident); !ok || id.Name != "keywords" {
				fail("init: unknown assignment %q", txt)
			}
			s, ok := p.constStr(ix.Index)
			if !ok {
				fail("init: non-constant key in %q", txt)
			}
			tk, ok := st.Rhs[0].(*ast.Ident)
			if !ok || idx[tk.Name] == 0 && tk.Name != "ILLEGAL" {
				fail("init: unknown token in %q", txt)
			}
			add(s, tk.Name)
		case *ast.ForStmt:
			// for tok := A + 1; tok < B; tok++ { keywords[strings.ToLower(tokens[tok])] = tok }
			txt := p.text(st)
			want := "for tok := keywordBeg + 1; tok < keywordEnd; tok++ {\n\t\tkeywords[strings.ToLower(tokens[tok])] = tok\n\t}"
			if txt != want {
				fail("init: unknown for statement %q", txt)
			}
			for i := idx["keywordBeg"] + 1; i < idx["keywordEnd"]; i++ {
				add(strings.ToLower(tokStr[names[i]]), names[i])
			}
		case *ast.RangeStmt:
			cl, ok := st.X.(*ast.CompositeLit)
			if !ok {
				fail("init: unknown range %q", p.text(st))
			}
			body := p.text(st.Body)
			if body != "{\n\t\tkeywords[strings.ToLower(tokens[tok])] = tok\n\t}" {
				fail("init: unknown range body %q", body)
			}
			for _, e := range cl.Elts {
				id, ok := e.(*ast.Ident)
				if !ok {
					fail("init: range element not identifier")
				}
				add(strings.ToLower(tokStr[id.Name]), id.Name)
			}
		default:
			fail("init: unknown statement %q", p.text(st))
		}
	}
	f.pf("/-- The `keywords` map as `init()` builds it (keys are lower-case). -/\ndef keywords : List (List Char × Token) := [\n")
	for i, k := range kws {
		sep := ","
		if i == len(kws)-1 {
			sep = ""
		}
		f.pf("  (%s, .%s)%s\n", leanChars(k.s), k.tok, sep)
	}
	f.pf("]\n\n")

	// Precedence(): switch tok { case A, B: return n } return 0
	prec := map[string]int{}
	fd := p.fn("Token.Precedence")
	if len(fd.Body.List) != 2 {
		fail("Precedence: expected switch + return")
	}
	sw, ok := fd.Body.List[0].(*ast.SwitchStmt)
	if !ok || p.text(sw.Tag) != "tok" {
		fail("Precedence: first statement is not switch tok")
	}
	for _, c := range sw.Body.List {
		cc := c.(*ast.CaseClause)
		if len(cc.Body) != 1 {
			fail("Precedence: case body")
		}
		rs, ok := cc.Body[0].(*ast.ReturnStmt)
		if !ok || len(rs.Results) != 1 {
			fail("Precedence: case body not return")
		}
		v, ok := p.constInt(rs.Results[0])
		if !ok {
			fail("Precedence: non-constant return")
		}
		if cc.List == nil {
			fail("Precedence: default clause")
		}
		for _, e := range cc.List {
			id, ok := e.(*ast.Ident)
			if !ok {
				fail("Precedence: case label")
			}
			prec[id.Name] = int(v)
		}
	}
	if rs, ok := fd.Body.List[1].(*ast.ReturnStmt); !ok || p.text(rs) != "return 0" {
		fail("Precedence: final return is not 0")
	}
	f.pf("/-- `Token.Precedence()`. -/\ndef Token.precedence : Token → Nat\n")
	for _, n := range names {
		if v, ok := prec[n]; ok {
			f.pf("  | .%s => %d\n", n, v)
		}
	}
	f.pf("  | _ => 0\n\n")

	// isOperator
	if got := p.text(p.fn("Token.isOperator").Body); got != "{ return tok > operatorBeg && tok < operatorEnd }" {
		fail("isOperator: unknown body %q", got)
	}
	f.pf("/-- `Token.isOperator()`. -/\ndef Token.isOperator (t : Token) : Bool :=\n  decide (Token.operatorBeg.toNat < t.toNat) && decide (t.toNat < Token.operatorEnd.toNat)\n\n")

	// IsRegexOp
	if got := p.text(p.fn("IsRegexOp").Body); got != "{\n\treturn (t == EQREGEX || t == NEQREGEX)\n}" {
		fail("IsRegexOp: unknown body %q", got)
	}
	f.pf("/-- `IsRegexOp`. -/\ndef Token.isRegexOp (t : Token) : Bool := t == .EQREGEX || t == .NEQREGEX\n\n")

	// tokstr
	if got := p.text(p.fn("tokstr").Body); got != "{\n\tif lit != \"\" {\n\t\treturn lit\n\t}\n\treturn tok.String()\n}" {
		fail("tokstr: unknown body %q", got)
	}
	f.pf("/-- `tokstr`. -/\ndef tokstr (t : Token) (lit : List Char) : List Char := if lit != [] then lit else t.str\n")
	_ = strconv.Itoa
	return f
}

func init() { registerGen("Token", genToken) }

package main

import (
	"fmt"
	"go/ast"
	"go/constant"
	"go/token"
	"go/types"
	"strings"
)

// genTypes regenerates Gen/Types.lean from ast.go:
//
//   - the DataType constants (name -> value), in declaration order;
//   - DataType.String() as a function on the constant values;
//   - DataType.LessThan translated expression by expression;
//   - VarRefs.Less (the order sort.Sort uses in RewriteFields) translated expression by expression;
//   - the per-function type filter of RewriteFields: the base set of the map literal
//     `supportedTypes` and, for every case of `switch call.Name`, the resulting set after
//     executing the case body (assignments, delete, fallthrough) symbolically.
//
// Every shape that is not understood is a hard failure (broken tie).
func genTypes(p *pkgInfo) *leanFile {
	f := newLean("Types")

	// ---- constants -------------------------------------------------------
	type cst struct {
		name string
		val  int64
	}
	var consts []cst
	byName := map[string]int64{}
	for _, d := range p.files["ast.go"].Decls {
		gd, ok := d.(*ast.GenDecl)
		if !ok || gd.Tok != token.CONST {
			continue
		}
		for _, s := range gd.Specs {
			vs := s.(*ast.ValueSpec)
			for _, n := range vs.Names {
				obj := p.info.Defs[n]
				if obj == nil || obj.Type() == nil || !strings.HasSuffix(obj.Type().String(), "influxql.DataType") {
					continue
				}
				co, isConst := obj.(*types.Const)
				if !isConst {
					continue
				}
				v, ok := constant.Int64Val(constant.ToInt(co.Val()))
				if !ok || v < 0 {
					fail("DataType constant %s: no non-negative integer value", n.Name)
				}
				consts = append(consts, cst{n.Name, v})
				byName[n.Name] = v
			}
		}
	}
	if len(consts) == 0 {
		fail("no DataType constants found")
	}
	f.pf("/-- The `DataType` constants of ast.go in declaration order. -/\ndef dataTypeConsts : List (List Char × Nat) := [")
	for i, c := range consts {
		if i > 0 {
			f.pf(", ")
		}
		f.pf("(%s, %d)", leanChars(c.name), c.val)
	}
	f.pf("]\n\n")
	for _, c := range consts {
		f.pf("def dt%s : Nat := %d\n", c.name, c.val)
	}
	f.pf("\n")

	// ---- DataType.String() ----------------------------------------------
	{
		fd := p.fn("DataType.String")
		recv := recvName(fd)
		if len(fd.Body.List) != 2 {
			fail("DataType.String: expected switch + return")
		}
		sw, ok := fd.Body.List[0].(*ast.SwitchStmt)
		if !ok || sw.Init != nil || p.text(sw.Tag) != recv {
			fail("DataType.String: first statement is not `switch %s`", recv)
		}
		def, ok := retStr(p, fd.Body.List[1])
		if !ok {
			fail("DataType.String: final statement is not a constant string return")
		}
		f.pf("/-- `DataType.String()`. -/\ndef dataTypeString (d : Nat) : List Char :=\n")
		for _, c := range sw.Body.List {
			cc := c.(*ast.CaseClause)
			if cc.List == nil || len(cc.Body) != 1 {
				fail("DataType.String: unexpected case %s", p.text(cc))
			}
			s, ok := retStr(p, cc.Body[0])
			if !ok {
				fail("DataType.String: case body is not a constant string return: %s", p.text(cc))
			}
			var conds []string
			for _, e := range cc.List {
				v, ok := p.constInt(e)
				if !ok {
					fail("DataType.String: non-constant case %s", p.text(e))
				}
				conds = append(conds, fmt.Sprintf("d == %d", v))
			}
			f.pf("  if %s then %s else\n", strings.Join(conds, " || "), leanChars(s))
		}
		f.pf("  %s\n\n", leanChars(def))
	}

	// ---- DataType.LessThan ----------------------------------------------
	{
		fd := p.fn("DataType.LessThan")
		recv := recvName(fd)
		if len(fd.Type.Params.List) != 1 || len(fd.Type.Params.List[0].Names) != 1 {
			fail("DataType.LessThan: unexpected signature")
		}
		other := fd.Type.Params.List[0].Names[0].Name
		tr := &natTr{p: p, where: "DataType.LessThan", vars: map[string]string{recv: "d", other: "other"}}
		f.pf("/-- `DataType.LessThan`:\n```\n%s\n```\n-/\ndef lessThan (d other : Nat) : Bool :=\n  %s\n\n", p.text(fd.Body), tr.block(fd.Body.List))
	}

	// ---- VarRefs.Less ----------------------------------------------------
	{
		fd := p.fn("VarRefs.Less")
		recv := recvName(fd)
		ps := fd.Type.Params.List
		if len(ps) != 1 || len(ps[0].Names) != 2 {
			fail("VarRefs.Less: unexpected signature")
		}
		i, j := ps[0].Names[0].Name, ps[0].Names[1].Name
		tr := &natTr{p: p, where: "VarRefs.Less", vars: map[string]string{}, sels: map[string]string{
			recv + "[" + i + "].Val":  "S:iVal",
			recv + "[" + j + "].Val":  "S:jVal",
			recv + "[" + i + "].Type": "iType",
			recv + "[" + j + "].Type": "jType",
		}}
		f.pf("/-- `VarRefs.Less(i, j)` (strings compared by `strLt`, Go's byte-wise `<`):\n```\n%s\n```\n-/\n", p.text(fd.Body))
		f.pf("def varRefsLess (strLt : List Char → List Char → Bool) (iVal : List Char) (iType : Nat) (jVal : List Char) (jType : Nat) : Bool :=\n  %s\n\n", tr.block(fd.Body.List))
	}

	// ---- supportedTypes of RewriteFields --------------------------------
	{
		fd := p.fn("SelectStatement.RewriteFields")
		var base []int64
		var sw *ast.SwitchStmt
		nBase, nSw := 0, 0
		ast.Inspect(fd.Body, func(n ast.Node) bool {
			switch n := n.(type) {
			case *ast.AssignStmt:
				if len(n.Lhs) == 1 && len(n.Rhs) == 1 && p.text(n.Lhs[0]) == "supportedTypes" && n.Tok == token.DEFINE {
					cl, ok := n.Rhs[0].(*ast.CompositeLit)
					if !ok || p.text(cl.Type) != "map[DataType]struct{}" {
						fail("RewriteFields: supportedTypes is not a map[DataType]struct{} literal")
					}
					nBase++
					for _, el := range cl.Elts {
						kv, ok := el.(*ast.KeyValueExpr)
						if !ok {
							fail("RewriteFields: supportedTypes element %s", p.text(el))
						}
						v, ok := p.constInt(kv.Key)
						if !ok {
							fail("RewriteFields: supportedTypes key %s", p.text(kv.Key))
						}
						base = append(base, v)
					}
				}
			case *ast.SwitchStmt:
				if n.Tag != nil && p.text(n.Tag) == "call.Name" {
					sw = n
					nSw++
				}
			}
			return true
		})
		if nBase != 1 || nSw != 1 {
			fail("RewriteFields: expected exactly one supportedTypes literal and one `switch call.Name` (found %d, %d)", nBase, nSw)
		}
		// effect of each case body
		type eff struct {
			names       []string
			add, del    []int64
			fallthrough_ bool
		}
		var effs []eff
		for _, c := range sw.Body.List {
			cc := c.(*ast.CaseClause)
			if cc.List == nil {
				fail("RewriteFields: `switch call.Name` has a default case (not modelled)")
			}
			var e eff
			for _, x := range cc.List {
				s, ok := p.constStr(x)
				if !ok {
					fail("RewriteFields: non-constant case %s", p.text(x))
				}
				e.names = append(e.names, s)
			}
			for _, st := range cc.Body {
				switch st := st.(type) {
				case *ast.AssignStmt:
					ix, ok := st.Lhs[0].(*ast.IndexExpr)
					if !ok || len(st.Lhs) != 1 || p.text(ix.X) != "supportedTypes" || p.text(st.Rhs[0]) != "struct{}{}" {
						fail("RewriteFields: case statement %s", p.text(st))
					}
					v, ok := p.constInt(ix.Index)
					if !ok {
						fail("RewriteFields: case statement %s", p.text(st))
					}
					e.add = append(e.add, v)
				case *ast.ExprStmt:
					call, ok := st.X.(*ast.CallExpr)
					if !ok || p.text(call.Fun) != "delete" || len(call.Args) != 2 || p.text(call.Args[0]) != "supportedTypes" {
						fail("RewriteFields: case statement %s", p.text(st))
					}
					v, ok := p.constInt(call.Args[1])
					if !ok {
						fail("RewriteFields: case statement %s", p.text(st))
					}
					e.del = append(e.del, v)
				case *ast.BranchStmt:
					if st.Tok != token.FALLTHROUGH {
						fail("RewriteFields: case statement %s", p.text(st))
					}
					e.fallthrough_ = true
				default:
					fail("RewriteFields: case statement %s", p.text(st))
				}
			}
			effs = append(effs, e)
		}
		apply := func(set []int64, e eff) []int64 {
			for _, a := range e.add {
				found := false
				for _, x := range set {
					if x == a {
						found = true
					}
				}
				if !found {
					set = append(set, a)
				}
			}
			for _, d := range e.del {
				var out []int64
				for _, x := range set {
					if x != d {
						out = append(out, x)
					}
				}
				set = out
			}
			return set
		}
		natList := func(xs []int64) string {
			var s []string
			for _, x := range xs {
				s = append(s, fmt.Sprintf("%d", x))
			}
			return "[" + strings.Join(s, ", ") + "]"
		}
		f.pf("/-- The map literal `supportedTypes` of `RewriteFields` (types every call expands to). -/\ndef callBaseTypes : List Nat := %s\n\n", natList(base))
		f.pf("/-- `switch call.Name` of `RewriteFields`: for each case its names and the set `supportedTypes`\nafter the case body (assignments, `delete`, `fallthrough` executed symbolically by the extractor). -/\ndef callTypeCases : List (List (List Char) × List Nat) := [")
		for i, e := range effs {
			set := append([]int64(nil), base...)
			for k := i; k < len(effs); k++ {
				set = apply(set, effs[k])
				if !effs[k].fallthrough_ {
					break
				}
				if k == len(effs)-1 {
					fail("RewriteFields: fallthrough in the last case")
				}
			}
			if i > 0 {
				f.pf(",")
			}
			var ns []string
			for _, n := range e.names {
				ns = append(ns, leanChars(n))
			}
			f.pf("\n  ([%s], %s)", strings.Join(ns, ", "), natList(set))
		}
		f.pf("]\n\n")
	}
	return f
}

func recvName(fd *ast.FuncDecl) string {
	if fd.Recv == nil || len(fd.Recv.List) != 1 || len(fd.Recv.List[0].Names) != 1 {
		fail("%s: no named receiver", fd.Name.Name)
	}
	return fd.Recv.List[0].Names[0].Name
}

func retStr(p *pkgInfo, s ast.Stmt) (string, bool) {
	rs, ok := s.(*ast.ReturnStmt)
	if !ok || len(rs.Results) != 1 {
		return "", false
	}
	return p.constStr(rs.Results[0])
}

// natTr translates if/else-if/return blocks over small-integer variables (and,
// for VarRefs.Less, string selectors) into a Lean Bool expression.
type natTr struct {
	p     *pkgInfo
	where string
	vars  map[string]string // Go identifier -> Lean variable (Nat valued)
	sels  map[string]string // Go source text -> Lean variable; prefix "S:" marks a string
}

func (t *natTr) block(list []ast.Stmt) string {
	if len(list) == 0 {
		fail("%s: block falls off the end", t.where)
	}
	switch s := list[0].(type) {
	case *ast.ReturnStmt:
		if len(s.Results) != 1 {
			fail("%s: return with %d results", t.where, len(s.Results))
		}
		return t.boolExpr(s.Results[0])
	case *ast.IfStmt:
		if s.Init != nil {
			fail("%s: if with init", t.where)
		}
		then := t.block(s.Body.List)
		var els string
		switch e := s.Else.(type) {
		case nil:
			els = t.block(list[1:])
		case *ast.BlockStmt:
			els = t.block(append(append([]ast.Stmt(nil), e.List...), list[1:]...))
		case *ast.IfStmt:
			els = t.block(append([]ast.Stmt{e}, list[1:]...))
		default:
			fail("%s: unsupported else", t.where)
		}
		return fmt.Sprintf("if %s then %s\n  else %s", t.boolExpr(s.Cond), then, els)
	}
	fail("%s: unsupported statement %s", t.where, t.p.text(list[0]))
	return ""
}

func (t *natTr) operand(e ast.Expr) (string, bool) {
	if t.sels != nil {
		if v, ok := t.sels[t.p.text(e)]; ok {
			if strings.HasPrefix(v, "S:") {
				return v[2:], true
			}
			return v, false
		}
	}
	if id, ok := e.(*ast.Ident); ok {
		if v, ok := t.vars[id.Name]; ok {
			return v, false
		}
	}
	if v, ok := t.p.constInt(e); ok && v >= 0 {
		return fmt.Sprintf("%d", v), false
	}
	fail("%s: unsupported operand %s", t.where, t.p.text(e))
	return "", false
}

func (t *natTr) boolExpr(e ast.Expr) string {
	switch e := e.(type) {
	case *ast.ParenExpr:
		return "(" + t.boolExpr(e.X) + ")"
	case *ast.Ident:
		if e.Name == "true" || e.Name == "false" {
			return e.Name
		}
	case *ast.BinaryExpr:
		switch e.Op {
		case token.LAND:
			return "(" + t.boolExpr(e.X) + " && " + t.boolExpr(e.Y) + ")"
		case token.LOR:
			return "(" + t.boolExpr(e.X) + " || " + t.boolExpr(e.Y) + ")"
		case token.EQL, token.NEQ, token.LSS, token.LEQ, token.GTR, token.GEQ:
			x, xs := t.operand(e.X)
			y, ys := t.operand(e.Y)
			if xs != ys {
				fail("%s: comparison of a string with a number: %s", t.where, t.p.text(e))
			}
			if xs {
				switch e.Op {
				case token.EQL:
					return fmt.Sprintf("(%s == %s)", x, y)
				case token.NEQ:
					return fmt.Sprintf("(%s != %s)", x, y)
				case token.LSS:
					return fmt.Sprintf("strLt %s %s", x, y)
				case token.GTR:
					return fmt.Sprintf("strLt %s %s", y, x)
				}
				fail("%s: unsupported string comparison %s", t.where, t.p.text(e))
			}
			switch e.Op {
			case token.EQL:
				return fmt.Sprintf("(%s == %s)", x, y)
			case token.NEQ:
				return fmt.Sprintf("(%s != %s)", x, y)
			case token.LSS:
				return fmt.Sprintf("decide (%s < %s)", x, y)
			case token.LEQ:
				return fmt.Sprintf("decide (%s ≤ %s)", x, y)
			case token.GTR:
				return fmt.Sprintf("decide (%s > %s)", x, y)
			case token.GEQ:
				return fmt.Sprintf("decide (%s ≥ %s)", x, y)
			}
		}
	}
	fail("%s: unsupported expression %s", t.where, t.p.text(e))
	return ""
}

func init() { registerGen("Types", genTypes) }

package main

import (
	"fmt"
	"go/ast"
	"go/token"
)

func sprint(v int64) string { return fmt.Sprintf("%d", v) }

// genQuote extracts the replacer argument lists, the date formats and regex sources.
func genQuote(p *pkgInfo) *leanFile {
	f := newLean("Quote")
	want := map[string]bool{"qsReplacer": true, "qiReplacer": true}
	for _, d := range p.files["parser.go"].Decls {
		gd, ok := d.(*ast.GenDecl)
		if !ok {
			continue
		}
		for _, s := range gd.Specs {
			vs, ok := s.(*ast.ValueSpec)
			if !ok || len(vs.Names) != 1 || len(vs.Values) != 1 {
				continue
			}
			name := vs.Names[0].Name
			switch {
			case gd.Tok == token.VAR && want[name]:
				call, ok := vs.Values[0].(*ast.CallExpr)
				if !ok || p.text(call.Fun) != "strings.NewReplacer" || len(call.Args)%2 != 0 {
					fail("%s: not strings.NewReplacer(pairs...)", name)
				}
				f.pf("/-- `%s = %s` -/\ndef %s : List (List Char × List Char) := [", name, p.text(call), name)
				for i := 0; i < len(call.Args); i += 2 {
					a, ok1 := p.constStr(call.Args[i])
					b, ok2 := p.constStr(call.Args[i+1])
					if !ok1 || !ok2 {
						fail("%s: non-constant replacer argument", name)
					}
					if i > 0 {
						f.pf(", ")
					}
					f.pf("(%s, %s)", leanChars(a), leanChars(b))
				}
				f.pf("]\n\n")
				delete(want, name)
			}
		}
	}
	for n := range want {
		fail("%s not found", n)
	}
	// QuoteString body
	if got := p.text(p.fn("QuoteString").Body); got != "{\n\treturn `'` + qsReplacer.Replace(s) + `'`\n}" {
		fail("QuoteString: unknown body %q", got)
	}
	f.pf("/-- `QuoteString` is `'` ++ qsReplacer.Replace(s) ++ `'` (body text checked by the extractor). -/\ndef quoteStringDelim : Char := '\\''\n")
	return f
}

func lowerFirst(s string) string {
	if s == "" {
		return s
	}
	b := []byte(s)
	if b[0] >= 'A' && b[0] <= 'Z' {
		b[0] += 'a' - 'A'
	}
	return string(b)
}

func init() { registerGen("Quote", genQuote) }

package main

import (
	"go/ast"
	"strings"
)

// genDispatch interprets init() of parse_tree.go symbolically: it replays the Group / Handle / With
// calls on the `Language` tree with the semantics of ParseTree.Group and ParseTree.Handle (whose
// bodies are pinned textually) and emits the resulting tree: per node the Keys slice in insertion
// order, the handler table and the subtree table. Handlers are identified by the method call in
// the body of the registered closure (`return p.<method>(<args>)`).
func genDispatch(p *pkgInfo) *leanFile {
	pinDispatchBodies(p)

	type node struct {
		keys     []string
		handlers [][2]string // token, handler constructor
		subs     []struct {
			tok string
			idx int
		}
	}
	nodes := []*node{{}}
	var handlerNames []string
	seenHandler := map[string]bool{}

	group := func(at int, toks []string) int {
		for _, tok := range toks {
			found := -1
			for _, s := range nodes[at].subs {
				if s.tok == tok {
					found = s.idx
				}
			}
			if found >= 0 {
				at = found
				continue
			}
			for _, h := range nodes[at].handlers {
				if h[0] == tok {
					fail("init: Group(%s) conflicts with a handler (the real init() would panic)", tok)
				}
			}
			nodes = append(nodes, &node{})
			idx := len(nodes) - 1
			nodes[at].subs = append(nodes[at].subs, struct {
				tok string
				idx int
			}{tok, idx})
			nodes[at].keys = append(nodes[at].keys, tok)
			at = idx
		}
		return at
	}
	handle := func(at int, tok, h string) {
		for _, s := range nodes[at].subs {
			if s.tok == tok {
				fail("init: Handle(%s) conflicts with a subtree", tok)
			}
		}
		for _, x := range nodes[at].handlers {
			if x[0] == tok {
				fail("init: Handle(%s) registered twice", tok)
			}
		}
		nodes[at].handlers = append(nodes[at].handlers, [2]string{tok, h})
		nodes[at].keys = append(nodes[at].keys, tok)
		if !seenHandler[h] {
			seenHandler[h] = true
			handlerNames = append(handlerNames, h)
		}
	}

	tokArgs := func(args []ast.Expr) []string {
		var out []string
		for _, a := range args {
			id, ok := a.(*ast.Ident)
			if !ok {
				fail("init: token argument %q is not an identifier", p.text(a))
			}
			out = append(out, id.Name)
		}
		return out
	}

	// handlerOf: func(p *Parser) (Statement, error) { return p.M(args...) }
	handlerOf := func(e ast.Expr) string {
		fl, ok := e.(*ast.FuncLit)
		if !ok || len(fl.Body.List) != 1 {
			fail("init: handler %q is not a one-statement closure", p.text(e))
		}
		if got := p.text(fl.Type); got != "func(p *Parser) (Statement, error)" {
			fail("init: handler has type %q", got)
		}
		rs, ok := fl.Body.List[0].(*ast.ReturnStmt)
		if !ok || len(rs.Results) != 1 {
			fail("init: handler body %q", p.text(fl.Body))
		}
		call, ok := rs.Results[0].(*ast.CallExpr)
		if !ok {
			fail("init: handler body %q", p.text(fl.Body))
		}
		sel, ok := call.Fun.(*ast.SelectorExpr)
		if !ok || p.text(sel.X) != "p" {
			fail("init: handler body %q", p.text(fl.Body))
		}
		name := sel.Sel.Name
		for _, a := range call.Args {
			id, ok := a.(*ast.Ident)
			if !ok {
				fail("init: handler argument %q", p.text(a))
			}
			name += "_" + id.Name
		}
		return name
	}

	var evalRecv func(e ast.Expr, env map[string]int) int
	evalRecv = func(e ast.Expr, env map[string]int) int {
		switch e := e.(type) {
		case *ast.Ident:
			at, ok := env[e.Name]
			if !ok {
				fail("init: unknown tree variable %s", e.Name)
			}
			return at
		case *ast.CallExpr:
			sel, ok := e.Fun.(*ast.SelectorExpr)
			if !ok || sel.Sel.Name != "Group" {
				fail("init: receiver %q", p.text(e))
			}
			return group(evalRecv(sel.X, env), tokArgs(e.Args))
		}
		fail("init: receiver %q", p.text(e))
		return 0
	}

	var exec func(stmts []ast.Stmt, env map[string]int)
	exec = func(stmts []ast.Stmt, env map[string]int) {
		for _, st := range stmts {
			es, ok := st.(*ast.ExprStmt)
			if !ok {
				fail("init: statement %q", p.text(st))
			}
			call, ok := es.X.(*ast.CallExpr)
			if !ok {
				fail("init: statement %q", p.text(st))
			}
			sel, ok := call.Fun.(*ast.SelectorExpr)
			if !ok {
				fail("init: statement %q", p.text(st))
			}
			switch sel.Sel.Name {
			case "Handle":
				if len(call.Args) != 2 {
					fail("init: Handle with %d arguments", len(call.Args))
				}
				at := evalRecv(sel.X, env)
				handle(at, tokArgs(call.Args[:1])[0], handlerOf(call.Args[1]))
			case "With":
				if len(call.Args) != 1 {
					fail("init: With with %d arguments", len(call.Args))
				}
				fl, ok := call.Args[0].(*ast.FuncLit)
				if !ok || len(fl.Type.Params.List) != 1 || len(fl.Type.Params.List[0].Names) != 1 || p.text(fl.Type.Params.List[0].Type) != "*ParseTree" {
					fail("init: With argument %q", p.text(call.Args[0]))
				}
				at := evalRecv(sel.X, env)
				env2 := map[string]int{}
				for k, v := range env {
					env2[k] = v
				}
				env2[fl.Type.Params.List[0].Names[0].Name] = at
				exec(fl.Body.List, env2)
			default:
				fail("init: statement %q", p.text(st))
			}
		}
	}

	var initFn *ast.FuncDecl
	for _, d := range p.files["parse_tree.go"].Decls {
		if fd, ok := d.(*ast.FuncDecl); ok && fd.Name.Name == "init" && fd.Recv == nil {
			initFn = fd
		}
	}
	if initFn == nil {
		fail("parse_tree.go init() not found")
	}
	exec(initFn.Body.List, map[string]int{"Language": 0})

	f := newLean("Dispatch", "InfluxQL.Gen.Token")
	f.pf("/-- The statement handlers registered by `init()` of parse_tree.go: method name, then its\narguments, joined by `_`. -/\ninductive Handler where\n")
	for _, h := range handlerNames {
		f.pf("  | %s\n", h)
	}
	f.pf("  deriving DecidableEq, Repr, Inhabited\n\n")
	f.pf("/-- One `ParseTree`: `Keys` (as tokens; the strings are their `Token.str`) in insertion order,\n`Handlers`, and `Tokens` (subtrees by index into `dispatch`). -/\nstructure DispatchNode where\n  keys : List Token\n  handlers : List (Token × Handler)\n  subs : List (Token × Nat)\n  deriving Repr, Inhabited\n\n")
	f.pf("/-- `Language` after `init()`; entry 0 is the root. -/\ndef dispatch : List DispatchNode := [\n")
	for i, n := range nodes {
		var ks, hs, ss []string
		for _, k := range n.keys {
			ks = append(ks, "."+k)
		}
		for _, h := range n.handlers {
			hs = append(hs, "(."+h[0]+", ."+h[1]+")")
		}
		for _, s := range n.subs {
			ss = append(ss, "(."+s.tok+", "+sprint(int64(s.idx))+")")
		}
		sep := ","
		if i == len(nodes)-1 {
			sep = ""
		}
		f.pf("  { keys := [%s], handlers := [%s], subs := [%s] }%s\n", strings.Join(ks, ", "), strings.Join(hs, ", "), strings.Join(ss, ", "), sep)
	}
	f.pf("]\n")
	return f
}

// pinDispatchBodies checks that Group, Handle and Parse of ParseTree and ParseStatement have the
// bodies whose semantics genDispatch and Model/ParserStmt.lean implement.
func pinDispatchBodies(p *pkgInfo) {
	norm := func(s string) string { return strings.Join(strings.Fields(s), " ") }
	check := func(fn, want string) {
		if got := norm(p.text(p.fn(fn).Body)); got != norm(want) {
			fail("%s: body changed: %q", fn, got)
		}
	}
	check("ParseTree.Group", `{
	for _, tok := range tokens {
		// Look for the parse tree for this token.
		if subtree := t.Tokens[tok]; subtree != nil {
			t = subtree
			continue
		}

		// No subtree exists yet. Verify that we don't have a conflicting
		// statement.
		if _, conflict := t.Handlers[tok]; conflict {
			panic(fmt.Sprintf("conflict for token %s", tok))
		}

		// Create the new parse tree and register it inside of this one for
		// later reference.
		newT := &ParseTree{}
		if t.Tokens == nil {
			t.Tokens = make(map[Token]*ParseTree)
		}
		t.Tokens[tok] = newT
		t.Keys = append(t.Keys, tok.String())
		t = newT
	}
	return t
}`)
	check("ParseTree.Handle", `{
	// Verify that there is no conflict for this token in this parse tree.
	if _, conflict := t.Tokens[tok]; conflict {
		panic(fmt.Sprintf("conflict for token %s", tok))
	}

	if _, conflict := t.Handlers[tok]; conflict {
		panic(fmt.Sprintf("conflict for token %s", tok))
	}

	if t.Handlers == nil {
		t.Handlers = make(map[Token]func(*Parser) (Statement, error))
	}
	t.Handlers[tok] = fn
	t.Keys = append(t.Keys, tok.String())
}`)
	check("ParseTree.Parse", `{
	for {
		tok, pos, lit := p.ScanIgnoreWhitespace()
		if subtree := t.Tokens[tok]; subtree != nil {
			t = subtree
			continue
		}

		if stmt := t.Handlers[tok]; stmt != nil {
			return stmt(p)
		}

		// There were no registered handlers. Return the valid tokens in the order they were added.
		return nil, newParseError(tokstr(tok, lit), t.Keys, pos)
	}
}`)
	check("ParseTree.With", `{
	fn(t)
}`)
	check("Parser.ParseStatement", `{
	return Language.Parse(p)
}`)
}

func init() { registerGen("Dispatch", genDispatch) }

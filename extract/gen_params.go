package main

import (
	"go/ast"
	"go/token"
	"strings"
)

// genParams extracts the tables of params.go: the token kind of every Value type, the body of
// every Value() method, the type switch of BindValue, the key switch of bindObjectValue and
// every ErrorValue text.
func genParams(p *pkgInfo) *leanFile {
	f := newLean("Params", "InfluxQL.Gen.Token")
	file := p.files["params.go"]
	if file == nil {
		fail("params.go not found")
	}
	// the Value types in declaration order
	var types []string
	for _, d := range file.Decls {
		gd, ok := d.(*ast.GenDecl)
		if !ok || gd.Tok != token.TYPE {
			continue
		}
		for _, s := range gd.Specs {
			ts := s.(*ast.TypeSpec)
			if ts.Name.Name != "Value" {
				types = append(types, ts.Name.Name)
			}
		}
	}
	if len(types) == 0 {
		fail("no Value types found")
	}
	// TokenType(): `return T` or `if v { return A } else { return B }`
	f.pf("/-- `TokenType()` of every `Value` type of params.go, in declaration order (two entries: `if v` / `else`). -/\n")
	f.pf("def valueTokenTypes : List (List Char × List Token) := [")
	for i, t := range types {
		fd := p.fn(t + ".TokenType")
		var toks []string
		stmts := fd.Body.List
		switch {
		case len(stmts) == 1 && isReturnIdent(stmts[0]) != "":
			toks = []string{isReturnIdent(stmts[0])}
		case len(stmts) == 1:
			is, ok := stmts[0].(*ast.IfStmt)
			if !ok || is.Init != nil || p.text(is.Cond) != "v" || len(is.Body.List) != 1 {
				fail("%s.TokenType: unknown body", t)
			}
			eb, ok := is.Else.(*ast.BlockStmt)
			if !ok || len(eb.List) != 1 || isReturnIdent(is.Body.List[0]) == "" || isReturnIdent(eb.List[0]) == "" {
				fail("%s.TokenType: unknown if/else body", t)
			}
			toks = []string{isReturnIdent(is.Body.List[0]), isReturnIdent(eb.List[0])}
		default:
			fail("%s.TokenType: unknown body", t)
		}
		if i > 0 {
			f.pf(", ")
		}
		f.pf("(%s, [.%s])", leanChars(t), strings.Join(toks, ", ."))
	}
	f.pf("]\n\n")
	// Value(): body expression text
	f.pf("/-- The expression returned by `Value()` of every `Value` type. -/\n")
	f.pf("def valueTexts : List (List Char × List Char) := [")
	for i, t := range types {
		fd := p.fn(t + ".Value")
		if len(fd.Body.List) != 1 {
			fail("%s.Value: unknown body", t)
		}
		rs, ok := fd.Body.List[0].(*ast.ReturnStmt)
		if !ok || len(rs.Results) != 1 {
			fail("%s.Value: unknown body", t)
		}
		if i > 0 {
			f.pf(", ")
		}
		f.pf("(%s, %s)", leanChars(t), leanChars(p.text(rs.Results[0])))
	}
	f.pf("]\n\n")
	// BindValue: the cases of the type switch, in order, with the returned constructor
	bv := p.fn("BindValue")
	var tsw *ast.TypeSwitchStmt
	for _, s := range bv.Body.List {
		if x, ok := s.(*ast.TypeSwitchStmt); ok {
			tsw = x
		}
	}
	if tsw == nil {
		fail("BindValue: no type switch")
	}
	f.pf("/-- The type switch of `BindValue`: (case type, first statement of the case). -/\n")
	f.pf("def bindTypeSwitch : List (List Char × List Char) := [")
	for i, c := range tsw.Body.List {
		cc := c.(*ast.CaseClause)
		label := "default"
		if len(cc.List) == 1 {
			label = p.text(cc.List[0])
		} else if len(cc.List) > 1 {
			fail("BindValue: multi-type case")
		}
		if len(cc.Body) == 0 {
			fail("BindValue: empty case")
		}
		if i > 0 {
			f.pf(", ")
		}
		f.pf("(%s, %s)", leanChars(label), leanChars(p.text(cc.Body[0])))
	}
	f.pf("]\n\n")
	// bindObjectValue: the key switch
	bo := p.fn("bindObjectValue")
	var ksw *ast.SwitchStmt
	for _, s := range bo.Body.List {
		if x, ok := s.(*ast.SwitchStmt); ok && x.Tag != nil && p.text(x.Tag) == "k" {
			ksw = x
		}
	}
	if ksw == nil {
		fail("bindObjectValue: no switch k")
	}
	f.pf("/-- The key switch of `bindObjectValue`: the keys of every case (`[]` = default). -/\n")
	f.pf("def bindObjectKeys : List (List (List Char)) := [")
	for i, c := range ksw.Body.List {
		cc := c.(*ast.CaseClause)
		var keys []string
		for _, e := range cc.List {
			s, ok := p.constStr(e)
			if !ok {
				fail("bindObjectValue: non-constant case label")
			}
			keys = append(keys, leanChars(s))
		}
		if i > 0 {
			f.pf(", ")
		}
		f.pf("[%s]", strings.Join(keys, ", "))
	}
	f.pf("]\n\n")
	// every constant ErrorValue("...") text, in source order
	f.pf("/-- Every constant `ErrorValue(\"…\")` text of params.go, in source order. -/\n")
	f.pf("def bindErrorTexts : List (List Char) := [")
	first := true
	ast.Inspect(file, func(n ast.Node) bool {
		call, ok := n.(*ast.CallExpr)
		if !ok || len(call.Args) != 1 {
			return true
		}
		if id, ok := call.Fun.(*ast.Ident); !ok || id.Name != "ErrorValue" {
			return true
		}
		if s, ok := p.constStr(call.Args[0]); ok {
			if !first {
				f.pf(", ")
			}
			first = false
			f.pf("%s", leanChars(s))
		}
		return true
	})
	f.pf("]\n")
	return f
}

func isReturnIdent(s ast.Stmt) string {
	rs, ok := s.(*ast.ReturnStmt)
	if !ok || len(rs.Results) != 1 {
		return ""
	}
	id, ok := rs.Results[0].(*ast.Ident)
	if !ok {
		return ""
	}
	return id.Name
}

func init() { registerGen("Params", genParams) }

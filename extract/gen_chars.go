package main

import (
	"fmt"
	"go/ast"
	"go/token"
)

// runeExpr translates a boolean Go expression over a single rune parameter
// into a Lean Bool expression over `ch : Char` (compared by code point).
func (p *pkgInfo) runeExpr(e ast.Expr, param string, where string) string {
	switch e := e.(type) {
	case *ast.ParenExpr:
		return "(" + p.runeExpr(e.X, param, where) + ")"
	case *ast.BinaryExpr:
		switch e.Op {
		case token.LOR:
			return p.runeExpr(e.X, param, where) + " || " + p.runeExpr(e.Y, param, where)
		case token.LAND:
			return p.runeExpr(e.X, param, where) + " && " + p.runeExpr(e.Y, param, where)
		case token.EQL, token.NEQ, token.LEQ, token.GEQ, token.LSS, token.GTR:
			id, ok := e.X.(*ast.Ident)
			if !ok || id.Name != param {
				fail("%s: comparison lhs is not %s: %s", where, param, p.text(e))
			}
			v, ok := p.constInt(e.Y)
			if !ok {
				fail("%s: comparison rhs not constant: %s", where, p.text(e))
			}
			op := map[token.Token]string{token.EQL: "==", token.NEQ: "!=", token.LEQ: "≤", token.GEQ: "≥", token.LSS: "<", token.GTR: ">"}[e.Op]
			if e.Op == token.EQL || e.Op == token.NEQ {
				return fmt.Sprintf("(ch.toNat %s %d)", op, v)
			}
			return fmt.Sprintf("decide (ch.toNat %s %d)", op, v)
		}
	case *ast.CallExpr:
		if id, ok := e.Fun.(*ast.Ident); ok && len(e.Args) == 1 {
			if a, ok := e.Args[0].(*ast.Ident); ok && a.Name == param {
				return id.Name + " ch"
			}
		}
	}
	fail("%s: unsupported expression %s", where, p.text(e))
	return ""
}

func genChars(p *pkgInfo) *leanFile {
	f := newLean("Chars")
	for _, name := range []string{"isWhitespace", "isLetter", "isDigit", "isIdentChar", "isIdentFirstChar"} {
		fd := p.fn(name)
		if len(fd.Type.Params.List) != 1 || len(fd.Type.Params.List[0].Names) != 1 || len(fd.Body.List) != 1 {
			fail("%s: unexpected signature/body", name)
		}
		param := fd.Type.Params.List[0].Names[0].Name
		rs, ok := fd.Body.List[0].(*ast.ReturnStmt)
		if !ok || len(rs.Results) != 1 {
			fail("%s: body is not a single return", name)
		}
		f.pf("/-- `%s`: `%s` -/\ndef %s (ch : Char) : Bool :=\n  %s\n\n", name, p.text(rs.Results[0]), name, p.runeExpr(rs.Results[0], param, name))
	}
	// const eof = rune(0)
	found := false
	for _, d := range p.files["scanner.go"].Decls {
		if gd, ok := d.(*ast.GenDecl); ok && gd.Tok == token.CONST {
			for _, s := range gd.Specs {
				vs := s.(*ast.ValueSpec)
				if len(vs.Names) == 1 && vs.Names[0].Name == "eof" && len(vs.Values) == 1 {
					v, ok := p.constInt(vs.Values[0])
					if !ok {
						fail("eof: not a constant")
					}
					f.pf("/-- `const eof = %s` -/\ndef eofRune : Char := Char.ofNat %d\n\n", p.text(vs.Values[0]), v)
					found = true
				}
			}
		}
	}
	if !found {
		fail("const eof not found")
	}
	return f
}

func init() { registerGen("Chars", genChars) }

#!/usr/bin/env python3
"""Resolve a merge conflict in known_findings.json by taking the union of both sides' entries."""
import json, subprocess
def side(n):
    return json.loads(subprocess.check_output(["git", "show", ":%d:known_findings.json" % n]))
ours, theirs = side(2), side(3)
seen = {(f["property"], f["class"]) for f in ours["findings"]}
for f in theirs["findings"]:
    if (f["property"], f["class"]) not in seen:
        ours["findings"].append(f); seen.add((f["property"], f["class"]))
json.dump(ours, open("known_findings.json", "w"), indent=1, ensure_ascii=False)
print(len(ours["findings"]), "findings")

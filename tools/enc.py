#!/usr/bin/env python3
"""tools/enc.py <stream> [flag] < texts : one case line per input line (ASCII / BMP text without
bound parameters; `\\n` in the input stands for a newline). Used to replay witnesses:
    echo 'SELECT a FROM m,/x/' | tools/enc.py parse.stmt valid | .bin/harness prop"""
import sys

stream = sys.argv[1]
flag = sys.argv[2] if len(sys.argv) > 2 else "-"
for line in sys.stdin:
    t = line.rstrip("\n").replace("\\n", "\n")
    lower = []
    seen = set()
    for c in t:
        if ord(c) >= 0x80 and c not in seen:
            seen.add(c)
            if c.lower() != c and len(c.lower()) == 1:
                lower.append("%x-%x" % (ord(c), ord(c.lower())))
    print("%s s:%s p: l:%s %s" % (stream, ",".join("%x" % ord(c) for c in t), ",".join(lower), flag))

#!/bin/sh
# Manual differential loop:  tools/cmp.sh <stream> <seed> <n>
# generates cases, runs implementation and Lean oracle, prints the first differences and the
# distribution of property-oracle verdicts.
cd "$(dirname "$0")/.."
s=$1; seed=${2:-1}; n=${3:-20000}
d=.run/cmp-$s-$seed; mkdir -p $d
.bin/harness gen $s -seed $seed -n $n > $d/c.txt
.bin/harness impl < $d/c.txt > $d/i.txt
lean/.lake/build/bin/oracle < $d/c.txt > $d/m.txt
paste -d'\n' $d/i.txt $d/m.txt | awk 'NR%2==1{a=$0;next} a!=$0 && a !~ /^skip/{n++; if(n<'${SHOW:-6}'){print NR/2; print a; print $0}} END{print n+0,"diffs of",NR/2}'
awk '{print substr($1,1,4)}' $d/i.txt | sort | uniq -c | sort -rn | head -5
.bin/harness prop < $d/c.txt | cut -c1-${W:-200} | sort | uniq -c | sort -rn | head -${P:-8}

#!/usr/bin/env python3
"""Store a confirmed seeded change: tools/store_seeded.py <Cxx> <k> "<detection text>" [--check "<text>"]
copies /tmp/mut-<Cxx>-out/<k>/{patch.diff,demo_test.go,README.md} to seeded/<Cxx>-<k>/ and writes meta.json
(needs_to_manifest = first paragraph of the README section about what is needed to manifest)."""
import json, os, re, shutil, sys
ROOT = os.path.dirname(os.path.dirname(os.path.abspath(__file__)))
pid, k, detection = sys.argv[1], sys.argv[2], sys.argv[3]
check = "./check %s (quick tier, seed 1) exits 1 with VIOLATION and a concrete replay input" % pid
if "--check" in sys.argv:
    check = sys.argv[sys.argv.index("--check") + 1]
src = "/tmp/mut-%s-out/%s" % (pid, k)
sid = "%s-%s" % (pid, k)
if "--src" in sys.argv:  # e.g. round 2: --src /tmp/mut2-C01-out/1 --id C01-4
    src = sys.argv[sys.argv.index("--src") + 1]
if "--id" in sys.argv:
    sid = sys.argv[sys.argv.index("--id") + 1]
dst = os.path.join(ROOT, "seeded", sid)
os.makedirs(dst, exist_ok=True)
for f in os.listdir(src):
    if os.path.isfile(os.path.join(src, f)):
        shutil.copy(os.path.join(src, f), os.path.join(dst, f))
readme = open(os.path.join(src, "README.md")).read() if os.path.exists(os.path.join(src, "README.md")) else ""
title = readme.strip().split("\n")[0].lstrip("# ").strip()
m = re.search(r"^#+[^\n]*(needed|manifest|trigger)[^\n]*\n+(.*?)(?:\n\s*\n|\n#)", readme, re.S | re.I | re.M)
needs = " ".join(m.group(2).split()) if m else ""
meta = {
    "id": sid,
    "breaks_property": pid,
    "title": title,
    "needs_to_manifest": needs,
    "written_by": "fresh sub-agent given only the property text and a scratch worktree of /repo",
    "confirmed": "tools/try_seeded.py <patch> %s --demo <demo>: patch applies to HEAD of /repo; unedited suite passes with it; demo fails with it and passes without it" % pid,
    "detection": detection,
    "check": check,
}
json.dump(meta, open(os.path.join(dst, "meta.json"), "w"), indent=1, ensure_ascii=False)
print(dst, "|", title, "|", needs[:120])

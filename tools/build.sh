#!/bin/sh
# Rebuild harness, registries and oracle (manual development loop).
set -e
cd "$(dirname "$0")/.."
export GOFLAGS=-mod=mod GOPROXY=off GOSUMDB=off GOTOOLCHAIN=local CGO_ENABLED=0
(cd harness && go build -tags verif -o ../.bin/harness .)
python3 tools/gen_registry.py >/dev/null
(cd lean && lake build oracle "$@" 2>&1 | grep -v "^✔\|^Build completed" || true)

import re, sys


def chars(s):
    out = []
    for ch in s:
        if ch == "'":
            out.append("'\\''")
        elif ch == "\\":
            out.append("'\\\\'")
        elif 0x20 <= ord(ch) < 0x7f:
            out.append("'%s'" % ch)
        elif ch == "\n":
            out.append("'\\n'")
        elif ch == "\t":
            out.append("'\\t'")
        else:
            out.append("(Char.ofNat 0x%x)" % ord(ch))
    return "[" + ", ".join(out) + "]"


src = open(sys.argv[1], encoding="utf-8").read()


# «...» is replaced by the List Char literal of the text inside; ⏎ stands for newline, ⇥ for tab
def rep(m):
    t = m.group(1).replace("⏎", "\n").replace("⇥", "\t")
    if len(t) >= 8 and "-/" not in t and "/-" not in t:
        return "/- " + m.group(1) + " -/ " + chars(t)
    return chars(t)


out = re.sub(r"«([^»]*)»", rep, src)
open(sys.argv[2], "w", encoding="utf-8").write(out)

#!/usr/bin/env python3
"""Write the table of seeded changes (seeded/*/meta.json) into DESIGN.md §7.5 between markers."""
import json, os, re
ROOT = os.path.dirname(os.path.dirname(os.path.abspath(__file__)))
rows, missed = [], 0
for d in sorted(os.listdir(os.path.join(ROOT, "seeded"))):
    mp = os.path.join(ROOT, "seeded", d, "meta.json")
    if not os.path.exists(mp):
        continue
    m = json.load(open(mp))
    title = m.get("title") or ""
    if not title:
        rp = os.path.join(ROOT, "seeded", d, "README.md")
        if os.path.exists(rp):
            title = open(rp).read().strip().split("\n")[0].lstrip("# ").strip()
    title = re.sub(r"^Change \d+\s*[-—–:]*\s*", "", title)
    det = m.get("detection", "")
    first = "missed" if det.upper().startswith("MISSED") else "caught"
    missed += first == "missed"
    rows.append("| %s | %s | %s | %s |" % (m["id"], title.replace("|", "\\|"), first, det.replace("|", "\\|")))
B, E = "<!-- BEGIN seeded table -->", "<!-- END seeded table -->"
block = B + "\n\n%d changes stored, %d of them missed by the first version of the check and caught after the strengthening described in the last column; all %d are caught by `./check <property>` (quick tier, seed 1) now, each with a concrete replay input except where the last column says otherwise (`seeded/REGRESSION.json` has status and wall time per change as last measured).\n\n| id | change | first run | how it is detected |\n|---|---|---|---|\n" % (len(rows), missed, len(rows)) + "\n".join(rows) + "\n\n" + E
p = os.path.join(ROOT, "DESIGN.md")
s = open(p, encoding="utf-8").read()
if B in s:
    s = s[:s.index(B)] + block + s[s.index(E) + len(E):]
else:
    s = s.rstrip("\n") + "\n\n" + block + "\n"
open(p, "w", encoding="utf-8").write(s)
print(len(rows), "rows,", missed, "first missed")

#!/bin/sh
# tools/fails.sh <stream> <seed>: classify the property failures of the last cmp.sh run; print unclassified ones.
cd "$(dirname "$0")/.."
d=.run/cmp-$1-${2:-1}
.bin/harness prop < $d/c.txt > $d/p.txt
paste -d'\t' $d/p.txt $d/c.txt | grep '^FAIL' | cut -f2 > $d/f.txt
.bin/harness known < $d/f.txt > $d/k.txt
sort $d/k.txt | uniq -c | sort -rn
paste -d'\t' $d/k.txt $d/f.txt | grep '^-' | cut -f2 > $d/u.txt
.bin/harness prop < $d/u.txt | cut -c1-${W:-700} | head -${N:-10}

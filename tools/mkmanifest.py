#!/usr/bin/env python3
"""Regenerate /verif/MANIFEST.json from checks_config.CHECKS and the texts below."""
import json, os, sys
ROOT = os.path.dirname(os.path.dirname(os.path.abspath(__file__)))
sys.path.insert(0, ROOT)
from checks_config import CHECKS
from manifest_texts import TEXTS, NOT_APPLICABLE, HOOK_COMMITS

props = [json.loads(l) for l in open(os.path.join(ROOT, "properties.jsonl"))]
claimed = sorted(CHECKS)
m = {
    "version": 1,
    "setup_cmd": "./setup.sh",
    "hooks": {"guard": "verif",
              "enable": "go build -tags verif (the harness module replaces github.com/influxdata/influxql with /repo)",
              "baseline_off_cmd": "cd /repo && go test -vet=off -count=1 ./...",
              "source_commits": HOOK_COMMITS, "add_only": True},
    "engines": [
        {"name": "lean-model", "path": "lean/", "serves_properties": claimed,
         "kind_free_text": "Lean 4 executable model + theorems (lake project InfluxQL); tables in lean/InfluxQL/Gen regenerated from /repo on every run"},
        {"name": "extract", "path": "extract/", "serves_properties": claimed,
         "kind_free_text": "Go stdlib go/ast + go/types translator: /repo sources -> Lean tables and site inventories"},
        {"name": "harness", "path": "harness/", "serves_properties": claimed,
         "kind_free_text": "Go differential harness: seeded generators, implementation runner, property oracles, shrinker"}],
    "checks": [], "not_applicable": [],
    "notes": "See DESIGN.md. Every check: ./check <id> [--tier quick|thorough] [--replay file]; VERIF_SEED selects the PRNG seed. "
             "Known findings: known_findings.json.",
}
for p in props:
    pid = p["id"]
    if pid in CHECKS:
        t = TEXTS[pid]
        m["checks"].append({
            "property_id": pid, "quick_cmd": "./check %s --tier quick" % pid, "thorough_cmd": "./check %s --tier thorough" % pid,
            "evidence_file": "/verif/evidence/%s.json" % pid, "replay_cmd_template": "./check %s --replay {path}" % pid,
            "engine": "lean-model",
            "level_claimed": {"category": "proof", "text": t["text"], "design_ref": "DESIGN.md §4 " + pid},
            "level_note": t["note"], "technique": t.get("technique", "Lean 4 theorems over an executable model; regenerated tables + differential correspondence")})
    else:
        m["not_applicable"].append({"property_id": pid, "reason": NOT_APPLICABLE.get(pid, "not yet built in this round (planned: Lean model + theorems, DESIGN.md §4); no check is claimed until it exists")})
json.dump(m, open(os.path.join(ROOT, "MANIFEST.json"), "w"), indent=1)
print("claimed:", " ".join(claimed))

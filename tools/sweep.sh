#!/bin/sh
# tools/sweep.sh <n> <seed>...: run the three statement streams at size n for each seed; one summary line each.
cd "$(dirname "$0")/.."
n=$1; shift
for seed in "$@"; do
  for s in parse.stmt parse.query print.stmt; do
    d=.run/sweep-$s-$seed; mkdir -p $d
    .bin/harness gen $s -seed $seed -n $n > $d/c.txt
    .bin/harness impl < $d/c.txt > $d/i.txt
    lean/.lake/build/bin/oracle < $d/c.txt > $d/m.txt
    diffs=$(paste -d'\n' $d/i.txt $d/m.txt | awk 'NR%2==1{a=$0;next} a!=$0 && a !~ /^skip/{n++} END{print n+0}')
    .bin/harness prop < $d/c.txt > $d/p.txt
    fails=$(grep -c '^FAIL' $d/p.txt)
    oks=$(grep -c '^ok' $d/p.txt)
    echo "$s seed=$seed cases=$(wc -l < $d/c.txt) diffs=$diffs prop_ok=$oks prop_fail=$fails panics=$(grep -c '^panic' $d/i.txt) fuel=$(grep -c 'out-of-fuel' $d/m.txt)"
  done
done

#!/usr/bin/env python3
"""Fold notes/Cxx.md into DESIGN.md §7.4 (between the BEGIN/END markers)."""
import os, re
ROOT = os.path.dirname(os.path.dirname(os.path.abspath(__file__)))
p = os.path.join(ROOT, "DESIGN.md")
s = open(p, encoding="utf-8").read()
B, E = "<!-- BEGIN per-property notes -->", "<!-- END per-property notes -->"
parts = []
for f in sorted(os.listdir(os.path.join(ROOT, "notes"))):
    if re.fullmatch(r"C\d+\.md", f):
        body = open(os.path.join(ROOT, "notes", f), encoding="utf-8").read().strip()
        body = re.sub(r"^(#+) ", lambda m: "####" + "#" * max(0, len(m.group(1)) - 1) + " ", body, flags=re.M)
        parts.append("#### Property %s (notes/%s)\n\n%s\n" % (f[:-3], f, body))
block = B + "\n\n" + "\n".join(parts) + "\n" + E
if B in s:
    s = s[:s.index(B)] + block + s[s.index(E) + len(E):]
else:
    s = s.replace("claimed. C03, C05, C06, C08: theorems as listed in the MANIFEST texts; everything else: see notes.",
                  "claimed. C03, C05, C06, C08: theorems as listed in the MANIFEST texts (config/Cxx.json); the write-ups of the\nother properties follow.\n\n" + block)
open(p, "w", encoding="utf-8").write(s)
print("folded", len(parts), "notes")

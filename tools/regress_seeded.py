#!/usr/bin/env python3
"""Run every stored seeded change (seeded/<id>/patch.diff) against the check of the property it breaks.

usage: tools/regress_seeded.py [-j N] [--only ID ...] [--timeout SECONDS] [--tier quick|thorough]

For each change: a scratch worktree of /repo (under /tmp, removed afterwards) gets the patch; `./check <Cxx>`
runs with VERIF_REPO pointing at it, in one of N private worktrees of /verif (created under /tmp/vw/regress-<i>
from HEAD with the build output copied from /verif, so the lean lock and the regenerated tables of /verif itself
are never touched). Recorded per change: exit status, number of VIOLATION lines, whether a concrete failing
input was reported (no `no-failing-input-found`), wall time. Nothing is ever applied to /repo itself.
The result is written to seeded/REGRESSION.json; a change that is not reported (exit 0), is reported without a
failing input, or runs into the timeout is listed at the end."""
import json, os, queue, shutil, subprocess, sys, threading, time

ROOT = os.path.dirname(os.path.dirname(os.path.abspath(__file__)))
ENV = dict(os.environ, GOFLAGS="-mod=mod", GOPROXY="off", GOSUMDB="off", GOTOOLCHAIN="local")


def sh(cmd, **kw):
    return subprocess.run(cmd, shell=True, text=True, capture_output=True, env=ENV, **kw)


def main():
    args = sys.argv[1:]
    jobs, only, timeout, tier = 4, [], 1500, "quick"
    srcdir, outfile, confirm = os.path.join(ROOT, "seeded"), None, False
    i = 0
    while i < len(args):
        if args[i] == "-j":
            jobs = int(args[i + 1]); i += 2
        elif args[i] == "--timeout":
            timeout = int(args[i + 1]); i += 2
        elif args[i] == "--tier":
            tier = args[i + 1]; i += 2
        elif args[i] == "--dir":      # candidates not stored yet: <dir>/<id>/patch.diff (+ demo_test.go)
            srcdir = args[i + 1]; i += 2
        elif args[i] == "--out":
            outfile = args[i + 1]; i += 2
        elif args[i] == "--confirm":  # also confirm the change: demo passes without it, suite passes with it, demo fails with it
            confirm = True; i += 1
        elif args[i] == "--only":
            only = args[i + 1:]; break
        else:
            i += 1
    ids = sorted(d for d in os.listdir(srcdir) if os.path.isfile(os.path.join(srcdir, d, "patch.diff")))
    if only:
        ids = [d for d in ids if d in only]
    q = queue.Queue()
    for d in ids:
        q.put(d)
    results, lock = {}, threading.Lock()

    def worker(k):
        wt = "/tmp/vw/regress%s-%d" % (os.environ.get("REGRESS_TAG", ""), k)
        sh("git -C %s worktree remove --force %s" % (ROOT, wt))
        r = sh("git -C %s worktree add -q --detach %s HEAD" % (ROOT, wt))
        if r.returncode != 0:
            print("cannot create", wt, r.stderr); return
        for sub in ("lean/.lake", ".bin"):
            shutil.copytree(os.path.join(ROOT, sub), os.path.join(wt, sub), symlinks=True)
        for f in ("lean/Oracle/All.lean", "lean/InfluxQL.lean"):
            shutil.copy(os.path.join(ROOT, f), os.path.join(wt, f))
        try:
            while True:
                try:
                    sid = q.get_nowait()
                except queue.Empty:
                    break
                pid = sid.split("-")[0]
                repo = "/tmp/regrepo%s-%d" % (os.environ.get("REGRESS_TAG", ""), k)
                sh("git -C /repo worktree remove --force %s" % repo)
                sh("git -C /repo worktree add -q --detach %s HEAD" % repo)
                rec = {"property": pid}
                demo = os.path.join(srcdir, sid, "demo_test.go")
                if confirm and os.path.exists(demo):
                    shutil.copy(demo, os.path.join(repo, "zz_demo_test.go"))
                    r0 = sh("go test -vet=off -count=1 -run . ./ 2>&1 | tail -5", cwd=repo)
                    rec["demo_passes_without"] = ("ok  " in r0.stdout and "FAIL" not in r0.stdout)
                    os.remove(os.path.join(repo, "zz_demo_test.go"))
                ap = sh("git apply %s" % os.path.join(srcdir, sid, "patch.diff"), cwd=repo)
                if confirm and ap.returncode == 0:
                    r1 = sh("go build ./... && go test -vet=off -count=1 ./... 2>&1 | tail -3", cwd=repo)
                    rec["suite_passes_with"] = "ok  \tgithub.com/influxdata/influxql" in r1.stdout
                    if os.path.exists(demo):
                        shutil.copy(demo, os.path.join(repo, "zz_demo_test.go"))
                        r2 = sh("go test -vet=off -count=1 -run . ./ 2>&1 | tail -5", cwd=repo)
                        rec["demo_fails_with"] = "FAIL" in r2.stdout
                        os.remove(os.path.join(repo, "zz_demo_test.go"))
                if ap.returncode != 0:
                    rec["status"] = "patch-does-not-apply"
                else:
                    t0 = time.time()
                    try:
                        p = subprocess.run([os.path.join(wt, "check"), pid, "--tier", tier], cwd=wt, text=True, capture_output=True,
                                           env=dict(ENV, VERIF_REPO=repo), timeout=timeout)
                        out = p.stdout
                        viol = [l for l in out.split("\n") if l.startswith("VIOLATION")]
                        rec.update(exit=p.returncode, violations=len(viol),
                                   concrete_input=any("no-failing-input-found" not in l for l in viol),
                                   broken=[l.strip()[:200] for l in out.split("\n") if l.startswith("  broken:")][:4])
                        rec["status"] = "caught-with-input" if (p.returncode == 1 and rec["concrete_input"]) else (
                            "caught-without-input" if p.returncode == 1 else ("MISSED" if p.returncode == 0 else "machinery-error"))
                        if p.returncode not in (0, 1):
                            rec["tail"] = out[-600:]
                    except subprocess.TimeoutExpired:
                        rec["status"] = "TIMEOUT"
                    rec["wall_s"] = round(time.time() - t0, 1)
                sh("git -C /repo worktree remove --force %s" % repo)
                with lock:
                    results[sid] = rec
                    print("%-8s %-22s %6.1fs" % (sid, rec["status"], rec.get("wall_s", 0)), flush=True)
        finally:
            sh("git -C %s worktree remove --force %s" % (ROOT, wt))

    ts = [threading.Thread(target=worker, args=(k,)) for k in range(jobs)]
    for t in ts:
        t.start()
    for t in ts:
        t.join()
    out = outfile or os.path.join(ROOT, "seeded", "REGRESSION.json")
    old = {}
    if only and os.path.exists(out):
        old = json.load(open(out)).get("results", {})
    old.update(results)
    head = sh("git -C %s rev-parse --short HEAD" % ROOT).stdout.strip()
    repo_head = sh("git -C /repo rev-parse --short HEAD").stdout.strip()
    json.dump({"verif_commit": head, "repo_commit": repo_head, "tier": tier, "results": dict(sorted(old.items()))},
              open(out, "w"), indent=1)
    bad = {k: v["status"] for k, v in sorted(old.items()) if v["status"] != "caught-with-input"}
    print("%d changes, %d caught with a concrete input" % (len(old), len(old) - len(bad)))
    for k, v in bad.items():
        print("  ", k, v)


if __name__ == "__main__":
    main()

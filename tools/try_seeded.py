#!/usr/bin/env python3
"""Try a seeded change against the checks WITHOUT touching /repo: apply <patch> to a scratch
worktree of /repo, run `./check <ids…>` with VERIF_REPO pointing there, print the outcomes, remove
the worktree.   usage: tools/try_seeded.py <patch.diff> <Cxx> [<Cyy> …] [--demo demo_test.go]"""
import os, subprocess, sys, shutil, tempfile
ROOT = os.path.dirname(os.path.dirname(os.path.abspath(__file__)))
args = sys.argv[1:]
demo = None
if "--demo" in args:
    i = args.index("--demo"); demo = args[i + 1]; del args[i:i + 2]
patch, ids = os.path.abspath(args[0]), args[1:]
wt = tempfile.mkdtemp(prefix="seedrepo-", dir="/tmp")
os.rmdir(wt)
env = dict(os.environ, GOFLAGS="-mod=mod", GOPROXY="off", GOSUMDB="off", GOTOOLCHAIN="local")
def sh(cmd, **kw):
    return subprocess.run(cmd, shell=True, text=True, capture_output=True, env=env, **kw)
try:
    r = sh("git -C /repo worktree add -q --detach %s HEAD" % wt); assert r.returncode == 0, r.stderr
    if demo:
        shutil.copy(demo, os.path.join(wt, "zz_demo_test.go"))
        r = sh("go test -vet=off -count=1 -run . ./ 2>&1 | tail -5", cwd=wt)
        print("demo without change:", "passes" if ("ok  " in r.stdout and "FAIL" not in r.stdout) else "DOES NOT PASS\n" + r.stdout)
        os.remove(os.path.join(wt, "zz_demo_test.go"))
    r = sh("git apply %s" % patch, cwd=wt); assert r.returncode == 0, "patch does not apply: " + r.stderr
    r = sh("go build ./... && go test -vet=off -count=1 ./... 2>&1 | tail -3", cwd=wt)
    print("suite with change:", "PASS" if "ok  \tgithub.com/influxdata/influxql" in r.stdout else "FAIL\n" + r.stdout + r.stderr)
    if demo:
        shutil.copy(demo, os.path.join(wt, "zz_demo_test.go"))
        r = sh("go test -vet=off -count=1 -run . ./ 2>&1 | tail -5", cwd=wt)
        print("demo with change:", "FAILS (as intended)" if "FAIL" in r.stdout else "passes?!\n" + r.stdout)
        os.remove(os.path.join(wt, "zz_demo_test.go"))
    for pid in ids:
        e = dict(env, VERIF_REPO=wt)
        r = subprocess.run([os.path.join(ROOT, "check"), pid], text=True, capture_output=True, env=e, cwd=ROOT)
        lines = [l for l in r.stdout.split("\n") if l.startswith(("VIOLATION", "OK", "ERROR", "  broken"))]
        print("check %s: exit=%d" % (pid, r.returncode)); print("\n".join("   " + l[:300] for l in lines[:8]))
finally:
    sh("git -C /repo worktree remove --force %s" % wt)
    # the Gen tables were regenerated from the scratch copy: regenerate from /repo again
    subprocess.run([os.path.join(ROOT, "check"), ids[0]], capture_output=True, env=env, cwd=ROOT)

#!/bin/sh
# tools/classes.sh <dir>...: known-class histogram of the property failures recorded in a cmp/sweep directory.
cd "$(dirname "$0")/.."
for d in "$@"; do
  [ -f $d/p.txt ] || .bin/harness prop < $d/c.txt > $d/p.txt
  paste -d'\t' $d/p.txt $d/c.txt | grep '^FAIL' | cut -f2 > $d/f.txt
  echo "$d: $(wc -l < $d/f.txt) failures"
  .bin/harness known < $d/f.txt | sort | uniq -c
done

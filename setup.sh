#!/bin/sh
# Build everything the checks need from files on disk only (offline).
set -e
cd "$(dirname "$0")"
export GOFLAGS=-mod=mod GOPROXY=off GOSUMDB=off GOTOOLCHAIN=local CGO_ENABLED=0
mkdir -p .bin lean/InfluxQL/Gen
(cd extract && go build -o ../.bin/extract .)
./.bin/extract /repo lean/InfluxQL/Gen
(cd harness && cp /repo/go.sum . 2>/dev/null || true; go build -tags verif -o ../.bin/harness .)
python3 tools/gen_registry.py
(cd lean && lake build InfluxQL oracle)
cp lean/.lake/build/bin/oracle .bin/oracle.lastgood
echo setup-ok

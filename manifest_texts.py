"""Texts for MANIFEST.json; the per-property texts live in config/Cxx.json ("text", "note")."""
from checks_config import CHECKS

HOOK_COMMITS = ["ad0b5fa", "87c1c83", "c2cb91a"]
NOT_APPLICABLE = {}
TEXTS = {pid: {"text": c["text"], "note": c["note"], **({"technique": c["technique"]} if "technique" in c else {})}
         for pid, c in CHECKS.items()}

"""Texts for MANIFEST.json (level claimed / trusted base per property)."""

HOOK_COMMITS = ["ad0b5fa"]

NOT_APPLICABLE = {}

COMMON_NOTE = ("Trusted: Lean 4.33 kernel; axioms propext/Classical.choice/Quot.sound only (audited per theorem each run); "
               "the extractor and the differential harness; the Lean compiler only to execute the oracle. ")

TEXTS = {
    "C03": {
        "text": "Theorems for chains of any length over any operators and atoms (Lemmas/Prec.lean, Props/C03.lean): chain_yield (nothing "
                "lost or reordered), chain_wellGrouped (left operand binds >= parent, right operand > parent: five levels, left "
                "associative), chain_unique (the only tree over that token sequence with this grouping), chain_reparse, spine_le_four "
                "(the insertion loop descends at most four nodes: linear time), emb_insertT (the Expr-level loop of the parser model is "
                "that abstract loop), gen_precedence_levels / gen_operators_have_levels by decide over the precedence table regenerated "
                "from token.go; negated_operand_counterexample (kernel-checked) for the known printing defect. Tie: the full "
                "expression parser model (scanner, token ring, parameter substitution, ParseExpr/parseUnaryExpr/parseCall/parseRegex/"
                "ParseVarRef) is executed against the real ParseExpr on exhaustive small chains and random expressions.",
        "note": COMMON_NOTE + "regexp.Compile, ParseFloat/FormatFloat and unicode.ToLower are oracle calls / parameters of the model (see evidence).",
    },
    "C06": {
        "text": "Theorems for all strings: scan_quoteString (QuoteString(s) scans as one STRING with value s and stops exactly at the "
                "closing quote, for every s without NUL/CR, at any cursor and before any following text), quoteString_contained (for "
                "EVERY s: that STRING or a BADSTRING token - never a bad escape, never an early end, never absorbing what follows), "
                "scan_quotedIdent_contained (same for double-quoted identifiers), bare_ident_scans (IdentNeedsQuotes(s)=false => s "
                "written bare scans as IDENT s and QuoteIdent leaves it bare), keywords_need_quotes, over replacer tables regenerated "
                "from /repo each run. The converse direction of IdentNeedsQuotes and multi-part names are tied by the property "
                "oracle over the whole BMP and random strings, not by a theorem (stated in DESIGN.md).",
        "note": COMMON_NOTE + "strings.NewReplacer and ToLower are re-implemented in the model and corresponded on the whole BMP.",
    },
    "C08": {
        "text": "Theorems over the Lean model of ParseDuration/FormatDuration for all texts and all 64-bit values (parse_exact, "
                "parse_complete, parse_overflow_rejected, parse_format, format_largest_unit) over unit/ladder tables regenerated from "
                "/repo on every run; the hand-modelled control flow is tied to the code by differential execution (boundary sweep + "
                "random) and by an exact big-integer property oracle on the implementation.",
        "note": COMMON_NOTE + "Go int64 is modelled as Int with explicit wrap64; strconv/fmt %d are re-implemented in the model and corresponded.",
    },
    "C05": {
        "text": "Theorems over the Lean model of the rune reader and Scanner for all texts: reader_pos (stamped positions = line/column "
                "with CRLF/CR folding), scan_tiles (remaining stream is a suffix: no rune skipped or read twice), scan_consumes, "
                "scanAll_ends_with_EOF (termination with a linear token bound), tok_pos_exact (all kinds outside the string family); "
                "string_pos_is_previous_rune + kernel-checked counterexamples for the two known findings (string positions, NUL). "
                "Tie: differential execution of every token's kind/position/literal/consumed-count against the real Scanner "
                "(consumed count from a verif-tagged accessor, independent of positions) plus an independent line/column oracle.",
        "note": COMMON_NOTE + "Modelled, not verified: UTF-8 decoding (model starts from Go's rune sequence); the 3-slot rings "
                "(pure-cursor model; the hook asserts push-back depth in the implementation on every run).",
    },
}

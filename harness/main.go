// Command harness drives the real influxql implementation for the
// correspondence checks: it generates case lines from one seeded PRNG, runs the
// implementation on case lines, runs property oracles directly on the
// implementation, and replays recorded cases.
//
//	harness gen   <stream> -seed S -n N            case lines on stdout
//	harness impl                                   case lines on stdin -> one canonical output line each
//	harness prop                                   case lines on stdin -> "ok" | "skip" | "FAIL <detail>" per line
//	harness stats <stream>                         case lines on stdin -> JSON distribution summary
package main

import (
	"bufio"
	"encoding/json"
	"flag"
	"fmt"
	"math/rand"
	"os"
	"regexp"
	"runtime/debug"
	"sort"
	"strconv"
	"strings"
	"sync"
	"time"
)

// A stream is one correspondence stream: a generator of case lines, the
// implementation runner, and optionally a property oracle on the implementation.
type stream struct {
	name string
	// gen emits n case lines (without the stream name prefix).
	gen func(r *rand.Rand, n int, emit func(args ...string))
	// impl runs the implementation and returns the canonical output line.
	impl func(args []string) string
	// prop checks the property directly on the implementation (independent of
	// the model). Returns "" if it holds, "skip" if not applicable, else a description.
	prop func(args []string) string
	// class labels a case for the distribution summary.
	class func(args []string, out string) string
	// nontrivial says whether a case counts as non-trivial for evidence.
	nontrivial func(args []string, out string) bool
	// propTimeout overrides the watchdog of the property oracle (oracles with their own deadlines).
	propTimeout time.Duration
	// known maps a case on which prop fails to the class id of a known finding
	// ("" if it belongs to none). Classes are listed in /verif/known_findings.json.
	known func(args []string) string
	// normalize recomputes derived arguments after the shrinker edited one.
	normalize func(args []string) []string
}

var streams = map[string]*stream{}

func register(s *stream) { streams[s.name] = s }

// Watchdog: a case on which the implementation (or an oracle calling it) does not return is
// reported as "hang" instead of blocking the run. The goroutine cannot be stopped and keeps a core
// busy, so after maxHangs such cases the remaining ones are answered without being run.
var (
	hangs    int
	maxHangs = 4
)

func caseTimeout(env string, def time.Duration) time.Duration {
	if v := os.Getenv(env); v != "" {
		if d, err := time.ParseDuration(v); err == nil {
			return d
		}
	}
	return def
}

func watchdog(d time.Duration, f func() string, onHang, afterHangs string) string {
	if hangs >= maxHangs {
		return afterHangs
	}
	ch := make(chan string, 1)
	go func() { ch <- f() }()
	select {
	case s := <-ch:
		return s
	case <-time.After(d):
		hangs++
		return onHang
	}
}

// implStuck is set once a guarded call into the implementation made by a generator or an oracle
// helper did not return; later guarded calls then return their fallback at once.
var implStuck bool

// guard runs f (a call into the implementation) with a time limit and under recover.
func guard[T any](d time.Duration, fallback T, f func() T) T {
	if implStuck {
		return fallback
	}
	ch := make(chan T, 1)
	go func() {
		defer func() {
			if p := recover(); p != nil {
				ch <- fallback
			}
		}()
		ch <- f()
	}()
	select {
	case v := <-ch:
		return v
	case <-time.After(d):
		implStuck = true
		return fallback
	}
}

func safeImpl(s *stream, args []string) string {
	d := caseTimeout("VERIF_IMPL_TIMEOUT", 30*time.Second)
	return watchdog(d, func() string { return safeImpl0(s, args) },
		"hang (no result within "+d.String()+")", "skip-after-hangs")
}

func safeProp(s *stream, args []string) string {
	d := caseTimeout("VERIF_PROP_TIMEOUT", 2*time.Minute)
	if s.propTimeout > d {
		d = s.propTimeout
	}
	return watchdog(d, func() string { return safeProp0(s, args) },
		"FAIL hang: the property oracle (which calls the implementation) did not return within "+d.String(), "skip")
}

func safeImpl0(s *stream, args []string) (out string) {
	defer func() {
		if r := recover(); r != nil {
			out = "panic " + encStr(fmt.Sprint(r))
			if os.Getenv("VERIF_PANIC_TRACE") != "" {
				fmt.Fprintf(os.Stderr, "panic in %s %v: %v\n%s\n", s.name, args, r, debug.Stack())
			}
		}
	}()
	return s.impl(args)
}

func safeProp0(s *stream, args []string) (out string) {
	if s.prop == nil {
		return "skip"
	}
	defer func() {
		if r := recover(); r != nil {
			out = "FAIL panic: " + oneLine(fmt.Sprint(r))
		}
	}()
	d := s.prop(args)
	if d == "" {
		return "ok"
	}
	if d == "skip" {
		return d
	}
	return "FAIL " + oneLine(d)
}

// oneLine keeps a verdict on one protocol line.
func oneLine(s string) string {
	return strings.NewReplacer("\n", "\\n", "\r", "\\r").Replace(s)
}

func eachLine(fn func(name string, s *stream, args []string, raw string)) {
	sc := bufio.NewScanner(os.Stdin)
	sc.Buffer(make([]byte, 1<<20), 1<<28)
	for sc.Scan() {
		raw := sc.Text()
		ws := strings.Fields(raw)
		if len(ws) == 0 {
			fn("", nil, nil, raw)
			continue
		}
		fn(ws[0], streams[ws[0]], ws[1:], raw)
	}
}

func main() {
	if len(os.Args) < 2 {
		fmt.Fprintln(os.Stderr, "usage: harness gen|impl|prop|stats ...")
		os.Exit(2)
	}
	out := bufio.NewWriterSize(os.Stdout, 1<<20)
	defer out.Flush()
	switch os.Args[1] {
	case "gen":
		name := os.Args[2]
		fs := flag.NewFlagSet("gen", flag.ExitOnError)
		seed := fs.Int64("seed", 1, "")
		n := fs.Int("n", 1000, "")
		fs.Parse(os.Args[3:])
		s := streams[name]
		if s == nil {
			fmt.Fprintln(os.Stderr, "unknown stream", name)
			os.Exit(2)
		}
		r := rand.New(rand.NewSource(*seed*7919 + int64(len(name))))
		// Generators call the implementation for spelling and tokenising (QuoteIdent, the
		// scanner, ...). If the implementation panics or does not return there, the cases
		// written so far are delivered (they are what the run is judged on) instead of
		// taking the run down: the defect shows in the impl / prop passes.
		var mu sync.Mutex
		done := make(chan struct{})
		go func() {
			defer close(done)
			defer func() {
				if p := recover(); p != nil {
					fmt.Fprintf(os.Stderr, "generator %s stopped early: panic: %v\n", name, p)
				}
			}()
			s.gen(r, *n, func(args ...string) {
				mu.Lock()
				defer mu.Unlock()
				out.WriteString(name)
				for _, a := range args {
					out.WriteByte(' ')
					out.WriteString(a)
				}
				out.WriteByte('\n')
			})
		}()
		select {
		case <-done:
		case <-time.After(caseTimeout("VERIF_GEN_TIMEOUT", 2*time.Minute+time.Duration(*n)*2*time.Millisecond)):
			fmt.Fprintf(os.Stderr, "generator %s stopped early: no progress (a call into the implementation does not return)\n", name)
		}
		mu.Lock()
		out.Flush()
		os.Exit(0)
	case "impl":
		eachLine(func(name string, s *stream, args []string, raw string) {
			if s == nil {
				out.WriteString("bad-op\n")
				return
			}
			out.WriteString(safeImpl(s, args))
			out.WriteByte('\n')
		})
	case "prop":
		eachLine(func(name string, s *stream, args []string, raw string) {
			if s == nil {
				out.WriteString("skip\n")
				return
			}
			out.WriteString(safeProp(s, args))
			out.WriteByte('\n')
		})
	case "stats":
		classes := map[string]int{}
		distinct := map[string]bool{}
		total, nontriv := 0, 0
		var samples []string
		eachLine(func(name string, s *stream, args []string, raw string) {
			if s == nil {
				return
			}
			total++
			o := safeImpl(s, args)
			c := "case"
			if s.class != nil {
				c = s.class(args, o)
			}
			classes[name+":"+c]++
			nt := true
			if s.nontrivial != nil {
				nt = s.nontrivial(args, o)
			}
			if nt && !distinct[raw] {
				distinct[raw] = true
				nontriv++
				if len(samples) < 12 && (nontriv%97 == 1 || nontriv < 4) {
					samples = append(samples, showLine(raw)+" => "+showLine("x " + o)[2:])
				}
			}
		})
		keys := make([]string, 0, len(classes))
		for k := range classes {
			keys = append(keys, k)
		}
		sort.Strings(keys)
		cl := map[string]int{}
		for _, k := range keys {
			cl[k] = classes[k]
		}
		js, _ := json.Marshal(map[string]interface{}{"evaluations": total, "distinct_nontrivial": nontriv, "classes": cl, "samples": samples})
		out.Write(js)
		out.WriteByte('\n')
	case "show":
		eachLine(func(name string, s *stream, args []string, raw string) {
			out.WriteString(showLine(raw))
			out.WriteByte('\n')
		})
	case "known":
		eachLine(func(name string, s *stream, args []string, raw string) {
			c := ""
			if s != nil && s.known != nil {
				c = s.known(args)
			}
			if c == "" {
				c = "-"
			}
			out.WriteString(c + "\n")
		})
	case "shrink":
		eachLine(func(name string, s *stream, args []string, raw string) {
			if s == nil {
				out.WriteString(raw + "\n")
				return
			}
			out.WriteString(name + " " + strings.Join(shrink(s, args), " ") + "\n")
		})
	default:
		fmt.Fprintln(os.Stderr, "unknown command", os.Args[1])
		os.Exit(2)
	}
}

var verdictQuoted = regexp.MustCompile(`"(?:[^"\\]|\\.)*"`)
var verdictDigits = regexp.MustCompile(`[0-9]+`)

// shrink greedily removes runes (or bytes) from the arguments of a failing
// case while the property oracle keeps failing with the same known-class.
func shrink(s *stream, args []string) []string {
	class := func(a []string) string {
		if s.known == nil {
			return ""
		}
		return s.known(a)
	}
	want := class(args)
	// the failure must stay the same failure: same known-class and same wording once the quoted inputs and
	// the numbers are taken out of the verdict (a shrunk text that fails for another reason is no witness of
	// this one: a grammar-conforming text cut to "" is still "rejected", but no longer grammar-conforming)
	shape := func(v string) string {
		v = verdictQuoted.ReplaceAllString(v, `""`)
		v = verdictDigits.ReplaceAllString(v, "0")
		if len(v) > 90 {
			v = v[:90]
		}
		return v
	}
	first := safeProp(s, args)
	wantShape := shape(first)
	if strings.HasPrefix(first, "FAIL grammar-conforming text") {
		return args // the premise (the text was assembled from grammar-conforming parts) does not survive cutting
	}
	failing := func(a []string) bool {
		v := safeProp(s, a)
		return strings.HasPrefix(v, "FAIL") && class(a) == want && shape(v) == wantShape
	}
	norm := func(a []string) []string {
		if s.normalize != nil {
			return s.normalize(a)
		}
		return a
	}
	if !failing(args) {
		return args
	}
	// the shrunk case is a convenience, the original case is already a replay: stop after a budget (long
	// texts with a slow oracle took 5-20 minutes per case, which a caller with a deadline does not have)
	budget := 25 * time.Second
	if v, err := strconv.Atoi(os.Getenv("VERIF_SHRINK_BUDGET")); err == nil && v > 0 {
		budget = time.Duration(v) * time.Second
	}
	deadline := time.Now().Add(budget)
	cur := append([]string(nil), args...)
	hasBytes := false
	for _, a := range cur {
		if strings.HasPrefix(a, "b:") {
			hasBytes = true
		}
	}
	for idx := range cur {
		var units []string // the argument split into removable units
		var join func([]string) string
		switch {
		case strings.HasPrefix(cur[idx], "b:"):
			h := cur[idx][2:]
			for i := 0; i+2 <= len(h); i += 2 {
				units = append(units, h[i:i+2])
			}
			join = func(u []string) string { return "b:" + strings.Join(u, "") }
		case strings.HasPrefix(cur[idx], "s:") && !(hasBytes && s.normalize != nil):
			if cur[idx] != "s:" {
				units = strings.Split(cur[idx][2:], ",")
			}
			join = func(u []string) string { return "s:" + strings.Join(u, ",") }
		default:
			continue
		}
		for chunk := len(units) / 2; chunk >= 1; chunk /= 2 {
			for i := 0; i+chunk <= len(units); {
				if time.Now().After(deadline) {
					return cur
				}
				cand := append(append([]string(nil), units[:i]...), units[i+chunk:]...)
				try := append([]string(nil), cur...)
				try[idx] = join(cand)
				try = norm(try)
				if failing(try) {
					units = cand
					cur = try
				} else {
					i++
				}
			}
		}
	}
	return cur
}

package main

import (
	"fmt"
	"math/rand"
	"strings"

	"github.com/influxdata/influxql"
)

// ring.scan <ops over S,R> s:<text>
//
// Tie for the operation-level transcription of scanner.go (lean/InfluxQL/Model/ScanOps.lean): the
// model side runs the transcribed Scan / ScanRegex programs on the reader's 3-slot ring as written
// (Prog.runRing on readerInit text); the implementation side is the real Scanner with the depth hook.
// Output "ok tok#line:char:lit|…" (one item per call) or "depth" when the assertion fires.

var ringScanCorners = []string{"", " ", "a", "SELECT", "SELECT * FROM m", "a\n 'x'", "'abc", "'a\\qb'", "\"x", "1.", ".5", "1.5s", ".", "..5", "1.x", "abc\"def\"",
	"a\r\nb\rc\n", "m\x00; x", "\x00", "a\x00", "-- c", "/* c", "$", "$\"a b\"", "$1", "!", "<>", "1s2", "1µ", "3s7µ", "1ms500µ", "1.2.3", "é", "'\\", "'\\\x00",
	"x /re/ y", "'a\nb'", "\"a\nb\"", "\r", "\r\n", "a--b\nc", "a/**/b", "/***/", "/* * / */x", "::", ":", ";;", "1..2", "-.5", "=~/a/", "!~ /x\\/y/", "a.b.\"c\"",
	"/abc/", "/a\\/b/ x", "/a\\b/", "/a\\\\/", "/abc", "/a\nb/", "/", "//", "/\\", "/\\/", "/a\x00b/", "/é/", " /a/"}

func implRingScan(args []string) (out string) {
	if len(args) != 2 {
		return "bad-arg"
	}
	text, err := decStr(args[1])
	if err != nil {
		return "bad-arg"
	}
	defer func() {
		if r := recover(); r != nil {
			if ringDepthPanic(r) {
				out = "depth"
				return
			}
			panic(r)
		}
	}()
	s := influxql.NewScanner(strings.NewReader(text))
	var parts []string
	for _, c := range args[0] {
		var tok influxql.Token
		var pos influxql.Pos
		var lit string
		switch c {
		case 'S':
			tok, pos, lit = s.Scan()
		case 'R':
			tok, pos, lit = s.ScanRegex()
		default:
			continue
		}
		parts = append(parts, fmt.Sprintf("%d#%d:%d:%s", int(tok), pos.Line, pos.Char, encStr(lit)[2:]))
	}
	return "ok " + strings.Join(parts, "|")
}

func genRingScan(r *rand.Rand, n int, emit func(args ...string)) {
	for _, t := range ringScanCorners {
		for _, w := range []string{"SSSSSSSS", "R", "SR", "RS", "SSRSS", "RRR", "SRSRSRSR"} {
			emit(w, encStr(t))
		}
	}
	for i := 0; i < n; i++ {
		k := 1 + r.Intn(12)
		b := make([]byte, k)
		for j := range b {
			b[j] = "SSSSR"[r.Intn(5)]
		}
		emit(string(b), encStr(randLexText(r, i%5 == 0)))
	}
}

func init() {
	register(&stream{name: "ring.scan", gen: genRingScan, impl: implRingScan,
		class: func(args []string, out string) string {
			switch {
			case out == "depth":
				return "depth-assertion"
			case strings.Contains(args[0], "R"):
				return "with-scanregex"
			}
			return "scan-only"
		},
		nontrivial: func(args []string, out string) bool { return strings.Count(out, "|") >= 2 }})
}

package main

import (
	"fmt"
	"math/rand"
	"reflect"
	"strings"
	"unicode/utf8"

	"github.com/influxdata/influxql"
)

// Streams for C06: QuoteString / QuoteIdent / IdentNeedsQuotes.

func randQuoteContent(r *rand.Rand) string {
	switch r.Intn(8) {
	case 0:
		return pick(r, kwPool)
	case 1:
		return randCase(r, pick(r, kwPool))
	case 2:
		return randBareIdent(r)
	case 3:
		return randNumberText(r) + randBareIdent(r)
	case 4:
		return randContent(r, true)
	}
	return randContent(r, false)
}

func bmpSweep(seed int64, n int, emit func(s string)) {
	stride := 8
	if n >= 200000 {
		stride = 1
	}
	off := int(seed % int64(stride))
	if off < 0 {
		off = -off
	}
	for c := off; c < 0x10000; c += stride {
		if c >= 0xd800 && c < 0xe000 {
			continue
		}
		s := string(rune(c))
		emit(s)
		emit("a" + s)
		emit(s + "a")
	}
	for _, c := range []rune{0x10000, 0x1f600, 0x10ffff} {
		emit(string(c))
	}
	// runes that must be in every run, whatever part of the plane the seed selects
	for _, c := range oddRunes {
		s := string(c)
		emit(s)
		emit("caf" + s)
		emit(s + "x" + s)
		emit("it" + s + "s")
	}
}

func genQuoteStr(r *rand.Rand, n int, emit func(args ...string)) {
	for _, s := range []string{"", "'", "\\", "\n", "\r", "\x00", "\\'", "'\\", "\\n", "a'b", "a\"b", "a\\", "--", "/*", ";", "' OR 1=1 --", "\r\n", "é", "\\\\'"} {
		emit(encStr(s))
	}
	bmpSweep(r.Int63(), n, func(s string) { emit(encStr(s)) })
	for i := 0; i < n/4; i++ {
		emit(encStr(randQuoteContent(r)))
	}
	// values that look like something the library treats specially (timestamps, durations,
	// numbers, booleans, regexes, placeholders, the redaction marker) with hostile characters
	// after, before and inside them
	shapes := []string{"2000-01-01", "2000-01-01T00:00:00Z", "2000-01-01 00:00:00", "2000-01-01T00:00:00.123456789Z", "1999-12-31", "0000-00-00", "10m", "1h30m", "1.5", "1e3", "true", "null", "/re/", "$p", "[REDACTED]", "now()", "-1"}
	tails := []string{"'", "\\", "' OR 'a' = 'a", "'; DROP DATABASE x; --", "\\'", "\n", "\"", "'--", "/*", "\\\\", "''", "' "}
	for _, sh := range shapes {
		for _, t := range tails {
			emit(encStr(sh + t))
			emit(encStr(t + sh))
		}
	}
	for _, v := range []string{"$h", "$", "$$", "$h x", "$1", "$a.b", "$é", "$verif_unused", "$h'", "$\"h\""} {
		emit(encStr(v))
	}
	for i := 0; i < n/40; i++ {
		emit(encStr("$" + randContent(r, true)))
	}
	for i := 0; i < n/8; i++ {
		sh := pick(r, shapes)
		switch r.Intn(3) {
		case 0:
			emit(encStr(sh + randContent(r, true)))
		case 1:
			emit(encStr(randContent(r, true) + sh))
		default:
			k := r.Intn(len(sh) + 1)
			emit(encStr(sh[:k] + pick(r, tails) + sh[k:]))
		}
	}
}

func genQuoteNeeds(r *rand.Rand, n int, emit func(args ...string)) {
	for _, k := range kwPool {
		emit(encStr(k))
		emit(encStr(strings.ToLower(k)))
		emit(encStr(k + "x"))
		emit(encStr("_" + k))
	}
	for _, s := range []string{"", "a", "_", "1", "a1", "1a", "a b", "a.b", "a-b", "é", "aé", "Kill", "K", "K", "a\x00", "a\"", "$a", "true", "False", "AND", "or", "ıN", "İN"} {
		emit(encStr(s))
	}
	bmpSweep(r.Int63(), n, func(s string) { emit(encStr(s)) })
	for i := 0; i < n/4; i++ {
		emit(encStr(randQuoteContent(r)))
	}
}

func genQuoteIdent(r *rand.Rand, n int, emit func(args ...string)) {
	fixed := [][]string{{""}, {"a"}, {"a", "b"}, {"a", "", "c"}, {"", "", ""}, {"a", "b", "c"}, {"select"}, {"a b", "c.d", "e\"f"}, {"", "m"}, {"db", ""}, {"a", "", ""}, {"", "", "m"}, {"1"}, {"a\nb"}, {"a\\b"}}
	for _, f := range fixed {
		var a []string
		for _, s := range f {
			a = append(a, encStr(s))
		}
		emit(a...)
	}
	for _, v := range []string{"$f", "$", "$f g", "$1", "$select", "$verif_unused"} {
		emit(encStr(v))
	}
	for i := 0; i < n/40; i++ {
		emit(encStr("$" + randQuoteContent(r)))
	}
	bmpSweep(r.Int63(), n/4, func(s string) { emit(encStr(s)) })
	for i := 0; i < n/3; i++ {
		k := 1 + r.Intn(3)
		var a []string
		for j := 0; j < k; j++ {
			if r.Intn(5) == 0 {
				a = append(a, encStr(""))
			} else {
				a = append(a, encStr(randQuoteContent(r)))
			}
		}
		emit(a...)
	}
}

func decAll(args []string) ([]string, bool) {
	var out []string
	for _, a := range args {
		s, err := decStr(a)
		if err != nil {
			return nil, false
		}
		out = append(out, s)
	}
	return out, true
}

func expressible(s string) bool {
	return utf8.ValidString(s) && !strings.ContainsAny(s, "\x00\r")
}

// scanOne scans text with the real scanner and returns the first token and
// how many runes it consumed.
func scanOne(text string) (influxql.Token, string, int) {
	sc := influxql.NewScanner(strings.NewReader(text))
	tok, _, lit := sc.Scan()
	return tok, lit, sc.VerifConsumed()
}

var followers = []string{"", " ", " x", ";", ")", ",", "'", "\"", "--", "/*", " AND b", "a", "\n"}

func propQuoteStr(args []string) string {
	ss, ok := decAll(args)
	if !ok {
		return "skip"
	}
	s := ss[0]
	q := influxql.QuoteString(s)
	qlen := utf8.RuneCountInString(q)
	for _, k := range followers {
		tok, lit, consumed := scanOne(q + k)
		switch tok {
		case influxql.STRING:
			if consumed != qlen && !(k == "" && consumed == qlen) {
				return fmt.Sprintf("QuoteString(%q)=%q followed by %q scans as a STRING covering %d runes, the quoted text has %d", s, q, k, consumed, qlen)
			}
			if expressible(s) && lit != s {
				return fmt.Sprintf("QuoteString(%q)=%q scans as STRING %q", s, q, lit)
			}
			if !expressible(s) && lit == s {
				// fine: still the same value
			}
		case influxql.BADSTRING, influxql.BADESCAPE:
			if expressible(s) {
				return fmt.Sprintf("QuoteString(%q)=%q does not scan as a string (token %d)", s, q, int(tok))
			}
		default:
			return fmt.Sprintf("QuoteString(%q)=%q scans as token %d", s, q, int(tok))
		}
	}
	// inside an expression: one literal or a parse error, the surroundings intact
	expr, err := influxql.ParseExpr("a = " + q + " AND b = 2")
	if err != nil {
		if expressible(s) {
			return fmt.Sprintf("a = %s AND b = 2 does not parse: %v", q, err)
		}
		return ""
	}
	be, ok1 := expr.(*influxql.BinaryExpr)
	if !ok1 || be.Op != influxql.AND {
		return fmt.Sprintf("a = %s AND b = 2 parses to %s", q, expr)
	}
	l, ok2 := be.LHS.(*influxql.BinaryExpr)
	rr, ok3 := be.RHS.(*influxql.BinaryExpr)
	if !ok2 || !ok3 || l.Op != influxql.EQ || rr.Op != influxql.EQ || rr.LHS.String() != "b" || rr.RHS.String() != "2" || l.LHS.String() != "a" {
		return fmt.Sprintf("a = %s AND b = 2 parses to a different structure: %s", q, expr)
	}
	sl, ok4 := l.RHS.(*influxql.StringLiteral)
	if !ok4 || (expressible(s) && sl.Val != s) {
		return fmt.Sprintf("a = %s AND b = 2: right operand is %T %s", q, l.RHS, l.RHS)
	}
	return quotedIgnoresBindings("a = "+q+" AND b = 2", s)
}

// quotedIgnoresBindings: a quoted literal is never a placeholder. The text is parsed once on a parser
// without bindings and once on a parser whose bindings cover every name that could be read out of the
// quoted value (the value itself, the value without a leading '$', its first word), each bound to a
// marker of every kind; the two results must print the same and must not contain the marker.
func quotedIgnoresBindings(text string, vals ...string) string {
	plain, err0 := influxql.NewParser(strings.NewReader(text)).ParseExpr()
	for _, marker := range []interface{}{"verif·bound·marker", int64(7040614), map[string]interface{}{"identifier": "verif_bound_marker"}} {
		params := map[string]interface{}{"verif_unused": marker}
		for _, v := range vals {
			params[v] = marker
			params[strings.TrimPrefix(v, "$")] = marker
			if i := strings.IndexAny(v, " .,;'\"\\\n"); i > 0 {
				params[strings.TrimPrefix(v[:i], "$")] = marker
			}
		}
		p := influxql.NewParser(strings.NewReader(text))
		p.SetParams(params)
		bound, err1 := p.ParseExpr()
		if (err0 == nil) != (err1 == nil) {
			return fmt.Sprintf("%q parses differently once parameters are bound (%v): %v / %v", text, params, err0, err1)
		}
		if err0 == nil && (plain.String() != bound.String() || !reflect.DeepEqual(plain, bound)) {
			return fmt.Sprintf("%q holds no placeholder, but with parameters bound (%v) it parses to %s instead of %s: a quoted literal was treated as a placeholder", text, params, bound.String(), plain.String())
		}
	}
	return ""
}

func propQuoteNeeds(args []string) string {
	ss, ok := decAll(args)
	if !ok {
		return "skip"
	}
	s := ss[0]
	if s == "" || !expressible(s) {
		return "skip"
	}
	needs := influxql.IdentNeedsQuotes(s)
	for _, k := range []string{"", " ", ";", ",", ")", " x", "=1", ".b"} {
		tok, lit, consumed := scanOne(s + k)
		bare := tok == influxql.IDENT && lit == s && consumed >= utf8.RuneCountInString(s) && (k != "" || true) &&
			(consumed == utf8.RuneCountInString(s) || k == "")
		if bare == needs {
			return fmt.Sprintf("IdentNeedsQuotes(%q) = %v but written bare before %q it scans as token %d %q covering %d runes", s, needs, k, int(tok), lit, consumed)
		}
	}
	return ""
}

func propQuoteIdent(args []string) string {
	segs, ok := decAll(args)
	if !ok {
		return "skip"
	}
	q := influxql.QuoteIdent(segs...)
	allExpr := true
	for _, s := range segs {
		if !expressible(s) {
			allExpr = false
		}
	}
	if len(segs) == 1 {
		s := segs[0]
		// as a variable reference
		expr, err := influxql.ParseExpr(q + " = 1 AND b = 2")
		if err != nil {
			if allExpr {
				return fmt.Sprintf("%s = 1 AND b = 2 (from QuoteIdent(%q)) does not parse: %v", q, s, err)
			}
			return ""
		}
		be, ok1 := expr.(*influxql.BinaryExpr)
		if !ok1 || be.Op != influxql.AND || be.RHS.String() != "b = 2" {
			return fmt.Sprintf("%s = 1 AND b = 2 parses to %s", q, expr)
		}
		l, ok2 := be.LHS.(*influxql.BinaryExpr)
		if !ok2 || l.Op != influxql.EQ || l.RHS.String() != "1" {
			return fmt.Sprintf("%s = 1 AND b = 2 parses to %s", q, expr)
		}
		vr, ok3 := l.LHS.(*influxql.VarRef)
		if !ok3 || (allExpr && vr.Val != s) {
			return fmt.Sprintf("QuoteIdent(%q) = %s parses as %T %v", s, q, l.LHS, l.LHS)
		}
		// as one token
		tok, lit, consumed := scanOne(q + " x")
		if allExpr && (tok != influxql.IDENT || lit != s || consumed != utf8.RuneCountInString(q)) {
			return fmt.Sprintf("QuoteIdent(%q) = %s scans as token %d %q covering %d runes", s, q, int(tok), lit, consumed)
		}
		return quotedIgnoresBindings(q+" = 1 AND b = 2", s)
	}
	// multi-part measurement name: db.rp.m (rp may be empty)
	stmt, err := influxql.ParseStatement("SELECT f FROM " + q + " WHERE b = 2")
	// A trailing empty measurement name and the like are not valid sources; only judge the valid shapes.
	validShape := segs[len(segs)-1] != "" && segs[0] != "" || (len(segs) == 3 && segs[0] != "" && segs[2] != "")
	if len(segs) == 2 && (segs[0] == "" || segs[1] == "") {
		validShape = false
	}
	if err != nil {
		if allExpr && validShape {
			return fmt.Sprintf("SELECT f FROM %s (QuoteIdent%q) does not parse: %v", q, segs, err)
		}
		if allExpr {
			var want [3]string
			switch len(segs) {
			case 2:
				want = [3]string{"", segs[0], segs[1]}
			case 3:
				want = [3]string{segs[0], segs[1], segs[2]}
			default:
				return ""
			}
			return quoteIdentAbsorbs(segs, q, want)
		}
		return ""
	}
	sel, ok1 := stmt.(*influxql.SelectStatement)
	if !ok1 || len(sel.Sources) != 1 || sel.Condition == nil || sel.Condition.String() != "b = 2" || len(sel.Fields) != 1 {
		return fmt.Sprintf("SELECT f FROM %s WHERE b = 2 parses to %s", q, stmt)
	}
	m, ok2 := sel.Sources[0].(*influxql.Measurement)
	if !ok2 {
		return fmt.Sprintf("source of SELECT f FROM %s is %T", q, sel.Sources[0])
	}
	if !allExpr {
		return ""
	}
	var want [3]string
	switch len(segs) {
	case 2:
		want = [3]string{"", segs[0], segs[1]}
	case 3:
		want = [3]string{segs[0], segs[1], segs[2]}
	}
	if m.Database != want[0] || m.RetentionPolicy != want[1] || m.Name != want[2] || m.Regex != nil {
		return fmt.Sprintf("QuoteIdent%q = %s parses as db=%q rp=%q name=%q", segs, q, m.Database, m.RetentionPolicy, m.Name)
	}
	return quoteIdentAbsorbs(segs, q, want)
}

// quoteIdentAbsorbs: whatever the shape of the name (also an empty first or last part), the quoted
// name followed by an identifier-like clause yields a parse error or exactly that name and that
// clause: it never takes the following word for a missing part.
func quoteIdentAbsorbs(segs []string, q string, want [3]string) string {
	for _, tail := range []string{" fill(none)", " tz('UTC')", " fill(none) LIMIT 3"} {
		text := "SELECT f FROM " + q + tail
		stmt, err := influxql.ParseStatement(text)
		if err != nil {
			continue
		}
		sel, ok := stmt.(*influxql.SelectStatement)
		if !ok || len(sel.Sources) != 1 {
			return fmt.Sprintf("%s (QuoteIdent%q) parses to %s", text, segs, stmt)
		}
		m, ok := sel.Sources[0].(*influxql.Measurement)
		if !ok || m.Database != want[0] || m.RetentionPolicy != want[1] || m.Name != want[2] || m.Regex != nil {
			return fmt.Sprintf("%s (QuoteIdent%q) parses with the source %s: the name absorbed or lost text", text, segs, sel.Sources[0])
		}
		if strings.Contains(tail, "fill") && sel.Fill != influxql.NoFill {
			return fmt.Sprintf("%s (QuoteIdent%q) parses without its fill clause: %s", text, segs, stmt)
		}
		if strings.Contains(tail, "tz") && (sel.Location == nil || sel.Location.String() != "UTC") {
			return fmt.Sprintf("%s (QuoteIdent%q) parses without its tz clause: %s", text, segs, stmt)
		}
	}
	return ""
}

func init() {
	register(&stream{name: "quote.str", gen: genQuoteStr, prop: propQuoteStr,
		impl: func(args []string) string {
			ss, ok := decAll(args)
			if !ok {
				return "bad-arg"
			}
			return encStr(influxql.QuoteString(ss[0]))
		},
		class: func(args []string, out string) string {
			return fmt.Sprintf("grew-by-%d", strings.Count(out, ",")-strings.Count(args[0], ","))
		},
		nontrivial: func(args []string, out string) bool { return args[0] != "s:" }})
	register(&stream{name: "quote.needs", gen: genQuoteNeeds, prop: propQuoteNeeds,
		impl: func(args []string) string {
			ss, ok := decAll(args)
			if !ok {
				return "bad-arg"
			}
			return fmt.Sprint(influxql.IdentNeedsQuotes(ss[0]))
		},
		class:      func(args []string, out string) string { return out },
		nontrivial: func(args []string, out string) bool { return args[0] != "s:" }})
	register(&stream{name: "quote.ident", gen: genQuoteIdent, prop: propQuoteIdent,
		impl: func(args []string) string {
			ss, ok := decAll(args)
			if !ok {
				return "bad-arg"
			}
			return encStr(influxql.QuoteIdent(ss...))
		},
		class:      func(args []string, out string) string { return fmt.Sprintf("segments-%d", len(args)) },
		nontrivial: func(args []string, out string) bool { return true }})
}

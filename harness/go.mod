module verif/harness

go 1.18

require github.com/influxdata/influxql v0.0.0

require google.golang.org/protobuf v1.33.0 // indirect

replace github.com/influxdata/influxql => /repo

package main

import (
	"fmt"
	"strconv"
	"strings"
)

// Line protocol (see lean/Oracle/Proto.lean).

func encRunes(rs []rune) string {
	var b strings.Builder
	b.WriteString("s:")
	for i, r := range rs {
		if i > 0 {
			b.WriteByte(',')
		}
		b.WriteString(strconv.FormatInt(int64(r), 16))
	}
	return b.String()
}

// encStr encodes a Go string by its rune sequence as Go's decoder sees it
// (invalid bytes become U+FFFD).
func encStr(s string) string { return encRunes([]rune(s)) }

func decStr(a string) (string, error) {
	if !strings.HasPrefix(a, "s:") {
		return "", fmt.Errorf("not a string arg: %q", a)
	}
	body := a[2:]
	if body == "" {
		return "", nil
	}
	var rs []rune
	for _, h := range strings.Split(body, ",") {
		v, err := strconv.ParseInt(h, 16, 32)
		if err != nil {
			return "", err
		}
		rs = append(rs, rune(v))
	}
	return string(rs), nil
}

func encBytes(b []byte) string { return "b:" + fmt.Sprintf("%x", b) }

func decBytes(a string) ([]byte, error) {
	if !strings.HasPrefix(a, "b:") {
		return nil, fmt.Errorf("not a bytes arg: %q", a)
	}
	h := a[2:]
	out := make([]byte, len(h)/2)
	for i := range out {
		v, err := strconv.ParseUint(h[2*i:2*i+2], 16, 8)
		if err != nil {
			return nil, err
		}
		out[i] = byte(v)
	}
	return out, nil
}

func encInt(i int64) string { return "i:" + strconv.FormatInt(i, 10) }

func decInt(a string) (int64, error) {
	if !strings.HasPrefix(a, "i:") {
		return 0, fmt.Errorf("not an int arg: %q", a)
	}
	return strconv.ParseInt(a[2:], 10, 64)
}

// showStr renders a string argument readably for evidence samples / replays.
func showArg(a string) string {
	if strings.HasPrefix(a, "s:") {
		if s, err := decStr(a); err == nil {
			return strconv.Quote(s)
		}
	}
	return a
}

func showLine(line string) string {
	ws := strings.Fields(line)
	for i := 1; i < len(ws); i++ {
		ws[i] = showArg(ws[i])
	}
	return strings.Join(ws, " ")
}

package main

import (
	"fmt"
	"math/rand"
	"strings"

	"github.com/influxdata/influxql"
)

// Streams for C15: passwords never appear.
//
//	sanitize.text  s:<runes as Go decodes the text> b:<raw bytes>     -> runes of Sanitize(text)
//	sanitize.print create|set s:<name> s:<password> true|false        -> runes of stmt.String()
//
// The regexp package decodes the text rune by rune (an invalid byte is U+FFFD of width one),
// Sanitize cuts only at those boundaries and inserts ASCII, so the rune sequence of the result is
// a function of the rune sequence of the text: that function is what the model computes.

func sanCase(text string) []string { return []string{encStr(text), encBytes([]byte(text))} }

// ---------------------------------------------------------------- generator

const pwMarkers = "ZqXjQzJx79"

// allMarkers: the fragment consists of marker characters only (none of which occurs in the
// fixed text of the two printers).
func allMarkers(w string) bool {
	for _, c := range w {
		if !strings.ContainsRune(pwMarkers, c) {
			return false
		}
	}
	return w != ""
}

func randMarker(r *rand.Rand, lo, hi int) string {
	n := lo + r.Intn(hi-lo+1)
	b := make([]byte, n)
	for i := range b {
		b[i] = pwMarkers[r.Intn(len(pwMarkers))]
	}
	return string(b)
}

// randPwValue returns a password value; friendly=true: nothing that the regexps mishandle.
func randPwValue(r *rand.Rand, friendly bool) string {
	if friendly {
		switch r.Intn(6) {
		case 0:
			return randMarker(r, 3, 12) + pick(r, []string{"=", "\\", "'", "é", "日本", "𝄞", ";", "--", "/*", "ſ", "K", ",", "\n"}) + randMarker(r, 3, 6)
		case 1:
			return randMarker(r, 0, 2)
		}
		return randMarker(r, 3, 14)
	}
	switch r.Intn(12) {
	case 0:
		return randMarker(r, 3, 6) + pick(r, []string{" ", "  ", "\t", " \t"}) + randMarker(r, 3, 6)
	case 1:
		return randMarker(r, 3, 6) + "\"" + randMarker(r, 3, 6)
	case 2:
		return randMarker(r, 3, 6) + pick(r, []string{" password for x = ", " with password ", "password for", " = ", "="}) + randMarker(r, 3, 6)
	case 3:
		return pick(r, []string{" ", "\"", "\" ", " \"", "'", "''", "\\", "=", " =", "= "}) + randMarker(r, 0, 5)
	case 4:
		return randMarker(r, 3, 6) + pick(r, []string{" ", " ", "\x0b", "\x0c", "\xff", "\x85"}) + randMarker(r, 3, 6)
	case 5:
		var b strings.Builder
		for i, k := 0, 1+r.Intn(4); i < k; i++ {
			b.WriteString(randMarker(r, 1, 5))
			b.WriteString(pick(r, []string{" ", "\"", "'", "=", "\\", "\n", "\t", ";", "é", "/*", "--", "*/"}))
		}
		return b.String()
	case 6:
		return randContent(r, false) + randMarker(r, 3, 5) + randContent(r, false)
	}
	return randPwValue(r, true)
}

// pwLiteral writes the value as a single-quoted literal; the double quote may be written
// plain or escaped, everything else as QuoteString does.
func pwLiteral(r *rand.Rand, v string) string {
	var b strings.Builder
	b.WriteByte('\'')
	for _, c := range v {
		switch c {
		case '\n':
			b.WriteString(`\n`)
		case '\\':
			b.WriteString(`\\`)
		case '\'':
			b.WriteString(`\'`)
		case '"':
			if r.Intn(3) == 0 {
				b.WriteString(`\"`)
			} else {
				b.WriteByte('"')
			}
		default:
			b.WriteRune(c)
		}
	}
	b.WriteByte('\'')
	return b.String()
}

func randUserName(r *rand.Rand, friendly bool) string {
	if friendly {
		switch r.Intn(4) {
		case 0:
			return `"` + randBareIdent(r) + `"`
		case 1:
			return `"` + randBareIdent(r) + pick(r, []string{"-", ".", "@", "é", "$", "#"}) + randBareIdent(r) + `"`
		}
		return "u" + randBareIdent(r)
	}
	switch r.Intn(10) {
	case 0:
		return `"` + randBareIdent(r) + "=" + randBareIdent(r) + `"`
	case 1:
		return `"` + pick(r, []string{"password for", "password for x", "with password x", "with password", "a = b", "a= b", "= ", "x password for y = z", "WITH PASSWORD 'x'", "password", "with", "a b"}) + `"`
	case 2:
		return `"` + strings.NewReplacer("\n", `\n`, `\`, `\\`, `"`, `\"`).Replace(randContent(r, false)) + `"`
	case 3:
		return `"` + randBareIdent(r) + pick(r, []string{` `, `\"`, `'`, `\\`, `\n`, "\t", ";"}) + randBareIdent(r) + `"`
	}
	return randUserName(r, true)
}

var sanCommentPool = []string{"/* c */", "/**/", "-- c\n", "/* password for x = y */", "/* = */", "/*'*/", "--\n", "/* with password z */"}

// randGap returns a separator between two tokens: plain = white space the regexps understand.
func randGap(r *rand.Rand, plain bool, mayBeEmpty bool) string {
	if plain {
		return pick(r, []string{" ", " ", " ", "  ", "\t", "\n", "\r\n", " \n ", "\n\n", " \t "})
	}
	// separators the scanner does not take for white space today (form feed, vertical tab, NEL, no-break and
	// typographic spaces, line separator): such a text is rejected by the parser and the case is not judged;
	// should the scanner ever accept one of them while the redaction patterns do not (round-3 seeded change
	// C15-3), the password survives Sanitize and the oracle says so
	if r.Intn(12) == 0 {
		odd := pick(r, []string{"\u00a0", "\v", "\f", "\u0085", "\u2003", "\u2028", "\u3000", "\u1680", "\u202f", "\ufeff"})
		return pick(r, []string{odd, odd + " ", " " + odd, odd + odd})
	}
	switch r.Intn(8) {
	case 0:
		if mayBeEmpty {
			return ""
		}
	case 1:
		return pick(r, sanCommentPool)
	case 2:
		return " " + pick(r, sanCommentPool) + " "
	case 3:
		return pick(r, sanCommentPool) + pick(r, wsPool)
	case 4:
		return pick(r, wsPool) + pick(r, sanCommentPool)
	}
	return pick(r, wsPool)
}

func sanKw(r *rand.Rand, kw string, friendly bool) string {
	if !friendly && r.Intn(40) == 0 {
		return strings.NewReplacer("s", "ſ", "S", "ſ", "k", "K").Replace(randCase(r, kw))
	}
	return randCase(r, kw)
}

// randPasswordStmt renders one CREATE USER / SET PASSWORD statement.
func randPasswordStmt(r *rand.Rand, friendly bool) string {
	// each of the unfriendly ingredients is switched on independently
	unf := func() bool { return !friendly && r.Intn(4) == 0 }
	name := randUserName(r, !unf())
	lit := pwLiteral(r, randPwValue(r, !unf()))
	var b strings.Builder
	if r.Intn(2) == 0 {
		b.WriteString(sanKw(r, "CREATE", friendly) + randGap(r, !unf(), false) + sanKw(r, "USER", friendly) + randGap(r, !unf(), false) + name + randGap(r, !unf(), strings.HasPrefix(name, `"`)))
		b.WriteString(sanKw(r, "WITH", friendly) + randGap(r, !unf(), false) + sanKw(r, "PASSWORD", friendly) + randGap(r, !unf(), true) + lit)
		if r.Intn(3) == 0 {
			b.WriteString(randGap(r, !unf(), true) + sanKw(r, "WITH", friendly) + randGap(r, !unf(), false) + sanKw(r, "ALL", friendly) + randGap(r, !unf(), false) + sanKw(r, "PRIVILEGES", friendly))
		}
	} else {
		b.WriteString(sanKw(r, "SET", friendly) + randGap(r, !unf(), false) + sanKw(r, "PASSWORD", friendly) + randGap(r, !unf(), false) + sanKw(r, "FOR", friendly) + randGap(r, !unf(), strings.HasPrefix(name, `"`)) + name)
		eqL, eqR := randGap(r, true, false), randGap(r, true, false)
		if r.Intn(3) == 0 {
			eqL = ""
		}
		if unf() {
			eqL = randGap(r, false, true)
		}
		if unf() {
			eqR = randGap(r, false, true)
		}
		b.WriteString(eqL + "=" + eqR + lit)
	}
	return b.String()
}

var sanOtherStmts = []string{
	"SELECT * FROM m", "SHOW USERS", "DROP USER u", "SELECT v FROM m WHERE a = 'b'", "SELECT \"password for\" FROM m WHERE a = 'value'",
	"SHOW GRANTS FOR u", "GRANT ALL TO u", "SELECT v FROM \"with password\" WHERE t = 'x'", "SHOW DATABASES", "CREATE DATABASE d WITH DURATION 1d",
	"SELECT mean(v) FROM m WHERE host = 'h' GROUP BY time(1m)", "DROP USER \"password for\"", "SHOW TAG KEYS WITH KEY = x", "REVOKE ALL PRIVILEGES FROM u",
	"SELECT password FROM m", "SELECT \"password\", \"for\" FROM m WHERE x = 1", "SELECT v FROM m WHERE c = 'with password x'",
}

func randSanQuery(r *rand.Rand, friendly bool) string {
	n := 1
	if r.Intn(3) == 0 {
		n = 2 + r.Intn(3)
	}
	var b strings.Builder
	if r.Intn(6) == 0 {
		b.WriteString(pick(r, wsPool))
	}
	for i := 0; i < n; i++ {
		if i > 0 {
			if friendly {
				b.WriteString(pick(r, []string{" ; ", " ;", "\n;\n", " ;\t"}))
			} else {
				b.WriteString(pick(r, []string{";", "; ", " ; ", ";\n", " ;", ";;", "; -- c\n"}))
			}
		}
		if n > 1 && r.Intn(3) == 0 {
			b.WriteString(pick(r, sanOtherStmts))
		} else {
			b.WriteString(randPasswordStmt(r, friendly))
		}
	}
	if !friendly {
		b.WriteString(pick(r, []string{"", "", ";", " ", "\n", " ;", "; "}))
	} else {
		b.WriteString(pick(r, []string{"", " ", "\n", " ;"}))
	}
	return b.String()
}

var sanPieces = []string{"password", "PASSWORD", "Password", "paſſword", "pasſword", "passwor", "pass", "word", "for", "FOR", "For", "fo", "with", "WITH", "wiTh", "wıth", "wİth", "K", "k",
	"=", "=", "==", " ", " ", " ", "  ", "\t", "\n", "\x0c", "\x0b", "\r", "\r\n", " ", " ", "\u0085", "'", "'", "\"", "\"", "''", "\"\"", "'\"", "\"'", "x", "pw", "a=b", ";", ",", "\xff", "\xc3", "é", "[REDACTED]", "\\", "\\'"}

func randPieceSoup(r *rand.Rand) string {
	var b strings.Builder
	for i, n := 0, r.Intn(14); i < n; i++ {
		b.WriteString(pick(r, sanPieces))
	}
	return b.String()
}

func sanitizeMutate(r *rand.Rand, s string) string {
	rs := []rune(s)
	for k, n := 0, 1+r.Intn(3); k < n; k++ {
		ins := []rune(pick(r, sanPieces))
		if len(rs) == 0 {
			rs = ins
			continue
		}
		i := r.Intn(len(rs))
		switch r.Intn(4) {
		case 0: // delete
			rs = append(rs[:i:i], rs[i+1:]...)
		case 1: // insert
			rs = append(rs[:i:i], append(ins, rs[i:]...)...)
		case 2: // replace
			rs = append(rs[:i:i], append(ins, rs[i+1:]...)...)
		default: // truncate
			rs = rs[:i]
		}
	}
	return string(rs)
}

func genSanitizeText(r *rand.Rand, n int, emit func(args ...string)) {
	fixed := []string{"", " ", "SET PASSWORD FOR u = 'pw'", "CREATE USER u WITH PASSWORD 'pw'", "CREATE USER u WITH PASSWORD 'pw' WITH ALL PRIVILEGES",
		"SET PASSWORD FOR u = 'my secret'", "SET PASSWORD FOR u='pw'", "SET PASSWORD FOR u ='pw'", "SET PASSWORD FOR u = 'ab\"cd'", "SET PASSWORD FOR u = 'ab\\\"cd'",
		"CREATE USER u WITH /*c*/ PASSWORD 'pw'", "SET PASSWORD /*c*/ FOR u = 'pw'", "SET PASSWORD FOR u = /*c*/ 'pw'", "SET PASSWORD FOR /*c*/ u = 'pw'", "SET PASSWORD FOR u /* = */ = 'pw'",
		"CREATE USER u WITH PASSWORD'pw'", "CREATE USER u WITH PASSWORD 'pw'WITH ALL PRIVILEGES", "SET PASSWORD FOR \"a=b\" = 'pw'", "SET PASSWORD FOR \"a= b\" = 'pw'",
		"SET PASSWORD FOR u = 'pw';SELECT * FROM m", "SET PASSWORD FOR u = 'pw' ;SELECT * FROM m", "CREATE USER \"with password x\" WITH PASSWORD 'pw'", "SELECT \"password for\" FROM m WHERE a = 'b'",
		"CREATE USER u WITH\nPASSWORD\t'pw'", "CREATE USER u WITH -- c\n PASSWORD 'pw'", "SET PASSWORD FOR u =\x0c'pw'", "set paſſword for u = 'pw'", "SET PASSWORD FOR u = 'a\\'b c'",
		"with password for x = pw", "password for = x", "password for= x", "password for =  \"x\"", "password for a = \"", "password for a = \"\"", "password for a = \" x", "password for a = ' x", "password for a = '\"",
		"password for a = '", "password for a = ''", "password for a = 'x'\"y", "password for a = \"x\"\"", "password for a = x'y' z", "with password \"x y\"", "with  password\n\n'x'", "withpassword x", "with password", "with password ",
		"PASSWORD FOR a = b PASSWORD FOR c = d", "password for password for a = b = c", "password for a == b", "password for a = = b", "with password with password x", "with password x with password y",
		"password\x0bfor a = b", "password for a = b", "password for a = b", "password for a = \xffb\xff c", "paſſword for a = b", "with paſsword x", "PAſSWORD FOR a = b", "with password x",
		"password for a\n=\nb\n", "password for;= x", "SET PASSWORD FOR u = 'p' ; SET PASSWORD FOR v = 'q'", "CREATE USER a WITH PASSWORD 'p';CREATE USER b WITH PASSWORD 'q'",
		"SET PASSWORD FOR u = [REDACTED]", "with password for = x", "with password for= x y", "password for x = with password y", "password for x = with password y z"}
	for _, s := range fixed {
		emit(sanCase(s)...)
	}
	// long texts: batches of password statements of both kinds (several hundred bytes to several kilobytes)
	for _, k := range []int{3, 6, 12, 40} {
		var b strings.Builder
		for i := 0; i < k; i++ {
			fmt.Fprintf(&b, "create user \"svc_account_%02d\" with password 'Kx7mQw-%02d-cPz9';\n", i, i)
			fmt.Fprintf(&b, "set password for \"svc_account_%02d\" = 'Hj4nLt-%02d-sBv2';\n", i, i)
		}
		emit(sanCase(b.String())...)
	}
	for i := 0; i < n; i++ {
		var text string
		switch k := r.Intn(20); {
		case k < 6:
			text = randSanQuery(r, true)
		case k < 12:
			text = randSanQuery(r, false)
		case k < 15:
			text = sanitizeMutate(r, randSanQuery(r, r.Intn(2) == 0))
		case k < 18:
			text = randPieceSoup(r)
		default:
			text = randLexText(r, false)
			if r.Intn(3) == 0 {
				text += pick(r, wsPool) + randSanQuery(r, false)
			}
		}
		emit(sanCase(text)...)
	}
}

// ---------------------------------------------------------------- analysis of a text (independent of the regexps)

type sanTok struct {
	tok        influxql.Token
	lit        string
	start, end int // rune offsets in the original text
}

// sanTokenize scans the text with the real scanner and returns every token with its extent in
// runes of the original text (the reader delivers CR LF and CR as one LF).
func sanTokenize(text string) ([]sanTok, []rune, bool) {
	rs := []rune(text)
	var starts []int
	for i := 0; i < len(rs); {
		starts = append(starts, i)
		if rs[i] == '\r' && i+1 < len(rs) && rs[i+1] == '\n' {
			i += 2
		} else {
			i++
		}
	}
	starts = append(starts, len(rs))
	sc := influxql.NewScanner(strings.NewReader(text))
	var toks []sanTok
	prev := 0
	for k := 0; k < len(rs)+4; k++ {
		tok, _, lit := sc.Scan()
		c := sc.VerifConsumed()
		if tok == influxql.EOF {
			return toks, rs, prev == len(starts)-1
		}
		if c > len(starts)-1 {
			c = len(starts) - 1 // look-ahead at the end of the text counts the EOF reads
		}
		if c <= prev {
			return nil, rs, false
		}
		toks = append(toks, sanTok{tok, lit, starts[prev], starts[c]})
		prev = c
	}
	return nil, rs, false
}

// pwClause is one password clause found at token level.
type pwClause struct {
	create   bool
	kw1, kw2 sanTok // WITH PASSWORD | PASSWORD FOR
	name, eq sanTok // SET PASSWORD only
	lit      sanTok
}

func sanClauses(toks []sanTok) []pwClause {
	var sig []sanTok
	for _, t := range toks {
		if t.tok != influxql.WS && t.tok != influxql.COMMENT {
			sig = append(sig, t)
		}
	}
	var out []pwClause
	for i := range sig {
		if i+2 < len(sig) && sig[i].tok == influxql.WITH && sig[i+1].tok == influxql.PASSWORD && sig[i+2].tok == influxql.STRING {
			out = append(out, pwClause{create: true, kw1: sig[i], kw2: sig[i+1], lit: sig[i+2]})
		}
		if i+4 < len(sig) && sig[i].tok == influxql.PASSWORD && sig[i+1].tok == influxql.FOR && sig[i+2].tok == influxql.IDENT && sig[i+3].tok == influxql.EQ && sig[i+4].tok == influxql.STRING {
			out = append(out, pwClause{kw1: sig[i], kw2: sig[i+1], name: sig[i+2], eq: sig[i+3], lit: sig[i+4]})
		}
	}
	return out
}

type sanAnalysis struct {
	rs        []rune
	clauses   []pwClause
	passwords []string // from ParseQuery, in order
	names     []string // user names of the password statements
	strings_  []string // stmt.String() of the password statements
	blanked   []string // stmt.String() with the password replaced
	expected  string   // the text with every password literal replaced by [REDACTED]
	out       string   // Sanitize(text)
}

// sanAnalyse returns nil when the text is not a valid query or cannot be analysed.
func sanAnalyse(text string) (*sanAnalysis, string) {
	if strings.IndexByte(text, 0) >= 0 {
		return nil, "skip"
	}
	q, err := influxql.ParseQuery(text)
	if err != nil {
		return nil, "skip"
	}
	a := &sanAnalysis{out: influxql.Sanitize(text)}
	for _, st := range q.Statements {
		switch s := st.(type) {
		case *influxql.CreateUserStatement:
			a.passwords = append(a.passwords, s.Password)
			a.names = append(a.names, s.Name)
			a.strings_ = append(a.strings_, s.String())
			c := *s
			c.Password = "\x01other\x02"
			a.blanked = append(a.blanked, c.String())
		case *influxql.SetPasswordUserStatement:
			a.passwords = append(a.passwords, s.Password)
			a.names = append(a.names, s.Name)
			a.strings_ = append(a.strings_, s.String())
			c := *s
			c.Password = "\x01other\x02"
			a.blanked = append(a.blanked, c.String())
		}
	}
	toks, rs, ok := sanTokenize(text)
	if !ok {
		return nil, "harness: cannot tokenize a text that ParseQuery accepts"
	}
	a.rs = rs
	a.clauses = sanClauses(toks)
	if len(a.clauses) != len(a.passwords) {
		return nil, fmt.Sprintf("harness: %d password clauses at token level, %d password statements parsed", len(a.clauses), len(a.passwords))
	}
	var b strings.Builder
	i := 0
	for k, c := range a.clauses {
		if c.lit.lit != a.passwords[k] {
			return nil, "harness: password literal and parsed password differ"
		}
		b.WriteString(string(rs[i:c.lit.start]))
		b.WriteString("[REDACTED]")
		i = c.lit.end
	}
	b.WriteString(string(rs[i:]))
	a.expected = b.String()
	return a, ""
}

func countRunes(hay, needle []rune) int {
	n := 0
	for i := 0; i+len(needle) <= len(hay); i++ {
		j := 0
		for j < len(needle) && hay[i+j] == needle[j] {
			j++
		}
		if j == len(needle) {
			n++
		}
	}
	return n
}

// leakedFragment returns a fragment (three runes) of the literal that is still as frequent in the
// sanitized text as in the original, or "".
func (a *sanAnalysis) leakedFragment() string {
	out := []rune(a.out)
	for _, c := range a.clauses {
		lit := a.rs[c.lit.start:c.lit.end]
		if len(lit) < 3 {
			continue
		}
		for i := 0; i+3 <= len(lit); i++ {
			w := lit[i : i+3]
			if strings.Contains("[REDACTED]", string(w)) {
				continue // indistinguishable from the replacement text
			}
			if countRunes(out, w) >= countRunes(a.rs, w) {
				return string(w)
			}
		}
	}
	return ""
}

func propSanitizeText(args []string) string {
	b, err := decBytes(args[1])
	if err != nil {
		return "skip"
	}
	text := string(b)
	a, msg := sanAnalyse(text)
	if a == nil {
		return msg
	}
	for k := range a.passwords {
		if a.strings_[k] != a.blanked[k] {
			return fmt.Sprintf("String() depends on the password: %q", a.strings_[k])
		}
		pw := []rune(a.passwords[k])
		for i := 0; i+3 <= len(pw); i++ {
			w := string(pw[i : i+3])
			if allMarkers(w) && strings.Contains(a.strings_[k], w) && !strings.Contains(a.names[k], w) {
				return fmt.Sprintf("String() = %q contains the password fragment %q", a.strings_[k], w)
			}
		}
	}
	// Sanitize is a function of the text: asked again (twice more), also with another long text in between,
	// it answers the same (round-4 seeded change C15-1 remembered the last long text half-redacted)
	for i := 0; i < 2; i++ {
		if i == 1 {
			_ = influxql.Sanitize(strings.Repeat("SELECT v FROM m WHERE x = 'padding to get past any size threshold'; ", 8))
		}
		if again := influxql.Sanitize(text); again != a.out {
			return fmt.Sprintf("Sanitize answers differently when asked again: first %q, then %q", a.out, again)
		}
		if again := influxql.Sanitize(text); again != a.out {
			return fmt.Sprintf("Sanitize answers differently when asked again: first %q, then %q", a.out, again)
		}
	}
	if string([]rune(a.out)) == string([]rune(a.expected)) {
		return ""
	}
	if len(a.passwords) == 0 {
		return fmt.Sprintf("text without password clause is changed: Sanitize(%q) = %q", text, a.out)
	}
	if w := a.leakedFragment(); w != "" {
		return fmt.Sprintf("password fragment %q survives: Sanitize(%q) = %q", w, text, a.out)
	}
	return fmt.Sprintf("text outside the password literal is changed: Sanitize(%q) = %q, want %q", text, a.out, a.expected)
}

func allRegexSpace(rs []rune) bool {
	for _, c := range rs {
		if !(c == ' ' || c == '\t' || c == '\n' || c == '\f' || c == '\r') {
			return false
		}
	}
	return true
}

func hasRegexSpace(rs []rune) bool {
	for _, c := range rs {
		if c == ' ' || c == '\t' || c == '\n' || c == '\f' || c == '\r' {
			return true
		}
	}
	return false
}

func hasRune(rs []rune, x rune) bool {
	for _, c := range rs {
		if c == x {
			return true
		}
	}
	return false
}

// knownSanitizeText classifies a failing case under the recorded C15 findings: by the
// first unfriendly feature of a password clause whose literal leaks, else as over-redaction.
func knownSanitizeText(args []string) string {
	b, err := decBytes(args[1])
	if err != nil {
		return ""
	}
	a, _ := sanAnalyse(string(b))
	if a == nil {
		return ""
	}
	for k := range a.passwords {
		if a.strings_[k] != a.blanked[k] {
			return ""
		}
	}
	if string([]rune(a.out)) == string([]rune(a.expected)) {
		return ""
	}
	if len(a.passwords) == 0 || a.leakedFragment() == "" {
		return "C15-redacts-outside-literal"
	}
	class := ""
	set := func(c string) {
		if class == "" {
			class = c
		}
	}
	for _, c := range a.clauses {
		lit := a.rs[c.lit.start:c.lit.end]
		kwGap := a.rs[c.kw1.end:c.kw2.start]
		var litGap []rune
		if c.create {
			litGap = a.rs[c.kw2.end:c.lit.start]
		} else {
			litGap = a.rs[c.eq.end:c.lit.start]
		}
		switch {
		case hasRegexSpace(lit):
			set("C15-leak-password-whitespace")
		case hasRune(lit, '"'):
			set("C15-leak-password-dquote")
		case len(litGap) == 0:
			set("C15-leak-no-space-before-literal")
		case !commentsAndSpace(kwGap) || !commentsAndSpace(litGap):
			// a separator that is neither white space of the patterns nor a comment (the scanner does not accept
			// any other today): not one of the recorded classes
			return ""
		case len(kwGap) == 0 || !allRegexSpace(kwGap) || !allRegexSpace(litGap):
			set("C15-leak-comment-between-tokens")
		case !c.create && hasRune(a.rs[c.kw2.end:c.eq.start], '='):
			set("C15-leak-earlier-text-interferes")
		}
	}
	if class == "" {
		class = "C15-leak-earlier-text-interferes"
	}
	return class
}

// commentsAndSpace: the gap consists of white space the redaction patterns know ([\t\n\f\r ]) and of
// `/* … */` / `-- …` comments only.
func commentsAndSpace(gap []rune) bool {
	for i := 0; i < len(gap); {
		switch {
		case gap[i] == '/' && i+1 < len(gap) && gap[i+1] == '*':
			j := i + 2
			for j+1 < len(gap) && !(gap[j] == '*' && gap[j+1] == '/') {
				j++
			}
			i = j + 2
		case gap[i] == '-' && i+1 < len(gap) && gap[i+1] == '-':
			for i < len(gap) && gap[i] != '\n' {
				i++
			}
		case gap[i] == ' ' || gap[i] == '\t' || gap[i] == '\n' || gap[i] == '\f' || gap[i] == '\r':
			i++
		default:
			return false
		}
	}
	return true
}

// ---------------------------------------------------------------- sanitize.print

func genSanitizePrint(r *rand.Rand, n int, emit func(args ...string)) {
	for _, nm := range []string{"", "u", "a b", "select", "a\"b", "a\nb", "[REDACTED]"} {
		for _, pw := range []string{"", "pw", "my secret", "[REDACTED]", "a'b\"c"} {
			emit("create", encStr(nm), encStr(pw), "false")
			emit("create", encStr(nm), encStr(pw), "true")
			emit("set", encStr(nm), encStr(pw), "false")
		}
	}
	for i := 0; i < n; i++ {
		nm := randQuoteContent(r)
		pw := randPwValue(r, r.Intn(2) == 0)
		emit(pick(r, []string{"create", "set"}), encStr(nm), encStr(pw), pick(r, []string{"true", "false"}))
	}
}

func sanPrint(kind, name, pw string, admin bool) string {
	if kind == "create" {
		return (&influxql.CreateUserStatement{Name: name, Password: pw, Admin: admin}).String()
	}
	return (&influxql.SetPasswordUserStatement{Name: name, Password: pw}).String()
}

func propSanitizePrint(args []string) string {
	ss, ok := decAll(args[1:3])
	if !ok {
		return "skip"
	}
	name, pw, admin := ss[0], ss[1], args[3] == "true"
	out := sanPrint(args[0], name, pw, admin)
	if other := sanPrint(args[0], name, "\x01other\x02", admin); other != out {
		return fmt.Sprintf("String() depends on the password: %q vs %q", out, other)
	}
	rs := []rune(pw)
	for i := 0; i+3 <= len(rs); i++ {
		w := string(rs[i : i+3])
		if allMarkers(w) && strings.Contains(out, w) && !strings.Contains(name, w) {
			return fmt.Sprintf("String() = %q contains the password fragment %q", out, w)
		}
	}
	return ""
}

func init() {
	register(&stream{name: "sanitize.text", gen: genSanitizeText, prop: propSanitizeText, known: knownSanitizeText,
		impl: func(args []string) string {
			b, err := decBytes(args[1])
			if err != nil {
				return "bad-arg"
			}
			return encStr(influxql.Sanitize(string(b)))
		},
		normalize: func(args []string) []string {
			b, err := decBytes(args[1])
			if err != nil {
				return args
			}
			return []string{encStr(string(b)), args[1]}
		},
		class: func(args []string, out string) string {
			b, _ := decBytes(args[1])
			text := string(b)
			n := strings.Count(out, "5b,52,45,44,41,43,54,45,44,5d")
			valid := "invalid"
			if _, err := influxql.ParseQuery(text); err == nil {
				valid = "valid"
			}
			if n > 2 {
				n = 2
			}
			return fmt.Sprintf("%s-redactions-%d", valid, n)
		},
		nontrivial: func(args []string, out string) bool { return out != args[0] }})
	register(&stream{name: "sanitize.print", gen: genSanitizePrint, prop: propSanitizePrint,
		impl: func(args []string) string {
			if len(args) != 4 {
				return "bad-arg"
			}
			ss, ok := decAll(args[1:3])
			if !ok {
				return "bad-arg"
			}
			return encStr(sanPrint(args[0], ss[0], ss[1], args[3] == "true"))
		},
		class:      func(args []string, out string) string { return args[0] },
		nontrivial: func(args []string, out string) bool { return true }})
}

package main

import (
	"fmt"
	"math/rand"
	"regexp"
	"strings"

	"github.com/influxdata/influxql"
)

// Stream for C16 (expression level): whitespace and comments between tokens do not change the AST.
//
//	neutral.expr s:<template> l:<lower table>
//
// The template is an expression text in which every inter-token gap that contains whitespace is
// written as  U+E000 <base whitespace> U+E001 <variant> U+E002 : the base layout takes the first
// part, the variant layout the second. The variant part is whitespace (space, tab, LF, CR, CRLF)
// optionally with comments inserted, each flanked by whitespace. Both layouts are derived from
// the one argument, so that shrinking a failing case keeps them consistent.
//
// Output (implementation and model): <result of base> | <result of variant>, each `ok <sexp>` or
// `err <message>`. Property oracle: both parse to the same S-expression, or both fail.

const (
	gapOpen  = rune(0xE000)
	gapMid   = rune(0xE001)
	gapClose = rune(0xE002)
)

type piece struct {
	s   string
	gap bool // whitespace follows this piece in the base layout
}

func isRawWsString(s string) bool {
	if s == "" {
		return false
	}
	for _, c := range s {
		if c != ' ' && c != '\t' && c != '\n' && c != '\r' {
			return false
		}
	}
	return true
}

// wellFormedGap: ws+ (comment ws+)* with comments that the scanner reads as one COMMENT token.
func wellFormedGap(s string) bool {
	i := 0
	n := len(s)
	ws := func() bool {
		j := i
		for i < n && (s[i] == ' ' || s[i] == '\t' || s[i] == '\n' || s[i] == '\r') {
			i++
		}
		return i > j
	}
	if !ws() {
		return false
	}
	for i < n {
		switch {
		case strings.HasPrefix(s[i:], "/*"):
			k := strings.Index(s[i+2:], "*/")
			if k < 0 || strings.ContainsRune(s[i+2:i+2+k], 0) {
				return false
			}
			i += 2 + k + 2
		case strings.HasPrefix(s[i:], "--"):
			k := strings.IndexAny(s[i+2:], "\r\n")
			if k < 0 || strings.ContainsRune(s[i+2:i+2+k], 0) {
				return false
			}
			i += 2 + k // the line break itself is consumed by the comment; what follows must be whitespace
			if s[i] == '\r' && i+1 < n && s[i+1] == '\n' {
				i += 2
			} else {
				i++
			}
			// after a line comment at least one more whitespace rune is required (flanked on both sides)
			if !ws() {
				return false
			}
			continue
		default:
			return false
		}
		if !ws() {
			return false
		}
	}
	return true
}

// deriveLayouts splits a template into its base and variant texts.
func deriveLayouts(tpl string) (base, variant string, ok bool) {
	var b, v strings.Builder
	state := 0
	var g1, g2 strings.Builder
	for _, c := range tpl {
		switch state {
		case 0:
			switch c {
			case gapOpen:
				state = 1
				g1.Reset()
				g2.Reset()
			case gapMid, gapClose:
				return "", "", false
			default:
				b.WriteRune(c)
				v.WriteRune(c)
			}
		case 1:
			switch c {
			case gapMid:
				state = 2
			case gapOpen, gapClose:
				return "", "", false
			default:
				g1.WriteRune(c)
			}
		case 2:
			switch c {
			case gapClose:
				if !isRawWsString(g1.String()) || !wellFormedGap(g2.String()) {
					return "", "", false
				}
				b.WriteString(g1.String())
				v.WriteString(g2.String())
				state = 0
			case gapOpen, gapMid:
				return "", "", false
			default:
				g2.WriteRune(c)
			}
		}
	}
	if state != 0 {
		return "", "", false
	}
	return b.String(), v.String(), true
}

var neutralComments = []string{"/* c */", "/**/", "/* * / */", "/***/", "/* a\nb */", "/*;*/", "/*'*/", "/*\"*/", "/* -- */", "/*(*/", "-- c\n", "--\n", "-- 'x\r\n", "--/*\n", "-- é\r", "-- ;\n"}

func neutralAtom(r *rand.Rand, depth int) []piece {
	g := func() bool { return r.Intn(2) == 0 }
	switch r.Intn(16) {
	case 0, 1, 2:
		return []piece{{randBareIdent(r), false}}
	case 3:
		return []piece{{`"` + strings.NewReplacer("\n", `\n`, `\`, `\\`, `"`, `\"`).Replace(pick(r, []string{"a b", "select", "x.y", "a /* b", "a -- b", "1"})) + `"`, false}}
	case 4:
		return []piece{{pick(r, []string{"1", "42", "0", "1.5", "0.25", ".5", "100.0", "9223372036854775808"}), false}}
	case 5:
		return []piece{{influxql.QuoteString(pick(r, []string{"x", "it's", "a b", "a  /* c */ b", "-- x", "", "a\nb"})), false}}
	case 6:
		return []piece{{pick(r, []string{"true", "false", "TRUE"}), false}}
	case 7:
		return []piece{{pick(r, []string{"10s", "1h30m", "5µ", "1w"}), false}}
	case 8:
		return append([]piece{{pick(r, []string{"-", "+"}), g()}}, neutralAtom(r, depth+1)...)
	case 9, 10:
		if depth < 4 {
			out := []piece{{"(", g()}}
			in := neutralExpr(r, depth+1, r.Intn(3))
			in[len(in)-1].gap = g()
			out = append(out, in...)
			return append(out, piece{")", false})
		}
		return []piece{{randBareIdent(r), false}}
	case 11, 12:
		if depth < 4 {
			name := pick(r, []string{"mean", "MAX", "top", "f", "distinct", "Count", "now"})
			out := []piece{{name + "(", g()}}
			n := r.Intn(4)
			for i := 0; i < n; i++ {
				var arg []piece
				if r.Intn(5) == 0 {
					arg = []piece{{pick(r, []string{"/re/", "*", "/a\\/b/", "*::tag"}), false}}
				} else {
					arg = neutralExpr(r, depth+1, r.Intn(2))
				}
				arg[len(arg)-1].gap = g()
				out = append(out, arg...)
				if i < n-1 {
					out = append(out, piece{",", g()})
				}
			}
			return append(out, piece{")", false})
		}
		return []piece{{"now()", false}}
	case 13:
		return []piece{{randBareIdent(r) + pick(r, []string{"::float", "::integer", "::string", "::tag", "::field"}), false}}
	case 14:
		return []piece{{pick(r, []string{"a.b", "a.b.c", `"a"."b"`, "a..c", "*", "*::field"}), false}}
	default:
		return []piece{{"DISTINCT", true}, {randBareIdent(r), false}}
	}
}

// neutralExpr: atom (op atom)^k; operators always have whitespace on both sides in the base layout.
func neutralExpr(r *rand.Rand, depth, k int) []piece {
	out := neutralAtom(r, depth)
	for i := 0; i < k; i++ {
		out[len(out)-1].gap = true
		op := binOps[r.Intn(len(binOps))]
		out = append(out, piece{randCase(r, op), true})
		if op == "=~" || op == "!~" {
			if r.Intn(4) == 0 {
				out = append(out, neutralAtom(r, depth)...)
			} else {
				out = append(out, piece{"/" + pick(r, []string{"a.*", "^cpu$", "a\\/b", "x y", "(a|b)"}) + "/", false})
			}
		} else {
			out = append(out, neutralAtom(r, depth)...)
		}
	}
	return out
}

func randWs(r *rand.Rand) string {
	if r.Intn(40) == 0 {
		return longWsRun(r)
	}
	return pick(r, wsPool)
}

// renderTemplate: mode 0 = every gap gets other whitespace; 1 = one gap gets a comment;
// 2 = every gap gets whitespace or comments at random.
func renderTemplate(r *rand.Rand, ps []piece, mode int) string {
	// two adjacent signs must not fuse into a `--` comment (nor `/` `*` into `/*`) in the base layout
	for i := 0; i+1 < len(ps); i++ {
		a, b := ps[i].s, ps[i+1].s
		if (strings.HasSuffix(a, "-") && strings.HasPrefix(b, "-")) || (strings.HasSuffix(a, "/") && strings.HasPrefix(b, "*")) {
			ps[i].gap = true
		}
	}
	var gaps []int
	for i, p := range ps {
		if p.gap && i < len(ps)-1 {
			gaps = append(gaps, i)
		}
	}
	chosen := -1
	if mode == 1 && len(gaps) > 0 {
		chosen = gaps[r.Intn(len(gaps))]
	}
	var b strings.Builder
	for i, p := range ps {
		b.WriteString(p.s)
		if !p.gap || i == len(ps)-1 {
			continue
		}
		base := pick(r, []string{" ", " ", " ", "  ", "\n", "\t"})
		var v string
		withComment := (mode == 1 && i == chosen) || (mode == 2 && r.Intn(3) == 0)
		switch {
		case withComment:
			v = randWs(r)
			for n := 1 + r.Intn(2); n > 0; n-- {
				v += pick(r, neutralComments) + randWs(r)
			}
		case mode == 1:
			v = base
		default:
			v = randWs(r)
		}
		b.WriteRune(gapOpen)
		b.WriteString(base)
		b.WriteRune(gapMid)
		b.WriteString(v)
		b.WriteRune(gapClose)
	}
	return b.String()
}

func neutralCase(tpl string) []string { return []string{encStr(tpl), encLower(tpl)} }

func gapTpl(parts ...string) string {
	// parts alternate text, base gap, variant gap, text, ...
	var b strings.Builder
	for i := 0; i < len(parts); i++ {
		if i%3 == 0 {
			b.WriteString(parts[i])
		} else if i%3 == 1 {
			b.WriteRune(gapOpen)
			b.WriteString(parts[i])
			b.WriteRune(gapMid)
		} else {
			b.WriteString(parts[i])
			b.WriteRune(gapClose)
		}
	}
	return b.String()
}

func genNeutralExpr(r *rand.Rand, n int, emit func(args ...string)) {
	// corner cases first: every regex look-ahead point, both comment forms, CR forms
	for _, c := range [][]string{
		{"a", " ", "\n", "+", " ", "\r\n", "b"},
		{"a", " ", " /* c */ ", "+", " ", " -- c\n ", "b"},
		{"f(a,", " ", " /*c*/ ", "b)"},
		{"f(a", " ", " /*c*/ ", ", b)"},
		{"f(", " ", " /*c*/ ", "a)"},
		{"f(", " ", " -- c\n ", "a)"},
		{"a =~", " ", " /*c*/ ", "/x/"},
		{"a =~", " ", " -- c\n ", "/x/"},
		{"a !~", " ", "\t", "/x/"},
		{"f(a,", " ", " -- c\n ", "/x/)"},
		{"f(a,", " ", " -- c\n ", "b)"},
		{"DISTINCT", " ", " /* c */ ", "x"},
		{"DISTINCT", " ", "\r", "x"},
		{"-", " ", " /**/ ", "1"},
		{"(", " ", "\n", "a", " ", " --\n ", ")"},
		{"'a b'", " ", "\r\n", "=", " ", "\t", "'c'"},
		{"a", " ", " /* ' */ ", "=", " ", " /* \" */ ", "'x'"},
		// more look-ahead points (finding comment-before-regex-lookahead, fixed): several comments in
		// one gap, a regex behind the comment, `!~`, nested calls, a sign behind the comment
		{"f(", " ", " /*c*/ /*d*/ -- e\n ", "a)"},
		{"f(", " ", " /*c*/ ", "/x/)"},
		{"f(", " ", " -- c\r\n ", "/x/,", " ", " /* d */ ", "1)"},
		{"f(", " ", " /*c*/ ", ")"},
		{"a !~", " ", " -- c\n\t/* d */ ", "/x/"},
		{"a =~", " ", " /*c*/ ", "b"},
		{"a =~", " ", " /*/x/*/ ", "/y/"},
		{"f(g(", " ", " /*c*/ ", "a),", " ", " --\n ", "h(b,", " ", " /**/ ", "/x/))"},
		{"f(a,", " ", " /*c*/ ", "-1)"},
		{"f(a,", " ", " -- c\n ", "- 1)"},
		{"f(a,", " ", " /*c*/ ", "$p)"},
		{"a /", " ", " /*c*/ ", "b /", " ", " -- c\n ", "c"},
	} {
		emit(neutralCase(gapTpl(c...))...)
	}
	for i := 0; i < n; i++ {
		ps := neutralExpr(r, 0, r.Intn(5))
		emit(neutralCase(renderTemplate(r, ps, i%3))...)
	}
}

func neutralResult(text string) (string, bool) {
	if longNumberLiteral(text) {
		return "skip-float-precision", true
	}
	e, err := parseExprWith(text, nil)
	if err != nil {
		if isOracleError(err) {
			return "skip-oracle-call " + encStr(err.Error()), true
		}
		return "err " + encStr(err.Error()), false
	}
	return "ok " + sexpExpr(e), false
}

func implNeutralExpr(args []string) string {
	tpl, err := decStr(args[0])
	if err != nil {
		return "bad-arg"
	}
	base, variant, ok := deriveLayouts(tpl)
	if !ok {
		return "skip-bad-template"
	}
	r1, s1 := neutralResult(base)
	if s1 {
		return r1
	}
	r2, s2 := neutralResult(variant)
	if s2 {
		return r2
	}
	return r1 + " | " + r2
}

func propNeutralExpr(args []string) string {
	tpl, err := decStr(args[0])
	if err != nil {
		return "skip"
	}
	base, variant, ok := deriveLayouts(tpl)
	if !ok {
		return "skip"
	}
	e1, err1 := parseExprWith(base, nil)
	e2, err2 := parseExprWith(variant, nil)
	switch {
	case err1 != nil && err2 != nil:
		return ""
	case err1 != nil:
		return fmt.Sprintf("%q is rejected (%v) but the layout %q parses", base, err1, variant)
	case err2 != nil:
		return fmt.Sprintf("%q parses but the layout %q is rejected: %v", base, variant, err2)
	}
	if s1, s2 := sexpExpr(e1), sexpExpr(e2); s1 != s2 {
		return fmt.Sprintf("%q and %q parse to different trees: %s vs %s", base, variant, s1, s2)
	}
	return ""
}

// a comment (either form) that follows a regex look-ahead point — `(` of a call, `,`, `=~`, `!~` —
// possibly after whitespace.
var lookaheadComment = regexp.MustCompile(`(\(|,|=~|!~)[ \t\r\n]*(/\*|--)`)

// stripLookaheadComments replaces every comment that follows a look-ahead point by a blank.
func stripLookaheadComments(v string) string {
	for iter := 0; iter < 1000; iter++ {
		m := lookaheadComment.FindStringSubmatchIndex(v)
		if m == nil {
			return v
		}
		start := m[4]
		end := len(v)
		if strings.HasPrefix(v[start:], "/*") {
			if k := strings.Index(v[start+2:], "*/"); k >= 0 {
				end = start + 2 + k + 2
			}
		} else if k := strings.IndexAny(v[start:], "\r\n"); k >= 0 {
			end = start + k + 1
		}
		v = v[:start] + " " + v[end:]
	}
	return v
}

// knownNeutralExpr: the failure is the recorded finding iff the variant has a comment at a regex
// look-ahead point and the property holds once those comments are blanked.
func knownNeutralExpr(args []string) string {
	tpl, err := decStr(args[0])
	if err != nil {
		return ""
	}
	base, variant, ok := deriveLayouts(tpl)
	if !ok || !lookaheadComment.MatchString(variant) {
		return ""
	}
	repaired := stripLookaheadComments(variant)
	e1, err1 := parseExprWith(base, nil)
	e2, err2 := parseExprWith(repaired, nil)
	if (err1 != nil) != (err2 != nil) {
		return ""
	}
	if err1 == nil && sexpExpr(e1) != sexpExpr(e2) {
		return ""
	}
	return "comment-before-regex-lookahead"
}

func init() {
	register(&stream{name: "neutral.expr", gen: genNeutralExpr, impl: implNeutralExpr, prop: propNeutralExpr, known: knownNeutralExpr,
		class: func(args []string, out string) string {
			tpl, _ := decStr(args[0])
			c := "ws-only"
			if strings.Contains(tpl, "/*") || strings.Contains(tpl, "--") {
				c = "with-comment"
			}
			switch {
			case strings.HasPrefix(out, "skip"):
				return c + "/skip-oracle"
			case strings.HasPrefix(out, "ok"):
				return c + "/ok"
			}
			return c + "/error"
		},
		nontrivial: func(args []string, out string) bool { return strings.Count(args[0], "e000") >= 2 }})
}

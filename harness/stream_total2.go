package main

// C04 extensions: token-level structural mutation of grammar-derived statements, and a
// time-scaling oracle (total.scaling) that compares the parse time of one repeat pattern at two
// sizes instead of trusting an absolute deadline.

import (
	"fmt"
	"math/rand"
	"runtime"
	"sort"
	"strings"
	"syscall"
	"time"
	"unsafe"

	"github.com/influxdata/influxql"
)

// splitTokens cuts the text into the pieces the real scanner delivers (WS and comments included).
func splitTokens(text string) []string {
	return guard(5*time.Second, strings.Fields(text), func() []string { return splitTokens0(text) })
}

func splitTokens0(text string) []string {
	sc := influxql.NewScanner(strings.NewReader(text))
	rs := []rune(text)
	var out []string
	prev := 0
	for i := 0; i < len(rs)+4; i++ {
		tok, _, _ := sc.Scan()
		end := sc.VerifConsumed()
		if end > len(rs) {
			end = len(rs)
		}
		if end > prev {
			out = append(out, string(rs[prev:end]))
		}
		prev = end
		if tok == influxql.EOF {
			break
		}
	}
	if prev < len(rs) {
		out = append(out, string(rs[prev:]))
	}
	return out
}

func isBlankTok(t string) bool { return strings.TrimSpace(t) == "" }

// mutateTokens applies 1-3 structural edits on token level: drop a token, empty a parenthesis
// pair, drop one argument of a list, drop everything after a token, duplicate a token, swap
// neighbours, replace a token by a token of another kind.
func mutateTokens(r *rand.Rand, text string) string {
	toks := splitTokens(text)
	for k := 1 + r.Intn(3); k > 0 && len(toks) > 0; k-- {
		var sig []int // indices of non-blank tokens
		for i, t := range toks {
			if !isBlankTok(t) {
				sig = append(sig, i)
			}
		}
		if len(sig) == 0 {
			break
		}
		i := sig[r.Intn(len(sig))]
		switch r.Intn(9) {
		case 0: // drop a token
			toks = append(toks[:i], toks[i+1:]...)
		case 1, 2: // empty a parenthesis pair: f(a, b) -> f()
			var opens []int
			for _, j := range sig {
				if toks[j] == "(" {
					opens = append(opens, j)
				}
			}
			if len(opens) == 0 {
				continue
			}
			o := opens[r.Intn(len(opens))]
			depth, c := 0, -1
			for j := o; j < len(toks); j++ {
				if toks[j] == "(" {
					depth++
				} else if toks[j] == ")" {
					depth--
					if depth == 0 {
						c = j
						break
					}
				}
			}
			if c > o {
				toks = append(toks[:o+1], toks[c:]...)
			}
		case 3: // drop one element of a comma list (the token before or after a comma)
			var commas []int
			for _, j := range sig {
				if toks[j] == "," {
					commas = append(commas, j)
				}
			}
			if len(commas) == 0 {
				continue
			}
			c := commas[r.Intn(len(commas))]
			if r.Intn(2) == 0 && c+1 < len(toks) {
				j := c + 1
				for j < len(toks) && isBlankTok(toks[j]) {
					j++
				}
				if j < len(toks) {
					toks = append(toks[:j], toks[j+1:]...)
				}
			} else if c > 0 {
				j := c - 1
				for j > 0 && isBlankTok(toks[j]) {
					j--
				}
				toks = append(toks[:j], toks[j+1:]...)
			}
		case 4: // truncate after a token
			toks = toks[:i+1]
		case 5: // duplicate a token
			toks = append(toks[:i+1], append([]string{" ", toks[i]}, toks[i+1:]...)...)
		case 6: // swap with the next significant token
			for _, j := range sig {
				if j > i {
					toks[i], toks[j] = toks[j], toks[i]
					break
				}
			}
		case 7: // replace by a token of another kind
			toks[i] = pick(r, []string{"1", "1.5", "1h", "'s'", "\"q\"", "x", "/re/", "$p", "true", "null", "*", "(", ")", ",", ";", ".", "::", "-", "=~", "9223372036854775808", "0", "-1"})
		default: // replace by a keyword or operator
			toks[i] = pick(r, append(append([]string{}, kwPool...), opPool...))
		}
	}
	return strings.Join(toks, "")
}

// structuredHostile: a generated statement (every statement family of gen_stmt.go, valid or
// nearly valid) with token-level edits.
func structuredHostile(r *rand.Rand) string {
	g := newSgen(r)
	g.params = r.Intn(4) == 0
	t := genStmtText(g)
	if r.Intn(8) == 0 {
		return t
	}
	return mutateTokens(r, t)
}

// ---- total.scaling -----------------------------------------------------------------------

type scaleFamily struct{ pre, unit, post string }

var scaleFamilies = []scaleFamily{
	{"", "(", ""}, {"", "(", "a"}, {"", "-", "a"}, {"-", "(-", ""}, {"", "f(", ""}, {"a", "+a", ""}, {"a", " AND a", ""},
	{"f(", "a,", "a)"}, {"", "(a+", "a"}, {"SELECT a FROM m WHERE ", "(", "a"}, {"", ";", ""},
	{"SELECT 1 FROM m", ";SELECT 1 FROM m", ""}, {"/*", "x", ""}, {"--", "x", ""}, {"'", "x", ""}, {"'", "x", "'"},
	{"\"", "\\\"", ""}, {"\"", "x", "\""}, {"", "$", ""}, {"$", "x", ""}, {"", "a.", ""}, {"a =~ /", "x", ""}, {"a =~ /", "x", "/"},
	{"a =~ /", "\\/", "/"}, {"", "1", ""}, {"1.", "1", ""}, {"", "1", "s"}, {"0.", "0", "1"}, {"", " ", "a"}, {"", "\n", "a"}, {"", "\r\n", "a"},
	{"SELECT ", "a,", "a FROM m"}, {"SELECT a FROM ", "m,", "m"}, {"SELECT a FROM m GROUP BY ", "t,", "t"},
	{"SELECT a FROM m WHERE t IN (", "a,", "a)"}, {"SHOW TAG KEYS WITH KEY IN (", "a,", "a)"},
	{"SELECT a FROM m LIMIT ", "7", ""}, {"SELECT a FROM m WHERE time > now() - ", "7", "s"},
	{"", "x", ""}, {"", "é", ""}, {"", "\xff", ""}, {"SELECT ", "x", " FROM m"}, {"SELECT a FROM m WHERE a = '", "\\'", "'"},
	{"CREATE SUBSCRIPTION s ON d.r DESTINATIONS ALL 'a'", ",'a'", ""}, {"SELECT a::", "x", " FROM m"},
	{"SELECT a FROM ", "(SELECT a FROM ", "m"}, {"", "/**/", "a"}, {"", "--\n", "a"}, {"a", "::float", ""}, {"", "1e", ""}, {"", "1e1", ""},
	{"", "..", ""}, {"", ".1", ""}, {"", "- -", "1"}, {"", "!", ""}, {"", "\\", ""}, {"", "\x00", ""},
}

func scaleText(f scaleFamily, n int) string {
	k := n / len(f.unit)
	if k < 1 {
		k = 1
	}
	post := f.post
	// a family with a non-empty tail closes the parentheses its units opened
	if d := strings.Count(f.unit, "(") - strings.Count(f.unit, ")"); d > 0 && f.post != "" {
		post = f.post + strings.Repeat(")", k*d)
	}
	return f.pre + strings.Repeat(f.unit, k) + post
}

func genTotalScaling(r *rand.Rand, n int, emit func(args ...string)) {
	for _, f := range scaleFamilies {
		emit(encBytes([]byte(f.pre)), encBytes([]byte(f.unit)), encBytes([]byte(f.post)))
	}
	for i := 0; i < n; i++ {
		var f scaleFamily
		switch r.Intn(4) {
		case 0: // a lexical fragment repeated
			f.unit = randLexFragment(r, false)
		case 1: // two fragments with a gap
			f.unit = randLexFragment(r, false) + pick(r, wsPool) + randLexFragment(r, false)
		case 2: // a random slice of a generated statement
			t := genStmtText(newSgen(r))
			a := r.Intn(len(t) + 1)
			b := a + r.Intn(len(t)-a+1)
			f.pre, f.unit, f.post = t[:a], t[a:b], t[b:]
		default:
			f.unit = randBytes(r)
			if len(f.unit) > 4 {
				f.unit = f.unit[:4]
			}
		}
		if f.unit == "" {
			f.unit = "a "
		}
		if f.pre == "" && r.Intn(2) == 0 {
			f.pre = pick(r, []string{"SELECT ", "SELECT a FROM ", "SELECT a FROM m WHERE ", "f(", "a =~ ", "SHOW TAG KEYS WITH KEY IN (", "DROP SERIES FROM ", "SELECT a FROM m GROUP BY "})
		}
		emit(encBytes([]byte(f.pre)), encBytes([]byte(f.unit)), encBytes([]byte(f.post)))
	}
}

const (
	scaleSmall  = 10000
	scaleFactor = 16
	// a linear parser needs about scaleFactor times as long on the big input; a quadratic one
	// scaleFactor^2 = 256 times. The allowance is 4 x linear plus a constant for timer and
	// scheduler noise; every measurement is the CPU time of the parsing thread, best of up to three runs.
	scaleAllow = 4 * scaleFactor
	scaleSlack = 150 * time.Millisecond
)

// threadCPU is the CPU time consumed by the calling OS thread (CLOCK_THREAD_CPUTIME_ID): unlike
// wall-clock time it does not count time during which the thread is descheduled, nor the
// garbage collector's background workers, so the oracle stays quiet on a loaded machine.
func threadCPU() time.Duration {
	var ts syscall.Timespec
	const clockThreadCPUTimeID = 3
	if _, _, e := syscall.Syscall(syscall.SYS_CLOCK_GETTIME, clockThreadCPUTimeID, uintptr(unsafe.Pointer(&ts)), 0); e != 0 {
		return -1
	}
	return time.Duration(ts.Sec)*time.Second + time.Duration(ts.Nsec)
}

// timeParse returns the CPU time of one parse, run on a goroutine locked to its OS thread
// (panics are left to total.bytes: recovered and ignored). ok is false when the parse has not
// returned within the wall-clock limit.
func timeParse(entry int, text string, limit time.Duration) (time.Duration, bool) {
	done := make(chan time.Duration, 1)
	go func() {
		runtime.LockOSThread()
		defer runtime.UnlockOSThread()
		defer func() {
			if p := recover(); p != nil {
				done <- -1
			}
		}()
		p := influxql.NewParser(strings.NewReader(text))
		c0, w0 := threadCPU(), time.Now()
		switch entry {
		case 0:
			_, _ = p.ParseQuery()
		case 1:
			_, _ = p.ParseStatement()
		default:
			_, _ = p.ParseExpr()
		}
		c1 := threadCPU()
		if c0 < 0 || c1 < 0 {
			done <- time.Since(w0)
			return
		}
		done <- c1 - c0
	}()
	select {
	case d := <-done:
		return d, true
	case <-time.After(limit):
		return limit, false
	}
}

// scalingStuck counts parses abandoned at their wall-clock limit (they keep running).
var scalingStuck int

func propTotalScaling(args []string) string {
	if len(args) != 3 {
		return "skip"
	}
	var parts [3]string
	for i := range parts {
		b, err := decBytes(args[i])
		if err != nil {
			return "skip"
		}
		parts[i] = string(b)
	}
	f := scaleFamily{parts[0], parts[1], parts[2]}
	if f.unit == "" {
		return "skip"
	}
	if scalingStuck >= 3 {
		return "skip" // earlier families left parses running that never returned
	}
	small, big := scaleText(f, scaleSmall), scaleText(f, scaleSmall*scaleFactor)
	for entry, name := range []string{"ParseQuery", "ParseStatement", "ParseExpr"} {
		var ts []time.Duration
		stuck := false
		for k := 0; k < 3; k++ {
			d, ok := timeParse(entry, small, time.Minute)
			if !ok {
				stuck = true
				break
			}
			ts = append(ts, d)
		}
		if stuck {
			scalingStuck++
			return fmt.Sprintf("%s does not return within a minute on %d bytes: %.40q + %.40q x k + %.40q", name, len(small), f.pre, f.unit, f.post)
		}
		sort.Slice(ts, func(i, j int) bool { return ts[i] < ts[j] })
		t1 := ts[0]
		if t1 < 0 {
			continue // panics: total.bytes reports them
		}
		allowed := time.Duration(scaleAllow)*t1 + scaleSlack
		best := time.Duration(-1)
		for k := 0; k < 3; k++ {
			d, ok := timeParse(entry, big, 20*allowed+5*time.Second)
			if d < 0 {
				best = 0
				break
			}
			if ok && d <= allowed {
				best = d
				break
			}
			if !ok {
				scalingStuck++
			}
		}
		if best < 0 {
			return fmt.Sprintf("%s is not linear on %.40q + %.40q x k + %.40q: %d bytes take %v, %d bytes take more than %v of CPU time (allowed: %d x + %v) in three attempts",
				name, f.pre, f.unit, f.post, len(small), t1, len(big), allowed, scaleAllow, scaleSlack)
		}
	}
	return ""
}

// total.stmt / total.query: the hostile inputs of total.bytes through ParseStatement / ParseQuery,
// compared with the statement-parser model (whole AST or exact error text).
func genTotalStmt(r *rand.Rand, n int, emit func(args ...string)) {
	for _, t := range []string{"", ";", ";;", "SELECT", "SELECT a FROM", "SELECT a FROM m fill()", "SELECT a FROM m fill(1, 2)", "SELECT a FROM m tz()", "SELECT a FROM m GROUP BY time()", "SELECT a FROM m WHERE", "SHOW", "SHOW TAG KEYS WITH KEY IN ()", "DROP", "CREATE USER u WITH PASSWORD", "GRANT", "KILL QUERY", "EXPLAIN", "SELECT a FROM (", "SELECT a FROM (SELECT b FROM m", "SELECT a INTO FROM m", "SELECT * FROM m LIMIT -1", "SELECT * FROM m LIMIT 9223372036854775808", "DELETE", "DELETE WHERE", "ALTER RETENTION POLICY p ON d", "CREATE DATABASE d WITH", "SELECT a FROM m; ; SELECT", "SELECT a FROM m SELECT b FROM n", "SELECT a FROM m /*", "SELECT a FROM m --", "SELECT a FROM m WHERE a =~ /", "SELECT 'a", "SELECT \"a", "SELECT a FROM m\x00", "SELECT $ FROM m", "SELECT a FROM $", "SELECT a FROM m LIMIT $"} {
		emit(exprCase(t, map[string]interface{}{})...)
	}
	for i := 0; i < n; i++ {
		var t string
		switch r.Intn(8) {
		case 0:
			t = randBytes(r)
		case 1, 2:
			t = mutateBytes(r, pick(r, stmtPool))
		case 3:
			t = tokenSoup(r)
		case 4:
			t = mutateBytes(r, genStmtText(newSgen(r)))
		default:
			t = structuredHostile(r)
		}
		params := map[string]interface{}{}
		if strings.Contains(t, "$") && r.Intn(4) != 0 {
			params = randParams(r, []string{"p", "q", "r", "t", "d", "n", "x", "a b", "1", ""})
		}
		emit(exprCase(t, params)...)
	}
}

func init() {
	register(&stream{name: "total.stmt", gen: genTotalStmt, impl: implParseStmt, class: stmtClass,
		nontrivial: func(args []string, out string) bool { return len(args[0]) > 60 }})
	register(&stream{name: "total.query", gen: genTotalStmt, impl: implParseQuery, class: stmtClass,
		nontrivial: func(args []string, out string) bool { return len(args[0]) > 60 }})
	register(&stream{name: "total.scaling", gen: genTotalScaling, prop: propTotalScaling, propTimeout: 30 * time.Minute,
		impl:       func(args []string) string { return "timed" },
		class:      func(args []string, out string) string { return out },
		nontrivial: func(args []string, out string) bool { return true }})
}

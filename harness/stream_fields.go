package main

import (
	"errors"
	"fmt"
	"sort"
	"strconv"
	"strings"

	"github.com/influxdata/influxql"
)

// Stream for C12: SelectStatement.RewriteFields against a schema.
//
//	fields.rewrite ct:<0|1> m:<schema> x:<names;matching pairs> l:<lower table> <statement words...>
//
// schema   measurements joined by '|', each  n<name>/<0|1 mapper error>/<fields>/<tags>/<MapType overrides>
//          fields, overrides: n<name>=<type> joined by '+';  tags: n<name> joined by '+'
//          (names are hex code points joined by ','; the order of the lists is the arbitrary
//          order the generator happened to produce: the Go side turns them into maps)
// x:       n<name>+...;n<regex>~n<name>+...   the names regexes may be asked about and the
//          (regex source, name) pairs that match (regexp.MatchString is an oracle of the model)
// statement (prefix notation, one word each):
//          S <#fields> <#dims> <#sources> <0|1 condition>  then per field  s:<expr text> s:<alias>,
//          per dimension s:<expr text>, per source  M s:<name>  |  Q <statement>, then s:<condition text>
//
// The Go side renders the statement to InfluxQL text and parses it with the real parser; the
// model parses every expression text with its expression parser.

type fSchemaM struct {
	name   string
	err    bool
	fields []fCol // arbitrary order
	tags   []string
	mt     []fCol // MapType overrides
}

type fCol struct {
	name string
	typ  int
}

type fStmt struct {
	fields  [][2]string // expr text, alias
	dims    []string
	srcs    []fSrc
	cond    string
	hasCond bool
}

type fSrc struct {
	meas string
	sub  *fStmt
}

type fCase struct {
	ct     bool
	schema []fSchemaM
	names  []string
	pairs  [][2]string
	lower  string
	stmt   *fStmt
}

func hx(s string) string { return "n" + encStr(s)[2:] }

func unhx(s string) (string, error) {
	if !strings.HasPrefix(s, "n") {
		return "", fmt.Errorf("bad name %q", s)
	}
	return decStr("s:" + s[1:])
}

func splitList(s, sep string) []string {
	if s == "" {
		return nil
	}
	return strings.Split(s, sep)
}

func encCols(cs []fCol) string {
	var p []string
	for _, c := range cs {
		p = append(p, hx(c.name)+"="+strconv.Itoa(c.typ))
	}
	return strings.Join(p, "+")
}

func decCols(s string) ([]fCol, error) {
	var out []fCol
	for _, it := range splitList(s, "+") {
		kv := strings.Split(it, "=")
		if len(kv) != 2 {
			return nil, fmt.Errorf("bad col %q", it)
		}
		n, err := unhx(kv[0])
		if err != nil {
			return nil, err
		}
		t, err := strconv.Atoi(kv[1])
		if err != nil {
			return nil, err
		}
		out = append(out, fCol{n, t})
	}
	return out, nil
}

func encNames(ns []string) string {
	var p []string
	for _, n := range ns {
		p = append(p, hx(n))
	}
	return strings.Join(p, "+")
}

func decNames(s string) ([]string, error) {
	var out []string
	for _, it := range splitList(s, "+") {
		n, err := unhx(it)
		if err != nil {
			return nil, err
		}
		out = append(out, n)
	}
	return out, nil
}

func encSchema(ms []fSchemaM) string {
	var p []string
	for _, m := range ms {
		e := "0"
		if m.err {
			e = "1"
		}
		p = append(p, hx(m.name)+"/"+e+"/"+encCols(m.fields)+"/"+encNames(m.tags)+"/"+encCols(m.mt))
	}
	return "m:" + strings.Join(p, "|")
}

func decSchema(a string) ([]fSchemaM, error) {
	if !strings.HasPrefix(a, "m:") {
		return nil, errors.New("bad schema")
	}
	var out []fSchemaM
	for _, it := range splitList(a[2:], "|") {
		ps := strings.Split(it, "/")
		if len(ps) != 5 {
			return nil, fmt.Errorf("bad measurement %q", it)
		}
		var m fSchemaM
		var err error
		if m.name, err = unhx(ps[0]); err != nil {
			return nil, err
		}
		m.err = ps[1] == "1"
		if m.fields, err = decCols(ps[2]); err != nil {
			return nil, err
		}
		if m.tags, err = decNames(ps[3]); err != nil {
			return nil, err
		}
		if m.mt, err = decCols(ps[4]); err != nil {
			return nil, err
		}
		out = append(out, m)
	}
	return out, nil
}

func (s *fStmt) words() []string {
	w := []string{"S", strconv.Itoa(len(s.fields)), strconv.Itoa(len(s.dims)), strconv.Itoa(len(s.srcs))}
	if s.hasCond {
		w = append(w, "1")
	} else {
		w = append(w, "0")
	}
	for _, f := range s.fields {
		w = append(w, encStr(f[0]), encStr(f[1]))
	}
	for _, d := range s.dims {
		w = append(w, encStr(d))
	}
	for _, src := range s.srcs {
		if src.sub != nil {
			w = append(w, "Q")
			w = append(w, src.sub.words()...)
		} else {
			w = append(w, "M", encStr(src.meas))
		}
	}
	if s.hasCond {
		w = append(w, encStr(s.cond))
	}
	return w
}

func decStmtWords(w []string) (*fStmt, []string, error) {
	if len(w) < 5 || w[0] != "S" {
		return nil, nil, errors.New("bad statement header")
	}
	nf, e1 := strconv.Atoi(w[1])
	nd, e2 := strconv.Atoi(w[2])
	ns, e3 := strconv.Atoi(w[3])
	if e1 != nil || e2 != nil || e3 != nil {
		return nil, nil, errors.New("bad statement counts")
	}
	s := &fStmt{hasCond: w[4] == "1"}
	w = w[5:]
	for i := 0; i < nf; i++ {
		if len(w) < 2 {
			return nil, nil, errors.New("short")
		}
		e, err := decStr(w[0])
		if err != nil {
			return nil, nil, err
		}
		a, err := decStr(w[1])
		if err != nil {
			return nil, nil, err
		}
		s.fields = append(s.fields, [2]string{e, a})
		w = w[2:]
	}
	for i := 0; i < nd; i++ {
		if len(w) < 1 {
			return nil, nil, errors.New("short")
		}
		e, err := decStr(w[0])
		if err != nil {
			return nil, nil, err
		}
		s.dims = append(s.dims, e)
		w = w[1:]
	}
	for i := 0; i < ns; i++ {
		if len(w) < 1 {
			return nil, nil, errors.New("short")
		}
		switch w[0] {
		case "M":
			if len(w) < 2 {
				return nil, nil, errors.New("short")
			}
			n, err := decStr(w[1])
			if err != nil {
				return nil, nil, err
			}
			s.srcs = append(s.srcs, fSrc{meas: n})
			w = w[2:]
		case "Q":
			sub, rest, err := decStmtWords(w[1:])
			if err != nil {
				return nil, nil, err
			}
			s.srcs = append(s.srcs, fSrc{sub: sub})
			w = rest
		default:
			return nil, nil, errors.New("bad source")
		}
	}
	if s.hasCond {
		if len(w) < 1 {
			return nil, nil, errors.New("short")
		}
		c, err := decStr(w[0])
		if err != nil {
			return nil, nil, err
		}
		s.cond = c
		w = w[1:]
	}
	return s, w, nil
}

// text renders the statement as InfluxQL.
func (s *fStmt) text() string {
	var b strings.Builder
	b.WriteString("SELECT ")
	for i, f := range s.fields {
		if i > 0 {
			b.WriteString(", ")
		}
		b.WriteString(f[0])
		if f[1] != "" {
			b.WriteString(" AS " + influxql.QuoteIdent(f[1]))
		}
	}
	b.WriteString(" FROM ")
	for i, src := range s.srcs {
		if i > 0 {
			b.WriteString(", ")
		}
		if src.sub != nil {
			b.WriteString("(" + src.sub.text() + ")")
		} else {
			b.WriteString(`"` + strings.NewReplacer("\n", `\n`, `\`, `\\`, `"`, `\"`).Replace(src.meas) + `"`)
		}
	}
	if s.hasCond {
		b.WriteString(" WHERE " + s.cond)
	}
	for i, d := range s.dims {
		if i == 0 {
			b.WriteString(" GROUP BY ")
		} else {
			b.WriteString(", ")
		}
		b.WriteString(d)
	}
	return b.String()
}

func (s *fStmt) allTexts(acc *[]string) {
	for _, f := range s.fields {
		*acc = append(*acc, f[0], f[1])
	}
	*acc = append(*acc, s.dims...)
	*acc = append(*acc, s.cond)
	for _, src := range s.srcs {
		if src.sub != nil {
			src.sub.allTexts(acc)
		}
	}
}

func (c *fCase) args() []string {
	ct := "ct:0"
	if c.ct {
		ct = "ct:1"
	}
	var ps []string
	for _, p := range c.pairs {
		ps = append(ps, hx(p[0])+"~"+hx(p[1]))
	}
	a := []string{ct, encSchema(c.schema), "x:" + encNames(c.names) + ";" + strings.Join(ps, "+"), c.lower}
	return append(a, c.stmt.words()...)
}

func decFCase(args []string) (*fCase, error) {
	if len(args) < 5 {
		return nil, errors.New("short case")
	}
	c := &fCase{ct: args[0] == "ct:1", lower: args[3]}
	var err error
	if c.schema, err = decSchema(args[1]); err != nil {
		return nil, err
	}
	if !strings.HasPrefix(args[2], "x:") {
		return nil, errors.New("bad x:")
	}
	xs := strings.SplitN(args[2][2:], ";", 2)
	if len(xs) != 2 {
		return nil, errors.New("bad x:")
	}
	if c.names, err = decNames(xs[0]); err != nil {
		return nil, err
	}
	for _, it := range splitList(xs[1], "+") {
		kv := strings.Split(it, "~")
		if len(kv) != 2 {
			return nil, errors.New("bad pair")
		}
		a, e1 := unhx(kv[0])
		b, e2 := unhx(kv[1])
		if e1 != nil || e2 != nil {
			return nil, errors.New("bad pair")
		}
		c.pairs = append(c.pairs, [2]string{a, b})
	}
	st, rest, err := decStmtWords(args[4:])
	if err != nil {
		return nil, err
	}
	if len(rest) != 0 {
		return nil, errors.New("trailing words")
	}
	c.stmt = st
	return c, nil
}

// ---- the mapper -------------------------------------------------------------

type schemaMapper struct {
	sch   []fSchemaM
	calls int
	// shared: hand out the same two maps for a measurement on every call, as a mapper backed by an
	// index does; they are the caller's schema and must come back unchanged (intact).
	shared bool
	fcache map[string]map[string]influxql.DataType
	dcache map[string]map[string]struct{}
}

// intact reports whether the maps handed out in shared mode still hold exactly the schema.
func (m *schemaMapper) intact() string {
	for name, f := range m.fcache {
		s := m.find(name)
		want := map[string]influxql.DataType{}
		for _, c := range s.fields {
			want[c.name] = influxql.DataType(c.typ)
		}
		if len(f) != len(want) {
			return fmt.Sprintf("the field map of %s handed out by the mapper has %d entries, the schema %d", name, len(f), len(want))
		}
		for k, v := range want {
			if g, ok := f[k]; !ok || g != v {
				return fmt.Sprintf("the field map of %s handed out by the mapper lost or changed %s", name, k)
			}
		}
		d := m.dcache[name]
		wantD := map[string]struct{}{}
		for _, t := range s.tags {
			wantD[t] = struct{}{}
		}
		if len(d) != len(wantD) {
			return fmt.Sprintf("the tag-key map of %s handed out by the mapper has %d entries, the schema %d", name, len(d), len(wantD))
		}
		for k := range wantD {
			if _, ok := d[k]; !ok {
				return fmt.Sprintf("the tag-key map of %s handed out by the mapper lost %s", name, k)
			}
		}
	}
	return ""
}

func (m *schemaMapper) find(name string) *fSchemaM {
	for i := range m.sch {
		if m.sch[i].name == name {
			return &m.sch[i]
		}
	}
	return nil
}

// FieldDimensions builds fresh Go maps on every call, so every `range` over them has its own
// random order.
func (m *schemaMapper) FieldDimensions(ms *influxql.Measurement) (map[string]influxql.DataType, map[string]struct{}, error) {
	m.calls++
	s := m.find(ms.Name)
	if s == nil {
		return nil, nil, nil
	}
	if s.err {
		return nil, nil, errors.New("mapper error for " + ms.Name)
	}
	if m.shared {
		if f, ok := m.fcache[ms.Name]; ok {
			return f, m.dcache[ms.Name], nil
		}
	}
	f := make(map[string]influxql.DataType, len(s.fields))
	for _, c := range s.fields {
		f[c.name] = influxql.DataType(c.typ)
	}
	d := make(map[string]struct{}, len(s.tags))
	for _, t := range s.tags {
		d[t] = struct{}{}
	}
	if m.shared {
		if m.fcache == nil {
			m.fcache, m.dcache = map[string]map[string]influxql.DataType{}, map[string]map[string]struct{}{}
		}
		m.fcache[ms.Name], m.dcache[ms.Name] = f, d
	}
	return f, d, nil
}

func (m *schemaMapper) MapType(ms *influxql.Measurement, field string) influxql.DataType {
	s := m.find(ms.Name)
	if s == nil {
		return influxql.Unknown
	}
	return influxql.DataType(schemaMapType(s, field))
}

// schemaMapType: override, else the field's type, else Tag for a tag key, else Unknown.
func schemaMapType(s *fSchemaM, field string) int {
	for _, c := range s.mt {
		if c.name == field {
			return c.typ
		}
	}
	for _, c := range s.fields {
		if c.name == field {
			return c.typ
		}
	}
	for _, t := range s.tags {
		if t == field {
			return int(influxql.Tag)
		}
	}
	return int(influxql.Unknown)
}

type schemaCallMapper struct{ *schemaMapper }

// CallType is a fixed function mirrored in lean/Oracle/Handlers/Fields.lean.
func (schemaCallMapper) CallType(name string, args []influxql.DataType) (influxql.DataType, error) {
	switch name {
	case "mean", "median", "integral", "stddev":
		return influxql.Float, nil
	case "count", "elapsed":
		return influxql.Integer, nil
	case "badcall":
		return influxql.Unknown, errors.New("bad call")
	}
	if len(args) == 0 {
		return influxql.Unknown, nil
	}
	return args[0], nil
}

func (c *fCase) mapper() influxql.FieldMapper {
	m := &schemaMapper{sch: c.schema}
	if c.ct {
		return schemaCallMapper{m}
	}
	return m
}

// ---- canonical output ---------------------------------------------------------

func sexpSelect(b *strings.Builder, s *influxql.SelectStatement) {
	b.WriteString("(stmt (fields")
	for _, f := range s.Fields {
		b.WriteString(" (f ")
		writeExpr(b, f.Expr)
		b.WriteString(" " + encStr(f.Alias) + ")")
	}
	b.WriteString(") (dims")
	for _, d := range s.Dimensions {
		b.WriteByte(' ')
		writeExpr(b, d.Expr)
	}
	b.WriteString(") (srcs")
	for _, src := range s.Sources {
		switch src := src.(type) {
		case *influxql.Measurement:
			b.WriteString(" (m " + encStr(src.Name) + ")")
		case *influxql.SubQuery:
			b.WriteString(" (q ")
			sexpSelect(b, src.Statement)
			b.WriteByte(')')
		}
	}
	b.WriteString(") (cond ")
	if s.Condition == nil {
		b.WriteString("-")
	} else {
		writeExpr(b, s.Condition)
	}
	b.WriteString("))")
}

func parseSelect(text string) (*influxql.SelectStatement, error) {
	st, err := influxql.ParseStatement(text)
	if err != nil {
		return nil, err
	}
	sel, ok := st.(*influxql.SelectStatement)
	if !ok {
		return nil, errors.New("not a SELECT")
	}
	return sel, nil
}

// pieceCache: expression text -> S-expression of ParseExpr alone ("" if it does not parse).
// Every parser instance is kept alive by the verif hook's reader registry, so the same few
// thousand texts are not parsed again for every case.
var pieceCache = map[string]string{}

// checkPieces verifies that the statement parser produced, for every expression text of the
// structured case, the tree the expression parser alone produces (which is what the model
// parses): otherwise the case is not about RewriteFields.
func checkPieces(s *fStmt, sel *influxql.SelectStatement) string {
	if len(sel.Fields) != len(s.fields) || len(sel.Dimensions) != len(s.dims) || len(sel.Sources) != len(s.srcs) || (sel.Condition != nil) != s.hasCond {
		return "shape"
	}
	piece := func(text string) (res string, ok bool) {
		if v, hit := pieceCache[text]; hit {
			return v, v != ""
		}
		defer func() {
			if len(pieceCache) < 200000 {
				if !ok {
					res = ""
				}
				pieceCache[text] = res
			}
		}()
		p := influxql.NewParser(strings.NewReader(text))
		var e influxql.Expr
		var err error
		if strings.HasPrefix(strings.TrimLeft(text, " \t\n"), "/") {
			// parseField / parseDimension try a regex first
			e, err = p.ParseExpr()
			if err != nil {
				// a whole-field regex is not an expression for ParseExpr; compare by source text
				return "(re " + encStr(unescapeRegexText(text)) + ")", true
			}
		} else {
			e, err = p.ParseExpr()
		}
		if err != nil {
			return "", false
		}
		return sexpExpr(e), true
	}
	for i, f := range s.fields {
		want, ok := piece(f[0])
		if !ok || want != sexpExpr(sel.Fields[i].Expr) || sel.Fields[i].Alias != f[1] {
			return "field"
		}
	}
	for i, d := range s.dims {
		want, ok := piece(d)
		if !ok || want != sexpExpr(sel.Dimensions[i].Expr) {
			return "dim"
		}
	}
	if s.hasCond {
		want, ok := piece(s.cond)
		if !ok || want != sexpExpr(sel.Condition) {
			return "cond"
		}
	}
	for i, src := range s.srcs {
		switch x := sel.Sources[i].(type) {
		case *influxql.Measurement:
			if src.sub != nil || x.Name != src.meas || x.Database != "" || x.RetentionPolicy != "" || x.Regex != nil {
				return "source"
			}
		case *influxql.SubQuery:
			if src.sub == nil {
				return "source"
			}
			if r := checkPieces(src.sub, x.Statement); r != "" {
				return r
			}
		}
	}
	return ""
}

// unescapeRegexText: `/a\/b/` -> `a/b` (what the scanner hands to regexp.Compile).
func unescapeRegexText(text string) string {
	t := strings.TrimSpace(text)
	if len(t) >= 2 && t[0] == '/' && t[len(t)-1] == '/' {
		t = t[1 : len(t)-1]
	}
	return strings.Replace(t, `\/`, `/`, -1)
}

// runRewrite parses the rendered statement and rewrites it; with check it first makes sure the
// pieces parse alone as they parse inside the statement (the implementation runner does; the
// property oracle works on the parsed statement whatever the pieces are).
func runRewrite(c *fCase, check bool) (string, *influxql.SelectStatement, *influxql.SelectStatement, error, string) {
	text := c.stmt.text()
	sel, err := parseSelect(text)
	if err != nil {
		if isOracleError(err) {
			return "skip-oracle-call " + encStr(err.Error()), nil, nil, nil, text
		}
		return "skip-parse-error " + encStr(err.Error()), nil, nil, nil, text
	}
	if check {
		if r := checkPieces(c.stmt, sel); r != "" {
			return "skip-parse-mismatch-" + r, nil, nil, nil, text
		}
	}
	rw, rerr := sel.RewriteFields(c.mapper())
	return "", sel, rw, rerr, text
}

func canonRewrite(rw *influxql.SelectStatement, rerr error) string {
	if rerr != nil {
		return "err " + encStr(rerr.Error())
	}
	var b strings.Builder
	b.WriteString("ok ")
	sexpSelect(&b, rw)
	return b.String()
}

// manyDigits: can the text contain a number literal of more than 15 significant digits at all?
// (cheap filter before longNumberLiteral, which runs a scanner)
func manyDigits(t string) bool {
	n := 0
	for _, r := range t {
		if r >= '0' && r <= '9' {
			n++
		}
	}
	return n > 15
}

func implFieldsRewrite(args []string) string {
	c, err := decFCase(args)
	if err != nil {
		return "bad-arg " + err.Error()
	}
	var all []string
	c.stmt.allTexts(&all)
	for _, t := range all {
		if manyDigits(t) && longNumberLiteral(t) {
			return "skip-float-precision"
		}
	}
	skip, _, rw, rerr, _ := runRewrite(c, true)
	if skip != "" {
		return skip
	}
	return canonRewrite(rw, rerr)
}

// ---- property oracle: determinism + the expectation computed from the schema -----

// precedence rank of a type (independent of DataType.LessThan): smaller = higher precedence.
var typeRank = map[influxql.DataType]int{
	influxql.Float: 0, influxql.Integer: 1, influxql.Unsigned: 2, influxql.String: 3, influxql.Boolean: 4,
	influxql.Time: 5, influxql.Duration: 6, influxql.Tag: 7, influxql.AnyField: 8, influxql.Unknown: 9,
}

func better(a, b influxql.DataType) influxql.DataType {
	if typeRank[b] < typeRank[a] {
		return b
	}
	return a
}

type expCol struct {
	name string
	typ  influxql.DataType
}

// levelSchema: the columns the sources of one (already rewritten) statement expose.
type levelSchema struct {
	fields  map[string]influxql.DataType
	tags    map[string]bool
	mapErr  bool
	topBot  bool // a subquery has a top()/bottom() field: FieldExprByName's argument rule applies (not re-derived here)
	hasSubq bool
}

func (c *fCase) levelSchemaOf(m influxql.FieldMapper, sources influxql.Sources) levelSchema {
	ls := levelSchema{fields: map[string]influxql.DataType{}, tags: map[string]bool{}}
	sm := &schemaMapper{sch: c.schema}
	for _, src := range sources {
		switch src := src.(type) {
		case *influxql.Measurement:
			s := sm.find(src.Name)
			if s == nil {
				continue
			}
			if s.err {
				ls.mapErr = true
				continue
			}
			for _, col := range s.fields {
				t := influxql.DataType(col.typ)
				if old, ok := ls.fields[col.name]; ok {
					t = better(old, t)
				}
				ls.fields[col.name] = t
			}
			for _, t := range s.tags {
				ls.tags[t] = true
			}
		case *influxql.SubQuery:
			ls.hasSubq = true
			for _, f := range src.Statement.Fields {
				t := influxql.EvalType(f.Expr, src.Statement.Sources, m)
				if old, ok := ls.fields[f.Name()]; ok {
					t = better(old, t)
				}
				ls.fields[f.Name()] = t
				if call, ok := f.Expr.(*influxql.Call); ok && (call.Name == "top" || call.Name == "bottom") {
					ls.topBot = true
				}
			}
			for _, d := range src.Statement.Dimensions {
				if ref, ok := d.Expr.(*influxql.VarRef); ok {
					ls.tags[ref.Val] = true
				}
			}
		}
	}
	return ls
}

var callExtra = map[string][]influxql.DataType{
	"count": {influxql.String, influxql.Boolean}, "first": {influxql.String, influxql.Boolean}, "last": {influxql.String, influxql.Boolean},
	"distinct": {influxql.String, influxql.Boolean}, "elapsed": {influxql.String, influxql.Boolean}, "mode": {influxql.String, influxql.Boolean},
	"sample": {influxql.String, influxql.Boolean}, "min": {influxql.Boolean}, "max": {influxql.Boolean},
}

func callAccepts(name string, t influxql.DataType) bool {
	switch t {
	case influxql.Float, influxql.Integer:
		return true
	case influxql.Unsigned:
		return name != "holt_winters" && name != "holt_winters_with_fit"
	}
	for _, x := range callExtra[name] {
		if x == t {
			return true
		}
	}
	return false
}

func containsWild(e influxql.Expr) (wild, regex bool) {
	influxql.WalkFunc(e, func(n influxql.Node) {
		switch n.(type) {
		case *influxql.Wildcard:
			wild = true
		case *influxql.RegexLiteral:
			regex = true
		}
	})
	return
}

// deviation classes of the literal property text that are recorded known findings
const (
	classNoFields   = "C12-no-fields-drops-tags"
	classRegexGroup = "C12-regex-groupby-drops-ungrouped-tags"
)

// checkLevel compares one statement of the result with the expectation derived from the
// schema, recursively for its subqueries. It returns a description of the first deviation
// ("" if none) and the known-finding class the deviation falls under ("" if none).
func (c *fCase) checkLevel(m influxql.FieldMapper, orig, got *influxql.SelectStatement) (string, string) {
	if len(orig.Sources) != len(got.Sources) {
		return "sources changed", ""
	}
	for i := range orig.Sources {
		so, ok1 := orig.Sources[i].(*influxql.SubQuery)
		sg, ok2 := got.Sources[i].(*influxql.SubQuery)
		if ok1 != ok2 {
			return "source kind changed", ""
		}
		if ok1 {
			if d, k := c.checkLevel(m, so.Statement, sg.Statement); d != "" {
				return d, k
			}
		} else if orig.Sources[i].String() != got.Sources[i].String() {
			return "measurement source changed", ""
		}
	}
	ls := c.levelSchemaOf(m, got.Sources)

	// --- which tags does the statement group by?
	hasDimWild, dimStar := false, false
	var dimRegex []*influxql.RegexLiteral
	explicit := map[string]bool{}
	for _, d := range orig.Dimensions {
		switch e := d.Expr.(type) {
		case *influxql.Wildcard:
			hasDimWild, dimStar = true, true
		case *influxql.RegexLiteral:
			hasDimWild = true
			dimRegex = append(dimRegex, e)
		case *influxql.VarRef:
			explicit[e.Val] = true
		}
	}
	hasFieldWild := false
	for _, f := range orig.Fields {
		w, r := containsWild(f.Expr)
		if w || r {
			hasFieldWild = true
		}
	}
	var tagNames []string
	for t := range ls.tags {
		tagNames = append(tagNames, t)
	}
	sort.Strings(tagNames)
	grouped := func(t string) bool {
		if explicit[t] || dimStar {
			return true
		}
		for _, re := range dimRegex {
			if re.Val.MatchString(t) {
				return true
			}
		}
		return false
	}

	// --- expected expansion of a whole-field `*` (the property text, literally)
	var fieldCols, cols []expCol
	for n, t := range ls.fields {
		fieldCols = append(fieldCols, expCol{n, t})
	}
	cols = append(cols, fieldCols...)
	anyUngrouped := false
	for _, t := range tagNames {
		if !grouped(t) {
			cols = append(cols, expCol{t, influxql.Tag})
			anyUngrouped = true
		}
	}
	sortCols := func(cols []expCol) {
		sort.Slice(cols, func(i, j int) bool {
			if cols[i].name != cols[j].name {
				return cols[i].name < cols[j].name
			}
			return cols[i].typ < cols[j].typ
		})
	}
	sortCols(cols)
	sortCols(fieldCols)

	// --- fields: the list that must replace orig.Fields given the columns `*` stands for;
	// "=" stands for one field kept in place (checked by checkKept)
	typeOf := c.typer(m, got.Sources, ls)
	skipLevel := false
	expand := func(cols []expCol) []string {
		var want []string
		for _, f := range orig.Fields {
			switch e := f.Expr.(type) {
			case *influxql.Wildcard:
				for _, col := range cols {
					if (e.Type == influxql.FIELD && col.typ == influxql.Tag) || (e.Type == influxql.TAG && col.typ != influxql.Tag) {
						continue
					}
					want = append(want, (&influxql.VarRef{Val: col.name, Type: col.typ}).String())
				}
				continue
			case *influxql.RegexLiteral:
				for _, col := range cols {
					if e.Val.MatchString(col.name) {
						want = append(want, (&influxql.VarRef{Val: col.name, Type: col.typ}).String())
					}
				}
				continue
			case *influxql.Call:
				// innermost call along the first arguments
				call := e
				for len(call.Args) > 0 {
					if in, ok := call.Args[0].(*influxql.Call); ok {
						call = in
					} else {
						break
					}
				}
				if len(call.Args) > 0 && hasFieldWild {
					var re *influxql.RegexLiteral
					isWild := false
					switch a := call.Args[0].(type) {
					case *influxql.Wildcard:
						isWild = true
					case *influxql.RegexLiteral:
						isWild, re = true, a
					}
					if isWild {
						for _, col := range cols {
							if col.typ == influxql.Tag || !callAccepts(call.Name, col.typ) || (re != nil && !re.Val.MatchString(col.name)) {
								continue
							}
							tc, ok := typedClone(f.Expr, typeOf)
							if !ok {
								skipLevel = true
								continue
							}
							tmpl := tc.(*influxql.Call)
							in := tmpl
							for {
								if nx, ok := in.Args[0].(*influxql.Call); ok {
									in = nx
								} else {
									break
								}
							}
							in.Args[0] = &influxql.VarRef{Val: col.name, Type: col.typ}
							want = append(want, tmpl.String()+" AS "+influxql.QuoteIdent(f.Name()+"_"+col.name))
						}
						continue
					}
				}
			}
			want = append(want, "=")
		}
		return want
	}
	compare := func(want []string) string {
		gi := 0
		for wi, w := range want {
			if gi >= len(got.Fields) {
				return fmt.Sprintf("field list too short: expected %d entries %v, got %s", len(want), want, got.Fields.String())
			}
			if w == "=" {
				gi++
				continue
			}
			if g := got.Fields[gi].String(); g != w {
				return fmt.Sprintf("field %d: expected %s, got %s (all: %s)", wi, w, g, got.Fields.String())
			}
			gi++
		}
		if gi != len(got.Fields) {
			return fmt.Sprintf("field list too long: expected %d entries %v, got %s", len(want), want, got.Fields.String())
		}
		return ""
	}
	if d := compare(expand(cols)); d != "" && !skipLevel {
		// Is it exactly one of the two recorded deviations from the literal text?
		// (1) no source has any field column: `*` expands to nothing at all;
		// (2) GROUP BY has a wildcard or regex and some tag is not grouped: no tag is expanded.
		known := ""
		if len(ls.fields) == 0 && anyUngrouped {
			if compare(expand(nil)) == "" {
				known = classNoFields
			}
		} else if hasDimWild && anyUngrouped {
			if compare(expand(fieldCols)) == "" {
				known = classRegexGroup
			}
		}
		return d, known
	}

	// --- dimensions
	var wantD []string
	for _, d := range orig.Dimensions {
		switch e := d.Expr.(type) {
		case *influxql.Wildcard:
			for _, t := range tagNames {
				wantD = append(wantD, influxql.QuoteIdent(t))
			}
		case *influxql.RegexLiteral:
			for _, t := range tagNames {
				if e.Val.MatchString(t) {
					wantD = append(wantD, influxql.QuoteIdent(t))
				}
			}
		default:
			wantD = append(wantD, d.String())
		}
	}
	var gotD []string
	for _, d := range got.Dimensions {
		gotD = append(gotD, d.String())
	}
	if strings.Join(wantD, ", ") != strings.Join(gotD, ", ") {
		return fmt.Sprintf("dimensions: expected %v, got %v", wantD, gotD), ""
	}
	return "", ""
}

// typer returns the function giving the type an untyped reference must receive at a statement
// whose (already rewritten) sources are given: the highest-precedence type over the sources,
// a measurement contributing MapType, a subquery the type of its column of that name (Tag for
// one of its dimensions when nothing else is known). ok=false: not re-derived here (a subquery
// with top()/bottom(), whose extra arguments FieldExprByName also resolves).
func (c *fCase) typer(m influxql.FieldMapper, sources influxql.Sources, ls levelSchema) func(name string) (influxql.DataType, bool) {
	sm := &schemaMapper{sch: c.schema}
	return func(name string) (influxql.DataType, bool) {
		if ls.topBot {
			return influxql.Unknown, false
		}
		typ := influxql.Unknown
		for _, src := range sources {
			switch src := src.(type) {
			case *influxql.Measurement:
				typ = better(typ, sm.MapType(src, name))
			case *influxql.SubQuery:
				for _, f := range src.Statement.Fields {
					if f.Name() == name {
						t, err := (&influxql.TypeValuerEval{TypeMapper: m, Sources: src.Statement.Sources}).EvalType(f.Expr)
						if err != nil {
							return influxql.Unknown, true
						}
						typ = better(typ, t)
						break
					}
				}
				if typ == influxql.Unknown {
					for _, d := range src.Statement.Dimensions {
						if ref, ok := d.Expr.(*influxql.VarRef); ok && ref.Val == name {
							typ = influxql.Tag
						}
					}
				}
			}
		}
		return typ, true
	}
}

// typedClone: a copy of e in which every reference Walk reaches carries the type `typ` gives it.
func typedClone(e influxql.Expr, typ func(string) (influxql.DataType, bool)) (influxql.Expr, bool) {
	out := influxql.CloneExpr(e)
	ok := true
	influxql.WalkFunc(out, func(n influxql.Node) {
		ref, isRef := n.(*influxql.VarRef)
		if !isRef || (ref.Type != influxql.Unknown && ref.Type != influxql.AnyField) {
			return
		}
		t, known := typ(ref.Val)
		if !known {
			ok = false
			return
		}
		if t == influxql.Tag && ref.Type == influxql.AnyField {
			return
		}
		ref.Type = t
	})
	return out, ok
}

// checkKept verifies the fields that are not expansions: same expression up to the types of
// references, and every reference that was untyped carries the type the schema gives it.
func (c *fCase) checkKept(m influxql.FieldMapper, orig, got *influxql.SelectStatement) string {
	for i := range orig.Sources {
		if so, ok := orig.Sources[i].(*influxql.SubQuery); ok {
			if d := c.checkKept(m, so.Statement, got.Sources[i].(*influxql.SubQuery).Statement); d != "" {
				return d
			}
		}
	}
	ls := c.levelSchemaOf(m, got.Sources)
	expectType := c.typer(m, got.Sources, ls)
	var checkExpr func(o, g influxql.Expr) string
	checkExpr = func(o, g influxql.Expr) string {
		switch o := o.(type) {
		case *influxql.VarRef:
			gr, ok := g.(*influxql.VarRef)
			if !ok || gr.Val != o.Val {
				return fmt.Sprintf("reference %s became %s", o, g)
			}
			if o.Type != influxql.Unknown && o.Type != influxql.AnyField {
				if gr.Type != o.Type {
					return fmt.Sprintf("typed reference %s became %s", o, g)
				}
				return ""
			}
			want, ok := expectType(o.Val)
			if !ok {
				return ""
			}
			if want == influxql.Tag && o.Type == influxql.AnyField {
				want = influxql.AnyField
			}
			if gr.Type != want {
				return fmt.Sprintf("reference %s: schema type %s, got %s", o, want, g)
			}
			return ""
		case *influxql.BinaryExpr:
			gb, ok := g.(*influxql.BinaryExpr)
			if !ok || gb.Op != o.Op {
				return fmt.Sprintf("%s became %s", o, g)
			}
			if d := checkExpr(o.LHS, gb.LHS); d != "" {
				return d
			}
			return checkExpr(o.RHS, gb.RHS)
		case *influxql.ParenExpr:
			gp, ok := g.(*influxql.ParenExpr)
			if !ok {
				return fmt.Sprintf("%s became %s", o, g)
			}
			return checkExpr(o.Expr, gp.Expr)
		case *influxql.Call:
			gc, ok := g.(*influxql.Call)
			if !ok || gc.Name != o.Name || len(gc.Args) != len(o.Args) {
				return fmt.Sprintf("%s became %s", o, g)
			}
			for i := range o.Args {
				if d := checkExpr(o.Args[i], gc.Args[i]); d != "" {
					return d
				}
			}
			return ""
		}
		if sexpExpr(o) != sexpExpr(g) {
			return fmt.Sprintf("%s became %s", o, g)
		}
		return ""
	}
	// walk the two field lists in lockstep using the expansion structure
	hasFieldWild := false
	for _, f := range orig.Fields {
		if w, r := containsWild(f.Expr); w || r {
			hasFieldWild = true
		}
	}
	isExpanded := func(f *influxql.Field) bool {
		switch e := f.Expr.(type) {
		case *influxql.Wildcard, *influxql.RegexLiteral:
			return true
		case *influxql.Call:
			call := e
			for len(call.Args) > 0 {
				if in, ok := call.Args[0].(*influxql.Call); ok {
					call = in
				} else {
					break
				}
			}
			if len(call.Args) > 0 && hasFieldWild {
				switch call.Args[0].(type) {
				case *influxql.Wildcard, *influxql.RegexLiteral:
					return true
				}
			}
		}
		return false
	}
	// kept fields appear in order; skip over expansions by matching from both ends is not
	// possible in general, so only check when the number of kept fields identifies them:
	// an expansion never produces a field with the same S-expression shape as a kept one is not
	// guaranteed either, so align by counting expansions from the front when there is at most
	// one expanded field, which is the common case; otherwise skip.
	nExp := 0
	for _, f := range orig.Fields {
		if isExpanded(f) {
			nExp++
		}
	}
	if nExp == 0 {
		if len(orig.Fields) != len(got.Fields) {
			return fmt.Sprintf("no wildcard field, yet %d fields became %d", len(orig.Fields), len(got.Fields))
		}
		for i := range orig.Fields {
			if orig.Fields[i].Alias != got.Fields[i].Alias {
				return "alias changed"
			}
			if d := checkExpr(orig.Fields[i].Expr, got.Fields[i].Expr); d != "" {
				return d
			}
		}
	} else if nExp == 1 {
		extra := len(got.Fields) - (len(orig.Fields) - 1)
		if extra < 0 {
			return "fields lost"
		}
		gi := 0
		for _, f := range orig.Fields {
			if isExpanded(f) {
				gi += extra
				continue
			}
			if f.Alias != got.Fields[gi].Alias {
				return "alias changed"
			}
			if d := checkExpr(f.Expr, got.Fields[gi].Expr); d != "" {
				return d
			}
			gi++
		}
	}
	if (orig.Condition == nil) != (got.Condition == nil) {
		return "condition appeared or vanished"
	}
	if orig.Condition != nil {
		if d := checkExpr(orig.Condition, got.Condition); d != "" {
			return "condition: " + d
		}
	}
	return ""
}

// expectError: must RewriteFields fail, by the structure of the statement and the schema?
func (c *fCase) expectError(orig *influxql.SelectStatement) bool {
	sm := &schemaMapper{sch: c.schema}
	for _, src := range orig.Sources {
		if sq, ok := src.(*influxql.SubQuery); ok && c.expectError(sq.Statement) {
			return true
		}
	}
	hasFieldWild, hasDimWild := false, false
	for _, f := range orig.Fields {
		if w, r := containsWild(f.Expr); w || r {
			hasFieldWild = true
		}
	}
	for _, d := range orig.Dimensions {
		switch d.Expr.(type) {
		case *influxql.Wildcard, *influxql.RegexLiteral:
			hasDimWild = true
		}
	}
	if !hasFieldWild && !hasDimWild {
		return false
	}
	for _, src := range orig.Sources {
		if ms, ok := src.(*influxql.Measurement); ok {
			if s := sm.find(ms.Name); s != nil && s.err {
				return true
			}
		}
	}
	if !hasFieldWild {
		return false
	}
	for _, f := range orig.Fields {
		switch e := f.Expr.(type) {
		case *influxql.BinaryExpr:
			if w, r := containsWild(e); w || r {
				return true
			}
		case *influxql.Call:
			call := e
			for len(call.Args) > 0 {
				if in, ok := call.Args[0].(*influxql.Call); ok {
					call = in
				} else {
					break
				}
			}
			if len(call.Args) > 0 {
				if w, ok := call.Args[0].(*influxql.Wildcard); ok && w.Type == influxql.TAG {
					return true
				}
			}
		}
	}
	return false
}

func propFieldsRewriteFull(args []string) (string, string) {
	c, err := decFCase(args)
	if err != nil {
		return "skip", ""
	}
	skip, sel, rw, rerr, text := runRewrite(c, false)
	if skip != "" {
		return "skip", ""
	}
	before := sel.String()
	first := canonRewrite(rw, rerr)
	// determinism: the Go maps are rebuilt and re-iterated in a fresh random order every run
	// (RewriteFields works on a clone; the same parsed statement is used again and must stay as it was)
	for i := 0; i < 5; i++ {
		rw2, rerr2 := sel.RewriteFields(c.mapper())
		if got := canonRewrite(rw2, rerr2); got != first {
			return fmt.Sprintf("%s: run %d differs: %s vs %s", text, i+2, first, got), ""
		}
		if sel.String() != before {
			return "the receiver was modified", ""
		}
	}
	// the same mapper object for several calls, handing out the same maps every time (round-3 seeded change
	// C12-1: a single-measurement fast path returned the mapper's maps and RewriteFields deleted from them):
	// every call gives the first result and the maps still hold the schema
	shm := &schemaMapper{sch: c.schema, shared: true}
	var shared influxql.FieldMapper = shm
	if c.ct {
		shared = schemaCallMapper{shm}
	}
	for i := 0; i < 3; i++ {
		rw2, rerr2 := sel.RewriteFields(shared)
		if got := canonRewrite(rw2, rerr2); got != first {
			return fmt.Sprintf("%s: call %d with one mapper object differs: %s vs %s", text, i+1, first, got), ""
		}
		if d := shm.intact(); d != "" {
			return fmt.Sprintf("%s: after call %d: %s", text, i+1, d), ""
		}
	}
	wantErr := c.expectError(sel)
	if wantErr != (rerr != nil) {
		return fmt.Sprintf("%s: error expected=%v, got %v", text, wantErr, rerr), ""
	}
	if rerr != nil {
		return "", ""
	}
	m := c.mapper()
	if d, k := c.checkLevel(m, sel, rw); d != "" {
		return text + ": " + d, k
	}
	if d := c.checkKept(m, sel, rw); d != "" {
		return text + ": " + d, ""
	}
	return "", ""
}

func propFieldsRewrite(args []string) string {
	d, _ := propFieldsRewriteFull(args)
	return d
}

func knownFieldsRewrite(args []string) string {
	_, k := propFieldsRewriteFull(args)
	return k
}

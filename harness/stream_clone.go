package main

import (
	"fmt"
	"math"
	"math/rand"
	"os"
	"reflect"
	"regexp"
	"sort"
	"strconv"
	"strings"
	"time"

	"github.com/influxdata/influxql"
)

// Stream for C14 (clones are faithful and independent; derived operations leave the receiver alone).
//
//	clone.history s:<SELECT text> <ops>
//
// <ops> is a comma separated history; every step is <side><op>[:<n>] with side `o` (applied to
// the original) or `c` (applied to the clone).  The property oracle parses the text, clones the
// statement and replays the history.  Before and after every step it takes a reflective deep
// snapshot of both sides (an address-free unfolding: values, nil-ness, shape; and an exact one
// with every address, i.e. the pointer-identity graph) and checks
//
//	faithful   right after every Clone the clone's address-free snapshot equals the original's
//	disjoint   original and clone share no mutable object (pointer target or slice backing array;
//	           allow-list: *regexp.Regexp, *time.Location, zero-size objects)
//	frame      a mutating step on one side leaves the other side's exact snapshot unchanged
//	readonly   a read-only step leaves both exact snapshots unchanged
//
// The stream is property-oracle-only: the Lean side is tied through the regenerated tables
// (Gen/Clone.lean, Gen/Stores.lean); there is no executable Lean twin of package reflect.

// ---- snapshots ----

type snapshot struct {
	canon string             // address-free unfolding: types, values, nil-ness, shape (a shared sub-tree is unfolded at every occurrence; a cycle is cut with a back-reference)
	exact string             // the same walk with real addresses (so aliasing and re-pointing show)
	mut   map[uintptr]string // mutable objects reached: pointer targets and slice element slots (up to cap)
	dag   bool               // some node is reached along two paths
}

var (
	regexpPtrType   = reflect.TypeOf((*regexp.Regexp)(nil))
	locationPtrType = reflect.TypeOf((*time.Location)(nil))
	timeType        = reflect.TypeOf(time.Time{})
)

type snapper struct {
	c, e   strings.Builder
	onPath map[uintptr]int // depth at which the pointer was entered on the current path
	depth  int
	mut    map[uintptr]string
	dag    bool
}

func takeSnapshot(v interface{}) snapshot {
	s := &snapper{onPath: map[uintptr]int{}, mut: map[uintptr]string{}}
	s.walk(reflect.ValueOf(v))
	return snapshot{s.c.String(), s.e.String(), s.mut, s.dag}
}

func (s *snapper) both(format string, a ...interface{}) {
	fmt.Fprintf(&s.c, format, a...)
	fmt.Fprintf(&s.e, format, a...)
}

func (s *snapper) walk(v reflect.Value) {
	switch v.Kind() {
	case reflect.Ptr:
		if v.IsNil() {
			s.both("nil")
			return
		}
		switch v.Type() {
		case regexpPtrType:
			s.both("re(%q)", v.Interface().(*regexp.Regexp).String())
			fmt.Fprintf(&s.e, "@%x", v.Pointer())
			return
		case locationPtrType:
			s.both("loc(%q)", v.Interface().(*time.Location).String())
			fmt.Fprintf(&s.e, "@%x", v.Pointer())
			return
		}
		addr := v.Pointer()
		zeroSize := v.Type().Elem().Size() == 0
		if zeroSize {
			s.both("&")
			s.walk(v.Elem())
			return
		}
		if d, ok := s.onPath[addr]; ok {
			s.both("^cycle%d", s.depth-d) // cycle-safe: cut at the second visit on one path
			return
		}
		if _, ok := s.mut[addr]; ok {
			s.dag = true
		}
		s.mut[addr] = v.Type().String()
		fmt.Fprintf(&s.e, "@%x", addr)
		s.both("&")
		s.onPath[addr] = s.depth
		s.depth++
		s.walk(v.Elem())
		s.depth--
		delete(s.onPath, addr)
	case reflect.Interface:
		if v.IsNil() {
			s.both("nil-iface")
			return
		}
		s.both("<%s>", v.Elem().Type())
		s.walk(v.Elem())
	case reflect.Struct:
		if v.Type() == timeType {
			t := v.Interface().(time.Time)
			s.both("time(%d,%q)", t.UnixNano(), t.Location().String())
			return
		}
		s.both("%s{", v.Type().Name())
		for i := 0; i < v.NumField(); i++ {
			s.both("%s:", v.Type().Field(i).Name)
			s.walk(v.Field(i))
			s.both(";")
		}
		s.both("}")
	case reflect.Slice:
		// nil and empty slices are identified (see notes/C14.md)
		s.both("[%d:", v.Len())
		if v.Cap() > 0 {
			fmt.Fprintf(&s.e, "@%x/%d", v.Pointer(), v.Cap())
			full := v.Slice(0, v.Cap())
			for i := 0; i < full.Len(); i++ {
				if full.Index(i).Type().Size() > 0 {
					s.mut[full.Index(i).Addr().Pointer()] = "slot of " + v.Type().String()
				}
			}
		}
		for i := 0; i < v.Len(); i++ {
			s.walk(v.Index(i))
			s.both(",")
		}
		s.both("]")
	case reflect.String:
		s.both("%q", v.String())
	case reflect.Bool:
		s.both("%v", v.Bool())
	case reflect.Int, reflect.Int8, reflect.Int16, reflect.Int32, reflect.Int64:
		s.both("%d", v.Int())
	case reflect.Uint, reflect.Uint8, reflect.Uint16, reflect.Uint32, reflect.Uint64:
		s.both("%du", v.Uint())
	case reflect.Float32, reflect.Float64:
		s.both("f%x", math.Float64bits(v.Float()))
	default:
		panic("snapshot: unexpected kind " + v.Kind().String() + " of " + v.Type().String())
	}
}

func sharedMutable(a, b snapshot) string {
	var hits []string
	for addr, ty := range a.mut {
		if ty2, ok := b.mut[addr]; ok {
			hits = append(hits, ty+"/"+ty2)
		}
	}
	sort.Strings(hits)
	if len(hits) == 0 {
		return ""
	}
	return strings.Join(hits, " ")
}

// ---- SELECT text generator ----

func cloneRandFieldText(r *rand.Rand, depth int) string {
	var f string
	switch r.Intn(16) {
	case 0, 1, 2:
		f = pick(r, []string{"v", "a", "value", `"a b"`, "host", "v::float", "a::integer", "s::string", "host::tag"})
	case 3:
		f = pick(r, []string{"*", "*::field", "*::tag", "/^v/", "/a|b/"})
	case 4, 5:
		f = pick(r, []string{"mean", "max", "min", "count", "sum", "first", "last", "median"}) + "(" + pick(r, []string{"v", "a", "*", "/v/", "value", "v::float"}) + ")"
	case 6:
		f = pick(r, []string{"top(v, 3)", "top(v, host, 3)", "bottom(a, host, region, 2)", "percentile(v, 90)", "derivative(mean(v), 1s)", "moving_average(max(v), 3)", "sample(v, 2)", "holt_winters(mean(v), 2, 1)", "count(distinct(v))", "distinct(v)", "mean(*)", "elapsed(v, 1s)"})
	case 7:
		f = pick(r, []string{"DISTINCT v", "DISTINCT a", `DISTINCT "a b"`})
	case 8:
		f = pick(r, []string{"time", "time AS t", `"time"`})
	case 9, 10:
		f = randExprText(r, depth+2, r.Intn(3))
	case 11:
		f = pick(r, []string{"v + a", "v * 2", "(v + 1) / a", "mean(v) + max(a)", "-v", "v + 1.5", "a % 3", "v::float + a::integer", "1 + 2", "'lit'", "true", "10s", "now()"})
	default:
		f = pick(r, []string{"v", "a", "value", "host", "u", "b", "s"})
	}
	if r.Intn(4) == 0 {
		f += " AS " + pick(r, []string{"x", "y", `"my alias"`, "v", "time"})
	}
	return f
}

func cloneRandCondText(r *rand.Rand, depth int) string {
	n := 1 + r.Intn(4)
	parts := make([]string, n)
	for i := range parts {
		switch r.Intn(14) {
		case 0, 1:
			parts[i] = pick(r, []string{"host", "region", `"a b"`}) + pick(r, []string{" =~ ", " !~ "}) + pick(r, []string{"/^a$/", "/^(a|b|c)$/", "/^$/", "/a.*/", "/^foo/", "/x y/", "/^(?i)a$/", "/^a\\/b$/", "/[ab]/"})
		case 2, 3:
			parts[i] = "time " + pick(r, []string{">", ">=", "<", "<=", "="}) + " " + pick(r, []string{"now() - 1h", "'2000-01-01T00:00:00Z'", "'2000-01-01'", "1000000000", "10s", "now()", "'2000-01-01 00:00:00'"})
		case 4:
			parts[i] = pick(r, []string{"'2000-01-01T00:00:00Z' <= time", "now() - 5m < time"})
		case 5, 6:
			parts[i] = pick(r, []string{"v", "a", "value", "host"}) + pick(r, []string{" = ", " != ", " > ", " < ", " >= ", " <= ", " <> "}) + pick(r, []string{"1", "1.5", "'x'", "true", "-3", "a", "10s", "2 + 3", "v * 2"})
		case 7:
			parts[i] = "(" + cloneRandCondText(r, depth+1) + ")"
		case 8:
			parts[i] = randExprText(r, depth+2, r.Intn(3))
		case 9:
			parts[i] = pick(r, []string{"f(v) > 1", "abs(v) < 3", "v > abs(a)", "now() > time", "verif_list = 'host,region,dc'", "verif_list = 'a'", "verif_list = 'x,y'"})
		default:
			parts[i] = pick(r, []string{"v", "a", "host"}) + " = " + pick(r, []string{"1", "'a'", "2.5"})
		}
	}
	var b strings.Builder
	for i, p := range parts {
		if i > 0 {
			b.WriteString(pick(r, []string{" AND ", " OR ", " and ", " AND "}))
		}
		b.WriteString(p)
	}
	return b.String()
}

func randMeasurementText(r *rand.Rand) string {
	return pick(r, []string{"m", "cpu", `"my m"`, "db..m", `"db"."rp".m`, "rp.m", "/^cpu/", "/m.*/", "db../re/", `"db"."rp"./x\/y/`, "m1"})
}

func randSelectText(r *rand.Rand, depth int) string {
	var b strings.Builder
	b.WriteString(randCase(r, "SELECT") + " ")
	nf := 1 + r.Intn(3)
	for i := 0; i < nf; i++ {
		if i > 0 {
			b.WriteString(", ")
		}
		b.WriteString(cloneRandFieldText(r, depth))
	}
	if depth == 0 && r.Intn(4) == 0 {
		b.WriteString(" INTO " + pick(r, []string{"tgt", `"db"."rp".tgt`, "db..tgt", `"a b"`, "db.rp.:MEASUREMENT", ":MEASUREMENT", "rp.tgt"}))
	}
	b.WriteString(" FROM ")
	ns := 1
	if r.Intn(4) == 0 {
		ns = 2 + r.Intn(2)
	}
	for i := 0; i < ns; i++ {
		if i > 0 {
			b.WriteString(", ")
		}
		if depth < 2 && r.Intn(5) == 0 {
			b.WriteString("(" + randSelectText(r, depth+1) + ")")
		} else {
			b.WriteString(randMeasurementText(r))
		}
	}
	if r.Intn(3) != 0 {
		b.WriteString(" WHERE " + cloneRandCondText(r, depth))
	}
	if r.Intn(2) == 0 {
		nd := 1 + r.Intn(3)
		b.WriteString(" GROUP BY ")
		for i := 0; i < nd; i++ {
			if i > 0 {
				b.WriteString(", ")
			}
			b.WriteString(pick(r, []string{"time(10s)", "time(1m, 5s)", "time(1h, now())", "host", "region", "*", "/^h/", `"a b"`, "time(5m)", "host::tag"}))
		}
	}
	if r.Intn(3) == 0 {
		b.WriteString(" " + pick(r, []string{"fill(none)", "fill(null)", "fill(previous)", "fill(linear)", "fill(0)", "fill(3)", "fill(1.5)", "fill(-2)", "FILL(100.0)"}))
	}
	if r.Intn(4) == 0 {
		b.WriteString(" ORDER BY " + pick(r, []string{"time", "time ASC", "time DESC", "v DESC", "time DESC, host"}))
	}
	if r.Intn(4) == 0 {
		b.WriteString(" LIMIT " + strconv.Itoa(1+r.Intn(20)))
	}
	if r.Intn(6) == 0 {
		b.WriteString(" OFFSET " + strconv.Itoa(r.Intn(5)))
	}
	if r.Intn(6) == 0 {
		b.WriteString(" SLIMIT " + strconv.Itoa(1+r.Intn(5)))
	}
	if r.Intn(8) == 0 {
		b.WriteString(" SOFFSET " + strconv.Itoa(r.Intn(5)))
	}
	if r.Intn(6) == 0 {
		b.WriteString(" TZ('" + pick(r, []string{"UTC", "America/New_York", "Europe/Berlin", "Asia/Tokyo", "Nowhere/Land"}) + "')")
	}
	return b.String()
}

// ---- operations ----

var cloneMutators = []string{"regex", "distinct", "timefields", "timerange", "alias", "fexpr", "fdrop", "fadd", "fswap",
	"dimadd", "dimexpr", "dimdrop", "condnil", "condwrap", "condand", "node", "node", "node", "node", "srcadd", "srcdrop", "srcregex",
	"sortadd", "sortflip", "limit", "fill", "loc", "targetset", "targetnil", "targetdb", "rewriteexpr", "rewritefunc", "rewrite", "gbi", "flags"}

var cloneReaders = []string{"string", "columns", "privs", "reduce", "reducenow", "reduceexpr", "rewritefields", "clone", "reclone",
	"walk", "eval", "condexpr", "names", "haswild", "normalize", "measurements", "evaltype"}

var cloneIsReader = func() map[string]bool {
	m := map[string]bool{}
	for _, o := range cloneReaders {
		m[o] = true
	}
	return m
}()

type stubMapper struct{}

func (stubMapper) FieldDimensions(m *influxql.Measurement) (map[string]influxql.DataType, map[string]struct{}, error) {
	return map[string]influxql.DataType{"v": influxql.Float, "a": influxql.Integer, "s": influxql.String, "b": influxql.Boolean, "u": influxql.Unsigned, "value": influxql.Float},
		map[string]struct{}{"host": {}, "region": {}}, nil
}

func (stubMapper) MapType(m *influxql.Measurement, field string) influxql.DataType {
	switch field {
	case "v", "value":
		return influxql.Float
	case "a":
		return influxql.Integer
	case "s":
		return influxql.String
	case "b":
		return influxql.Boolean
	case "u":
		return influxql.Unsigned
	case "host", "region":
		return influxql.Tag
	}
	return influxql.Unknown
}

var cloneEpoch = time.Date(2020, 2, 3, 4, 5, 6, 7, time.UTC)

type mapAndNow struct {
	influxql.MapValuer
	now influxql.NowValuer
}

func (m mapAndNow) Call(name string, args []interface{}) (interface{}, bool) {
	return m.now.Call(name, args)
}
func (m mapAndNow) Zone() *time.Location { return time.UTC }

func cloneValuer() influxql.Valuer {
	return mapAndNow{influxql.MapValuer{"v": 2.5, "a": int64(3), "host": "a", "u": uint64(7), "b": true, "d": 5 * time.Second, "n": nil},
		influxql.NowValuer{Now: cloneEpoch}}
}

// nodesOf lists the non-nil pointer nodes of a statement in Walk order.
func nodesOf(s *influxql.SelectStatement) []influxql.Node {
	var out []influxql.Node
	influxql.WalkFunc(s, func(n influxql.Node) {
		v := reflect.ValueOf(n)
		if v.Kind() == reflect.Ptr && !v.IsNil() {
			out = append(out, n)
		}
	})
	return out
}

func mutateNode(n influxql.Node, k int) {
	switch n := n.(type) {
	case *influxql.VarRef:
		if k%2 == 0 {
			n.Val += "_m"
		} else {
			n.Type = influxql.Float
		}
	case *influxql.BinaryExpr:
		switch k % 3 {
		case 0:
			n.LHS, n.RHS = n.RHS, n.LHS
		case 1:
			n.Op = influxql.ADD
		default:
			n.RHS = &influxql.IntegerLiteral{Val: 7}
		}
	case *influxql.Call:
		switch {
		case k%3 == 0:
			n.Name = "f2"
		case k%3 == 1 && len(n.Args) > 0:
			n.Args[0] = &influxql.IntegerLiteral{Val: 7}
		default:
			n.Args = append(n.Args, &influxql.StringLiteral{Val: "extra"})
		}
	case *influxql.ParenExpr:
		n.Expr = &influxql.BooleanLiteral{Val: true}
	case *influxql.StringLiteral:
		n.Val += "x"
	case *influxql.IntegerLiteral:
		n.Val++
	case *influxql.UnsignedLiteral:
		n.Val++
	case *influxql.NumberLiteral:
		n.Val += 1
	case *influxql.DurationLiteral:
		n.Val *= 2
	case *influxql.BooleanLiteral:
		n.Val = !n.Val
	case *influxql.TimeLiteral:
		n.Val = n.Val.Add(time.Hour)
	case *influxql.RegexLiteral:
		n.Val = regexp.MustCompile("changed")
	case *influxql.Distinct:
		n.Val = "dd"
	case *influxql.Wildcard:
		n.Type = influxql.TAG
	case *influxql.ListLiteral:
		n.Vals = append(n.Vals, "more")
	case *influxql.BoundParameter:
		n.Name += "_m"
	case *influxql.Measurement:
		switch k % 5 {
		case 0:
			n.Name += "_m"
		case 1:
			n.Database = "d2"
		case 2:
			n.Regex = &influxql.RegexLiteral{Val: regexp.MustCompile("^new$")}
		case 3:
			n.IsTarget = !n.IsTarget
		default:
			n.RetentionPolicy, n.SystemIterator = "rp2", "_it"
		}
	case *influxql.SubQuery:
		n.Statement.Limit++
		n.Statement.Fields = append(n.Statement.Fields, &influxql.Field{Expr: &influxql.VarRef{Val: "subadded"}})
	case *influxql.Field:
		if k%2 == 0 {
			n.Alias = "na"
		} else {
			n.Expr = &influxql.VarRef{Val: "nf"}
		}
	case *influxql.Dimension:
		n.Expr = &influxql.VarRef{Val: "nd"}
	case *influxql.SortField:
		n.Ascending = !n.Ascending
		n.Name = "sn"
	case *influxql.Target:
		n.Measurement = &influxql.Measurement{Name: "t2", IsTarget: true}
	case *influxql.SelectStatement:
		n.Limit += 3
		n.OmitTime = !n.OmitTime
		n.EmitName = "en"
	}
}

// applyCloneOp applies one step to x. It returns a replacement for the other side (reclone) or nil.
func applyCloneOp(x *influxql.SelectStatement, op string, k int) (other *influxql.SelectStatement, failure string) {
	pickIdx := func(n int) int {
		if n == 0 {
			return -1
		}
		return k % n
	}
	switch op {
	// ---- mutators ----
	case "regex":
		x.RewriteRegexConditions()
	case "distinct":
		x.RewriteDistinct()
	case "timefields":
		x.RewriteTimeFields()
	case "timerange":
		start := cloneEpoch.Add(time.Duration(k) * time.Hour)
		_ = x.SetTimeRange(start, start.Add(time.Duration(1+k%5)*time.Minute))
	case "alias":
		if i := pickIdx(len(x.Fields)); i >= 0 {
			x.Fields[i].Alias = "zz"
		}
	case "fexpr":
		if i := pickIdx(len(x.Fields)); i >= 0 {
			x.Fields[i].Expr = &influxql.VarRef{Val: "nv"}
		}
	case "fdrop":
		if len(x.Fields) > 1 {
			x.Fields = x.Fields[:len(x.Fields)-1]
		}
	case "fadd":
		x.Fields = append(x.Fields, &influxql.Field{Expr: &influxql.VarRef{Val: "added"}, Alias: "ad"})
	case "fswap":
		if len(x.Fields) > 1 {
			x.Fields[0], x.Fields[1] = x.Fields[1], x.Fields[0]
		}
	case "dimadd":
		x.Dimensions = append(x.Dimensions, &influxql.Dimension{Expr: &influxql.VarRef{Val: "dimadded"}})
	case "dimexpr":
		if i := pickIdx(len(x.Dimensions)); i >= 0 {
			x.Dimensions[i].Expr = &influxql.Call{Name: "time", Args: []influxql.Expr{&influxql.DurationLiteral{Val: time.Duration(1+k) * time.Second}}}
		}
	case "dimdrop":
		if len(x.Dimensions) > 0 {
			x.Dimensions = x.Dimensions[1:]
		}
	case "condnil":
		x.Condition = nil
	case "condwrap":
		if x.Condition != nil {
			x.Condition = &influxql.ParenExpr{Expr: x.Condition}
		}
	case "condand":
		x.Condition = &influxql.BinaryExpr{Op: influxql.AND, LHS: x.Condition, RHS: &influxql.BinaryExpr{Op: influxql.EQREGEX, LHS: &influxql.VarRef{Val: "host"}, RHS: &influxql.RegexLiteral{Val: regexp.MustCompile("^(p|q)$")}}}
		if x.Condition.(*influxql.BinaryExpr).LHS == nil {
			x.Condition = x.Condition.(*influxql.BinaryExpr).RHS
		}
	case "node":
		ns := nodesOf(x)
		if i := pickIdx(len(ns)); i >= 0 {
			mutateNode(ns[i], k/7)
		}
	case "srcadd":
		x.Sources = append(x.Sources, &influxql.Measurement{Name: "extra"})
	case "srcdrop":
		if len(x.Sources) > 1 {
			x.Sources = x.Sources[:len(x.Sources)-1]
		}
	case "srcregex":
		if i := pickIdx(len(x.Sources)); i >= 0 {
			if m, ok := x.Sources[i].(*influxql.Measurement); ok {
				m.Name, m.Regex = "", &influxql.RegexLiteral{Val: regexp.MustCompile("src.*")}
			}
		}
	case "emptyregex":
		// Not in the generated mix: builds the degenerate node behind the `needs` guard of Measurement.Clone
		// (a RegexLiteral without a compiled value, which the parser never produces). See notes/C14.md.
		if i := pickIdx(len(x.Sources)); i >= 0 {
			if m, ok := x.Sources[i].(*influxql.Measurement); ok {
				m.Regex = &influxql.RegexLiteral{}
			}
		}
	case "sortadd":
		x.SortFields = append(x.SortFields, &influxql.SortField{Name: "time", Ascending: k%2 == 0})
	case "sortflip":
		if i := pickIdx(len(x.SortFields)); i >= 0 {
			x.SortFields[i].Ascending = !x.SortFields[i].Ascending
		}
	case "limit":
		x.Limit, x.Offset, x.SLimit, x.SOffset = x.Limit+1, x.Offset+2, x.SLimit+3, x.SOffset+4
	case "fill":
		x.Fill, x.FillValue = influxql.NumberFill, float64(k)+0.5
	case "loc":
		x.Location = time.FixedZone("Fixed", 3600*(k%5))
	case "targetset":
		x.Target = &influxql.Target{Measurement: &influxql.Measurement{Name: "newtarget", IsTarget: true}}
	case "targetnil":
		x.Target = nil
	case "targetdb":
		if x.Target != nil && x.Target.Measurement != nil {
			x.Target.Measurement.Database = "tdb"
			x.Target.Measurement.Regex = &influxql.RegexLiteral{Val: regexp.MustCompile("t")}
		}
	case "rewriteexpr":
		x.Condition = influxql.RewriteExpr(x.Condition, func(e influxql.Expr) influxql.Expr {
			switch e := e.(type) {
			case *influxql.VarRef:
				e.Val += "_r"
			case *influxql.IntegerLiteral:
				return &influxql.NumberLiteral{Val: float64(e.Val)}
			}
			return e
		})
	case "rewritefunc":
		influxql.RewriteFunc(x, func(n influxql.Node) influxql.Node {
			switch n := n.(type) {
			case *influxql.VarRef:
				n.Val += "_f"
			case *influxql.StringLiteral:
				return &influxql.StringLiteral{Val: n.Val + "!"}
			}
			return n
		})
	case "rewrite":
		influxql.RewriteFunc(x.Fields, func(n influxql.Node) influxql.Node {
			if c, ok := n.(*influxql.Call); ok {
				c.Name += "2"
			}
			return n
		})
	case "gbi":
		_, _ = x.GroupByInterval()
		_, _ = x.GroupByOffset()
	case "flags":
		x.IsRawQuery, x.Dedupe, x.StripName, x.TimeAlias = !x.IsRawQuery, !x.Dedupe, !x.StripName, "ta"
	// ---- readers ----
	case "string":
		_ = x.String()
	case "columns":
		_ = x.ColumnNames()
	case "privs":
		_, _ = x.RequiredPrivileges()
	case "reduce", "reducenow":
		// the reduced statement is a statement of its own: it shares no mutable node with its receiver, so
		// that rewriting it in place later cannot reach the receiver (round-3 seeded change C14-2 built it
		// from a shallow copy that kept the receiver's field list, sort fields and target)
		var d *influxql.SelectStatement
		if op == "reduce" {
			d = x.Reduce(cloneValuer())
		} else {
			d = x.Reduce(&influxql.NowValuer{Now: cloneEpoch})
		}
		if d != nil {
			if sh := sharedMutable(takeSnapshot(x), takeSnapshot(d)); sh != "" {
				return nil, "the statement returned by Reduce shares mutable objects with its receiver: " + sh
			}
		}
	case "reduceexpr":
		_ = influxql.Reduce(x.Condition, cloneValuer())
		for _, f := range x.Fields {
			_ = influxql.Reduce(f.Expr, nil)
		}
	case "rewritefields":
		if d, err := x.RewriteFields(stubMapper{}); err == nil && d != nil {
			if sh := sharedMutable(takeSnapshot(x), takeSnapshot(d)); sh != "" {
				return nil, "the statement returned by RewriteFields shares mutable objects with its receiver: " + sh
			}
		}
	case "clone", "reclone":
		before := takeSnapshot(x)
		c := x.Clone()
		after, cs := takeSnapshot(x), takeSnapshot(c)
		if after.exact != before.exact {
			return nil, "Clone changed its receiver"
		}
		if cs.canon != after.canon {
			return nil, "clone is not structurally identical to its original: " + firstDiff(after.canon, cs.canon)
		}
		if sh := sharedMutable(after, cs); sh != "" {
			return nil, "clone shares mutable objects with its original: " + sh
		}
		if op == "reclone" {
			return c, ""
		}
	case "walk":
		n := 0
		influxql.WalkFunc(x, func(influxql.Node) { n++ })
		influxql.Walk(countVisitor{}, x)
	case "eval":
		m := map[string]interface{}{"v": 2.5, "a": int64(3), "host": "a", "value": 1.0}
		_ = influxql.Eval(x.Condition, m)
		_ = influxql.EvalBool(x.Condition, m)
		for _, f := range x.Fields {
			_ = influxql.Eval(f.Expr, m)
		}
	case "condexpr":
		_, _, _ = influxql.ConditionExpr(x.Condition, cloneValuer())
		_ = influxql.HasTimeExpr(x.Condition)
	case "names":
		_, _ = x.Fields.Names(), x.Fields.AliasNames()
		_ = influxql.ExprNames(x.Condition)
		for _, f := range x.Fields {
			_ = f.Name()
			if be, ok := f.Expr.(*influxql.BinaryExpr); ok {
				_ = influxql.BinaryExprName(be)
			}
		}
		_, _ = x.FieldExprByName("v")
	case "haswild":
		_, _, _ = x.HasWildcard(), x.HasFieldWildcard(), x.HasDimensionWildcard()
		_ = influxql.ContainsVarRef(x.Condition)
		for _, f := range x.Fields {
			_ = influxql.IsSelector(f.Expr)
		}
	case "normalize":
		_, _ = x.Dimensions.Normalize()
		_, _ = x.TimeAscending(), x.TimeFieldName()
	case "measurements":
		_ = x.Sources.Measurements()
		_ = x.Sources.String()
	case "evaltype":
		for _, f := range x.Fields {
			_ = influxql.EvalType(f.Expr, x.Sources, stubMapper{})
		}
		_, _, _ = influxql.FieldDimensions(x.Sources, stubMapper{})
	default:
		return nil, "unknown op " + op
	}
	return nil, ""
}

type countVisitor struct{}

func (v countVisitor) Visit(influxql.Node) influxql.Visitor { return v }

func firstDiff(a, b string) string {
	if a == b {
		return "same structure and values, different objects"
	}
	i := 0
	for i < len(a) && i < len(b) && a[i] == b[i] {
		i++
	}
	lo := i - 30
	if lo < 0 {
		lo = 0
	}
	cut := func(s string) string {
		hi := i + 40
		if hi > len(s) {
			hi = len(s)
		}
		if lo > len(s) {
			return ""
		}
		return s[lo:hi]
	}
	return fmt.Sprintf("original …%s… clone …%s…", cut(a), cut(b))
}

type cloneStep struct {
	side byte
	op   string
	k    int
}

func parseCloneOps(a string) ([]cloneStep, error) {
	var out []cloneStep
	if a == "-" || a == "" {
		return nil, nil
	}
	for _, w := range strings.Split(a, ",") {
		if len(w) < 2 || (w[0] != 'o' && w[0] != 'c') {
			return nil, fmt.Errorf("bad step %q", w)
		}
		st := cloneStep{side: w[0], op: w[1:]}
		if i := strings.IndexByte(st.op, ':'); i >= 0 {
			k, err := strconv.Atoi(st.op[i+1:])
			if err != nil {
				return nil, err
			}
			st.op, st.k = st.op[:i], k
		}
		out = append(out, st)
	}
	return out, nil
}

var cloneMemo struct {
	key                   string
	verdict, class, final string
}

// runCloneHistory replays a case (memoising the last one: impl, class and nontrivial ask for the same case in turn).
func runCloneHistory(args []string) (verdict, class, final string) {
	key := strings.Join(args, " ")
	if cloneMemo.key == key && key != "" {
		return cloneMemo.verdict, cloneMemo.class, cloneMemo.final
	}
	verdict, class, final = runCloneHistory1(args)
	cloneMemo.key, cloneMemo.verdict, cloneMemo.class, cloneMemo.final = key, verdict, class, final
	return
}

// runCloneHistory1 returns the verdict ("" = all checks hold), a class label and the final texts.
// injectLists: the parser builds a ListLiteral only in SHOW TAG VALUES ... WITH KEY IN (...); callers that
// turn such a statement into a SELECT over the tag keys put it into a condition. The generator writes
// `verif_list = 'a,b,c'` where a list is wanted and this replaces it by `_tagKey IN (a, b, c)` at every
// depth (round-7 seeded change C14-1: CloneExpr copied the ListLiteral struct and with it the backing
// array of its values).
func injectLists(s *influxql.SelectStatement) (found bool) {
	s.Condition = influxql.RewriteExpr(s.Condition, func(e influxql.Expr) influxql.Expr {
		if b, ok := e.(*influxql.BinaryExpr); ok && b.Op == influxql.EQ {
			l, ok1 := b.LHS.(*influxql.VarRef)
			v, ok2 := b.RHS.(*influxql.StringLiteral)
			if ok1 && ok2 && l.Val == "verif_list" {
				found = true
				return &influxql.BinaryExpr{Op: influxql.IN, LHS: &influxql.VarRef{Val: "_tagKey"}, RHS: &influxql.ListLiteral{Vals: strings.Split(v.Val, ",")}}
			}
		}
		return e
	})
	for _, src := range s.Sources {
		if sq, ok := src.(*influxql.SubQuery); ok && sq.Statement != nil && injectLists(sq.Statement) {
			found = true
		}
	}
	return found
}

func runCloneHistory1(args []string) (verdict, class, final string) {
	if len(args) != 2 {
		return "skip", "bad-case", ""
	}
	text, err := decStr(args[0])
	if err != nil {
		return "skip", "bad-case", ""
	}
	steps, err := parseCloneOps(args[1])
	if err != nil {
		return "skip", "bad-case", ""
	}
	stmt, err := influxql.ParseStatement(text)
	if err != nil {
		return "skip", "parse-error", ""
	}
	orig, ok := stmt.(*influxql.SelectStatement)
	if !ok {
		return "skip", "not-select", ""
	}
	class = "select"
	if injectLists(orig) {
		class += "+list"
	}
	if orig.Target != nil {
		class += "+into"
	}
	for _, s := range orig.Sources {
		if _, ok := s.(*influxql.SubQuery); ok {
			class += "+sub"
			break
		}
	}
	s0 := takeSnapshot(orig)
	clone := orig.Clone()
	so, sc := takeSnapshot(orig), takeSnapshot(clone)
	switch {
	case so.exact != s0.exact:
		return "Clone changed its receiver", class, ""
	case sc.canon != so.canon:
		return "clone is not structurally identical to its original: " + firstDiff(so.canon, sc.canon), class, ""
	}
	if sh := sharedMutable(so, sc); sh != "" {
		return "clone shares mutable objects with its original: " + sh, class, ""
	}
	panics, dag := 0, false
	for i, st := range steps {
		x, y := orig, clone
		if st.side == 'c' {
			x, y = clone, orig
		}
		bx, by := takeSnapshot(x), takeSnapshot(y)
		var repl *influxql.SelectStatement
		var failure string
		func() {
			defer func() {
				if r := recover(); r != nil {
					panics++ // a panic is C13's business; the frame checks below still apply
					if os.Getenv("VERIF_PANIC_TRACE") != "" {
						fmt.Fprintf(os.Stderr, "panic in clone.history %q step %d (%c%s:%d): %v\n", text, i, st.side, st.op, st.k, r)
					}
				}
			}()
			repl, failure = applyCloneOp(x, st.op, st.k)
		}()
		where := fmt.Sprintf("step %d (%c%s:%d): ", i, st.side, st.op, st.k)
		if failure != "" {
			return where + failure, class, ""
		}
		ax, ay := takeSnapshot(x), takeSnapshot(y)
		dag = dag || ax.dag
		if ay.exact != by.exact {
			return where + "the other side changed: " + firstDiff(by.canon, ay.canon), class, ""
		}
		if cloneIsReader[st.op] && ax.exact != bx.exact {
			return where + "a read-only operation changed its receiver: " + firstDiff(bx.canon, ax.canon), class, ""
		}
		if sh := sharedMutable(ax, ay); sh != "" {
			return where + "the two sides share mutable objects: " + sh, class, ""
		}
		if repl != nil {
			if st.side == 'c' {
				orig = repl
			} else {
				clone = repl
			}
		}
	}
	if dag {
		class += "+dag"
	}
	if panics > 0 {
		class += "+panic"
	}
	final = func() (s string) {
		defer func() {
			if r := recover(); r != nil {
				s = "panic"
			}
		}()
		return encStr(orig.String()) + " " + encStr(clone.String())
	}()
	return "", class, final
}

func genCloneHistory(r *rand.Rand, n int, emit func(args ...string)) {
	corner := []struct{ text, ops string }{
		{"SELECT a INTO x FROM m", "-"},
		{"SELECT a INTO x FROM m", "cnode:3,onode:3,cstring,oclone"},
		{`SELECT a INTO "db"."rp".x FROM m`, "ctargetdb,otargetnil,creclone"},
		{"SELECT v FROM /cpu.*/ WHERE host =~ /^a$/", "cregex,ostring,oregex,cnode:4"},
		{"SELECT v FROM /cpu.*/ WHERE host =~ /^(a|b)$/ AND time > now() - 1h", "oregex,ctimerange:2,otimerange:5,creduce"},
		{"SELECT mean(v) FROM (SELECT v FROM m WHERE v > 1) GROUP BY time(10s), host fill(3.5) ORDER BY time DESC LIMIT 3 OFFSET 1 SLIMIT 2 SOFFSET 1 TZ('America/New_York')", "crewritefields,onode:9,cnode:12,oreduce,ogbi,cstring"},
		{"SELECT DISTINCT v FROM m", "odistinct,cstring,cdistinct"},
		{"SELECT count(distinct(v)) FROM m", "cdistinct,ocolumns"},
		{"SELECT time AS t, v FROM m", "otimefields,cfswap,ctimefields"},
		{"SELECT * FROM m GROUP BY *", "orewritefields,crewritefields,ohaswild"},
		{"SELECT mean(*), /v/ FROM m, /x/ GROUP BY /h/", "orewritefields,cnode:2,onames"},
		{"SELECT top(v, host, 3) FROM m", "ocolumns,cnode:3,ccolumns"},
		{"SELECT v FROM m WHERE time >= '2000-01-01T00:00:00Z' AND time < '2000-01-02T00:00:00Z'", "ocondexpr,ctimerange:1,ocondexpr"},
		{"SELECT v FROM m", "cfadd,cfadd,ofadd,cfdrop,ofswap,cdimadd,odimadd,csortadd,osortflip,climit,ofill,cloc,oflags"},
		{"SELECT v + a * 2 FROM m WHERE (v > 1 OR a < 2) AND host = 'x'", "crewriteexpr,orewritefunc,crewrite,oeval,creduceexpr"},
	}
	for _, c := range corner {
		emit(encStr(c.text), c.ops)
	}
	// Everything the constant folder and the time-range splitter fold, under every read-only operation
	// applied twice to the original and once to the clone: an operation that accumulates into a node of
	// its receiver (round-3 seeded changes C09-2 / C14-1: duration sums folded into the left literal)
	// shows at the second application at the latest.
	foldable := []string{
		"time > now() - (1h + 5m) AND host = 'a'", "time > now() - 10m + 1h", "v > 10m + 1h", "v > 1h - 5m - 3s", "(10s + 1ms500µ) < d",
		"v > 2 * 3 + 1", "v > 2.5 * 2", "v > 10 / 4", "v > 7 % 4", "v = 6 & 3 | 8", "s = 'a' + 'b'", "b = (true AND false OR true)",
		"time >= '2000-01-01T00:00:00Z' + 1h AND time < '2000-01-02T00:00:00Z' - 5m", "time > 1000000000 + 5s", "v > 10s / 2 AND w < 3s * 4",
		"time > now() - 1h / 2", "'2000-01-01T00:00:00Z' - '1999-12-31T00:00:00Z' > 1h", "v > -(1h + 5m)", "v > (1 + 2) * (3 + 4)", "18446744073709551615 - 1 > u",
	}
	for _, cond := range foldable {
		for _, rd := range cloneReaders {
			emit(encStr("SELECT mean(v) FROM m WHERE "+cond+" GROUP BY time(1m + 30s)"), "o"+rd+":1,o"+rd+":1,c"+rd+":1,ostring,cstring")
		}
	}
	for i := 0; i < n; i++ {
		text := randSelectText(r, 0)
		k := r.Intn(13)
		steps := make([]string, k)
		for j := range steps {
			side := "o"
			if r.Intn(2) == 0 {
				side = "c"
			}
			var op string
			if r.Intn(5) < 3 {
				op = pick(r, cloneMutators)
			} else {
				op = pick(r, cloneReaders)
			}
			steps[j] = side + op + ":" + strconv.Itoa(r.Intn(40))
		}
		ops := "-"
		if k > 0 {
			ops = strings.Join(steps, ",")
		}
		emit(encStr(text), ops)
	}
}

func init() {
	register(&stream{
		name: "clone.history",
		gen:  genCloneHistory,
		impl: func(args []string) string {
			v, _, final := runCloneHistory(args)
			if v != "" {
				if v == "skip" {
					return "skip"
				}
				return "violation"
			}
			return "ok " + final
		},
		prop: func(args []string) string {
			v, _, _ := runCloneHistory(args)
			return v
		},
		class: func(args []string, out string) string {
			_, c, _ := runCloneHistory(args)
			return c
		},
		nontrivial: func(args []string, out string) bool { return strings.HasPrefix(out, "ok ") },
		known: func(args []string) string {
			if len(args) == 2 && strings.Contains(args[1], "emptyregex") {
				return "C14-measurement-clone-drops-empty-regex-literal"
			}
			return ""
		},
	})
}

package main

import (
	"math/rand"
	"strconv"
	"strings"

	"github.com/influxdata/influxql"
)

// Streams that let the model run END TO END FROM THE STATEMENT TEXT: the case line carries the text (and the
// lower-case table of its non-ASCII runes), nothing that the Go side derived from the tree it parsed. The model
// runs its own statement parser (Model/ParserStmt.lean) and then the function under test on the tree it built.
//
//	priv.text s:<statement text> l:<lower table>      ParseStatement(text).RequiredPrivileges()   (C19)

func privLine(ps influxql.ExecutionPrivileges) string {
	var b strings.Builder
	b.WriteString("ok " + strconv.Itoa(len(ps)))
	for _, p := range ps {
		a := "0"
		if p.Admin {
			a = "1"
		}
		b.WriteString(" " + a + "/" + encStr(p.Name) + "/" + privConstName(p.Privilege))
	}
	return b.String()
}

func implPrivText(args []string) string {
	if len(args) != 2 {
		return "bad-arg"
	}
	text, err := decStr(args[0])
	if err != nil {
		return "bad-arg"
	}
	if longNumberLiteral(text) {
		return "skip-float-precision"
	}
	st, err := influxql.ParseStatement(text)
	if err != nil {
		return errLine(err)
	}
	ps, err := st.RequiredPrivileges()
	if err != nil {
		return "err " + encStr(err.Error())
	}
	return privLine(ps)
}

// genPrivText: the texts of genPriv (same corner cases, same random mix), without the constructed statement
// `@DeleteStatement` (not a text) and with a share of damaged texts (a token dropped or doubled) so that the
// error side of the composition is compared too.
func genPrivText(r *rand.Rand, n int, emit func(args ...string)) {
	genPriv(r, n, func(args ...string) {
		text, err := decStr(args[0])
		if err != nil || strings.HasPrefix(text, "@") {
			return
		}
		if r.Intn(25) == 0 {
			words := strings.Split(text, " ")
			i := r.Intn(len(words))
			if r.Intn(2) == 0 {
				words = append(words[:i:i], words[i+1:]...)
			} else {
				words = append(words[:i+1:i+1], words[i:]...)
			}
			text = strings.Join(words, " ")
		}
		emit(encStr(text), encLower(text))
	})
}

// privTextAdapter lays the arguments out as propPriv / the class function of priv.required read them.
func privTextAdapter(args []string) []string {
	if len(args) != 2 {
		return nil
	}
	text, err := decStr(args[0])
	if err != nil {
		return nil
	}
	return privCase(text)
}

func init() {
	register(&stream{name: "priv.text", gen: genPrivText, impl: implPrivText,
		prop: func(args []string) string {
			a := privTextAdapter(args)
			if a == nil {
				return "skip"
			}
			// ParseStatement stops after one statement: a damaged text may carry a tail that is never parsed, and
			// the part of propPriv that reads the databases off the tokens of the text would judge that tail
			if text, _ := decStr(args[0]); text != "" {
				if _, err := influxql.ParseQuery(text); err != nil {
					return "skip"
				}
			}
			return propPriv(a)
		},
		normalize: func(args []string) []string {
			if len(args) < 1 {
				return args
			}
			text, err := decStr(args[0])
			if err != nil {
				return args
			}
			return []string{args[0], encLower(text)}
		},
		class: func(args []string, out string) string {
			a := privTextAdapter(args)
			if a == nil {
				return "bad"
			}
			c := a[1]
			if c == "SelectStatement" || c == "ExplainStatement" || c == "CreateContinuousQueryStatement" {
				c += ":depth" + strconv.Itoa(privDepth(a))
			}
			return c
		},
		nontrivial: func(args []string, out string) bool { return strings.HasPrefix(out, "ok") }})
}

package main

import (
	"math/rand"
	"strconv"
	"strings"

	"github.com/influxdata/influxql"
)

// Streams that let the model run END TO END FROM THE STATEMENT TEXT: the case line carries the text (and the
// lower-case table of its non-ASCII runes), nothing that the Go side derived from the tree it parsed. The model
// runs its own statement parser (Model/ParserStmt.lean) and then the function under test on the tree it built.
//
//	priv.text s:<statement text> l:<lower table>      ParseStatement(text).RequiredPrivileges()   (C19)
//	columns.text s:<SELECT text> <omitTime 0|1> s:<timeAlias> l:<lower table> [colCase arguments]
//	                                                  ParseStatement(text), OmitTime / TimeAlias set, ColumnNames()   (C20)
//	fields.text s:<SELECT text> ct:<0|1> m:<schema> x:<names;pairs> l:<lower table> [statement words of fields.rewrite]
//	                                                  ParseStatement(text).(*SelectStatement).RewriteFields(mapper)   (C12)
//
// The trailing statement words of fields.text (the structured case the text was rendered from) are read by the
// property oracle and the known-finding classifier only.
// The trailing colCase arguments of columns.text (the case of columns.names the text was rendered from) are read
// by the property oracle only: neither the model nor the implementation runner looks at them.

func privLine(ps influxql.ExecutionPrivileges) string {
	var b strings.Builder
	b.WriteString("ok " + strconv.Itoa(len(ps)))
	for _, p := range ps {
		a := "0"
		if p.Admin {
			a = "1"
		}
		b.WriteString(" " + a + "/" + encStr(p.Name) + "/" + privConstName(p.Privilege))
	}
	return b.String()
}

func implPrivText(args []string) string {
	if len(args) != 2 {
		return "bad-arg"
	}
	text, err := decStr(args[0])
	if err != nil {
		return "bad-arg"
	}
	if longNumberLiteral(text) {
		return "skip-float-precision"
	}
	st, err := influxql.ParseStatement(text)
	if err != nil {
		return errLine(err)
	}
	ps, err := st.RequiredPrivileges()
	if err != nil {
		return "err " + encStr(err.Error())
	}
	return privLine(ps)
}

// genPrivText: the texts of genPriv (same corner cases, same random mix), without the constructed statement
// `@DeleteStatement` (not a text) and with a share of damaged texts (a token dropped or doubled) so that the
// error side of the composition is compared too.
func genPrivText(r *rand.Rand, n int, emit func(args ...string)) {
	genPriv(r, n, func(args ...string) {
		text, err := decStr(args[0])
		if err != nil || strings.HasPrefix(text, "@") {
			return
		}
		if r.Intn(25) == 0 {
			words := strings.Split(text, " ")
			i := r.Intn(len(words))
			if r.Intn(2) == 0 {
				words = append(words[:i:i], words[i+1:]...)
			} else {
				words = append(words[:i+1:i+1], words[i:]...)
			}
			text = strings.Join(words, " ")
		}
		emit(encStr(text), encLower(text))
	})
}

// privTextAdapter lays the arguments out as propPriv / the class function of priv.required read them.
func privTextAdapter(args []string) []string {
	if len(args) != 2 {
		return nil
	}
	text, err := decStr(args[0])
	if err != nil {
		return nil
	}
	return privCase(text)
}

// ---- columns.text (C20) ----

func implColumnsText(args []string) string {
	if len(args) < 4 || (args[1] != "0" && args[1] != "1") {
		return "bad-arg"
	}
	text, err := decStr(args[0])
	if err != nil {
		return "bad-arg"
	}
	timeAlias, err := decStr(args[2])
	if err != nil {
		return "bad-arg"
	}
	if longNumberLiteral(text) {
		return "skip-float-precision"
	}
	st, err := influxql.ParseStatement(text)
	if err != nil {
		return errLine(err)
	}
	sel, ok := st.(*influxql.SelectStatement)
	if !ok {
		return "not-select"
	}
	sel.OmitTime = args[1] == "1"
	sel.TimeAlias = timeAlias
	names := sel.ColumnNames()
	var b strings.Builder
	b.WriteString("ok " + strconv.Itoa(len(names)))
	for _, n := range names {
		b.WriteString(" " + encStr(n))
	}
	return b.String()
}

// genColumnsText: the cases of genColumnNames rendered as statement texts (colCase.text()), one in eight with
// more of a statement around the field list (sources with databases, subqueries, WHERE, GROUP BY, LIMIT: the
// SELECTs of the C19 generator, whose fields are references, arithmetic, aliases and aggregate calls) and a few
// statements that are not a SELECT.
func genColumnsText(r *rand.Rand, n int, emit func(args ...string)) {
	flag := func(b bool) string {
		if b {
			return "1"
		}
		return "0"
	}
	genColumnNames(r, n, func(args ...string) {
		c, err := decColCase(args)
		if err != nil {
			return
		}
		text := c.text()
		extra := args
		switch r.Intn(40) {
		case 0, 1, 2, 3:
			text, extra = privSelect(r, 0, 3, r.Intn(3) == 0, r.Intn(2) == 0), nil
		case 4:
			text, extra = strings.TrimSuffix(text, " FROM m")+" FROM "+privSources(r, 0, 2, true, true)+" WHERE host = 'a' GROUP BY host LIMIT 3", nil
		case 5:
			text, extra = pick(r, []string{"SHOW DATABASES", "EXPLAIN " + text, "DROP MEASUREMENT m", "SELECT", ""}), nil
		}
		emit(append([]string{encStr(text), flag(c.omitTime), encStr(c.timeAlias), encLower(text)}, extra...)...)
	})
}

// ---- fields.text (C12) ----

func implFieldsText(args []string) string {
	if len(args) < 5 {
		return "bad-arg"
	}
	text, err := decStr(args[0])
	if err != nil {
		return "bad-arg"
	}
	schema, err := decSchema(args[2])
	if err != nil {
		return "bad-arg " + err.Error()
	}
	if manyDigits(text) && longNumberLiteral(text) {
		return "skip-float-precision"
	}
	st, err := influxql.ParseStatement(text)
	if err != nil {
		return errLine(err)
	}
	sel, ok := st.(*influxql.SelectStatement)
	if !ok {
		return "not-select"
	}
	c := &fCase{ct: args[1] == "ct:1", schema: schema}
	rw, rerr := sel.RewriteFields(c.mapper())
	return canonRewrite(rw, rerr)
}

// genFieldsText: every case of genFieldsRewrite with its statement rendered to text (fStmt.text()); the schema,
// the regex oracle and the structured statement follow unchanged, the lower table is that of the text.
func genFieldsText(r *rand.Rand, n int, emit func(args ...string)) {
	genFieldsRewrite(r, n, func(args ...string) {
		c, err := decFCase(args)
		if err != nil {
			return
		}
		text := c.stmt.text()
		out := []string{encStr(text), args[0], args[1], args[2], encLower(text)}
		emit(append(out, args[4:]...)...)
	})
}

// fieldsTextAdapter: the arguments of fields.rewrite for the same case.
func fieldsTextAdapter(args []string) []string {
	if len(args) < 6 {
		return nil
	}
	return args[1:]
}

func init() {
	register(&stream{name: "fields.text", gen: genFieldsText, impl: implFieldsText,
		prop: func(args []string) string {
			a := fieldsTextAdapter(args)
			if a == nil {
				return "skip"
			}
			return propFieldsRewrite(a)
		},
		known: func(args []string) string {
			a := fieldsTextAdapter(args)
			if a == nil {
				return ""
			}
			return knownFieldsRewrite(a)
		},
		class: func(args []string, out string) string {
			a := fieldsTextAdapter(args)
			if a == nil {
				return "bad"
			}
			return classFieldsRewrite(a, out)
		},
		nontrivial: func(args []string, out string) bool {
			return strings.HasPrefix(out, "ok") || strings.HasPrefix(out, "err")
		}})

	register(&stream{name: "columns.text", gen: genColumnsText, impl: implColumnsText,
		prop: func(args []string) string {
			if len(args) < 8 {
				return "skip"
			}
			return propColumnNames(args[4:])
		},
		class: func(args []string, out string) string {
			switch {
			case strings.HasPrefix(out, "ok"):
				if len(args) < 8 {
					return "ok:wider-statement"
				}
				return "ok"
			case strings.HasPrefix(out, "err"):
				return "statement-rejected"
			case strings.HasPrefix(out, "skip"):
				return "skip"
			}
			return out
		},
		nontrivial: func(args []string, out string) bool { return strings.HasPrefix(out, "ok") }})

	register(&stream{name: "priv.text", gen: genPrivText, impl: implPrivText,
		prop: func(args []string) string {
			a := privTextAdapter(args)
			if a == nil {
				return "skip"
			}
			// ParseStatement stops after one statement: a damaged text may carry a tail that is never parsed, and
			// the part of propPriv that reads the databases off the tokens of the text would judge that tail
			if text, _ := decStr(args[0]); text != "" {
				if _, err := influxql.ParseQuery(text); err != nil {
					return "skip"
				}
			}
			return propPriv(a)
		},
		normalize: func(args []string) []string {
			if len(args) < 1 {
				return args
			}
			text, err := decStr(args[0])
			if err != nil {
				return args
			}
			return []string{args[0], encLower(text)}
		},
		class: func(args []string, out string) string {
			a := privTextAdapter(args)
			if a == nil {
				return "bad"
			}
			c := a[1]
			if c == "SelectStatement" || c == "ExplainStatement" || c == "CreateContinuousQueryStatement" {
				c += ":depth" + strconv.Itoa(privDepth(a))
			}
			return c
		},
		nontrivial: func(args []string, out string) bool { return strings.HasPrefix(out, "ok") }})
}

package main

import (
	"fmt"
	"math/rand"
	"sort"
	"strings"

	"github.com/influxdata/influxql"
)

// Generator, regex-match oracle and registration of the stream fields.rewrite (C12);
// codec, implementation runner and property oracle are in stream_fields.go.

// ---- names and regex matches shipped with a case ---------------------------------

func collectNames(s *influxql.SelectStatement, add func(string)) {
	for _, f := range s.Fields {
		add(f.Name())
		influxql.WalkFunc(f.Expr, func(n influxql.Node) {
			if r, ok := n.(*influxql.VarRef); ok {
				add(r.Val)
			}
		})
	}
	for _, d := range s.Dimensions {
		influxql.WalkFunc(d.Expr, func(n influxql.Node) {
			if r, ok := n.(*influxql.VarRef); ok {
				add(r.Val)
			}
		})
	}
	for _, src := range s.Sources {
		if sq, ok := src.(*influxql.SubQuery); ok {
			collectNames(sq.Statement, add)
		}
	}
}

// fillOracle computes c.names / c.pairs / c.lower: every name a regex of the statement can be
// asked about while rewriting (schema names; field names, reference names and dimensions of
// every sub-statement's own rewrite), and which of them each regex matches.
func (c *fCase) fillOracle() {
	seen := map[string]bool{}
	var names []string
	add := func(n string) {
		if !seen[n] {
			seen[n] = true
			names = append(names, n)
		}
	}
	for _, m := range c.schema {
		for _, f := range m.fields {
			add(f.name)
		}
		for _, t := range m.tags {
			add(t)
		}
		for _, f := range m.mt {
			add(f.name)
		}
	}
	regexes := map[string]*influxql.RegexLiteral{}
	var visit func(s *fStmt)
	visit = func(s *fStmt) {
		for _, src := range s.srcs {
			if src.sub != nil {
				visit(src.sub)
			}
		}
		sel, err := parseSelect(s.text())
		if err != nil {
			return
		}
		influxql.WalkFunc(sel, func(n influxql.Node) {
			if r, ok := n.(*influxql.RegexLiteral); ok && r != nil && r.Val != nil {
				regexes[r.Val.String()] = r
			}
		})
		collectNames(sel, add)
		func() {
			defer func() { recover() }()
			if rw, err := sel.RewriteFields(c.mapper()); err == nil {
				collectNames(rw, add)
			}
		}()
	}
	visit(c.stmt)
	sort.Strings(names)
	c.names = names
	var res []string
	for k := range regexes {
		res = append(res, k)
	}
	sort.Strings(res)
	c.pairs = nil
	for _, k := range res {
		for _, n := range names {
			if regexes[k].Val.MatchString(n) {
				c.pairs = append(c.pairs, [2]string{k, n})
			}
		}
	}
	var all []string
	c.stmt.allTexts(&all)
	c.lower = encLower(all...)
}

// ---- generator ------------------------------------------------------------------

var fMeasNames = []string{"cpu", "mem", "disk", "net io", "none", "tagsonly", "bad", "é"}
var fColNames = []string{"value", "value1", "value2", "host", "region", "dc", "usage", "a b", "é", "€", "𝛼x", "Host", "host2", "mean", "x_y", "time", "v", "zz", "_f", "select"}
var fFieldTypes = []int{1, 2, 3, 4, 9}
var fRegexes = []string{`/^v/`, `/e/`, `/^host$/`, `/./`, `/nomatch/`, `/_/`, `/(?i)HOST/`, `/é/`, `/^$/`, `/a\/b/`, `/^value[12]$/`, `/o/`, `/^h/`, `/ /`, `/n$/`}
var fFuncs = []string{"mean", "count", "max", "min", "first", "last", "sum", "distinct", "elapsed", "mode", "sample", "holt_winters", "holt_winters_with_fit", "top", "bottom", "percentile", "f", "median", "stddev", "derivative", "badcall"}

func qid(n string) string { return influxql.QuoteIdent(n) }

func randSchema(r *rand.Rand) []fSchemaM {
	var out []fSchemaM
	perm := r.Perm(len(fMeasNames))
	k := r.Intn(5)
	if r.Intn(12) == 0 {
		k = 0
	}
	for _, i := range perm[:k+1] {
		m := fSchemaM{name: fMeasNames[i]}
		switch m.name {
		case "none":
			out = append(out, m)
			continue
		case "bad":
			m.err = true
		}
		nf := r.Intn(6)
		if m.name == "tagsonly" {
			nf = 0
		}
		for _, j := range r.Perm(len(fColNames))[:nf] {
			t := fFieldTypes[r.Intn(len(fFieldTypes))]
			if r.Intn(25) == 0 {
				t = r.Intn(10) // any DataType value, also Unknown, Time, Duration, Tag, AnyField
			}
			m.fields = append(m.fields, fCol{fColNames[j], t})
		}
		nt := r.Intn(4)
		for _, j := range r.Perm(len(fColNames))[:nt] {
			m.tags = append(m.tags, fColNames[j])
		}
		if len(m.fields) > 0 && r.Intn(3) == 0 { // a tag shadowing a field
			m.tags = append(m.tags, m.fields[r.Intn(len(m.fields))].name)
			// keep the tag list duplicate free (it becomes a Go map)
			seen := map[string]bool{}
			var ts []string
			for _, t := range m.tags {
				if !seen[t] {
					seen[t] = true
					ts = append(ts, t)
				}
			}
			m.tags = ts
		}
		if r.Intn(10) == 0 {
			m.mt = append(m.mt, fCol{fColNames[r.Intn(len(fColNames))], r.Intn(10)})
		}
		out = append(out, m)
	}
	return out
}

func randRefText(r *rand.Rand) string {
	n := qid(fColNames[r.Intn(len(fColNames))])
	switch r.Intn(8) {
	case 0:
		return n + "::field"
	case 1:
		return n + "::tag"
	case 2:
		return n + pick(r, []string{"::float", "::integer", "::string", "::boolean", "::unsigned"})
	}
	return n
}

func randWildText(r *rand.Rand) string {
	switch r.Intn(6) {
	case 0:
		return "*::field"
	case 1:
		return "*::tag"
	case 2, 3:
		return fRegexes[r.Intn(len(fRegexes))]
	}
	return "*"
}

func randCallText(r *rand.Rand, first string, depth int) string {
	fn := fFuncs[r.Intn(len(fFuncs))]
	if depth > 0 && r.Intn(2) == 0 {
		first = randCallText(r, first, depth-1)
	}
	args := []string{first}
	switch r.Intn(6) {
	case 0:
		args = append(args, "2")
	case 1:
		args = append(args, randRefText(r), "3")
	case 2:
		args = append(args, "1", "2")
	case 3:
		if r.Intn(3) == 0 {
			args = append(args, randWildText(r))
		}
	}
	if r.Intn(30) == 0 {
		args = nil
	}
	return fn + "(" + strings.Join(args, ", ") + ")"
}

func randFieldText(r *rand.Rand) (string, string) {
	alias := ""
	if r.Intn(6) == 0 {
		alias = pick(r, []string{"a", "x y", "value", "host", "al"})
	}
	switch r.Intn(20) {
	case 0, 1, 2:
		return randWildText(r), ""
	case 3, 4, 5:
		w := randWildText(r)
		if w == "*::tag" && r.Intn(4) != 0 { // an error: keep it rare
			w = "*"
		}
		return randCallText(r, w, r.Intn(3)), alias
	case 6, 7:
		return randCallText(r, randRefText(r), r.Intn(2)), alias
	case 8:
		return randRefText(r) + pick(r, []string{" + ", " * ", " - ", " / "}) + randRefText(r), alias
	case 9:
		switch r.Intn(8) {
		case 0:
			return pick(r, []string{"*", "*::field", "*::tag"}) + pick(r, []string{" + 1", " * value", " - 2.5"}), ""
		case 1:
			return "1 + " + randCallText(r, randWildText(r), 1), alias
		case 2:
			return "(" + pick(r, []string{"*", "*::field", "*::tag"}) + ")", ""
		case 3:
			return "-" + pick(r, []string{"mean", "f", "max"}) + "(" + randWildText(r) + ")", ""
		case 4:
			return randRefText(r) + " * (" + randCallText(r, randWildText(r), 0) + " + 2)", alias
		default:
			return randRefText(r) + " * (" + randCallText(r, randRefText(r), 0) + " + 2)", alias
		}
	case 10:
		return pick(r, []string{"1", "1.5", "'s'", "true", "DISTINCT " + qid(fColNames[r.Intn(len(fColNames))]), "(" + randRefText(r) + ")", "10s", "18446744073709551615"}), alias
	case 11:
		return randCallText(r, randRefText(r), 0) + pick(r, []string{" + ", " / "}) + pick(r, []string{"2", "1.5", randRefText(r), randCallText(r, randRefText(r), 0)}), alias
	}
	return randRefText(r), alias
}

func randDimText(r *rand.Rand) string {
	switch r.Intn(10) {
	case 0, 1:
		return "*"
	case 2:
		return fRegexes[r.Intn(len(fRegexes))]
	case 3:
		return pick(r, []string{"time(1m)", "time(10s, 1s)", "*::tag", "*::field"})
	}
	return qid(fColNames[r.Intn(len(fColNames))])
}

func randCondText(r *rand.Rand) string {
	a := randRefText(r) + pick(r, []string{" = 'a'", " > 1", " =~ /x/", " != 2.5", " = " + randRefText(r)})
	if r.Intn(2) == 0 {
		a += pick(r, []string{" AND ", " OR "}) + "(" + randRefText(r) + " < 3 AND time > now() - 1h)"
	}
	if r.Intn(6) == 0 {
		a = "f(" + randRefText(r) + ") > 0 AND " + a
	}
	return a
}

func randFStmt(r *rand.Rand, depth int) *fStmt {
	s := &fStmt{}
	nf := 1 + r.Intn(3)
	if r.Intn(10) == 0 {
		nf += r.Intn(3)
	}
	for i := 0; i < nf; i++ {
		e, a := randFieldText(r)
		s.fields = append(s.fields, [2]string{e, a})
	}
	if r.Intn(2) == 0 {
		nd := 1 + r.Intn(2)
		if r.Intn(8) == 0 {
			nd++
		}
		for i := 0; i < nd; i++ {
			s.dims = append(s.dims, randDimText(r))
		}
	}
	ns := 1
	if r.Intn(4) == 0 {
		ns += 1 + r.Intn(2)
	}
	for i := 0; i < ns; i++ {
		if depth > 0 && (i == 0 || r.Intn(3) == 0) {
			s.srcs = append(s.srcs, fSrc{sub: randFStmt(r, depth-1)})
		} else {
			name := fMeasNames[r.Intn(len(fMeasNames))]
			if name == "bad" && r.Intn(4) != 0 { // a failing mapper ends most rewrites early: keep it rare
				name = "cpu"
			}
			s.srcs = append(s.srcs, fSrc{meas: name})
		}
	}
	if r.Intn(4) == 0 {
		s.hasCond = true
		s.cond = randCondText(r)
	}
	return s
}

func meas(names ...string) []fSrc {
	var out []fSrc
	for _, n := range names {
		out = append(out, fSrc{meas: n})
	}
	return out
}

func fl(exprs ...string) [][2]string {
	var out [][2]string
	for _, e := range exprs {
		out = append(out, [2]string{e, ""})
	}
	return out
}

// fieldsBaseSchema: the schema of the upstream test plus conflicting types, shadowing, empty
// and failing measurements, every DataType value, non-ASCII names.
func fieldsBaseSchema() []fSchemaM {
	return []fSchemaM{
		{name: "cpu", fields: []fCol{{"value2", 2}, {"value1", 1}, {"s", 3}, {"host", 1}}, tags: []string{"region", "host"}},
		{name: "mem", fields: []fCol{{"value1", 2}, {"u", 9}, {"b", 4}, {"s", 4}}, tags: []string{"host", "dc"}},
		{name: "tagsonly", tags: []string{"host", "dc"}},
		{name: "none"},
		{name: "bad", err: true, fields: []fCol{{"x", 1}}},
		{name: "types", fields: []fCol{{"f", 1}, {"i", 2}, {"u", 9}, {"s", 3}, {"b", 4}, {"t", 5}, {"d", 6}, {"tg", 7}, {"af", 8}, {"un", 0}}, tags: []string{"tg", "k"}},
		{name: "é", fields: []fCol{{"é", 1}, {"z", 2}, {"€", 3}, {"𝛼x", 4}, {"￿", 9}, {"a b", 1}, {"Z", 1}}, tags: []string{"€", "𝛼", "select", "é"}},
	}
}

func fieldsCornerStmts() []*fStmt {
	sub := func(s *fStmt) []fSrc { return []fSrc{{sub: s}} }
	return []*fStmt{
		{fields: fl("value1"), srcs: meas("cpu")},
		{fields: fl("*"), srcs: meas("cpu")},
		{fields: fl("*", "value1"), srcs: meas("cpu")},
		{fields: fl("*", "*"), srcs: meas("cpu")},
		{fields: fl("*"), dims: []string{"host"}, srcs: meas("cpu")},
		{fields: fl("value1"), dims: []string{"*"}, srcs: meas("cpu")},
		{fields: fl("mean(value1)"), dims: []string{"*", "time(1m)"}, srcs: meas("cpu"), hasCond: true, cond: "time < now()"},
		{fields: fl("value1"), dims: []string{"*", "host"}, srcs: meas("cpu")},
		{fields: fl("value1"), dims: []string{"*", "*"}, srcs: meas("cpu")},
		{fields: fl("*"), dims: []string{"*"}, srcs: meas("cpu")},
		{fields: fl("*::field"), srcs: meas("cpu")},
		{fields: fl("*::tag"), srcs: meas("cpu")},
		{fields: fl("*::tag"), dims: []string{"*"}, srcs: meas("cpu")},
		{fields: fl("*"), srcs: meas("cpu", "mem")},
		{fields: fl("*"), srcs: meas("mem", "cpu")},
		{fields: fl("*"), srcs: meas("tagsonly")},
		{fields: fl("*"), dims: []string{"*"}, srcs: meas("tagsonly")},
		{fields: fl("value1"), dims: []string{"*"}, srcs: meas("tagsonly")},
		{fields: fl("*"), srcs: meas("none")},
		{fields: fl("*"), srcs: meas("unknown")},
		{fields: fl("*"), srcs: meas("bad")},
		{fields: fl("value1"), srcs: meas("bad")},
		{fields: fl("value1"), dims: []string{"*"}, srcs: meas("cpu", "bad")},
		{fields: fl("*"), srcs: meas("types")},
		{fields: fl("mean(*)", "count(*)", "max(*)", "holt_winters(mean(*), 1, 2)", "f(*)"), srcs: meas("types")},
		{fields: fl("mean(*)", "count(/v/)", "max(*)", "holt_winters(mean(*), 1, 2)"), srcs: meas("cpu", "mem")},
		{fields: fl("mean(*::tag)"), srcs: meas("cpu")},
		{fields: fl("mean(*::field)"), srcs: meas("cpu")},
		{fields: fl("f(g(*::tag))"), srcs: meas("cpu")},
		{fields: fl("* + 1"), srcs: meas("cpu")},
		{fields: fl("value1 + mean(/v/)"), srcs: meas("cpu")},
		{fields: fl("(*)"), srcs: meas("cpu")},
		{fields: fl("mean((*))"), srcs: meas("cpu")},
		{fields: fl("-mean(*)"), srcs: meas("cpu")},
		{fields: fl("host", "host::field", "host::tag", "nope", "region::field", "value1::integer"), srcs: meas("cpu"), hasCond: true, cond: "host = 'a' AND value1 > 1 OR (region::field = 'x' AND f(s) = 2)"},
		{fields: fl("value1", "s", "host"), srcs: meas("cpu", "mem")},
		{fields: fl("/al/"), dims: []string{"/o/"}, srcs: meas("cpu")},
		{fields: fl("*"), dims: []string{"/^h/"}, srcs: meas("cpu")},
		{fields: fl("mean(value1)", "*"), dims: []string{"/o/", "time(1m)"}, srcs: meas("cpu")},
		{fields: fl("mean()"), dims: []string{"*"}, srcs: meas("cpu")},
		{fields: fl("top(*, 2)", "top(value1, *, 2)"), srcs: meas("cpu")},
		{fields: [][2]string{{"f(g(h(*)))", "a"}}, srcs: meas("cpu")},
		{fields: fl("value1"), dims: []string{"*::tag", "/x/"}, srcs: meas("cpu")},
		{fields: fl("value1"), dims: []string{"*::field"}, srcs: meas("cpu")},
		{fields: fl("*"), dims: []string{"nosuchtag"}, srcs: meas("cpu")},
		{fields: fl("*"), dims: []string{"value1"}, srcs: meas("cpu")},
		{fields: fl("*"), srcs: sub(&fStmt{fields: fl("region"), dims: []string{"region"}, srcs: meas("cpu")})},
		{fields: fl("*"), srcs: sub(&fStmt{fields: fl("region", "value1"), dims: []string{"region"}, srcs: meas("cpu")})},
		{fields: fl("*"), srcs: sub(&fStmt{fields: fl("*"), srcs: sub(&fStmt{fields: fl("*"), srcs: meas("cpu")})})},
		{fields: fl("*"), srcs: sub(&fStmt{fields: [][2]string{{"value1 + value2", ""}, {"value1", "x"}, {"mean(value1)", ""}, {"s + s", ""}, {"1", ""}, {"u + value2", ""}}, srcs: meas("cpu", "mem")})},
		{fields: fl("*", "x", "value1_value2", "mean", "region"), srcs: sub(&fStmt{fields: [][2]string{{"value1 + value2", ""}, {"value1", "x"}, {"mean(value1)", ""}}, dims: []string{"region"}, srcs: meas("cpu")})},
		{fields: fl("mean(*)"), dims: []string{"*"}, srcs: sub(&fStmt{fields: fl("max(*)"), dims: []string{"*"}, srcs: meas("cpu", "mem")})},
		{fields: fl("value1", "host", "top_value1"), srcs: sub(&fStmt{fields: fl("top(value1, host, 2)"), srcs: meas("cpu")})},
		{fields: fl("*"), srcs: append(sub(&fStmt{fields: fl("mean(*::tag)"), srcs: meas("cpu")}), fSrc{meas: "bad"})},
		{fields: fl("*"), srcs: append(meas("cpu"), sub(&fStmt{fields: fl("value1"), srcs: meas("mem")})...)},
		{fields: fl(`"é"`, "*"), dims: []string{`"€"`}, srcs: meas("é")},
		{fields: fl("mean(*)", "/^[a-z]/"), dims: []string{"/./"}, srcs: meas("é", "cpu")},
	}
}

func genFieldsRewrite(r *rand.Rand, n int, emit func(args ...string)) {
	for _, ct := range []bool{false, true} {
		for _, st := range fieldsCornerStmts() {
			c := &fCase{ct: ct, schema: fieldsBaseSchema(), stmt: st}
			c.fillOracle()
			emit(c.args()...)
		}
	}
	for i := 0; i < n; i++ {
		c := &fCase{ct: r.Intn(3) == 0, schema: randSchema(r)}
		if r.Intn(5) == 0 {
			c.schema = fieldsBaseSchema()
		}
		depth := 0
		switch r.Intn(10) {
		case 0, 1, 2:
			depth = 1
		case 3, 4:
			depth = 2
		case 5:
			depth = 3
		}
		c.stmt = randFStmt(r, depth)
		if r.Intn(5) == 0 {
			conflictCase(r, c)
		}
		// shuffle every schema list: the order is arbitrary by contract
		for k := range c.schema {
			m := &c.schema[k]
			r.Shuffle(len(m.fields), func(a, b int) { m.fields[a], m.fields[b] = m.fields[b], m.fields[a] })
			r.Shuffle(len(m.tags), func(a, b int) { m.tags[a], m.tags[b] = m.tags[b], m.tags[a] })
		}
		c.fillOracle()
		emit(c.args()...)
	}
}

// conflictCase turns c into a case about type conflicts: two to four measurements that all have
// (most of) the same few field names with independently drawn types (all five field types, so
// every ordered pair of types meets), and a statement whose innermost sources are several of
// exactly these measurements, in random order.
func conflictCase(r *rand.Rand, c *fCase) {
	names := []string{"cpu", "mem", "disk", "net io"}
	r.Shuffle(len(names), func(a, b int) { names[a], names[b] = names[b], names[a] })
	names = names[:2+r.Intn(3)]
	cols := []string{"value", "v", "usage", "host", "zz"}
	c.schema = nil
	for _, n := range names {
		m := fSchemaM{name: n}
		for _, col := range cols {
			if r.Intn(5) == 0 {
				continue
			}
			m.fields = append(m.fields, fCol{col, fFieldTypes[r.Intn(len(fFieldTypes))]})
		}
		if r.Intn(3) == 0 {
			m.tags = append(m.tags, cols[r.Intn(len(cols))])
		}
		if r.Intn(2) == 0 {
			m.tags = append(m.tags, "region")
		}
		c.schema = append(c.schema, m)
	}
	var fix func(s *fStmt)
	fix = func(s *fStmt) {
		hasMeas := false
		for i := range s.srcs {
			if s.srcs[i].sub != nil {
				fix(s.srcs[i].sub)
			} else {
				hasMeas = true
			}
		}
		if hasMeas || len(s.srcs) == 0 {
			var srcs []fSrc
			for _, src := range s.srcs {
				if src.sub != nil {
					srcs = append(srcs, src)
				}
			}
			perm := r.Perm(len(names))
			for _, i := range perm[:2+r.Intn(len(names)-1)] {
				srcs = append(srcs, fSrc{meas: names[i]})
			}
			s.srcs = srcs
		}
	}
	fix(c.stmt)
}

func classFieldsRewrite(args []string, out string) string {
	c, err := decFCase(args)
	if err != nil {
		return "bad-arg"
	}
	depth := 0
	var walk func(s *fStmt, d int)
	wild, dimWild, call := false, false, false
	walk = func(s *fStmt, d int) {
		if d > depth {
			depth = d
		}
		for _, f := range s.fields {
			if strings.Contains(f[0], "*") || strings.Contains(f[0], "/") {
				wild = true
				if strings.Contains(f[0], "(") {
					call = true
				}
			}
		}
		for _, dd := range s.dims {
			if strings.HasPrefix(dd, "*") || strings.HasPrefix(dd, "/") {
				dimWild = true
			}
		}
		for _, src := range s.srcs {
			if src.sub != nil {
				walk(src.sub, d+1)
			}
		}
	}
	walk(c.stmt, 0)
	k := "plain"
	switch {
	case strings.HasPrefix(out, "skip"):
		return strings.Fields(out)[0]
	case strings.HasPrefix(out, "err"):
		k = "error"
	case strings.HasPrefix(out, "panic"):
		return "panic"
	case call:
		k = "call-wildcard"
	case wild && dimWild:
		k = "field+dim-wildcard"
	case wild:
		k = "field-wildcard"
	case dimWild:
		k = "dim-wildcard"
	}
	return fmt.Sprintf("%s-depth%d", k, depth)
}

func init() {
	register(&stream{name: "fields.rewrite", gen: genFieldsRewrite, impl: implFieldsRewrite, prop: propFieldsRewrite, known: knownFieldsRewrite,
		class: classFieldsRewrite,
		nontrivial: func(args []string, out string) bool {
			return strings.HasPrefix(out, "ok") || strings.HasPrefix(out, "err")
		}})
}

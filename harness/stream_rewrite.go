package main

// C13: Rewrite(r, node) of ast.go against the checked model (Model/RewriteChecked.lean).
//
//   rewrite.ops s:<text> p:<params> l:<lower> <flag> <rewriter> <target>
//
// target: stmt | query | sub | fields | dims | cond | src0 (the node handed to Rewrite);
// rewriter: id | paren | drop | b-<kind> (see rewriterByName).
// Output: "ok <kind> [s:<String()>]" | "panic <asserted type>" | skip-…

import (
	"fmt"
	"math/rand"
	"regexp"
	"strings"

	"github.com/influxdata/influxql"
)

func rwNodeKind(n influxql.Node) string {
	switch n.(type) {
	case nil:
		return "nil"
	case *influxql.Query:
		return "query"
	case influxql.Statements:
		return "statements"
	case *influxql.SelectStatement:
		return "select"
	case influxql.Statement:
		return "statement"
	case influxql.Fields:
		return "fields"
	case *influxql.Field:
		return "field"
	case influxql.Dimensions:
		return "dimensions"
	case *influxql.Dimension:
		return "dimension"
	case influxql.Sources:
		return "sources"
	case *influxql.Measurement:
		return "measurement"
	case *influxql.SubQuery:
		return "subquery"
	case influxql.Measurements:
		return "measurements"
	case influxql.SortFields:
		return "sortFields"
	case *influxql.SortField:
		return "sortField"
	case *influxql.Target:
		return "target"
	case influxql.Expr:
		return "expr"
	}
	return "other"
}

var rwKinds = []string{"nil", "query", "statements", "select", "statement", "fields", "field", "dimensions", "dimension",
	"sources", "measurement", "subquery", "measurements", "sortFields", "sortField", "target", "expr"}

var rwNames = func() []string {
	out := []string{"id", "paren", "drop"}
	for _, k := range rwKinds {
		out = append(out, "b-"+k)
	}
	return out
}()

var rwTargets = []string{"stmt", "query", "sub", "fields", "dims", "cond", "src0"}

func rewriterByName(name string) func(influxql.Node) influxql.Node {
	switch name {
	case "id":
		return func(n influxql.Node) influxql.Node { return n }
	case "paren":
		return func(n influxql.Node) influxql.Node {
			if e, ok := n.(influxql.Expr); ok {
				return &influxql.ParenExpr{Expr: e}
			}
			return n
		}
	case "drop":
		return func(n influxql.Node) influxql.Node {
			if _, ok := n.(*influxql.VarRef); ok {
				return nil
			}
			return n
		}
	}
	if strings.HasPrefix(name, "b-") {
		k := name[2:]
		return func(n influxql.Node) influxql.Node {
			if rwNodeKind(n) == k {
				return &influxql.Target{Measurement: &influxql.Measurement{}}
			}
			return n
		}
	}
	return nil
}

func rwTarget(target string, stmt influxql.Statement) (influxql.Node, bool) {
	sel, isSel := stmt.(*influxql.SelectStatement)
	switch target {
	case "stmt":
		return stmt, true
	case "query":
		return &influxql.Query{Statements: influxql.Statements{stmt}}, true
	}
	if !isSel {
		return nil, false
	}
	switch target {
	case "sub":
		return &influxql.SubQuery{Statement: sel}, true
	case "fields":
		return sel.Fields, true
	case "dims":
		return sel.Dimensions, true
	case "cond":
		if sel.Condition == nil {
			return nil, false
		}
		return sel.Condition, true
	case "src0":
		if len(sel.Sources) == 0 {
			return nil, false
		}
		return sel.Sources[0], true
	}
	return nil, false
}

var rwAsserted = regexp.MustCompile(`not (\*?influxql\.\w+)`)

func rwShow(n influxql.Node) string {
	k := rwNodeKind(n)
	switch k {
	case "select", "statement", "expr", "fields", "field", "dimensions", "dimension", "measurement", "subquery":
		return k + " " + encStr(n.String())
	}
	return k
}

func implRewriteOps(args []string) (out string) {
	if len(args) != 6 {
		return "bad-arg"
	}
	text, params, ok := decStmtArgs(args)
	if !ok {
		return "bad-arg"
	}
	if longNumberLiteral(text) {
		return "skip-float-precision"
	}
	stmt, err := newStmtParser(text, params).ParseStatement()
	if err != nil {
		return "skip-parse"
	}
	fn := rewriterByName(args[4])
	node, ok := rwTarget(args[5], stmt)
	if fn == nil || !ok {
		return "skip-target"
	}
	defer func() {
		if r := recover(); r != nil {
			msg := fmt.Sprint(r)
			if m := rwAsserted.FindStringSubmatch(msg); m != nil {
				out = "panic " + m[1]
			} else {
				out = "panic-other " + encStr(msg)
			}
		}
	}()
	return "ok " + rwShow(influxql.RewriteFunc(node, fn))
}

var rewriteCorners = []string{
	"SELECT a FROM m",
	"SELECT a + b FROM m WHERE c = 1 GROUP BY d",
	"SELECT a, b AS x FROM m, n WHERE (c = 1) AND d > 2 GROUP BY time(1m), host fill(0) ORDER BY time DESC LIMIT 3",
	"SELECT f(a, 1, g(b)) FROM m GROUP BY time(10s)",
	"SELECT mean(v) FROM (SELECT v FROM m WHERE x = 1) WHERE y = 2 GROUP BY h",
	"SELECT * FROM (SELECT a FROM m), n",
	"SELECT 1 + 2 FROM m WHERE true",
	"SELECT -a FROM m WHERE b =~ /x/",
	"SELECT count(distinct(a)) INTO t FROM m",
	"DELETE FROM m WHERE a = 1",
	"DROP SERIES FROM m WHERE a = 1",
	"SHOW SERIES FROM m WHERE a = 1",
	"SHOW TAG KEYS FROM m WHERE a = 'b'",
	"EXPLAIN SELECT a FROM m WHERE b = 1",
	"CREATE CONTINUOUS QUERY q ON d BEGIN SELECT mean(a) INTO t FROM m GROUP BY time(1m) END",
	"SHOW DATABASES",
	"SELECT FROM m",
}

func genRewriteOps(r *rand.Rand, n int, emit func(args ...string)) {
	none := map[string]interface{}{}
	for _, s := range rewriteCorners {
		for _, rw := range rwNames {
			for _, t := range rwTargets {
				emit(append(stmtCase(s, none, false), rw, t)...)
			}
		}
	}
	var texts [][]string
	genStmtCases(r, n, func(text string, params map[string]interface{}, valid bool) {
		texts = append(texts, stmtCase(text, params, valid))
	})
	r.Shuffle(len(texts), func(i, j int) { texts[i], texts[j] = texts[j], texts[i] })
	for i := 0; i < n && i < len(texts); i++ {
		rw := pick(r, rwNames)
		if r.Intn(3) == 0 {
			rw = pick(r, []string{"id", "paren", "drop", "b-expr", "b-nil", "b-field", "b-sources"})
		}
		emit(append(texts[i], rw, pick(r, rwTargets))...)
	}
}

func init() {
	register(&stream{name: "rewrite.ops", gen: genRewriteOps, impl: implRewriteOps,
		// C13 on Rewrite: with a kind-preserving rewriter (identity, expression -> expression) no panic.
		prop: func(args []string) string {
			if len(args) != 6 || (args[4] != "id" && args[4] != "paren") {
				return "skip"
			}
			out := implRewriteOps(args)
			if strings.HasPrefix(out, "skip") {
				return "skip"
			}
			if strings.HasPrefix(out, "panic") {
				return "Rewrite with a kind-preserving rewriter panicked: " + out
			}
			return ""
		},
		class: func(args []string, out string) string {
			f := strings.Fields(out)
			if len(f) >= 2 && (f[0] == "ok" || f[0] == "panic") {
				return f[0] + " " + f[1]
			}
			return f[0]
		},
		nontrivial: func(args []string, out string) bool { return !strings.HasPrefix(out, "skip") }})
}

package main

import (
	"math/rand"
	"os"
	"strings"

	"github.com/influxdata/influxql"
)

// Grammar-directed, AST-free generator of statement texts. Every piece draws its spelling at
// random (keyword case, quoting, whitespace); a piece that deliberately leaves the grammar (or
// whose acceptance depends on something outside the text: bound parameters, comments next to
// regex look-ahead points, out-of-range numbers) clears g.valid.

type sgen struct {
	r      *rand.Rand
	valid  bool
	plain  bool // canonical spelling: upper-case keywords, single blanks, bare names
	params bool // may use $placeholders
	depth  int
	noDB   bool // sources may not name a database (DELETE, DROP SERIES)
	noRP   bool // sources may not name a retention policy (DROP SERIES)
	eol    int  // 0 = not drawn yet, 1 = ordinary white space, 2 = every kind of line end mixed (lone CR, LF, CRLF)
}

// pendingFindings: defects found by these streams that are reported but not yet recorded in
// known_findings.json (only the coordinator edits that file). Until they are recorded, a property
// failure that falls into one of these classes is reported as "skip" by the property oracle, so
// that ./check passes on the unchanged tree; VERIF_PENDING=1 turns them back into failures (which
// `harness known` maps to the class names below). See notes/C01.md and notes/C02.md.
var pendingFindings = os.Getenv("VERIF_PENDING") != ""

var pendingClasses = map[string]bool{}

// gated reports whether a failure of this class is suppressed for now.
func gated(class string) bool { return pendingClasses[class] && !pendingFindings }

func (g *sgen) chance(n int) bool { return !g.plain && g.r.Intn(n) == 0 }

func (g *sgen) ws() string {
	if g.plain {
		return " "
	}
	// one statement in four is laid out with every kind of line end mixed: a lone CR, a lone LF and CRLF are
	// each one line break and plain white space (round-4 seeded change C01-1: a lone CR armed a flag that made
	// the reader drop the next lone LF, however far away)
	if g.eol == 0 {
		g.eol = 1
		if g.r.Intn(4) == 0 {
			g.eol = 2
		}
	}
	if g.eol == 2 {
		return pick(g.r, []string{"\r", "\n", "\r", "\n", "\r\n", " ", "\r\r\n", "\n\r", "\r ", "\t"})
	}
	switch x := g.r.Intn(100); {
	case x < 72:
		return " "
	case x < 80:
		return "  "
	case x < 87:
		return "\n"
	case x < 91:
		return "\t"
	case x < 94:
		return "\r\n"
	case x < 96:
		return " \n  "
	default:
		g.valid = false // comments are whitespace, except at the regex look-ahead points (C16 finding)
		return pick(g.r, []string{" /* c */ ", " -- c\n", "/**/", " /* a\nb */", " --\n"})
	}
}

func (g *sgen) ows() string {
	if g.plain || g.r.Intn(4) != 0 {
		return ""
	}
	return pick(g.r, []string{" ", "  ", "\n", "\t"})
}

// kw spells a keyword phrase: every word in random case, words separated by ws().
func (g *sgen) kw(phrase string) string {
	ws := strings.Fields(phrase)
	for i, w := range ws {
		if !g.plain {
			w = randCase(g.r, w)
		}
		ws[i] = w
	}
	if g.plain {
		return strings.Join(ws, " ")
	}
	var b strings.Builder
	for i, w := range ws {
		if i > 0 {
			b.WriteString(g.ws())
		}
		b.WriteString(w)
	}
	return b.String()
}

// join glues non-empty parts with mandatory whitespace.
func (g *sgen) join(parts ...string) string {
	var b strings.Builder
	first := true
	for _, p := range parts {
		if p == "" {
			continue
		}
		if !first {
			b.WriteString(g.ws())
		}
		first = false
		b.WriteString(p)
	}
	return b.String()
}

var namePool = []string{"cpu", "mem", "host", "region", "value", "usage_idle", "db0", "rp1", "m", "_x", "autogen", "mydb", "Load", "x1", "time"}
var oddNames = []string{"a b", "select", "1x", "é", "a.b", "a\"b", "a\\b", "from", "a\nb", "日本", "x-y", "WHERE", "my db", "$x", "a'b", "tz", "fill",
	// words the keyword table knows although they are not in the keyword token block
	"and", "or", "true", "false", "AND", "Or", "True", "FALSE", "inf", "all", "distinct", "time", "now", "\ufffd", "it\u2019s",
	// names whose only non-ASCII runes lower-case to ASCII letters (their ASCII twins are bare identifiers)
	"temp_\u212a", "\u212a", "cpu_\u0130dle", "\u0130d", "\u212aelvin", "x\u017f"}

func quoteName(s string) string {
	return `"` + strings.NewReplacer("\n", `\n`, `\`, `\\`, `"`, `\"`).Replace(s) + `"`
}

// name: an identifier in one of its spellings.
func (g *sgen) name() string {
	if g.plain {
		return pick(g.r, namePool)
	}
	switch x := g.r.Intn(40); {
	case x < 20:
		n := pick(g.r, namePool)
		if g.r.Intn(3) == 0 {
			n = randBareIdent(g.r)
		}
		if influxql.Lookup(n) != influxql.IDENT {
			return quoteName(n)
		}
		return n
	case x < 26:
		return quoteName(pick(g.r, namePool))
	case x < 27:
		// the other quote character escaped, which the scanner accepts in either kind of literal
		return `"` + pick(g.r, []string{`it\'s`, `o\'brien`, `a\'`, `\'x\'`}) + `"`
	case x < 35:
		if g.r.Intn(3) == 0 {
			// every keyword, in any letter case, as a quoted name (the printer must quote it again)
			return quoteName(randCase(g.r, pick(g.r, kwPool)))
		}
		return quoteName(pick(g.r, oddNames))
	case x < 36:
		return `""`
	case x < 38:
		if g.params {
			g.valid = false
			return "$" + pick(g.r, []string{"i", "i", "p", "s"})
		}
		return pick(g.r, namePool)
	default:
		g.valid = false
		return randCase(g.r, pick(g.r, kwPool)) // a bare keyword where a name must stand
	}
}

func (g *sgen) str() string {
	if g.plain {
		return "'x'"
	}
	if g.params && g.r.Intn(12) == 0 {
		g.valid = false
		return "$" + pick(g.r, []string{"s", "s", "i", "n", "p"})
	}
	if g.r.Intn(30) == 0 {
		g.valid = false
		return pick(g.r, []string{"'unterminated", `'bad\escape'`, `"dq"`, "x", "'a\nb'"})
	}
	if g.r.Intn(25) == 0 {
		return `'` + pick(g.r, []string{`say \"hi\"`, `pa\"ss`, `\"`, `a\"b\'c`}) + `'`
	}
	return influxql.QuoteString(pick(g.r, []string{"x", "pw", "it's", "", "a\\b", "a\nb", "http://h:8086", "udp://h:9", "s3cr3t pass", "é", "[REDACTED]", "runtime", "2000-01-01T00:00:00Z", "select"}))
}

func (g *sgen) dur(allowInf bool) string {
	if g.plain {
		return "1h"
	}
	switch x := g.r.Intn(40); {
	case x < 4:
		return pick(g.r, []string{"3s7µ", "1ms500µ", "2h10µ5ns", "1µ2u", "1w1d1h1m1s1ms1µ1ns", randValidCompositeDuration(g.r)})
	case x < 24:
		return pick(g.r, []string{"10s", "1h", "30m", "1h30m", "1500ms", "1d", "2w", "0s", "5u", "5µ", "3ns", "90m", "24h", "7d", "100ms", "1ms", "3600s", "1w2d3h4m5s6ms7u8ns", "52w", "1000000000ns"})
	case x < 28:
		return pick(g.r, []string{"9223372036854775807ns", "2562047h", "15250w", "106751d", "9223372036854775u", "9223372036s"})
	case x < 31:
		if allowInf {
			return randCase(g.r, "INF")
		}
		return "1m"
	case x < 34:
		g.valid = false
		return pick(g.r, []string{"9223372036854775808ns", "2562048h", "15251w", "1000000w", "99999999999999999999s", "1x", "1ss", "1m2", "10", "1.5h", "'1h'", "h", "-1h", "1 h"})
	case x < 37:
		if g.params {
			g.valid = false
			return "$" + pick(g.r, []string{"d", "d", "n", "p"})
		}
		return "5m"
	default:
		if allowInf {
			return "INF"
		}
		return "4w"
	}
}

// count: an INTEGER in a LIMIT-like or replication position.
func (g *sgen) count() string {
	if g.plain {
		return "10"
	}
	switch x := g.r.Intn(40); {
	case x < 28:
		return pick(g.r, []string{"1", "2", "3", "10", "42", "100", "007", "2147483647", "12345"})
	case x < 32:
		return pick(g.r, []string{"0", "2147483648", "9223372036854775807", "9223372036854775808", "99999999999999999999", "18446744073709551615", "18446744073709551616"})
	case x < 35:
		g.valid = false
		return pick(g.r, []string{"-1", "1.5", "'1'", "x", "1s", "+1", "1e3", ""})
	case x < 38:
		if g.params {
			g.valid = false
			return "$" + pick(g.r, []string{"n", "n", "f", "p", "d"})
		}
		return "5"
	default:
		return "1"
	}
}

var regexBodies = []string{"a.*", "^cpu$", "a\\/b", "x y", "(a|b)", "^server[0-9]+", "\\d+", ".*", "a", "(?i)cpu", "[a-z]", "é+", "a\\.b", "\\/",
	// a backslash in front of an (escaped) slash, and doubled backslashes
	"C:\\\\\\/x", "usr\\\\\\/local", "a\\\\b", "\\\\\\/", "a\\/\\/b"}

func (g *sgen) regex() string {
	if g.plain {
		return "/cpu.*/"
	}
	switch x := g.r.Intn(30); {
	case x < 25:
		return "/" + pick(g.r, regexBodies) + "/"
	case x < 27:
		if g.params {
			g.valid = false
			return "$" + pick(g.r, []string{"r", "r", "s", "p"})
		}
		return "/x/"
	default:
		g.valid = false
		return pick(g.r, []string{"/[/", "/unterminated", "//", "/a\nb/", "/(/", "/a\\", "/*/"})
	}
}

func (g *sgen) number() string {
	if g.plain {
		return "1"
	}
	if g.params && g.r.Intn(15) == 0 {
		g.valid = false
		return "$" + pick(g.r, []string{"n", "f", "b", "s", "d", "p"})
	}
	return pick(g.r, []string{"0", "1", "42", "9223372036854775807", "9223372036854775808", "1.5", "0.25", "100.0", "1.", ".5", "3.14159", "10s", "1h", "true", "false", "'s'", "'2000-01-01T00:00:00Z'", "-1", "-2.5", "+3", "1000000000000", "0.000001", "123456789012345",
		// float boundaries around 2^53, 2^63, 2^64 (printed through FormatFloat; not compared with the model, but the round-trip oracle sees them)
		"9007199254740992.0", "9007199254740993.0", "9223372036854775808.0", "9223372036854775807.0", "18446744073709551616.0", "-9223372036854775808.0", "1000000000000000000000.0"})
}

// ref: a field or tag reference, possibly typed or segmented.
func (g *sgen) ref() string {
	n := g.name()
	if g.chance(10) {
		n += pick(g.r, []string{"::float", "::integer", "::string", "::boolean", "::unsigned", "::field", "::tag", "::Float", "::TAG"})
	} else if g.chance(25) {
		n += "." + g.name()
	}
	return n
}

var cmpOps = []string{"=", "!=", "<>", "<", "<=", ">", ">="}
var arithOps = []string{"+", "-", "*", "/", "%", "&", "|", "^"}

// cond: a WHERE condition.
func (g *sgen) cond(depth int) string {
	if g.plain {
		return "host = 'a'"
	}
	if g.chance(8) {
		was := g.valid
		t := randExprText(g.r, 1, g.r.Intn(4))
		g.valid = false && was
		return t
	}
	sp := func() string {
		if g.r.Intn(6) == 0 {
			return g.ows()
		}
		return g.ws()
	}
	var atom func() string
	atom = func() string {
		switch x := g.r.Intn(12); {
		case x < 5:
			return g.ref() + sp() + pick(g.r, cmpOps) + sp() + g.number()
		case x < 7:
			return g.ref() + sp() + pick(g.r, []string{"=~", "!~"}) + sp() + g.regex()
		case x < 9:
			return g.kw("time") + sp() + pick(g.r, cmpOps) + sp() + pick(g.r, []string{"now()", "now() - 1h", "now()-7d", "'2000-01-01T00:00:00Z'", "'2000-01-01'", "1000000000", "1h", "now() + 10m - 5s"})
		case x < 10:
			if depth < 3 {
				return "(" + g.ows() + g.cond(depth+1) + g.ows() + ")"
			}
			return g.ref() + " = 1"
		case x < 11:
			return g.ref() + sp() + pick(g.r, arithOps) + sp() + g.number() + sp() + pick(g.r, cmpOps) + sp() + g.number()
		default:
			return g.ref() + sp() + pick(g.r, cmpOps) + sp() + g.ref()
		}
	}
	s := atom()
	for k := g.r.Intn(3); k > 0; k-- {
		s += g.ws() + randCase(g.r, pick(g.r, []string{"AND", "OR", "AND"})) + g.ws() + atom()
	}
	return s
}

var funcPool = []string{"mean", "max", "min", "sum", "count", "first", "last", "median", "stddev", "derivative", "percentile", "top", "MEAN", "Count", "non_negative_derivative", "f"}

// fieldExpr: one SELECT field (without alias). agg reports whether it contains a call.
func (g *sgen) fieldExpr(depth int) (text string, agg bool) {
	if g.plain {
		return "value", false
	}
	switch x := g.r.Intn(40); {
	case x < 10:
		return g.ref(), false
	case x < 18:
		args := g.ref()
		if g.chance(5) {
			args = pick(g.r, []string{"*", "/re/", "*::field", "DISTINCT x", "distinct(x)"})
		}
		if g.chance(3) {
			args += "," + g.ows() + g.number()
		}
		return randCase(g.r, pick(g.r, funcPool)) + "(" + g.ows() + args + g.ows() + ")", true
	case x < 20:
		return pick(g.r, []string{"*", "*::field", "*::tag", "*"}), false
	case x < 22:
		return g.regex(), false
	case x < 24:
		return g.kw("DISTINCT") + g.ws() + g.name(), false
	case x < 25:
		return g.kw("distinct") + "(" + g.name() + ")", true
	case x < 31:
		if depth < 3 {
			l, a1 := g.fieldExpr(depth + 1)
			r, a2 := g.fieldExpr(depth + 1)
			if strings.HasPrefix(l, "/") || strings.HasPrefix(r, "/") {
				// a regex operand is only valid after =~ / !~
				return l, a1
			}
			return l + g.ws() + pick(g.r, arithOps) + g.ws() + r, a1 || a2
		}
		return g.ref(), false
	case x < 33:
		if depth < 3 {
			e, a := g.fieldExpr(depth + 1)
			if strings.HasPrefix(e, "/") {
				return e, a
			}
			return "(" + g.ows() + e + g.ows() + ")", a
		}
		return g.ref(), false
	case x < 35:
		return g.number(), false
	case x < 36:
		e, a := g.fieldExpr(depth + 1)
		if strings.HasPrefix(e, "/") || strings.HasPrefix(e, "*") || strings.HasPrefix(strings.ToUpper(e), "DISTINCT") || strings.HasPrefix(e, "'") || strings.HasPrefix(e, "$") || strings.HasPrefix(e, "t") || strings.HasPrefix(e, "f") || strings.HasPrefix(e, "-") || strings.HasPrefix(e, "+") {
			return e, a
		}
		return "-" + g.ows() + e, a
	case x < 38:
		was := g.valid
		t := randExprText(g.r, 1, g.r.Intn(3))
		g.valid = false && was
		return t, strings.Contains(t, "(")
	default:
		g.valid = false // comparison in the field list
		return g.ref() + g.ws() + pick(g.r, []string{"=", ">", "AND", "OR", "=~ /x/ AND", "!="}) + g.ws() + g.number(), false
	}
}

// fields: the field list. agg reports whether any field contains a call.
func (g *sgen) fields() (string, bool) {
	n := 1
	if !g.plain {
		n += g.r.Intn(3)
	}
	var b strings.Builder
	agg := false
	for i := 0; i < n; i++ {
		if i > 0 {
			b.WriteString(g.ows() + "," + g.ows())
		}
		e, a := g.fieldExpr(0)
		agg = agg || a
		b.WriteString(e)
		if g.chance(4) {
			b.WriteString(g.ws() + g.kw("AS") + g.ws() + g.name())
		}
	}
	return b.String(), agg
}

// segmented: db.rp.name in its forms; last is the spelling of the final segment.
func (g *sgen) segmented(last string) string {
	if g.plain {
		return last
	}
	dot := func() string {
		if g.r.Intn(12) == 0 && !strings.HasPrefix(last, "/") && !strings.HasPrefix(last, "$") {
			return "." + pick(g.r, []string{" ", "\n"}) // whitespace is tolerated after a dot
		}
		return "."
	}
	switch x := g.r.Intn(20); {
	case x < 10:
		return last
	case x < 14:
		if g.noRP {
			g.valid = false
		}
		return g.name() + dot() + last
	case x < 17:
		if g.noRP || g.noDB {
			g.valid = false
		}
		return g.name() + dot() + g.name() + dot() + last
	case x < 19:
		if g.noDB {
			g.valid = false
		}
		return g.name() + ".." + last
	default:
		g.valid = false
		return pick(g.r, []string{"a.b.c.d", "a .b", "a.", ".a", "a...b", "a.b.c./x/"})
	}
}

func (g *sgen) target() string {
	if g.plain {
		return "INTO dst"
	}
	var t string
	switch x := g.r.Intn(12); {
	case x < 8:
		t = g.segmented(g.name())
	case x < 10:
		t = g.name() + "." + g.name() + ".:" + g.kw("MEASUREMENT")
	case x < 11:
		t = g.name() + ".:" + g.kw("MEASUREMENT")
	default:
		g.valid = false
		t = pick(g.r, []string{":MEASUREMENT", "a.b.c.:MEASUREMENT", "/re/", "a:MEASUREMENT", "a.:measure", "'s'"})
	}
	return g.kw("INTO") + g.ws() + t
}

func (g *sgen) source(subq bool) string {
	if g.plain {
		return "cpu"
	}
	switch x := g.r.Intn(20); {
	case x < 10:
		return g.segmented(g.name())
	case x < 13:
		return g.regex()
	case x < 15:
		return g.segmented(g.regex())
	case x < 19:
		if g.depth < 3 {
			if !subq {
				g.valid = false
			}
			g.depth++
			s := "(" + g.ows() + g.selectStmt(g.r.Intn(1024)&g.r.Intn(1024), false) + g.ows() + ")"
			g.depth--
			return s
		}
		return g.name()
	default:
		g.valid = false
		return pick(g.r, []string{"'m'", "1", "(cpu)", "()", "a b", "*", "cpu,", ""})
	}
}

func (g *sgen) sources(subq bool) string {
	n := 1
	if g.chance(4) {
		n += g.r.Intn(2) + 1
	}
	var b strings.Builder
	for i := 0; i < n; i++ {
		p := g.source(subq)
		if i > 0 {
			sep := g.ows() + "," + g.ows()
			b.WriteString(sep)
		}
		b.WriteString(p)
	}
	return b.String()
}

func (g *sgen) dims(needTime bool) string {
	if g.plain {
		if needTime {
			return "time(10m)"
		}
		return "host"
	}
	var parts []string
	if needTime || g.r.Intn(3) == 0 {
		t := g.kw("time") + "(" + g.ows() + g.dur(false)
		if g.chance(4) {
			t += g.ows() + "," + g.ows() + pick(g.r, []string{"5s", "now()", "-1m", "'2000-01-01T00:00:00Z'", "30s"})
		}
		parts = append(parts, t+g.ows()+")")
	}
	for k := g.r.Intn(3); k > 0 || len(parts) == 0; k-- {
		switch x := g.r.Intn(14); {
		case x < 9:
			parts = append(parts, g.ref())
		case x < 10:
			parts = append(parts, "*")
		case x < 12:
			parts = append(parts, g.regex())
		case x < 13:
			parts = append(parts, "*::tag")
		default:
			g.valid = false
			parts = append(parts, pick(g.r, []string{"time()", "time(1, 2, 3)", "time('x')", "", "1 +", "'s'", "time(10m"}))
		}
	}
	g.r.Shuffle(len(parts), func(i, j int) { parts[i], parts[j] = parts[j], parts[i] })
	var b strings.Builder
	for i, p := range parts {
		if i > 0 {
			pre := g.ows()
			b.WriteString(pre + "," + g.ows())
		}
		b.WriteString(p)
	}
	return b.String()
}

func (g *sgen) fill() string {
	if g.plain {
		return "fill(none)"
	}
	arg := pick(g.r, []string{"null", "none", "previous", "linear", "0", "1", "100", "3.5", "0.0", "-1", "-2.5", "\"null\"", "9223372036854775807"})
	if g.r.Intn(8) == 0 {
		g.valid = false
		arg = pick(g.r, []string{"", "NULL", "None", "'null'", "1, 2", "x", "1s", "true", "/x/", "9223372036854775808", "1 + 1", "(1)", "nil"})
	}
	f := randCase(g.r, "fill") + "(" + g.ows() + arg + g.ows() + ")"
	if g.r.Intn(20) == 0 {
		g.valid = false
		f = pick(g.r, []string{"fill", "fill (none)", "fill(none) + 1", "fill.x(1)", "\"fill\"(none)"})
	}
	return f
}

func (g *sgen) orderBy() string {
	if g.plain {
		return "ORDER BY time DESC"
	}
	var f string
	switch x := g.r.Intn(14); {
	case x < 9:
		f = pick(g.r, []string{"time", "time ASC", "time DESC", "ASC", "DESC", "time asc", "time Desc", "desc", "\"time\"", "\"time\" DESC"})
	default:
		g.valid = false
		f = pick(g.r, []string{"Time", "TIME DESC", "host", "time, host", "time DESC, host ASC", "ASC, time", "1", "", "time,", "'time'", "time ASC DESC"})
	}
	return g.kw("ORDER BY") + g.ws() + f
}

func (g *sgen) tz() string {
	if g.plain {
		return "TZ('UTC')"
	}
	if g.r.Intn(8) == 0 {
		g.valid = false
		return pick(g.r, []string{"tz()", "tz(\"UTC\")", "tz('a', 'b')", "tz", "tz ('UTC')", "tz(1)", "tz('Nowhere/Land')", "tz('../etc')"})
	}
	return randCase(g.r, "tz") + "(" + g.ows() + influxql.QuoteString(pick(g.r, []string{"UTC", "America/New_York", "Europe/Berlin", "Asia/Tokyo", "", "Local", "EST", "Etc/GMT+5"})) + g.ows() + ")"
}

func (g *sgen) limitClause(kw string) string { return g.kw(kw) + g.ws() + g.count() }

func bit(mask, i int) bool { return mask&(1<<uint(i)) != 0 }

// selectStmt: SELECT with the optional clauses chosen by mask
// (0 INTO, 1 WHERE, 2 GROUP BY, 3 fill, 4 ORDER BY, 5 LIMIT, 6 OFFSET, 7 SLIMIT, 8 SOFFSET, 9 TZ).
func (g *sgen) selectStmt(mask int, cq bool) string {
	fs, agg := g.fields()
	parts := []string{g.kw("SELECT") + g.ws() + fs}
	if bit(mask, 0) || cq {
		parts = append(parts, g.target())
	}
	parts = append(parts, g.kw("FROM")+g.ws()+g.sources(true))
	if bit(mask, 1) {
		parts = append(parts, g.kw("WHERE")+g.ws()+g.cond(0))
	}
	if bit(mask, 2) || (cq && agg) {
		parts = append(parts, g.kw("GROUP BY")+g.ws()+g.dims(cq && agg))
	}
	if bit(mask, 3) {
		parts = append(parts, g.fill())
	}
	if bit(mask, 4) {
		parts = append(parts, g.orderBy())
	}
	for i, k := range []string{"LIMIT", "OFFSET", "SLIMIT", "SOFFSET"} {
		if bit(mask, 5+i) {
			parts = append(parts, g.limitClause(k))
		}
	}
	if bit(mask, 9) {
		parts = append(parts, g.tz())
	}
	return g.join(parts...)
}

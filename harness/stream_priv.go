package main

import (
	"fmt"
	"math/rand"
	"reflect"
	"sort"
	"strconv"
	"strings"

	"github.com/influxdata/influxql"
)

// Stream for C19: Statement.RequiredPrivileges.
//
//	priv.required s:<statement text> <Kind> f:<string fields> <exact> <sources> <select>
//
// The last five arguments are a reduced description of the AST the real parser builds for the text
// (computed when the case is generated and re-checked by the implementation runner), so that the
// model needs no statement parser:
//
//	Kind     Go type name of the statement (without package and pointer)
//	fields   Name=<hex runes>;… for every exported string field of the statement struct
//	exact    0 | 1 | - (no Exact field)
//	sources  - (no Sources field) | [item;item;…]   item = m<hex database> | q{sources|target}
//	select   - | {sources|target}                  target = - | t<hex database>
//
// A text `@TypeName` stands for the zero value of a statement type the parser never produces.

func hexRunes(s string) string { return encStr(s)[2:] }

func descSources(ss influxql.Sources) string {
	parts := make([]string, len(ss))
	for i, s := range ss {
		switch s := s.(type) {
		case *influxql.Measurement:
			parts[i] = "m" + hexRunes(s.Database)
		case *influxql.SubQuery:
			parts[i] = "q" + descSelect(s.Statement)
		default:
			parts[i] = "?"
		}
	}
	return "[" + strings.Join(parts, ";") + "]"
}

func descSelect(s *influxql.SelectStatement) string {
	t := "-"
	if s.Target != nil {
		t = "t" + hexRunes(s.Target.Measurement.Database)
	}
	return "{" + descSources(s.Sources) + "|" + t + "}"
}

func kindOf(st influxql.Statement) string {
	t := reflect.TypeOf(st)
	if t.Kind() == reflect.Ptr {
		t = t.Elem()
	}
	return t.Name()
}

// describe returns the five description arguments.
func describe(st influxql.Statement) []string {
	v := reflect.ValueOf(st)
	if v.Kind() == reflect.Ptr {
		v = v.Elem()
	}
	t := v.Type()
	var fields []string
	exact, sources, sel := "-", "-", "-"
	for i := 0; i < t.NumField(); i++ {
		f := t.Field(i)
		if f.PkgPath != "" {
			continue
		}
		fv := v.Field(i)
		switch {
		case f.Type.Kind() == reflect.String:
			fields = append(fields, f.Name+"="+hexRunes(fv.String()))
		case f.Name == "Exact" && f.Type.Kind() == reflect.Bool:
			exact = "0"
			if fv.Bool() {
				exact = "1"
			}
		case f.Name == "Sources":
			if ss, ok := fv.Interface().(influxql.Sources); ok {
				sources = descSources(ss)
			}
		}
	}
	switch s := st.(type) {
	case *influxql.SelectStatement:
		sel = descSelect(s)
	case *influxql.ExplainStatement:
		sel = descSelect(s.Statement)
	case *influxql.CreateContinuousQueryStatement:
		sel = descSelect(s.Source)
	}
	sort.Strings(fields)
	return []string{t.Name(), "f:" + strings.Join(fields, ";"), exact, sources, sel}
}

func privStatement(text string) (influxql.Statement, error) {
	if strings.HasPrefix(text, "@") {
		switch text[1:] {
		case "DeleteStatement":
			return &influxql.DeleteStatement{}, nil
		}
		return nil, fmt.Errorf("unknown constructed statement %s", text)
	}
	return influxql.NewParser(strings.NewReader(text)).ParseStatement()
}

func privCase(text string) []string {
	st, err := privStatement(text)
	if err != nil {
		return []string{encStr(text), "unparsable", "f:", "-", "-", "-"}
	}
	return append([]string{encStr(text)}, describe(st)...)
}

func privConstName(p influxql.Privilege) string { return strconv.Itoa(int(p)) }

func implPriv(args []string) string {
	if len(args) != 6 {
		return "bad-arg"
	}
	text, err := decStr(args[0])
	if err != nil {
		return "bad-arg"
	}
	st, err := privStatement(text)
	if err != nil {
		return "skip-unparsable " + encStr(err.Error())
	}
	if d := describe(st); strings.Join(d, " ") != strings.Join(args[1:], " ") {
		return "description-mismatch " + strings.Join(d, " ")
	}
	ps, err := st.RequiredPrivileges()
	if err != nil {
		return "err " + encStr(err.Error())
	}
	var b strings.Builder
	b.WriteString("ok " + strconv.Itoa(len(ps)))
	for _, p := range ps {
		a := "0"
		if p.Admin {
			a = "1"
		}
		b.WriteString(" " + a + "/" + encStr(p.Name) + "/" + privConstName(p.Privilege))
	}
	return b.String()
}

// ---- property oracle on the implementation ----

func measurementsDeep(ss influxql.Sources, depth int, out *[]*influxql.Measurement, maxDepth *int) {
	if depth > *maxDepth {
		*maxDepth = depth
	}
	for _, s := range ss {
		switch s := s.(type) {
		case *influxql.Measurement:
			*out = append(*out, s)
		case *influxql.SubQuery:
			measurementsDeep(s.Statement.Sources, depth+1, out, maxDepth)
		}
	}
}

// isAdminKind: the administrative statements listed in the property text.
func isAdminKind(st influxql.Statement) bool {
	switch st.(type) {
	case *influxql.CreateUserStatement, *influxql.DropUserStatement, *influxql.SetPasswordUserStatement,
		*influxql.GrantStatement, *influxql.GrantAdminStatement, *influxql.RevokeStatement, *influxql.RevokeAdminStatement,
		*influxql.CreateDatabaseStatement, *influxql.DropDatabaseStatement,
		*influxql.CreateRetentionPolicyStatement, *influxql.AlterRetentionPolicyStatement,
		*influxql.CreateSubscriptionStatement, *influxql.DropSubscriptionStatement,
		*influxql.DropShardStatement, *influxql.DropMeasurementStatement, *influxql.KillQueryStatement,
		*influxql.ShowUsersStatement, *influxql.ShowGrantsForUserStatement, *influxql.ShowShardsStatement,
		*influxql.ShowShardGroupsStatement, *influxql.ShowStatsStatement, *influxql.ShowDiagnosticsStatement,
		*influxql.ShowSubscriptionsStatement:
		return true
	}
	return false
}

func propPriv(args []string) string {
	if len(args) != 6 {
		return "skip"
	}
	text, err := decStr(args[0])
	if err != nil {
		return "skip"
	}
	st, err := privStatement(text)
	if err != nil {
		return "skip"
	}
	ps, err := st.RequiredPrivileges()
	if err != nil {
		return fmt.Sprintf("%q: RequiredPrivileges fails: %v", text, err)
	}
	if len(ps) == 0 {
		return fmt.Sprintf("%q (%s): empty privilege list", text, kindOf(st))
	}
	has := func(name string, priv influxql.Privilege) bool {
		for _, p := range ps {
			if p.Name == name && p.Privilege == priv {
				return true
			}
		}
		return false
	}
	var sel *influxql.SelectStatement
	switch s := st.(type) {
	case *influxql.SelectStatement:
		sel = s
	case *influxql.ExplainStatement:
		sel = s.Statement
	}
	if sel != nil {
		var ms []*influxql.Measurement
		d := 0
		measurementsDeep(sel.Sources, 0, &ms, &d)
		for _, m := range ms {
			if !has(m.Database, influxql.ReadPrivilege) {
				return fmt.Sprintf("%q: reads measurement %s but no read privilege on database %q in %v", text, m.String(), m.Database, ps)
			}
		}
		if sel.Target != nil && !has(sel.Target.Measurement.Database, influxql.WritePrivilege) {
			return fmt.Sprintf("%q: writes into %s but no write privilege on database %q in %v", text, sel.Target.Measurement.String(), sel.Target.Measurement.Database, ps)
		}
	}
	if sel != nil && !strings.Contains(text, "/") {
		// the databases as they are *written*: the text is tokenised with the scanner and the segmented names
		// after every FROM (and after commas of a source list) and after INTO are read off the tokens — a name
		// with two dots starts with its database. A read privilege on every database written in a FROM at any
		// depth, the write privilege on the one written after INTO (round-5 seeded change C19-1: the parser
		// itself dropped the database of `INTO db.rp.:MEASUREMENT`, so an oracle that trusts the tree saw nothing)
		reads, write, ok := writtenDatabases(text)
		if ok {
			for _, db := range reads {
				if !has(db, influxql.ReadPrivilege) {
					return fmt.Sprintf("%q reads from database %q (as written) but no read privilege on it in %v", text, db, ps)
				}
			}
			if write != nil && !has(*write, influxql.WritePrivilege) {
				return fmt.Sprintf("%q writes into database %q (as written) but no write privilege on it in %v", text, *write, ps)
			}
		}
	}
	if sel != nil {
		// the statement is edited after the first question (callers fill in default databases before they ask:
		// the method's own comment tells them to normalise first): every measurement at every depth and the
		// target get a database; the answer must be that of a twin edited in the same way that was never asked
		// before (round-3 seeded change C19-3 memoised the list on the statement)
		edit := func(st influxql.Statement) {
			influxql.WalkFunc(st, func(n influxql.Node) {
				if m, ok := n.(*influxql.Measurement); ok {
					if m.Database == "" {
						m.Database = "filled_in"
					} else {
						m.Database = m.Database + "_moved"
					}
				}
			})
		}
		twin, terr := privStatement(text)
		if terr == nil {
			edit(st)
			edit(twin)
			a, aerr := st.RequiredPrivileges()
			b, berr := twin.RequiredPrivileges()
			if (aerr == nil) != (berr == nil) || fmt.Sprint(a) != fmt.Sprint(b) {
				return fmt.Sprintf("%q, databases edited after the first call: a statement asked before the edit answers %v, one never asked %v", text, a, b)
			}
		}
	}
	if sel != nil {
		// a call that is rejected leaves nothing behind: every SELECT of the statement (at any depth) gets
		// a source that is no source, the question is asked (it is refused, or answered; it must not panic),
		// the source is taken out again, and the answer must be that of a statement that was never touched
		// (round-7 seeded change C19-1: a re-entrancy mark on the statement was only cleared on success)
		fresh, ferr := privStatement(text)
		if ferr == nil {
			want, werr := fresh.RequiredPrivileges()
			var sels []*influxql.SelectStatement
			influxql.WalkFunc(fresh, func(n influxql.Node) {
				if s, ok := n.(*influxql.SelectStatement); ok {
					sels = append(sels, s)
				}
			})
			for i := len(sels) - 1; i >= 0; i-- {
				s := sels[i]
				kept := s.Sources
				s.Sources = append(append(influxql.Sources{}, kept...), nil)
				func() {
					defer func() { recover() }()
					fresh.RequiredPrivileges()
				}()
				s.Sources = kept
				got, gerr := fresh.RequiredPrivileges()
				if (werr == nil) != (gerr == nil) || fmt.Sprint(want) != fmt.Sprint(got) {
					return fmt.Sprintf("%q: after a call that was refused (an invalid source put into SELECT #%d and taken out again) the statement answers %v (%v), before it answered %v (%v)", text, i, got, gerr, want, werr)
				}
			}
		}
	}
	if isAdminKind(st) {
		for _, p := range ps {
			if !p.Admin {
				return fmt.Sprintf("%q (%s): administrative statement with a non-admin requirement %v", text, kindOf(st), ps)
			}
		}
	}
	return ""
}

// writtenDatabases reads the database names of a SELECT text off its tokens (see propPriv). ok=false when
// the text has a shape this reader does not follow (then nothing is judged).
func writtenDatabases(text string) (reads []string, write *string, ok bool) {
	type tk struct {
		tok influxql.Token
		lit string
	}
	var toks []tk
	sc := influxql.NewScanner(strings.NewReader(text))
	for i := 0; i < len(text)+8; i++ {
		tok, _, lit := sc.Scan()
		if tok == influxql.EOF {
			break
		}
		if tok == influxql.WS || tok == influxql.COMMENT {
			continue
		}
		if tok == influxql.ILLEGAL || tok == influxql.BADSTRING || tok == influxql.BADESCAPE {
			return nil, nil, false
		}
		toks = append(toks, tk{tok, lit})
	}
	// segmented name starting at i: returns (database or nil, index after the name)
	name := func(i int) (*string, int, bool) {
		if i >= len(toks) || toks[i].tok != influxql.IDENT {
			return nil, i, false
		}
		segs := []string{toks[i].lit}
		i++
		for i < len(toks) && toks[i].tok == influxql.DOT {
			i++
			switch {
			case i < len(toks) && toks[i].tok == influxql.IDENT:
				segs = append(segs, toks[i].lit)
				i++
			case i < len(toks) && toks[i].tok == influxql.DOT:
				segs = append(segs, "") // empty middle segment; the second dot is handled by the loop
			default:
				segs = append(segs, "") // `db.rp.` followed by :MEASUREMENT or the end
			}
		}
		if len(segs) == 3 {
			return &segs[0], i, true
		}
		if len(segs) > 3 {
			return nil, i, false
		}
		return nil, i, true
	}
	for i := 0; i < len(toks); i++ {
		switch toks[i].tok {
		case influxql.INTO:
			db, _, good := name(i + 1)
			if !good {
				return nil, nil, false
			}
			if db != nil {
				write = db
			} else {
				empty := ""
				write = &empty
			}
		case influxql.FROM:
			j := i + 1
			for {
				if j < len(toks) && toks[j].tok == influxql.LPAREN {
					break // subquery: its own FROM is met by the outer loop; a source list after a subquery is not followed
				}
				db, next, good := name(j)
				if !good {
					return nil, nil, false
				}
				if db != nil {
					reads = append(reads, *db)
				} else {
					reads = append(reads, "")
				}
				j = next
				if j < len(toks) && toks[j].tok == influxql.COMMA {
					j++
					continue
				}
				break
			}
		}
	}
	return reads, write, true
}

// ---- generator ----

// database names: also names that differ only in letter case, in a trailing blank, in quoting, or by
// a prefix (each is a database of its own)
var privDBs = []string{"db", "db", "d2", `"my db"`, `"a.b"`, "telegraf", `"é"`, "Db", "DB", `"db"`, `"db "`, "telegraf2", "Telegraf", `"É"`, "d", "db2"}
var privNames = []string{"m", "cpu", "m2", `"a b"`, `"select"`, "x_1"}

func privMeasurement(r *rand.Rand, allowDB bool) string {
	name := pick(r, privNames)
	if r.Intn(6) == 0 {
		name = pick(r, []string{"/re/", "/^cpu.*/", `/a\/b/`})
	}
	if !allowDB {
		return name
	}
	switch r.Intn(6) {
	case 0:
		return pick(r, privDBs) + "." + pick(r, []string{"rp", `"r p"`, "autogen"}) + "." + name
	case 1:
		return pick(r, privDBs) + ".." + name
	case 2:
		return pick(r, []string{"rp", `"r p"`}) + "." + name
	}
	return name
}

func privTarget(r *rand.Rand) string {
	switch r.Intn(8) {
	case 0:
		return pick(r, privDBs) + "." + pick(r, []string{"rp", "autogen"}) + "." + pick(r, privNames)
	case 1:
		return pick(r, privDBs) + ".." + pick(r, privNames)
	case 2:
		return "rp." + pick(r, privNames)
	case 3, 4:
		return pick(r, privDBs) + pick(r, []string{".rp.:MEASUREMENT", "..:MEASUREMENT", ".autogen.:MEASUREMENT"})
	case 5:
		return "rp.:MEASUREMENT"
	}
	return pick(r, privNames)
}

func privSources(r *rand.Rand, depth, maxDepth int, subqueries bool, allowDB bool) string {
	n := 1 + r.Intn(4)
	if r.Intn(3) == 0 {
		n = 1
	}
	parts := make([]string, n)
	for i := range parts {
		if subqueries && depth < maxDepth && r.Intn(3) == 0 {
			parts[i] = "(" + privSelect(r, depth+1, maxDepth, r.Intn(12) == 0, false) + ")"
		} else {
			parts[i] = privMeasurement(r, allowDB)
		}
	}
	return strings.Join(parts, pick(r, []string{", ", ", ", ", ", ",", " , "}))
}

// privSelect: a SELECT with 1-4 sources, subqueries nested up to maxDepth, optional INTO.
func privSelect(r *rand.Rand, depth, maxDepth int, into bool, aggregate bool) string {
	fields := pick(r, []string{"v", "*", "a, b", "v + 1 AS w", "\"my field\""})
	if aggregate {
		fields = pick(r, []string{"mean(v)", "count(v), max(v)", "mean(v) AS mv"})
	}
	s := "SELECT " + fields
	if into {
		s += " INTO " + privTarget(r)
	}
	s += " FROM " + privSources(r, depth, maxDepth, true, true)
	if r.Intn(3) == 0 {
		s += " WHERE " + pick(r, []string{"host = 'a'", "time > now() - 1h", "v > 1 AND host =~ /x/"})
	}
	if aggregate {
		s += " GROUP BY time(" + pick(r, []string{"1m", "5m", "1h"}) + ")"
		if r.Intn(3) == 0 {
			s += ", host"
		}
	} else if r.Intn(5) == 0 {
		s += " GROUP BY host"
	}
	if r.Intn(6) == 0 {
		s += " LIMIT " + strconv.Itoa(1+r.Intn(9))
	}
	return s
}

func privOn(r *rand.Rand) string {
	if r.Intn(2) == 0 {
		return ""
	}
	return " ON " + pick(r, privDBs)
}

func privFrom(r *rand.Rand) string {
	if r.Intn(2) == 0 {
		return ""
	}
	return " FROM " + privSources(r, 0, 0, false, true)
}

func privWhere(r *rand.Rand) string {
	if r.Intn(3) != 0 {
		return ""
	}
	return " WHERE " + pick(r, []string{"host = 'a'", "region =~ /us/", "time > now() - 1d"})
}

func privExact(r *rand.Rand) string {
	if r.Intn(2) == 0 {
		return ""
	}
	return " EXACT"
}

const privKinds = 45

// privStatementText returns a statement of kind k (0 ≤ k < privKinds).
func privStatementText(r *rand.Rand, k int) string {
	db := pick(r, privDBs)
	user := pick(r, []string{"u", `"jdoe"`, `"a b"`})
	switch k {
	case 0:
		// any non-empty subset of the six options, in any order (round-3 seeded change C19-2 exempted the
		// statements that carry only FUTURE LIMIT / PAST LIMIT from the admin requirement)
		opts := []string{" DURATION " + pick(r, []string{"2h", "1d", "INF"}), " REPLICATION " + strconv.Itoa(1+r.Intn(3)), " SHARD DURATION " + pick(r, []string{"1h", "30m"}), " DEFAULT",
			" FUTURE LIMIT " + pick(r, []string{"10m", "0s", "1h"}), " PAST LIMIT " + pick(r, []string{"10m", "0s", "7d"})}
		r.Shuffle(len(opts), func(i, j int) { opts[i], opts[j] = opts[j], opts[i] })
		mask := 1 + r.Intn(63)
		if r.Intn(3) == 0 {
			mask = 1 << uint(r.Intn(6)) // a single option
		}
		q := "ALTER RETENTION POLICY rp ON " + db
		for i, o := range opts {
			if mask&(1<<uint(i)) != 0 {
				q += o
			}
		}
		return q
	case 1:
		q := "CREATE CONTINUOUS QUERY " + pick(r, []string{"cq", `"my cq"`}) + " ON " + db
		if r.Intn(3) == 0 {
			q += pick(r, []string{" RESAMPLE EVERY 1m", " RESAMPLE FOR 1h", " RESAMPLE EVERY 1m FOR 1h"})
		}
		return q + " BEGIN " + privSelect(r, 0, 3, true, r.Intn(3) != 0) + " END"
	case 2:
		{
			// WITH and any subset of the options, in the fixed order the parser requires
			opts := []string{" DURATION 1d", " REPLICATION 1", " SHARD DURATION 1h", " FUTURE LIMIT 10m", " PAST LIMIT 1h", " NAME rp"}
			mask := r.Intn(64)
			q := "CREATE DATABASE " + db
			if mask != 0 {
				q += " WITH"
			}
			for i, o := range opts {
				if mask&(1<<uint(i)) != 0 {
					q += o
				}
			}
			return q
		}
	case 3:
		return "CREATE RETENTION POLICY rp ON " + db + " DURATION " + pick(r, []string{"1h", "INF", "52w"}) + " REPLICATION " + strconv.Itoa(1+r.Intn(3)) + pick(r, []string{"", " SHARD DURATION 30m", " DEFAULT", " SHARD DURATION 1h DEFAULT", " FUTURE LIMIT 10m", " PAST LIMIT 1h", " SHARD DURATION 1h DEFAULT FUTURE LIMIT 5m PAST LIMIT 0s", " DEFAULT PAST LIMIT 7d"})
	case 4:
		return "CREATE SUBSCRIPTION " + pick(r, []string{"s", `"sub 0"`}) + " ON " + db + ".rp DESTINATIONS " + pick(r, []string{"ALL", "ANY"}) + " 'udp://h:9'" + pick(r, []string{"", ", 'udp://h2:9'"})
	case 5:
		return "CREATE USER " + user + " WITH PASSWORD 'pw'" + pick(r, []string{"", " WITH ALL PRIVILEGES"})
	case 6:
		return pick(r, []string{"DELETE FROM " + privSources(r, 0, 0, false, false) + privWhere(r), "DELETE WHERE time < '2000-01-01'", "DELETE FROM /re/ WHERE host = 'a'"})
	case 7:
		return "@DeleteStatement"
	case 8:
		return "DROP CONTINUOUS QUERY cq ON " + db
	case 9:
		return "DROP DATABASE " + db
	case 10:
		return "DROP MEASUREMENT " + pick(r, privNames)
	case 11:
		return "DROP RETENTION POLICY rp ON " + db
	case 12:
		return pick(r, []string{"DROP SERIES FROM " + privSources(r, 0, 0, false, false) + privWhere(r), "DROP SERIES WHERE host = 'a'"})
	case 13:
		return "DROP SHARD " + strconv.Itoa(r.Intn(100))
	case 14:
		return "DROP SUBSCRIPTION s ON " + db + ".rp"
	case 15:
		return "DROP USER " + user
	case 16:
		return "EXPLAIN " + pick(r, []string{"", "ANALYZE ", "ANALYZE VERBOSE ", "VERBOSE "}) + privSelect(r, 0, 4, r.Intn(4) == 0, r.Intn(2) == 0)
	case 17:
		return "GRANT ALL" + pick(r, []string{"", " PRIVILEGES"}) + " TO " + user
	case 18:
		return "GRANT " + pick(r, []string{"READ", "WRITE", "ALL", "ALL PRIVILEGES"}) + " ON " + db + " TO " + user
	case 19:
		return "KILL QUERY " + strconv.Itoa(r.Intn(1000)) + pick(r, []string{"", ` ON "host:8088"`})
	case 20:
		return "REVOKE ALL" + pick(r, []string{"", " PRIVILEGES"}) + " FROM " + user
	case 21:
		return "REVOKE " + pick(r, []string{"READ", "WRITE", "ALL"}) + " ON " + db + " FROM " + user
	case 22:
		return privSelect(r, 0, 4, r.Intn(3) == 0, r.Intn(2) == 0)
	case 23:
		return "SET PASSWORD FOR " + user + " = 'pw'"
	case 24:
		return "SHOW CONTINUOUS QUERIES"
	case 25:
		return "SHOW DATABASES"
	case 26:
		return "SHOW DIAGNOSTICS" + pick(r, []string{"", " FOR 'build'"})
	case 27:
		return "SHOW FIELD KEY" + privExact(r) + " CARDINALITY" + privOn(r) + privFrom(r) + privWhere(r)
	case 28:
		return "SHOW FIELD KEYS" + privOn(r) + privFrom(r)
	case 29:
		return "SHOW GRANTS FOR " + user
	case 30:
		return "SHOW MEASUREMENT" + privExact(r) + " CARDINALITY" + privOn(r) + privFrom(r) + privWhere(r)
	case 31:
		return "SHOW MEASUREMENTS" + pick(r, []string{"", " ON " + db, " ON " + db + ".rp", " ON *", " ON *.*"}) + pick(r, []string{"", " WITH MEASUREMENT = m", " WITH MEASUREMENT =~ /re/"}) + privWhere(r)
	case 32:
		return "SHOW QUERIES"
	case 33:
		return "SHOW RETENTION POLICIES" + privOn(r)
	case 34:
		return "SHOW SERIES" + privExact(r) + " CARDINALITY" + privOn(r) + privFrom(r) + privWhere(r)
	case 35:
		return "SHOW SERIES" + privOn(r) + privFrom(r) + privWhere(r)
	case 36:
		return "SHOW SHARD GROUPS"
	case 37:
		return "SHOW SHARDS"
	case 38:
		return "SHOW STATS" + pick(r, []string{"", " FOR 'runtime'"})
	case 39:
		return "SHOW SUBSCRIPTIONS"
	case 40:
		return "SHOW TAG KEY" + privExact(r) + " CARDINALITY" + privOn(r) + privFrom(r) + privWhere(r)
	case 41:
		return "SHOW TAG KEYS" + privOn(r) + privFrom(r) + privWhere(r)
	case 42:
		return "SHOW TAG VALUES" + privExact(r) + " CARDINALITY" + privOn(r) + privFrom(r) + " WITH KEY = host" + privWhere(r)
	case 43:
		return "SHOW TAG VALUES" + privOn(r) + privFrom(r) + pick(r, []string{" WITH KEY = host", " WITH KEY IN (host, region)", " WITH KEY =~ /h/"}) + privWhere(r)
	default:
		return "SHOW USERS"
	}
}

func genPriv(r *rand.Rand, n int, emit func(args ...string)) {
	// corner cases: every cardinality form with and without EXACT / ON / FROM; selects of every shape
	for _, what := range []string{"SERIES", "MEASUREMENT", "TAG KEY", "TAG VALUES", "FIELD KEY"} {
		for _, exact := range []string{"", " EXACT"} {
			for _, on := range []string{"", " ON db", ` ON "my db"`} {
				for _, from := range []string{"", " FROM m", " FROM db2.rp.m", " FROM m, d3..m2, /re/", " FROM rp.m"} {
					t := "SHOW " + what + exact + " CARDINALITY" + on + from
					if what == "TAG VALUES" {
						t += " WITH KEY = host"
					}
					emit(privCase(t)...)
				}
			}
		}
	}
	for _, t := range []string{
		"SELECT v FROM m",
		"SELECT v FROM db.rp.m",
		"SELECT v FROM db..m, d2.rp.m, m, /re/",
		"SELECT v FROM (SELECT v FROM db.rp.m)",
		"SELECT v FROM (SELECT v FROM (SELECT v FROM (SELECT v FROM (SELECT v FROM d5.rp.m))))",
		"SELECT v FROM (SELECT v FROM d1..a), (SELECT v FROM (SELECT v FROM d2..b), d3..c), d4..d",
		"SELECT v FROM metrics.autogen.cpu, \"Metrics\".autogen.cpu, METRICS..cpu",
		"SELECT v FROM metrics..cpu, (SELECT v FROM (SELECT v FROM \"METRICS\"..cpu), \"Metrics\"..mem)",
		"SELECT v INTO Db..t FROM db..m, DB..m",
		"EXPLAIN ANALYZE SELECT v INTO \"db \"..t FROM db..m, \"db\"..m2",
		"SELECT v INTO t FROM m",
		"SELECT v INTO rp.t FROM m",
		"SELECT v INTO tdb.rp.t FROM sdb.rp.m",
		"SELECT v INTO tdb..t FROM m",
		"SELECT v INTO rp.:MEASUREMENT FROM m",
		"SELECT v INTO tdb.rp.:MEASUREMENT FROM /re/",
		"SELECT v INTO tdb.rp.t FROM (SELECT v FROM (SELECT v FROM deep.rp.m))",
		"SELECT v FROM (SELECT v INTO inner_db.rp.t FROM m)",
		"EXPLAIN SELECT v FROM db.rp.m",
		"EXPLAIN ANALYZE SELECT v INTO tdb.rp.t FROM (SELECT v FROM d1..a), d2..b",
		"EXPLAIN VERBOSE SELECT v FROM m",
		"EXPLAIN ANALYZE VERBOSE SELECT v FROM m",
		"CREATE CONTINUOUS QUERY cq ON db BEGIN SELECT mean(v) INTO t FROM m GROUP BY time(1m) END",
		"CREATE CONTINUOUS QUERY cq ON db BEGIN SELECT mean(v) INTO other.rp.t FROM m GROUP BY time(1m) END",
		"CREATE CONTINUOUS QUERY cq ON db BEGIN SELECT v INTO other..t FROM src.rp.m END",
		"CREATE CONTINUOUS QUERY cq ON db BEGIN SELECT v INTO db.rp.:MEASUREMENT FROM /re/ END",
		"@DeleteStatement",
	} {
		emit(privCase(t)...)
	}
	for k := 0; k < privKinds; k++ {
		emit(privCase(privStatementText(r, k))...)
	}
	for i := 0; i < n; i++ {
		var k int
		switch r.Intn(10) {
		case 0, 1, 2:
			k = 22 // SELECT
		case 3:
			k = 16 // EXPLAIN
		case 4:
			k = 1 // CREATE CONTINUOUS QUERY
		case 5, 6:
			k = []int{27, 30, 34, 40, 42}[r.Intn(5)] // cardinality forms
		default:
			k = r.Intn(privKinds)
		}
		emit(privCase(privStatementText(r, k))...)
	}
}

func privDepth(args []string) int {
	d, max := 0, 0
	for _, ch := range args[5] {
		switch ch {
		case '{':
			d++
			if d > max {
				max = d
			}
		case '}':
			d--
		}
	}
	return max
}

func init() {
	register(&stream{name: "priv.required", gen: genPriv, impl: implPriv, prop: propPriv,
		normalize: func(args []string) []string {
			if len(args) < 1 {
				return args
			}
			text, err := decStr(args[0])
			if err != nil {
				return args
			}
			return privCase(text)
		},
		class: func(args []string, out string) string {
			if len(args) != 6 {
				return "bad"
			}
			c := args[1]
			if c == "SelectStatement" || c == "ExplainStatement" || c == "CreateContinuousQueryStatement" {
				c += fmt.Sprintf(":depth%d", privDepth(args))
			}
			if strings.HasPrefix(out, "description-mismatch") {
				c += ":description-mismatch"
			}
			return c
		},
		nontrivial: func(args []string, out string) bool { return strings.HasPrefix(out, "ok") }})
}

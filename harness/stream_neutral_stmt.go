package main

import (
	"fmt"
	"math/rand"
	"regexp"
	"strconv"
	"strings"
	"time"

	"github.com/influxdata/influxql"
)

// Stream for C16 at statement and query level (property oracle only):
//
//	neutral.stmt s:<base text> s:<variant text>
//
// base: one to three grammar-conforming statements in plain layout joined by semicolons (with empty
// statements and a trailing semicolon thrown in); variant: the same text with every whitespace
// token (found with the real scanner, so never inside a literal) replaced by another whitespace
// string, possibly with `/* … */` or `-- …` comments flanked by whitespace. Oracle: ParseQuery of
// both gives the same statements; each statement of the query equals the statement parsed alone.

var stmtCommentBodies = []string{" c ", "", "*", "/", "/ see /var/log */ x", " ; ", " ' ", " \" ", " -- ", "**", " a\nb ", "/*", "é"}
var lineCommentBodies = []string{" c", "", "1", ".5", "2024-01-01 tmp", "-", " ' ", " ; DROP", "/*"}

// longWsRun: a whitespace run far longer than any fixed-size buffer a scanner might collect it in
// (round-7 seeded change C16-1 handed out a run of more than 64 runes as several WS tokens, and the
// parser's regex look-ahead skips exactly one).
func longWsRun(r *rand.Rand) string {
	n := pick(r, []string{"63", "64", "65", "66", "127", "128", "129", "200", "255", "256", "257", "300", "1025", "4097"})
	k, _ := strconv.Atoi(n)
	var b strings.Builder
	unit := pick(r, []string{" ", " ", "\t", "\n", "\r\n", "mixed"})
	for b.Len() < k {
		if unit == "mixed" {
			b.WriteString(pick(r, []string{" ", "\t", "\n", "\r\n", "\r"}))
		} else {
			b.WriteString(unit)
		}
	}
	return b.String()
}

func stmtRandGap(r *rand.Rand) string {
	ws := func() string {
		if r.Intn(30) == 0 {
			return longWsRun(r)
		}
		return pick(r, wsPool)
	}
	g := ws()
	for r.Intn(3) == 0 {
		if r.Intn(2) == 0 {
			body := pick(r, stmtCommentBodies)
			body = strings.Replace(body, "*/", "* /", -1)
			g += "/*" + body + "*/" + ws()
		} else {
			g += "--" + pick(r, lineCommentBodies) + pick(r, []string{"\n", "\r\n", "\r"}) + ws()
		}
	}
	return g
}

// reLayout replaces every WS token of text by a fresh gap.
func reLayout(r *rand.Rand, text string) (string, bool) {
	type res struct {
		s  string
		ok bool
	}
	v := guard(5*time.Second, res{}, func() res { s, ok := reLayout0(r, text); return res{s, ok} })
	return v.s, v.ok
}

func reLayout0(r *rand.Rand, text string) (string, bool) {
	sc := influxql.NewScanner(strings.NewReader(text))
	var b strings.Builder
	rs := []rune(text)
	prev := 0
	for i := 0; i < len(rs)+4; i++ {
		tok, _, _ := sc.Scan()
		end := sc.VerifConsumed()
		if end > len(rs) {
			end = len(rs)
		}
		if tok == influxql.EOF {
			b.WriteString(string(rs[prev:end]))
			return b.String(), true
		}
		if tok == influxql.WS {
			b.WriteString(stmtRandGap(r))
		} else {
			b.WriteString(string(rs[prev:end]))
		}
		prev = end
	}
	return "", false
}

// spreadOut inserts a single blank into every gap between two tokens that has no whitespace, as
// long as the query still parses to the same statements (a blank is not allowed everywhere: `f (x)`,
// `a ::float`, `db. rp`). All gaps at once first; if that changes the parse, gap by gap.
func spreadOut(text string) string {
	return guard(20*time.Second, text, func() string { return spreadOut0(text) })
}

func spreadOut0(text string) string {
	want, err := queryDump(text)
	if err != nil {
		return text
	}
	toks := splitTokens(text)
	same := func(t string) bool {
		d, err := queryDump(t)
		return err == nil && d == want
	}
	join := func(blank []bool) string {
		var b strings.Builder
		for i, t := range toks {
			if i > 0 && blank[i] {
				b.WriteByte(' ')
			}
			b.WriteString(t)
		}
		return b.String()
	}
	// candidate gaps: between two non-blank tokens
	cand := make([]bool, len(toks))
	for i := 1; i < len(toks); i++ {
		cand[i] = !isBlankTok(toks[i-1]) && !isBlankTok(toks[i])
	}
	if all := join(cand); same(all) {
		return all
	}
	keep := make([]bool, len(toks))
	for i := 1; i < len(toks); i++ {
		if !cand[i] {
			continue
		}
		keep[i] = true
		if !same(join(keep)) {
			keep[i] = false
		}
	}
	return join(keep)
}

var reLeaf = regexp.MustCompile(`\(re s:([0-9a-f,]*)\)`)

// regexWithLayout reports whether the statement contains a regular expression literal with white
// space or a comment opener inside: the plain scanner, which finds the token boundaries for the
// re-layout, would cut such a literal into several tokens.
func regexWithLayout(text string) bool {
	return guard(10*time.Second, true, func() bool { return regexWithLayout0(text) })
}

func regexWithLayout0(text string) bool {
	d, err := queryDump(text)
	if err != nil {
		return true
	}
	for _, m := range reLeaf.FindAllStringSubmatch(d, -1) {
		src, err := decStr("s:" + m[1])
		if err != nil || strings.ContainsAny(src, " \t\r\n") || strings.Contains(src, "--") || strings.Contains(src, "/*") {
			return true
		}
	}
	return false
}

func genNeutralStmt(r *rand.Rand, n int, emit func(args ...string)) {
	fixed := [][2]string{
		{"SELECT a INTO db.rp :MEASUREMENT FROM m", "SELECT a INTO db.rp /*c*/ :MEASUREMENT FROM m"},
		{"SELECT a INTO rp :MEASUREMENT FROM m", "SELECT a INTO rp -- c\n :MEASUREMENT FROM m"},
		{"DROP DATABASE foo ; SHOW USERS", "DROP DATABASE foo /* done */ ; SHOW USERS"},
		{"SELECT value FROM cpu", "SELECT value /*/ see /var/log/influx */ FROM cpu"},
		{"SELECT value FROM cpu", "SELECT value --1\nFROM cpu"},
		{"SHOW DATABASES ; SHOW USERS ;", "SHOW DATABASES -- x\n ;\n\nSHOW USERS /* y */ ; -- z\n"},
		{"SELECT a FROM m ; ; SELECT b FROM n", "SELECT a\tFROM\r\nm\n;\r;\nSELECT b /**/ FROM n"},
		{"GRANT ALL TO x ; DROP USER y", "GRANT ALL TO x /* a */ ; DROP USER y -- b\n"},
		{"SELECT a FROM m WHERE x = 'it''s -- not a comment'", "SELECT a FROM m WHERE x = 'it''s -- not a comment'"},
		// the regex look-ahead points (finding comment-before-regex-lookahead, fixed)
		{"SELECT a, b FROM m", "SELECT a, /*c*/ b FROM m"},
		{"SELECT a, b FROM m", "SELECT a, -- c\n b FROM m"},
		{"SELECT /f/, b FROM m", "SELECT /*c*/ /f/, -- d\n b FROM m"},
		{"SELECT a FROM m", "SELECT a FROM /*c*/ m"},
		{"SELECT a FROM /m/", "SELECT a FROM -- c\n /m/"},
		{"SELECT a FROM m, /n/", "SELECT a FROM m, /*c*/ /n/"},
		{"SELECT a FROM m GROUP BY /t/", "SELECT a FROM m GROUP BY /*c*/ /t/"},
		{"SELECT a FROM m GROUP BY x, /t/, y", "SELECT a FROM m GROUP BY x, -- c\n /t/, /*d*/ y"},
		{"SELECT a FROM m WHERE t =~ /x/ AND u !~ /y/", "SELECT a FROM m WHERE t =~ /*c*/ /x/ AND u !~ -- d\n /y/"},
		{"SELECT f(a, /x/) FROM m", "SELECT f( /*c*/ a, -- d\n /x/) FROM m"},
		{"SHOW MEASUREMENTS WITH MEASUREMENT = cpu", "SHOW MEASUREMENTS WITH MEASUREMENT = /* c */ cpu"},
		{"SHOW MEASUREMENTS WITH MEASUREMENT =~ /cpu/", "SHOW MEASUREMENTS WITH MEASUREMENT =~ -- c\n /cpu/"},
		{"SHOW TAG VALUES WITH KEY =~ /k/", "SHOW TAG VALUES WITH KEY =~ /* c */ /k/"},
		{"SHOW TAG KEYS FROM /m/", "SHOW TAG KEYS FROM /*c*/ /m/"},
		{"DELETE FROM /m/ ; DROP SERIES FROM /n/", "DELETE FROM -- c\n /m/ ; DROP SERIES FROM /*c*/ /n/"},
	}
	for _, f := range fixed {
		emit(encStr(f[0]), encStr(f[1]))
	}
	// long batches of one statement (continuous-query style workloads send hundreds of statements in one
	// text): nothing may accumulate from statement to statement
	for _, st := range []string{
		"SELECT mean(v) FROM m WHERE time > now() - 1h GROUP BY time(1m)",
		"SELECT f(), g(h()) FROM m WHERE (((a > 1)))",
		"SELECT v FROM (SELECT v FROM (SELECT v FROM m)) WHERE x = -y AND t < now()",
		"SHOW TAG VALUES WITH KEY IN (a, b) WHERE c = now()",
	} {
		for _, k := range []int{127, 128, 129, 200, 300, 1025} {
			sep := " ; "
			if k%2 == 0 {
				sep = ";"
			}
			text := strings.Repeat(st+sep, k-1) + st
			emit(encStr(text), encStr(text))
		}
	}
	for i := 0; i < n; i++ {
		k := 1 + r.Intn(3)
		var parts []string
		rich := r.Intn(2) == 0
		for j := 0; j < k; j++ {
			g := newSgen(r)
			// half of the cases: the plain layout (few clauses, single names); the other half:
			// the full statement generator (field lists, aliases, calls, casts, subqueries,
			// segmented names, every option) in whatever layout it chose
			g.plain = !rich
			t := genStmtText(g)
			if rich && (!g.valid || strings.Contains(t, ";") || regexWithLayout(t)) {
				g = newSgen(r)
				g.plain = true
				t = genStmtText(g)
			}
			// token boundaries are found by counting the runes the reader delivers: fold CR
			// and CRLF first, as the reader does (the variant gets its own line ends)
			t = strings.NewReplacer("\r\n", "\n", "\r", "\n").Replace(t)
			parts = append(parts, t)
			if r.Intn(5) == 0 {
				parts = append(parts, "")
			}
		}
		base := strings.Join(parts, " ; ")
		if r.Intn(3) == 0 {
			base += " ;"
		}
		// two thirds of the cases: a blank in every inter-token gap where one is allowed (the
		// property quantifies over every gap that contains whitespace, and the plain layout has
		// none before commas, inside parentheses, around dots ...)
		if r.Intn(3) != 0 {
			base = spreadOut(base)
		}
		variant, ok := reLayout(r, base)
		if !ok {
			continue
		}
		emit(encStr(base), encStr(variant))
	}
}

func queryDump(text string) (string, error) {
	q, err := influxql.ParseQuery(text)
	if err != nil {
		return "", err
	}
	return sexpStatements(q.Statements), nil
}

var stmtLookaheadComment = regexp.MustCompile(`(?i)(\(|,|=|=~|!~|\bfrom|\bselect|\bby|\bmeasurement|\bkey)[ \t\r\n]*(/\*|--)`)

func stripStmtLookaheadComments(v string) string {
	for iter := 0; iter < 1000; iter++ {
		m := stmtLookaheadComment.FindStringSubmatchIndex(v)
		if m == nil {
			return v
		}
		start := m[4]
		end := len(v)
		if strings.HasPrefix(v[start:], "/*") {
			if k := strings.Index(v[start+2:], "*/"); k >= 0 {
				end = start + 2 + k + 2
			}
		} else if k := strings.IndexAny(v[start:], "\r\n"); k >= 0 {
			end = start + k + 1
		}
		v = v[:start] + " " + v[end:]
	}
	return v
}

func propNeutralStmt(args []string) string {
	ss, ok := decAll(args)
	if !ok || len(ss) != 2 {
		return "skip"
	}
	base, variant := ss[0], ss[1]
	d1, err1 := queryDump(base)
	if err1 != nil {
		// "parses to exactly those statements": when every part between semicolons is a query of exactly one
		// statement on its own, the whole text must be accepted too (round-3 seeded change C16-3: a counter kept
		// on the parser leaked from statement to statement and rejected long batches)
		if strings.Count(base, "'")+strings.Count(base, "\"")+strings.Count(base, "/") > 0 || strings.Contains(base, "--") {
			return "skip"
		}
		n := 0
		for _, part := range strings.Split(base, ";") {
			if strings.TrimSpace(part) == "" {
				continue
			}
			q, err := influxql.ParseQuery(part)
			if err != nil || len(q.Statements) != 1 {
				return "skip"
			}
			n++
		}
		if n == 0 {
			return "skip"
		}
		return fmt.Sprintf("each of the %d statements of %.120q… parses alone, the query does not: %v", n, base, err1)
	}
	d2, err2 := queryDump(variant)
	if err2 != nil {
		return fmt.Sprintf("%q parses but the same text with other whitespace/comments %q does not: %v", base, variant, err2)
	}
	if d1 != d2 {
		return fmt.Sprintf("%q and %q differ only in whitespace/comments but parse differently: %s vs %s", base, variant, d1, d2)
	}
	// each statement of the query equals the statement parsed alone, in order
	q, _ := influxql.ParseQuery(base)
	var alone []string
	for _, part := range strings.Split(base, ";") {
		if strings.TrimSpace(part) == "" {
			continue
		}
		st, err := influxql.ParseStatement(part)
		if err != nil {
			return fmt.Sprintf("query %q parses but its statement %q alone does not: %v", base, part, err)
		}
		alone = append(alone, sexpStatement(st))
	}
	if len(alone) != len(q.Statements) {
		if strings.Count(base, "'")+strings.Count(base, "\"") > 0 {
			return "skip" // a semicolon inside a literal: the naive split does not apply
		}
		return fmt.Sprintf("query %q has %d statements, split at semicolons it has %d", base, len(q.Statements), len(alone))
	}
	for i, st := range q.Statements {
		if sexpStatement(st) != alone[i] {
			return fmt.Sprintf("statement %d of %q differs from the same statement parsed alone", i, base)
		}
	}
	return ""
}

// whitespace containing at least one comment, directly in front of a `:` (the `:MEASUREMENT` of an INTO target)
var targetColonComment = regexp.MustCompile(`[ \t\r\n]*((/\*([^*]|\*[^/])*\*/|--[^\n]*\n)[ \t\r\n]*)+:`)

func knownNeutralStmt(args []string) string {
	ss, ok := decAll(args)
	if !ok || len(ss) != 2 {
		return ""
	}
	base, variant := ss[0], ss[1]
	// recorded finding: a comment in the whitespace between the INTO target and `:MEASUREMENT`
	// (parseTarget peeks at the next rune behind one pushed-back WS token)
	if targetColonComment.MatchString(variant) {
		stripped := targetColonComment.ReplaceAllString(variant, " :")
		d1, err1 := queryDump(base)
		d2, err2 := queryDump(stripped)
		if err1 == nil && err2 == nil && d1 == d2 {
			return "comment-before-target-colon"
		}
	}
	if !stmtLookaheadComment.MatchString(variant) {
		return ""
	}
	d1, err1 := queryDump(base)
	d2, err2 := queryDump(stripStmtLookaheadComments(variant))
	if err1 != nil || err2 != nil || d1 != d2 {
		return ""
	}
	return "comment-before-regex-lookahead"
}

func init() {
	register(&stream{name: "neutral.stmt", gen: genNeutralStmt, prop: propNeutralStmt, known: knownNeutralStmt,
		impl: func(args []string) string {
			ss, ok := decAll(args)
			if !ok || len(ss) != 2 {
				return "bad-arg"
			}
			if _, err := queryDump(ss[0]); err != nil {
				return "rejected"
			}
			return "accepted"
		},
		class: func(args []string, out string) string {
			if strings.Contains(args[1], "2f,2a") || strings.Contains(args[1], "2d,2d") {
				return out + "+comment"
			}
			return out
		},
		nontrivial: func(args []string, out string) bool { return out == "accepted" }})
}

package main

import (
	"encoding/json"
	"fmt"
	"math"
	"math/rand"
	"sort"
	"strconv"
	"strings"
	"unicode"

	"github.com/influxdata/influxql"
)

// Bound parameters in case lines.
//
//	p:<entry>;<entry>...    entry = <name hex>/<goval>/<tok>/<value text hex>
//	goval: f<bits hex> | i<dec> | s<hex> | b0 | b1 | j<hex> (json.Number) | n (nil) | u (an unbindable Go type)
//	       | o<key hex>=<goval> (single-entry object) | m (object with two entries)
//
// The model reads only name, tok and value text (what BindValue produced); the
// implementation runner rebuilds the Go value and calls SetParams.

func encHex(s string) string {
	e := encStr(s)
	return e[2:]
}

func decHex(h string) (string, error) { return decStr("s:" + h) }

func encGoVal(v interface{}) string {
	switch v := v.(type) {
	case float64:
		return "f" + strconv.FormatUint(math.Float64bits(v), 16)
	case int64:
		return "i" + strconv.FormatInt(v, 10)
	case string:
		return "s" + encHex(v)
	case bool:
		if v {
			return "b1"
		}
		return "b0"
	case json.Number:
		return "j" + encHex(string(v))
	case nil:
		return "n"
	case map[string]interface{}:
		if len(v) == 1 {
			for k, x := range v {
				return "o" + encHex(k) + "=" + encGoVal(x)
			}
		}
		return "m"
	default:
		return "u"
	}
}

func decGoVal(s string) (interface{}, error) {
	if s == "" {
		return nil, fmt.Errorf("empty goval")
	}
	switch s[0] {
	case 'f':
		b, err := strconv.ParseUint(s[1:], 16, 64)
		return math.Float64frombits(b), err
	case 'i':
		return strconv.ParseInt(s[1:], 10, 64)
	case 's':
		return decHex(s[1:])
	case 'b':
		return s == "b1", nil
	case 'j':
		t, err := decHex(s[1:])
		return json.Number(t), err
	case 'n':
		return nil, nil
	case 'u':
		return int32(7), nil
	case 'm':
		return map[string]interface{}{"a": "x", "b": "y"}, nil
	case 'o':
		i := strings.IndexByte(s, '=')
		if i < 0 {
			return nil, fmt.Errorf("bad object goval")
		}
		k, err := decHex(s[1:i])
		if err != nil {
			return nil, err
		}
		x, err := decGoVal(s[i+1:])
		return map[string]interface{}{k: x}, err
	}
	return nil, fmt.Errorf("bad goval %q", s)
}

func encParams(params map[string]interface{}) string {
	names := make([]string, 0, len(params))
	for k := range params {
		names = append(names, k)
	}
	sort.Strings(names)
	var parts []string
	for _, k := range names {
		// what the implementation binds the value to; a BindValue that panics or returns nil must
		// not take the generator down: it is shipped as token -1 (the model answers bad-arg, the
		// implementation's own outcome on the case is what gets reported)
		tok, val := -1, ""
		func() {
			defer func() { _ = recover() }()
			bv := influxql.BindValue(params[k])
			tok, val = int(bv.TokenType()), bv.Value()
		}()
		parts = append(parts, fmt.Sprintf("%s/%s/%d/%s", encHex(k), encGoVal(params[k]), tok, encHex(val)))
	}
	return "p:" + strings.Join(parts, ";")
}

func decParams(a string) (map[string]interface{}, error) {
	if !strings.HasPrefix(a, "p:") {
		return nil, fmt.Errorf("not a params arg")
	}
	out := map[string]interface{}{}
	if a == "p:" {
		return out, nil
	}
	for _, e := range strings.Split(a[2:], ";") {
		f := strings.Split(e, "/")
		if len(f) != 4 {
			return nil, fmt.Errorf("bad param entry %q", e)
		}
		name, err := decHex(f[0])
		if err != nil {
			return nil, err
		}
		v, err := decGoVal(f[1])
		if err != nil {
			return nil, err
		}
		out[name] = v
	}
	return out, nil
}

// encLower lists unicode.ToLower for the non-ASCII runes of the texts that change under it.
func encLower(texts ...string) string {
	seen := map[rune]bool{}
	var parts []string
	for _, t := range texts {
		for _, r := range t {
			if r < 0x80 || seen[r] {
				continue
			}
			seen[r] = true
			if l := unicode.ToLower(r); l != r {
				parts = append(parts, fmt.Sprintf("%x-%x", r, l))
			}
		}
	}
	return "l:" + strings.Join(parts, ",")
}

// randParamValue returns a Go value of any bindable (and some unbindable) kind.
func randParamValue(r *rand.Rand) interface{} {
	switch r.Intn(16) {
	case 0:
		return float64(r.Intn(2000)-1000) / 8
	case 1:
		return int64(r.Intn(2000) - 1000)
	case 2:
		return pick(r, []string{"", "x", "it's", "a;b", "-- c", "/* c */", "SELECT", "1", "a\"b", "a\\b", "a\nb", "' OR 1=1", "cpu"})
	case 3:
		return r.Intn(2) == 0
	case 4:
		return map[string]interface{}{pick(r, []string{"identifier", "ident"}): pick(r, []string{"cpu", "a b", "select", "", "x.y", "a\"b", "1a"})}
	case 5:
		return map[string]interface{}{"regex": pick(r, []string{"a.*", "^cpu$", "a/b", "", "(a|b)", "x y"})}
	case 6:
		return map[string]interface{}{"string": pick(r, []string{"s", "", "it's", "a\\"})}
	case 7:
		return map[string]interface{}{pick(r, []string{"float", "number"}): []interface{}{1.5, int64(3), "x"}[r.Intn(3)]}
	case 8:
		return map[string]interface{}{pick(r, []string{"int", "integer"}): []interface{}{int64(42), 1.5, "x", int64(math.MinInt64), int64(math.MaxInt64)}[r.Intn(5)]}
	case 9:
		return map[string]interface{}{"duration": []interface{}{"10m", "1h30m", "bogus", int64(90000000000), int64(0), 1.5, "1"}[r.Intn(7)]}
	case 10:
		return map[string]interface{}{pick(r, []string{"bogus", "", "STRING"}): "x"}
	case 11:
		return json.Number(pick(r, []string{"1", "1.5", "-3", "1e3", "9223372036854775808", "abc", "0.1"}))
	case 12:
		return map[string]interface{}{"integer": json.Number(pick(r, []string{"7", "7.5", "x"}))}
	case 13:
		return nil
	case 14:
		return int32(7)
	default:
		return pick(r, kwPool)
	}
}

func randParams(r *rand.Rand, names []string) map[string]interface{} {
	out := map[string]interface{}{}
	for _, n := range names {
		if r.Intn(6) != 0 {
			out[n] = randParamValue(r)
		}
	}
	return out
}

package main

import (
	"fmt"
	"math/rand"
	"strconv"

	"github.com/influxdata/influxql"
)

// Exhaustive finite tables for C12 (the generators ignore n):
//
//	types.less i:<a> i:<b>                  DataType(a).LessThan(DataType(b))
//	types.eval i:<op token> <lhs> <rhs>     EvalType of `lhs op rhs`; an operand is r<t> (a reference the
//	                                        mapper types as t), I U N S B D X (integer, unsigned, number,
//	                                        string, boolean, duration, nil literal)

type fixedTypeMapper map[string]influxql.DataType

func (m fixedTypeMapper) MapType(_ *influxql.Measurement, field string) influxql.DataType {
	return m[field]
}

var evalOperands = []string{"r0", "r1", "r2", "r3", "r4", "r5", "r6", "r7", "r8", "r9", "I", "U", "N", "S", "B", "D", "X"}

func evalOperand(kind, name string, tm fixedTypeMapper) influxql.Expr {
	switch kind {
	case "I":
		return &influxql.IntegerLiteral{Val: 1}
	case "U":
		return &influxql.UnsignedLiteral{Val: 1}
	case "N":
		return &influxql.NumberLiteral{Val: 1.5}
	case "S":
		return &influxql.StringLiteral{Val: "s"}
	case "B":
		return &influxql.BooleanLiteral{Val: true}
	case "D":
		return &influxql.DurationLiteral{Val: 1}
	case "X":
		return &influxql.NilLiteral{}
	}
	t, _ := strconv.Atoi(kind[1:])
	tm[name] = influxql.DataType(t)
	return &influxql.VarRef{Val: name}
}

func init() {
	register(&stream{name: "types.less",
		gen: func(r *rand.Rand, n int, emit func(args ...string)) {
			for a := 0; a < 10; a++ {
				for b := 0; b < 10; b++ {
					emit(encInt(int64(a)), encInt(int64(b)))
				}
			}
		},
		impl: func(args []string) string {
			a, _ := decInt(args[0])
			b, _ := decInt(args[1])
			return fmt.Sprint(influxql.DataType(a).LessThan(influxql.DataType(b)))
		},
		prop: func(args []string) string {
			// independent reading of the comment on LessThan: a strict precedence order
			// Float > Integer > Unsigned > String > Boolean > Time > Duration > Tag > AnyField > Unknown,
			// except that Unknown is below everything including itself
			a, _ := decInt(args[0])
			b, _ := decInt(args[1])
			da, db := influxql.DataType(a), influxql.DataType(b)
			want := da == influxql.Unknown || (db != influxql.Unknown && typeRank[db] < typeRank[da])
			if got := da.LessThan(db); got != want {
				return fmt.Sprintf("%s.LessThan(%s) = %v", da, db, got)
			}
			return ""
		}})
	register(&stream{name: "types.eval",
		gen: func(r *rand.Rand, n int, emit func(args ...string)) {
			for op := influxql.ADD; op <= influxql.GTE; op++ {
				for _, l := range evalOperands {
					for _, rr := range evalOperands {
						emit(encInt(int64(op)), l, rr)
					}
				}
			}
		},
		impl: func(args []string) string {
			op, _ := decInt(args[0])
			tm := fixedTypeMapper{}
			e := &influxql.BinaryExpr{Op: influxql.Token(op), LHS: evalOperand(args[1], "l", tm), RHS: evalOperand(args[2], "r", tm)}
			v := influxql.TypeValuerEval{TypeMapper: tm, Sources: influxql.Sources{&influxql.Measurement{Name: "m"}}}
			t, err := v.EvalType(e)
			if err != nil {
				return "err"
			}
			return fmt.Sprintf("ok %d", int(t))
		},
		// the type the schema merge assigns to `l op r` is the type of the value the evaluator computes for
		// it on ordinary (non-zero) operands of those types: whatever EvalType says must be borne out by Eval
		// (round-5 seeded change C12-1: EvalType runs the evaluator on zero values, and a tidy-up of the
		// division-by-zero branch changed the type of integer / integer columns of subqueries)
		prop: func(args []string) string {
			op, _ := decInt(args[0])
			if args[1] == "X" || args[2] == "X" || args[1] == "D" || args[2] == "D" {
				return "skip" // nil and duration literals do not come from a schema
			}
			tm := fixedTypeMapper{}
			e := &influxql.BinaryExpr{Op: influxql.Token(op), LHS: evalOperand(args[1], "l", tm), RHS: evalOperand(args[2], "r", tm)}
			v := influxql.TypeValuerEval{TypeMapper: tm, Sources: influxql.Sources{&influxql.Measurement{Name: "m"}}}
			t, err := v.EvalType(e)
			if err != nil {
				return "skip"
			}
			sample := func(dt influxql.DataType, k int) (interface{}, bool) {
				switch dt {
				case influxql.Float:
					return float64(6 / k), true
				case influxql.Integer:
					return int64(6 / k), true
				case influxql.Unsigned:
					return uint64(6 / k), true
				case influxql.String:
					return "x", true
				case influxql.Boolean:
					return k == 1, true
				}
				return nil, false
			}
			m := map[string]interface{}{}
			for i, name := range []string{"l", "r"} {
				if dt, isRef := tm[name]; isRef {
					val, ok := sample(dt, i+1)
					if !ok {
						return "skip"
					}
					m[name] = val
				}
			}
			var want influxql.DataType
			switch influxql.Eval(e, m).(type) {
			case float64:
				want = influxql.Float
			case int64:
				want = influxql.Integer
			case uint64:
				want = influxql.Unsigned
			case string:
				want = influxql.String
			case bool:
				want = influxql.Boolean
			default:
				return "skip"
			}
			if t != want {
				return fmt.Sprintf("EvalType(%s) = %s, but the evaluator computes a %s for operands of these types", e.String(), t, want)
			}
			return ""
		}})
}

package main

import (
	"fmt"
	"math"
	"math/big"
	"math/rand"
	"regexp"
	"strconv"
	"strings"
	"time"
	"unicode/utf8"

	"github.com/influxdata/influxql"
)

// Streams for C08: ParseDuration / FormatDuration.

var durUnits = []struct {
	s string
	m int64
}{{"ns", 1}, {"u", 1000}, {"µ", 1000}, {"ms", 1000000}, {"s", 1000000000}, {"m", 60000000000}, {"h", 3600000000000}, {"d", 86400000000000}, {"w", 604800000000000}}

func genDurParse(r *rand.Rand, n int, emit func(args ...string)) {
	e := func(s string) { emit(encStr(s)) }
	// fixed boundary sweep first
	for _, u := range durUnits {
		q := math.MaxInt64 / u.m
		for d := int64(-3); d <= 3; d++ {
			if q+d >= 0 && q+d <= math.MaxInt64-3 || d <= 0 {
				e(fmt.Sprintf("%d%s", q+d, u.s))
				e(fmt.Sprintf("-%d%s", q+d, u.s))
			}
		}
		for p := int64(1); p > 0 && p < math.MaxInt64/10; p *= 10 {
			e(fmt.Sprintf("%d%s", p, u.s))
		}
		e("0" + u.s)
		e("007" + u.s)
		e("9223372036854775808" + u.s)
		e("99999999999999999999999" + u.s)
		// digit runs around and beyond 2^64 (a hand-rolled digit accumulator would wrap here)
		two64 := new(big.Int).Lsh(big.NewInt(1), 64)
		for _, k := range []int64{1, 2, 3, 10} {
			base := new(big.Int).Mul(two64, big.NewInt(k))
			for _, x := range []int64{-1, 0, 1, 2, 7, 1000, 1 << 40} {
				e(new(big.Int).Add(base, big.NewInt(x)).String() + u.s)
			}
		}
		e(new(big.Int).Add(two64, new(big.Int).Lsh(big.NewInt(1), 63)).String() + u.s)
		e(new(big.Int).Add(new(big.Int).Lsh(big.NewInt(1), 128), big.NewInt(1)).String() + u.s)
	}
	for _, s := range []string{"", "-", "1", "s", "ms", "1n", "1mss", "µ", "1µ", "-1µs", "1x", "1 s", "--1s", "1s-", "1s1", "1.5s", "1S", "1ms1m1s", "1m1ms", "1w1d1h1m1s1ms1u1ns", "0s", "-0s", "00", "1h\x00", "٣s", "1msms", "1nsns", "1nss", "1mns"} {
		e(s)
	}
	alphabet := []rune("0123456789nsuµmhdw-x. ")
	for i := 0; i < n; i++ {
		switch r.Intn(11) {
		case 10: // digit runs of 19-26 digits: far beyond int64, where wrap-around arithmetic comes back positive
			var b strings.Builder
			if r.Intn(4) == 0 {
				b.WriteByte('-')
			}
			k := 1 + r.Intn(2)
			for j := 0; j < k; j++ {
				nd := 19 + r.Intn(8)
				if j > 0 {
					nd = 1 + r.Intn(4)
				}
				b.WriteByte(byte('1' + r.Intn(9)))
				for q := 1; q < nd; q++ {
					b.WriteByte(byte('0' + r.Intn(10)))
				}
				b.WriteString(durUnits[r.Intn(len(durUnits))].s)
			}
			e(b.String())
		case 0, 1: // soup
			k := r.Intn(8)
			rs := make([]rune, k)
			for j := range rs {
				rs[j] = alphabet[r.Intn(len(alphabet))]
			}
			e(string(rs))
		case 2, 3, 4: // sums near the overflow boundary
			var b strings.Builder
			if r.Intn(3) == 0 {
				b.WriteByte('-')
			}
			remain := int64(math.MaxInt64)
			k := 1 + r.Intn(4)
			for j := 0; j < k; j++ {
				u := durUnits[r.Intn(len(durUnits))]
				q := remain / u.m
				var c int64
				if j == k-1 || r.Intn(2) == 0 {
					c = q + int64(r.Intn(5)) - 2 // around what still fits
				} else if q > 0 {
					c = int63n1(r, q)
				}
				if c < 0 {
					c = 0
				}
				fmt.Fprintf(&b, "%d%s", c, u.s)
				if c <= q {
					remain -= c * u.m
				}
			}
			e(b.String())
		default: // ordinary well-formed
			var b strings.Builder
			if r.Intn(4) == 0 {
				b.WriteByte('-')
			}
			k := 1 + r.Intn(3)
			for j := 0; j < k; j++ {
				u := durUnits[r.Intn(len(durUnits))]
				var c int64
				switch r.Intn(3) {
				case 0:
					c = int64(r.Intn(100))
				case 1:
					c = r.Int63n(1000000)
				default:
					c = int63n1(r, math.MaxInt64/u.m)
				}
				if r.Intn(10) == 0 {
					b.WriteString("0")
				}
				fmt.Fprintf(&b, "%d%s", c, u.s)
			}
			e(b.String())
		}
	}
}

// int63n1 returns a uniform value in [0, q].
func int63n1(r *rand.Rand, q int64) int64 {
	if q == math.MaxInt64 {
		return r.Int63()
	}
	return r.Int63n(q + 1)
}

func implDurParse(args []string) string {
	s, err := decStr(args[0])
	if err != nil {
		return "bad-arg"
	}
	d, perr := influxql.ParseDuration(s)
	if perr != nil {
		return "err " + encStr(perr.Error())
	}
	return "ok " + encInt(int64(d))
}

var durGrammar = regexp.MustCompile(`^(-?)((?:[0-9]+(?:ns|u|µ|ms|m|s|h|d|w))+)$`)
var durComp = regexp.MustCompile(`([0-9]+)(ns|u|µ|ms|m|s|h|d|w)`)

// propDurParse: the result is exactly the written sum, or an error; a sum that
// does not fit in int64 nanoseconds must be an error. Exact arithmetic in big.Int.
func propDurParse(args []string) string {
	s, err := decStr(args[0])
	if err != nil {
		return "skip"
	}
	d, perr := influxql.ParseDuration(s)
	m := durGrammar.FindStringSubmatch(s)
	if m == nil {
		if perr == nil {
			return fmt.Sprintf("ParseDuration(%q) = %d for a string outside the duration grammar", s, int64(d))
		}
		return ""
	}
	sum := new(big.Int)
	for _, c := range durComp.FindAllStringSubmatch(m[2], -1) {
		n, _ := new(big.Int).SetString(c[1], 10)
		var mult int64
		for _, u := range durUnits {
			if u.s == c[2] {
				mult = u.m
			}
		}
		sum.Add(sum, n.Mul(n, big.NewInt(mult)))
	}
	fits := sum.Cmp(big.NewInt(math.MaxInt64)) <= 0
	if m[1] == "-" {
		sum.Neg(sum)
	}
	if perr == nil {
		if !fits || sum.Cmp(big.NewInt(int64(d))) != 0 {
			return fmt.Sprintf("ParseDuration(%q) = %d, exact sum is %s", s, int64(d), sum)
		}
	}
	return ""
}

func genDurFormat(r *rand.Rand, n int, emit func(args ...string)) {
	e := func(d int64) { emit(encInt(d)) }
	for _, d := range []int64{0, 1, -1, math.MaxInt64, math.MinInt64, math.MinInt64 + 1, 1500000, 999, 1000, 1001} {
		e(d)
	}
	for _, u := range durUnits {
		for k := int64(-2); k <= 2; k++ {
			e(u.m + k)
			e(-(u.m + k))
			e(u.m*7 + k)
			q := math.MaxInt64 / u.m
			e(q*u.m + 0)
			e(-(q * u.m))
		}
	}
	for i := 0; i < n; i++ {
		u := durUnits[r.Intn(len(durUnits))]
		var d int64
		switch r.Intn(4) {
		case 0:
			d = int64(r.Uint64())
		case 1:
			d = int63n1(r, math.MaxInt64/u.m) * u.m
		case 2:
			d = r.Int63n(100000) * u.m
		default:
			d = r.Int63n(1000)*u.m + r.Int63n(3)*durUnits[r.Intn(len(durUnits))].m
		}
		if r.Intn(3) == 0 {
			d = -d
		}
		e(d)
	}
}

func implDurFormat(args []string) string {
	d, err := decInt(args[0])
	if err != nil {
		return "bad-arg"
	}
	return encStr(influxql.FormatDuration(time.Duration(d)))
}

// propDurFormat: largest dividing unit; zero as 0s; parse∘format = id except MinInt64.
func propDurFormat(args []string) string {
	d, err := decInt(args[0])
	if err != nil {
		return "skip"
	}
	s := influxql.FormatDuration(time.Duration(d))
	want := "0s"
	if d != 0 {
		order := []struct {
			s string
			m int64
		}{{"w", 604800000000000}, {"d", 86400000000000}, {"h", 3600000000000}, {"m", 60000000000}, {"s", 1000000000}, {"ms", 1000000}, {"u", 1000}, {"ns", 1}}
		for _, u := range order {
			if d%u.m == 0 {
				want = strconv.FormatInt(d/u.m, 10) + u.s
				break
			}
		}
	}
	if s != want {
		return fmt.Sprintf("FormatDuration(%d) = %q, largest dividing unit gives %q", d, s, want)
	}
	if d != math.MinInt64 {
		back, perr := influxql.ParseDuration(s)
		if perr != nil || int64(back) != d {
			return fmt.Sprintf("ParseDuration(FormatDuration(%d) = %q) = %d, %v", d, s, int64(back), perr)
		}
	}
	return ""
}

func init() {
	register(&stream{name: "dur.parse", gen: genDurParse, impl: implDurParse, prop: propDurParse,
		class: func(args []string, out string) string {
			if strings.HasPrefix(out, "ok") {
				return "ok"
			}
			s, _ := decStr(strings.TrimPrefix(out, "err "))
			if strings.HasPrefix(s, "overflowed") {
				return "err-overflow"
			}
			return "err-invalid"
		},
		nontrivial: func(args []string, out string) bool { return len(args[0]) > 4 }})
	register(&stream{name: "dur.format", gen: genDurFormat, impl: implDurFormat, prop: propDurFormat,
		class: func(args []string, out string) string {
			s, _ := decStr(out)
			return "unit-" + strings.TrimLeft(s, "-0123456789")
		}})
}

// ---------------------------------------------------------------- dur.literal: duration literals inside queries

// exactDuration: the exact sum of a duration spelling (unsigned, the grammar of durGrammar), and whether
// it fits in int64 nanoseconds.
func exactDuration(s string) (sum *big.Int, inGrammar, fits bool) {
	m := durGrammar.FindStringSubmatch(s)
	if m == nil || m[1] == "-" {
		return nil, false, false
	}
	sum = new(big.Int)
	for _, c := range durComp.FindAllStringSubmatch(m[2], -1) {
		n, _ := new(big.Int).SetString(c[1], 10)
		var mult int64
		for _, u := range durUnits {
			if u.s == c[2] {
				mult = u.m
			}
		}
		sum.Add(sum, n.Mul(n, big.NewInt(mult)))
	}
	return sum, true, sum.Cmp(big.NewInt(math.MaxInt64)) <= 0
}

func genDurLiteral(r *rand.Rand, n int, emit func(args ...string)) {
	e := func(s string) { emit(encStr(s), "p:", encLower(s)) }
	for _, s := range []string{"1s", "3s7µ", "1ms500µ", "2h10µ5ns", "1µ2u3µ", "1w1d1h1m1s1ms1µ1u1ns", "0s", "00s", "5u", "5µ", "15250w", "15251w", "15250w15250w", "9223372036854775807ns", "9223372036854775807ns1ns", "9223372036854775808ns", "2562047h47m16s854ms775u807ns", "2562047h47m16s854ms775u808ns", "1s1", "1µs", "1us", "1S", "1.5s", "10m5"} {
		e(s)
	}
	for i := 0; i < n; i++ {
		switch r.Intn(8) {
		case 0:
			e(randCompositeDuration(r))
		case 1: // steered to the overflow boundary: MaxInt64 split over two or three components
			u := durUnits[r.Intn(len(durUnits))]
			q := math.MaxInt64 / u.m
			rest := math.MaxInt64 - q*u.m + int64(r.Intn(3)) - 1
			if rest < 0 {
				rest = 0
			}
			e(fmt.Sprintf("%d%s%dns", q, u.s, rest))
		default:
			e(randValidCompositeDuration(r))
		}
	}
}

// propDurLiteral: a duration literal written in a query (as an expression, as a GROUP BY interval, as the
// DURATION of a retention policy) yields exactly the sum of its components, or the query is rejected; a
// sum beyond int64 nanoseconds is rejected; the literal prints as a duration that parses back to it.
func propDurLiteral(args []string) string {
	s, err := decStr(args[0])
	if err != nil {
		return "skip"
	}
	sum, inGrammar, fits := exactDuration(s)
	check := func(where string, got int64, perr error) string {
		switch {
		case perr != nil:
			return ""
		case !inGrammar:
			return fmt.Sprintf("%s: %q is accepted as the duration %d although it is outside the duration grammar", where, s, got)
		case !fits || sum.Cmp(big.NewInt(got)) != 0:
			return fmt.Sprintf("%s: %q yields %d, the exact sum is %s", where, s, got, sum)
		}
		return ""
	}
	// as an expression
	e, perr := influxql.ParseExpr(s)
	if perr == nil {
		switch lit := e.(type) {
		case *influxql.DurationLiteral:
			if msg := check("ParseExpr", int64(lit.Val), nil); msg != "" {
				return msg
			}
			back, berr := influxql.ParseExpr(lit.String())
			if bl, ok := back.(*influxql.DurationLiteral); berr != nil || !ok || bl.Val != lit.Val {
				return fmt.Sprintf("ParseExpr(%q) prints as %q, which does not parse back to it", s, lit.String())
			}
		default:
			if inGrammar {
				return fmt.Sprintf("ParseExpr(%q) is %T, not a duration literal", s, e)
			}
		}
	} else if inGrammar && fits && sum.Sign() >= 0 {
		return fmt.Sprintf("ParseExpr(%q) is rejected (%v) although the sum %s fits", s, perr, sum)
	}
	// as a GROUP BY interval
	if st, perr := influxql.ParseStatement("SELECT mean(v) FROM m WHERE time > 0 GROUP BY time(" + s + ")"); perr == nil {
		if sel, ok := st.(*influxql.SelectStatement); ok {
			if d, derr := sel.GroupByInterval(); derr == nil {
				if msg := check("GROUP BY time()", int64(d), nil); msg != "" {
					return msg
				}
			}
		}
	} else if inGrammar && fits && sum.Sign() > 0 {
		return fmt.Sprintf("GROUP BY time(%s) is rejected (%v) although the sum %s fits", s, perr, sum)
	}
	// the same spelling several times in one text, with and without a sign: every occurrence is its own
	// literal with its own value (round-3 seeded change C08-3 shared one node per spelling within a parser,
	// and the unary minus negated it in place)
	if inGrammar && fits {
		v := sum.Int64()
		want := []int64{-v, v, -v, v}
		texts := []string{
			"a > -" + s + " AND b < " + s + " AND c > -" + s + " AND d < " + s,
		}
		for _, t := range texts {
			if e, err := influxql.ParseExpr(t); err == nil {
				var got []int64
				influxql.WalkFunc(e, func(n influxql.Node) {
					if d, ok := n.(*influxql.DurationLiteral); ok {
						got = append(got, int64(d.Val))
					}
				})
				if fmt.Sprint(got) != fmt.Sprint(want) {
					return fmt.Sprintf("%q: the duration literals are %v, written %v", t, got, want)
				}
			}
		}
		q := "SELECT a FROM m WHERE time > -" + s + "; SELECT a FROM m WHERE time > now() - " + s + "; SELECT a FROM m WHERE time > -" + s
		if qq, err := influxql.ParseQuery(q); err == nil {
			var got []int64
			influxql.WalkFunc(qq, func(n influxql.Node) {
				if d, ok := n.(*influxql.DurationLiteral); ok {
					got = append(got, int64(d.Val))
				}
			})
			if fmt.Sprint(got) != fmt.Sprint([]int64{-v, v, -v}) {
				return fmt.Sprintf("%q: the duration literals are %v, written %v", q, got, []int64{-v, v, -v})
			}
		}
	}
	// as a retention policy duration (minimum 1h, or 0)
	if st, perr := influxql.ParseStatement("CREATE RETENTION POLICY p ON d DURATION " + s + " REPLICATION 1"); perr == nil {
		if c, ok := st.(*influxql.CreateRetentionPolicyStatement); ok {
			if msg := check("CREATE RETENTION POLICY … DURATION", int64(c.Duration), nil); msg != "" {
				return msg
			}
		}
	}
	return ""
}

func init() {
	register(&stream{name: "dur.literal", gen: genDurLiteral, impl: implParseExpr, prop: propDurLiteral,
		class: func(args []string, out string) string { return out[:2] },
		nontrivial: func(args []string, out string) bool {
			s, _ := decStr(args[0])
			return len(durComp.FindAllString(s, -1)) >= 2
		}})
}

// ---------------------------------------------------------------- dur.bytes: ParseDuration on raw bytes

// genDurBytes: duration spellings damaged at the byte level: a multi-byte unit letter cut short at every
// place (the lone lead byte 0xC2 of 'µ' at the end, in the middle, doubled), stray continuation bytes,
// over-long encodings, and random byte edits of valid spellings (round-3 seeded change C04-1 read s[i+1]
// after a lead byte without a length check).
func genDurBytes(r *rand.Rand, n int, emit func(args ...string)) {
	e := func(b []byte) { emit(encStr(string(b)), encBytes(b)) }
	for _, s := range []string{"1\xc2", "10m5\xc2", "1\xc2\xb5", "1\xb5", "1\xc2s", "5\xc2\xc2", "1\xc2\xb5\xc2", "\xc2", "1\xce\xbc", "1\xc3", "1m\xc2", "1\xe2\x82", "1\xf0\x9f\x98", "3s7\xc2", "1\xc0\xb5", "1u\xff", "\xff1s", "1\x00s", "1s\x00"} {
		b, _ := strconv.Unquote(`"` + s + `"`)
		e([]byte(b))
	}
	for i := 0; i < n; i++ {
		b := []byte(randValidCompositeDuration(r))
		switch r.Intn(5) {
		case 0: // truncate inside the text (possibly inside a µ)
			b = b[:r.Intn(len(b)+1)]
		case 1: // append a lead byte
			b = append(b, []byte{0xc2, 0xc3, 0xe2, 0xf0, 0xb5, 0x80}[r.Intn(6)])
		case 2: // replace a byte
			if len(b) > 0 {
				b[r.Intn(len(b))] = byte(r.Intn(256))
			}
		case 3: // insert a µ cut short
			k := r.Intn(len(b) + 1)
			b = append(b[:k:k], append([]byte{0xc2}, b[k:]...)...)
		}
		e(b)
	}
}

func implDurBytes(args []string) string {
	if len(args) != 2 {
		return "bad-arg"
	}
	b, err := decBytes(args[1])
	if err != nil {
		return "bad-arg"
	}
	d, perr := influxql.ParseDuration(string(b))
	if perr != nil {
		return "err " + encStr(perr.Error())
	}
	return "ok " + encInt(int64(d))
}

// propDurBytes: any byte string yields the exact sum of a well-formed spelling or an error (a panic is
// reported by the driver); the same holds when the bytes arrive as a bound duration parameter.
func propDurBytes(args []string) string {
	if len(args) != 2 {
		return "skip"
	}
	b, err := decBytes(args[1])
	if err != nil {
		return "skip"
	}
	if msg := propDurParse([]string{encStr(string(b))}); msg != "" && utf8.Valid(b) {
		return msg
	}
	d, perr := influxql.ParseDuration(string(b))
	if perr == nil && !durGrammar.Match(b) {
		return fmt.Sprintf("ParseDuration(%q) = %d for bytes outside the duration grammar", b, int64(d))
	}
	p := influxql.NewParser(strings.NewReader("SELECT v FROM m WHERE time > now() - $d"))
	p.SetParams(map[string]interface{}{"d": map[string]interface{}{"duration": string(b)}})
	st, serr := p.ParseStatement()
	if serr == nil && st == nil {
		return fmt.Sprintf("duration parameter %q: nil statement and nil error", b)
	}
	return ""
}

func init() {
	register(&stream{name: "dur.bytes", gen: genDurBytes, impl: implDurBytes, prop: propDurBytes,
		class:      func(args []string, out string) string { return out[:2] },
		nontrivial: func(args []string, out string) bool { b, _ := decBytes(args[1]); return !utf8.Valid(b) }})
}

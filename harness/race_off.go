//go:build !race

package main

// raceEnabled reports whether the harness was built with the race detector (config "go_race").
const raceEnabled = false

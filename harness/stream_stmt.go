package main

import (
	"fmt"
	"math/rand"
	"reflect"
	"regexp"
	"strconv"
	"strings"
	_ "time/tzdata" // time zones must not depend on the machine

	"github.com/influxdata/influxql"
)

// Streams for C01 / C02 / C04 / C16 over whole statements.
//
//	parse.stmt  s:<text> p:<params> l:<lower table> [valid|-]   ParseStatement
//	parse.query s:<text> p:<params> l:<lower table> [valid|-]   ParseQuery
//	print.stmt  s:<text> p:<params> l:<lower table> [valid|-]   String() of the parsed statement
//
// The optional last argument is the generator's claim that the text was built from
// grammar-conforming parts only (no bound parameters, no comments, in-range numbers): the C01
// property oracle demands that such a text is accepted.

func paramStrings(params map[string]interface{}) []string {
	var out []string
	var walk func(v interface{})
	walk = func(v interface{}) {
		switch v := v.(type) {
		case string:
			out = append(out, v)
		case map[string]interface{}:
			for _, x := range v {
				walk(x)
			}
		}
	}
	for _, v := range params {
		walk(v)
	}
	return out
}

func stmtCase(text string, params map[string]interface{}, valid bool) []string {
	flag := "-"
	// `a --1` and `a /*` open comments: pieces glued without whitespace may do that by accident
	if valid && !strings.Contains(text, "--") && !strings.Contains(text, "/*") {
		flag = "valid"
	}
	return []string{encStr(text), encParams(params), encLower(append([]string{text}, paramStrings(params)...)...), flag}
}

func newStmtParser(text string, params map[string]interface{}) *influxql.Parser {
	p := influxql.NewParser(strings.NewReader(text))
	applyParams(p, text, params)
	return p
}

func decStmtArgs(args []string) (string, map[string]interface{}, bool) {
	if len(args) < 3 {
		return "", nil, false
	}
	text, err := decStr(args[0])
	if err != nil {
		return "", nil, false
	}
	params, err := decParams(args[1])
	if err != nil {
		return "", nil, false
	}
	return text, params, true
}

func errLine(err error) string {
	if isOracleError(err) {
		return "skip-oracle-call " + encStr(err.Error())
	}
	return "err " + encStr(err.Error())
}

func implParseStmt(args []string) string {
	text, params, ok := decStmtArgs(args)
	if !ok {
		return "bad-arg"
	}
	if longNumberLiteral(text) {
		return "skip-float-precision"
	}
	var stmt influxql.Statement
	var err error
	if len(params) == 0 && viaPackageEntry(text) {
		stmt, err = influxql.ParseStatement(text)
	} else {
		stmt, err = newStmtParser(text, params).ParseStatement()
	}
	if err != nil {
		return errLine(err)
	}
	return "ok " + sexpStatement(stmt)
}

func implParseQuery(args []string) string {
	text, params, ok := decStmtArgs(args)
	if !ok {
		return "bad-arg"
	}
	if longNumberLiteral(text) {
		return "skip-float-precision"
	}
	var q *influxql.Query
	var err error
	if len(params) == 0 && viaPackageEntry(text) {
		q, err = influxql.ParseQuery(text)
	} else {
		q, err = newStmtParser(text, params).ParseQuery()
	}
	if err != nil {
		return errLine(err)
	}
	return "ok " + sexpStatements(q.Statements)
}

func implPrintStmt(args []string) string {
	text, params, ok := decStmtArgs(args)
	if !ok {
		return "bad-arg"
	}
	if longNumberLiteral(text) {
		return "skip-float-precision"
	}
	stmt, err := newStmtParser(text, params).ParseStatement()
	if err != nil {
		return errLine(err)
	}
	return "ok " + encStr(stmt.String())
}

// ---- property oracles on the implementation ----

// propAccepts (C01, acceptance half): a text the generator built from grammar-conforming parts is accepted.
func propAccepts(parse func(p *influxql.Parser) error) func(args []string) string {
	return func(args []string) string {
		text, params, ok := decStmtArgs(args)
		if !ok || len(args) < 4 || args[3] != "valid" {
			return "skip"
		}
		if err := parse(newStmtParser(text, params)); err != nil {
			if isOracleError(err) {
				return "skip"
			}
			if gated(knownAccepts(parse)(args)) {
				return "skip"
			}
			return fmt.Sprintf("grammar-conforming text %q rejected: %v", text, err)
		}
		return ""
	}
}

var countClause = regexp.MustCompile(`(?i)\b(limit|offset|slimit|soffset)[ \t\r\n]+([0-9]+)\b`)

// propValuesAsWritten (C01, "each value in the slot it was written for"): for statements whose text
// is free of quotes, comments, parentheses and placeholders, every LIMIT / OFFSET / SLIMIT / SOFFSET
// count that fits in an int64 appears in the AST field of that name with exactly the written value,
// and the fields of the clauses that are not written are zero.
func propValuesAsWritten(args []string) string {
	text, params, ok := decStmtArgs(args)
	if !ok || len(params) > 0 || strings.ContainsAny(text, "'\"()$;") || strings.Contains(text, "--") || strings.Contains(text, "/*") {
		return ""
	}
	if len(args) < 4 || args[3] != "valid" {
		return ""
	}
	ps := newStmtParser(text, nil)
	stmt, err := ps.ParseStatement()
	if err != nil {
		return ""
	}
	if q, err := ps.ParseQuery(); err != nil || len(q.Statements) != 0 {
		return "" // ParseStatement does not look at what follows; only whole-text statements are judged
	}
	written := map[string]string{}
	for _, m := range countClause.FindAllStringSubmatch(text, -1) {
		k := strings.ToLower(m[1])
		if _, dup := written[k]; dup {
			return ""
		}
		written[k] = m[2]
	}
	v := reflect.ValueOf(stmt)
	if v.Kind() == reflect.Ptr {
		v = v.Elem()
	}
	if v.Kind() != reflect.Struct {
		return ""
	}
	for key, field := range map[string]string{"limit": "Limit", "offset": "Offset", "slimit": "SLimit", "soffset": "SOffset"} {
		f := v.FieldByName(field)
		if !f.IsValid() || f.Kind() != reflect.Int {
			continue
		}
		w, has := written[key]
		if !has {
			if f.Int() != 0 {
				return fmt.Sprintf("%q has no %s clause but the AST field %s is %d", text, strings.ToUpper(key), field, f.Int())
			}
			continue
		}
		n, perr := strconv.ParseInt(w, 10, 64)
		if perr != nil {
			continue // beyond int64: the parser clamps, out of the property's range
		}
		if f.Int() != n {
			return fmt.Sprintf("%q writes %s %s but the AST field %s is %d", text, strings.ToUpper(key), w, field, f.Int())
		}
	}
	return ""
}

// propStructureAsWritten (C01, "each … nesting level appears … as written … and nothing else is set"),
// judged on any accepted statement text (no parameters, nothing but blanks and semicolons after it):
//   - the tree has exactly one ParenExpr per grouping parenthesis of the text. The text is tokenised with
//     the scanner; a `(` opens a call when it directly follows an identifier or DISTINCT token, a subquery
//     when SELECT is the next significant token, and a grouping otherwise. Texts with a `/` are skipped
//     (a regex body would have to be tokenised by ScanRegex).
//   - every SELECT at every nesting level is a raw query exactly when none of its own fields contains a
//     call (round-3 seeded changes C01-2: nested parentheses collapsed; C01-3: the flag of an outer SELECT
//     taken from the field list of a subquery).
func propStructureAsWritten(args []string) string {
	text, params, ok := decStmtArgs(args)
	if !ok || len(params) > 0 || strings.Contains(text, "$") {
		return ""
	}
	ps := newStmtParser(text, nil)
	stmt, err := ps.ParseStatement()
	if err != nil || stmt == nil {
		return ""
	}
	if q, err := ps.ParseQuery(); err != nil || len(q.Statements) != 0 {
		return ""
	}
	// every call of the package-level entry point returns a tree of its own: the first result is edited all
	// over (names, literal values, counts, flags, parentheses removed), then the same text is parsed again and
	// must give what it gave the first time (round-4 seeded changes C01-2 / C03-2 kept parsed trees in a table
	// keyed by the text and handed the same tree out again)
	if first, err := influxql.ParseStatement(text); err == nil {
		want := sexpStatement(first)
		scribble(first)
		if again, err2 := influxql.ParseStatement(text); err2 != nil || sexpStatement(again) != want {
			return fmt.Sprintf("%q parsed a second time after the first result was edited gives another tree (%v)", text, err2)
		}
		if q, err3 := influxql.ParseQuery(text); err3 == nil && len(q.Statements) == 1 && sexpStatement(q.Statements[0]) != want {
			return fmt.Sprintf("%q: ParseQuery after an earlier result was edited gives another tree", text)
		}
	}
	// IsRawQuery at every level (reflective traversal: Walk does not enter every statement type)
	var bad string
	parens := 0
	reflectNodes(reflect.ValueOf(stmt), func(n interface{}) {
		if _, ok := n.(*influxql.ParenExpr); ok {
			parens++
		}
		sel, ok := n.(*influxql.SelectStatement)
		if !ok || bad != "" {
			return
		}
		hasCall := false
		for _, f := range sel.Fields {
			reflectNodes(reflect.ValueOf(f.Expr), func(m interface{}) {
				if _, ok := m.(*influxql.Call); ok {
					hasCall = true
				}
			})
		}
		if sel.IsRawQuery == hasCall {
			bad = fmt.Sprintf("%q: IsRawQuery = %v for the SELECT with fields %s (contains a call: %v)", text, sel.IsRawQuery, sel.Fields.String(), hasCall)
		}
	})
	if bad != "" {
		return bad
	}
	// parentheses
	if strings.Contains(text, "/") {
		return ""
	}
	type tk struct {
		tok influxql.Token
		ws  bool // white space or comment directly before it
	}
	var toks []tk
	sc := influxql.NewScanner(strings.NewReader(text))
	gap := false
	for i := 0; i < len(text)+8; i++ {
		tok, _, _ := sc.Scan()
		if tok == influxql.EOF {
			break
		}
		if tok == influxql.WS || tok == influxql.COMMENT {
			gap = true
			continue
		}
		if tok == influxql.ILLEGAL || tok == influxql.BADSTRING || tok == influxql.BADESCAPE {
			return ""
		}
		toks = append(toks, tk{tok, gap})
		gap = false
	}
	grouping := 0
	for i, t := range toks {
		if t.tok != influxql.LPAREN {
			continue
		}
		if i > 0 && !t.ws && (toks[i-1].tok == influxql.IDENT || toks[i-1].tok == influxql.DISTINCT) {
			continue // call, fill(), tz(), distinct()
		}
		if i+1 < len(toks) && toks[i+1].tok == influxql.SELECT {
			continue // subquery
		}
		if i > 0 && toks[i-1].tok == influxql.IN {
			continue // WITH KEY IN (…)
		}
		grouping++
	}
	if parens != grouping {
		return fmt.Sprintf("%q has %d grouping parentheses, the tree has %d ParenExpr nodes: %s", text, grouping, parens, stmt.String())
	}
	return ""
}

var lookAlike = strings.NewReplacer("\u212a", "k", "\u0130", "i", "\u017f", "s", "k", "\u212a", "K", "\u212a", "i", "\u0130", "I", "\u0130")

// scribble edits a tree in place wherever that is possible through exported fields: every identifier and
// string gets a suffix, numbers are changed, booleans flipped, parentheses and call arguments dropped.
func scribble(root interface{}) {
	reflectNodes(reflect.ValueOf(root), func(n interface{}) {
		switch x := n.(type) {
		case *influxql.VarRef:
			x.Val += "_scribbled"
		case *influxql.StringLiteral:
			x.Val += "_scribbled"
		case *influxql.IntegerLiteral:
			x.Val += 17
		case *influxql.NumberLiteral:
			x.Val += 17
		case *influxql.DurationLiteral:
			x.Val += 17
		case *influxql.BooleanLiteral:
			x.Val = !x.Val
		case *influxql.Measurement:
			x.Name += "_scribbled"
			x.Database += "_scribbled"
		case *influxql.Call:
			x.Name += "_scribbled"
			if len(x.Args) > 0 {
				x.Args = x.Args[:len(x.Args)-1]
			}
		case *influxql.ParenExpr:
			if inner, ok := x.Expr.(*influxql.ParenExpr); ok {
				x.Expr = inner.Expr
			}
		case *influxql.BinaryExpr:
			if p, ok := x.LHS.(*influxql.ParenExpr); ok {
				x.LHS = p.Expr
			}
			if p, ok := x.RHS.(*influxql.ParenExpr); ok {
				x.RHS = p.Expr
			}
		case *influxql.SelectStatement:
			x.Limit += 99
			x.Offset += 99
			x.IsRawQuery = !x.IsRawQuery
			if len(x.Fields) > 1 {
				x.Fields = x.Fields[1:]
			}
		case *influxql.Field:
			x.Alias += "_scribbled"
		}
	})
}

// reflectNodes calls visit on every non-nil pointer reachable from v through exported fields, slices and
// interfaces (each once per occurrence; the AST is a tree). Unexported fields (memo fields, compiled
// regular expressions, locations) are not entered.
func reflectNodes(v reflect.Value, visit func(n interface{})) {
	switch v.Kind() {
	case reflect.Interface:
		if !v.IsNil() {
			reflectNodes(v.Elem(), visit)
		}
	case reflect.Ptr:
		if v.IsNil() {
			return
		}
		if t := v.Type().Elem(); t.PkgPath() != "github.com/influxdata/influxql" {
			return // *regexp.Regexp, *time.Location
		}
		if v.CanInterface() {
			visit(v.Interface())
		}
		reflectNodes(v.Elem(), visit)
	case reflect.Struct:
		if v.Type().PkgPath() != "github.com/influxdata/influxql" {
			return
		}
		for i := 0; i < v.NumField(); i++ {
			if v.Type().Field(i).PkgPath != "" {
				continue
			}
			reflectNodes(v.Field(i), visit)
		}
	case reflect.Slice:
		for i := 0; i < v.Len(); i++ {
			reflectNodes(v.Index(i), visit)
		}
	}
}

var spaceCommaAfterRegex = regexp.MustCompile(`/[ \t\r\n]+,`)

// knownAccepts classifies a rejected grammar-conforming text by repair: the text is accepted once
// whitespace is added / removed at the spot where the parser's regex look-ahead goes wrong.
func knownAccepts(parse func(p *influxql.Parser) error) func(args []string) string {
	return func(args []string) string {
		text, params, ok := decStmtArgs(args)
		if !ok {
			return ""
		}
		accepted := func(t string) bool { return parse(newStmtParser(t, params)) == nil }
		if accepted(text) {
			return ""
		}
		t1 := strings.Replace(text, ",/", ", /", -1)
		if t1 != text && accepted(t1) {
			return "source-regex-directly-after-comma"
		}
		t2 := spaceCommaAfterRegex.ReplaceAllString(text, "/,")
		if t2 != text && accepted(t2) {
			return "regex-dimension-before-space-comma"
		}
		t3 := spaceCommaAfterRegex.ReplaceAllString(t1, "/,")
		if t3 != text && accepted(t3) {
			return "regex-dimension-before-space-comma"
		}
		return ""
	}
}

// unredact puts the password back where String() printed [REDACTED] (the last occurrence: the
// user name, which may itself contain that text, is printed before it).
func unredact(stmt influxql.Statement, printed string) string {
	pw := ""
	switch s := stmt.(type) {
	case *influxql.CreateUserStatement:
		pw = s.Password
	case *influxql.SetPasswordUserStatement:
		pw = s.Password
	default:
		return printed
	}
	i := strings.LastIndex(printed, "[REDACTED]")
	if i < 0 {
		return printed
	}
	return printed[:i] + influxql.QuoteString(pw) + printed[i+len("[REDACTED]"):]
}

// propPrintStmt (C02): for statements written without bound parameters, the printed statement
// parses again and gives the same tree (password fields are re-inserted, they are not printed).
func propPrintStmt(args []string) string {
	text, params, ok := decStmtArgs(args)
	if !ok || len(params) > 0 {
		return "skip"
	}
	stmt, err := newStmtParser(text, nil).ParseStatement()
	if err != nil {
		return "skip"
	}
	// the quoting helpers are asked about look-alikes of every name first (ASCII case variants, and the ASCII
	// letters that U+212A KELVIN SIGN and U+0130 lower-case to): what they answer for a name does not depend
	// on what they were asked before (round-4 seeded changes C02-1 / C06-1 memoised IdentNeedsQuotes under
	// the lower-cased name)
	reflectNodes(reflect.ValueOf(stmt), func(n interface{}) {
		prime := func(name string) {
			if name == "" {
				return
			}
			for _, v := range []string{strings.ToLower(name), strings.ToUpper(name), lookAlike.Replace(name)} {
				_ = influxql.IdentNeedsQuotes(v)
				_ = influxql.QuoteIdent(v)
			}
		}
		switch x := n.(type) {
		case *influxql.VarRef:
			prime(x.Val)
		case *influxql.Measurement:
			prime(x.Name)
			prime(x.Database)
			prime(x.RetentionPolicy)
		case *influxql.Field:
			prime(x.Alias)
		}
	})
	printed := unredact(stmt, stmt.String())
	stmt2, err2 := newStmtParser(printed, nil).ParseStatement()
	if err2 != nil {
		if isOracleError(err2) {
			return ""
		}
		if gated(knownPrintStmt(args)) {
			return "skip"
		}
		return fmt.Sprintf("%q parses, but its printed form %q does not: %v", text, printed, err2)
	}
	if a, b := strictly(func() string { return sexpStatement(stmt) }), strictly(func() string { return sexpStatement(stmt2) }); a != b {
		if gated(knownPrintStmt(args)) {
			return "skip"
		}
		return fmt.Sprintf("%q prints as %q, which parses to a different tree: %s vs %s", text, printed, a, b)
	}
	return ""
}

func stmtClass(args []string, out string) string {
	switch {
	case strings.HasPrefix(out, "ok (query"):
		n := strings.Count(out, "Statement ") + strings.Count(out, "Statement)")
		if n > 4 {
			n = 4
		}
		return fmt.Sprintf("ok-query-%d", n)
	case strings.HasPrefix(out, "ok ("):
		i := strings.IndexAny(out[4:], " )")
		return "ok-" + out[4:4+i]
	case strings.HasPrefix(out, "ok"):
		return "ok"
	case strings.HasPrefix(out, "skip"):
		return "skip-oracle"
	case strings.HasPrefix(out, "panic"):
		return "panic"
	}
	return "error"
}

func stmtNontrivial(args []string, out string) bool { return strings.Count(args[0], ",") >= 8 }

func init() {
	// acceptance of one statement: ParseStatement succeeds and nothing but semicolons is left
	// (ParseStatement itself does not look at what follows the statement)
	parseS := func(p *influxql.Parser) error {
		if _, err := p.ParseStatement(); err != nil {
			return err
		}
		q, err := p.ParseQuery()
		if err != nil {
			return fmt.Errorf("text after the statement: %v", err)
		}
		if len(q.Statements) != 0 {
			return fmt.Errorf("text after the statement parses as %d more statement(s)", len(q.Statements))
		}
		return nil
	}
	parseQ := func(p *influxql.Parser) error { _, err := p.ParseQuery(); return err }
	register(&stream{name: "parse.stmt", gen: genParseStmt, impl: implParseStmt, known: knownAccepts(parseS),
		prop: func(args []string) string {
			if v := propAccepts(parseS)(args); v != "" && v != "skip" {
				return v
			}
			if v := propValuesAsWritten(args); v != "" {
				return v
			}
			if v := propStructureAsWritten(args); v != "" {
				return v
			}
			return propAccepts(parseS)(args)
		},
		class: stmtClass, nontrivial: stmtNontrivial})
	register(&stream{name: "parse.query", gen: genParseQuery, impl: implParseQuery, known: knownAccepts(parseQ),
		prop:  propAccepts(parseQ),
		class: stmtClass, nontrivial: stmtNontrivial})
	register(&stream{name: "print.stmt", gen: genPrintStmt, impl: implPrintStmt, prop: propPrintStmt, known: knownPrintStmt,
		class: func(args []string, out string) string {
			if strings.HasPrefix(out, "ok") {
				return "ok"
			}
			return stmtClass(args, out)
		}, nontrivial: stmtNontrivial})
}

var _ = rand.Int

package main

import (
	"math/rand"
	"strconv"
	"strings"
)

// Fragment pools for lexical text generation (shared by scanner and parser streams).

var kwPool = []string{"ALL", "ALTER", "ANALYZE", "ANY", "AS", "ASC", "BEGIN", "BY", "CARDINALITY", "CREATE", "CONTINUOUS", "DATABASE", "DATABASES", "DEFAULT", "DELETE", "DESC", "DESTINATIONS", "DIAGNOSTICS", "DISTINCT", "DROP", "DURATION", "END", "EVERY", "EXACT", "EXPLAIN", "FIELD", "FOR", "FROM", "FUTURE", "GRANT", "GRANTS", "GROUP", "GROUPS", "IN", "INF", "INSERT", "INTO", "KEY", "KEYS", "KILL", "LIMIT", "MEASUREMENT", "MEASUREMENTS", "NAME", "OFFSET", "ON", "ORDER", "PASSWORD", "PAST", "POLICY", "POLICIES", "PRIVILEGES", "QUERIES", "QUERY", "READ", "REPLICATION", "RESAMPLE", "RETENTION", "REVOKE", "SELECT", "SERIES", "SET", "SHOW", "SHARD", "SHARDS", "SLIMIT", "SOFFSET", "STATS", "SUBSCRIPTION", "SUBSCRIPTIONS", "TAG", "TO", "USER", "USERS", "VALUES", "VERBOSE", "WHERE", "WITH", "WRITE", "AND", "OR", "TRUE", "FALSE"}

var opPool = []string{"+", "-", "*", "/", "%", "&", "|", "^", "=", "!=", "<>", "=~", "!~", "<", "<=", ">", ">=", "(", ")", ",", ":", "::", ";", ".", "!", "$", "#", "@", "~", "?", "[", "{", "\\", "`"}

var wsPool = []string{" ", "  ", "\t", "\n", "\r\n", "\r", " \n ", "\n\n", "\r\r\n", " \t\r\n"}

var oddRunes = []rune{'é', 'µ', 'ß', '日', '本', '𝄞', 0x212a, 0x00a0, 0x2028, 0xfeff, 0x7f, 0x01, 0x1f, 0x85, 0xfffd, 0xfffe, 0xffff, 0xd7ff, 0xe000, 0x2018, 0x2019, 0x201c, 0x201d, 0xff07, 0xff02, 0x02bc, 0x0130, 0x017f, 0x10ffff}

func pick(r *rand.Rand, xs []string) string { return xs[r.Intn(len(xs))] }

func randCase(r *rand.Rand, s string) string {
	switch r.Intn(4) {
	case 0:
		return strings.ToLower(s)
	case 1:
		return s
	case 2:
		return strings.ToUpper(s[:1]) + strings.ToLower(s[1:])
	}
	b := []byte(s)
	for i := range b {
		if r.Intn(2) == 0 {
			b[i] = byte(strings.ToLower(string(b[i]))[0])
		}
	}
	return string(b)
}

func randBareIdent(r *rand.Rand) string {
	const first = "abcdefghijklmnopqrstuvwxyzABCDEFGHIJKLMNOPQRSTUVWXYZ_"
	const rest = first + "0123456789"
	n := 1 + r.Intn(6)
	b := make([]byte, n)
	b[0] = first[r.Intn(len(first))]
	for i := 1; i < n; i++ {
		b[i] = rest[r.Intn(len(rest))]
	}
	return string(b)
}

// randContent: arbitrary string content biased to the characters that matter for quoting.
func randContent(r *rand.Rand, withNul bool) string {
	n := r.Intn(8)
	var b strings.Builder
	for i := 0; i < n; i++ {
		switch r.Intn(14) {
		case 0:
			b.WriteByte('\'')
		case 1:
			b.WriteByte('"')
		case 2:
			b.WriteByte('\\')
		case 3:
			b.WriteByte('\n')
		case 4:
			b.WriteString(pick(r, []string{"\\n", "\\\\", "\\'", "\\\"", "\\x", "\\ ", "\\/"}))
		case 5:
			b.WriteRune(oddRunes[r.Intn(len(oddRunes))])
		case 6:
			b.WriteString(pick(r, kwPool))
		case 7:
			b.WriteString(pick(r, []string{" ", ";", "--", "/*", "*/", "/", ".", "$", "=", ","}))
		case 8:
			if withNul {
				b.WriteByte(0)
			} else {
				b.WriteByte('0')
			}
		case 9:
			b.WriteString(pick(r, []string{"\r", "\r\n", "\t"}))
		default:
			b.WriteByte("abcxyzABC_0123456789"[r.Intn(20)])
		}
	}
	return b.String()
}

func randNumberText(r *rand.Rand) string {
	switch r.Intn(12) {
	case 0:
		return "0"
	case 1:
		return pick(r, []string{"9223372036854775807", "9223372036854775808", "18446744073709551615", "18446744073709551616", "00", "007"})
	case 2:
		return pick(r, []string{"1.", ".5", "1.5", "0.0", "3.14159", "1.5s", "1e5", "1.e5", "1..2", "1.2.3", "10.", ".0"})
	case 3:
		if r.Intn(2) == 0 {
			return randCompositeDuration(r)
		}
		return pick(r, []string{"1s", "10m", "1h30m", "7d", "2w", "100ms", "5u", "5µ", "3ns", "1x", "1ss", "1m2", "1abc", "9223372036854775807ns", "1000000w", "1µs", "3s7µ", "1ms500µ", "1µ2µ", "1µs3", "2h10µ5ns"})
	}
	n := r.Intn(100000)
	s := ""
	for {
		s = string(rune('0'+n%10)) + s
		n /= 10
		if n == 0 {
			break
		}
	}
	return s
}

// randLexFragment returns one token-like fragment of any kind.
func randLexFragment(r *rand.Rand, withNul bool) string {
	switch r.Intn(16) {
	case 0, 1:
		return randCase(r, pick(r, kwPool))
	case 2, 3:
		return randBareIdent(r)
	case 4:
		return `"` + strings.NewReplacer("\n", `\n`, `\`, `\\`, `"`, `\"`).Replace(randContent(r, withNul)) + `"`
	case 5:
		return `'` + strings.NewReplacer("\n", `\n`, `\`, `\\`, `'`, `\'`).Replace(randContent(r, withNul)) + `'`
	case 6: // raw, possibly unterminated / bad escapes
		q := pick(r, []string{`'`, `"`})
		s := q + randContent(r, withNul)
		if r.Intn(2) == 0 {
			s += q
		}
		return s
	case 7, 8:
		return randNumberText(r)
	case 9, 10:
		return pick(r, opPool)
	case 11:
		return pick(r, []string{"-- c\n", "--", "-- x", "/* c */", "/**/", "/* * / */", "/*", "/* x", "/***/", "/* a\nb */", "--\r\n", "-- é\r", "/*/ x */", "/*/", "/*/*/", "--1\n", "--.5\n", "--2024-01-01 tmp\n", "---\n", "/*--*/", "--/*\n"})
	case 12:
		return "$" + pick(r, []string{"", "a", "abc", "1", "_x", `"a b"`, "select", `"un`, " "})
	case 13:
		return "/" + strings.Replace(randContent(r, withNul), "\n", "", -1) + "/"
	case 14:
		return string(oddRunes[r.Intn(len(oddRunes))])
	default:
		if withNul {
			return "\x00"
		}
		return pick(r, []string{"\xff", "\xc3", "\xe2\x82", "\xf0\x9f", "\xc0\x80", "\xed\xa0\x80"})
	}
}

// randLexText concatenates fragments with random (or no) separators.
func randLexText(r *rand.Rand, withNul bool) string {
	n := r.Intn(9)
	var b strings.Builder
	for i := 0; i < n; i++ {
		b.WriteString(randLexFragment(r, withNul))
		switch r.Intn(3) {
		case 0:
		default:
			b.WriteString(pick(r, wsPool))
		}
	}
	return b.String()
}

// randCompositeDuration spells a duration of one to four components with every unit spelling (both
// spellings of the microsecond) at every place, in any order; now and then an odd tail (a trailing digit
// run, a doubled unit letter). Round-3 seeded change C01-1 honoured 'µ' in the first component only.
func randCompositeDuration(r *rand.Rand) string {
	units := []string{"ns", "u", "µ", "ms", "s", "m", "h", "d", "w", "µ", "µs", "us"}
	var b strings.Builder
	k := 1 + r.Intn(4)
	for i := 0; i < k; i++ {
		b.WriteString(strconv.Itoa(r.Intn(1000)))
		b.WriteString(units[r.Intn(len(units))])
	}
	switch r.Intn(12) {
	case 0:
		b.WriteString(strconv.Itoa(r.Intn(10)))
	case 1:
		b.WriteString("µ")
	}
	return b.String()
}

// randValidCompositeDuration: as randCompositeDuration, but only with the units ParseDuration knows and
// without odd tails, so that the text is a valid duration literal.
func randValidCompositeDuration(r *rand.Rand) string {
	units := []string{"ns", "u", "µ", "ms", "s", "m", "h", "d", "w", "µ"}
	var b strings.Builder
	k := 1 + r.Intn(4)
	for i := 0; i < k; i++ {
		b.WriteString(strconv.Itoa(r.Intn(1000)))
		b.WriteString(units[r.Intn(len(units))])
	}
	return b.String()
}

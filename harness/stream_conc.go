package main

import (
	"fmt"
	"math/rand"
	"os"
	"path/filepath"
	"sort"
	"strings"
	"sync"
	"time"

	"github.com/influxdata/influxql"
)

// Stream for C17 (independent parses and read-only use of a shared AST are safe under concurrency).
//
//	conc.mix s:<SELECT text> i:<goroutines> i:<ops per goroutine> i:<seed>
//
// The property oracle parses the text into ONE shared AST, draws (from the seed) a list of
// operations, runs all of them sequentially (the sequential twins), then runs them again from
// <goroutines> goroutines released together by a barrier, three rounds, and compares every result
// with its twin.  Operations on private data: parse statements, queries and expressions (also the
// same text from many goroutines), print, quote, format and parse durations, sanitize.  Operations
// on the shared AST, only those the property lists as read-only: print, clone (and any in-place
// rewrite of the private clone), walk, evaluate, reduce, expand wildcards (RewriteFields), names,
// privileges, condition / time-range extraction.
//
// When the harness is built with -race (config "go_race": true) and GORACE names a log_path, a
// race report written during a case fails that case; the check driver additionally treats
// "DATA RACE" on stderr as a violation.  A failing schedule is replayed from the case line (op
// list and seed are functions of it) together with the report.
//
// Property-oracle-only: the Lean side (Model/Sched.lean) is about footprints and is tied through
// the regenerated inventories, not through executions.

type concOp struct {
	kind string
	arg  string
	n    int
}

var concPrivateKinds = []string{"parse", "parse", "parsetz", "parsenul", "rewritewild", "parsesame", "parsequery", "parseexpr", "print", "quotestr", "quoteident", "fmtdur", "parsedur", "sanitize", "scan", "needsquotes"}
var concSharedKinds = []string{"s.string", "s.string", "s.clone", "s.clonerewrite", "s.walk", "s.eval", "s.reduce", "s.reducenow", "s.rewritefields", "s.columns", "s.privs", "s.names", "s.condexpr", "s.evaltype", "s.measurements"}

// sharedMapsMapper answers every FieldDimensions call with the same two map objects.
type sharedMapsMapper struct {
	stubMapper
	fields map[string]influxql.DataType
	tags   map[string]struct{}
}

func (m *sharedMapsMapper) FieldDimensions(*influxql.Measurement) (map[string]influxql.DataType, map[string]struct{}, error) {
	return m.fields, m.tags, nil
}

var concSharedSchema = func() *sharedMapsMapper {
	f, t, _ := stubMapper{}.FieldDimensions(nil)
	return &sharedMapsMapper{fields: f, tags: t}
}()

func drawConcOps(r *rand.Rand, n int, sharedText string) []concOp {
	ops := make([]concOp, n)
	sharedKinds := concSharedKinds
	// Negative control (never set by the check driver): VERIF_CONC_EXTRA=s.gbi adds an operation that is
	// NOT read-only on the shared AST (GroupByInterval memoises into its receiver); the race detector
	// must then report it. See notes/C17.md.
	if x := os.Getenv("VERIF_CONC_EXTRA"); x != "" {
		sharedKinds = append(append([]string{}, sharedKinds...), strings.Split(x, ",")...)
	}
	for i := range ops {
		var k string
		if r.Intn(2) == 0 {
			k = pick(r, concPrivateKinds)
		} else {
			k = pick(r, sharedKinds)
		}
		op := concOp{kind: k, n: r.Intn(1000)}
		switch k {
		case "parse", "print":
			op.arg = randSelectText(r, 0)
		case "parsesame":
			op.arg = sharedText
		case "parsenul":
			// a NUL after white space is swallowed by the scanner: the statement still parses, and it parses
			// to the same statement whatever other scanners do at the same time (round-4 seeded change C17-2
			// handed a pooled read buffer back at the first NUL)
			t := randSelectText(r, 0)
			if i := strings.Index(t, " "); i >= 0 {
				k := strings.Count(t, " ")
				j, at := 0, r.Intn(k)
				for p := 0; p < len(t); p++ {
					if t[p] == ' ' {
						if j == at {
							i = p
							break
						}
						j++
					}
				}
				t = t[:i+1] + "\x00" + t[i+1:]
			}
			op.arg = t
		case "rewritewild":
			// wildcard calls of every type family on a private statement, against a schema with every field type
			// (round-4 seeded change C17-1 kept the supported-type sets in package-level maps, and one family
			// deleted from them)
			op.arg = "SELECT " + pick(r, []string{"* FROM m GROUP BY host --", "* FROM m GROUP BY region, host --", "* FROM m --", "*, mean(*) FROM m GROUP BY host --", "mean(*)", "holt_winters(*, 10, 4)", "holt_winters_with_fit(*, 10, 4)", "sum(*)", "max(*)", "count(*)", "first(*)", "median(/./)", "mean(*), max(*)", "count(*), sum(*)"}) + " FROM m"
		case "parsetz":
			// zone names in several spellings: each parse answers for its own spelling, whatever was parsed
			// before or at the same time (seeded changes C17-3 / C17-6 kept looked-up zones in a package-level table)
			op.arg = "SELECT v FROM m TZ('" + pick(r, []string{"UTC", "utc", "Utc", "America/New_York", "america/new_york", "AMERICA/NEW_YORK", "Europe/Berlin", "europe/berlin", "Asia/Tokyo", "asia/tokyo", "Nowhere/Land", ""}) + "')"
		case "parsequery":
			op.arg = randSelectText(r, 1) + pick(r, []string{"; ", ";", " ;\n"}) + pick(r, []string{"SHOW DATABASES", "DROP MEASUREMENT m", "SHOW TAG KEYS FROM m", "CREATE DATABASE d WITH DURATION 1h", "bogus"})
		case "parseexpr":
			op.arg = randExprText(r, 0, r.Intn(6))
		case "quotestr", "quoteident", "needsquotes", "scan":
			op.arg = randContent(r, false)
		case "parsedur":
			op.arg = pick(r, []string{"10s", "1h30m", "5µ", "1w", "0s", "15251w", "9223372036854775807ns", "x", "1.5h", "3d12h"})
		case "sanitize":
			op.arg = pick(r, []string{`CREATE USER u WITH PASSWORD 'secret'`, `SET PASSWORD FOR u = 'pw with space'`, `create user "x" with password 'p'; set password for x = 'q'`, `SELECT 1`})
		}
		ops[i] = op
	}
	return ops
}

func runConcOp(op concOp, shared *influxql.SelectStatement) (out string) {
	defer func() {
		if r := recover(); r != nil {
			out = "panic: " + fmt.Sprint(r)
		}
	}()
	switch op.kind {
	// ---- private data ----
	case "rewritewild":
		st, err := influxql.ParseStatement(op.arg)
		if err != nil {
			return "err: " + err.Error()
		}
		// the schema is handed out as the same two maps on every call, by every goroutine (a mapper backed by an
		// index does that): RewriteFields only reads them (round-6 seeded change C17-2: a fast path returned the
		// mapper's maps and the GROUP BY handling deleted from them)
		rw, err := st.(*influxql.SelectStatement).RewriteFields(concSharedSchema)
		if err != nil {
			return "err: " + err.Error()
		}
		return rw.String()
	case "parse", "parsesame", "parsetz", "parsenul":
		st, err := influxql.ParseStatement(op.arg)
		if err != nil {
			return "err: " + err.Error()
		}
		return st.String()
	case "print":
		st, err := influxql.ParseStatement(op.arg)
		if err != nil {
			return "err: " + err.Error()
		}
		s1 := st.String()
		st2, err := influxql.ParseStatement(s1)
		if err != nil {
			return s1 + " | reparse err: " + err.Error()
		}
		return s1 + " | " + st2.String()
	case "parsequery":
		q, err := influxql.ParseQuery(op.arg)
		if err != nil {
			return "err: " + err.Error()
		}
		return q.String()
	case "parseexpr":
		e, err := influxql.ParseExpr(op.arg)
		if err != nil {
			return "err: " + err.Error()
		}
		return e.String() + " | " + sexpExpr(e)
	case "quotestr":
		return influxql.QuoteString(op.arg)
	case "quoteident":
		return influxql.QuoteIdent(op.arg, op.arg+"x")
	case "needsquotes":
		return fmt.Sprint(influxql.IdentNeedsQuotes(op.arg))
	case "fmtdur":
		return influxql.FormatDuration(time.Duration(op.n) * time.Duration(op.n+1) * 1234567)
	case "parsedur":
		d, err := influxql.ParseDuration(op.arg)
		return fmt.Sprint(d, err)
	case "sanitize":
		return influxql.Sanitize(op.arg)
	case "scan":
		s := influxql.NewScanner(strings.NewReader(op.arg))
		var b strings.Builder
		for i := 0; i < 200; i++ {
			tok, pos, lit := s.Scan()
			fmt.Fprintf(&b, "%s@%d:%d %q;", tok.String(), pos.Line, pos.Char, lit)
			if tok == influxql.EOF {
				break
			}
		}
		return b.String()
	// ---- the shared AST, read-only operations only ----
	case "s.string":
		return shared.String()
	case "s.clone":
		return shared.Clone().String()
	case "s.clonerewrite":
		c := shared.Clone()
		c.RewriteRegexConditions()
		c.RewriteDistinct()
		c.RewriteTimeFields()
		_ = c.SetTimeRange(cloneEpoch, cloneEpoch.Add(time.Duration(1+op.n)*time.Minute))
		if len(c.Fields) > 0 {
			c.Fields[0].Alias = fmt.Sprintf("a%d", op.n)
		}
		d, _ := c.GroupByInterval()
		return c.String() + " | " + d.String()
	case "s.walk":
		n, names := 0, []string{}
		influxql.WalkFunc(shared, func(nd influxql.Node) {
			n++
			if v, ok := nd.(*influxql.VarRef); ok {
				names = append(names, v.Val)
			}
		})
		return fmt.Sprint(n, names)
	case "s.eval":
		m := map[string]interface{}{"v": float64(op.n) / 4, "a": int64(op.n), "host": "a", "value": 1.0}
		out := fmt.Sprint(influxql.Eval(shared.Condition, m), influxql.EvalBool(shared.Condition, m))
		for _, f := range shared.Fields {
			out += fmt.Sprint(" ", influxql.Eval(f.Expr, m))
		}
		return out
	case "s.reduce":
		return shared.Reduce(cloneValuer()).String()
	case "s.reducenow":
		r := influxql.Reduce(shared.Condition, &influxql.NowValuer{Now: cloneEpoch.Add(time.Duration(op.n) * time.Second)})
		if r == nil {
			return "<nil>"
		}
		return r.String()
	case "s.rewritefields":
		st, err := shared.RewriteFields(stubMapper{})
		if err != nil {
			return "err: " + err.Error()
		}
		return st.String()
	case "s.columns":
		return strings.Join(shared.ColumnNames(), ",")
	case "s.privs":
		ps, err := shared.RequiredPrivileges()
		return fmt.Sprint(ps, err)
	case "s.names":
		out := fmt.Sprint(shared.Fields.Names(), shared.Fields.AliasNames(), influxql.ExprNames(shared.Condition), shared.HasWildcard(), influxql.ContainsVarRef(shared.Condition))
		for _, f := range shared.Fields {
			out += " " + f.Name()
		}
		return out
	case "s.condexpr":
		e, tr, err := influxql.ConditionExpr(shared.Condition, cloneValuer())
		es := "<nil>"
		if e != nil {
			es = e.String()
		}
		return fmt.Sprint(es, tr.Min.UnixNano(), tr.Max.UnixNano(), err)
	case "s.evaltype":
		out := ""
		for _, f := range shared.Fields {
			out += influxql.EvalType(f.Expr, shared.Sources, stubMapper{}).String() + ","
		}
		fs, ds, err := influxql.FieldDimensions(shared.Sources, stubMapper{})
		keys := []string{}
		for k, v := range fs {
			keys = append(keys, k+":"+v.String())
		}
		for k := range ds {
			keys = append(keys, k)
		}
		sort.Strings(keys)
		return out + fmt.Sprint(keys, err)
	case "s.gbi": // negative control only
		d, err := shared.GroupByInterval()
		return fmt.Sprint(d, err)
	case "s.rewriteregex": // negative control only
		shared.RewriteRegexConditions()
		return shared.String()
	case "s.measurements":
		out := shared.Sources.String()
		for _, m := range shared.Sources.Measurements() {
			out += " " + m.String()
		}
		dur, tags := shared.Dimensions.Normalize()
		return out + fmt.Sprint(dur, tags, shared.TimeAscending(), shared.TimeFieldName())
	}
	return "unknown op " + op.kind
}

// raceLogSize returns the total size of the race detector's log files (GORACE=log_path=...).
func raceLogSize() (int64, string) {
	if !raceEnabled {
		return 0, ""
	}
	var prefix string
	for _, kv := range strings.Fields(os.Getenv("GORACE")) {
		if strings.HasPrefix(kv, "log_path=") {
			prefix = strings.TrimPrefix(kv, "log_path=")
		}
	}
	if prefix == "" {
		return 0, ""
	}
	files, _ := filepath.Glob(prefix + ".*")
	var total int64
	var last string
	for _, f := range files {
		if st, err := os.Stat(f); err == nil {
			total += st.Size()
			last = f
		}
	}
	return total, last
}

func runConcMix(args []string, concurrent bool) (verdict string, class string, digest string) {
	if len(args) != 4 {
		return "skip", "bad-case", ""
	}
	text, err := decStr(args[0])
	g, err1 := decInt(args[1])
	k, err2 := decInt(args[2])
	seed, err3 := decInt(args[3])
	if err != nil || err1 != nil || err2 != nil || err3 != nil || g < 1 || g > 256 || k < 1 || k > 1000 {
		return "skip", "bad-case", ""
	}
	st, err := influxql.ParseStatement(text)
	if err != nil {
		return "skip", "parse-error", ""
	}
	shared, ok := st.(*influxql.SelectStatement)
	if !ok {
		return "skip", "not-select", ""
	}
	ops := drawConcOps(rand.New(rand.NewSource(seed)), int(g*k), text)
	// The goroutines go first, on a freshly parsed AST nobody has touched (so that lazily initialised
	// state, if there were any, is first written under concurrency); the sequential twins are computed
	// afterwards on a second, independent parse of the same text.
	before := takeSnapshot(shared)
	logBefore, _ := raceLogSize()
	rounds := 3
	if !concurrent {
		rounds = 0
	}
	gots := make([][]string, rounds)
	for round := 0; round < rounds; round++ {
		got := make([]string, len(ops))
		gots[round] = got
		start := make(chan struct{})
		var wg sync.WaitGroup
		for gi := 0; gi < int(g); gi++ {
			wg.Add(1)
			go func(gi int) {
				defer wg.Done()
				<-start
				// round-dependent assignment of operations to goroutines; every index is written by exactly one goroutine
				for j := 0; j < int(k); j++ {
					i := (gi + j*int(g) + round*7) % len(ops)
					got[i] = runConcOp(ops[i], shared)
				}
			}(gi)
		}
		close(start)
		wg.Wait()
	}
	if logAfter, file := raceLogSize(); logAfter != logBefore {
		rep, _ := os.ReadFile(file)
		return "DATA RACE reported by the race detector during this case: " + cut(strings.Join(strings.Fields(string(rep)), " "), 600), "select", ""
	}
	if after := takeSnapshot(shared); after.exact != before.exact {
		d := strings.Replace(strings.Replace(firstDiff(before.canon, after.canon), "original …", "before …", 1), " clone …", " after …", 1)
		return "the shared AST changed under read-only use: " + d, "select", ""
	}
	st2, _ := influxql.ParseStatement(text)
	twin := st2.(*influxql.SelectStatement)
	want := make([]string, len(ops))
	for i, op := range ops {
		want[i] = runConcOp(op, twin)
	}
	for round, got := range gots {
		for i := range ops {
			if got[i] != want[i] {
				return fmt.Sprintf("round %d op %d (%s %q): concurrent result %q differs from its sequential twin %q", round, i, ops[i].kind, ops[i].arg, cut(got[i], 120), cut(want[i], 120)), "select", ""
			}
		}
	}
	h := uint32(2166136261)
	for _, w := range want {
		for i := 0; i < len(w); i++ {
			h = (h ^ uint32(w[i])) * 16777619
		}
	}
	class = "select"
	if raceEnabled {
		class += "+race-detector"
	}
	return "", class, fmt.Sprintf("%d ops, digest %08x", len(ops), h)
}

func cut(s string, n int) string {
	if len(s) > n {
		return s[:n] + "…"
	}
	return s
}

func genConcMix(r *rand.Rand, n int, emit func(args ...string)) {
	corner := []string{
		"SELECT mean(v) FROM (SELECT v FROM m WHERE v > 1) WHERE host =~ /^(a|b)$/ AND time > now() - 1h GROUP BY time(10s), host fill(3.5) ORDER BY time DESC LIMIT 3 TZ('America/New_York')",
		"SELECT * INTO tgt FROM /cpu.*/, m GROUP BY *",
		"SELECT top(v, host, 3), DISTINCT a, time AS t FROM db..m WHERE v = 1 OR host !~ /^x$/",
	}
	emitCase := func(text string) {
		g := []int64{16, 24, 32, 48, 64}[r.Intn(5)]
		emit(encStr(text), encInt(g), encInt(int64(3+r.Intn(6))), encInt(r.Int63n(1<<40)))
	}
	for _, c := range corner {
		emitCase(c)
	}
	for i := 0; i < n; i++ {
		var text string
		for try := 0; try < 50; try++ {
			text = randSelectText(r, 0)
			if st, err := influxql.ParseStatement(text); err == nil {
				if _, ok := st.(*influxql.SelectStatement); ok {
					break
				}
			}
		}
		emitCase(text)
	}
}

func init() {
	// impl / class / nontrivial (statistics) only need the sequential twins; prop runs the goroutines
	var memoKey, memoV, memoC, memoD string
	runMemo := func(args []string) (string, string, string) {
		key := strings.Join(args, " ")
		if key != memoKey {
			memoV, memoC, memoD = runConcMix(args, false)
			memoKey = key
		}
		return memoV, memoC, memoD
	}
	register(&stream{
		name: "conc.mix",
		gen:  genConcMix,
		impl: func(args []string) string {
			v, _, d := runMemo(args)
			switch v {
			case "":
				return "ok " + d
			case "skip":
				return "skip"
			}
			return "violation"
		},
		prop: func(args []string) string {
			v, _, _ := runConcMix(args, true)
			return v
		},
		class: func(args []string, out string) string {
			_, c, _ := runMemo(args)
			return c
		},
		nontrivial: func(args []string, out string) bool { return strings.HasPrefix(out, "ok ") },
	})
}

package main

import (
	"fmt"
	"io"
	"math/rand"
	"strings"
	"testing/iotest"
	"unicode/utf8"

	"github.com/influxdata/influxql"
)

// Streams for C05 (and the lexer level of C04/C06/C16): the scanner on arbitrary text.
//
//	scan.ops <ops> s:<runes as Go decodes them> b:<raw bytes>
//
// ops is a word over {S,R,1,-}: S = Scan, R = ScanRegex, executed first; afterwards Scan is
// called until EOF. '1' feeds the scanner through a one-byte-at-a-time reader (a CRLF then
// straddles two reads), '-' is a no-op. Output: tok#line:char:lit:consumed | ...

func scanCase(ops, text string) []string {
	if ops == "" {
		ops = "-"
	}
	return []string{ops, encStr(text), encBytes([]byte(text))}
}

func genScanOps(r *rand.Rand, n int, emit func(args ...string)) {
	for _, s := range []string{"", " ", "a", "SELECT", "SELECT * FROM m", "a\n 'x'", "'abc", "'a\\qb'", "\"x", "1.", ".5", "1.5s", "abc\"def\"", "a\r\nb\rc\n", "m\x00; x", "\x00", "a\x00", "-- c", "/* c", "$", "$\"a b\"", "!", "<>", "1s2", "1µ", "3s7µ", "1ms500µ", "1µ2µ", "2h10µ5ns", "1µs3", "1.2.3", "é", "\xff\xfe", "'\\", "'\\\x00", "x /re/ y", "'a\nb'", "\"a\nb\"", "\r", "\r\n", "\n\r", "a--b\nc", "a/**/b", "/***/", "/* * / */x", "::", ":", ";;", "1..2"} {
		emit(scanCase("-", s)...)
	}
	for _, s := range []string{"/abc/", "/a\\/b/ x", "/a\\b/", "/a\\\\/", "/abc", "/a\nb/", "x", "", "/", "//", "/\\", "/\\/", "/a\x00b/", "/é/", " /a/"} {
		emit(scanCase("R", s)...)
		emit(scanCase("SR", "a"+s)...)
		emit(scanCase("SSR", "=~ "+s)...)
	}
	// line breaks at the 4096-byte buffer boundary of bufio.Reader, and through a one-byte reader
	for _, pad := range []int{4094, 4095, 4096, 8191} {
		for _, br := range []string{"\r\n", "\r", "\n", "\r\r\n"} {
			emit(scanCase("-", strings.Repeat(" ", pad)+br+"x 'y'\nz")...)
			emit(scanCase("-", strings.Repeat("a", pad)+br+"x")...)
		}
	}
	for _, s := range []string{"a\r\nb", "SELECT value\r\nFROM cpu\r\nWHERE", "a\rb\nc", "\r\r\n\n\rx", "'a\r\nb'", "-- c\r\nx", "/* \r\n */x"} {
		emit(scanCase("1", s)...)
	}
	for i := 0; i < n; i++ {
		withNul := i%5 == 0
		text := randLexText(r, withNul)
		if i%7 == 3 {
			emit(scanCase("1", text)...)
			continue
		}
		ops := "-"
		if r.Intn(6) == 0 {
			k := 1 + r.Intn(4)
			b := make([]byte, k)
			for j := range b {
				b[j] = "SSR"[r.Intn(3)]
			}
			ops = string(b)
		}
		emit(scanCase(ops, text)...)
	}
}

type scanTok struct {
	tok      influxql.Token
	pos      influxql.Pos
	lit      string
	consumed int
}

func runScanner(ops string, b []byte) []scanTok {
	var rd io.Reader = strings.NewReader(string(b))
	if strings.Contains(ops, "1") {
		rd = iotest.OneByteReader(rd)
	}
	s := influxql.NewScanner(rd)
	var out []scanTok
	limit := utf8.RuneCount(b) + 8
	do := func(regex bool) influxql.Token {
		var tok influxql.Token
		var pos influxql.Pos
		var lit string
		if regex {
			tok, pos, lit = s.ScanRegex()
		} else {
			tok, pos, lit = s.Scan()
		}
		out = append(out, scanTok{tok, pos, lit, s.VerifConsumed()})
		return tok
	}
	for _, c := range ops {
		if c == 'S' || c == 'R' {
			do(c == 'R')
		}
	}
	for i := 0; i < limit; i++ {
		if do(false) == influxql.EOF {
			break
		}
	}
	return out
}

func implScanOps(args []string) string {
	b, err := decBytes(args[2])
	if err != nil {
		return "bad-arg"
	}
	toks := runScanner(args[0], b)
	var sb strings.Builder
	for i, t := range toks {
		if i > 0 {
			sb.WriteByte('|')
		}
		fmt.Fprintf(&sb, "%d#%d:%d:%s:%d", int(t.tok), t.pos.Line, t.pos.Char, encStr(t.lit)[2:], t.consumed)
	}
	return sb.String()
}

// lineCols computes, independently of the scanner, the zero-based (line, column)
// of every delivered rune of the text: CRLF and lone CR are one line break.
func lineCols(b []byte) (cols []influxql.Pos, delivered []rune) {
	rs := []rune(string(b))
	line, col := 0, 0
	for i := 0; i < len(rs); i++ {
		c := rs[i]
		if c == '\r' {
			if i+1 < len(rs) && rs[i+1] == '\n' {
				i++
			}
			c = '\n'
		}
		cols = append(cols, influxql.Pos{Line: line, Char: col})
		delivered = append(delivered, c)
		if c == '\n' {
			line++
			col = 0
		} else {
			col++
		}
	}
	return
}

// fixedSpelling: token kinds whose text is determined by the kind (up to letter case).
func fixedSpelling(tok influxql.Token) bool {
	switch tok {
	case influxql.ILLEGAL, influxql.EOF, influxql.WS, influxql.COMMENT, influxql.IDENT, influxql.BOUNDPARAM, influxql.NUMBER,
		influxql.INTEGER, influxql.DURATIONVAL, influxql.STRING, influxql.BADSTRING, influxql.BADESCAPE, influxql.REGEX, influxql.BADREGEX:
		return false
	}
	return tok.String() != ""
}

// propScanOps (C05): tokens tile the text and carry the position of their first character.
func propScanOps(args []string) string {
	b, err := decBytes(args[2])
	if err != nil || strings.ContainsAny(args[0], "SR") {
		return "skip"
	}
	cols, delivered := lineCols(b)
	toks := runScanner(args[0], b)
	if len(toks) == 0 || toks[len(toks)-1].tok != influxql.EOF {
		return "scan did not end with EOF"
	}
	prev := 0
	for i, t := range toks {
		if t.consumed <= prev && !(t.tok == influxql.EOF && t.consumed >= len(delivered)) {
			return fmt.Sprintf("token %d (%d) consumed no input (offset %d -> %d)", i, int(t.tok), prev, t.consumed)
		}
		if t.tok == influxql.EOF && prev < len(delivered) {
			return fmt.Sprintf("EOF reported at rune offset %d of %d: the rest of the text is never scanned", prev, len(delivered))
		}
		if prev < len(cols) {
			want := cols[prev]
			if t.pos != want {
				return fmt.Sprintf("token %d (kind %d, lit %q) starts at line %d char %d but is reported at line %d char %d", i, int(t.tok), t.lit, want.Line, want.Char, t.pos.Line, t.pos.Char)
			}
		}
		// re-spelling: a token covers exactly the characters of its spelling (checked for the kinds
		// whose spelling is fixed by kind and literal, away from the end of the text and from NUL)
		if t.consumed < len(delivered) && !strings.ContainsRune(string(delivered), 0) {
			ext := t.consumed - prev
			want := -1
			switch {
			case t.tok == influxql.ILLEGAL && t.lit != "":
				want = utf8.RuneCountInString(t.lit)
			case t.tok == influxql.WS:
				want = utf8.RuneCountInString(t.lit)
			case t.tok == influxql.IDENT && prev < len(delivered) && delivered[prev] != '"' && !strings.ContainsRune(string(delivered[prev:t.consumed]), '"'):
				want = utf8.RuneCountInString(t.lit)
			case t.tok == influxql.INTEGER || t.tok == influxql.DURATIONVAL:
				want = utf8.RuneCountInString(t.lit)
			case t.lit == "" && fixedSpelling(t.tok):
				want = len(t.tok.String()) // operators, punctuation, keywords
			}
			if want >= 0 && ext != want {
				return fmt.Sprintf("token %d (kind %d, lit %q, spelling %q) covers %d characters, its spelling has %d", i, int(t.tok), t.lit, t.tok.String(), ext, want)
			}
		}
		prev = t.consumed
	}
	return ""
}

// knownScanOps classifies a failing case under the recorded C05 findings.
func knownScanOps(args []string) string {
	b, err := decBytes(args[2])
	if err != nil {
		return ""
	}
	if strings.IndexByte(string(b), 0) >= 0 {
		return "C05-nul-is-eof-sentinel"
	}
	// STRING-family tokens report the position of the rune before the opening
	// quote (BADESCAPE: of the offending escape rune); check that this is the only
	// kind of discrepancy.
	cols, delivered := lineCols(b)
	toks := runScanner("-", b)
	prev := 0
	sawString := false
	for _, t := range toks {
		if prev < len(cols) && t.pos != cols[prev] {
			isStr := t.tok == influxql.STRING || t.tok == influxql.BADSTRING || t.tok == influxql.BADESCAPE
			if !isStr {
				return ""
			}
			if t.tok != influxql.BADESCAPE {
				// first quote inside the token's extent (a bare prefix may precede it: abc"def")
				j := prev
				for j < len(delivered) && j < t.consumed && delivered[j] != '\'' && delivered[j] != '"' {
					j++
				}
				want := influxql.Pos{}
				if j > 0 && j-1 < len(cols) {
					want = cols[j-1]
				}
				if t.pos != want {
					return ""
				}
			}
			sawString = true
		}
		if t.consumed <= prev && t.tok != influxql.EOF {
			return ""
		}
		prev = t.consumed
	}
	if sawString {
		return "C05-string-position-is-previous-rune"
	}
	return ""
}

func init() {
	register(&stream{name: "scan.ops", gen: genScanOps, impl: implScanOps, prop: propScanOps, known: knownScanOps,
		normalize: func(args []string) []string {
			b, err := decBytes(args[2])
			if err != nil {
				return args
			}
			return []string{args[0], encStr(string(b)), args[2]}
		},
		class: func(args []string, out string) string {
			n := strings.Count(out, "|") + 1
			switch {
			case n <= 2:
				return "tokens<=2"
			case n <= 8:
				return "tokens<=8"
			}
			return "tokens>8"
		},
		nontrivial: func(args []string, out string) bool { return strings.Count(out, "|") >= 2 }})
}

package main

import (
	"fmt"
	"math/rand"
	"regexp"
	"strconv"
	"strings"
	"time"

	"github.com/influxdata/influxql"
)

// Stream for C18: SelectStatement.SetTimeRange over a sequence of windows.
//
//	settimerange.seq s:<condition text, blank = no condition> w:<start>:<end>,<start>:<end>,... l:<lower table>
//
// Output: "ok" followed, for each call, by " | <printed condition> <tree> <ConditionExpr result as in cond.split>"
// (observed with NowValuer{Now: 2000-01-01T00:00:00Z}), or " | set-error" when SetTimeRange fails.

var strNow = time.Unix(0, 946684800000000000).UTC()

type window struct{ start, end int64 }

func decWindows(a string) ([]window, error) {
	if !strings.HasPrefix(a, "w:") {
		return nil, fmt.Errorf("not a window list: %q", a)
	}
	body := a[2:]
	if body == "" {
		return nil, nil
	}
	var out []window
	for _, e := range strings.Split(body, ",") {
		p := strings.Split(e, ":")
		if len(p) != 2 {
			return nil, fmt.Errorf("bad window %q", e)
		}
		s, err := strconv.ParseInt(p[0], 10, 64)
		if err != nil {
			return nil, err
		}
		t, err := strconv.ParseInt(p[1], 10, 64)
		if err != nil {
			return nil, err
		}
		out = append(out, window{s, t})
	}
	return out, nil
}

func encWindows(ws []window) string {
	parts := make([]string, len(ws))
	for i, w := range ws {
		parts[i] = fmt.Sprintf("%d:%d", w.start, w.end)
	}
	return "w:" + strings.Join(parts, ",")
}

func strParse(args []string) (text string, cond influxql.Expr, perr error, ws []window, bad bool) {
	if len(args) < 3 {
		return "", nil, nil, nil, true
	}
	text, err := decStr(args[0])
	if err != nil {
		return "", nil, nil, nil, true
	}
	ws, err = decWindows(args[1])
	if err != nil {
		return "", nil, nil, nil, true
	}
	if strings.Trim(text, " ") != "" {
		cond, perr = parseExprWith(text, nil)
	}
	return text, cond, perr, ws, false
}

func implSetTimeRangeSeq(args []string) string {
	text, cond, perr, ws, bad := strParse(args)
	if bad {
		return "bad-arg"
	}
	if longNumberLiteral(text) {
		return "skip-float-precision"
	}
	if perr != nil {
		if isOracleError(perr) {
			return "skip-oracle-call " + encStr(perr.Error())
		}
		return "parse-error"
	}
	valuer := &influxql.NowValuer{Now: strNow}
	stmt := &influxql.SelectStatement{Condition: cond}
	var b strings.Builder
	b.WriteString("ok")
	for _, w := range ws {
		if stmt.Condition != nil {
			if foldsFloat(stmt.Condition, nil) {
				return "skip-float-arith"
			}
		}
		if err := stmt.SetTimeRange(time.Unix(0, w.start).UTC(), time.Unix(0, w.end).UTC()); err != nil {
			if isOracleError(err) {
				return "skip-oracle-call " + encStr(err.Error())
			}
			b.WriteString(" | set-error")
			break
		}
		c := stmt.Condition
		if !timeYearsPrintable(c) {
			return "skip-time-literal-year-out-of-print-range"
		}
		if foldsFloat(c, valuer) {
			return "skip-float-arith"
		}
		var obs string
		res, tr, err := influxql.ConditionExpr(influxql.CloneExpr(c), valuer)
		if err != nil {
			obs = condErrText(err, "noloc")
			if strings.HasPrefix(obs, "skip") {
				return obs
			}
		} else {
			printed := "-"
			if res != nil {
				if !timeYearsPrintable(res) {
					return "skip-time-literal-year-out-of-print-range"
				}
				printed = encStr(res.String())
			}
			obs = fmt.Sprintf("ok %s %s min=%s max=%s nano=%d,%d", sexpExpr(res), printed, boundText(tr.Min), boundText(tr.Max), tr.MinTimeNano(), tr.MaxTimeNano())
		}
		b.WriteString(" | " + encStr(c.String()) + " " + sexpExpr(c) + " " + obs)
	}
	return b.String()
}

// ---------------------------------------------------------------------------------------------
// Property oracle: after every call the statement selects exactly start <= t < end and the
// non-time part of the original condition; the condition does not grow.

// absValuer evaluates abs(x) and neg(x), so that predicates containing calls have a value that
// depends on the point (with a plain map every call evaluates to nil).
type absValuer struct{}

func (absValuer) Value(string) (interface{}, bool) { return nil, false }

func (absValuer) Call(name string, args []interface{}) (interface{}, bool) {
	if len(args) != 1 {
		return nil, false
	}
	sign := func(neg bool, v interface{}) (interface{}, bool) {
		switch x := v.(type) {
		case int64:
			if (x < 0) != neg {
				return -x, true
			}
			return x, true
		case float64:
			if (x < 0) != neg {
				return -x, true
			}
			return x, true
		}
		return nil, true
	}
	switch name {
	case "abs":
		return sign(false, args[0])
	case "neg":
		return sign(true, args[0])
	}
	return nil, false
}

// evalBoolCalls is EvalBool with the point's fields and tags plus the two functions above.
func evalBoolCalls(e influxql.Expr, m map[string]interface{}) bool {
	ev := influxql.ValuerEval{Valuer: influxql.MultiValuer(influxql.MapValuer(m), absValuer{}), IntegerFloatDivision: true}
	return ev.EvalBool(e)
}

// nonTimeHolds: the original condition with every time comparison taken as true.
func nonTimeHolds(e influxql.Expr, m map[string]interface{}) bool {
	switch v := e.(type) {
	case *influxql.ParenExpr:
		return nonTimeHolds(v.Expr, m)
	case *influxql.BooleanLiteral:
		return v.Val
	case *influxql.BinaryExpr:
		if v.Op == influxql.AND {
			return nonTimeHolds(v.LHS, m) && nonTimeHolds(v.RHS, m)
		} else if v.Op == influxql.OR {
			return nonTimeHolds(v.LHS, m) || nonTimeHolds(v.RHS, m)
		}
		if isTimeVarRef(v.LHS) || isTimeVarRef(v.RHS) {
			return true
		}
	}
	return evalBoolCalls(e, m)
}

func exprSize(e influxql.Expr) int {
	n := 0
	influxql.WalkFunc(e, func(node influxql.Node) {
		if node != nil {
			n++
		}
	})
	return n
}

// mentionsTimeOutsideBounds: a reference to time anywhere but as a direct operand of a comparison
// leaf (e.g. `time + 1 > 5`): such predicates have no agreed meaning and are outside the class.
func mentionsTimeOutsideBounds(e influxql.Expr) bool {
	var plain []influxql.Expr
	plainLeaves(e, &plain)
	found := false
	for _, p := range plain {
		influxql.WalkFunc(p, func(n influxql.Node) {
			if x, ok := n.(influxql.Expr); ok && isTimeVarRef(x) {
				found = true
			}
		})
	}
	return found
}

func propSetTimeRangeSeq(args []string) string {
	text, cond, perr, ws, bad := strParse(args)
	if bad || perr != nil || len(ws) == 0 {
		return "skip"
	}
	valuer := &influxql.NowValuer{Now: strNow}
	var orig influxql.Expr
	if cond != nil {
		leaves := map[influxql.Expr]*condLeaf{}
		inClass, _ := condClassC(cond, strNow, true, nil, leaves, true)
		if !inClass || mentionsTimeOutsideBounds(cond) {
			return "skip"
		}
		// the original condition must itself be usable (no out-of-range literal)
		if _, _, err := influxql.ConditionExpr(influxql.CloneExpr(cond), valuer); err != nil {
			return "skip"
		}
		var plain []influxql.Expr
		plainLeaves(cond, &plain)
		for _, p := range plain {
			rp := influxql.Reduce(influxql.CloneExpr(p), valuer)
			for _, m := range condAssignments(condVars(cond)) {
				if evalBoolCalls(p, m) != evalBoolCalls(rp, m) {
					return "skip" // Reduce/Eval disagreement on a constant predicate (C09, see C10)
				}
			}
		}
		orig = influxql.CloneExpr(cond)
	}
	minT, maxT := time.Unix(0, influxql.MinTime), time.Unix(0, influxql.MaxTime)
	stmt := &influxql.SelectStatement{Condition: cond}
	origSize := 0
	if orig != nil {
		origSize = exprSize(orig)
	}
	var vars []string
	if orig != nil {
		vars = condVars(orig)
	}
	assignments := condAssignments(vars)
	// the parentheses SetTimeRange puts around an OR at the top of the rewritten condition are one node
	sizeSlack := 8
	if orig != nil && rewrittenTopIsOr(orig) {
		sizeSlack = 9
	}
	firstSize := 0
	for i, w := range ws {
		if w.start <= influxql.MinTime || w.end > influxql.MaxTime || w.start >= w.end {
			return "skip" // windows must be representable time literals
		}
		start, end := time.Unix(0, w.start).UTC(), time.Unix(0, w.end).UTC()
		if err := stmt.SetTimeRange(start, end); err != nil {
			return fmt.Sprintf("call %d on %q fails: %v", i+1, text, err)
		}
		c := stmt.Condition
		res, tr, err := influxql.ConditionExpr(influxql.CloneExpr(c), valuer)
		if err != nil {
			return fmt.Sprintf("after call %d on %q the condition %q is not usable: %v", i+1, text, c.String(), err)
		}
		// the window is written as absolute instants (RFC 3339 with Z): read under a clock in another time zone
		// it is the same window (round-4 seeded change C18-2 parsed such strings in the zone of the valuer)
		for _, off := range []int{-8 * 3600, 5*3600 + 1800} {
			_, trz, errz := influxql.ConditionExpr(influxql.CloneExpr(c), &influxql.NowValuer{Now: strNow, Location: time.FixedZone("", off)})
			if errz == nil && (!trz.Min.Equal(tr.Min) || !trz.Max.Equal(tr.Max)) {
				return fmt.Sprintf("after call %d on %q the condition %q selects [%s, %s] under a UTC clock and [%s, %s] under a clock at offset %d s", i+1, text, c.String(),
					tr.Min.UTC().Format(time.RFC3339Nano), tr.Max.UTC().Format(time.RFC3339Nano), trz.Min.UTC().Format(time.RFC3339Nano), trz.Max.UTC().Format(time.RFC3339Nano), off)
			}
		}
		inRange := func(t time.Time) bool {
			if !tr.Min.IsZero() && t.Before(tr.Min) {
				return false
			}
			if !tr.Max.IsZero() && t.After(tr.Max) {
				return false
			}
			return true
		}
		var points []time.Time
		add := func(t time.Time) {
			if t.Before(minT) || t.After(maxT) {
				return
			}
			points = append(points, t)
		}
		for _, t := range []time.Time{start.Add(-1), start, start.Add(1), end.Add(-1), end, end.Add(1), minT, maxT, time.Unix(0, 0), strNow, time.Unix(0, 5), time.Unix(0, 6)} {
			add(t)
		}
		for _, pw := range ws[:i] {
			add(time.Unix(0, pw.start))
			add(time.Unix(0, pw.end-1))
		}
		// the condition read directly (AND / OR / parentheses over exact time comparisons and
		// EvalBool of the other predicates), without going through ConditionExpr
		newLeaves := map[influxql.Expr]*condLeaf{}
		direct := condTimeLeaves(c, strNow, true, nil, newLeaves)
		for _, m := range assignments {
			residual := res == nil || evalBoolCalls(res, m)
			nt := orig == nil || nonTimeHolds(orig, m)
			if direct {
				condLeafEval = evalBoolCalls
				for _, t := range points {
					want := !t.Before(start) && t.Before(end) && nt
					got := condHolds(c, t, m, newLeaves)
					if want != got {
						condLeafEval = evalBoolIFD
						return fmt.Sprintf("direct: after call %d (window [%d,%d)) on %q the condition is %q: at time %d with %v it holds=%v, window and non-time part give %v", i+1, w.start, w.end, text, c.String(), t.UnixNano(), m, got, want)
					}
				}
				condLeafEval = evalBoolIFD
			}
			for _, t := range points {
				want := !t.Before(start) && t.Before(end) && nt
				got := inRange(t) && residual
				if want != got {
					return fmt.Sprintf("after call %d (window [%d,%d)) on %q the condition is %q: at time %d with %v it selects=%v, window and non-time part give %v", i+1, w.start, w.end, text, c.String(), t.UnixNano(), m, got, want)
				}
			}
		}
		// the statement is handed on as text (continuous queries are stored and shipped printed): the printed
		// condition, parsed again, is the same tree (round-3 seeded change C18-2 dropped the parentheses around
		// an OR, so that the text regrouped). Conditions with a signed reference / call / parenthesis are left
		// out: their printing is the open finding negated-operand-printed-without-grouping of C02/C03.
		if printed := c.String(); !signedOperand.MatchString(printed) && !signedOperand.MatchString(text) {
			back, rerr := influxql.ParseExpr(printed)
			if rerr != nil {
				return fmt.Sprintf("after call %d on %q the condition prints as %q, which does not parse: %v", i+1, text, printed, rerr)
			}
			if a, b := exprSkeleton(c), exprSkeleton(back); a != b {
				return fmt.Sprintf("after call %d on %q the condition prints as %q, which parses to another grouping: %s vs %s", i+1, text, printed, a, b)
			}
		}
		sz := exprSize(c)
		if i == 0 {
			firstSize = sz
			if sz > origSize+sizeSlack {
				return fmt.Sprintf("size: call 1 on %q grows the condition from %d to %d nodes: %q", text, origSize, sz, c.String())
			}
		} else if sz > firstSize {
			return fmt.Sprintf("size: call %d on %q grows the condition beyond its size after the first call (%d > %d): %q", i+1, text, sz, firstSize, c.String())
		}
	}
	// "every other predicate is kept", also when the statement is edited in place between two windows (a
	// continuous query service rewrites conditions between runs): names and string values of the non-time
	// predicates are changed inside the existing nodes, then the last window is set again; the result must be
	// that of a twin holding a copy of the edited condition on which SetTimeRange was never called (round-3
	// seeded change C18-3 kept the time-free condition in a memo keyed on the root node)
	if stmt.Condition != nil {
		influxql.WalkFunc(stmt.Condition, func(n influxql.Node) {
			switch l := n.(type) {
			case *influxql.StringLiteral:
				if !l.IsTimeLiteral() {
					l.Val += "_edited"
				}
			case *influxql.VarRef:
				if !strings.EqualFold(l.Val, "time") {
					l.Val += "_e"
				}
			}
		})
		// … and when the condition is replaced altogether (the exported field assigned) by one that already ends
		// in a window of the shape SetTimeRange writes, with a further bound before it (round-4 seeded change
		// C18-1 trusted a "range already set" flag and swapped only the last two conjuncts)
		for _, extra := range []string{"time > now() - 1h AND ", "time >= 5 AND time < 100000000000000000000 AND ", ""} {
			repl, rerr := influxql.ParseExpr("region_r = 'west' AND " + extra + "time >= '2010-01-01T00:00:00Z' AND time < '2010-01-02T00:00:00Z'")
			if rerr != nil {
				continue
			}
			w := ws[len(ws)-1]
			start, end := time.Unix(0, w.start).UTC(), time.Unix(0, w.end).UTC()
			primed := &influxql.SelectStatement{Condition: influxql.CloneExpr(stmt.Condition)}
			if primed.SetTimeRange(start, end) != nil {
				continue
			}
			primed.Condition = influxql.CloneExpr(repl)
			fresh := &influxql.SelectStatement{Condition: influxql.CloneExpr(repl)}
			e1, e2 := primed.SetTimeRange(start, end), fresh.SetTimeRange(start, end)
			if (e1 == nil) != (e2 == nil) || (e1 == nil && primed.Condition.String() != fresh.Condition.String()) {
				return fmt.Sprintf("condition replaced by %q after a window was set: SetTimeRange gives %q (%v), on a statement that never had a window %q (%v)", repl.String(), primed.Condition, e1, fresh.Condition, e2)
			}
		}
		twin := &influxql.SelectStatement{Condition: influxql.CloneExpr(stmt.Condition)}
		w := ws[len(ws)-1]
		start, end := time.Unix(0, w.start).UTC(), time.Unix(0, w.end).UTC()
		e1, e2 := stmt.SetTimeRange(start, end), twin.SetTimeRange(start, end)
		if (e1 == nil) != (e2 == nil) {
			return fmt.Sprintf("%q edited in place after %d calls: SetTimeRange gives %v, on a fresh copy of the edited condition %v", text, len(ws), e1, e2)
		}
		if e1 == nil && stmt.Condition.String() != twin.Condition.String() {
			return fmt.Sprintf("%q edited in place after %d calls: SetTimeRange gives %q, on a fresh copy of the edited condition %q", text, len(ws), stmt.Condition.String(), twin.Condition.String())
		}
	}
	return ""
}

var signedOperand = regexp.MustCompile(`[-+][ \t]*[A-Za-z_("]|[-+]1(\.0+)? \*`)

// exprSkeleton: operators, parentheses and calls of an expression; every leaf is `_` (a folded instant is a
// TimeLiteral in the tree and a string once printed and parsed: same leaf).
func exprSkeleton(e influxql.Expr) string {
	switch e := e.(type) {
	case *influxql.BinaryExpr:
		return "(" + exprSkeleton(e.LHS) + " " + e.Op.String() + " " + exprSkeleton(e.RHS) + ")"
	case *influxql.ParenExpr:
		return "[" + exprSkeleton(e.Expr) + "]"
	case *influxql.Call:
		parts := make([]string, len(e.Args))
		for i, a := range e.Args {
			parts[i] = exprSkeleton(a)
		}
		return e.Name + "<" + strings.Join(parts, ",") + ">"
	}
	return "_"
}

// rewrittenTopIsOr: the condition, with its time comparisons replaced by true as
// rewriteWithoutTimeDimensions does, has an OR at the top.
func rewrittenTopIsOr(cond influxql.Expr) bool {
	rew := influxql.RewriteFunc(influxql.CloneExpr(cond), func(n influxql.Node) influxql.Node {
		if be, ok := n.(*influxql.BinaryExpr); ok && (isTimeVarRef(be.LHS) || isTimeVarRef(be.RHS)) {
			return &influxql.BooleanLiteral{Val: true}
		}
		return n
	})
	be, ok := rew.(*influxql.BinaryExpr)
	return ok && be.Op == influxql.OR
}

// knownSetTimeRangeSeq classifies failing cases by what the original condition contains.
func knownSetTimeRangeSeq(args []string) string {
	_, cond, perr, _, bad := strParse(args)
	if bad || perr != nil || cond == nil {
		return ""
	}
	d := propSetTimeRangeSeq(args)
	if d == "" || d == "skip" {
		return ""
	}
	// (Before the fixes 51161c4 / 86fc254 of /repo there were two more classes: bounds not written
	// `time <op> x` survived, and every call became true. They are repaired; a failure of that
	// kind is no longer excused.)
	// An OR at the top of the rewritten condition captured the window (`a OR b AND <window>`) until
	// rewriteWithoutTimeDimensions began to parenthesise it. The finding is recorded as fixed, so this
	// class excuses nothing any more; it is kept to name the regression should the parentheses get
	// lost again: it applies only when the same condition in parentheses passes, i.e. the missing
	// parentheses are the cause.
	if rewrittenTopIsOr(cond) {
		text, _ := decStr(args[0])
		wrapped := append([]string{encStr("(" + text + ")")}, args[1:]...)
		if len(wrapped) > 2 {
			wrapped[2] = encLower(text)
		}
		if d2 := propSetTimeRangeSeq(wrapped); d2 == "" || d2 == "skip" { // skip: a later window is not representable
			return "C18-top-level-or-captures-the-window"
		}
	}
	// the condition itself does not survive print -> parse (printing defects recorded under C02/C03).
	// SetTimeRange builds its condition as a tree since the fix of this finding, which is recorded as
	// fixed: the class excuses nothing any more; it is kept to name the regression should the
	// condition be printed and parsed again.
	if re, err := parseExprWith(cond.String(), nil); err != nil || !exprEqual(re, cond) {
		return "C18-condition-does-not-reparse"
	}
	// Reduce at the end of a call folded constant arithmetic of a predicate to a *TimeLiteral
	// (`7 - 0s`, `'2000-01-01' - 0`); a time literal prints as a quoted string and the text route
	// read it back as a *StringLiteral on the next call: the predicate was a different one from then
	// on. Fixed together with the class above (nothing is parsed any more); excuses nothing.
	if _, _, _, ws, bad := strParse(args); !bad {
		stmt := &influxql.SelectStatement{Condition: influxql.CloneExpr(cond)}
		for _, w := range ws {
			if err := stmt.SetTimeRange(time.Unix(0, w.start).UTC(), time.Unix(0, w.end).UTC()); err != nil {
				break
			}
			hasTime := false
			influxql.WalkFunc(stmt.Condition, func(n influxql.Node) {
				if _, ok := n.(*influxql.TimeLiteral); ok {
					hasTime = true
				}
			})
			if hasTime {
				if re, err := parseExprWith(stmt.Condition.String(), nil); err == nil && !exprEqual(re, stmt.Condition) {
					return "C18-folded-time-literal-comes-back-as-string"
				}
			}
		}
	}
	return ""
}

// ---------------------------------------------------------------------------------------------

func randWindows(r *rand.Rand) []window {
	n := 1 + r.Intn(8)
	base := condBaseTimes[r.Intn(len(condBaseTimes))] + int64(r.Intn(3))
	if r.Intn(6) == 0 {
		base = condPickInt(r, []int64{influxql.MinTime + 1, influxql.MaxTime - 3600000000000*10, -1000, 1, 253402300799000000, 4102444800000000000})
	}
	length := condPickInt(r, []int64{1, 1000, 60000000000, 3600000000000, 86400000000000, 123456789})
	ws := make([]window, n)
	cur := base
	for i := range ws {
		switch r.Intn(8) {
		case 0: // gap or overlap
			cur += int64(r.Intn(2000)) - 1000
		case 1: // back in time
			cur -= 2 * length
		}
		ws[i] = window{cur, cur + length}
		cur += length
	}
	if r.Intn(25) == 0 {
		ws[r.Intn(n)] = window{condPickInt(r, []int64{influxql.MinTime, influxql.MinTime - 1, 0, 5}), condPickInt(r, []int64{influxql.MaxTime, influxql.MaxTime + 1, 0, 5})}
	}
	return ws
}

func randSTRCond(r *rand.Rand, depth int, timeOK bool) string {
	if depth <= 0 || r.Intn(3) == 0 {
		if timeOK && r.Intn(2) == 0 {
			op := pick(r, []string{"=", "<", "<=", ">", ">="})
			// time in any letter case, quoted, typed, on either side (all recognised since 51161c4)
			name := randTimeName(r)
			if r.Intn(4) == 0 {
				return randTimeOperand(r, true) + " " + op + " " + name
			}
			return name + " " + op + " " + randTimeOperand(r, true)
		}
		switch r.Intn(10) {
		case 8: // a negated operand (the tree does not survive print -> parse; former finding)
			return randNegatedOperand(r)
		case 9: // constant arithmetic that Reduce folds to a time literal (former finding)
			return randFoldsToTime(r)
		case 0:
			return pick(r, []string{"true", "false", "1 = 1", "1 = 2"})
		case 1:
			return pick(r, []string{"host", "region"}) + " " + pick(r, []string{"=~", "!~"}) + " " + pick(r, []string{"/a/", "/^a$/", "/b|c/"})
		case 2:
			return pick(r, []string{"'a' = host", "1 < value", "2.5 >= n", "host = region", `"host" = 'time'`, "host = 'it\\'s'", "value::float > 1", "\"a b\" = 1", "value > abs(n)", "abs(value) > 1", "neg(n) < 0", "abs(n) = 1"})
		}
		return pick(r, []string{"host", "region", "value", "n", "a", "b"}) + " " + pick(r, []string{"=", "!=", "<", "<=", ">", ">="}) + " " + pick(r, []string{"'a'", "'b'", "1", "2.5", "0", "true", "10s", "-1", "-2.5"})
	}
	switch r.Intn(7) {
	case 0, 1, 2:
		return randSTRCond(r, depth-1, timeOK) + " AND " + randSTRCond(r, depth-1, timeOK)
	case 3:
		return "(" + randSTRCond(r, depth-1, false) + " OR " + randSTRCond(r, depth-1, false) + ")"
	case 4:
		if depth >= 2 && r.Intn(3) == 0 { // a top-level / unparenthesised OR (known finding class)
			return randSTRCond(r, depth-1, false) + " OR " + randSTRCond(r, depth-1, false)
		}
		return "(" + randSTRCond(r, depth-1, false) + " OR " + randSTRCond(r, depth-1, false) + ") AND " + randSTRCond(r, depth-1, timeOK)
	default:
		return "(" + randSTRCond(r, depth-1, timeOK) + ")"
	}
}

// randNegatedOperand: a predicate with a signed operand after %, / or *: the parser builds
// `n % (-1 * a)`, which prints as `n % -1 * a` and parses back as `(n % -1) * a`. SetTimeRange used
// to print and parse the condition (finding C18-condition-does-not-reparse, fixed: it builds a tree).
func randNegatedOperand(r *rand.Rand) string {
	vars := []string{"n", "a", "b", "value"}
	operand := pick(r, vars)
	switch r.Intn(5) {
	case 0:
		operand = pick(r, []string{"abs", "neg", "f"}) + "(" + pick(r, vars) + ")"
	case 1:
		operand = "(" + pick(r, vars) + " " + pick(r, []string{"+", "-", "*"}) + " " + pick(r, []string{"1", "2", "n"}) + ")"
	}
	sign := "-"
	if r.Intn(6) == 0 {
		sign = "+"
	}
	lhs := pick(r, vars)
	if r.Intn(4) == 0 {
		lhs = pick(r, []string{"2", "7", "abs(n)", "(a + b)"})
	}
	pred := lhs + " " + pick(r, []string{"%", "/", "*"}) + " " + sign + operand
	if r.Intn(5) == 0 { // a second factor: `n * -a / -b`
		pred += " " + pick(r, []string{"%", "/", "*"}) + " -" + pick(r, vars)
	}
	if r.Intn(2) == 0 {
		return pred + " " + pick(r, []string{"=", "!=", "<", "<=", ">", ">="}) + " " + pick(r, []string{"1", "0", "-1", "2", "n"})
	}
	return pick(r, []string{"1", "0", "-1", "2", "n"}) + " " + pick(r, []string{"=", "!=", "<", "<=", ">", ">="}) + " " + pred
}

// randFoldsToTime: a predicate with constant arithmetic that the Reduce at the end of a call folds to
// a *TimeLiteral (integer +- duration, date string +- duration or integer, duration + date string). A
// time literal prints as a quoted string; the text route read it back as a *StringLiteral on the next
// call (finding C18-folded-time-literal-comes-back-as-string, fixed: nothing is parsed any more).
func randFoldsToTime(r *rand.Rand) string {
	dates := []string{"'2000-01-01'", "'2000-01-01T00:00:00Z'", "'2000-01-01 00:00:00'", "'1999-12-31T23:59:59.5Z'", "'1970-01-01'"}
	durs := []string{"0s", "1s", "10m", "1h", "1u", "2w"}
	var t string
	switch r.Intn(6) {
	case 0:
		t = fmt.Sprintf("%d %s %s", r.Intn(100), pick(r, []string{"-", "+"}), pick(r, durs))
	case 1:
		t = pick(r, dates) + " " + pick(r, []string{"-", "+"}) + " " + pick(r, durs)
	case 2:
		t = pick(r, dates) + " " + pick(r, []string{"-", "+"}) + " " + fmt.Sprint(r.Intn(10))
	case 3:
		t = pick(r, durs) + " + " + pick(r, dates)
	case 4:
		t = fmt.Sprintf("%d - 0s + %s", r.Intn(10), pick(r, durs))
	default:
		t = pick(r, []string{"7 - 0s", "'2000-01-01' - 0"})
	}
	v := pick(r, []string{"b", "a", "host", "region", `""`, "n"})
	op := pick(r, []string{"<>", "!=", "=", "<", ">="})
	if r.Intn(2) == 0 {
		return t + " " + op + " " + v
	}
	return v + " " + op + " " + t
}

// randTopOr: an OR at the top (the shape SetTimeRange has to parenthesise): 2-4 disjuncts, plain,
// parenthesised or nested ORs, conjunctions with or without time bounds inside the disjuncts, time
// in any letter case.
func randTopOr(r *rand.Rand) string {
	n := 2 + r.Intn(3)
	timeInside := r.Intn(3) == 0
	parts := make([]string, n)
	for i := range parts {
		switch r.Intn(6) {
		case 0:
			parts[i] = "(" + randSTRCond(r, 1, false) + " OR " + randSTRCond(r, 1, false) + ")"
		case 1:
			parts[i] = randSTRCond(r, 1+r.Intn(2), timeInside) + " AND " + randSTRCond(r, 1, timeInside)
		case 2:
			parts[i] = "(" + randSTRCond(r, 1+r.Intn(2), timeInside) + ")"
		case 3:
			if timeInside {
				parts[i] = randSTRCond(r, 0, false) + " AND " + randTimeName(r) + " " + pick(r, []string{">", ">=", "<", "<="}) + " " + randTimeOperand(r, true)
				break
			}
			fallthrough
		default:
			parts[i] = randSTRCond(r, 0, false)
		}
	}
	text := strings.Join(parts, " OR ")
	if r.Intn(8) == 0 { // the whole OR next to a bound: the OR is not at the top of the tree, AND binds tighter
		text += " AND " + randTimeName(r) + " > " + randTimeOperand(r, true)
	}
	return text
}

func genSetTimeRangeSeq(r *rand.Rand, n int, emit func(args ...string)) {
	w3 := []window{{1000000000000, 1060000000000}, {1060000000000, 1120000000000}, {1120000000000, 1180000000000}}
	corpus := []string{
		"", " ", "host = 'a'", "time > 5", "time > 5 AND host = 'a'", "host = 'a' AND time > 5 AND time < 10", "time > now() - 1h", "time > now() - 1h AND host = 'a'",
		"'2000-01-01T00:00:00Z' <= time AND host = 'a'", "5 < time", "TIME > 5", "Time > 5 AND host = 'a'", "v > abs(w) AND TIME > 5", "v > abs(w)", "host = 'a' AND f(x) = 1",
		"host = 'a' OR host = 'b'", "host = 'a' OR host = 'b' AND time > 5", "(host = 'a' OR host = 'b') AND time > 5", "(host = 'a' OR host = 'b')", "time > 5 OR host = 'a'",
		"time + 1 > 5 AND host = 'a'", "host = 'a' AND time::integer > 5", "false AND time > 5", "true", "false", "true AND time > 5", "1 = 1 AND time > 5",
		"host = 'time'", "'time' = host", "\"time\" > 5", "(time > 5)", "((time > 5 AND host = 'a'))", "(time > 5) AND (host = 'a')", "host =~ /a/ AND time > 5", "host !~ /a\\/b/",
		"b / -a > 1 AND time > 5", "-a > 1", "n % -a > 1", "host = 'a' AND", "time >", "\"a b\" = 1 AND time > 5", "value > 1.5", "value > -1.5 AND time >= '2000-01-01'", "n = 10s AND time > 5",
		"time = 5", "time > 5 AND time > 5 AND time > 5", "time > 'abc'", "time > '2300-01-01'", "time != 5", "time =~ /x/", "time > 5 AND region != 'it\\'s'",
		// an OR at the top (parenthesised by SetTimeRange): 2-4 disjuncts, nested, with and without time bounds inside
		"host = 'a' OR host = 'b' OR host = 'c'", "host = 'a' OR host = 'b' OR region = 'x' OR value > 1", "host = 'a' OR (host = 'b' OR region = 'x')",
		"(host = 'a' OR host = 'b') OR region = 'x'", "(host = 'a') OR (host = 'b')", "host = 'a' AND region = 'x' OR host = 'b'", "host = 'a' OR host = 'b' AND region = 'x'",
		"host = 'a' AND time > 5 OR host = 'b' AND TIME < 10", "(host = 'a' AND Time >= '2000-01-01T00:00:00Z') OR (host = 'b' AND '2001-01-01T00:00:00Z' > time)",
		"host = 'a' OR host = 'b' AND time > now() - 1h", "host = 'a' AND tImE > now() - 1h OR host = 'b' AND tImE > now() - 2h OR host = 'c'",
		"host = 'a' OR false", "false OR host = 'a'", "true OR host = 'a'", "host = 'a' OR true", "false OR false", "time > 5 OR time < 3", "host =~ /a/ OR host !~ /b|c/",
		"value > abs(n) OR host = 'a'", "host = 'a' OR host = 'b' OR (region = 'x' AND (value > 1 OR n < 2))", "((host = 'a' OR host = 'b'))", "time OR host = 'a'",
		// constant arithmetic that Reduce folds to a time literal (the text route read it back as a string on the next call: fixed)
		"7 - 0s <> b", "\"\" != '2000-01-01' - 0", "host = 'a' AND '2000-01-01T00:00:00Z' + 1h > b AND time > 5",
		"b = 1h + '2000-01-01'", "7 - 0s <> b OR host = 'a'", "(n < -1 OR '2000-01-01' + 1h = x)", "b <> 5 + 10m AND a <> '2000-01-01' - 1 AND time < 10",
		// negated operands after % / * (the tree does not survive print -> parse: fixed, the condition is built as a tree)
		"b / -a > 1", "n % -a > 1 AND time > 5", "v * -f(x) > 1", "value * -abs(n) < 0 AND time > now() - 1h", "n % +a > 1", "n * -a / -b >= 1",
		"1 < n % -(a + 1)", "n % -a > 1 OR b / -a > 1", "(n % -a > 1 OR host = 'a') AND time > 5", "2 / -n = 1 AND 7 - 0s <> b",
		// other results of Reduce that do not print as themselves (unsigned below 2^63, NaN) and a rewrite that does not print as an expression
		"9223372036854775808 - 1 = v", "host =~ /a/ + time",
	}
	for _, s := range corpus {
		emit(encStr(s), encWindows(w3), encLower(s))
		emit(encStr(s), encWindows(w3[:1]), encLower(s))
	}
	for i := 0; i < n; i++ {
		var text string
		switch r.Intn(23) {
		case 20: // negated operand next to other predicates and bounds
			text = randNegatedOperand(r)
			if r.Intn(3) > 0 {
				text += " AND " + randSTRCond(r, 1+r.Intn(2), true)
			}
		case 21: // folds to a time literal on the first call
			text = randFoldsToTime(r)
			if r.Intn(3) > 0 {
				text = randSTRCond(r, 1+r.Intn(2), true) + " AND " + text
			}
		case 22: // both, under OR / parentheses
			text = "(" + randNegatedOperand(r) + " OR " + randFoldsToTime(r) + ")"
			if r.Intn(2) == 0 {
				text += " AND " + randTimeName(r) + " > " + randTimeOperand(r, true)
			}
		case 0:
			text = randExprText(r, 0, r.Intn(5))
		case 1, 2, 3:
			text = randCond(r, 1+r.Intn(3), false, true)
		case 4, 5, 6, 7:
			text = randCond(r, 1+r.Intn(3), true, true)
		case 8:
			text = ""
		case 9, 10:
			text = randTopOr(r)
		default:
			text = randSTRCond(r, 1+r.Intn(4), true)
		}
		emit(encStr(text), encWindows(randWindows(r)), encLower(text))
	}
}

func init() {
	register(&stream{name: "settimerange.seq", gen: genSetTimeRangeSeq, impl: implSetTimeRangeSeq, prop: propSetTimeRangeSeq, known: knownSetTimeRangeSeq,
		class: func(args []string, out string) string {
			switch {
			case strings.HasPrefix(out, "ok"):
				if strings.Contains(out, "set-error") {
					return "set-error"
				}
				orTop := ""
				if len(args) > 0 {
					if text, err := decStr(args[0]); err == nil && strings.Trim(text, " ") != "" {
						if cond, err := parseExprWith(text, nil); err == nil {
							if rewrittenTopIsOr(cond) {
								orTop = ",or-at-top"
							}
							// the two shapes of the former text-route findings
							if re, err := parseExprWith(cond.String(), nil); err != nil || !exprEqual(re, cond) {
								orTop += ",does-not-reparse"
							}
						}
					}
				}
				if strings.Contains(out, "(time ") {
					orTop += ",time-literal"
				}
				return fmt.Sprintf("ok-%d-calls%s", strings.Count(out, " | "), orTop)
			case strings.HasPrefix(out, "skip"):
				return strings.Fields(out)[0]
			case strings.HasPrefix(out, "parse-error"):
				return "parse-error"
			case strings.HasPrefix(out, "panic"):
				return "panic"
			}
			return "error"
		},
		nontrivial: func(args []string, out string) bool {
			return strings.Count(args[0], ",") >= 8 && strings.Count(args[1], ",") >= 1
		}})
}

package main

import (
	"fmt"
	"math/rand"
	"strings"
	"time"

	"github.com/influxdata/influxql"
)

// Streams for C04: parsing is total.
//
//	total.bytes b:<raw bytes> p:<params>
//	    ParseQuery, ParseStatement and ParseExpr on arbitrary bytes with bound parameters, each under
//	    recover and a deadline; a result must print (String) and walk (WalkFunc) without panic.
//	    Property oracle only (no model comparison).
//	total.expr s:<runes as Go decodes them> p:<params> l:<lower table>
//	    ParseExpr on the same hostile inputs, compared with the model (format of parse.expr).

var stmtPool = []string{
	"SELECT * FROM cpu",
	"SELECT mean(value) FROM cpu WHERE host = 'a' AND time > now() - 1h GROUP BY time(10m), region fill(0) ORDER BY time DESC LIMIT 10 OFFSET 2 SLIMIT 3 SOFFSET 1 tz('UTC')",
	"SELECT a, b::float, \"c d\" AS x INTO \"db\".\"rp\".m FROM /cpu.*/, (SELECT max(v) FROM m2 GROUP BY *) WHERE a =~ /x/ OR b !~ /y/",
	"SELECT DISTINCT(a) FROM m; SELECT count(distinct(b)) FROM m",
	"DELETE FROM cpu WHERE time < '2000-01-01T00:00:00Z'",
	"DROP SERIES FROM cpu WHERE host = 'a'",
	"DROP MEASUREMENT cpu",
	"DROP DATABASE db",
	"DROP RETENTION POLICY rp ON db",
	"DROP CONTINUOUS QUERY cq ON db",
	"DROP SHARD 3",
	"DROP SUBSCRIPTION s ON db.rp",
	"DROP USER u",
	"CREATE DATABASE db WITH DURATION 1d REPLICATION 1 SHARD DURATION 1h NAME rp",
	"CREATE RETENTION POLICY rp ON db DURATION 1h REPLICATION 2 SHARD DURATION 30m DEFAULT",
	"ALTER RETENTION POLICY rp ON db DURATION INF REPLICATION 3 DEFAULT",
	"CREATE CONTINUOUS QUERY cq ON db RESAMPLE EVERY 10s FOR 1m BEGIN SELECT mean(v) INTO m2 FROM m GROUP BY time(1m) END",
	"CREATE SUBSCRIPTION s ON db.rp DESTINATIONS ALL 'udp://a:1', 'udp://b:2'",
	"CREATE USER u WITH PASSWORD 'p' WITH ALL PRIVILEGES",
	"SET PASSWORD FOR u = 'p'",
	"GRANT READ ON db TO u", "GRANT ALL PRIVILEGES TO u", "REVOKE WRITE ON db FROM u", "REVOKE ALL FROM u",
	"KILL QUERY 3 ON 'host'",
	"EXPLAIN ANALYZE SELECT * FROM m",
	"SHOW DATABASES", "SHOW USERS", "SHOW QUERIES", "SHOW SHARDS", "SHOW SHARD GROUPS", "SHOW SUBSCRIPTIONS", "SHOW CONTINUOUS QUERIES",
	"SHOW STATS FOR 'x'", "SHOW DIAGNOSTICS", "SHOW GRANTS FOR u", "SHOW RETENTION POLICIES ON db",
	"SHOW MEASUREMENTS ON db WITH MEASUREMENT =~ /c.*/ WHERE a = 'b' LIMIT 1 OFFSET 2",
	"SHOW SERIES ON db FROM m WHERE a = 'b' ORDER BY a LIMIT 3",
	"SHOW TAG KEYS ON db FROM m WITH KEY IN (a, b) WHERE c = 'd' LIMIT 1 SLIMIT 2",
	"SHOW TAG VALUES ON db FROM m WITH KEY =~ /a/ WHERE b = 'c'",
	"SHOW FIELD KEYS ON db FROM m", "SHOW SERIES CARDINALITY ON db", "SHOW MEASUREMENT EXACT CARDINALITY ON db FROM m",
	"SHOW TAG VALUES EXACT CARDINALITY FROM m WITH KEY = a", "SHOW FIELD KEY CARDINALITY", "SHOW TAG KEY CARDINALITY ON db FROM m GROUP BY a",
	"SELECT $p FROM $q WHERE a = $r AND time > $t GROUP BY time($d) LIMIT $n",
	"SELECT f($p, $q) FROM m WHERE a =~ $r",
}

func mutateBytes(r *rand.Rand, s string) string {
	b := []byte(s)
	for k := r.Intn(4); k >= 0; k-- {
		if len(b) == 0 {
			b = append(b, byte(r.Intn(256)))
			continue
		}
		i := r.Intn(len(b))
		switch r.Intn(8) {
		case 0: // delete a byte
			b = append(b[:i], b[i+1:]...)
		case 1: // replace by a random byte
			b[i] = byte(r.Intn(256))
		case 2: // insert an interesting fragment
			f := pick(r, []string{"(", ")", "'", "\"", "$", "$x", "/*", "*/", "--", "/", "\\", ";", ",", ".", "::", "\x00", "\n", "\r", "-", "+", "=~", "1e", "9223372036854775808", "\xff", "\xe2\x82"})
			b = append(b[:i], append([]byte(f), b[i:]...)...)
		case 3: // truncate
			b = b[:i]
		case 4: // duplicate a chunk
			j := i + r.Intn(len(b)-i+1)
			b = append(b[:j], append(append([]byte(nil), b[i:j]...), b[j:]...)...)
		case 5: // swap two chunks of tokens
			f := strings.Fields(string(b))
			if len(f) > 1 {
				x, y := r.Intn(len(f)), r.Intn(len(f))
				f[x], f[y] = f[y], f[x]
				b = []byte(strings.Join(f, " "))
			}
		case 6: // replace a token by a keyword / operator
			f := strings.Fields(string(b))
			if len(f) > 0 {
				f[r.Intn(len(f))] = pick(r, append(append([]string{}, kwPool...), opPool...))
				b = []byte(strings.Join(f, " "))
			}
		default: // splice with another statement
			o := pick(r, stmtPool)
			b = append(b[:i], []byte(o[r.Intn(len(o)+1):])...)
		}
	}
	return string(b)
}

func randBytes(r *rand.Rand) string {
	n := r.Intn(40)
	b := make([]byte, n)
	for i := range b {
		switch r.Intn(4) {
		case 0:
			b[i] = byte(r.Intn(256))
		case 1:
			const special = " \t\n\r'\"/*-$().,;:\\"
			b[i] = special[r.Intn(len(special))]
		default:
			b[i] = byte(32 + r.Intn(95))
		}
	}
	return string(b)
}

func tokenSoup(r *rand.Rand) string {
	n := r.Intn(25)
	var b strings.Builder
	for i := 0; i < n; i++ {
		b.WriteString(randLexFragment(r, r.Intn(20) == 0))
		if r.Intn(4) != 0 {
			b.WriteString(pick(r, wsPool))
		}
	}
	return b.String()
}

func hostileText(r *rand.Rand) string {
	switch r.Intn(7) {
	case 0:
		return randBytes(r)
	case 1, 2:
		return mutateBytes(r, pick(r, stmtPool))
	case 3:
		return mutateBytes(r, randExprText(r, 0, r.Intn(8)))
	case 4:
		return structuredHostile(r)
	default:
		return tokenSoup(r)
	}
}

func depthProbes(depth int) []string {
	rep := strings.Repeat
	return []string{
		rep("(", depth), rep("(", depth) + "a" + rep(")", depth), rep("-", 1) + rep("(-", depth), rep("- ", depth) + "a",
		rep("f(", depth), rep("f(", depth/2) + "1" + rep(")", depth/2), "a" + rep("+a", depth), "a" + rep(" AND a", depth/2),
		"f(" + rep("a,", depth) + "a)", rep("(a+", depth/2) + "a" + rep(")", depth/2),
		"SELECT * FROM " + rep("(SELECT * FROM ", depth/10) + "m" + rep(")", depth/10),
		"SELECT a FROM m WHERE " + rep("(", depth) + "a" + rep(")", depth),
		rep(";", depth), "SELECT 1 FROM m" + rep(";SELECT 1 FROM m", depth/20),
		"/*" + rep("x", depth), "--" + rep("x", depth), "'" + rep("x", depth), "\"" + rep("\\\"", depth), rep("$", depth), rep("a.", depth),
		"a =~ /" + rep("x", depth), rep("1", depth), rep("1", depth/2) + "s", rep(" ", depth) + "a", "SELECT " + rep("a,", depth) + "a FROM m",
	}
}

func genTotalBytes(r *rand.Rand, n int, emit func(args ...string)) {
	depth := 10000
	if n >= 100000 {
		depth = 100000
	}
	for _, t := range depthProbes(depth) {
		emit(encBytes([]byte(t)), encParams(map[string]interface{}{}))
	}
	for _, t := range stmtPool {
		emit(encBytes([]byte(t)), encParams(randParams(r, []string{"p", "q", "r", "t", "d", "n"})))
	}
	for i := 0; i < n; i++ {
		t := hostileText(r)
		params := map[string]interface{}{}
		if r.Intn(3) != 0 {
			params = randParams(r, []string{"p", "q", "r", "t", "d", "n", "x", "a b", "1", ""})
		}
		emit(encBytes([]byte(t)), encParams(params))
	}
}

type totalOutcome struct {
	kind string // "ok", "err", "panic", "hang"
	msg  string
}

// runTotal runs the parse under recover and a deadline; a result is then printed and walked under
// recover (with a generous separate deadline: String() of a deeply nested tree is quadratic, and
// the property bounds the time of parsing only).
func runTotal(deadline time.Duration, fn func() (interface{}, error)) totalOutcome {
	parsed := make(chan totalOutcome, 1)
	used := make(chan totalOutcome, 1)
	go func() {
		defer func() {
			if p := recover(); p != nil {
				o := totalOutcome{"panic", fmt.Sprint(p)}
				select {
				case parsed <- o:
				default:
				}
				used <- o
			}
		}()
		v, err := fn()
		if err != nil {
			if err.Error() == "" {
				parsed <- totalOutcome{"panic", "error with empty message"}
				return
			}
			parsed <- totalOutcome{"err", err.Error()}
			return
		}
		parsed <- totalOutcome{"ok", ""}
		// a result prints and walks
		switch v := v.(type) {
		case *influxql.Query:
			if v == nil {
				used <- totalOutcome{"panic", "nil query with nil error"}
				return
			}
			_ = v.String()
			influxql.WalkFunc(v, func(influxql.Node) {})
		case influxql.Statement:
			if v == nil {
				used <- totalOutcome{"panic", "nil statement with nil error"}
				return
			}
			_ = v.String()
			influxql.WalkFunc(v, func(influxql.Node) {})
		case influxql.Expr:
			if v == nil {
				used <- totalOutcome{"panic", "nil expression with nil error"}
				return
			}
			_ = v.String()
			influxql.WalkFunc(v, func(influxql.Node) {})
		}
		used <- totalOutcome{"ok", ""}
	}()
	var o totalOutcome
	select {
	case o = <-parsed:
	case <-time.After(deadline):
		return totalOutcome{"hang", "parse"}
	}
	if o.kind != "ok" {
		return o
	}
	select {
	case u := <-used:
		return u
	case <-time.After(10 * time.Minute):
		return totalOutcome{"hang", "print/walk"}
	}
}

// a parse that does not return cannot be stopped: its goroutine keeps a core busy. After a few
// such cases the remaining ones are not run any more (the first ones are the report).
var totalHangCases int

func totalRuns(text string, params map[string]interface{}) (out [3]totalOutcome) {
	if totalHangCases >= 3 {
		return [3]totalOutcome{{"skipped", ""}, {"skipped", ""}, {"skipped", ""}}
	}
	defer func() {
		for _, o := range out {
			if o.kind == "hang" {
				totalHangCases++
				break
			}
		}
	}()
	deadline := 5*time.Second + time.Duration(len(text))*50*time.Microsecond
	mk := func() *influxql.Parser {
		p := influxql.NewParser(strings.NewReader(text))
		applyParams(p, text, params)
		return p
	}
	return [3]totalOutcome{
		runTotal(deadline, func() (interface{}, error) { q, err := mk().ParseQuery(); return q, err }),
		runTotal(deadline, func() (interface{}, error) { s, err := mk().ParseStatement(); return s, err }),
		runTotal(deadline, func() (interface{}, error) { e, err := mk().ParseExpr(); return e, err }),
	}
}

func implTotalBytes(args []string) string {
	b, err := decBytes(args[0])
	if err != nil {
		return "bad-arg"
	}
	params, err := decParams(args[1])
	if err != nil {
		return "bad-arg"
	}
	o := totalRuns(string(b), params)
	return "q:" + o[0].kind + " s:" + o[1].kind + " e:" + o[2].kind
}

func propTotalBytes(args []string) string {
	b, err := decBytes(args[0])
	if err != nil {
		return "skip"
	}
	params, err := decParams(args[1])
	if err != nil {
		return "skip"
	}
	o := totalRuns(string(b), params)
	for i, name := range []string{"ParseQuery", "ParseStatement", "ParseExpr"} {
		switch o[i].kind {
		case "panic":
			return fmt.Sprintf("%s panics on %d bytes %.60q: %s", name, len(b), string(b), o[i].msg)
		case "hang":
			return fmt.Sprintf("%s does not return within the deadline on %d bytes %.60q", name, len(b), string(b))
		}
	}
	return ""
}

func genTotalExpr(r *rand.Rand, n int, emit func(args ...string)) {
	for _, t := range []string{"", "\x00", "a\x00b", "(\x00", "-", "- -", "-(", "+)", "f(", "f(,", "f(a,,b)", "$", "-$", "a.", "a..", "a...", "a.b.c.d.e", "*::", "a::", "DISTINCT", "DISTINCT(", "a =~", "a =~ /", "a =~ $", "1e", "'", "\"", "/*", "--", "\xff", "a \xff b", "(((((((((((((((((((((((((((((((", "-(-(-(-(-(-(-(-(-(-(a", "a+a+a+a+a+a+a+a+a+a+a+a+a+a", "f(f(f(f(f(f(f(f(1))))))))"} {
		emit(exprCase(t, map[string]interface{}{})...)
	}
	for i := 0; i < n; i++ {
		var t string
		switch r.Intn(5) {
		case 0:
			t = randBytes(r)
		case 1:
			t = mutateBytes(r, randExprText(r, 0, r.Intn(8)))
		case 2:
			t = randExprText(r, 0, r.Intn(40))
		default:
			t = tokenSoup(r)
		}
		params := map[string]interface{}{}
		if strings.Contains(t, "$") && r.Intn(4) != 0 {
			params = randParams(r, []string{"p", "q", "r", "x", "a b", "1", "a", "abc", "_x", "select"})
		}
		emit(exprCase(t, params)...)
	}
}

func init() {
	register(&stream{name: "total.bytes", gen: genTotalBytes, impl: implTotalBytes, prop: propTotalBytes, propTimeout: 40 * time.Minute,
		class:      func(args []string, out string) string { return out },
		nontrivial: func(args []string, out string) bool { return len(args[0]) > 10 }})
	register(&stream{name: "total.expr", gen: genTotalExpr, impl: implParseExpr,
		prop: func(args []string) string {
			text, err := decStr(args[0])
			if err != nil {
				return "skip"
			}
			params, err := decParams(args[1])
			if err != nil {
				return "skip"
			}
			o := runTotal(5*time.Second, func() (interface{}, error) { e, err := parseExprWith(text, params); return e, err })
			if o.kind == "panic" || o.kind == "hang" {
				return fmt.Sprintf("ParseExpr %s on %.60q: %s", o.kind, text, o.msg)
			}
			return ""
		},
		class: func(args []string, out string) string {
			switch {
			case strings.HasPrefix(out, "ok"):
				return "ok"
			case strings.HasPrefix(out, "skip"):
				return "skip"
			case strings.HasPrefix(out, "panic"):
				return "panic"
			}
			return "error"
		},
		nontrivial: func(args []string, out string) bool { return strings.Count(args[0], ",") >= 3 }})
}

package main

import (
	"encoding/json"
	"fmt"
	"math"
	"math/rand"
	"regexp"
	"strconv"
	"strings"
	"time"

	"github.com/influxdata/influxql"
)

// Streams for C07: bound parameters.
//
//	bind.value g:<goval with oracle texts>
//	    BindValue on a Go value; output `<token kind>#<hex of Value()>`.
//	    Encoding (hex = code points joined by ','):
//	      f~<hex FormatFloat text>                       float64
//	      i<dec>~<hex FormatFloat(float64(i)) text>      int64
//	      s<hex>                                         string
//	      b0 | b1                                        bool
//	      j<hex text>~<F>~<I>                            json.Number; F = e<hex err>|v<hex float text> (Float64()),
//	                                                     I = e<hex err>|v<dec>:<hex float text> (Int64())
//	      t<hex %T>                                      any other type (nil, int32, ...)
//	      m                                              map with zero or several entries
//	      o<hex key>=<enc>                               map with one entry
//	    The strconv results are shipped because the model does not contain strconv (DESIGN §3).
//
//	bind.expr s:<template> p:<params> l:<lower table> <t|r>
//	    ParseExpr on a template with $placeholders; `t` = template of the fixed family (placeholders
//	    are exactly the texts `$p`, `$q`: the inline-equivalence oracle applies), `r` = random text.

func fmtFloat(f float64) string { return strconv.FormatFloat(f, 'f', -1, 64) }

func encBindVal(v interface{}) string {
	switch v := v.(type) {
	case float64:
		return "f~" + encHex(fmtFloat(v))
	case int64:
		return "i" + strconv.FormatInt(v, 10) + "~" + encHex(fmtFloat(float64(v)))
	case string:
		return "s" + encHex(v)
	case bool:
		if v {
			return "b1"
		}
		return "b0"
	case json.Number:
		var F, I string
		if f, err := v.Float64(); err != nil {
			F = "e" + encHex(err.Error())
		} else {
			F = "v" + encHex(fmtFloat(f))
		}
		if i, err := v.Int64(); err != nil {
			I = "e" + encHex(err.Error())
		} else {
			I = "v" + strconv.FormatInt(i, 10) + ":" + encHex(fmtFloat(float64(i)))
		}
		return "j" + encHex(string(v)) + "~" + F + "~" + I
	case map[string]interface{}:
		if len(v) == 1 {
			for k, x := range v {
				return "o" + encHex(k) + "=" + encBindVal(x)
			}
		}
		return "m"
	default:
		return "t" + encHex(fmt.Sprintf("%T", v))
	}
}

func decBindVal(s string) (interface{}, error) {
	if s == "" {
		return nil, fmt.Errorf("empty value")
	}
	switch s[0] {
	case 'f':
		t, err := decHex(strings.TrimPrefix(s, "f~"))
		if err != nil {
			return nil, err
		}
		return strconv.ParseFloat(t, 64)
	case 'i':
		i := strings.IndexByte(s, '~')
		if i < 0 {
			return nil, fmt.Errorf("bad int")
		}
		return strconv.ParseInt(s[1:i], 10, 64)
	case 's':
		return decHex(s[1:])
	case 'b':
		return s == "b1", nil
	case 'j':
		i := strings.IndexByte(s, '~')
		if i < 0 {
			return nil, fmt.Errorf("bad json number")
		}
		t, err := decHex(s[1:i])
		return json.Number(t), err
	case 't':
		t, err := decHex(s[1:])
		if err != nil {
			return nil, err
		}
		switch t {
		case "<nil>":
			return nil, nil
		case "int32":
			return int32(7), nil
		case "int":
			return int(7), nil
		case "uint64":
			return uint64(7), nil
		case "float32":
			return float32(1.5), nil
		case "[]interface {}":
			return []interface{}{"x"}, nil
		case "[]uint8":
			return []byte("x"), nil
		}
		return nil, fmt.Errorf("unknown type %q", t)
	case 'm':
		return map[string]interface{}{"a": "x", "b": "y"}, nil
	case 'o':
		i := strings.IndexByte(s, '=')
		if i < 0 {
			return nil, fmt.Errorf("bad object")
		}
		k, err := decHex(s[1:i])
		if err != nil {
			return nil, err
		}
		x, err := decBindVal(s[i+1:])
		return map[string]interface{}{k: x}, err
	}
	return nil, fmt.Errorf("bad value %q", s)
}

var hostileStrings = []string{"", "x", "it's", "a;b", "; DROP DATABASE d", "-- c", "/* c */", "*/", "SELECT", "' OR 1=1 --", "a\"b", "a\\b", "a\\", "a\nb", "$q", "$p", "1", ")", "(", ",", "/x/", "a/b", "\x00", "a\rb", "é", "true", "10m", "cpu", "a b", "x.y", "1a", "^cpu$", "a.*", "(a|b)", "[", "\\/"}

func randScalar(r *rand.Rand) interface{} {
	switch r.Intn(12) {
	case 0:
		return float64(r.Intn(2000)-1000) / 8
	case 1:
		return []float64{0, math.Copysign(0, -1), 1e21, 1e-7, 123456789.125, math.MaxFloat64, math.SmallestNonzeroFloat64, math.Inf(1), math.Inf(-1), math.NaN(), 0.1, -2.5}[r.Intn(12)]
	case 2:
		return int64(r.Intn(2000) - 1000)
	case 3:
		return []int64{0, 1, -1, math.MaxInt64, math.MinInt64, 1 << 53, 1<<53 + 1, 90000000000, 3600000000000, 1500000, 7 * 24 * 3600 * 1000000000}[r.Intn(11)]
	case 4, 5:
		return pick(r, hostileStrings)
	case 6:
		return r.Intn(2) == 0
	case 7:
		return json.Number(pick(r, []string{"1", "1.5", "-3", "1e3", "1.5e3", "9223372036854775808", "-9223372036854775809", "abc", "0.1", "", ".", "1.", "0x10", "1_0", " 1", "+1", "1e400", "1.0e400"}))
	case 8:
		return nil
	case 9:
		return []interface{}{int32(7), int(7), uint64(7), float32(1.5), []interface{}{"x"}, []byte("x")}[r.Intn(6)]
	case 10:
		return pick(r, kwPool)
	default:
		return pick(r, []string{"10m", "1h30m", "bogus", "1", "-5m", "1w", "5µ", "9223372036854775807ns", "1000000w"})
	}
}

func randBindValue(r *rand.Rand, depth int) interface{} {
	switch r.Intn(10) {
	case 0, 1, 2, 3:
		return randScalar(r)
	case 4:
		return map[string]interface{}{"a": "x", "b": "y"}
	case 5:
		if r.Intn(3) == 0 {
			return map[string]interface{}{}
		}
		return map[string]interface{}{pick(r, []string{"bogus", "", "STRING", "Ident", "identifier ", "strings"}): randScalar(r)}
	default:
		key := pick(r, []string{"ident", "identifier", "regex", "string", "float", "number", "int", "integer", "duration"})
		var v interface{}
		if depth < 2 && r.Intn(12) == 0 {
			v = randBindValue(r, depth+1)
		} else {
			v = randScalar(r)
		}
		return map[string]interface{}{key: v}
	}
}

func genBindValue(r *rand.Rand, n int, emit func(args ...string)) {
	// every key x every scalar kind first
	scalars := []interface{}{1.5, int64(3), "x", true, json.Number("7"), json.Number("7.5"), json.Number("x"), json.Number("1.x"), nil, int32(7), map[string]interface{}{"a": "b"}, map[string]interface{}{}}
	for _, v := range scalars {
		emit("g:" + encBindVal(v))
	}
	for _, k := range []string{"ident", "identifier", "regex", "string", "float", "number", "int", "integer", "duration", "bogus", ""} {
		for _, v := range scalars {
			emit("g:" + encBindVal(map[string]interface{}{k: v}))
		}
	}
	for i := 0; i < n; i++ {
		emit("g:" + encBindVal(randBindValue(r, 0)))
	}
}

func implBindValue(args []string) string {
	if !strings.HasPrefix(args[0], "g:") {
		return "bad-arg"
	}
	v, err := decBindVal(args[0][2:])
	if err != nil {
		return "bad-arg"
	}
	bv := influxql.BindValue(v)
	return fmt.Sprintf("%d#%s", int(bv.TokenType()), encHex(bv.Value()))
}

// propBindValue: the table of the property, stated independently of the model: each bindable kind
// gives its token kind and carries exactly the value; everything else is an ErrorValue.
func propBindValue(args []string) string {
	v, err := decBindVal(strings.TrimPrefix(args[0], "g:"))
	if err != nil {
		return "skip"
	}
	bv := influxql.BindValue(v)
	want := func(tok influxql.Token, text string) string {
		if bv.TokenType() != tok || bv.Value() != text {
			return fmt.Sprintf("BindValue(%#v) = (%v, %q), expected (%v, %q)", v, bv.TokenType(), bv.Value(), tok, text)
		}
		return ""
	}
	isErr := func() string {
		if bv.TokenType() != influxql.BOUNDPARAM {
			return fmt.Sprintf("BindValue(%#v) = (%v, %q), expected an error value", v, bv.TokenType(), bv.Value())
		}
		if _, ok := bv.(influxql.ErrorValue); !ok {
			return fmt.Sprintf("BindValue(%#v) has token BOUNDPARAM but is %T", v, bv)
		}
		return ""
	}
	// json.Number is converted first, at the top level and inside an object
	conv := func(x interface{}) (interface{}, bool) {
		if jn, ok := x.(json.Number); ok {
			if strings.Contains(string(jn), ".") {
				f, err := jn.Float64()
				return f, err == nil
			}
			i, err := jn.Int64()
			return i, err == nil
		}
		return x, true
	}
	x, ok := conv(v)
	if !ok {
		return isErr()
	}
	switch x := x.(type) {
	case float64:
		return want(influxql.NUMBER, fmtFloat(x))
	case int64:
		return want(influxql.INTEGER, strconv.FormatInt(x, 10))
	case string:
		return want(influxql.STRING, x)
	case bool:
		if x {
			return want(influxql.TRUE, "")
		}
		return want(influxql.FALSE, "")
	case map[string]interface{}:
		if len(x) != 1 {
			return isErr()
		}
		for k, y := range x {
			y, ok := conv(y)
			if !ok {
				return isErr()
			}
			s, isStr := y.(string)
			switch k {
			case "ident", "identifier":
				if isStr {
					return want(influxql.IDENT, s)
				}
			case "regex":
				if isStr {
					return want(influxql.REGEX, s)
				}
			case "string":
				if isStr {
					return want(influxql.STRING, s)
				}
			case "float", "number":
				switch f := y.(type) {
				case float64:
					return want(influxql.NUMBER, fmtFloat(f))
				case int64:
					return want(influxql.NUMBER, fmtFloat(float64(f)))
				}
			case "int", "integer":
				if i, ok := y.(int64); ok {
					return want(influxql.INTEGER, strconv.FormatInt(i, 10))
				}
			case "duration":
				if isStr {
					return want(influxql.DURATIONVAL, s)
				}
				if i, ok := y.(int64); ok {
					return want(influxql.DURATIONVAL, influxql.FormatDuration(time.Duration(i)))
				}
			}
			return isErr()
		}
	}
	return isErr()
}

// ---- bind.expr ----

var bindTemplates = []string{"a = $p", "$p = 1", "f($p)", "f(a, $p)", "f( $p )", "a =~ $p", "a !~ $p", "a =~  $p", "$p", "-$p", "- $p", "+$p", "($p)", "$p + $q", "$p.$q", "a.$p", "$p::float", "$p::tag", "f($p, $q)", "DISTINCT $p", "$p(x)", "$p (x)", "a = $p AND b = $q", "time > now() - $p", "$p$q", "$p $q", "a = $p -- c", "a = $p /* c */ AND b = $q", "a + $p * $q", "f($p) + g($q)", "a = '$p'", "\"$p\" = $p", "$p =~ /x/", "$p = $p", "mean($p) > $q", "a IN ($p)", "$p OR $q", "NOT $p"}

// sanitizeForParams maps Go types the `p:` encoding cannot carry to the one it can (int32).
func sanitizeForParams(v interface{}) interface{} {
	switch v := v.(type) {
	case nil, float64, int64, string, bool, json.Number:
		return v
	case map[string]interface{}:
		if len(v) == 0 {
			return map[string]interface{}{"a": "x", "b": "y"}
		}
		out := map[string]interface{}{}
		for k, x := range v {
			out[k] = sanitizeForParams(x)
		}
		return out
	}
	return int32(7)
}

func randBindParams(r *rand.Rand) map[string]interface{} {
	out := map[string]interface{}{}
	for _, n := range []string{"p", "q"} {
		if r.Intn(12) != 0 {
			out[n] = sanitizeForParams(randBindValue(r, 0))
		}
	}
	return out
}

// texts whose first operand reached by the parser is a placeholder without a name
var emptyPlaceholderTexts = []string{"$", "$\"\"", "$ + 1", "a = $", "a = $\"\"", "f($)", "f(1, $\"\")", "-$", "($)", "a =~ $", "a + $ + $p", "$$", "$ $p", "a AND $ = 1"}

func genBindExpr(r *rand.Rand, n int, emit func(args ...string)) {
	// every template x every kind once
	kinds := []interface{}{"x", "' OR 1=1 --", 1.5, int64(3), true, map[string]interface{}{"ident": "a b"}, map[string]interface{}{"regex": "a/b"}, map[string]interface{}{"duration": "10m"}, map[string]interface{}{"duration": int64(90000000000)}, map[string]interface{}{"float": int64(2)}, int32(7), nil}
	for _, t := range bindTemplates {
		for _, k := range kinds {
			params := map[string]interface{}{"p": k, "q": k}
			emit(encStr(t), encParams(params), encLower(t), "t")
		}
		emit(encStr(t), encParams(map[string]interface{}{}), encLower(t), "t")
	}
	for _, t := range []string{"$", "$ p", "$\"a b\"", "$1", "$\"p\"", "$p$", "$$p", "a = $P", "$select", "$\"un", "$'p'"} {
		emit(encStr(t), encParams(map[string]interface{}{"p": "v", "a b": int64(1), "1": true, "select": 2.5, "P": "upper"}), encLower(t), "r")
	}
	// a quoted placeholder name may itself begin with `$`: exactly one `$` is the marker
	for _, t := range []string{"$\"$p\"", "a = $\"$p\"", "$\"$$p\" + 1", "f($\"$p\", $p)", "$\"$\"", "a = $\"$\" + $p"} {
		for _, k := range kinds {
			emit(encStr(t), encParams(map[string]interface{}{"p": k}), encLower(t), "r")
			emit(encStr(t), encParams(map[string]interface{}{"p": k, "$p": "right", "$$p": int64(7), "$": true}), encLower(t), "r")
		}
	}
	// an empty placeholder never binds, whatever is stored under the empty name
	for _, t := range emptyPlaceholderTexts {
		for _, k := range kinds {
			emit(encStr(t), encParams(map[string]interface{}{"": k, "p": k}), encLower(t), "r")
		}
	}
	for i := 0; i < n; i++ {
		if i%3 == 0 {
			text := randExprText(r, 0, r.Intn(6))
			if r.Intn(5) == 0 {
				text += pick(r, []string{" + $", " = $\"\"", " AND $ = 1", " =~ $", " + f($)", " + $ + $p", " * $\"\" "})
			}
			if r.Intn(8) == 0 {
				text += pick(r, []string{" + $\"$p\"", " = $\"$q\"", " AND $\"$$p\" = 1"})
			}
			emit(encStr(text), encParams(randParams(r, []string{"p", "q", "r", "a b", "1", "", "$p", "$q"})), encLower(text), "r")
			continue
		}
		t := pick(r, bindTemplates)
		emit(encStr(t), encParams(randBindParams(r)), encLower(t), "t")
	}
}

func hasSpecialFloat(params map[string]interface{}) bool {
	var rec func(v interface{}) bool
	rec = func(v interface{}) bool {
		switch v := v.(type) {
		case float64:
			return math.IsNaN(v) || math.IsInf(v, 0)
		case map[string]interface{}:
			for _, x := range v {
				if rec(x) {
					return true
				}
			}
		}
		return false
	}
	for _, v := range params {
		if rec(v) {
			return true
		}
	}
	return false
}

func implBindExpr(args []string) string {
	params, err := decParams(args[1])
	if err != nil {
		return "bad-arg"
	}
	if hasSpecialFloat(params) {
		// NumberValue(NaN/±Inf) delivers the token texts "NaN"/"+Inf"/"-Inf", which ParseFloat accepts;
		// the model's exact-decimal number literals have no such values.
		return "skip-float-special"
	}
	for _, v := range params {
		if bv := influxql.BindValue(v); bv.TokenType() == influxql.NUMBER {
			d := strings.TrimLeft(strings.Replace(strings.TrimPrefix(bv.Value(), "-"), ".", "", 1), "0")
			if len(d) > 15 {
				return "skip-float-precision"
			}
		}
	}
	return implParseExpr(args[:3])
}

var strLeaf = regexp.MustCompile(`\(str s:[0-9a-f,]*\)`)

func blankStrings(sexp string) string { return strLeaf.ReplaceAllString(sexp, "(str _)") }

// literalFor renders a bound value as InfluxQL literal text; ok=false if it cannot be written.
func literalFor(bv influxql.Value) (string, bool) {
	clean := func(s string) bool { return !strings.ContainsAny(s, "\x00\r") }
	switch v := bv.(type) {
	case influxql.StringValue:
		return influxql.QuoteString(string(v)), clean(string(v))
	case influxql.Identifier:
		return `"` + strings.NewReplacer("\n", `\n`, `\`, `\\`, `"`, `\"`).Replace(string(v)) + `"`, clean(string(v))
	case influxql.RegexValue:
		s := string(v)
		if strings.ContainsAny(s, "\x00\r\n\\") {
			return "", false
		}
		return "/" + strings.Replace(s, "/", `\/`, -1) + "/", true
	case influxql.NumberValue:
		t := v.Value()
		if ok, _ := regexp.MatchString(`^[0-9]+(\.[0-9]+)?$`, t); !ok {
			return "", false
		}
		// an integer-valued float prints without a fraction and would lex as INTEGER: not writable
		return t, strings.Contains(t, ".")
	case influxql.IntegerValue:
		if v < 0 {
			return "", false
		}
		return v.Value(), true
	case influxql.BooleanValue:
		if v {
			return "true", true
		}
		return "false", true
	case influxql.DurationValue:
		s := string(v)
		sc := influxql.NewScanner(strings.NewReader(s))
		tok, _, lit := sc.Scan()
		tok2, _, _ := sc.Scan()
		return s, tok == influxql.DURATIONVAL && lit == s && tok2 == influxql.EOF
	}
	return "", false
}

func propBindExpr(args []string) string {
	text, err := decStr(args[0])
	if err != nil {
		return "skip"
	}
	params, err := decParams(args[1])
	if err != nil {
		return "skip"
	}
	e, perr := parseExprWith(text, params)
	if perr != nil && isOracleError(perr) {
		return "skip"
	}
	// P1: string values cannot change the structure
	alt := map[string]interface{}{}
	changed := false
	for k, v := range params {
		if bv, ok := influxql.BindValue(v).(influxql.StringValue); ok && string(bv) != "v" {
			alt[k] = "v"
			changed = true
		} else {
			alt[k] = v
		}
	}
	if changed {
		e2, perr2 := parseExprWith(text, alt)
		switch {
		case (perr == nil) != (perr2 == nil):
			return fmt.Sprintf("%q with %v: %v, but with every string value replaced by \"v\": %v", text, params, errOrOK(perr), errOrOK(perr2))
		case perr == nil && blankStrings(sexpExpr(e)) != blankStrings(sexpExpr(e2)):
			return fmt.Sprintf("%q: the tree depends on the string value: %s vs %s", text, sexpExpr(e), sexpExpr(e2))
		}
	}
	// P4: only the bindings of the last SetParams call count. parseExprWith gives every second text a parser
	// that was bound to marker values before (applyParams); none of them may show up in the tree.
	if perr == nil && e != nil && strings.Contains(e.String(), "stale-decoy") && !strings.Contains(text, "stale-decoy") && !strings.Contains(fmt.Sprint(params), "stale-decoy") {
		return fmt.Sprintf("%q with %v parses to %s: a value bound by an earlier SetParams call was substituted", text, params, e.String())
	}
	// P5: bindings that were already *used* are gone too once SetParams replaces them. One parser reads
	// `SELECT $a, $b FROM zz_prefix; <text>`: the first statement is parsed under marker bindings for every
	// placeholder of the text, the `;` is consumed, SetParams installs the real map, and the rest is parsed as
	// the expression. Same outcome as parsing the text on its own (round-4 seeded change C07-1 cached the
	// token a placeholder resolved to and dropped the entry only when the name was bound again).
	if names := placeholderNameRe.FindAllStringSubmatch(text, -1); len(names) > 0 {
		decoy := map[string]interface{}{}
		var refs []string
		seen := map[string]bool{}
		for _, m := range names {
			if !seen[m[1]] {
				seen[m[1]] = true
				decoy[m[1]] = int64(424242)
				refs = append(refs, "$"+m[1])
			}
		}
		p5 := influxql.NewParser(strings.NewReader("SELECT " + strings.Join(refs, ", ") + " FROM zz_prefix; " + text))
		p5.SetParams(decoy)
		if _, err5 := p5.ParseStatement(); err5 == nil {
			if tok, _, _ := p5.ScanIgnoreWhitespace(); tok == influxql.SEMICOLON {
				p5.SetParams(params)
				e5, perr5 := p5.ParseExpr()
				switch {
				case perr5 != nil && isOracleError(perr5):
				case (perr == nil) != (perr5 == nil):
					return fmt.Sprintf("%q with %v: alone %v; after a statement that used other bindings of the same names on the same parser: %v", text, params, errOrOK(perr), errOrOK(perr5))
				case perr == nil && sexpExpr(e) != sexpExpr(e5):
					return fmt.Sprintf("%q with %v parses to %s alone and to %s after a statement that used other bindings of the same names on the same parser", text, params, sexpExpr(e), sexpExpr(e5))
				}
			}
		}
	}
	// P3: an empty placeholder is an error under every parameter map
	for _, t := range emptyPlaceholderTexts {
		if text == t && perr == nil {
			return fmt.Sprintf("%q with %v parses (%s) although its placeholder has no name", text, params, sexpExpr(e))
		}
	}
	// P2: placeholder = written literal (fixed template family)
	if len(args) > 3 && args[3] == "t" {
		inl, ok := inlineTemplate(text, params)
		if !ok {
			return ""
		}
		e3, perr3 := parseExprWith(inl, nil)
		if perr3 != nil && isOracleError(perr3) {
			return ""
		}
		switch {
		case perr3 != nil && perr != nil:
			return ""
		case perr3 != nil:
			return fmt.Sprintf("%q with %v parses although the inlined text %q is rejected: %v", text, params, inl, perr3)
		case perr != nil:
			return fmt.Sprintf("%q with %v is rejected (%v) although the inlined text %q parses", text, params, perr, inl)
		}
		if sexpExpr(e) != sexpExpr(e3) {
			return fmt.Sprintf("%q with %v parses to %s, the inlined text %q to %s", text, params, sexpExpr(e), inl, sexpExpr(e3))
		}
	}
	return ""
}

type bindTok struct {
	tok influxql.Token
	lit string
}

func scanAllToks(t string) []bindTok {
	sc := influxql.NewScanner(strings.NewReader(t))
	var out []bindTok
	for i := 0; i < len(t)+4; i++ {
		tok, _, lit := sc.Scan()
		if tok == influxql.EOF {
			break
		}
		if tok == influxql.WS {
			lit = " "
		}
		out = append(out, bindTok{tok, lit})
	}
	return out
}

// inlineTemplate writes every placeholder's value out as a literal. ok = the claim of the property
// applies: every placeholder is bound to a writable value and the literal really is one token at
// the placeholder's position, i.e. the token sequence of the inlined text equals that of the
// template with each `$name` token replaced by (kind, text) of its value. A regex value is
// writable only at a regex look-ahead position (after the `(` of a call, `,`, `=~`, `!~`), where
// the parser calls ScanRegex.
func inlineTemplate(text string, params map[string]interface{}) (string, bool) {
	if !strings.Contains(text, "$") {
		return "", false
	}
	var inl strings.Builder
	hasRegex := false
	rest := text
	for len(rest) > 0 {
		k := strings.IndexByte(rest, '$')
		if k < 0 {
			inl.WriteString(rest)
			break
		}
		inl.WriteString(rest[:k])
		name := ""
		if strings.HasPrefix(rest[k:], "$p") {
			name = "p"
		} else if strings.HasPrefix(rest[k:], "$q") {
			name = "q"
		} else {
			return "", false
		}
		v, ok := params[name]
		if !ok {
			return "", false
		}
		bv := influxql.BindValue(v)
		lit, ok := literalFor(bv)
		if !ok {
			return "", false
		}
		if _, isRe := bv.(influxql.RegexValue); isRe {
			before := strings.TrimRight(text[:len(text)-len(rest)+k], " ")
			callParen := false
			if n := len(before); n >= 2 && before[n-1] == '(' {
				c := before[n-2]
				callParen = c == '_' || c == '"' || (c >= 'a' && c <= 'z') || (c >= 'A' && c <= 'Z') || (c >= '0' && c <= '9')
			}
			if !(callParen || strings.HasSuffix(before, ",") || strings.HasSuffix(before, "=~") || strings.HasSuffix(before, "!~")) {
				return "", false
			}
			hasRegex = true
		}
		inl.WriteString(lit)
		rest = rest[k+2:]
	}
	if !hasRegex {
		var want []bindTok
		for _, t := range scanAllToks(text) {
			if t.tok == influxql.BOUNDPARAM && (t.lit == "$p" || t.lit == "$q") {
				bv := influxql.BindValue(params[t.lit[1:]])
				want = append(want, bindTok{bv.TokenType(), bv.Value()})
			} else {
				want = append(want, t)
			}
		}
		got := scanAllToks(inl.String())
		if len(got) != len(want) {
			return "", false
		}
		for i := range got {
			if got[i] != want[i] {
				return "", false
			}
		}
	}
	return inl.String(), true
}

func errOrOK(err error) string {
	if err == nil {
		return "parses"
	}
	return "error " + strconv.Quote(err.Error())
}

func init() {
	register(&stream{name: "bind.value", gen: genBindValue, impl: implBindValue, prop: propBindValue,
		class: func(args []string, out string) string {
			i := strings.IndexByte(out, '#')
			if i < 0 {
				return "bad"
			}
			return "tok-" + out[:i]
		}})
	register(&stream{name: "bind.expr", gen: genBindExpr, impl: implBindExpr, prop: propBindExpr,
		class: func(args []string, out string) string {
			kind := "random"
			if len(args) > 3 && args[3] == "t" {
				kind = "template"
				text, _ := decStr(args[0])
				if params, err := decParams(args[1]); err == nil {
					if _, ok := inlineTemplate(text, params); ok {
						kind = "template-inlinable"
					}
				}
			}
			switch {
			case strings.HasPrefix(out, "ok"):
				return kind + "/ok"
			case strings.HasPrefix(out, "skip"):
				return kind + "/skip"
			}
			return kind + "/error"
		},
		nontrivial: func(args []string, out string) bool { return args[1] != "p:" }})
}

// ---------------------------------------------------------------- bind.stmt: placeholders in statement slots

// bindStmtTemplates: statement slots that take one token: counts, durations, names, strings.
var bindStmtTemplates = []string{
	"SELECT value FROM cpu LIMIT $p", "SELECT value FROM cpu OFFSET $p", "SELECT value FROM cpu GROUP BY host SLIMIT $p", "SELECT value FROM cpu GROUP BY host SOFFSET $p",
	"SELECT value FROM cpu LIMIT $p OFFSET $q", "SHOW MEASUREMENTS LIMIT $p OFFSET $q", "SHOW TAG KEYS FROM cpu LIMIT $p", "SHOW SERIES LIMIT $p",
	"SELECT mean(value) FROM cpu WHERE time > now() - $p GROUP BY time($q)", "SELECT mean(value) FROM cpu GROUP BY time($p, $q)", "SELECT value FROM cpu WHERE host = $p AND value > $q",
	"CREATE RETENTION POLICY rp ON db DURATION $p REPLICATION $q", "ALTER RETENTION POLICY rp ON db SHARD DURATION $p", "CREATE DATABASE db WITH DURATION $p REPLICATION $q",
	"KILL QUERY $p", "DROP SHARD $p", "SELECT value FROM $p", "SELECT $p FROM cpu", "DROP MEASUREMENT $p", "SHOW TAG VALUES WITH KEY = $p", "SELECT value FROM cpu fill($p)", "SELECT value FROM cpu TZ($p)",
}

func genBindStmt(r *rand.Rand, n int, emit func(args ...string)) {
	vals := []interface{}{int64(0), int64(1), int64(5), int64(-1), int64(-5), int64(math.MinInt64), int64(math.MaxInt64), int64(2147483647), int64(2147483648),
		1.5, -2.5, true, "cpu", "a b", "it's", "UTC", "10s", "", map[string]interface{}{"duration": "10s"}, map[string]interface{}{"duration": "-1h"}, map[string]interface{}{"duration": "1h30m"},
		map[string]interface{}{"identifier": "host"}, map[string]interface{}{"identifier": "a b"}, map[string]interface{}{"integer": int64(-3)}, map[string]interface{}{"integer": int64(3)},
		map[string]interface{}{"string": "x"}, map[string]interface{}{"float": 2.0}, map[string]interface{}{"regex": "^a"}, map[string]interface{}{"boolean": true}}
	for _, t := range bindStmtTemplates {
		for _, v := range vals {
			emit(stmtCase(t, map[string]interface{}{"p": v, "q": int64(2)}, false)...)
		}
		emit(stmtCase(t, map[string]interface{}{"p": int64(3)}, false)...)
		emit(stmtCase(t, map[string]interface{}{}, false)...)
	}
	for i := 0; i < n; i++ {
		t := bindStmtTemplates[r.Intn(len(bindStmtTemplates))]
		emit(stmtCase(t, map[string]interface{}{"p": vals[r.Intn(len(vals))], "q": vals[r.Intn(len(vals))]}, false)...)
	}
}

// propBindStmt: the statement with a placeholder means what the statement with the value written out means:
// whenever the value is writable as one token at that place (inlineTemplate), both parse to the same tree or
// both are rejected (round-6 seeded change C07-2: a negative bound count was silently read as no LIMIT).
func propBindStmt(args []string) string {
	text, params, ok := decStmtArgs(args)
	if !ok {
		return "skip"
	}
	st, perr := newStmtParser(text, params).ParseStatement()
	if perr != nil && isOracleError(perr) {
		return "skip"
	}
	if perr == nil && st == nil {
		return fmt.Sprintf("%q with %v: nil statement and nil error", text, params)
	}
	// a count never comes out negative or different from a bound integer
	if sel, ok := st.(*influxql.SelectStatement); ok && perr == nil {
		for _, c := range []struct {
			kw  string
			got int
		}{{" LIMIT $p", sel.Limit}, {" OFFSET $p", sel.Offset}, {" SLIMIT $p", sel.SLimit}, {" SOFFSET $p", sel.SOffset}} {
			if !strings.Contains(text, c.kw) {
				continue
			}
			if iv, isInt := influxql.BindValue(params["p"]).(influxql.IntegerValue); isInt && int64(c.got) != int64(iv) {
				return fmt.Sprintf("%q with p = %d is accepted with %s = %d", text, int64(iv), strings.Fields(c.kw)[0], c.got)
			}
		}
	}
	inl, ok := inlineTemplate(text, params)
	if !ok {
		return ""
	}
	st2, perr2 := newStmtParser(inl, nil).ParseStatement()
	if perr2 != nil && isOracleError(perr2) {
		return ""
	}
	switch {
	case perr != nil && perr2 != nil:
		return ""
	case perr2 != nil:
		return fmt.Sprintf("%q with %v parses although the inlined text %q is rejected: %v", text, params, inl, perr2)
	case perr != nil:
		return fmt.Sprintf("%q with %v is rejected (%v) although the inlined text %q parses", text, params, perr, inl)
	}
	if a, b := sexpStatement(st), sexpStatement(st2); a != b {
		return fmt.Sprintf("%q with %v parses to %s, the inlined text %q to %s", text, params, a, inl, b)
	}
	return ""
}

func init() {
	register(&stream{name: "bind.stmt", gen: genBindStmt, impl: implParseStmt, prop: propBindStmt,
		class:      func(args []string, out string) string { return out[:2] },
		nontrivial: func(args []string, out string) bool { return strings.HasPrefix(out, "ok") }})
}

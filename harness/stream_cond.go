package main

import (
	"fmt"
	"math"
	"math/big"
	"math/rand"
	"sort"
	"strings"
	"time"

	"github.com/influxdata/influxql"
)

// Stream for C10: ConditionExpr.
//
//	cond.split s:<condition text> <now> <valuer> l:<lower table>
//	  now:    i:<unix nanoseconds> | zero            (NowValuer.Now; zero = time.Time{})
//	  valuer: novaluer | noloc | off:<seconds>       (nil valuer | Location nil | time.FixedZone)
//
// Output: "ok <residual sexp> <residual printed> min=<ns|zero> max=<ns|zero> nano=<MinTimeNano>,<MaxTimeNano>"
// or "err <message>" (the two range errors carry the Unix second of the instant instead of its
// rendering in the literal's zone) or "parse-error".

var condZero = "zero"

func condValuer(nowArg, valArg string) (influxql.Valuer, time.Time, *time.Location, error) {
	var now time.Time
	if nowArg != condZero {
		ns, err := decInt(nowArg)
		if err != nil {
			return nil, now, nil, err
		}
		now = time.Unix(0, ns).UTC()
	}
	switch {
	case valArg == "novaluer":
		return nil, now, nil, nil
	case valArg == "noloc":
		return &influxql.NowValuer{Now: now}, now, nil, nil
	case strings.HasPrefix(valArg, "off:"):
		var secs int
		if _, err := fmt.Sscanf(valArg[4:], "%d", &secs); err != nil {
			return nil, now, nil, err
		}
		loc := time.FixedZone("", secs)
		// the clock reaches ConditionExpr in the compositions callers build: bare, behind a variable map,
		// nested, and behind another zone-aware valuer that knows no zone. The zone of the query is the first one
		// that is actually known (round-5 seeded change C10-1: MultiValuer.Zone answered with the first zone-aware
		// member, known zone or not). The composition is chosen by the offset, so a case is reproducible.
		nv := &influxql.NowValuer{Now: now, Location: loc}
		switch ((secs/1800)%4 + 4) % 4 {
		case 1:
			return influxql.MultiValuer(influxql.MapValuer(map[string]interface{}{}), nv), now, loc, nil
		case 2:
			return influxql.MultiValuer(influxql.MultiValuer(influxql.MapValuer(map[string]interface{}{})), nv), now, loc, nil
		case 3:
			return influxql.MultiValuer(influxql.MultiValuer(influxql.MapValuer(map[string]interface{}{}), &influxql.NowValuer{Now: now}), nv), now, loc, nil
		}
		return nv, now, loc, nil
	}
	return nil, now, nil, fmt.Errorf("bad valuer arg %q", valArg)
}

var condBigE9 = big.NewInt(1000000000)

// exactNanos is the instant in nanoseconds since the epoch, without the int64 wrap of UnixNano.
func exactNanos(t time.Time) *big.Int {
	v := new(big.Int).Mul(big.NewInt(t.Unix()), condBigE9)
	return v.Add(v, big.NewInt(int64(t.Nanosecond())))
}

func boundText(t time.Time) string {
	if t.IsZero() {
		return "zero"
	}
	return exactNanos(t).String()
}

// foldsFloat reports whether reducing the expression performs float64 arithmetic (whose result
// the model does not compute) or compares a float with an integer beyond 2^53 (where exact
// decimal comparison and float64 comparison may differ).
func foldsFloat(e influxql.Expr, valuer influxql.Valuer) (found bool) {
	isNum := func(x influxql.Expr) (isFloat bool, big bool, ok bool) {
		switch v := x.(type) {
		case *influxql.NumberLiteral:
			return true, false, true
		case *influxql.IntegerLiteral:
			return false, v.Val > 1<<53 || v.Val < -(1<<53), true
		case *influxql.UnsignedLiteral:
			return false, v.Val > 1<<53, true
		}
		return false, false, false
	}
	influxql.WalkFunc(e, func(n influxql.Node) {
		be, ok := n.(*influxql.BinaryExpr)
		if !ok || found {
			return
		}
		l := influxql.Reduce(influxql.CloneExpr(be.LHS), valuer)
		r := influxql.Reduce(influxql.CloneExpr(be.RHS), valuer)
		lf, lb, lok := isNum(l)
		rf, rb, rok := isNum(r)
		arith := be.Op == influxql.ADD || be.Op == influxql.SUB || be.Op == influxql.MUL || be.Op == influxql.DIV || be.Op == influxql.MOD
		if lok && rok {
			if arith && (lf || rf) {
				found = true
			}
			if be.Op == influxql.DIV && !lf && !rf {
				found = true
			}
			if (lf || rf) && (lb || rb) {
				found = true
			}
		}
	})
	return found
}

func condParse(args []string) (text string, cond influxql.Expr, perr error, valuer influxql.Valuer, now time.Time, loc *time.Location, bad bool) {
	if len(args) < 4 {
		return "", nil, nil, nil, now, nil, true
	}
	text, err := decStr(args[0])
	if err != nil {
		return "", nil, nil, nil, now, nil, true
	}
	valuer, now, loc, err = condValuer(args[1], args[2])
	if err != nil {
		return "", nil, nil, nil, now, nil, true
	}
	cond, perr = parseExprWith(text, nil)
	return text, cond, perr, valuer, now, loc, false
}

func condErrText(err error, valArg string) string {
	m := err.Error()
	if strings.HasPrefix(valArg, "off:") {
		var secs int
		fmt.Sscanf(valArg[4:], "%d", &secs)
		if secs%60 != 0 && (strings.Contains(m, "overflows time literal") || strings.Contains(m, "underflows time literal")) {
			// RFC3339 prints zone offsets to the minute: the instant cannot be read back
			return "skip-error-time-in-zone-with-seconds " + encStr(m)
		}
	}
	for _, kind := range []string{"overflows", "underflows"} {
		suffix := " " + kind + " time literal"
		if strings.HasPrefix(m, "time ") && strings.HasSuffix(m, suffix) {
			ts := m[len("time ") : len(m)-len(suffix)]
			t, perr := time.Parse(time.RFC3339, ts)
			if perr != nil {
				return "skip-unparseable-error-time " + encStr(m)
			}
			return fmt.Sprintf("err %s sec=%d", encStr("time "+kind+" time literal"), t.Unix())
		}
	}
	return "err " + encStr(m)
}

func timeYearsPrintable(e influxql.Expr) bool {
	ok := true
	influxql.WalkFunc(e, func(n influxql.Node) {
		if t, is := n.(*influxql.TimeLiteral); is {
			if y := t.Val.UTC().Year(); y < 0 || y > 9999 {
				ok = false
			}
		}
	})
	return ok
}

func implCondSplit(args []string) string {
	text, cond, perr, valuer, _, _, bad := condParse(args)
	if bad {
		return "bad-arg"
	}
	if longNumberLiteral(text) {
		return "skip-float-precision"
	}
	if perr != nil {
		if isOracleError(perr) {
			return "skip-oracle-call " + encStr(perr.Error())
		}
		return "parse-error"
	}
	if foldsFloat(cond, valuer) {
		return "skip-float-arith"
	}
	res, tr, err := influxql.ConditionExpr(influxql.CloneExpr(cond), valuer)
	if err != nil {
		return condErrText(err, args[2])
	}
	printed := "-"
	if res != nil {
		if !timeYearsPrintable(res) {
			return "skip-time-literal-year-out-of-print-range"
		}
		printed = encStr(res.String())
	}
	return fmt.Sprintf("ok %s %s min=%s max=%s nano=%d,%d", sexpExpr(res), printed, boundText(tr.Min), boundText(tr.Max), tr.MinTimeNano(), tr.MaxTimeNano())
}

// ---------------------------------------------------------------------------------------------
// Property oracle on the implementation (independent of the model): evaluate the original
// condition and the split at every bound, one nanosecond either side, and a few fixed instants,
// for every assignment of a small value domain to the referenced variables.

func isTimeVarRef(e influxql.Expr) bool {
	v, ok := e.(*influxql.VarRef)
	return ok && strings.ToLower(v.Val) == "time"
}

func isCmpOp(op influxql.Token) bool {
	switch op {
	case influxql.EQ, influxql.LT, influxql.LTE, influxql.GT, influxql.GTE:
		return true
	}
	return false
}

func isNowCall(e influxql.Expr) bool {
	c, ok := e.(*influxql.Call)
	return ok && c.Name == "now" && len(c.Args) == 0
}

// condInstant is the instant a time operand of one of the property's literal forms denotes:
// integer nanoseconds, a number (truncated), a duration since the epoch, a date / date-time /
// RFC3339 string, now(), now() ± duration. Computed with the time package only.
func condInstant(e influxql.Expr, now time.Time, hasValuer bool, loc *time.Location) (time.Time, bool) {
	switch v := e.(type) {
	case *influxql.IntegerLiteral:
		return time.Unix(0, v.Val), true
	case *influxql.NumberLiteral:
		if v.Val >= 9.2e18 || v.Val <= -9.2e18 || v.Val != v.Val {
			return time.Time{}, false
		}
		return time.Unix(0, int64(v.Val)), true
	case *influxql.DurationLiteral:
		return time.Unix(0, int64(v.Val)), true
	case *influxql.StringLiteral:
		if loc == nil {
			loc = time.UTC
		}
		s := v.Val
		if len(s) < 10 {
			return time.Time{}, false
		}
		for i := 0; i < 10; i++ {
			c := s[i]
			if i == 4 || i == 7 {
				if c != '-' {
					return time.Time{}, false
				}
			} else if c < '0' || c > '9' {
				return time.Time{}, false
			}
		}
		layouts := []string{"2006-01-02 15:04:05.999999", time.RFC3339Nano}
		if len(s) == 10 {
			layouts = []string{"2006-01-02"}
		} else if s[10] == '\n' {
			return time.Time{}, false
		}
		for _, l := range layouts {
			if t, err := time.ParseInLocation(l, s, loc); err == nil {
				return t, true
			}
		}
		return time.Time{}, false
	case *influxql.Call:
		if isNowCall(v) && hasValuer {
			return now, true
		}
	case *influxql.BinaryExpr:
		d, ok := v.RHS.(*influxql.DurationLiteral)
		if !ok || !isNowCall(v.LHS) || !hasValuer || d.Val == math.MinInt64 {
			return time.Time{}, false
		}
		if v.Op == influxql.ADD {
			return now.Add(d.Val), true
		} else if v.Op == influxql.SUB {
			return now.Add(-d.Val), true
		}
	}
	return time.Time{}, false
}

type condLeaf struct {
	op      influxql.Token // as written
	timeLHS bool
	other   influxql.Expr
	instant time.Time
}

// condClass walks the AND/OR/paren skeleton. inClass: OR only over time-free operands, every time
// leaf one of the five comparisons against a listed literal form. hasTime: some time leaf below.
func condClass(e influxql.Expr, now time.Time, hasValuer bool, loc *time.Location, leaves map[influxql.Expr]*condLeaf) (inClass, hasTime bool) {
	return condClassC(e, now, hasValuer, loc, leaves, false)
}

// condClassC: allowCalls admits function calls inside predicates on tags and fields (C18 evaluates
// them with a CallValuer).
func condClassC(e influxql.Expr, now time.Time, hasValuer bool, loc *time.Location, leaves map[influxql.Expr]*condLeaf, allowCalls bool) (inClass, hasTime bool) {
	switch v := e.(type) {
	case *influxql.ParenExpr:
		return condClassC(v.Expr, now, hasValuer, loc, leaves, allowCalls)
	case *influxql.BooleanLiteral:
		return true, false
	case *influxql.BinaryExpr:
		if v.Op == influxql.AND || v.Op == influxql.OR {
			lc, lt := condClassC(v.LHS, now, hasValuer, loc, leaves, allowCalls)
			rc, rt := condClassC(v.RHS, now, hasValuer, loc, leaves, allowCalls)
			if v.Op == influxql.OR && (lt || rt) {
				return false, true
			}
			return lc && rc, lt || rt
		}
		var lf *condLeaf
		if isTimeVarRef(v.LHS) {
			lf = &condLeaf{op: v.Op, timeLHS: true, other: v.RHS}
		} else if isTimeVarRef(v.RHS) {
			lf = &condLeaf{op: v.Op, timeLHS: false, other: v.LHS}
		} else {
			// a predicate on tags and fields: a comparison or regex match (always boolean) or a
			// constant that Reduce folds to a boolean; now() inside it has no meaning for EvalBool
			ok := false
			switch v.Op {
			case influxql.EQ, influxql.NEQ, influxql.LT, influxql.LTE, influxql.GT, influxql.GTE, influxql.EQREGEX, influxql.NEQREGEX:
				ok = true
			default:
				var nv influxql.Valuer
				if hasValuer {
					nv = &influxql.NowValuer{Now: now, Location: loc}
				}
				_, ok = influxql.Reduce(influxql.CloneExpr(v), nv).(*influxql.BooleanLiteral)
			}
			influxql.WalkFunc(v, func(n influxql.Node) {
				switch n.(type) {
				case *influxql.Call:
					if !allowCalls {
						ok = false
					}
				}
			})
			return ok, false
		}
		if !isCmpOp(v.Op) {
			return false, true
		}
		t, ok := condInstant(lf.other, now, hasValuer, loc)
		if !ok {
			return false, true
		}
		lf.instant = t
		leaves[e] = lf
		return true, true
	}
	return false, false
}

func cmpInstant(op influxql.Token, a, b time.Time) bool {
	switch op {
	case influxql.EQ:
		return a.Equal(b)
	case influxql.LT:
		return a.Before(b)
	case influxql.LTE:
		return !a.After(b)
	case influxql.GT:
		return a.After(b)
	case influxql.GTE:
		return !a.Before(b)
	}
	return false
}

// evalBoolIFD is EvalBool as the query engine calls it (integer division yields a float).
func evalBoolIFD(e influxql.Expr, m map[string]interface{}) bool {
	ev := influxql.ValuerEval{Valuer: influxql.MapValuer(m), IntegerFloatDivision: true}
	return ev.EvalBool(e)
}

// condHolds: the declarative meaning of the original condition at a point.
func condHolds(e influxql.Expr, t time.Time, m map[string]interface{}, leaves map[influxql.Expr]*condLeaf) bool {
	switch v := e.(type) {
	case *influxql.ParenExpr:
		return condHolds(v.Expr, t, m, leaves)
	case *influxql.BooleanLiteral:
		return v.Val
	case *influxql.BinaryExpr:
		if v.Op == influxql.AND {
			return condHolds(v.LHS, t, m, leaves) && condHolds(v.RHS, t, m, leaves)
		} else if v.Op == influxql.OR {
			return condHolds(v.LHS, t, m, leaves) || condHolds(v.RHS, t, m, leaves)
		}
		if lf, ok := leaves[e]; ok {
			if lf.timeLHS {
				return cmpInstant(lf.op, t, lf.instant)
			}
			return cmpInstant(lf.op, lf.instant, t)
		}
	}
	return condLeafEval(e, m)
}

// condLeafEval values a predicate on tags and fields (C18 swaps in an evaluator with functions).
var condLeafEval = evalBoolIFD

// condTimeLeaves collects every time comparison below the AND/OR/parenthesis skeleton with the
// instant its operand denotes; ok is false when some time comparison has no such reading.
func condTimeLeaves(e influxql.Expr, now time.Time, hasValuer bool, loc *time.Location, leaves map[influxql.Expr]*condLeaf) (ok bool) {
	switch v := e.(type) {
	case *influxql.ParenExpr:
		return condTimeLeaves(v.Expr, now, hasValuer, loc, leaves)
	case *influxql.BinaryExpr:
		if v.Op == influxql.AND || v.Op == influxql.OR {
			l := condTimeLeaves(v.LHS, now, hasValuer, loc, leaves)
			r := condTimeLeaves(v.RHS, now, hasValuer, loc, leaves)
			return l && r
		}
		var lf *condLeaf
		if isTimeVarRef(v.LHS) {
			lf = &condLeaf{op: v.Op, timeLHS: true, other: v.RHS}
		} else if isTimeVarRef(v.RHS) {
			lf = &condLeaf{op: v.Op, timeLHS: false, other: v.LHS}
		} else {
			return true
		}
		if !isCmpOp(v.Op) {
			return false
		}
		t, ok := condInstant(lf.other, now, hasValuer, loc)
		if !ok {
			return false
		}
		lf.instant = t
		leaves[e] = lf
	}
	return true
}

// plainLeaves collects the predicates that are not time comparisons.
func plainLeaves(e influxql.Expr, out *[]influxql.Expr) {
	switch v := e.(type) {
	case *influxql.ParenExpr:
		plainLeaves(v.Expr, out)
	case *influxql.BinaryExpr:
		if v.Op == influxql.AND || v.Op == influxql.OR {
			plainLeaves(v.LHS, out)
			plainLeaves(v.RHS, out)
		} else if !isTimeVarRef(v.LHS) && !isTimeVarRef(v.RHS) {
			*out = append(*out, e)
		}
	}
}

var condDomain = []interface{}{nil, "a", int64(1), float64(2.5)}

func condVars(e influxql.Expr) []string {
	seen := map[string]bool{}
	influxql.WalkFunc(e, func(n influxql.Node) {
		if v, ok := n.(*influxql.VarRef); ok && strings.ToLower(v.Val) != "time" {
			seen[v.Val] = true
		}
	})
	var out []string
	for k := range seen {
		out = append(out, k)
	}
	sort.Strings(out)
	if len(out) > 3 {
		out = out[:3]
	}
	return out
}

func condAssignments(vars []string) []map[string]interface{} {
	out := []map[string]interface{}{{}}
	for _, v := range vars {
		var next []map[string]interface{}
		for _, m := range out {
			for _, val := range condDomain {
				m2 := map[string]interface{}{}
				for k, x := range m {
					m2[k] = x
				}
				if val != nil {
					m2[v] = val
				}
				next = append(next, m2)
			}
		}
		out = next
	}
	return out
}

func propCondSplit(args []string) string {
	text, cond, perr, valuer, now, loc, bad := condParse(args)
	if bad || perr != nil {
		return "skip"
	}
	leaves := map[influxql.Expr]*condLeaf{}
	inClass, _ := condClass(cond, now, valuer != nil, loc, leaves)
	if !inClass {
		return "skip"
	}
	// calling it again on the SAME tree (as a planner re-planning a statement does) must give the same
	// split and leave the tree as it was
	{
		shared := influxql.CloneExpr(cond)
		before := sexpExpr(shared)
		r1, t1, e1 := influxql.ConditionExpr(shared, valuer)
		r2, t2, e2 := influxql.ConditionExpr(shared, valuer)
		if (e1 == nil) != (e2 == nil) || (e1 == nil && (sexpExpr(r1) != sexpExpr(r2) || !t1.Min.Equal(t2.Min) || !t1.Max.Equal(t2.Max))) {
			return fmt.Sprintf("ConditionExpr called twice on the same tree of %q gives different results: (%v, %v..%v, %v) then (%v, %v..%v, %v)", text, r1, t1.Min, t1.Max, e1, r2, t2.Min, t2.Max, e2)
		}
		if after := sexpExpr(shared); after != before {
			return fmt.Sprintf("ConditionExpr changed the condition it was called on: %q became %s", text, shared)
		}
	}
	res, tr, err := influxql.ConditionExpr(influxql.CloneExpr(cond), valuer)
	if err != nil {
		m := err.Error()
		if strings.Contains(m, "overflows time literal") || strings.Contains(m, "underflows time literal") {
			return "skip" // the instant is outside the representable timestamps
		}
		return fmt.Sprintf("%q is in the property's class but ConditionExpr fails: %v", text, err)
	}
	// A condition without quoted time strings means the same in every time zone: durations are fixed
	// numbers of nanoseconds, so `now() - 1d` is 86400 s before the clock value whatever the calendar of the
	// zone does in between. The split under a zone whose clock was changed during the last day / week before
	// `Now` must be the split under UTC with the same `Now`.
	if valuer != nil && !strings.Contains(text, "'") {
		for _, zc := range condCalendarCases {
			zone, err := time.LoadLocation(zc.zone)
			if err != nil {
				continue
			}
			at := time.Date(zc.y, zc.m, zc.d, 12, 0, 0, 0, zone)
			ru, tu, eu := influxql.ConditionExpr(influxql.CloneExpr(cond), &influxql.NowValuer{Now: at, Location: time.UTC})
			rz, tz, ez := influxql.ConditionExpr(influxql.CloneExpr(cond), &influxql.NowValuer{Now: at, Location: zone})
			if (eu == nil) != (ez == nil) || (eu == nil && (sexpExpr(ru) != sexpExpr(rz) || !tu.Min.Equal(tz.Min) || !tu.Max.Equal(tz.Max))) {
				return fmt.Sprintf("%q has no zone-dependent operand, but with Now=%s it splits into (%v, [%s,%s], %v) under UTC and (%v, [%s,%s], %v) under %s", text, at.UTC().Format(time.RFC3339), ru, boundText(tu.Min), boundText(tu.Max), eu, rz, boundText(tz.Min), boundText(tz.Max), ez, zc.zone)
			}
		}
	}
	// instants to test
	minT, maxT := time.Unix(0, influxql.MinTime), time.Unix(0, influxql.MaxTime)
	var points []time.Time
	add := func(t time.Time) {
		if t.Before(minT) || t.After(maxT) {
			return
		}
		points = append(points, t)
	}
	add(minT)
	add(maxT)
	add(time.Unix(0, 0))
	add(now)
	var keys []string
	bySexp := map[string]*condLeaf{}
	for e, lf := range leaves {
		k := sexpExpr(e)
		bySexp[k] = lf
		keys = append(keys, k)
	}
	sort.Strings(keys)
	for _, k := range keys {
		v := bySexp[k].instant
		add(v.Add(-1))
		add(v)
		add(v.Add(1))
	}
	inRange := func(t time.Time) bool {
		if !tr.Min.IsZero() && t.Before(tr.Min) {
			return false
		}
		if !tr.Max.IsZero() && t.After(tr.Max) {
			return false
		}
		return true
	}
	assignments := condAssignments(condVars(cond))
	// A predicate that Reduce folds to something EvalBool values differently is a disagreement
	// between Reduce and Eval (C09's subject); it shows here because the residual is reduced.
	var plain []influxql.Expr
	plainLeaves(cond, &plain)
	for _, p := range plain {
		rp := influxql.Reduce(influxql.CloneExpr(p), valuer)
		for _, m := range assignments {
			if a, b := evalBoolIFD(p, m), evalBoolIFD(rp, m); a != b {
				return fmt.Sprintf("reduce-eval: the predicate %q evaluates to %v with %v, but the residual keeps its reduced form %q, which evaluates to %v", p.String(), a, m, rp.String(), b)
			}
		}
	}
	for _, m := range assignments {
		residual := res == nil || evalBoolIFD(res, m)
		for _, t := range points {
			want := condHolds(cond, t, m, leaves)
			got := inRange(t) && residual
			if want != got {
				return fmt.Sprintf("%q at time %d with %v: the condition is %v, range [%s,%s] and residual %v give %v", text, t.UnixNano(), m, want, boundText(tr.Min), boundText(tr.Max), res, got)
			}
			ns := t.UnixNano()
			gotNano := tr.MinTimeNano() <= ns && ns <= tr.MaxTimeNano() && residual
			if want != gotNano {
				return fmt.Sprintf("nano-accessor: %q at time %d with %v: the condition is %v, MinTimeNano=%d MaxTimeNano=%d and residual %v give %v", text, ns, m, want, tr.MinTimeNano(), tr.MaxTimeNano(), res, gotNano)
			}
		}
	}
	return ""
}

// Noon on days whose zone changed its clock that day, the day before or within the week before.
var condCalendarCases = []struct {
	zone string
	y    int
	m    time.Month
	d    int
}{
	{"America/Los_Angeles", 2021, time.March, 14}, {"America/Los_Angeles", 2021, time.November, 7}, {"America/Los_Angeles", 2021, time.March, 18},
	{"Europe/Berlin", 2021, time.March, 28}, {"Europe/Berlin", 2021, time.October, 31}, {"Australia/Lord_Howe", 2021, time.April, 4},
	{"Pacific/Apia", 2011, time.December, 31}, // the zone skipped 2011-12-30 altogether
}

func knownCondSplit(args []string) string {
	d := propCondSplit(args)
	if strings.HasPrefix(d, "nano-accessor:") {
		return "C10-nano-accessor-wraps"
	}
	if strings.HasPrefix(d, "reduce-eval:") {
		return "C10-residual-predicate-folded-against-eval"
	}
	return ""
}

// ---------------------------------------------------------------------------------------------
// Generator

var condBaseTimes = []int64{0, 946684800000000000, 1500000000123456789, 1700000000000000000}

func randTimeOperand(r *rand.Rand, inClass bool) string {
	base := condBaseTimes[r.Intn(len(condBaseTimes))] + int64(r.Intn(5)-2)
	t := time.Unix(0, base).UTC()
	n := 17
	if !inClass {
		n = 24
	}
	switch r.Intn(n) {
	case 0, 1:
		return fmt.Sprintf("%d", base)
	case 2:
		return pick(r, []string{"0", "1", "-1", "9223372036854775807", "9223372036854775806", "-9223372036854775808", "-9223372036854775807", "-9223372036854775806", "9223372036854775805"})
	case 3:
		return pick(r, []string{"1.5", "1000.75", "0.0", "-2.5", "946684800000.5", "99999999999999.9", "9300000000000000000000.0"})
	case 4:
		return pick(r, []string{"10s", "1h", "0s", "-5m", "1w", "2562047h", "1u", "3ns", "15250w"})
	case 5:
		return "'" + t.Format(time.RFC3339Nano) + "'"
	case 6:
		return "'" + t.Format("2006-01-02T15:04:05Z") + "'"
	case 7:
		off := pick(r, []string{"+01:00", "-07:30", "+00:00", "-00:00", "+14:00", "+24:00", "+23:60", "+05:45"})
		return "'" + t.Format("2006-01-02T15:04:05.999999999") + off + "'"
	case 8:
		return "'" + t.Format("2006-01-02") + "'"
	case 9:
		return "'" + t.Format("2006-01-02 15:04:05") + "'"
	case 10:
		return "'" + t.Format("2006-01-02 15:04:05.999999") + "'"
	case 11:
		return pick(r, []string{"'2000-01-01 1:02:03'", "'2000-01-01  12:00:00'", "'2000-01-01 12:00:00,5'", "'2000-01-01T1:02:03Z'", "'2000-01-01T12:00:00,25Z'",
			"'2000-01-01 12:00:00.1234567890123'", "'2000-02-29'", "'2100-02-28 23:59:59.999999'", "'2000-01-01T23:59:59.999999999Z'", "'1970-01-01'",
			"'1677-09-21T00:12:43.145224194Z'", "'1677-09-21T00:12:43.145224195Z'", "'2262-04-11T23:47:16.854775806Z'", "'2262-04-11 23:47:16.854775'"})
	case 12:
		return randCase(r, "now") + "()"
	case 13, 14:
		return randCase(r, "now") + "() " + pick(r, []string{"-", "+"}) + " " + pick(r, []string{"1h", "10s", "5m", "0s", "1w", "7d", "1ns", "15250w", "1d", "24h", "2d", "48h", "25h"})
	case 15:
		return fmt.Sprintf("%d", base+int64(r.Intn(2000000000)-1000000000))
	case 16:
		return "'" + time.Unix(0, base+int64(r.Intn(2000000000))).UTC().Format(time.RFC3339Nano) + "'"
	// out of class
	case 17:
		return pick(r, []string{"'abc'", "''", "'2000-13-01'", "'2000-02-30'", "'2001-02-29'", "'2000-01-01T00:00:00'", "'2000-01-01x'", "'2000-01-01 24:00:00'", "'2000-01-01 12:60:00'",
			"'2000-01-01 12:00:60'", "'2000-01-01T00:00:00+25:00'", "'2000-01-01T00:00:00+01:61'", "'2000-01-01T00:00:00Zx'", "'2000-01-01\\n'", "'2000-01-01 '", "'2000-00-10'", "'2000-01-00'",
			"'2000-01-01é'", "'２０００-01-01'", "'2000-01-01T00:00:00.Z'", "'2000-01-01 12:00:00.'", "'20000-01-01'", "'2000-1-1'", "'2000-01-01T00:00:00z'", "'2000-01-01t00:00:00Z'"})
	case 18:
		return pick(r, []string{"'1500-01-01'", "'2300-01-01T00:00:00Z'", "'0000-01-01'", "'9999-12-31 23:59:59.999999'", "'1677-09-21T00:12:43.145224193Z'", "'1677-09-21T00:12:43.145224192Z'",
			"'2262-04-11T23:47:16.854775807Z'", "'2262-04-11T23:47:16.854775808Z'", "'0001-01-01T00:00:00Z'", "'0001-01-01'"})
	case 19:
		return pick(r, []string{"host", "true", "/re/", "time", "18446744073709551615", "9223372036854775808", "f(1)", "now(1)", "\"now()\"", "(5)", "((5))", "(now())", "-now()"})
	case 20:
		return pick(r, []string{"1 + 1", "2 * 3", "10s + 5s", "1h * 2", "1h / 2", "10 / 4", "5 % 3", "1 = 1", "'a' + 'b'", "7 & 3", "7 | 8", "6 ^ 3", "1h / 0", "1h * 1.5", "1h / 0.5"})
	case 21:
		return pick(r, []string{"'2000-01-01' + 1h", "'2000-01-01T00:00:00Z' - 1h", "1h + '2000-01-01'", "946684800000000000 + 1h", "946684800000000000 - 1h", "1h + 946684800000000000",
			"now() - 1h + 5m", "now() - (1h + 5m)", "now() - 1h - 5m", "now() + 1", "now() - 1000", "now() - now()", "'2000-01-02' - '2000-01-01'", "now() - '2000-01-01'",
			"9223372036854775807 + 1s", "-9223372036854775808 - 1s", "'1500-01-01' + 1h", "now() + 9223372036854775807ns + 9223372036854775807ns"})
	case 22:
		return randAtom(r, 3)
	default:
		return randExprText(r, 3, 1+r.Intn(2))
	}
}

func randTimeName(r *rand.Rand) string {
	switch r.Intn(12) {
	case 0:
		return "TIME"
	case 1:
		return "Time"
	case 2:
		return `"time"`
	case 3:
		return pick(r, []string{"tIME", `"TIME"`, `"tİme"`, "time::integer", `"Time"::tag`})
	}
	return "time"
}

func randPlainPred(r *rand.Rand, inClass bool) string {
	n := 16
	if !inClass {
		n = 22
	}
	switch r.Intn(n) {
	case 0, 1, 2:
		return pick(r, []string{"host", "region", "dc"}) + " " + pick(r, []string{"=", "!=", "<>"}) + " " + pick(r, []string{"'a'", "'b'", "'server01'", "''"})
	case 3, 4:
		return pick(r, []string{"value", "n", "host"}) + " " + pick(r, []string{"=", "!=", "<", "<=", ">", ">="}) + " " + pick(r, []string{"1", "0", "2.5", "3", "-1", "1.0", "100"})
	case 5:
		return pick(r, []string{"host", "region"}) + " " + pick(r, []string{"=~", "!~"}) + " " + pick(r, []string{"/a/", "/^a$/", "/b|c/", "/.*/", "/^$/"})
	case 6:
		return pick(r, []string{"true", "false", "TRUE", "False"})
	case 7:
		return pick(r, []string{"1 = 1", "1 = 2", "'a' = 'a'", "'a' != 'a'", "true = true", "2 > 1", "1 >= 2", "10s > 5s", "'2000-01-01' = '2000-01-01'", "1 != 1", "true != false"})
	case 8:
		return pick(r, []string{"host = region", "value > n", "n = n", "'a' = host", "1 < value", "2.5 >= n", "true = ok", "ok = false", "ok != true"})
	case 9:
		return pick(r, []string{"host", "region"}) + " = " + influxql.QuoteString(pick(r, []string{"it's", "a\\b", "2000-01-01", "é", "a b"}))
	case 10:
		return pick(r, []string{"value", "n"}) + " " + pick(r, []string{"+", "-", "*"}) + " 1 " + pick(r, []string{">", "=", "<="}) + " " + pick(r, []string{"2", "0", "3"})
	case 11:
		return `"host" = 'a'`
	case 12:
		return pick(r, []string{"host::tag = 'a'", "value::float > 1", "n::integer = 1", "value::field >= 2.5"})
	case 13:
		return pick(r, []string{"a", "b", "c"}) + " = " + pick(r, []string{"1", "'a'", "2.5", "true"})
	case 14:
		return pick(r, []string{"a", "b", "c"}) + " " + pick(r, []string{"<", ">", "!="}) + " " + pick(r, []string{"a", "b", "1"})
	case 15:
		return pick(r, []string{"1 + 1 = 2", "2 * 3 > 5", "7 % 4 = 3", "1 - 2 < 0", "6 & 3 = 2", "6 | 1 = 7", "6 ^ 2 = 4", "10s + 5s = 15s", "'a' + 'b' = 'ab'", "'a' + 'b' = host", "9223372036854775807 + 1 < 0"})
	// out of class / totality
	case 16:
		return pick(r, []string{"host", "1", "'a'", "now()", "f(x)", "*", "/re/", "10s", "host::tag", "DISTINCT x", "-host", "18446744073709551615"})
	case 17:
		return pick(r, []string{"value > now()", "now() > value", "f(host) = 'a'", "host = f('a')", "\"now()\" = 1", "x = now() - 1h"})
	case 18:
		return pick(r, []string{"1.5 + 1 > 2", "10 / 4 = 2.5", "1.5 > 1.0", "1 < 1.5", "2.0 = 2", "1h * 1.5 = 90m", "1h / 0.5 = 2h", "5 / 0 = 0", "18446744073709551615 > 1.5", "18446744073709551615 > -1", "-1 < 18446744073709551615",
			"18446744073709551615 + 1 = 0", "18446744073709551615 = 18446744073709551615", "9223372036854775808 > 9223372036854775807", "1.5 % 1 = 0.5"})
	case 19:
		return pick(r, []string{"'2000-01-01' = '2000-01-01 00:00:00'", "'2000-01-01' != '2000-01-01T00:00:00Z'", "'2000-01-01' < '2000-01-02'", "'2000-01-02' - '2000-01-01' = 24h", "'2000-01-01' + 1h = x",
			"'2000-01-01' = 946684800000000000", "946684800000000000 + 1h = x", "1h + '2000-01-01' = x", "'2000-13-01' = '2000-13-01'", "'2000-13-01' < 'x'", "'a' < 'b'", "'1500-01-01' + 1h = x", "x = '2000-01-01' - 1h"})
	case 20:
		return randExprText(r, 2, 1+r.Intn(3))
	default:
		return pick(r, []string{"host = 'a' = true", "(host = 'a') = (region = 'b')", "true AND 5", "5 OR false", "nil = nil", "host & 1", "true & false", "true | false", "true ^ true", "true = 1", "true AND 'x'"})
	}
}

func randTimePred(r *rand.Rand, inClass bool) string {
	ops := []string{"=", "<", "<=", ">", ">=", ">", ">=", "<", "<="}
	if !inClass {
		ops = append(ops, "!=", "<>", "=~", "!~", "+", "-", "AND", "&")
	}
	op := pick(r, ops)
	lit := randTimeOperand(r, inClass)
	if op == "=~" || op == "!~" {
		lit = "/x/"
	}
	name := randTimeName(r)
	if r.Intn(4) == 0 && op != "=~" && op != "!~" {
		return lit + " " + op + " " + name
	}
	return name + " " + op + " " + lit
}

// randCond builds the AND / OR / parenthesis skeleton. timeOK: time predicates may appear here
// (in-class generation never puts them under OR).
func randCond(r *rand.Rand, depth int, inClass, timeOK bool) string {
	if depth <= 0 || r.Intn(3) == 0 {
		if timeOK && r.Intn(2) == 0 {
			return randTimePred(r, inClass)
		}
		return randPlainPred(r, inClass)
	}
	switch r.Intn(7) {
	case 0, 1, 2:
		return randCond(r, depth-1, inClass, timeOK) + " " + randCase(r, "AND") + " " + randCond(r, depth-1, inClass, timeOK)
	case 3:
		sub := timeOK && !inClass
		l, rr := randCond(r, depth-1, inClass, sub), randCond(r, depth-1, inClass, sub)
		// OR binds weaker than AND: parenthesise so that the skeleton is what was drawn
		return "(" + l + " " + randCase(r, "OR") + " " + rr + ")"
	case 4:
		sub := timeOK && !inClass
		return randCond(r, depth-1, inClass, sub) + " OR " + randCond(r, depth-1, inClass, sub)
	default:
		return "(" + randCond(r, depth-1, inClass, timeOK) + ")"
	}
}

func condCase(text string, now string, valuer string) []string {
	return []string{encStr(text), now, valuer, encLower(text)}
}

func randCondEnv(r *rand.Rand) (string, string) {
	now := encInt(condBaseTimes[1+r.Intn(3)] + int64(r.Intn(1000)))
	switch r.Intn(40) {
	case 0:
		now = condZero
	case 1:
		now = encInt(condPickInt(r, []int64{0, 1, -1, math.MaxInt64, math.MinInt64, math.MaxInt64 - 1, math.MinInt64 + 2, math.MinInt64 + 3}))
	}
	valuer := "noloc"
	switch r.Intn(10) {
	case 0:
		valuer = "novaluer"
	case 1, 2, 3:
		valuer = "off:" + pick(r, []string{"0", "3600", "-25200", "19800", "1", "-1", "50400", "-43200", "1800", "5400", "-1800", "-28800", "34200"})
	}
	return now, valuer
}

func condPickInt(r *rand.Rand, xs []int64) int64 { return xs[r.Intn(len(xs))] }

func genCondSplit(r *rand.Rand, n int, emit func(args ...string)) {
	now0 := encInt(946684800000000000)
	corpus := []string{
		"", "time > 0", "time >= 0", "time < 0", "time <= 0", "time = 0", "0 < time", "0 <= time", "0 > time", "0 >= time", "0 = time",
		"time > 9223372036854775807", "time >= 9223372036854775807", "time < -9223372036854775808", "time <= -9223372036854775808", "time > 9223372036854775806", "time < -9223372036854775806", "time < -9223372036854775807",
		"time != 0", "time <> 0", "time =~ /x/", "time !~ /x/", "time + 1", "time AND true", "time = time", "time > time",
		"TIME > 5", "Time > 5 AND host = 'a'", `"time" > 5`, `"tİme" > 5`, `"tıme" > 5`,
		"time > 5 OR time < 3", "host = 'a' OR time > 5", "(time > 5 OR host = 'a') AND region = 'b'",
		"host = 'a'", "host = 'a' AND time > 5", "time > 5 AND host = 'a'", "time > 5 AND time < 10", "time > 5 AND time > 7 AND time >= 8 AND time < 20 AND time <= 18",
		"(time > 5)", "((time > 5))", "(time > 5 AND host = 'a')", "(host = 'a')", "((host = 'a'))", "(host = 'a' AND region = 'b')", "(host = 'a') AND (region = 'b')",
		"true", "false", "(true)", "true AND time > 5", "false AND time > 5", "time > 5 AND true", "time > 5 AND false", "true AND true", "true OR false", "false OR host = 'a'", "host = 'a' OR true",
		"1 = 1", "1 = 1 AND time > 5", "1 = 2 AND time > 5", "(1 = 1)", "host", "1", "now()", "f(x)", "'a'", "time",
		"time > now()", "time > now() - 1h", "time < now() + 1h", "now() - 1h < time", "time > NOW() - 1h", "time > now() - 1h AND time < now()", "time > now(1)", `time > "now()"`, `"now()" > 5`,
		"time > '2000-01-01'", "time > '2000-01-01T00:00:00Z'", "time > '2000-01-01 00:00:00'", "time >= '2000-01-01T00:00:00.123456789+01:00'", "time = '2000-01-01'", "'2000-01-01' <= time",
		"time > 'abc'", "time > '2000-13-01'", "time > '2000-02-30'", "time > '1500-01-01'", "time > '2300-01-01'", "time > '2000-01-01' + 1h", "time > 1h", "time > 1.5", "time > -1.5", "time > true", "time > host",
		"time > '1677-09-21T00:12:43.145224193Z'", "time > '1677-09-21T00:12:43.145224194Z'", "time < '2262-04-11T23:47:16.854775806Z'", "time < '2262-04-11T23:47:16.854775807Z'",
		"host = 'a' AND (time > 5 AND (region = 'b' AND time < 10))", "(host = 'a' OR region = 'b') AND time > 5", "host = 'a' OR region = 'b' AND time > 5",
		"time > 5 AND", "time >", "(time > 5", "time > 5)", "time > 5 host",
		"value > 1.5 AND time > 5", "1.5 + 1 > 2 AND time > 5", "10 / 4 = 2.5",
	}
	for _, s := range corpus {
		emit(condCase(s, now0, "noloc")...)
		emit(condCase(s, now0, "off:3600")...)
		emit(condCase(s, now0, "novaluer")...)
		emit(condCase(s, condZero, "noloc")...)
	}
	for i := 0; i < n; i++ {
		var text string
		switch r.Intn(20) {
		case 0:
			text = randExprText(r, 0, r.Intn(6))
		case 1, 2, 3, 4:
			text = randCond(r, 1+r.Intn(4), false, true)
		case 5:
			text = randTimePred(r, r.Intn(2) == 0)
		default:
			text = randCond(r, 1+r.Intn(4), true, true)
		}
		now, valuer := randCondEnv(r)
		emit(condCase(text, now, valuer)...)
	}
}

func init() {
	register(&stream{name: "cond.split", gen: genCondSplit, impl: implCondSplit, prop: propCondSplit, known: knownCondSplit,
		class: func(args []string, out string) string {
			switch {
			case strings.HasPrefix(out, "ok (none) - min=zero max=zero"):
				return "ok-empty"
			case strings.HasPrefix(out, "ok (none)"):
				return "ok-range-only"
			case strings.HasPrefix(out, "ok") && strings.Contains(out, "min=zero max=zero"):
				return "ok-residual-only"
			case strings.HasPrefix(out, "ok"):
				return "ok-range-and-residual"
			case strings.HasPrefix(out, "skip"):
				return strings.Fields(out)[0]
			case strings.HasPrefix(out, "parse-error"):
				return "parse-error"
			case strings.HasPrefix(out, "panic"):
				return "panic"
			}
			return "error"
		},
		nontrivial: func(args []string, out string) bool { return strings.Count(args[0], ",") >= 8 }})
}

package main

import (
	"fmt"
	"math"
	"math/big"
	"math/rand"
	"regexp"
	"sort"
	"strconv"
	"strings"
	"time"

	"github.com/influxdata/influxql"
)

// Streams for C09: Reduce / Eval (mirrors lean/Oracle/Handlers/Reduce.lean).
//
//	reduce.expr | reduce.time  <tree> <valuer> <bindings>           -> tree of Reduce(e, valuer)
//	eval.expr                  <tree> <ifd> <valuer> <bindings>     -> value of ValuerEval{valuer, ifd}.Eval(e)
//	reduce.eval | reduce.ill   <tree> <bindings1> <bindings2>       -> tree of Reduce(e, b1), Eval(Reduce(e, b1), b2), Eval(e, b1 ∪ b2)
//
// Trees are sent structurally (prefix tokens joined by ';') so that every literal kind, NaN and
// infinite numbers, time and nil literals can stand anywhere; floats travel as bit patterns.

// ---------------------------------------------------------------- tree encoding

func encFloatBits(f float64) string {
	if f != f {
		return "nan"
	}
	return strconv.FormatUint(math.Float64bits(f), 10)
}

var bigE9 = big.NewInt(1000000000)

func timeToNs(t time.Time) *big.Int {
	n := new(big.Int).Mul(big.NewInt(t.Unix()), bigE9)
	return n.Add(n, big.NewInt(int64(t.Nanosecond())))
}

func nsToTime(ns *big.Int) time.Time {
	sec, nsec := new(big.Int), new(big.Int)
	sec.DivMod(ns, bigE9, nsec) // Euclidean: 0 <= nsec
	return time.Unix(sec.Int64(), nsec.Int64()).UTC()
}

func encTree(e influxql.Expr) string {
	var toks []string
	var walk func(e influxql.Expr)
	walk = func(e influxql.Expr) {
		switch e := e.(type) {
		case *influxql.BinaryExpr:
			toks = append(toks, fmt.Sprintf("B%d", int(e.Op)))
			walk(e.LHS)
			walk(e.RHS)
		case *influxql.ParenExpr:
			toks = append(toks, "P")
			walk(e.Expr)
		case *influxql.Call:
			toks = append(toks, fmt.Sprintf("C%d:%s", len(e.Args), encHex(e.Name)))
			for _, a := range e.Args {
				walk(a)
			}
		case *influxql.VarRef:
			toks = append(toks, fmt.Sprintf("V%d:%s", int(e.Type), encHex(e.Val)))
		case *influxql.Distinct:
			toks = append(toks, "D:"+encHex(e.Val))
		case *influxql.Wildcard:
			toks = append(toks, fmt.Sprintf("W%d", int(e.Type)))
		case *influxql.RegexLiteral:
			toks = append(toks, "R:"+encHex(e.Val.String()))
		case *influxql.StringLiteral:
			toks = append(toks, "S:"+encHex(e.Val))
		case *influxql.NumberLiteral:
			toks = append(toks, "F"+encFloatBits(e.Val))
		case *influxql.IntegerLiteral:
			toks = append(toks, fmt.Sprintf("I%d", e.Val))
		case *influxql.UnsignedLiteral:
			toks = append(toks, fmt.Sprintf("U%d", e.Val))
		case *influxql.BooleanLiteral:
			if e.Val {
				toks = append(toks, "T1")
			} else {
				toks = append(toks, "T0")
			}
		case *influxql.DurationLiteral:
			toks = append(toks, fmt.Sprintf("d%d", int64(e.Val)))
		case *influxql.TimeLiteral:
			toks = append(toks, "t"+timeToNs(e.Val).String())
		case *influxql.NilLiteral:
			toks = append(toks, "N")
		case *influxql.ListLiteral:
			hs := make([]string, len(e.Vals))
			for i, v := range e.Vals {
				hs[i] = encHex(v)
			}
			toks = append(toks, fmt.Sprintf("L%d:%s", len(e.Vals), strings.Join(hs, "|")))
		case *influxql.BoundParameter:
			toks = append(toks, "Q:"+encHex(e.Name))
		default:
			toks = append(toks, fmt.Sprintf("?%T", e))
		}
	}
	walk(e)
	return strings.Join(toks, ";")
}

func decTree(a string) (influxql.Expr, error) {
	toks := strings.Split(a, ";")
	pos := 0
	var parse func() (influxql.Expr, error)
	afterColon := func(s string) (string, string, error) {
		i := strings.IndexByte(s, ':')
		if i < 0 {
			return "", "", fmt.Errorf("no colon in %q", s)
		}
		return s[:i], s[i+1:], nil
	}
	parse = func() (influxql.Expr, error) {
		if pos >= len(toks) || toks[pos] == "" {
			return nil, fmt.Errorf("short tree")
		}
		t := toks[pos]
		pos++
		body := t[1:]
		switch t[0] {
		case 'B':
			op, err := strconv.Atoi(body)
			if err != nil {
				return nil, err
			}
			l, err := parse()
			if err != nil {
				return nil, err
			}
			r, err := parse()
			if err != nil {
				return nil, err
			}
			return &influxql.BinaryExpr{Op: influxql.Token(op), LHS: l, RHS: r}, nil
		case 'P':
			e, err := parse()
			if err != nil {
				return nil, err
			}
			return &influxql.ParenExpr{Expr: e}, nil
		case 'C':
			ns, h, err := afterColon(body)
			if err != nil {
				return nil, err
			}
			n, err := strconv.Atoi(ns)
			if err != nil {
				return nil, err
			}
			name, err := decHex(h)
			if err != nil {
				return nil, err
			}
			c := &influxql.Call{Name: name}
			for i := 0; i < n; i++ {
				a, err := parse()
				if err != nil {
					return nil, err
				}
				c.Args = append(c.Args, a)
			}
			return c, nil
		case 'V':
			ns, h, err := afterColon(body)
			if err != nil {
				return nil, err
			}
			n, err := strconv.Atoi(ns)
			if err != nil {
				return nil, err
			}
			name, err := decHex(h)
			if err != nil {
				return nil, err
			}
			return &influxql.VarRef{Val: name, Type: influxql.DataType(n)}, nil
		case 'D', 'R', 'S', 'Q':
			_, h, err := afterColon(body)
			if err != nil {
				return nil, err
			}
			s, err := decHex(h)
			if err != nil {
				return nil, err
			}
			switch t[0] {
			case 'D':
				return &influxql.Distinct{Val: s}, nil
			case 'R':
				re, err := regexp.Compile(s)
				if err != nil {
					return nil, err
				}
				return &influxql.RegexLiteral{Val: re}, nil
			case 'S':
				return &influxql.StringLiteral{Val: s}, nil
			}
			return &influxql.BoundParameter{Name: s}, nil
		case 'W':
			n, err := strconv.Atoi(body)
			if err != nil {
				return nil, err
			}
			return &influxql.Wildcard{Type: influxql.Token(n)}, nil
		case 'F':
			if body == "nan" {
				return &influxql.NumberLiteral{Val: math.NaN()}, nil
			}
			b, err := strconv.ParseUint(body, 10, 64)
			if err != nil {
				return nil, err
			}
			return &influxql.NumberLiteral{Val: math.Float64frombits(b)}, nil
		case 'I':
			v, err := strconv.ParseInt(body, 10, 64)
			if err != nil {
				return nil, err
			}
			return &influxql.IntegerLiteral{Val: v}, nil
		case 'U':
			v, err := strconv.ParseUint(body, 10, 64)
			if err != nil {
				return nil, err
			}
			return &influxql.UnsignedLiteral{Val: v}, nil
		case 'T':
			return &influxql.BooleanLiteral{Val: body == "1"}, nil
		case 'd':
			v, err := strconv.ParseInt(body, 10, 64)
			if err != nil {
				return nil, err
			}
			return &influxql.DurationLiteral{Val: time.Duration(v)}, nil
		case 't':
			ns, ok := new(big.Int).SetString(body, 10)
			if !ok {
				return nil, fmt.Errorf("bad time %q", body)
			}
			return &influxql.TimeLiteral{Val: nsToTime(ns)}, nil
		case 'N':
			return &influxql.NilLiteral{}, nil
		case 'L':
			ns, h, err := afterColon(body)
			if err != nil {
				return nil, err
			}
			n, err := strconv.Atoi(ns)
			if err != nil {
				return nil, err
			}
			l := &influxql.ListLiteral{}
			if n > 0 {
				for _, x := range strings.Split(h, "|") {
					s, err := decHex(x)
					if err != nil {
						return nil, err
					}
					l.Vals = append(l.Vals, s)
				}
			}
			return l, nil
		}
		return nil, fmt.Errorf("bad token %q", t)
	}
	e, err := parse()
	if err != nil {
		return nil, err
	}
	if pos != len(toks) {
		return nil, fmt.Errorf("trailing tokens")
	}
	return e, nil
}

// ---------------------------------------------------------------- values, bindings, valuers

func encValue(v interface{}) string {
	switch v := v.(type) {
	case nil:
		return "n"
	case bool:
		if v {
			return "b1"
		}
		return "b0"
	case int64:
		return "i" + strconv.FormatInt(v, 10)
	case uint64:
		return "u" + strconv.FormatUint(v, 10)
	case float64:
		return "f" + encFloatBits(v)
	case string:
		return encStr(v)
	case time.Time:
		return "t" + timeToNs(v).String()
	case time.Duration:
		return "d" + strconv.FormatInt(int64(v), 10)
	case *regexp.Regexp:
		return "r:" + encHex(v.String())
	}
	return fmt.Sprintf("?%T", v)
}

func decValue(s string) (interface{}, error) {
	if s == "" {
		return nil, fmt.Errorf("empty value")
	}
	body := s[1:]
	switch s[0] {
	case 'n':
		return nil, nil
	case 'b':
		return body == "1", nil
	case 'i':
		return strconv.ParseInt(body, 10, 64)
	case 'u':
		return strconv.ParseUint(body, 10, 64)
	case 'f':
		if body == "nan" {
			return math.NaN(), nil
		}
		b, err := strconv.ParseUint(body, 10, 64)
		return math.Float64frombits(b), err
	case 's':
		return decStr(s)
	case 't':
		ns, ok := new(big.Int).SetString(body, 10)
		if !ok {
			return nil, fmt.Errorf("bad time")
		}
		return nsToTime(ns), nil
	case 'd':
		v, err := strconv.ParseInt(body, 10, 64)
		return time.Duration(v), err
	case 'r':
		src, err := decStr("s" + body)
		if err != nil {
			return nil, err
		}
		return regexp.Compile(src)
	}
	return nil, fmt.Errorf("bad value %q", s)
}

type binding struct {
	name string
	val  interface{}
}

func encBindings(bs []binding) string {
	if len(bs) == 0 {
		return "-"
	}
	out := make([]string, len(bs))
	for i, b := range bs {
		out[i] = encHex(b.name) + "=" + encValue(b.val)
	}
	return strings.Join(out, ";")
}

func decBindings(a string) ([]binding, error) {
	if a == "-" {
		return nil, nil
	}
	var out []binding
	for _, p := range strings.Split(a, ";") {
		i := strings.IndexByte(p, '=')
		if i < 0 {
			return nil, fmt.Errorf("bad binding %q", p)
		}
		name, err := decHex(p[:i])
		if err != nil {
			return nil, err
		}
		v, err := decValue(p[i+1:])
		if err != nil {
			return nil, err
		}
		out = append(out, binding{name, v})
	}
	return out, nil
}

// first binding of a name wins (as in the model's association list)
func bindingsMap(bs ...[]binding) map[string]interface{} {
	m := map[string]interface{}{}
	for _, l := range bs {
		for _, b := range l {
			if _, ok := m[b.name]; !ok {
				m[b.name] = b.val
			}
		}
	}
	return m
}

func decValuer(a string, m map[string]interface{}) (influxql.Valuer, error) {
	ps := strings.Split(a, "/")
	if len(ps) == 1 && ps[0] == "map" {
		return influxql.MapValuer(m), nil
	}
	if len(ps) != 3 || (ps[0] != "now" && ps[0] != "multi") {
		return nil, fmt.Errorf("bad valuer %q", a)
	}
	ns, ok := new(big.Int).SetString(ps[1], 10)
	if !ok {
		return nil, fmt.Errorf("bad now")
	}
	nv := &influxql.NowValuer{Now: nsToTime(ns)}
	if ps[2] != "-" {
		off, err := strconv.Atoi(ps[2])
		if err != nil {
			return nil, err
		}
		nv.Location = time.FixedZone("", off)
	}
	if ps[0] == "now" {
		return nv, nil
	}
	return influxql.MultiValuer(nv, influxql.MapValuer(m)), nil
}

// touchesRegexMatch: the model does not run compiled regular expressions.
func touchesRegexMatch(e influxql.Expr, bs ...[]binding) bool {
	hasOp, hasRe := false, false
	influxql.WalkFunc(e, func(n influxql.Node) {
		switch n := n.(type) {
		case *influxql.BinaryExpr:
			if n.Op == influxql.EQREGEX || n.Op == influxql.NEQREGEX {
				hasOp = true
			}
		case *influxql.RegexLiteral:
			hasRe = true
		}
	})
	for _, l := range bs {
		for _, b := range l {
			if _, ok := b.val.(*regexp.Regexp); ok {
				hasRe = true
			}
		}
	}
	return hasOp && hasRe
}

// ---------------------------------------------------------------- implementation runners

func implReduceExpr(args []string) string {
	if len(args) != 3 {
		return "bad-arg"
	}
	e, err := decTree(args[0])
	bs, err2 := decBindings(args[2])
	if err != nil || err2 != nil {
		return "bad-arg"
	}
	v, err := decValuer(args[1], bindingsMap(bs))
	if err != nil {
		return "bad-arg"
	}
	return encTree(influxql.Reduce(e, v))
}

func implEvalExpr(args []string) string {
	if len(args) != 4 {
		return "bad-arg"
	}
	e, err := decTree(args[0])
	bs, err2 := decBindings(args[3])
	if err != nil || err2 != nil {
		return "bad-arg"
	}
	if touchesRegexMatch(e, bs) {
		return "skip-oracle-call"
	}
	v, err := decValuer(args[2], bindingsMap(bs))
	if err != nil {
		return "bad-arg"
	}
	ev := influxql.ValuerEval{Valuer: v, IntegerFloatDivision: args[1] == "1"}
	return encValue(ev.Eval(e))
}

func reduceEval(args []string) (red influxql.Expr, v1, v2 interface{}, skip bool, err error) {
	if len(args) != 3 {
		return nil, nil, nil, false, fmt.Errorf("bad-arg")
	}
	e, err := decTree(args[0])
	if err != nil {
		return nil, nil, nil, false, err
	}
	b1, err := decBindings(args[1])
	if err != nil {
		return nil, nil, nil, false, err
	}
	b2, err := decBindings(args[2])
	if err != nil {
		return nil, nil, nil, false, err
	}
	if touchesRegexMatch(e, b1, b2) {
		return nil, nil, nil, true, nil
	}
	// the expression is evaluated *before* it is handed to Reduce: a Reduce that writes into its
	// argument must not be able to change the value it is compared with (seeded change C09-2 of round 3)
	before := encTree(e)
	ev2 := influxql.ValuerEval{Valuer: influxql.MapValuer(bindingsMap(b1, b2)), IntegerFloatDivision: true}
	v2 = ev2.Eval(e)
	red = influxql.Reduce(e, influxql.MapValuer(bindingsMap(b1)))
	ev1 := influxql.ValuerEval{Valuer: influxql.MapValuer(bindingsMap(b2)), IntegerFloatDivision: true}
	v1 = ev1.Eval(red)
	if msg := reduceRepeatable(e, before, red, influxql.MapValuer(bindingsMap(b1))); msg != "" {
		return red, v1, v2, false, &impureReduce{msg}
	}
	return red, v1, v2, false, nil
}

type impureReduce struct{ msg string }

func (e *impureReduce) Error() string { return e.msg }

// reduceRepeatable: a second Reduce of the same expression under the same valuer gives the same tree as
// the first, and the expression is what it was before the first call. Both follow from Reduce being a
// function of (expression, valuer); a folder that accumulates into a node of its argument fails one of them.
func reduceRepeatable(e influxql.Expr, before string, first influxql.Expr, v influxql.Valuer) string {
	firstEnc := encTree(first)
	second := influxql.Reduce(e, v)
	if encTree(second) != firstEnc {
		return fmt.Sprintf("Reduce of the same expression gives %s the first time and %s the second time", first.String(), second.String())
	}
	if after := encTree(e); after != before {
		return fmt.Sprintf("Reduce changed the expression it was given (now %s); result %s", e.String(), first.String())
	}
	return ""
}

func implReduceEval(args []string) string {
	red, v1, v2, skip, err := reduceEval(args)
	if _, impure := err.(*impureReduce); err != nil && !impure {
		return "bad-arg"
	}
	if skip {
		return "skip-oracle-call"
	}
	return encTree(red) + " " + encValue(v1) + " " + encValue(v2)
}

// ---------------------------------------------------------------- property oracles on the implementation

const dateClass = "C09-date-like-strings-compare-as-instants"
const minDurClass = "C09-minus-min-duration-wraps"

// propReduceEval: Eval(Reduce(e, b1), b2) == Eval(e, b1 ∪ b2) on well-typed cases; twice = once.
func propReduceEval(args []string) string {
	red, v1, v2, skip, err := reduceEval(args)
	if imp, ok := err.(*impureReduce); ok {
		return imp.msg
	}
	if err != nil || skip {
		return "skip"
	}
	if a, b := encValue(v1), encValue(v2); a != b {
		return fmt.Sprintf("Eval(Reduce(e,b1),b2)=%s but Eval(e,b1+b2)=%s; reduced %s", showVal(v1), showVal(v2), red.String())
	}
	b1, _ := decBindings(args[1])
	again := influxql.Reduce(red, influxql.MapValuer(bindingsMap(b1)))
	if encTree(again) != encTree(red) {
		return fmt.Sprintf("Reduce twice %s differs from once %s", again.String(), red.String())
	}
	return ""
}

func showVal(v interface{}) string {
	switch v := v.(type) {
	case string:
		return strconv.Quote(v)
	case nil:
		return "nil"
	}
	return fmt.Sprintf("%T(%v)", v, v)
}

// propIdem: reducing twice gives the same tree as reducing once (any tree, any valuer); no panic.
func propIdem(args []string) string {
	if len(args) != 3 {
		return "skip"
	}
	e, err := decTree(args[0])
	bs, err2 := decBindings(args[2])
	if err != nil || err2 != nil {
		return "skip"
	}
	v, err := decValuer(args[1], bindingsMap(bs))
	if err != nil {
		return "skip"
	}
	before := encTree(e)
	once := influxql.Reduce(e, v)
	if msg := reduceRepeatable(e, before, once, v); msg != "" {
		return msg
	}
	twice := influxql.Reduce(once, v)
	if encTree(once) != encTree(twice) {
		return fmt.Sprintf("Reduce twice %s differs from once %s", twice.String(), once.String())
	}
	return ""
}

// propIll: totality on arbitrary trees (a panic is reported by the driver), and twice = once.
func propIll(args []string) string {
	red, _, _, skip, err := reduceEval(args)
	if imp, ok := err.(*impureReduce); ok {
		return imp.msg
	}
	if err != nil || skip {
		return "skip"
	}
	b1, _ := decBindings(args[1])
	again := influxql.Reduce(red, influxql.MapValuer(bindingsMap(b1)))
	if encTree(again) != encTree(red) {
		return fmt.Sprintf("Reduce twice %s differs from once %s", again.String(), red.String())
	}
	return ""
}

// Independent reading of the time-arithmetic cases: the operands as exact instants / durations.
type timeOperand struct {
	isTime bool
	v      *big.Int
	isInt  bool // an integer literal: a timestamp next to a duration, a duration next to an instant
}

func timeOperandOf(e influxql.Expr, v influxql.Valuer, nowNs *big.Int, zone int) (timeOperand, bool) {
	switch e := e.(type) {
	case *influxql.ParenExpr:
		return timeOperandOf(e.Expr, v, nowNs, zone)
	case *influxql.TimeLiteral:
		return timeOperand{true, timeToNs(e.Val), false}, true
	case *influxql.DurationLiteral:
		return timeOperand{false, big.NewInt(int64(e.Val)), false}, true
	case *influxql.IntegerLiteral:
		return timeOperand{false, big.NewInt(e.Val), true}, true
	case *influxql.Call:
		if e.Name == "now" && len(e.Args) == 0 && nowNs != nil {
			return timeOperand{true, nowNs, false}, true
		}
	case *influxql.StringLiteral:
		if ns, ok := refParseTime(e.Val, zone); ok {
			return timeOperand{true, ns, false}, true
		}
	case *influxql.VarRef:
		if val, ok := v.Value(e.Val); ok {
			switch val := val.(type) {
			case time.Time:
				return timeOperand{true, timeToNs(val), false}, true
			case time.Duration:
				return timeOperand{false, big.NewInt(int64(val)), false}, true
			}
		}
	}
	return timeOperand{}, false
}

// refParseTime: an independent reading of the three date formats in their canonical spelling
// (`YYYY-MM-DD`, `YYYY-MM-DD HH:MM:SS[.f]`, `YYYY-MM-DDTHH:MM:SS[.f](Z|±HH:MM)`), by hand.
var refTimeRe = regexp.MustCompile(`^(\d{4})-(\d{2})-(\d{2})(?:([ T])(\d{2}):(\d{2}):(\d{2})(?:\.(\d{1,9}))?(Z|[+-]\d{2}:\d{2})?)?$`)

func refParseTime(s string, zone int) (*big.Int, bool) {
	m := refTimeRe.FindStringSubmatch(s)
	if m == nil {
		return nil, false
	}
	atoi := func(x string) int64 { n, _ := strconv.ParseInt(x, 10, 64); return n }
	y, mo, d := atoi(m[1]), atoi(m[2]), atoi(m[3])
	leap := y%4 == 0 && (y%100 != 0 || y%400 == 0)
	dim := []int64{31, 28, 31, 30, 31, 30, 31, 31, 30, 31, 30, 31}
	if leap {
		dim[1] = 29
	}
	if mo < 1 || mo > 12 || d < 1 || d > dim[mo-1] {
		return nil, false
	}
	var h, mi, sec, ns int64
	off := int64(zone)
	if m[4] != "" {
		h, mi, sec = atoi(m[5]), atoi(m[6]), atoi(m[7])
		if h > 23 || mi > 59 || sec > 59 {
			return nil, false
		}
		if m[8] != "" {
			ns = atoi((m[8] + "000000000")[:9])
		}
		if (m[4] == "T") != (m[9] != "") {
			return nil, false
		}
		if m[9] != "" && m[9] != "Z" {
			oh, om := atoi(m[9][1:3]), atoi(m[9][4:6])
			if oh > 23 || om > 59 {
				return nil, false
			}
			off = (oh*60 + om) * 60
			if m[9][0] == '-' {
				off = -off
			}
		} else if m[9] == "Z" {
			off = 0
		}
	}
	// days since the epoch by counting (Rata Die style)
	yy := y - 1
	fdiv := func(a, b int64) int64 { // floor division (year 0000 gives yy = -1)
		q := a / b
		if a%b != 0 && (a < 0) != (b < 0) {
			q--
		}
		return q
	}
	days := yy*365 + fdiv(yy, 4) - fdiv(yy, 100) + fdiv(yy, 400)
	for i := int64(0); i < mo-1; i++ {
		days += dim[i]
	}
	days += d - 1
	days -= 719162 // 0001-01-01 -> 1970-01-01
	secs := days*86400 + h*3600 + mi*60 + sec - off
	out := new(big.Int).Mul(big.NewInt(secs), bigE9)
	return out.Add(out, big.NewInt(ns)), true
}

var bigMinI64 = big.NewInt(math.MinInt64)
var bigMaxI64 = big.NewInt(math.MaxInt64)

// propTime: `instant ± duration`, `duration + instant`, `instant - instant` and the six comparisons of
// instants fold to the exact value.
func propTime(args []string) string {
	if len(args) != 3 {
		return "skip"
	}
	e, err := decTree(args[0])
	bs, err2 := decBindings(args[2])
	if err != nil || err2 != nil {
		return "skip"
	}
	v, err := decValuer(args[1], bindingsMap(bs))
	if err != nil {
		return "skip"
	}
	var nowNs *big.Int
	zone := 0
	if ps := strings.Split(args[1], "/"); len(ps) == 3 {
		nowNs, _ = new(big.Int).SetString(ps[1], 10)
		if ps[2] != "-" {
			zone, _ = strconv.Atoi(ps[2])
		}
	}
	top := e
	if p, ok := top.(*influxql.ParenExpr); ok {
		top = p.Expr
	}
	b, ok := top.(*influxql.BinaryExpr)
	if !ok {
		return "skip"
	}
	l, ok1 := timeOperandOf(b.LHS, v, nowNs, zone)
	r, ok2 := timeOperandOf(b.RHS, v, nowNs, zone)
	if !ok1 || !ok2 {
		return "skip"
	}
	// two strings are compared as strings unless both are dates: not a time-arithmetic case
	_, ls := b.LHS.(*influxql.StringLiteral)
	_, rs := b.RHS.(*influxql.StringLiteral)
	if ls && rs && (b.Op == influxql.EQ || b.Op == influxql.NEQ || b.Op == influxql.ADD) {
		return "skip"
	}
	// integer literals: `timestamp ± duration` (integer on the left), `instant ± integer`, `integer + instant`
	switch {
	case l.isInt && r.isInt:
		return "skip"
	case l.isInt && !r.isTime && (b.Op == influxql.ADD || b.Op == influxql.SUB):
		l.isTime = true
	case l.isInt && r.isTime && b.Op == influxql.ADD:
	case r.isInt && l.isTime && (b.Op == influxql.ADD || b.Op == influxql.SUB):
	case l.isInt || r.isInt:
		return "skip"
	}
	beforeEnc := encTree(e)
	got := influxql.Reduce(e, v)
	if msg := reduceRepeatable(e, beforeEnc, got, v); msg != "" {
		return msg
	}
	// a clock that is kept and re-used: the same valuer objects serve a second reduction after the zone of the
	// clock was changed; the result must be that of valuers built afresh for the new zone (round-4 seeded
	// change C09-1: MultiValuer looked its zone up once and kept it)
	if nowNs != nil {
		for _, wrap := range []bool{false, true} {
			mk := func(loc *time.Location) (influxql.Valuer, *influxql.NowValuer) {
				nv := &influxql.NowValuer{Now: nsToTime(nowNs), Location: loc}
				if wrap {
					return influxql.MultiValuer(influxql.MapValuer(bindingsMap(bs)), nv), nv
				}
				return nv, nv
			}
			var first *time.Location
			if zone != 0 {
				first = time.FixedZone("", zone)
			}
			second := time.FixedZone("", zone+5*3600+1800)
			kept, nv := mk(first)
			_ = influxql.Reduce(e, kept)
			nv.Location = second
			a := influxql.Reduce(e, kept)
			fresh, _ := mk(second)
			b := influxql.Reduce(e, fresh)
			if encTree(a) != encTree(b) {
				return fmt.Sprintf("a valuer used before with another zone reduces %s to %s, a fresh one to %s", e.String(), a.String(), b.String())
			}
		}
	}
	var want string
	switch {
	case l.isTime && !r.isTime && b.Op == influxql.ADD:
		want = "t" + new(big.Int).Add(l.v, r.v).String()
	case l.isTime && !r.isTime && b.Op == influxql.SUB:
		want = "t" + new(big.Int).Sub(l.v, r.v).String()
	case !l.isTime && r.isTime && b.Op == influxql.ADD:
		want = "t" + new(big.Int).Add(l.v, r.v).String()
	case l.isTime && r.isTime && b.Op == influxql.SUB:
		d := new(big.Int).Sub(l.v, r.v)
		if d.Cmp(bigMinI64) < 0 || d.Cmp(bigMaxI64) > 0 {
			return "skip" // not representable as a duration (the code saturates)
		}
		want = "d" + d.String()
	case l.isTime && r.isTime:
		c := l.v.Cmp(r.v)
		var res bool
		switch b.Op {
		case influxql.EQ:
			res = c == 0
		case influxql.NEQ:
			res = c != 0
		case influxql.LT:
			res = c < 0
		case influxql.LTE:
			res = c <= 0
		case influxql.GT:
			res = c > 0
		case influxql.GTE:
			res = c >= 0
		default:
			return "skip"
		}
		if res {
			want = "T1"
		} else {
			want = "T0"
		}
	default:
		return "skip"
	}
	if g := encTree(got); g != want {
		return fmt.Sprintf("%s folds to %s, exact result %s", e.String(), g, want)
	}
	return ""
}

func knownTime(args []string) string {
	// instant - duration(MinInt64): the negation of the duration wraps
	// (a duration literal or value, or an integer literal standing for a duration)
	if len(args) == 3 && (strings.Contains(args[0]+";"+args[2], "d-9223372036854775808") || strings.Contains(args[0], "I-9223372036854775808")) {
		return minDurClass
	}
	return ""
}

// knownReduceEval mirrors the hypothesis `dateSafe` of eval_reduce_partial: the case belongs to the
// known class iff some = / != node has two operands that evaluate (under all bindings) to strings
// which both look like dates.
func knownReduceEval(args []string) string {
	if len(args) != 3 {
		return ""
	}
	e, err := decTree(args[0])
	if err != nil {
		return ""
	}
	b1, err1 := decBindings(args[1])
	b2, err2 := decBindings(args[2])
	if err1 != nil || err2 != nil {
		return ""
	}
	ev := influxql.ValuerEval{Valuer: influxql.MapValuer(bindingsMap(b1, b2)), IntegerFloatDivision: true}
	isDate := func(v interface{}) bool {
		s, ok := v.(string)
		return ok && (&influxql.StringLiteral{Val: s}).IsTimeLiteral()
	}
	unsafe := false
	influxql.WalkFunc(e, func(nd influxql.Node) {
		if b, ok := nd.(*influxql.BinaryExpr); ok && (b.Op == influxql.EQ || b.Op == influxql.NEQ) {
			if isDate(ev.Eval(b.LHS)) && isDate(ev.Eval(b.RHS)) {
				unsafe = true
			}
		}
	})
	if unsafe {
		return dateClass
	}
	return ""
}

// ---------------------------------------------------------------- generators

type kind int

const (
	kBool kind = iota
	kInt
	kUint
	kFloat
	kStr
)

var kindNames = []string{"bool", "int", "uint", "float", "str"}

var ops16 = []influxql.Token{influxql.ADD, influxql.SUB, influxql.MUL, influxql.DIV, influxql.MOD,
	influxql.BITWISE_AND, influxql.BITWISE_OR, influxql.BITWISE_XOR, influxql.AND, influxql.OR,
	influxql.EQ, influxql.NEQ, influxql.LT, influxql.LTE, influxql.GT, influxql.GTE}

func isNum(k kind) bool { return k == kInt || k == kUint || k == kFloat }

// opType: the well-typed class of the property (mirrors `opTy` in Props/C09.lean).
func opType(op influxql.Token, l, r kind) (kind, bool) {
	switch {
	case l == kBool && r == kBool:
		switch op {
		case influxql.AND, influxql.OR, influxql.BITWISE_AND, influxql.BITWISE_OR, influxql.BITWISE_XOR, influxql.EQ, influxql.NEQ:
			return kBool, true
		}
	case l == kStr && r == kStr:
		switch op {
		case influxql.EQ, influxql.NEQ:
			return kBool, true
		}
	case isNum(l) && isNum(r):
		anyF := l == kFloat || r == kFloat
		anyU := l == kUint || r == kUint
		switch op {
		case influxql.EQ, influxql.NEQ, influxql.LT, influxql.LTE, influxql.GT, influxql.GTE:
			return kBool, true
		case influxql.ADD, influxql.SUB, influxql.MUL, influxql.MOD, influxql.DIV:
			if anyF {
				return kFloat, true
			}
			if anyU {
				return kUint, true
			}
			if op == influxql.DIV {
				return kFloat, true
			}
			return kInt, true
		case influxql.BITWISE_AND, influxql.BITWISE_OR, influxql.BITWISE_XOR:
			if anyF {
				return 0, false
			}
			if anyU {
				return kUint, true
			}
			return kInt, true
		}
	}
	return 0, false
}

var boundInts = []int64{math.MinInt64, math.MinInt64 + 1, -9007199254740993, -3, -1, 0, 1, 2, 7, 9007199254740993, math.MaxInt64 - 1, math.MaxInt64}
var boundUints = []uint64{0, 1, 2, 7, 9007199254740993, math.MaxInt64, math.MaxInt64 + 1, math.MaxUint64 - 1, math.MaxUint64}
var boundFloats = []float64{0, math.Copysign(0, -1), 1, -1, 0.5, 2.5, -7.5, 3, 9007199254740992, 9223372036854775808, -9223372036854775808, 18446744073709551616,
	math.MaxFloat64, -math.MaxFloat64, math.SmallestNonzeroFloat64, 1e300, math.Inf(1), math.Inf(-1), math.NaN(), 4.9e-324 * 3, 0.1}
var boundStrs = []string{"", "a", "b", "é", "2000-01-01", "2000-01-01 00:00:00", "2000-01-01T00:00:00Z", "2000-01-02", "2000-13-01", "it's"}

var coreInts = []int64{math.MinInt64, -1, 0, 7, math.MaxInt64}
var coreUints = []uint64{0, 7, math.MaxInt64 + 1, math.MaxUint64}
var coreFloats = []float64{0, math.Copysign(0, -1), 2.5, -7.5, 9223372036854775808, math.Inf(1), math.NaN()}
var coreStrs = []string{"", "a", "2000-01-01", "2000-01-01 00:00:00"}

// coreValues: the short boundary list used for the exhaustive operator x kind x kind sweep of the quick tier.
func coreValues(k kind) []interface{} {
	var out []interface{}
	switch k {
	case kBool:
		out = append(out, true, false)
	case kInt:
		for _, v := range coreInts {
			out = append(out, v)
		}
	case kUint:
		for _, v := range coreUints {
			out = append(out, v)
		}
	case kFloat:
		for _, v := range coreFloats {
			out = append(out, v)
		}
	case kStr:
		for _, v := range coreStrs {
			out = append(out, v)
		}
	}
	return out
}

func boundaryValues(k kind) []interface{} {
	var out []interface{}
	switch k {
	case kBool:
		out = append(out, true, false)
	case kInt:
		for _, v := range boundInts {
			out = append(out, v)
		}
	case kUint:
		for _, v := range boundUints {
			out = append(out, v)
		}
	case kFloat:
		for _, v := range boundFloats {
			out = append(out, v)
		}
	case kStr:
		for _, v := range boundStrs {
			out = append(out, v)
		}
	}
	return out
}

// magnitudes shared by the three number kinds, so that comparisons across kinds meet equal and
// adjacent values
var sharedMagnitudes = []uint64{0, 1, 2, 7, 9007199254740992, 9007199254740993, math.MaxInt64 - 1, math.MaxInt64, math.MaxInt64 + 1, math.MaxUint64}

func randValue(r *rand.Rand, k kind) interface{} {
	if isNum(k) && r.Intn(4) == 0 {
		m := sharedMagnitudes[r.Intn(len(sharedMagnitudes))]
		switch k {
		case kInt:
			if m <= math.MaxInt64 {
				if r.Intn(3) == 0 {
					return -int64(m)
				}
				return int64(m)
			}
			return int64(math.MinInt64)
		case kUint:
			return m
		default:
			if r.Intn(4) == 0 {
				return -float64(m)
			}
			return float64(m)
		}
	}
	if r.Intn(3) == 0 {
		b := boundaryValues(k)
		return b[r.Intn(len(b))]
	}
	switch k {
	case kBool:
		return r.Intn(2) == 0
	case kInt:
		switch r.Intn(4) {
		case 0:
			return int64(r.Intn(21) - 10)
		case 1:
			return int64(r.Uint64())
		case 2:
			return int64(math.MaxInt64) - int64(r.Intn(5))
		}
		return int64(r.Int63n(1<<40)) - (1 << 39)
	case kUint:
		switch r.Intn(3) {
		case 0:
			return uint64(r.Intn(20))
		case 1:
			return r.Uint64()
		}
		return uint64(math.MaxUint64) - uint64(r.Intn(5))
	case kFloat:
		switch r.Intn(4) {
		case 0:
			return float64(r.Intn(41)-20) / 4
		case 1:
			return math.Float64frombits(r.Uint64())
		case 2:
			return r.NormFloat64() * math.Pow(10, float64(r.Intn(40)-10))
		}
		return float64(r.Int63()) * float64(r.Intn(3)-1)
	}
	return pick(r, []string{"x", "y", "cpu", "2000-01-01", "2001-02-03 04:05:06", "", "a b"})
}

func litOf(v interface{}) influxql.Expr {
	switch v := v.(type) {
	case bool:
		return &influxql.BooleanLiteral{Val: v}
	case int64:
		return &influxql.IntegerLiteral{Val: v}
	case uint64:
		return &influxql.UnsignedLiteral{Val: v}
	case float64:
		return &influxql.NumberLiteral{Val: v}
	case string:
		return &influxql.StringLiteral{Val: v}
	case time.Time:
		return &influxql.TimeLiteral{Val: v}
	case time.Duration:
		return &influxql.DurationLiteral{Val: v}
	case *regexp.Regexp:
		return &influxql.RegexLiteral{Val: v}
	}
	return &influxql.NilLiteral{}
}

// wtGen generates well-typed trees with their variable assignment.
type wtGen struct {
	r    *rand.Rand
	vars []binding
	kind map[string]kind
}

// magnitudeAs: a shared magnitude (or its neighbour) as a value of the kind.
func magnitudeAs(r *rand.Rand, k kind, m uint64) interface{} {
	switch k {
	case kInt:
		if m > math.MaxInt64 {
			return int64(math.MaxInt64)
		}
		return int64(m)
	case kUint:
		return m
	}
	return float64(m)
}

func (g *wtGen) leafVal(k kind, v interface{}) influxql.Expr {
	if g.r.Intn(2) == 0 {
		name := fmt.Sprintf("%c%d", "bifus"[k], len(g.vars))
		g.vars = append(g.vars, binding{name, v})
		g.kind[name] = k
		return &influxql.VarRef{Val: name}
	}
	return litOf(v)
}

func (g *wtGen) leaf(k kind) influxql.Expr {
	if g.r.Intn(5) < 3 {
		// variable: reuse one of the kind or make a new one
		var same []string
		for _, b := range g.vars {
			if g.kind[b.name] == k {
				same = append(same, b.name)
			}
		}
		if len(same) > 0 && g.r.Intn(3) == 0 {
			return &influxql.VarRef{Val: same[g.r.Intn(len(same))]}
		}
		name := fmt.Sprintf("%c%d", "bifus"[k], len(g.vars))
		g.vars = append(g.vars, binding{name, randValue(g.r, k)})
		g.kind[name] = k
		return &influxql.VarRef{Val: name, Type: influxql.DataType(g.r.Intn(10))}
	}
	return litOf(randValue(g.r, k))
}

func (g *wtGen) tree(k kind, depth int) influxql.Expr {
	if depth <= 0 || g.r.Intn(depth+2) == 0 {
		return g.leaf(k)
	}
	// choose a cell producing k
	for try := 0; try < 50; try++ {
		op := ops16[g.r.Intn(len(ops16))]
		l, rk := kind(g.r.Intn(5)), kind(g.r.Intn(5))
		if res, ok := opType(op, l, rk); ok && res == k {
			var e influxql.Expr
			if isNum(l) && isNum(rk) && g.r.Intn(4) == 0 {
				// the same magnitude (or the next one) on both sides, in the two kinds
				i := g.r.Intn(len(sharedMagnitudes))
				j := i
				if g.r.Intn(3) == 0 && i+1 < len(sharedMagnitudes) {
					j = i + 1
				}
				e = &influxql.BinaryExpr{Op: op, LHS: g.leafVal(l, magnitudeAs(g.r, l, sharedMagnitudes[i])), RHS: g.leafVal(rk, magnitudeAs(g.r, rk, sharedMagnitudes[j]))}
			} else {
				e = &influxql.BinaryExpr{Op: op, LHS: g.tree(l, depth-1), RHS: g.tree(rk, depth-1)}
			}
			for g.r.Intn(3) == 0 {
				e = &influxql.ParenExpr{Expr: e}
			}
			return e
		}
	}
	return g.leaf(k)
}

func splitBindings(vars []binding, mask int) (b1, b2 []binding) {
	for i, b := range vars {
		if mask>>uint(i)&1 == 1 {
			b1 = append(b1, b)
		} else {
			b2 = append(b2, b)
		}
	}
	return
}

func genReduceEval(r *rand.Rand, n int, emit func(args ...string)) {
	em := func(e influxql.Expr, b1, b2 []binding) {
		emit(encTree(e), encBindings(b1), encBindings(b2))
	}
	// known witness and relatives first
	for _, p := range [][2]string{{"2000-01-01", "2000-01-01 00:00:00"}, {"2000-01-01", "2000-01-01"}, {"2000-01-01T00:00:00Z", "2000-01-01 00:00:00"}, {"x", "x"}, {"2000-01-01", "x"}} {
		for _, op := range []influxql.Token{influxql.EQ, influxql.NEQ} {
			e := &influxql.BinaryExpr{Op: op, LHS: &influxql.VarRef{Val: "a"}, RHS: &influxql.VarRef{Val: "b"}}
			vars := []binding{{"a", p[0]}, {"b", p[1]}}
			for mask := 0; mask < 4; mask++ {
				b1, b2 := splitBindings(vars, mask)
				em(e, b1, b2)
			}
		}
	}
	// every operator x every pair of operand kinds x boundary values; the two operands as
	// variables (all four splits in rotation), literals, or parenthesised
	cnt := 0
	for _, op := range ops16 {
		for l := kBool; l <= kStr; l++ {
			for rk := kBool; rk <= kStr; rk++ {
				if _, ok := opType(op, l, rk); !ok {
					continue
				}
				vals := coreValues
				if n >= 100000 {
					vals = boundaryValues
				}
				for _, va := range vals(l) {
					for _, vb := range vals(rk) {
						cnt++
						vars := []binding{{"a", va}, {"b", vb}}
						var lhs, rhs influxql.Expr = &influxql.VarRef{Val: "a"}, &influxql.VarRef{Val: "b"}
						mask := cnt % 4
						switch cnt % 7 {
						case 4:
							lhs, mask = litOf(va), mask&2
						case 5:
							rhs, mask = litOf(vb), mask&1
						case 6:
							lhs = &influxql.ParenExpr{Expr: &influxql.ParenExpr{Expr: lhs}}
						}
						b1, b2 := splitBindings(vars, mask)
						var e influxql.Expr = &influxql.BinaryExpr{Op: op, LHS: lhs, RHS: rhs}
						if cnt%5 == 0 {
							e = &influxql.ParenExpr{Expr: e}
						}
						em(e, b1, b2)
					}
				}
			}
		}
	}
	// random well-typed trees; every split when there are at most three variables
	for i := 0; i < n; {
		g := &wtGen{r: r, kind: map[string]kind{}}
		e := g.tree(kind(r.Intn(5)), 1+r.Intn(5))
		if len(g.vars) <= 3 && r.Intn(2) == 0 {
			for mask := 0; mask < 1<<uint(len(g.vars)); mask++ {
				b1, b2 := splitBindings(g.vars, mask)
				em(e, b1, b2)
				i++
			}
		} else {
			b1, b2 := splitBindings(g.vars, r.Intn(1<<uint(len(g.vars))))
			em(e, b1, b2)
			i++
		}
	}
}

// ---- arbitrary (mostly ill-typed) trees

var allOps = []influxql.Token{influxql.ADD, influxql.SUB, influxql.MUL, influxql.DIV, influxql.MOD,
	influxql.BITWISE_AND, influxql.BITWISE_OR, influxql.BITWISE_XOR, influxql.AND, influxql.OR,
	influxql.EQ, influxql.NEQ, influxql.EQREGEX, influxql.NEQREGEX, influxql.LT, influxql.LTE, influxql.GT, influxql.GTE}

var boundTimes = []string{"0", "1", "-1", "946684800000000000", "-62135596800000000000", "253402300799999999999",
	"-9223372036854775808", "9223372036854775807", "9223372036854775808", "-9223372036854775809", "18446744073709551616",
	"-62167219200000000000", "1700000000123456789", "4102444800000000000", "-30000000000000000000"}

var boundDurs = []int64{0, 1, -1, 1000000000, 3600000000000, -3600000000000, math.MaxInt64, math.MinInt64, math.MinInt64 + 1, 86400000000000, 7}

var dateStrings = []string{"2000-01-01T01:00:00+01:00", "1999-12-31T19:00:00-05:00", "2000-01-01T05:30:00+05:30", "2000-01-01", "2000-01-01 00:00:00", "2000-01-01T00:00:00Z", "2000-01-01 12:34:56.789", "2000-01-01T12:34:56.123456789+05:30",
	"2000-02-29", "1999-02-29", "2000-13-01", "2000-00-10", "2000-01-32", "0000-01-01", "9999-12-31 23:59:59.999999999", "2000-01-01 1:02:03", "2000-01-01    01:02:03",
	"2000-01-01 01:02:03,5", "2000-01-01T01:02:03,5Z", "2000-01-01 24:00:00", "2000-01-01 00:60:00", "2000-01-01 00:00:60", "2000-01-01 00:00", "2000-01-01T00:00:00",
	"2000-01-01T00:00:00z", "2000-01-01T00:00:00-24:00", "2000-01-01T00:00:00+24:60", "2000-01-01T00:00:00+25:00", "2000-01-01T00:00:00+00:61", "2000-01-01T1:00:00Z",
	"2000-01-01 00:00:00.1234567891234", "2000-01-01 00:00:00.", "2000-01-01x", "2000-01-01\n", "2000-01-01 ", "2000-01-01 00:00:00 ", "2000-1-01", "20000-01-01", " 2000-01-01",
	"2000-01-01T00:00:00.5-07:00", "2000-01-01 00:00:00Z", "2000-01-01T00:00:00+0000", "1677-09-21 00:12:43.145224192", "2262-04-11 23:47:16.854775807", "x", "",
	"2000-01-01T00:00:00Z ", "2000-01-01 00:00:00.000000001", "２０００-01-01", "2000-01-01 00:00:0x"}

func randTimeNs(r *rand.Rand) *big.Int {
	if r.Intn(2) == 0 {
		n, _ := new(big.Int).SetString(boundTimes[r.Intn(len(boundTimes))], 10)
		return n
	}
	n := big.NewInt(r.Int63n(4e18) - 2e18)
	if r.Intn(4) == 0 {
		n.Mul(n, big.NewInt(int64(r.Intn(40))))
	}
	return n
}

func randAnyValue(r *rand.Rand) interface{} {
	switch r.Intn(12) {
	case 0:
		return nil
	case 1:
		return nsToTime(randTimeNs(r))
	case 2:
		return time.Duration(boundDurs[r.Intn(len(boundDurs))])
	case 3:
		return dateStrings[r.Intn(len(dateStrings))]
	case 4:
		if r.Intn(3) == 0 {
			return regexp.MustCompile(pick(r, []string{"a.*", "^cpu$", ""}))
		}
		return time.Duration(r.Int63n(1e15) - 5e14)
	default:
		return randValue(r, kind(r.Intn(5)))
	}
}

type illGen struct {
	r    *rand.Rand
	vars []binding
}

func (g *illGen) leaf() influxql.Expr {
	r := g.r
	switch r.Intn(16) {
	case 0, 1, 2, 3:
		name := fmt.Sprintf("v%d", r.Intn(5))
		found := false
		for _, b := range g.vars {
			if b.name == name {
				found = true
			}
		}
		if !found && r.Intn(5) != 0 { // otherwise unbound
			g.vars = append(g.vars, binding{name, randAnyValue(r)})
		}
		return &influxql.VarRef{Val: name, Type: influxql.DataType(r.Intn(10))}
	case 4:
		return pickExpr(r, []influxql.Expr{&influxql.Wildcard{}, &influxql.Wildcard{Type: influxql.TAG}, &influxql.Distinct{Val: "x"},
			&influxql.ListLiteral{Vals: []string{"a", "b c"}}, &influxql.ListLiteral{}, &influxql.BoundParameter{Name: "p"},
			&influxql.RegexLiteral{Val: regexp.MustCompile("a.*")}, &influxql.NilLiteral{}})
	case 5:
		return &influxql.Call{Name: pick(r, []string{"now", "f", "mean"})}
	default:
		return litOf(randAnyValue(r))
	}
}

func pickExpr(r *rand.Rand, xs []influxql.Expr) influxql.Expr { return xs[r.Intn(len(xs))] }

func (g *illGen) tree(depth int) influxql.Expr {
	r := g.r
	if depth <= 0 || r.Intn(depth+2) == 0 {
		return g.leaf()
	}
	switch r.Intn(12) {
	case 0:
		return &influxql.ParenExpr{Expr: g.tree(depth - 1)}
	case 1:
		c := &influxql.Call{Name: pick(r, []string{"now", "f", "max"})}
		for i := r.Intn(3); i > 0; i-- {
			c.Args = append(c.Args, g.tree(depth-1))
		}
		return c
	default:
		op := allOps[r.Intn(len(allOps))]
		if r.Intn(40) == 0 {
			op = influxql.Token(r.Intn(120)) // any token can sit in a BinaryExpr
		}
		return &influxql.BinaryExpr{Op: op, LHS: g.tree(depth - 1), RHS: g.tree(depth - 1)}
	}
}

// one representative of every node kind `reduceBinaryExpr` distinguishes
func illLeaves() []influxql.Expr {
	t0 := nsToTime(big.NewInt(946684800000000000))
	return []influxql.Expr{
		&influxql.BooleanLiteral{Val: true}, &influxql.BooleanLiteral{Val: false},
		&influxql.DurationLiteral{Val: 3600000000000}, &influxql.DurationLiteral{Val: math.MinInt64}, &influxql.DurationLiteral{Val: 0},
		&influxql.IntegerLiteral{Val: 7}, &influxql.IntegerLiteral{Val: -3}, &influxql.IntegerLiteral{Val: 0}, &influxql.IntegerLiteral{Val: math.MinInt64},
		&influxql.UnsignedLiteral{Val: 5}, &influxql.UnsignedLiteral{Val: math.MaxUint64}, &influxql.UnsignedLiteral{Val: 0},
		&influxql.NilLiteral{},
		&influxql.NumberLiteral{Val: 2.5}, &influxql.NumberLiteral{Val: 0}, &influxql.NumberLiteral{Val: math.NaN()}, &influxql.NumberLiteral{Val: 0.5}, &influxql.NumberLiteral{Val: 1e300}, &influxql.NumberLiteral{Val: -3},
		&influxql.StringLiteral{Val: "x"}, &influxql.StringLiteral{Val: "2000-01-01"}, &influxql.StringLiteral{Val: "2000-01-01T00:00:00Z"}, &influxql.StringLiteral{Val: "2000-13-01"},
		&influxql.TimeLiteral{Val: t0}, &influxql.TimeLiteral{Val: nsToTime(big.NewInt(0))},
		&influxql.RegexLiteral{Val: regexp.MustCompile("x")},
		&influxql.VarRef{Val: "u"}, &influxql.Call{Name: "f"}, &influxql.Wildcard{}, &influxql.Distinct{Val: "d"},
		&influxql.ListLiteral{Vals: []string{"k"}}, &influxql.BoundParameter{Name: "p"},
		&influxql.ParenExpr{Expr: &influxql.IntegerLiteral{Val: 1}},
		&influxql.BinaryExpr{Op: influxql.ADD, LHS: &influxql.VarRef{Val: "u"}, RHS: &influxql.IntegerLiteral{Val: 1}},
	}
}

func illLeavesFor(n int) []influxql.Expr {
	leaves := illLeaves()
	if n >= 100000 {
		return leaves
	}
	var out []influxql.Expr
	for i, l := range leaves { // quick tier: about one representative per kind
		switch i {
		case 1, 3, 4, 7, 8, 10, 11, 14, 16, 17, 21, 22, 24, 28, 29, 30, 31:
			continue
		}
		out = append(out, l)
	}
	return out
}

func genReduceIll(r *rand.Rand, n int, emit func(args ...string)) {
	leaves := illLeavesFor(n)
	for _, op := range allOps {
		for _, l := range leaves {
			for _, rr := range leaves {
				emit(encTree(&influxql.BinaryExpr{Op: op, LHS: l, RHS: rr}), "-", "-")
			}
		}
	}
	for i := 0; i < n; i++ {
		g := &illGen{r: r}
		e := g.tree(1 + r.Intn(5))
		b1, b2 := splitBindings(g.vars, r.Intn(1<<uint(len(g.vars))))
		emit(encTree(e), encBindings(b1), encBindings(b2))
	}
}

func randValuerSpec(r *rand.Rand) string {
	switch r.Intn(4) {
	case 0:
		return "map"
	case 1:
		return "now/" + randTimeNs(r).String() + "/" + randZone(r)
	default:
		return "multi/" + randTimeNs(r).String() + "/" + randZone(r)
	}
}

func randZone(r *rand.Rand) string {
	switch r.Intn(4) {
	case 0:
		return strconv.Itoa(pickInt(r, []int{0, 3600, -3600, 19800, -25200, 86399, -86399, 1}))
	default:
		return "-"
	}
}

func pickInt(r *rand.Rand, xs []int) int { return xs[r.Intn(len(xs))] }

func genReduceExpr(r *rand.Rand, n int, emit func(args ...string)) {
	// corner cases: calls, now() as a reference, parentheses, short-cuts
	now := "multi/946684800000000000/-"
	ref := func(s string) influxql.Expr { return &influxql.VarRef{Val: s} }
	bin := func(op influxql.Token, l, rr influxql.Expr) influxql.Expr {
		return &influxql.BinaryExpr{Op: op, LHS: l, RHS: rr}
	}
	par := func(e influxql.Expr) influxql.Expr { return &influxql.ParenExpr{Expr: e} }
	i1 := &influxql.IntegerLiteral{Val: 1}
	corner := []influxql.Expr{
		&influxql.Call{Name: "now"}, &influxql.Call{Name: "now", Args: []influxql.Expr{i1}}, &influxql.Call{Name: "NOW"},
		&influxql.Call{Name: "f", Args: []influxql.Expr{ref("a"), par(i1)}}, ref("now()"), ref("a"), ref("zz"),
		par(par(ref("a"))), par(bin(influxql.ADD, ref("zz"), i1)), par(par(bin(influxql.ADD, ref("zz"), i1))),
		bin(influxql.AND, &influxql.BooleanLiteral{Val: true}, ref("zz")), bin(influxql.AND, ref("zz"), &influxql.BooleanLiteral{Val: true}),
		bin(influxql.AND, &influxql.BooleanLiteral{Val: false}, ref("zz")), bin(influxql.AND, ref("zz"), &influxql.BooleanLiteral{Val: false}),
		bin(influxql.OR, &influxql.BooleanLiteral{Val: true}, ref("zz")), bin(influxql.OR, ref("zz"), &influxql.BooleanLiteral{Val: true}),
		bin(influxql.OR, &influxql.BooleanLiteral{Val: false}, ref("zz")), bin(influxql.OR, ref("zz"), &influxql.BooleanLiteral{Val: false}),
		bin(influxql.AND, par(&influxql.BooleanLiteral{Val: true}), ref("zz")),
		bin(influxql.SUB, &influxql.Call{Name: "now"}, &influxql.DurationLiteral{Val: 3600000000000}),
		bin(influxql.GT, ref("time"), bin(influxql.SUB, &influxql.Call{Name: "now"}, &influxql.DurationLiteral{Val: 3600000000000})),
		bin(influxql.ADD, ref("a"), bin(influxql.MUL, i1, &influxql.IntegerLiteral{Val: 2})),
	}
	for _, e := range corner {
		for _, v := range []string{"map", now, "now/946684800000000000/3600", "now/-62135596800000000000/-", "multi/-62135596800000000000/-"} {
			emit(encTree(e), v, encBindings([]binding{{"a", int64(5)}}))
			emit(encTree(e), v, "-")
		}
	}
	for i := 0; i < n; i++ {
		if r.Intn(3) == 0 {
			g := &wtGen{r: r, kind: map[string]kind{}}
			e := g.tree(kind(r.Intn(5)), 1+r.Intn(4))
			b1, _ := splitBindings(g.vars, r.Intn(1<<uint(len(g.vars))))
			emit(encTree(e), randValuerSpec(r), encBindings(b1))
			continue
		}
		g := &illGen{r: r}
		e := g.tree(1 + r.Intn(5))
		if r.Intn(6) == 0 {
			g.vars = append(g.vars, binding{"now()", randAnyValue(r)})
		}
		emit(encTree(e), randValuerSpec(r), encBindings(g.vars))
	}
}

func genEvalExpr(r *rand.Rand, n int, emit func(args ...string)) {
	leaves := illLeavesFor(n)
	for _, op := range allOps {
		for _, l := range leaves {
			for _, rr := range leaves {
				emit(encTree(&influxql.BinaryExpr{Op: op, LHS: l, RHS: rr}), "1", "map", "-")
				if op == influxql.DIV {
					emit(encTree(&influxql.BinaryExpr{Op: op, LHS: l, RHS: rr}), "0", "map", "-")
				}
			}
		}
	}
	for i := 0; i < n; i++ {
		ifd := strconv.Itoa(r.Intn(2))
		if r.Intn(2) == 0 {
			g := &wtGen{r: r, kind: map[string]kind{}}
			e := g.tree(kind(r.Intn(5)), 1+r.Intn(5))
			emit(encTree(e), ifd, "map", encBindings(g.vars))
			continue
		}
		g := &illGen{r: r}
		e := g.tree(1 + r.Intn(5))
		emit(encTree(e), ifd, randValuerSpec(r), encBindings(g.vars))
	}
}

func genReduceTime(r *rand.Rand, n int, emit func(args ...string)) {
	timeOps := []influxql.Token{influxql.ADD, influxql.SUB, influxql.EQ, influxql.NEQ, influxql.LT, influxql.LTE, influxql.GT, influxql.GTE, influxql.MUL, influxql.DIV}
	operand := func(vars *[]binding) influxql.Expr {
		switch r.Intn(9) {
		case 0, 1:
			return &influxql.TimeLiteral{Val: nsToTime(randTimeNs(r))}
		case 2:
			return &influxql.Call{Name: "now"}
		case 3, 4:
			return &influxql.StringLiteral{Val: dateStrings[r.Intn(len(dateStrings))]}
		case 5:
			name := fmt.Sprintf("t%d", len(*vars))
			if r.Intn(2) == 0 {
				*vars = append(*vars, binding{name, nsToTime(randTimeNs(r))})
			} else {
				*vars = append(*vars, binding{name, time.Duration(boundDurs[r.Intn(len(boundDurs))])})
			}
			return &influxql.VarRef{Val: name}
		case 6:
			return &influxql.IntegerLiteral{Val: randValue(r, kInt).(int64)}
		default:
			if r.Intn(2) == 0 {
				return &influxql.DurationLiteral{Val: time.Duration(boundDurs[r.Intn(len(boundDurs))])}
			}
			return &influxql.DurationLiteral{Val: time.Duration(r.Int63n(1e18) - 5e17)}
		}
	}
	// every date string against a fixed instant and duration, in UTC and in a fixed zone
	t0 := &influxql.TimeLiteral{Val: nsToTime(big.NewInt(946684800000000000))}
	for _, s := range dateStrings {
		for _, v := range []string{"map", "now/946684800000000000/19800", "multi/1/-3600"} {
			emit(encTree(&influxql.BinaryExpr{Op: influxql.SUB, LHS: &influxql.StringLiteral{Val: s}, RHS: t0}), v, "-")
			emit(encTree(&influxql.BinaryExpr{Op: influxql.ADD, LHS: &influxql.StringLiteral{Val: s}, RHS: &influxql.DurationLiteral{Val: 1}}), v, "-")
			emit(encTree(&influxql.BinaryExpr{Op: influxql.LTE, LHS: t0, RHS: &influxql.StringLiteral{Val: s}}), v, "-")
			emit(encTree(&influxql.BinaryExpr{Op: influxql.EQ, LHS: &influxql.StringLiteral{Val: s}, RHS: &influxql.StringLiteral{Val: "2000-01-01"}}), v, "-")
			emit(encTree(&influxql.BinaryExpr{Op: influxql.ADD, LHS: &influxql.IntegerLiteral{Val: 5}, RHS: &influxql.StringLiteral{Val: s}}), v, "-")
			emit(encTree(&influxql.BinaryExpr{Op: influxql.ADD, LHS: &influxql.DurationLiteral{Val: 5}, RHS: &influxql.StringLiteral{Val: s}}), v, "-")
		}
	}
	// the same instant written with different offsets / read in different locations: every
	// comparison folds by the instant, not by the spelling or the location
	cmpOps := []influxql.Token{influxql.EQ, influxql.NEQ, influxql.LT, influxql.LTE, influxql.GT, influxql.GTE, influxql.SUB}
	sameInstant := []struct{ s, v string }{
		{"2000-01-01T01:00:00+01:00", "now/946684800000000000/-"}, {"1999-12-31T19:00:00-05:00", "now/946684800000000000/-"},
		{"2000-01-01T05:30:00+05:30", "now/946684800000000000/-"}, {"2000-01-01T00:00:00.000000000Z", "now/946684800000000000/-"},
		{"2000-01-01 05:30:00", "now/946684800000000000/19800"}, {"2000-01-01T05:30:00", "now/946684800000000000/19800"},
		{"1999-12-31 23:00:00", "now/946684800000000000/-3600"}, {"2000-01-01T01:00:00+01:00", "now/946684800000000000/19800"},
		{"2000-01-01T01:00:00.000000001+01:00", "now/946684800000000000/-"}, {"1999-12-31T23:59:59.999999999-00:00", "now/946684800000000000/-"},
	}
	for _, c := range sameInstant {
		for _, op := range cmpOps {
			now := &influxql.Call{Name: "now"}
			lit := &influxql.StringLiteral{Val: c.s}
			emit(encTree(&influxql.BinaryExpr{Op: op, LHS: now, RHS: lit}), c.v, "-")
			emit(encTree(&influxql.BinaryExpr{Op: op, LHS: lit, RHS: now}), c.v, "-")
			emit(encTree(&influxql.BinaryExpr{Op: op, LHS: t0, RHS: lit}), c.v, "-")
			emit(encTree(&influxql.BinaryExpr{Op: op, LHS: &influxql.BinaryExpr{Op: influxql.ADD, LHS: now, RHS: &influxql.DurationLiteral{Val: time.Hour}},
				RHS: &influxql.BinaryExpr{Op: influxql.ADD, LHS: lit, RHS: &influxql.DurationLiteral{Val: time.Hour}}}), c.v, "-")
			for _, c2 := range sameInstant[:4] {
				emit(encTree(&influxql.BinaryExpr{Op: op, LHS: &influxql.BinaryExpr{Op: influxql.SUB, LHS: lit, RHS: &influxql.DurationLiteral{Val: 0}},
					RHS: &influxql.StringLiteral{Val: c2.s}}), c.v, "-")
			}
		}
	}
	for _, a := range boundTimes {
		ta, _ := new(big.Int).SetString(a, 10)
		for _, d := range boundDurs {
			for _, op := range []influxql.Token{influxql.ADD, influxql.SUB} {
				emit(encTree(&influxql.BinaryExpr{Op: op, LHS: &influxql.TimeLiteral{Val: nsToTime(ta)}, RHS: &influxql.DurationLiteral{Val: time.Duration(d)}}), "map", "-")
				emit(encTree(&influxql.BinaryExpr{Op: op, LHS: &influxql.Call{Name: "now"}, RHS: &influxql.DurationLiteral{Val: time.Duration(d)}}), "now/"+a+"/-", "-")
			}
		}
		for _, b := range boundTimes {
			tb, _ := new(big.Int).SetString(b, 10)
			for _, op := range []influxql.Token{influxql.SUB, influxql.EQ, influxql.LT, influxql.GTE} {
				emit(encTree(&influxql.BinaryExpr{Op: op, LHS: &influxql.TimeLiteral{Val: nsToTime(ta)}, RHS: &influxql.TimeLiteral{Val: nsToTime(tb)}}), "map", "-")
			}
		}
	}
	for i := 0; i < n; i++ {
		var vars []binding
		var e influxql.Expr = &influxql.BinaryExpr{Op: timeOps[r.Intn(len(timeOps))], LHS: operand(&vars), RHS: operand(&vars)}
		if r.Intn(4) == 0 {
			e = &influxql.BinaryExpr{Op: timeOps[r.Intn(len(timeOps))], LHS: e, RHS: operand(&vars)}
		}
		if r.Intn(5) == 0 {
			e = &influxql.ParenExpr{Expr: e}
		}
		emit(encTree(e), randValuerSpec(r), encBindings(vars))
	}
}

// ---------------------------------------------------------------- registration

func classReduced(out string) string {
	if strings.HasPrefix(out, "skip") || strings.HasPrefix(out, "bad") || strings.HasPrefix(out, "panic") {
		return strings.Fields(out)[0]
	}
	t := strings.Fields(out)[0]
	switch t[0] {
	case 'B', 'P':
		return "residual-expression"
	case 'C', 'V':
		return "unbound-leaf"
	case 'T':
		return "folded-boolean"
	case 'F', 'I', 'U':
		return "folded-number"
	case 'S':
		return "folded-string"
	case 't':
		return "folded-time"
	case 'd':
		return "folded-duration"
	case 'N':
		return "folded-nil"
	}
	return "other-leaf"
}

func hasOperator(args []string, out string) bool { return strings.Contains(args[0], "B") }

func init() {
	register(&stream{name: "reduce.eval", gen: genReduceEval, impl: implReduceEval, prop: propReduceEval, known: knownReduceEval,
		class: func(args []string, out string) string { return classReduced(out) }, nontrivial: hasOperator})
	register(&stream{name: "reduce.ill", gen: genReduceIll, impl: implReduceEval, prop: propIll,
		class: func(args []string, out string) string { return classReduced(out) }, nontrivial: hasOperator})
	register(&stream{name: "reduce.expr", gen: genReduceExpr, impl: implReduceExpr, prop: propIdem,
		class: func(args []string, out string) string { return classReduced(out) }, nontrivial: hasOperator})
	register(&stream{name: "reduce.time", gen: genReduceTime, impl: implReduceExpr, prop: propTime, known: knownTime,
		class: func(args []string, out string) string { return classReduced(out) }, nontrivial: hasOperator})
	register(&stream{name: "eval.expr", gen: genEvalExpr, impl: implEvalExpr,
		class: func(args []string, out string) string {
			if out == "" {
				return "empty"
			}
			switch out[0] {
			case 'n':
				return "nil"
			case 'b':
				return "bool"
			case 'i', 'u':
				return "integer"
			case 'f':
				return "float"
			case 's':
				if strings.HasPrefix(out, "skip") {
					return "skip"
				}
				return "string"
			}
			return "other"
		}, nontrivial: hasOperator})
	_ = sort.Strings
}

package main

import (
	"fmt"
	"math/rand"
	"regexp"
	"regexp/syntax"
	"sort"
	"strconv"
	"strings"
	"unicode"
	"unicode/utf8"

	"github.com/influxdata/influxql"
)

// Streams for C11: RewriteRegexConditions / matchExactRegex / matchRegex.
//
//	regex.match <mode i:N> <src s:…> <tree>    the rewritten condition (S-expression)
//	regex.sem   <src s:…> <tree> <alphabet s:…> <bound i:N>
//	            regexp.MatchString / full match on every string over the alphabet up to the bound
//
// <tree> is the result of syntax.Parse(src, syntax.Perl).Simplify() in the compact form
// `(op.flags.r,r,….sub sub …)` (op and flags decimal, runes hex), or `err`.

// ---- tree encoding ----

func encRegexTree(re *syntax.Regexp) string {
	var b strings.Builder
	writeTree(&b, re)
	return b.String()
}

func writeTree(b *strings.Builder, re *syntax.Regexp) {
	fmt.Fprintf(b, "(%d.%d.", int(re.Op), int(re.Flags))
	for i, r := range re.Rune {
		if i > 0 {
			b.WriteByte(',')
		}
		b.WriteString(strconv.FormatInt(int64(r), 16))
	}
	b.WriteByte('.')
	for _, s := range re.Sub {
		writeTree(b, s)
	}
	b.WriteByte(')')
}

func parseSimplify(src string) (*syntax.Regexp, error) {
	re, err := syntax.Parse(src, syntax.Perl)
	if err != nil {
		return nil, err
	}
	return re.Simplify(), nil
}

func treeArg(src string) string {
	re, err := parseSimplify(src)
	if err != nil {
		return "err"
	}
	// regexp.Compile can still refuse (program too large); then no RegexLiteral exists.
	if _, err := regexp.Compile(src); err != nil {
		return "err"
	}
	return encRegexTree(re)
}

func walkTree(re *syntax.Regexp, fn func(*syntax.Regexp)) {
	fn(re)
	for _, s := range re.Sub {
		walkTree(s, fn)
	}
}

// rxSupported mirrors `supported` of Model/Regex.lean: the trees on which the model's matcher
// is compared with package regexp.
func rxSupported(re *syntax.Regexp) bool {
	ok := true
	walkTree(re, func(n *syntax.Regexp) {
		switch n.Op {
		case syntax.OpRepeat:
			ok = false
		case syntax.OpLiteral:
			for _, r := range n.Rune {
				if !utf8.ValidRune(r) || (n.Flags&syntax.FoldCase != 0 && r >= 0x80) {
					ok = false
				}
			}
		}
	})
	return ok
}

// ---- conditions ----

const rxModes = 6

// rxCondition builds the condition of the given mode around the regex; parsed from text when
// the source can be written between slashes, constructed directly otherwise.
func rxCondition(mode int, src string) (influxql.Expr, error) {
	lit := "/" + strings.Replace(src, "/", `\/`, -1) + "/"
	var text string
	switch mode {
	case 0:
		text = "t =~ " + lit
	case 1:
		text = "t !~ " + lit
	case 2:
		text = "(t !~ " + lit + ")"
	case 3:
		text = "a = 'x' AND (t !~ " + lit + " OR f(t =~ " + lit + ")) AND ((t =~ " + lit + "))"
	case 4:
		text = "t =~ " + lit + " OR u !~ " + lit + " AND t = 'ab'"
	default:
		// a negated test visited before a positive one (round-3 seeded change C11-2: the joining operator
		// of the negated test stuck for the tests after it)
		text = "u !~ " + lit + " AND t =~ " + lit
	}
	stmt, err := influxql.ParseStatement("SELECT v FROM m WHERE " + text)
	if err == nil {
		// the text form is only used when it really denotes this source (a source ending in a
		// backslash, for instance, swallows the closing slash: `/\\/`)
		cond := stmt.(*influxql.SelectStatement).Condition
		n, same := 0, true
		influxql.WalkFunc(cond, func(node influxql.Node) {
			if rl, ok := node.(*influxql.RegexLiteral); ok {
				n++
				if rl.Val == nil || rl.Val.String() != src {
					same = false
				}
			}
		})
		if same && n == []int{1, 1, 1, 3, 2, 2}[mode%rxModes] {
			return cond, nil
		}
	}
	re, cerr := regexp.Compile(src)
	if cerr != nil {
		return nil, cerr
	}
	// not expressible as text (newline, NUL): build the same tree by hand
	rl := func() influxql.Expr { return &influxql.RegexLiteral{Val: re} }
	v := func(n string) influxql.Expr { return &influxql.VarRef{Val: n} }
	bin := func(op influxql.Token, l, r influxql.Expr) influxql.Expr {
		return &influxql.BinaryExpr{Op: op, LHS: l, RHS: r}
	}
	par := func(e influxql.Expr) influxql.Expr { return &influxql.ParenExpr{Expr: e} }
	switch mode {
	case 0:
		return bin(influxql.EQREGEX, v("t"), rl()), nil
	case 1:
		return bin(influxql.NEQREGEX, v("t"), rl()), nil
	case 2:
		return par(bin(influxql.NEQREGEX, v("t"), rl())), nil
	case 3:
		return bin(influxql.AND,
			bin(influxql.AND, bin(influxql.EQ, v("a"), &influxql.StringLiteral{Val: "x"}),
				par(bin(influxql.OR, bin(influxql.NEQREGEX, v("t"), rl()),
					&influxql.Call{Name: "f", Args: []influxql.Expr{bin(influxql.EQREGEX, v("t"), rl())}}))),
			par(par(bin(influxql.EQREGEX, v("t"), rl())))), nil
	case 4:
		return bin(influxql.OR, bin(influxql.EQREGEX, v("t"), rl()),
			bin(influxql.AND, bin(influxql.NEQREGEX, v("u"), rl()), bin(influxql.EQ, v("t"), &influxql.StringLiteral{Val: "ab"}))), nil
	default:
		return bin(influxql.AND, bin(influxql.NEQREGEX, v("u"), rl()), bin(influxql.EQREGEX, v("t"), rl())), nil
	}
}

func rxRewrite(cond influxql.Expr) influxql.Expr {
	s := &influxql.SelectStatement{Condition: cond}
	s.RewriteRegexConditions()
	return s.Condition
}

func implRegexMatch(args []string) string {
	if len(args) != 3 {
		return "bad-args"
	}
	mode, err1 := decInt(args[0])
	src, err2 := decStr(args[1])
	if err1 != nil || err2 != nil {
		return "bad-args"
	}
	if args[2] == "err" {
		return "err"
	}
	cond, err := rxCondition(int(mode), src)
	if err != nil {
		return "err"
	}
	return sexpExpr(rxRewrite(cond))
}

// rxLiterals reads the literal list off the rewritten form of `t =~ /src/` (nil, false when
// the regex was left in place).
func rxLiterals(src string) ([]string, bool) {
	cond, err := rxCondition(0, src)
	if err != nil {
		return nil, false
	}
	var lits []string
	ok := true
	var walk func(e influxql.Expr)
	walk = func(e influxql.Expr) {
		be, isBin := e.(*influxql.BinaryExpr)
		if !isBin {
			ok = false
			return
		}
		switch be.Op {
		case influxql.OR:
			walk(be.LHS)
			walk(be.RHS)
		case influxql.EQ:
			sl, isStr := be.RHS.(*influxql.StringLiteral)
			if !isStr {
				ok = false
				return
			}
			lits = append(lits, sl.Val)
		default:
			ok = false
		}
	}
	walk(rxRewrite(cond))
	if !ok {
		return nil, false
	}
	return lits, true
}

// ---- candidate strings ----

// rxAlphabet: up to max runes that occur in the tree (literal runes, class bounds; Unicode
// scalars other than newline), the other case of a letter when case folding is in play, then a
// rune foreign to the expression and newline.
func rxAlphabet(re *syntax.Regexp, max int, wordForeign bool) []rune {
	seen := map[rune]bool{}
	var out []rune
	add := func(r rune) {
		if !utf8.ValidRune(r) || r == '\n' || seen[r] || len(out) >= max {
			return
		}
		seen[r] = true
		out = append(out, r)
	}
	fold := false
	walkTree(re, func(n *syntax.Regexp) {
		if n.Flags&syntax.FoldCase != 0 {
			fold = true
		}
	})
	walkTree(re, func(n *syntax.Regexp) {
		if n.Op == syntax.OpLiteral || n.Op == syntax.OpCharClass {
			for _, r := range n.Rune {
				add(r)
				if fold && r < 0x80 {
					if r >= 'a' && r <= 'z' {
						add(r - 32)
					} else if r >= 'A' && r <= 'Z' {
						add(r + 32)
					}
				}
				if r >= 0x80 {
					// the other members of the rune's case-folding orbit (Ⅳ/ⅳ, Ⓐ/ⓐ, σ/ς/Σ …): runes that
					// are no letters have case pairs too (round-3 seeded change C11-3)
					for f := unicode.SimpleFold(r); f != r; f = unicode.SimpleFold(f) {
						add(f)
					}
				}
			}
		}
	})
	foreign := []rune{'!', '#', '%', '@', '&', '~'}
	if wordForeign {
		foreign = []rune{'Z', 'Q', 'J', 'V', 'W', 'q'}
	}
	all := map[rune]bool{}
	walkTree(re, func(n *syntax.Regexp) {
		for _, r := range n.Rune {
			all[r] = true
			all[r^0x20] = true
		}
	})
	for _, f := range foreign {
		if !all[f] && !seen[f] {
			out = append(out, f)
			seen[f] = true
			break
		}
	}
	out = append(out, '\n')
	return out
}

func rxEnumerate(alpha []rune, bound int) []string {
	out := []string{""}
	prev := []string{""}
	for l := 1; l <= bound; l++ {
		var cur []string
		for _, p := range prev {
			for _, a := range alpha {
				cur = append(cur, p+string(a))
			}
		}
		out = append(out, cur...)
		prev = cur
	}
	return out
}

func bitsHex(bits []bool) string {
	var b strings.Builder
	for i := 0; i < len(bits); i += 4 {
		v := 0
		for j := 0; j < 4; j++ {
			v <<= 1
			if i+j < len(bits) && bits[i+j] {
				v |= 1
			}
		}
		b.WriteByte("0123456789abcdef"[v])
	}
	return b.String()
}

func implRegexSem(args []string) string {
	if len(args) != 4 {
		return "bad-args"
	}
	src, err1 := decStr(args[0])
	alpha, err2 := decStr(args[2])
	bound, err3 := decInt(args[3])
	if err1 != nil || err2 != nil || err3 != nil {
		return "bad-args"
	}
	if args[1] == "err" {
		return "err"
	}
	tree, err := parseSimplify(src)
	if err != nil {
		return "err"
	}
	if !rxSupported(tree) {
		return "skip-unsupported"
	}
	re, err := regexp.Compile(src)
	if err != nil {
		return "err"
	}
	full, err := regexp.Compile(`\A(?:` + src + `)\z`)
	if err != nil {
		return "skip-oracle-call"
	}
	ar := []rune(alpha)
	strs := rxEnumerate(ar, int(bound))
	sb := make([]bool, len(strs))
	fb := make([]bool, len(strs))
	bb := make([]bool, len(strs))
	// third vector: the same strings with the last-but-one rune of the alphabet (the foreign
	// rune) written as the stray byte 0xff, which the model reads as U+FFFD
	stray := ""
	if len(ar) >= 2 {
		stray = string(ar[len(ar)-2])
	}
	for i, s := range strs {
		sb[i] = re.MatchString(s)
		fb[i] = full.MatchString(s)
		if stray != "" {
			bb[i] = re.MatchString(strings.Replace(s, stray, "\xff", -1))
		}
	}
	return fmt.Sprintf("n%d S%s F%s B%s", len(strs), bitsHex(sb), bitsHex(fb), bitsHex(bb))
}

// ---- property oracle ----

// propRegexMatch: the condition before and after the rewrite gives the same EvalBool for every
// candidate value of the tag (strings up to length 3 over the alphabet of the expression, a
// foreign rune and newline; the substituted literals and near misses; not valid UTF-8; absent;
// values of other types), and the substituted literals are exactly the strings MatchString accepts.
func propRegexMatch(args []string) string {
	if len(args) != 3 || args[2] == "err" {
		return "skip"
	}
	mode, err1 := decInt(args[0])
	src, err2 := decStr(args[1])
	if err1 != nil || err2 != nil {
		return "skip"
	}
	tree, err := parseSimplify(src)
	if err != nil {
		return "skip"
	}
	re, err := regexp.Compile(src)
	if err != nil {
		return "skip"
	}
	before, err := rxCondition(int(mode), src)
	if err != nil {
		return "skip"
	}
	c2, _ := rxCondition(int(mode), src)
	after := rxRewrite(c2)

	cands := rxEnumerate(rxAlphabet(tree, 4, len(src)%2 == 0), 3)
	lits, rewritten := rxLiterals(src)
	if len(lits) > 0 {
		step := 1
		if len(lits) > 12 {
			step = len(lits) / 12
		}
		for i := 0; i < len(lits); i += step {
			l := lits[i]
			cands = append(cands, l, l+"!", "Z"+l, l+"\n", "\n"+l, l+"\xff", strings.ToUpper(l), strings.ToLower(l), foldNext(l), l+l)
			if len(l) > 0 {
				_, w := utf8.DecodeLastRuneInString(l)
				cands = append(cands, l[:len(l)-w], l[:len(l)-1], l[:len(l)-w]+"\xff")
			}
		}
	}
	cands = append(cands, "\xff", "\xed\xa0\x80", "�", "x\nfoo", "foo\n")

	if rewritten {
		in := map[string]bool{}
		for _, l := range lits {
			in[l] = true
		}
		if len(lits) > 100 {
			return fmt.Sprintf("%d literals substituted", len(lits))
		}
		for _, s := range cands {
			if re.MatchString(s) != in[s] {
				return fmt.Sprintf("MatchString(%q)=%v but literal set membership=%v", s, re.MatchString(s), in[s])
			}
		}
	}
	check := func(m map[string]interface{}, what string) string {
		b0 := influxql.EvalBool(before, m)
		b1 := influxql.EvalBool(after, m)
		if b0 != b1 {
			return fmt.Sprintf("%s: before=%v after=%v (%s)", what, b0, b1, after.String())
		}
		return ""
	}
	others := []interface{}{"ab", "", nil, int64(5), true, 1.5}
	for _, s := range cands {
		for _, u := range []interface{}{s, "ab", nil} {
			m := map[string]interface{}{"t": s, "a": "x"}
			if u != nil {
				m["u"] = u
			}
			if d := check(m, fmt.Sprintf("t=%q u=%v", s, u)); d != "" {
				return d
			}
			if mode < 4 {
				break
			}
		}
	}
	for _, tv := range others[2:] {
		for _, uv := range others {
			m := map[string]interface{}{"a": "x"}
			if tv != nil {
				m["t"] = tv
			}
			if uv != nil {
				m["u"] = uv
			}
			if d := check(m, fmt.Sprintf("t=%v u=%v", tv, uv)); d != "" {
				return d
			}
		}
	}
	return ""
}

// propRegexSem: Go-side sanity of the validation stream itself: a full match implies a search
// match, and the anchored wrapper agrees with FindStringIndex spanning the whole string.
func propRegexSem(args []string) string {
	if len(args) != 4 || args[1] == "err" {
		return "skip"
	}
	src, _ := decStr(args[0])
	alpha, _ := decStr(args[2])
	bound, _ := decInt(args[3])
	re, err := regexp.Compile(src)
	if err != nil {
		return "skip"
	}
	full, err := regexp.Compile(`\A(?:` + src + `)\z`)
	if err != nil {
		return "skip"
	}
	for _, s := range rxEnumerate([]rune(alpha), int(bound)) {
		if full.MatchString(s) && !re.MatchString(s) {
			return fmt.Sprintf("full match without search match on %q", s)
		}
	}
	return ""
}

// ---- generator ----

var rxCorners = []string{
	`^foo$`, `^$`, `^(foo|bar)$`, `foo`, `^foo`, `foo$`, `^foo|bar$`, `^(?:foo|bar)$`, `^(foo|bar)baz$`,
	`^a(b|c)d$`, `^[abc]$`, `^[a-c][x-z]$`, `^(a|b)(c|d)$`, `^((a|b)c|d)$`, `^(a|)$`, `^(|a)$`, `^(a||b)$`,
	`(?m)^foo$`, `(?m:^foo$)`, `^foo(?m)$`, `(?m)^foo(?-m)$`, `(?i)^foo$`, `(?i)^Ⅳ$`, `(?i)^(Ⓐ|12)$`, `^[Ⅳⅳ]$`, `^(Ⅳ|ⅳ)-12$`, `(?i)^10\.0\.0\.1$`, `(?i)^1$`, `(?i)^ǅ$`, `^(?i)foo$`, `^(?i:foo)$`, `^f(?i)oo$`, `^(?i:1)$`,
	`^[Aa]$`, `^[Kk]$`, `^[Ss]$`, `(?i)^k$`, `(?i)^s$`, `(?s)^a.b$`, `^a.b$`, `(?U)^a+$`, `^a+$`, `^a*$`, `^a?$`, `^ab?$`, `^a{2}$`, `^a{2,3}$`,
	`^a{0}$`, `^(a|b){2}$`, `^(ab){1,2}$`, `^a{2,}$`, `^\Afoo\z$`, `\Afoo\z`, `^^foo$$`, `^foo$\n`, `\n^foo$`, `^foo\b$`, `^\bfoo$`, `^foo\B$`,
	`^\Qa.b\E$`, `^a\.b$`, `^a\/b$`, `^a/b$`, `^\x{e9}$`, `^é|e$`, `^(é|e)$`, `^\x{10FFFF}$`, `^[\x{10FFFE}-\x{10FFFF}]$`,
	`^[^\x00-\x{10FFFF}]$`, `^[^\s\S]$`, `^a[^\s\S]$`, `^(b|a[^\s\S])$`, `^[^\s\S]a$`,
	`^\x{D800}$`, `^(\x{D800})$`, `^[\x{D800}-\x{D810}]$`, `^(\x{D800}|b)$`, `^a\x{DFFF}$`, `^[\x{D7FF}-\x{E000}]$`, `^[\x{D7FE}-\x{D7FF}]$`, `^[\x{E000}-\x{E001}]$`,
	`^\x{FFFD}$`, `^[\x{FFFD}a]$`, `^(a|\x{FFFD})$`, `^[\x{FFFC}-\x{FFFE}]$`, `^a\x{FFFD}b$`,
	`^\d$`, `^\d\d$`, `^\d\d\d$`, `^\w$`, `^[a-z]$`, `^[a-zA-Z]$`, `^[a-z][0-9]$`, `^\pL$`, `^[[:alpha:]]$`, `^\s$`, `^[^a]$`, `^.$`,
	`^()$`, `^(?:)$`, `^(a)(b)$`, `^((a))$`, `^(?P<n>a|b)$`, `^(a|b|c|d)$`, `^(a|b)c(d|e)$`, `^x(a|b)$`, `^(a|b)x$`, `^x(a|b)y$`,
	`^(ab|ac)$`, `^(ab|cd|ef)$`, `^(a|bc|d)$`, `^a|^b`, `^a$|^b$`, `(^a$)`, `(^a)$`, `^(a$)`, `^(?:a$)`, `(?:^a)$`, `^a$b`, `a^b$`, `^\$$`, `^\^$`,
	`^ $`, `^a b$`, `^\t$`, `^\n$`, `^a\nb$`, `^[\n]$`, `^(a|\n)$`, "^a\nb$", "^a\x00b$", `^\x00$`, `^'$`, `^a'b$`, `^"$`, `^\\$`, `\\`, `^a\\`, `^(a|\\)$`,
}

// rxLimitCorners: shapes around the limit of 100 literals.
func rxLimitCorners() []string {
	var out []string
	alts := func(n int, suffix string) string {
		var parts []string
		for i := 0; i < n; i++ {
			parts = append(parts, fmt.Sprintf(`\x{%x}%s`, 0x100+i, suffix))
		}
		return strings.Join(parts, "|")
	}
	for _, n := range []int{99, 100, 101, 150} {
		out = append(out, "^("+alts(n, "z")+")$", "^(?:"+alts(n, "zz")+")$", "^("+alts(n, "")+")$", "^("+alts(n, "z")+")q$", "^q("+alts(n, "z")+")$")
		out = append(out, fmt.Sprintf(`^[\x{100}-\x{%x}]$`, 0x100+n-1), fmt.Sprintf(`^a[\x{100}-\x{%x}]b$`, 0x100+n-1), fmt.Sprintf(`^([\x{100}-\x{%x}]|a)$`, 0x100+n-1))
	}
	out = append(out, "^("+alts(50, "z")+")("+alts(2, "y")+")$", "^("+alts(51, "z")+")("+alts(2, "y")+")$", "^("+alts(2, "y")+")("+alts(50, "z")+")$", "^("+alts(2, "y")+")("+alts(51, "z")+")$")
	out = append(out, "^("+alts(50, "z")+"|"+alts(51, "y")+")$", "^(("+alts(50, "z")+")|("+alts(50, "y")+"))$", "^(("+alts(50, "z")+")|("+alts(50, "y")+")|w)$")
	for _, p := range [][2]string{{"a-j", "a-j"}, {"a-j", "a-k"}, {"a-k", "a-j"}, {"a-y", "a-d"}, {"a-z", "a-d"}, {"a-d", "a-z"}, {"a-e", "a-t"}, {"a-e", "a-u"}} {
		out = append(out, "^["+p[0]+"]["+p[1]+"]$", "^(["+p[0]+"]["+p[1]+"])x$", "^x["+p[0]+"]["+p[1]+"]$", "^["+p[0]+"]x["+p[1]+"]$")
	}
	out = append(out, `^[a-j][a-j]a$`, `^[a-j][a-j][ab]$`, `^[ab][a-j][a-j]$`, `^[a-d][a-e][a-e]$`, `^[a-d][a-e][a-f]$`, `^[a-e][a-e][a-d]$`,
		`^(a|b)(c|d)(e|f)(g|h)(i|j)(k|l)$`, `^(a|b)(c|d)(e|f)(g|h)(i|j)(k|l)(m|n)$`, `^(aa|bb)(cc|dd)(ee|ff)(gg|hh)(ii|jj)(kk|ll)(mm|nn)$`,
		`^[a-j]{2}$`, `^[a-k]{2}$`, `^[a-d]{3}$`, `^[a-e]{3}$`, `^(a|b){6}$`, `^(a|b){7}$`, `^[ab]{1,2}$`,
		`^\d\d$`, `^\d{2}$`, `^[0-9][0-9]x$`, `^x[0-9][0-9]$`, `^[0-9]x[0-9]$`, `^[0-9]{3}$`)
	return out
}

// foldNext replaces every rune by the next member of its case-folding orbit.
func foldNext(s string) string {
	rs := []rune(s)
	for i, r := range rs {
		rs[i] = unicode.SimpleFold(r)
	}
	return string(rs)
}

type rxGen struct {
	r *rand.Rand
}

var rxLits = []string{"a", "b", "c", "x", "y", "ab", "foo", "bar", "1", "_", " ", "é", "K", "k", "s", "S", "A", "z", "0", "-", "a1", "ba", "Ⅳ", "ⅳ", "Ⓐ", "12", "rack-Ⅳ", "ǅ", "σ", "İ"}
var rxEsc = []string{`\.`, `\/`, `\\`, `\$`, `\^`, `\|`, `\(`, `\)`, `\[`, `\*`, `\+`, `\?`, `\{`, `\n`, `\t`, `\x41`, `\x{e9}`, `\x{212a}`, `\x{17f}`, `\x{10000}`, `\Qa|b\E`, `\Q.\E`, `\-`, `\x{FFFD}`, `\x{D800}`, `\x{DFFF}`, `\101`, `/`, `'`, `"`}
var rxClasses = []string{`[abc]`, `[a-c]`, `[ab]`, `[a-b]`, `[^a]`, `[^\s\S]`, `\d`, `\w`, `\s`, `\D`, `[[:digit:]]`, `[x-z]`, `[a-cx-z]`, `[aA]`, `[kK]`, `[a\n]`, `[^\n]`, `[a-ce-g]`, `[ac]`, `.`, `[\x{e8}-\x{ea}]`, `[0-1]`, `[01]`, `[a-z]`, `[\d]`, `[a\-c]`, `[]a]`, `[\x{FFFC}-\x{FFFD}]`, `[\x{D7FF}\x{E000}]`, `[\x{D7FF}-\x{D800}]`, `[é]`, `[_1]`}
var rxAnchors = []string{`^`, `$`, `\A`, `\z`, `\b`, `\B`, `(?m)^`, `(?m)$`, `(?m:^)`, `(?m:$)`}
var rxFlags = []string{`(?i)`, `(?m)`, `(?s)`, `(?U)`, `(?-i)`, `(?-m)`, `(?im)`, `(?i-s)`, `(?-U)`}
var rxReps = []string{`*`, `+`, `?`, `{2}`, `{1,2}`, `{0}`, `{0,1}`, `{2,}`, `{1}`, `{3}`, `*?`, `+?`, `??`, `{1,2}?`, `{0,2}`}

func (g *rxGen) pick(xs []string) string { return xs[g.r.Intn(len(xs))] }

// atom: one repeatable item.
func (g *rxGen) atom(depth int) string {
	k := g.r.Intn(100)
	switch {
	case k < 40:
		return g.pick(rxLits)
	case k < 48:
		return g.pick(rxEsc)
	case k < 63:
		return g.pick(rxClasses)
	case k < 90 && depth > 0:
		inner := g.alt(depth - 1)
		switch g.r.Intn(10) {
		case 0, 1, 2:
			return "(?:" + inner + ")"
		case 3:
			return "(?P<n" + strconv.Itoa(g.r.Intn(9)) + ">" + inner + ")"
		case 4:
			return "(?i:" + inner + ")"
		case 5:
			if g.r.Intn(2) == 0 {
				return "(?m:" + inner + ")"
			}
			return "(?s:" + inner + ")"
		default:
			return "(" + inner + ")"
		}
	default:
		return g.pick(rxLits)
	}
}

func (g *rxGen) item(depth int) string {
	k := g.r.Intn(100)
	switch {
	case k < 6:
		return g.pick(rxAnchors)
	case k < 10:
		return g.pick(rxFlags)
	}
	a := g.atom(depth)
	if g.r.Intn(100) < 12 {
		// a multi-rune literal binds the repetition to its last rune only, as in Go
		a += g.pick(rxReps)
	}
	return a
}

func (g *rxGen) concat(depth int) string {
	n := 1 + g.r.Intn(3)
	if g.r.Intn(12) == 0 {
		n = 0
	}
	var b strings.Builder
	for i := 0; i < n; i++ {
		b.WriteString(g.item(depth))
	}
	return b.String()
}

func (g *rxGen) alt(depth int) string {
	n := 1
	switch k := g.r.Intn(10); {
	case k < 5:
		n = 1
	case k < 8:
		n = 2
	default:
		n = 3 + g.r.Intn(3)
	}
	parts := make([]string, n)
	for i := range parts {
		parts[i] = g.concat(depth)
	}
	return strings.Join(parts, "|")
}

func (g *rxGen) regex() string {
	body := g.alt(2 + g.r.Intn(2))
	k := g.r.Intn(100)
	pre, post := "^", "$"
	switch {
	case k < 60:
	case k < 65:
		pre, post = `\A`, `\z`
	case k < 69:
		pre, post = "^", `\z`
	case k < 73:
		pre, post = "(?m)^", "$"
	case k < 76:
		pre, post = "^", "(?m)$"
	case k < 79:
		pre, post = "(?i)^", "$"
	case k < 82:
		pre, post = "^(?i)", "$"
	case k < 85:
		pre, post = "^", ""
	case k < 88:
		pre, post = "", "$"
	case k < 91:
		pre, post = "^(", ")$"
	case k < 93:
		pre, post = "(^", "$)"
	case k < 95:
		pre, post = "^(?:", ")$"
	default:
		pre, post = "", ""
	}
	return pre + body + post
}

// rxProduct: concatenations of classes / alternations whose sizes multiply to about 100.
func (g *rxGen) product() string {
	var b strings.Builder
	b.WriteString("^")
	n := 2 + g.r.Intn(3)
	for i := 0; i < n; i++ {
		sz := 1 + g.r.Intn(12)
		if g.r.Intn(4) == 0 {
			sz = []int{1, 2, 10, 50, 100, 101, 25, 4, 5, 20, 33, 34}[g.r.Intn(12)]
		}
		base := []int{'a', 'A', 0x100, '0', 0x400}[g.r.Intn(5)]
		if sz > 26 && base < 0x100 || base == '0' && sz > 10 {
			base = 0x100
		}
		switch g.r.Intn(4) {
		case 0:
			var parts []string
			for j := 0; j < sz; j++ {
				parts = append(parts, fmt.Sprintf(`\x{%x}w`, base+j))
			}
			open := "("
			if g.r.Intn(2) == 0 {
				open = "(?:"
			}
			b.WriteString(open + strings.Join(parts, "|") + ")")
		case 1:
			b.WriteString(g.pick(rxLits))
		default:
			if sz == 1 {
				fmt.Fprintf(&b, `\x{%x}`, base)
			} else {
				fmt.Fprintf(&b, `[\x{%x}-\x{%x}]`, base, base+sz-1)
			}
		}
	}
	b.WriteString("$")
	return b.String()
}

func genRegexMatch(r *rand.Rand, n int, emit func(args ...string)) {
	e := func(mode int, src string) { emit(encInt(int64(mode)), encStr(src), treeArg(src)) }
	for _, src := range rxCorners {
		for m := 0; m < rxModes; m++ {
			e(m, src)
		}
	}
	for _, src := range rxLimitCorners() {
		e(0, src)
		e(1, src)
	}
	g := &rxGen{r}
	for i := 0; i < n; i++ {
		var src string
		switch k := r.Intn(20); {
		case k < 3:
			src = g.product()
		case k == 3:
			src = rxCorners[r.Intn(len(rxCorners))]
		default:
			src = g.regex()
		}
		mode := 0
		if r.Intn(3) == 0 {
			mode = r.Intn(rxModes)
		}
		e(mode, src)
	}
}

func genRegexSem(r *rand.Rand, n int, emit func(args ...string)) {
	e := func(src string, wordForeign bool) {
		tree, err := parseSimplify(src)
		if err != nil {
			emit(encStr(src), "err", "s:", "i:0")
			return
		}
		if _, err := regexp.Compile(src); err != nil {
			emit(encStr(src), "err", "s:", "i:0")
			return
		}
		alpha := rxAlphabet(tree, 4, wordForeign)
		bound := 3
		if len(alpha) <= 4 {
			bound = 4
		}
		emit(encStr(src), encRegexTree(tree), encRunes(alpha), encInt(int64(bound)))
	}
	for _, src := range rxCorners {
		e(src, false)
		e(src, true)
	}
	lc := rxLimitCorners()
	for i := 0; i < len(lc); i += 7 {
		e(lc[i], false)
	}
	g := &rxGen{r}
	for i := 0; i < n; i++ {
		src := g.regex()
		if r.Intn(25) == 0 {
			src = g.product()
		}
		e(src, r.Intn(2) == 0)
	}
}

func rxClass(args []string, out string) string {
	switch {
	case out == "err":
		return "syntax-error"
	case strings.HasPrefix(out, "skip"):
		return "skip"
	case strings.HasPrefix(out, "panic"):
		return "panic"
	case len(args) != 3:
		return "bad"
	}
	src, err := decStr(args[1])
	if err != nil {
		return "bad"
	}
	lits, ok := rxLiterals(src)
	if !ok {
		if tree, err := parseSimplify(src); err == nil {
			return "left-as-regex:" + rxWhy(tree)
		}
		return "left-as-regex"
	}
	switch {
	case len(lits) <= 1:
		return "rewritten:1-literal"
	case len(lits) <= 10:
		return "rewritten:2-10-literals"
	case len(lits) < 100:
		return "rewritten:11-99-literals"
	default:
		return "rewritten:100-literals"
	}
}

func init() {
	register(&stream{name: "regex.match", gen: genRegexMatch, impl: implRegexMatch, prop: propRegexMatch,
		class:      rxClass,
		nontrivial: func(args []string, out string) bool { return out != "err" && !strings.HasPrefix(out, "bad") }})
	register(&stream{name: "regex.sem", gen: genRegexSem, impl: implRegexSem, prop: propRegexSem,
		class: func(args []string, out string) string {
			switch {
			case out == "err":
				return "syntax-error"
			case strings.HasPrefix(out, "skip"):
				return out
			}
			i := strings.Index(out, " F")
			j := strings.Index(out, " B")
			if i < 0 || j < i {
				return "other"
			}
			if strings.Trim(out[i+2:j], "0") == "" {
				if strings.Trim(out[strings.Index(out, "S")+1:i], "0") == "" {
					return "matches-nothing-in-range"
				}
				return "search-only"
			}
			return "has-full-matches"
		},
		nontrivial: func(args []string, out string) bool { return strings.HasPrefix(out, "n") }})
}

// rxWhy names the first reason the tree is outside what matchExactRegex accepts (for the
// distribution summary only).
func rxWhy(re *syntax.Regexp) string {
	if re.Op != syntax.OpConcat || len(re.Sub) < 2 || re.Sub[0].Op != syntax.OpBeginText || re.Sub[len(re.Sub)-1].Op != syntax.OpEndText {
		line := false
		walkTree(re, func(n *syntax.Regexp) {
			if n.Op == syntax.OpBeginLine || n.Op == syntax.OpEndLine {
				line = true
			}
		})
		if line {
			return "line-anchor-or-unanchored"
		}
		return "unanchored"
	}
	why := map[string]bool{}
	for _, s := range re.Sub[1 : len(re.Sub)-1] {
		walkTree(s, func(n *syntax.Regexp) {
			switch n.Op {
			case syntax.OpLiteral, syntax.OpCharClass, syntax.OpCapture, syntax.OpConcat, syntax.OpAlternate:
				if n.Flags&syntax.FoldCase != 0 {
					why["foldcase"] = true
				}
			case syntax.OpStar, syntax.OpPlus, syntax.OpQuest, syntax.OpRepeat:
				why["repetition"] = true
			case syntax.OpBeginLine, syntax.OpEndLine, syntax.OpBeginText, syntax.OpEndText, syntax.OpWordBoundary, syntax.OpNoWordBoundary:
				why["inner-anchor"] = true
			default:
				why["other-op"] = true
			}
		})
	}
	if len(why) == 0 {
		return "limit-or-rune"
	}
	var ks []string
	for k := range why {
		ks = append(ks, k)
	}
	sort.Strings(ks)
	return strings.Join(ks, "+")
}

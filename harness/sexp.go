package main

import (
	"fmt"
	"strings"

	"github.com/influxdata/influxql"
)

// Canonical S-expressions of influxql ASTs (mirrored by lean/Oracle/Sexp.lean).

func sexpExpr(e influxql.Expr) string {
	var b strings.Builder
	writeExpr(&b, e)
	return b.String()
}

func writeExpr(b *strings.Builder, e influxql.Expr) {
	switch e := e.(type) {
	case nil:
		b.WriteString("(none)")
	case *influxql.BinaryExpr:
		if e == nil {
			b.WriteString("(none)")
			return
		}
		fmt.Fprintf(b, "(bin %d ", int(e.Op))
		writeExpr(b, e.LHS)
		b.WriteByte(' ')
		writeExpr(b, e.RHS)
		b.WriteByte(')')
	case *influxql.ParenExpr:
		b.WriteString("(paren ")
		writeExpr(b, e.Expr)
		b.WriteByte(')')
	case *influxql.Call:
		b.WriteString("(call " + encStr(e.Name))
		for _, a := range e.Args {
			b.WriteByte(' ')
			writeExpr(b, a)
		}
		b.WriteByte(')')
	case *influxql.VarRef:
		fmt.Fprintf(b, "(ref %s %d)", encStr(e.Val), int(e.Type))
	case *influxql.Distinct:
		b.WriteString("(distinct " + encStr(e.Val) + ")")
	case *influxql.Wildcard:
		fmt.Fprintf(b, "(wild %d)", int(e.Type))
	case *influxql.RegexLiteral:
		if e == nil || e.Val == nil {
			b.WriteString("(none)")
			return
		}
		b.WriteString("(re " + encStr(e.Val.String()) + ")")
	case *influxql.StringLiteral:
		b.WriteString("(str " + encStr(e.Val) + ")")
	case *influxql.NumberLiteral:
		b.WriteString("(num " + encStr(e.String()) + ")")
	case *influxql.IntegerLiteral:
		fmt.Fprintf(b, "(int %d)", e.Val)
	case *influxql.UnsignedLiteral:
		fmt.Fprintf(b, "(uint %d)", e.Val)
	case *influxql.BooleanLiteral:
		fmt.Fprintf(b, "(bool %v)", e.Val)
	case *influxql.DurationLiteral:
		fmt.Fprintf(b, "(dur %d)", int64(e.Val))
	case *influxql.TimeLiteral:
		fmt.Fprintf(b, "(time %d)", e.Val.UnixNano())
	case *influxql.NilLiteral:
		b.WriteString("(nil)")
	case *influxql.ListLiteral:
		b.WriteString("(list")
		for _, v := range e.Vals {
			b.WriteString(" " + encStr(v))
		}
		b.WriteByte(')')
	case *influxql.BoundParameter:
		b.WriteString("(bp " + encStr(e.Name) + ")")
	default:
		fmt.Fprintf(b, "(unknown %T)", e)
	}
}

package main

import (
	"fmt"
	"math"
	"reflect"
	"strings"
	"time"

	"github.com/influxdata/influxql"
)

// Canonical S-expressions of influxql ASTs (mirrored by lean/Oracle/Sexp.lean and SexpStmt.lean).

// ---- statements: a reflective dump of every exported field, in declaration order ----
//
//	struct            (TypeName f1 f2 ...)           pointer to struct: (none) when nil
//	*int, *Duration   (none) | (some v)
//	Expr / Literal    writeExpr (nil: (none))
//	slices            (list e1 e2 ...)               (nil and empty are both "(list)")
//	FillValue         (none) | (int v) | (num <NumberLiteral text>)
//	*time.Location    (none) | (loc <name>)
//	string s:<hex>; bool true/false; integers decimal (Token, Privilege, FillOption, Duration included)

var exprType = reflect.TypeOf((*influxql.Expr)(nil)).Elem()

func sexpStatement(s influxql.Statement) string {
	var b strings.Builder
	writeValue(&b, reflect.ValueOf(s))
	return b.String()
}

func sexpStatements(ss []influxql.Statement) string {
	var b strings.Builder
	b.WriteString("(query")
	for _, s := range ss {
		b.WriteByte(' ')
		writeValue(&b, reflect.ValueOf(s))
	}
	b.WriteByte(')')
	return b.String()
}

func writeValue(b *strings.Builder, v reflect.Value) {
	if !v.IsValid() {
		b.WriteString("(none)")
		return
	}
	t := v.Type()
	// expressions (static interface types Expr / Literal, or concrete expression nodes)
	if t.Implements(exprType) {
		if (t.Kind() == reflect.Interface || t.Kind() == reflect.Ptr) && v.IsNil() {
			b.WriteString("(none)")
			return
		}
		writeExpr(b, v.Interface().(influxql.Expr))
		return
	}
	switch x := v.Interface().(type) {
	case *time.Location:
		if x == nil {
			b.WriteString("(none)")
		} else {
			b.WriteString("(loc " + encStr(x.String()) + ")")
		}
		return
	case time.Duration:
		fmt.Fprintf(b, "%d", int64(x))
		return
	}
	switch t.Kind() {
	case reflect.Interface:
		if v.IsNil() {
			b.WriteString("(none)")
			return
		}
		if t.NumMethod() == 0 { // interface{}: the fill value
			switch x := v.Interface().(type) {
			case int64:
				fmt.Fprintf(b, "(int %d)", x)
			case float64:
				b.WriteString("(num " + numText(x) + ")")
			default:
				fmt.Fprintf(b, "(unknown %T)", x)
			}
			return
		}
		writeValue(b, v.Elem())
	case reflect.Ptr:
		if v.IsNil() {
			b.WriteString("(none)")
			return
		}
		if t.Elem().Kind() == reflect.Struct {
			writeValue(b, v.Elem())
			return
		}
		b.WriteString("(some ")
		writeValue(b, v.Elem())
		b.WriteByte(')')
	case reflect.Struct:
		b.WriteString("(" + t.Name())
		for i := 0; i < t.NumField(); i++ {
			if t.Field(i).PkgPath != "" { // unexported
				continue
			}
			b.WriteByte(' ')
			writeValue(b, v.Field(i))
		}
		b.WriteByte(')')
	case reflect.Slice:
		b.WriteString("(list")
		for i := 0; i < v.Len(); i++ {
			b.WriteByte(' ')
			writeValue(b, v.Index(i))
		}
		b.WriteByte(')')
	case reflect.String:
		b.WriteString(encStr(v.String()))
	case reflect.Bool:
		fmt.Fprintf(b, "%v", v.Bool())
	case reflect.Int, reflect.Int8, reflect.Int16, reflect.Int32, reflect.Int64:
		fmt.Fprintf(b, "%d", v.Int())
	case reflect.Uint, reflect.Uint8, reflect.Uint16, reflect.Uint32, reflect.Uint64:
		fmt.Fprintf(b, "%d", v.Uint())
	default:
		fmt.Fprintf(b, "(unknown %s)", t.String())
	}
}

// sexpStrict makes the dump carry the IEEE bit pattern of every float next to its printed form.
// The property oracles that compare two implementation ASTs switch it on (a printing defect must
// not be able to hide a value difference); the model comparison uses the plain form.
var sexpStrict bool

func strictly(fn func() string) string {
	sexpStrict = true
	defer func() { sexpStrict = false }()
	return fn()
}

func numText(v float64) string {
	t := encStr((&influxql.NumberLiteral{Val: v}).String())
	if sexpStrict {
		t += fmt.Sprintf("#%x", math.Float64bits(v))
	}
	return t
}

func sexpExpr(e influxql.Expr) string {
	var b strings.Builder
	writeExpr(&b, e)
	return b.String()
}

func writeExpr(b *strings.Builder, e influxql.Expr) {
	switch e := e.(type) {
	case nil:
		b.WriteString("(none)")
	case *influxql.BinaryExpr:
		if e == nil {
			b.WriteString("(none)")
			return
		}
		fmt.Fprintf(b, "(bin %d ", int(e.Op))
		writeExpr(b, e.LHS)
		b.WriteByte(' ')
		writeExpr(b, e.RHS)
		b.WriteByte(')')
	case *influxql.ParenExpr:
		b.WriteString("(paren ")
		writeExpr(b, e.Expr)
		b.WriteByte(')')
	case *influxql.Call:
		b.WriteString("(call " + encStr(e.Name))
		for _, a := range e.Args {
			b.WriteByte(' ')
			writeExpr(b, a)
		}
		b.WriteByte(')')
	case *influxql.VarRef:
		fmt.Fprintf(b, "(ref %s %d)", encStr(e.Val), int(e.Type))
	case *influxql.Distinct:
		b.WriteString("(distinct " + encStr(e.Val) + ")")
	case *influxql.Wildcard:
		fmt.Fprintf(b, "(wild %d)", int(e.Type))
	case *influxql.RegexLiteral:
		if e == nil || e.Val == nil {
			b.WriteString("(none)")
			return
		}
		b.WriteString("(re " + encStr(e.Val.String()) + ")")
	case *influxql.StringLiteral:
		b.WriteString("(str " + encStr(e.Val) + ")")
	case *influxql.NumberLiteral:
		b.WriteString("(num " + numText(e.Val) + ")")
	case *influxql.IntegerLiteral:
		fmt.Fprintf(b, "(int %d)", e.Val)
	case *influxql.UnsignedLiteral:
		fmt.Fprintf(b, "(uint %d)", e.Val)
	case *influxql.BooleanLiteral:
		fmt.Fprintf(b, "(bool %v)", e.Val)
	case *influxql.DurationLiteral:
		fmt.Fprintf(b, "(dur %d)", int64(e.Val))
	case *influxql.TimeLiteral:
		fmt.Fprintf(b, "(time %d)", e.Val.UnixNano())
	case *influxql.NilLiteral:
		b.WriteString("(nil)")
	case *influxql.ListLiteral:
		b.WriteString("(list")
		for _, v := range e.Vals {
			b.WriteString(" " + encStr(v))
		}
		b.WriteByte(')')
	case *influxql.BoundParameter:
		b.WriteString("(bp " + encStr(e.Name) + ")")
	default:
		fmt.Fprintf(b, "(unknown %T)", e)
	}
}

package main

import (
	"fmt"
	"math/rand"
	"strconv"
	"strings"

	"github.com/influxdata/influxql"
)

// Stream for C20: SelectStatement.ColumnNames.
//
//	columns.names <omitTime 0|1> s:<timeAlias> <into 0|1> l:<lower table> (s:<field expression text> s:<alias>)*
//
// The statement is built by the real parser from `SELECT <fields> [INTO t] FROM m`; OmitTime and
// TimeAlias are set on the result. The model parses every field text with its expression-parser
// model, so the implementation side only compares cases in which the statement parser produced
// for every field exactly the tree the stand-alone ParseExpr gives for its text.

type colCase struct {
	omitTime  bool
	timeAlias string
	into      bool
	exprs     []string
	aliases   []string
}

func (c *colCase) args() []string {
	flag := func(b bool) string {
		if b {
			return "1"
		}
		return "0"
	}
	out := []string{flag(c.omitTime), encStr(c.timeAlias), flag(c.into), encLower(c.exprs...)}
	for i := range c.exprs {
		out = append(out, encStr(c.exprs[i]), encStr(c.aliases[i]))
	}
	return out
}

func decColCase(args []string) (*colCase, error) {
	if len(args) < 4 || (len(args)-4)%2 != 0 {
		return nil, fmt.Errorf("bad arity")
	}
	c := &colCase{}
	switch args[0] {
	case "0":
	case "1":
		c.omitTime = true
	default:
		return nil, fmt.Errorf("bad flag")
	}
	var err error
	if c.timeAlias, err = decStr(args[1]); err != nil {
		return nil, err
	}
	switch args[2] {
	case "0":
	case "1":
		c.into = true
	default:
		return nil, fmt.Errorf("bad flag")
	}
	for i := 4; i < len(args); i += 2 {
		e, err := decStr(args[i])
		if err != nil {
			return nil, err
		}
		a, err := decStr(args[i+1])
		if err != nil {
			return nil, err
		}
		c.exprs = append(c.exprs, e)
		c.aliases = append(c.aliases, a)
	}
	return c, nil
}

func (c *colCase) text() string {
	var b strings.Builder
	b.WriteString("SELECT ")
	for i := range c.exprs {
		if i > 0 {
			b.WriteString(", ")
		}
		b.WriteString(c.exprs[i])
		if c.aliases[i] != "" {
			b.WriteString(" AS " + influxql.QuoteIdent(c.aliases[i]))
		}
	}
	if c.into {
		b.WriteString(" INTO " + []string{"t", `"db"."rp".t`, `db..t`, `"other db"."rp".:MEASUREMENT`}[len(c.exprs)%4])
	}
	b.WriteString(" FROM m")
	return b.String()
}

// statement parses the case with the real parser and applies the two settings.
func (c *colCase) statement() (*influxql.SelectStatement, error) {
	st, err := influxql.NewParser(strings.NewReader(c.text())).ParseStatement()
	if err != nil {
		return nil, err
	}
	sel, ok := st.(*influxql.SelectStatement)
	if !ok {
		return nil, fmt.Errorf("not a SELECT")
	}
	sel.OmitTime = c.omitTime
	sel.TimeAlias = c.timeAlias
	return sel, nil
}

func implColumnNames(args []string) string {
	c, err := decColCase(args)
	if err != nil {
		return "bad-arg"
	}
	// stand-alone parse of every field text (what the model does)
	alone := make([]influxql.Expr, len(c.exprs))
	for i, t := range c.exprs {
		e, perr := parseExprWith(t, nil)
		if perr != nil {
			if isOracleError(perr) {
				return "skip-oracle-call"
			}
			return "err-parse " + strconv.Itoa(i)
		}
		alone[i] = e
	}
	sel, err := c.statement()
	if err != nil {
		return "skip-statement-rejected " + encStr(err.Error())
	}
	if len(sel.Fields) != len(c.exprs) {
		return "skip-context field-count"
	}
	for i, f := range sel.Fields {
		if f.Alias != c.aliases[i] || sexpExpr(f.Expr) != sexpExpr(alone[i]) {
			return "skip-context field " + strconv.Itoa(i)
		}
	}
	if (sel.Target != nil) != c.into {
		return "skip-context target"
	}
	names := sel.ColumnNames()
	var b strings.Builder
	b.WriteString("ok " + strconv.Itoa(len(names)))
	for _, n := range names {
		b.WriteString(" " + encStr(n))
	}
	return b.String()
}

// ---- property oracle on the implementation (independent of the model) ----

// refBaseName: the documented base name of a field without alias: call name, reference name, the
// names inside an arithmetic expression joined by "_", parentheses transparent, blank otherwise.
func refBaseName(e influxql.Expr) string {
	switch e := e.(type) {
	case *influxql.Call:
		return e.Name
	case *influxql.VarRef:
		return e.Val
	case *influxql.ParenExpr:
		return refBaseName(e.Expr)
	case *influxql.BinaryExpr:
		var parts []string
		var rec func(x influxql.Expr)
		rec = func(x influxql.Expr) {
			switch x := x.(type) {
			case *influxql.BinaryExpr:
				rec(x.LHS)
				rec(x.RHS)
			case *influxql.ParenExpr:
				rec(x.Expr)
			case *influxql.Call:
				parts = append(parts, x.Name)
			case *influxql.VarRef:
				parts = append(parts, x.Val)
			}
		}
		rec(e)
		return strings.Join(parts, "_")
	}
	return ""
}

type refColumn struct {
	alias string
	base  string
}

func refColumns(sel *influxql.SelectStatement) []refColumn {
	var cols []refColumn
	for _, f := range sel.Fields {
		cols = append(cols, refColumn{alias: f.Alias, base: refBaseName(f.Expr)})
		if call, ok := f.Expr.(*influxql.Call); ok && sel.Target == nil && (call.Name == "top" || call.Name == "bottom") {
			for i, a := range call.Args {
				if ref, ok := a.(*influxql.VarRef); ok && i > 0 {
					cols = append(cols, refColumn{base: ref.Val})
				}
			}
		}
	}
	return cols
}

func isSuffixOf(name, base string) bool {
	if !strings.HasPrefix(name, base+"_") {
		return false
	}
	d := name[len(base)+1:]
	if d == "" || (len(d) > 1 && d[0] == '0') {
		return false
	}
	for _, ch := range d {
		if ch < '0' || ch > '9' {
			return false
		}
	}
	return true
}

func propColumnNames(args []string) string {
	c, err := decColCase(args)
	if err != nil {
		return "skip"
	}
	sel, err := c.statement()
	if err != nil {
		return "skip"
	}
	before := sel.String()
	names := sel.ColumnNames()
	again := sel.ColumnNames()
	if strings.Join(names, "\x00") != strings.Join(again, "\x00") || len(names) != len(again) {
		return fmt.Sprintf("%q: two calls give %q and %q", c.text(), names, again)
	}
	if sel.String() != before {
		return fmt.Sprintf("%q: ColumnNames changed the statement to %q", c.text(), sel.String())
	}
	// "a pure function of the statement": the statement is edited after the first call, through exported
	// fields and through the in-place rewrites; the names must then be those of a twin that was edited in
	// the same way without ever having been asked before (round-3 seeded change C20-3 memoised the names on
	// the statement and forgot to drop them on some edits)
	edits := []struct {
		what string
		do   func(s *influxql.SelectStatement)
	}{
		{"OmitTime flipped", func(s *influxql.SelectStatement) { s.OmitTime = !s.OmitTime }},
		{"TimeAlias set", func(s *influxql.SelectStatement) { s.TimeAlias = "t_alias" }},
		{"alias of the last field set", func(s *influxql.SelectStatement) {
			if len(s.Fields) > 0 {
				s.Fields[len(s.Fields)-1].Alias = "edited_alias"
			}
		}},
		{"first field dropped", func(s *influxql.SelectStatement) {
			if len(s.Fields) > 1 {
				s.Fields = s.Fields[1:]
			}
		}},
		{"references renamed in place below the root of every field expression", func(s *influxql.SelectStatement) {
			for _, f := range s.Fields {
				influxql.WalkFunc(f.Expr, func(n influxql.Node) {
					if ref, ok := n.(*influxql.VarRef); ok && n != influxql.Node(f.Expr) {
						ref.Val += "_r"
					}
				})
			}
		}},
		{"calls renamed in place", func(s *influxql.SelectStatement) {
			for _, f := range s.Fields {
				influxql.WalkFunc(f.Expr, func(n influxql.Node) {
					if c, ok := n.(*influxql.Call); ok {
						c.Name += "x"
					}
				})
			}
		}},
		{"RewriteDistinct", func(s *influxql.SelectStatement) { s.RewriteDistinct() }},
		{"RewriteTimeFields", func(s *influxql.SelectStatement) { s.RewriteTimeFields() }},
		{"first field replaced by a call", func(s *influxql.SelectStatement) {
			if len(s.Fields) > 0 {
				s.Fields[0].Expr = &influxql.Call{Name: "edited", Args: []influxql.Expr{&influxql.VarRef{Val: "v"}}}
				s.Fields[0].Alias = ""
			}
		}},
	}
	for _, ed := range edits {
		primed, err1 := c.statement()
		twin, err2 := c.statement()
		if err1 != nil || err2 != nil {
			break
		}
		primed.ColumnNames()
		ed.do(primed)
		ed.do(twin)
		a, b := primed.ColumnNames(), twin.ColumnNames()
		if strings.Join(a, "\x00") != strings.Join(b, "\x00") || len(a) != len(b) {
			return fmt.Sprintf("%q, then %s: a statement whose names were asked before the edit answers %q, one that was never asked %q", c.text(), ed.what, a, b)
		}
	}
	cols := refColumns(sel)
	offset := 1
	if c.omitTime {
		offset = 0
	}
	if len(names) != len(cols)+offset {
		return fmt.Sprintf("%q (omit time %v): %d names %q for %d output columns", c.text(), c.omitTime, len(names), names, len(cols)+offset)
	}
	if !c.omitTime {
		want := "time"
		if c.timeAlias != "" {
			want = c.timeAlias
		}
		if names[0] != want {
			return fmt.Sprintf("%q: first column is %q, want the time column %q", c.text(), names[0], want)
		}
	}
	distinctAliases := true
	seen := map[string]bool{}
	for i, col := range cols {
		n := names[i+offset]
		if col.alias != "" {
			if n != col.alias {
				return fmt.Sprintf("%q: column %d is %q, its alias is %q", c.text(), i, n, col.alias)
			}
			if seen[col.alias] {
				distinctAliases = false
			}
			seen[col.alias] = true
		} else if n != col.base && !isSuffixOf(n, col.base) {
			return fmt.Sprintf("%q: column %d is %q, neither %q nor %q with a numeric suffix", c.text(), i, n, col.base, col.base)
		}
	}
	if distinctAliases {
		at := map[string]int{}
		for i, n := range names[offset:] {
			if j, dup := at[n]; dup {
				return fmt.Sprintf("%q: columns %d and %d are both named %q although the aliases are distinct", c.text(), j, i, n)
			}
			at[n] = i
		}
	}
	return ""
}

// ---- generator ----

var colNamePool = []string{"a", "a", "a", "b", "a_1", "a_2", "a_1_1", "a_b", "mean", "top", "host", "time", "_1", "a_10", "x",
	// names with capitals: they are names of their own ("A" and "a" do not clash), as references and as
	// aliases (round-4 seeded change C20-2 folded case for generated names only)
	"A", "A", "A_1", "A_2", "Mean", "Top", "Host", "a_B"}

func colIdent(r *rand.Rand) string {
	n := pick(r, colNamePool)
	if r.Intn(6) == 0 || influxql.IdentNeedsQuotes(n) {
		return influxql.QuoteIdent(n)
	}
	return n
}

func colFieldText(r *rand.Rand, depth int) string {
	switch r.Intn(20) {
	case 0, 1, 2, 3, 4:
		return colIdent(r)
	case 5, 6:
		return pick(r, []string{"mean", "max", "count", "a", "top", "f"}) + "(" + colIdent(r) + ")"
	case 7, 8:
		// arithmetic: BinaryExprName
		k := 1 + r.Intn(3)
		parts := []string{colArith(r, depth)}
		for i := 0; i < k; i++ {
			parts = append(parts, pick(r, []string{"+", "-", "*", "/", "%", "&", "|", "^"}), colArith(r, depth))
		}
		return strings.Join(parts, " ")
	case 9, 10:
		if depth < 3 {
			return "(" + colFieldText(r, depth+1) + ")"
		}
		return colIdent(r)
	case 11, 12, 13:
		// top / bottom with tag arguments and odd argument lists
		name := pick(r, []string{"top", "bottom", "top", "bottom", "TOP", "Bottom"})
		n := r.Intn(6)
		args := make([]string, n)
		for i := range args {
			switch r.Intn(8) {
			case 0:
				args[i] = strconv.Itoa(r.Intn(5))
			case 1:
				args[i] = colIdent(r) + " + " + colIdent(r)
			case 2:
				args[i] = pick(r, []string{"'x'", "*", "mean(a)", "(host)", "host::tag", "1.5", "/re/"})
			default:
				args[i] = colIdent(r)
			}
		}
		if n > 0 && r.Intn(2) == 0 {
			args[n-1] = strconv.Itoa(1 + r.Intn(4))
		}
		return name + "(" + strings.Join(args, ", ") + ")"
	case 14:
		return pick(r, []string{"1", "'x'", "*", "1.5", "true", "10s", "DISTINCT a", "distinct(a)", "*::tag", "1 + 2", "-a", "- (a)", "-mean(a)", "/re/", "now()"})
	case 15:
		return colIdent(r) + pick(r, []string{"::float", "::integer", "::tag", "::field", "::string"})
	case 16:
		return pick(r, []string{"a.b", `"db"."rp".a`, "a..b", `"é"`, `"Ünï"`, `"a b"`, `"a_1"`, `"a\"b"`, "é"})
	case 17:
		if r.Intn(3) == 0 {
			return randExprText(r, 0, r.Intn(4)) // anything the expression generator can produce
		}
		return colIdent(r)
	default:
		return pick(r, []string{"a", "a", "b", "a_1"})
	}
}

func colArith(r *rand.Rand, depth int) string {
	switch r.Intn(8) {
	case 0:
		return strconv.Itoa(r.Intn(10))
	case 1:
		return pick(r, []string{"mean", "max", "top"}) + "(" + colIdent(r) + ")"
	case 2:
		if depth < 3 {
			return "(" + colArith(r, depth+1) + " " + pick(r, []string{"+", "*", "-"}) + " " + colArith(r, depth+1) + ")"
		}
		return colIdent(r)
	case 3:
		return pick(r, []string{"1.5", "'s'", "10s", "-a", "now()"})
	default:
		return colIdent(r)
	}
}

func colAlias(r *rand.Rand, distinct bool, used map[string]bool) string {
	if r.Intn(3) != 0 {
		return ""
	}
	a := pick(r, append(colNamePool, "a_3", "_2", "__1", "a b", "Time", "é", "a\"b", "select", "1a"))
	if distinct {
		for i := 0; used[a] && i < 8; i++ {
			a = pick(r, colNamePool) + "_" + strconv.Itoa(r.Intn(12))
		}
		if used[a] {
			return ""
		}
		used[a] = true
	}
	return a
}

func genColumnNames(r *rand.Rand, n int, emit func(args ...string)) {
	one := func(omit bool, ta string, into bool, pairs ...string) {
		c := &colCase{omitTime: omit, timeAlias: ta, into: into}
		for i := 0; i+1 < len(pairs); i += 2 {
			c.exprs = append(c.exprs, pairs[i])
			c.aliases = append(c.aliases, pairs[i+1])
		}
		emit(c.args()...)
	}
	// corner cases first
	corpus := [][]string{
		{"a", ""},
		{"a", "", "a", ""},
		{"a", "", "a", "", "a", ""},
		{"a", "", "a", "", "a", "a_1"},
		{"a", "a_1", "a", "", "a", ""},
		{"a", "", "a", "a_1", "a", "a_2", "a", "", "a", ""},
		{"a", "", "a_1", "", "a", "", "a_1", ""},
		{"a", "", "a", "", "a_1", "", "a", ""},
		{"a", "", "a", "", "a_1", "", "a_1", "", "a_1_1", "", "a", ""},
		{"a", "x", "b", "x"},
		{"a", "x", "b", "x", "x", ""},
		{"a", "b", "b", "a"},
		{"1", "", "2", "", "'x'", ""},
		{"1", "_1", "2", "", "3", ""},
		{"*", "", "*", ""},
		{"a + b", "", "a_b", "", "a - b", ""},
		{"a + mean(b) * (c - 2)", "", "(a + b)", "", "((a))", "", "(mean(a))", ""},
		{"mean(a)", "", "mean(b)", "", "mean(c)", "mean_1"},
		{"mean(a) + mean(b)", "", "mean(a + b)", ""},
		{"-a", "", "- (a)", "", "-mean(a)", ""},
		{"top(a, 2)", ""},
		{"top(a, host, 2)", ""},
		{"top(a, host, region, 2)", "", "host", ""},
		{"host", "", "top(a, host, region, 2)", "", "region", "host_1"},
		{"top(a, host, 2)", "t", "bottom(a, host, 2)", "b"},
		{"top()", "", "bottom()", ""},
		{"top(a)", "", "bottom(a)", ""},
		{"top(a, 1 + 2, host)", "", "top(a, mean(a), (host), host::tag, 'x', *, /re/, 3)", ""},
		{"bottom(host, a, a, a)", "", "a", "", "a_1", "a"},
		{"TOP(a, host, 2)", "", "toP(a, host, 2)", ""},
		{"max(a, host, 2)", "", "f(a, host, 2)", ""},
		{"(top(a, host, 2))", "", "top(a, host, 2) + 1", ""},
		{"time", "", "a", ""},
		{"time", "time", "a", "time"},
		{"DISTINCT a", "", "distinct(a)", "", "DISTINCT a", ""},
		{"/re/", "", "/re/", ""},
		{"a::float", "", "a::integer", "", "a::tag", ""},
		{"a.b", "", "\"a.b\"", "", "a..b", ""},
		{"\"a_1\"", "", "a", "", "a", ""},
		{"a", "", "a", "", "a", "", "a", "", "a", "", "a", "", "a", "", "a", "", "a", "", "a", "", "a", "", "a", ""},
		{"a", "a_1", "a", "a_2", "a", "a_3", "a", "a_4", "a", "a_5", "a", "a_6", "a", "a_7", "a", "a_8", "a", "a_9", "a", "a_10", "a", "", "a", "", "a", ""},
		{"a b", ""},
		{"a +", ""},
		{"a", "", "(", ""},
		{"a = 1", ""},
	}
	for _, p := range corpus {
		for _, omit := range []bool{false, true} {
			for _, into := range []bool{false, true} {
				for _, ta := range []string{"", "t", "a"} {
					one(omit, ta, into, p...)
				}
			}
		}
	}
	for i := 0; i < n; i++ {
		c := &colCase{omitTime: r.Intn(3) == 0, into: r.Intn(3) == 0}
		if r.Intn(3) == 0 {
			c.timeAlias = pick(r, []string{"t", "time", "a", "a_1", "Time", "é x"})
		}
		k := 1 + r.Intn(6)
		switch r.Intn(10) {
		case 0:
			k = 10 + r.Intn(40)
		case 1:
			k = 1
		}
		distinct := r.Intn(4) != 0
		used := map[string]bool{}
		for j := 0; j < k; j++ {
			c.exprs = append(c.exprs, colFieldText(r, 0))
			c.aliases = append(c.aliases, colAlias(r, distinct, used))
		}
		emit(c.args()...)
	}
}

func init() {
	register(&stream{name: "columns.names", gen: genColumnNames, impl: implColumnNames, prop: propColumnNames,
		class: func(args []string, out string) string {
			switch {
			case strings.HasPrefix(out, "ok"):
				c, err := decColCase(args)
				if err != nil {
					return "ok"
				}
				sel, err := c.statement()
				if err != nil {
					return "ok"
				}
				cl := "ok"
				if len(refColumns(sel)) > len(sel.Fields) {
					cl += "+tag-columns"
				}
				for i, col := range refColumns(sel) {
					off := 1
					if c.omitTime {
						off = 0
					}
					names := sel.ColumnNames()
					if col.alias == "" && i+off < len(names) && names[i+off] != col.base {
						cl += "+suffixed"
						break
					}
				}
				return cl
			case strings.HasPrefix(out, "skip-statement-rejected"):
				return "skip-statement-rejected"
			case strings.HasPrefix(out, "skip"):
				return "skip-other"
			case strings.HasPrefix(out, "err-parse"):
				return "field-text-does-not-parse"
			case strings.HasPrefix(out, "panic"):
				return "panic"
			}
			return "other"
		},
		nontrivial: func(args []string, out string) bool { return len(args) > 6 && strings.HasPrefix(out, "ok") }})
}

package main

import (
	"math/rand"
	"strings"
)

// Statement kinds: each builder takes the subset of optional clauses as a bit mask.

type stmtKind struct {
	name string
	bits int
	gen  func(g *sgen, mask int) string
}

func (g *sgen) repl() string {
	if g.plain {
		return "1"
	}
	switch x := g.r.Intn(20); {
	case x < 15:
		return pick(g.r, []string{"1", "2", "3", "10", "2147483647", "007"})
	case x < 18:
		g.valid = false
		return pick(g.r, []string{"0", "2147483648", "9223372036854775808", "-1", "1.5", "x", "'1'", "1s"})
	default:
		if g.params {
			g.valid = false
			return "$" + pick(g.r, []string{"n", "f", "p"})
		}
		return "1"
	}
}

func (g *sgen) uintLit() string {
	if g.plain {
		return "1"
	}
	switch x := g.r.Intn(20); {
	case x < 15:
		return pick(g.r, []string{"0", "1", "42", "9223372036854775807", "9223372036854775808", "18446744073709551615", "0042"})
	case x < 18:
		g.valid = false
		return pick(g.r, []string{"18446744073709551616", "-1", "1.5", "x", "'1'", "1s", "99999999999999999999999"})
	default:
		if g.params {
			g.valid = false
			return "$" + pick(g.r, []string{"n", "f", "p"})
		}
		return "7"
	}
}

func (g *sgen) onDb() string { return g.kw("ON") + g.ws() + g.name() }

func (g *sgen) from() string { return g.kw("FROM") + g.ws() + g.sources(false) }

func (g *sgen) where() string { return g.kw("WHERE") + g.ws() + g.cond(0) }

func (g *sgen) groupBy() string { return g.kw("GROUP BY") + g.ws() + g.dims(false) }

func (g *sgen) withKey() string {
	if g.plain {
		return "WITH KEY = host"
	}
	var rest string
	switch x := g.r.Intn(16); {
	case x < 5:
		rest = pick(g.r, []string{"=", "!=", "<>"}) + g.ows() + g.name()
	case x < 9:
		rest = pick(g.r, []string{"=~", "!~"}) + g.ows() + g.regex()
	case x < 14:
		n := 1 + g.r.Intn(3)
		var ks []string
		for i := 0; i < n; i++ {
			ks = append(ks, g.name())
		}
		rest = g.kw("IN") + g.ows() + "(" + g.ows() + strings.Join(ks, g.ows()+","+g.ows()) + g.ows() + ")"
	default:
		g.valid = false
		rest = pick(g.r, []string{"IN ()", "IN (a,)", "IN a", "= 'host'", "=~ host", "> host", "", "= ", "IN (a b)", "=~ 'x'"})
	}
	return g.kw("WITH KEY") + g.ws() + rest
}

// tail assembles the optional clauses selected by mask from the given builders.
func (g *sgen) tail(head string, mask int, clauses ...func() string) string {
	parts := []string{head}
	for i, c := range clauses {
		if bit(mask, i) {
			parts = append(parts, c())
		}
	}
	return g.join(parts...)
}

func lim(g *sgen, k string) func() string { return func() string { return g.limitClause(k) } }

func cardinality(kind string) stmtKind {
	// 0 EXACT, 1 ON, 2 FROM, 3 WHERE, 4 GROUP BY, 5 LIMIT, 6 OFFSET
	return stmtKind{"show " + strings.ToLower(kind) + " cardinality", 7, func(g *sgen, mask int) string {
		head := g.kw("SHOW " + kind)
		if bit(mask, 0) {
			head += g.ws() + g.kw("EXACT")
		}
		head += g.ws() + g.kw("CARDINALITY")
		return g.tail(head, mask>>1, g.onDb, g.from, g.where, g.groupBy, lim(g, "LIMIT"), lim(g, "OFFSET"))
	}}
}

func simple(text string) stmtKind {
	return stmtKind{strings.ToLower(text), 0, func(g *sgen, mask int) string { return g.kw(text) }}
}

func withName(text string) stmtKind {
	return stmtKind{strings.ToLower(text), 0, func(g *sgen, mask int) string { return g.join(g.kw(text), g.name()) }}
}

func (g *sgen) privilege(admin bool) string {
	if admin {
		return g.kw(pick(g.r, []string{"ALL", "ALL PRIVILEGES"}))
	}
	return g.kw(pick(g.r, []string{"READ", "WRITE", "ALL", "ALL PRIVILEGES"}))
}

var cqDurations = []string{"10s", "1m", "5m", "10m", "1h", "1d"}

func (g *sgen) cqSelect(mask int) string {
	// a continuous query needs INTO and, when it aggregates, GROUP BY time(<non-zero>)
	agg := g.r.Intn(4) != 0
	var fs string
	if agg {
		fs = randCase(g.r, pick(g.r, funcPool)) + "(" + g.ref() + ")"
		if g.chance(4) {
			fs += g.ws() + g.kw("AS") + g.ws() + g.name()
		}
	} else {
		fs = g.ref()
	}
	parts := []string{g.kw("SELECT") + g.ws() + fs, g.target(), g.kw("FROM") + g.ws() + g.sources(true)}
	if bit(mask, 0) {
		parts = append(parts, g.where())
	}
	if agg {
		d := g.kw("time") + "(" + pick(g.r, cqDurations) + ")"
		if g.chance(3) {
			// an offset as second argument: a duration, now(), a time string, a negative duration (round-5 seeded
			// change C01-2: GroupByInterval, which the continuous-query parser asks, started to validate the offset)
			d = g.kw("time") + "(" + pick(g.r, cqDurations) + g.ows() + "," + g.ows() + pick(g.r, []string{"30s", "now()", "-30s", "'2000-01-01T00:00:00Z'", "1m"}) + ")"
		}
		if g.chance(3) {
			d += g.ows() + "," + g.ows() + g.ref()
		}
		if g.chance(12) {
			g.valid = false
			d = pick(g.r, []string{"host", "time(0s)", "time()", "time(5)", "time(1m, 2m, 3m)", "*"})
		}
		parts = append(parts, g.kw("GROUP BY")+g.ws()+d)
	} else if bit(mask, 1) {
		parts = append(parts, g.kw("GROUP BY")+g.ws()+g.ref())
	}
	if bit(mask, 2) {
		parts = append(parts, g.fill())
	}
	return g.join(parts...)
}

var stmtKinds []stmtKind

func init() {
	stmtKinds = []stmtKind{
		{"select", 10, func(g *sgen, mask int) string { return g.selectStmt(mask, false) }},
		{"delete", 2, func(g *sgen, mask int) string {
			if mask == 0 {
				g.valid = false
			}
			g.noDB = true
			return g.tail(g.kw("DELETE"), mask, g.from, g.where)
		}},
		{"drop series", 2, func(g *sgen, mask int) string {
			if mask == 0 {
				g.valid = false
			}
			g.noDB, g.noRP = true, true
			return g.tail(g.kw("DROP SERIES"), mask, g.from, g.where)
		}},
		simple("SHOW CONTINUOUS QUERIES"), simple("SHOW DATABASES"), simple("SHOW QUERIES"), simple("SHOW SHARD GROUPS"),
		simple("SHOW SHARDS"), simple("SHOW SUBSCRIPTIONS"), simple("SHOW USERS"),
		{"show diagnostics", 1, func(g *sgen, mask int) string {
			return g.tail(g.kw("SHOW DIAGNOSTICS"), mask, func() string { return g.kw("FOR") + g.ws() + g.str() })
		}},
		{"show stats", 1, func(g *sgen, mask int) string {
			return g.tail(g.kw("SHOW STATS"), mask, func() string { return g.kw("FOR") + g.ws() + g.str() })
		}},
		cardinality("FIELD KEY"), cardinality("MEASUREMENT"), cardinality("SERIES"), cardinality("TAG KEY"),
		{"show tag values cardinality", 7, func(g *sgen, mask int) string {
			head := g.kw("SHOW TAG VALUES")
			if bit(mask, 0) {
				head += g.ws() + g.kw("EXACT")
			}
			head += g.ws() + g.kw("CARDINALITY")
			m := mask >> 1
			// ON, FROM, (WITH KEY), WHERE, GROUP BY, LIMIT, OFFSET
			return g.tail(head, (m&3)|4|((m>>2)<<3), g.onDb, g.from, g.withKey, g.where, g.groupBy, lim(g, "LIMIT"), lim(g, "OFFSET"))
		}},
		{"show field keys", 5, func(g *sgen, mask int) string {
			return g.tail(g.kw("SHOW FIELD KEYS"), mask, g.onDb, g.from, g.orderBy, lim(g, "LIMIT"), lim(g, "OFFSET"))
		}},
		withName("SHOW GRANTS FOR"),
		{"show measurements", 6, func(g *sgen, mask int) string {
			on := func() string {
				if g.plain {
					return "ON db0"
				}
				star := func() string {
					if g.r.Intn(3) == 0 {
						return "*"
					}
					return g.name()
				}
				s := g.kw("ON") + g.ws() + star()
				if g.r.Intn(2) == 0 {
					s += g.ows() + "." + g.ows() + star()
				}
				return s
			}
			with := func() string {
				if g.plain {
					return "WITH MEASUREMENT = cpu"
				}
				switch x := g.r.Intn(10); {
				case x < 4:
					return g.join(g.kw("WITH MEASUREMENT"), "=", g.segmented(g.name()))
				case x < 8:
					return g.join(g.kw("WITH MEASUREMENT"), "=~", g.segmented(g.regex()))
				case x < 9:
					return g.join(g.kw("WITH MEASUREMENT"), "=", g.regex()) // accepted: parseSource decides
				default:
					g.valid = false
					return g.join(g.kw("WITH MEASUREMENT"), pick(g.r, []string{"!=", "!~", "", "IN", "<"}), g.name())
				}
			}
			return g.tail(g.kw("SHOW MEASUREMENTS"), mask, on, with, g.where, g.orderBy, lim(g, "LIMIT"), lim(g, "OFFSET"))
		}},
		{"show retention policies", 1, func(g *sgen, mask int) string {
			return g.tail(g.kw("SHOW RETENTION POLICIES"), mask, g.onDb)
		}},
		{"show series", 6, func(g *sgen, mask int) string {
			return g.tail(g.kw("SHOW SERIES"), mask, g.onDb, g.from, g.where, g.orderBy, lim(g, "LIMIT"), lim(g, "OFFSET"))
		}},
		{"show tag keys", 9, func(g *sgen, mask int) string {
			return g.tail(g.kw("SHOW TAG KEYS"), mask, g.onDb, g.from, g.withKey, g.where, g.orderBy, lim(g, "LIMIT"), lim(g, "OFFSET"), lim(g, "SLIMIT"), lim(g, "SOFFSET"))
		}},
		{"show tag values", 6, func(g *sgen, mask int) string {
			// ON, FROM, (WITH KEY), WHERE, ORDER BY, LIMIT, OFFSET
			return g.tail(g.kw("SHOW TAG VALUES"), (mask&3)|4|((mask>>2)<<3), g.onDb, g.from, g.withKey, g.where, g.orderBy, lim(g, "LIMIT"), lim(g, "OFFSET"))
		}},
		{"create continuous query", 5, func(g *sgen, mask int) string {
			parts := []string{g.kw("CREATE CONTINUOUS QUERY"), g.name(), g.kw("ON"), g.name()}
			if mask&3 != 0 {
				parts = append(parts, g.kw("RESAMPLE"))
				if bit(mask, 0) {
					parts = append(parts, g.kw("EVERY"), pick(g.r, []string{"10s", "1m", "30s", "2h"}))
				}
				if bit(mask, 1) {
					parts = append(parts, g.kw("FOR"), pick(g.r, []string{"1d", "2d", "4w", "100d"}))
				}
				if g.chance(10) {
					g.valid = false
					parts = append(parts[:4], g.kw("RESAMPLE"), pick(g.r, []string{"", "EVERY", "FOR 1s", "EVERY 10", "FOR 1m EVERY 1m", "EVERY INF", "EVERY 0s"}))
				}
			}
			parts = append(parts, g.kw("BEGIN"), g.cqSelect(mask>>2), g.kw("END"))
			if g.chance(15) {
				g.valid = false
				parts = parts[:len(parts)-1]
			}
			return g.join(parts...)
		}},
		{"create database", 6, func(g *sgen, mask int) string {
			head := g.join(g.kw("CREATE DATABASE"), g.name())
			if mask == 0 {
				if g.chance(10) {
					g.valid = false
					return g.join(head, g.kw("WITH"))
				}
				return head
			}
			return g.tail(g.join(head, g.kw("WITH")), mask,
				func() string { return g.join(g.kw("DURATION"), g.dur(true)) },
				func() string { return g.join(g.kw("REPLICATION"), g.repl()) },
				func() string { return g.join(g.kw("SHARD DURATION"), g.dur(true)) },
				func() string { return g.join(g.kw("FUTURE LIMIT"), g.dur(true)) },
				func() string { return g.join(g.kw("PAST LIMIT"), g.dur(true)) },
				func() string { return g.join(g.kw("NAME"), g.name()) })
		}},
		{"create user", 1, func(g *sgen, mask int) string {
			return g.tail(g.join(g.kw("CREATE USER"), g.name(), g.kw("WITH PASSWORD"), g.str()), mask,
				func() string { return g.kw("WITH ALL PRIVILEGES") })
		}},
		{"create retention policy", 4, func(g *sgen, mask int) string {
			head := g.join(g.kw("CREATE RETENTION POLICY"), g.name(), g.kw("ON"), g.name(), g.kw("DURATION"), g.dur(true), g.kw("REPLICATION"), g.repl())
			return g.tail(head, mask,
				func() string {
					d := g.dur(false)
					return g.join(g.kw("SHARD DURATION"), d)
				},
				func() string { return g.kw("DEFAULT") },
				func() string { return g.join(g.kw("FUTURE LIMIT"), g.dur(true)) },
				func() string { return g.join(g.kw("PAST LIMIT"), g.dur(true)) })
		}},
		{"create subscription", 2, func(g *sgen, mask int) string {
			n := 1 + mask>>1
			var ds []string
			for i := 0; i < n; i++ {
				ds = append(ds, g.str())
			}
			mode := "ALL"
			if bit(mask, 0) {
				mode = "ANY"
			}
			dot := "."
			if g.chance(12) {
				dot = ". "
			}
			return g.join(g.kw("CREATE SUBSCRIPTION"), g.name(), g.kw("ON"), g.name()+dot+g.name(), g.kw("DESTINATIONS"), g.kw(mode), strings.Join(ds, g.ows()+","+g.ows()))
		}},
		{"drop continuous query", 0, func(g *sgen, mask int) string {
			return g.join(g.kw("DROP CONTINUOUS QUERY"), g.name(), g.kw("ON"), g.name())
		}},
		withName("DROP DATABASE"), withName("DROP MEASUREMENT"), withName("DROP USER"),
		{"drop retention policy", 0, func(g *sgen, mask int) string {
			return g.join(g.kw("DROP RETENTION POLICY"), g.name(), g.kw("ON"), g.name())
		}},
		{"drop shard", 0, func(g *sgen, mask int) string { return g.join(g.kw("DROP SHARD"), g.uintLit()) }},
		{"drop subscription", 0, func(g *sgen, mask int) string {
			return g.join(g.kw("DROP SUBSCRIPTION"), g.name(), g.kw("ON"), g.name()+"."+g.name())
		}},
		{"explain", 2, func(g *sgen, mask int) string {
			return g.join(g.tail(g.kw("EXPLAIN"), mask, func() string { return g.kw("ANALYZE") }, func() string { return g.kw("VERBOSE") }),
				g.selectStmt(g.r.Intn(1024)&g.r.Intn(1024), false))
		}},
		{"grant", 1, func(g *sgen, mask int) string {
			if bit(mask, 0) {
				return g.join(g.kw("GRANT"), g.privilege(true), g.kw("TO"), g.name())
			}
			return g.join(g.kw("GRANT"), g.privilege(false), g.kw("ON"), g.name(), g.kw("TO"), g.name())
		}},
		{"revoke", 1, func(g *sgen, mask int) string {
			if bit(mask, 0) {
				return g.join(g.kw("REVOKE"), g.privilege(true), g.kw("FROM"), g.name())
			}
			return g.join(g.kw("REVOKE"), g.privilege(false), g.kw("ON"), g.name(), g.kw("FROM"), g.name())
		}},
		{"alter retention policy", 6, func(g *sgen, mask int) string {
			name := g.name()
			if g.chance(6) {
				name = g.kw("DEFAULT")
			}
			opts := []func() string{
				func() string { return g.join(g.kw("DURATION"), g.dur(true)) },
				func() string { return g.join(g.kw("REPLICATION"), g.repl()) },
				func() string { return g.join(g.kw("SHARD DURATION"), g.dur(false)) },
				func() string { return g.kw("DEFAULT") },
				func() string { return g.join(g.kw("FUTURE LIMIT"), g.dur(true)) },
				func() string { return g.join(g.kw("PAST LIMIT"), g.dur(true)) },
			}
			var parts []string
			for i, o := range opts {
				if bit(mask, i) {
					parts = append(parts, o())
				}
			}
			if mask == 0 {
				g.valid = false
			}
			if !g.plain {
				g.r.Shuffle(len(parts), func(i, j int) { parts[i], parts[j] = parts[j], parts[i] })
				if len(parts) > 0 && g.r.Intn(12) == 0 {
					g.valid = false
					parts = append(parts, parts[g.r.Intn(len(parts))]) // duplicate option
				}
			}
			return g.join(append([]string{g.kw("ALTER RETENTION POLICY"), name, g.kw("ON"), g.name()}, parts...)...)
		}},
		{"set password", 0, func(g *sgen, mask int) string {
			return g.join(g.kw("SET PASSWORD FOR"), g.name(), "=", g.str())
		}},
		{"kill query", 1, func(g *sgen, mask int) string {
			return g.tail(g.join(g.kw("KILL QUERY"), g.uintLit()), mask, g.onDb)
		}},
	}
}

// ---- parameters for statements ----

func randStmtParams(r *rand.Rand) map[string]interface{} {
	out := map[string]interface{}{}
	typed := map[string]func() interface{}{
		"i": func() interface{} {
			return map[string]interface{}{"identifier": pick(r, []string{"cpu", "a b", "select", "x.y", "É", "", "a\"b"})}
		},
		"s": func() interface{} { return pick(r, []string{"x", "it's", "", "a\\b", "UTC", "a\nb"}) },
		"r": func() interface{} {
			return map[string]interface{}{"regex": pick(r, []string{"a.*", "^cpu$", "a/b", "", "x y", "a\\"})}
		},
		"d": func() interface{} {
			return map[string]interface{}{"duration": []interface{}{"10m", "1h30m", int64(90000000000), "-5m", int64(0), "bogus", "1"}[r.Intn(7)]}
		},
		"n": func() interface{} {
			return []interface{}{int64(1), int64(42), int64(0), int64(-5), int64(2147483648), int64(9223372036854775807), int64(-9223372036854775808)}[r.Intn(7)]
		},
		"f": func() interface{} { return float64(r.Intn(2000)-1000) / 8 },
		"b": func() interface{} { return r.Intn(2) == 0 },
	}
	for _, k := range []string{"i", "s", "r", "d", "n", "f", "b", "p"} {
		switch x := r.Intn(10); {
		case x < 6 && typed[k] != nil:
			out[k] = typed[k]()
		case x < 9:
			out[k] = randParamValue(r)
		}
	}
	return out
}

// ---- mutation ----

// splitWords cuts a statement text into words, quoted literals, whitespace runs and single punctuation runes.
func splitWords(s string) []string {
	var out []string
	rs := []rune(s)
	isWord := func(c rune) bool {
		return c == '_' || c == '$' || (c >= '0' && c <= '9') || (c >= 'a' && c <= 'z') || (c >= 'A' && c <= 'Z') || c >= 0x80
	}
	for i := 0; i < len(rs); {
		c := rs[i]
		j := i + 1
		switch {
		case c == '\'' || c == '"':
			for j < len(rs) && rs[j] != c {
				if rs[j] == '\\' {
					j++
				}
				j++
			}
			if j < len(rs) {
				j++
			}
			if j > len(rs) {
				j = len(rs)
			}
		case isWord(c):
			for j < len(rs) && isWord(rs[j]) {
				j++
			}
		case c == ' ' || c == '\n' || c == '\t' || c == '\r':
			for j < len(rs) && (rs[j] == ' ' || rs[j] == '\n' || rs[j] == '\t' || rs[j] == '\r') {
				j++
			}
		}
		out = append(out, string(rs[i:j]))
		i = j
	}
	return out
}

func mutate(r *rand.Rand, s string) string {
	ws := splitWords(s)
	if len(ws) == 0 {
		return s
	}
	for k := 1 + r.Intn(2); k > 0; k-- {
		i := r.Intn(len(ws))
		switch r.Intn(6) {
		case 0: // delete
			ws = append(ws[:i:i], ws[i+1:]...)
		case 1: // duplicate
			ws = append(ws[:i+1:i+1], ws[i:]...)
		case 2: // swap with another
			j := r.Intn(len(ws))
			ws[i], ws[j] = ws[j], ws[i]
		case 3: // replace by a random fragment
			ws[i] = randLexFragment(r, false)
		case 4: // insert a keyword or operator
			ws = append(ws[:i:i], append([]string{pick(r, append(append([]string{}, kwPool...), opPool...)), " "}, ws[i:]...)...)
		default: // truncate
			ws = ws[:i]
		}
		if len(ws) == 0 {
			break
		}
	}
	return strings.Join(ws, "")
}

package main

import (
	"fmt"
	"math/rand"
	"strings"
	"time"

	"github.com/influxdata/influxql"
)

// Streams for C13: every public operation on a parsed statement returns a value or an error.
//
//	ops.total  s:<statement text>          property oracle only: all operations under recover
//	groupby.ops s:<dim text> s:<dim text>…  compared with the model: GroupByInterval / GroupByOffset / Normalize

type opsMapper struct{ empty bool }

func (m opsMapper) FieldDimensions(ms *influxql.Measurement) (map[string]influxql.DataType, map[string]struct{}, error) {
	if m.empty {
		return map[string]influxql.DataType{}, map[string]struct{}{}, nil
	}
	return map[string]influxql.DataType{"value": influxql.Float, "n": influxql.Integer, "s": influxql.String, "b": influxql.Boolean, "u": influxql.Unsigned, "host": influxql.Float},
		map[string]struct{}{"host": {}, "region": {}}, nil
}

func (m opsMapper) MapType(ms *influxql.Measurement, field string) influxql.DataType {
	if m.empty {
		return influxql.Unknown
	}
	switch field {
	case "value":
		return influxql.Float
	case "n":
		return influxql.Integer
	case "host", "region":
		return influxql.Tag
	}
	return influxql.Unknown
}

// runOp runs fn and returns "" or the panic value.
func runOp(name string, fn func()) (res string) {
	defer func() {
		if r := recover(); r != nil {
			res = fmt.Sprintf("%s panicked: %v", name, r)
		}
	}()
	fn()
	return ""
}

func opsOnExpr(e influxql.Expr, now time.Time) []func() string {
	vals := map[string]interface{}{"a": int64(1), "b": 2.5, "c": "x", "d": true, "host": "h", "value": 1.5, "n": int64(0), "u": uint64(7), "nil": nil}
	return []func() string{
		func() string { return runOp("Expr.String", func() { _ = e.String() }) },
		func() string { return runOp("CloneExpr", func() { _ = influxql.CloneExpr(e) }) },
		func() string {
			return runOp("Reduce(now)", func() { _ = influxql.Reduce(influxql.CloneExpr(e), &influxql.NowValuer{Now: now}) })
		},
		func() string {
			return runOp("Reduce(map)+Clone", func() {
				r := influxql.Reduce(influxql.CloneExpr(e), influxql.MapValuer(vals))
				_ = r.String()
				_ = influxql.CloneExpr(r)
			})
		},
		func() string { return runOp("Reduce(nil)", func() { _ = influxql.Reduce(influxql.CloneExpr(e), nil) }) },
		func() string { return runOp("Eval", func() { _ = influxql.Eval(e, vals) }) },
		func() string { return runOp("EvalBool", func() { _ = influxql.EvalBool(e, vals) }) },
		func() string {
			return runOp("ValuerEval(IntegerFloatDivision)", func() {
				ev := influxql.ValuerEval{Valuer: influxql.MapValuer(vals), IntegerFloatDivision: true}
				_ = ev.Eval(e)
			})
		},
		func() string {
			return runOp("EvalType", func() {
				_ = influxql.EvalType(e, influxql.Sources{&influxql.Measurement{Name: "m"}}, opsMapper{})
			})
		},
		func() string {
			return runOp("ConditionExpr", func() { _, _, _ = influxql.ConditionExpr(influxql.CloneExpr(e), &influxql.NowValuer{Now: now}) })
		},
		func() string { return runOp("ExprNames", func() { _ = influxql.ExprNames(e) }) },
		func() string { return runOp("WalkFunc(expr)", func() { influxql.WalkFunc(e, func(influxql.Node) {}) }) },
		func() string {
			return runOp("BinaryExprName", func() {
				if be, ok := e.(*influxql.BinaryExpr); ok {
					_ = influxql.BinaryExprName(be)
				}
			})
		},
		func() string { return runOp("ContainsVarRef", func() { _ = influxql.ContainsVarRef(e) }) },
		func() string {
			return runOp("RewriteExpr(identity)/HasTimeExpr", func() {
				c := influxql.CloneExpr(e)
				r := influxql.RewriteExpr(c, func(x influxql.Expr) influxql.Expr { return x })
				if r != nil {
					_ = r.String()
				}
				_ = influxql.HasTimeExpr(e)
			})
		},
		func() string {
			return runOp("ConjunctionsToExprSlice", func() {
				_ = influxql.ExprsToConjunction(influxql.ConjunctionsToExprSlice(e)...)
			})
		},
	}
}

func opsOnSelect(s *influxql.SelectStatement, now time.Time) []func() string {
	ops := []func() string{
		func() string { return runOp("String", func() { _ = s.String() }) },
		func() string { return runOp("Clone", func() { _ = s.Clone().String() }) },
		func() string { return runOp("WalkFunc", func() { influxql.WalkFunc(s, func(influxql.Node) {}) }) },
		func() string {
			return runOp("RewriteRegexConditions", func() { c := s.Clone(); c.RewriteRegexConditions(); _ = c.String() })
		},
		func() string {
			return runOp("RewriteDistinct", func() { c := s.Clone(); c.RewriteDistinct(); _ = c.String() })
		},
		func() string {
			return runOp("RewriteTimeFields", func() { c := s.Clone(); c.RewriteTimeFields(); _ = c.String(); _ = c.ColumnNames() })
		},
		func() string {
			return runOp("RewriteFields", func() {
				c, err := s.Clone().RewriteFields(opsMapper{})
				if err == nil {
					_ = c.String()
					_ = c.ColumnNames()
				}
			})
		},
		func() string {
			return runOp("RewriteFields(empty schema)", func() { _, _ = s.Clone().RewriteFields(opsMapper{empty: true}) })
		},
		func() string {
			return runOp("Reduce", func() {
				r := s.Reduce(&influxql.NowValuer{Now: now})
				_ = r.String()
				_ = r.Clone()
				_, _ = r.GroupByOffset()
			})
		},
		func() string {
			return runOp("Reduce(nil bindings)+Clone", func() {
				r := s.Reduce(influxql.MapValuer(map[string]interface{}{"a": nil, "b": nil, "host": nil, "value": nil}))
				_ = r.Clone().String()
			})
		},
		func() string { return runOp("GroupByInterval", func() { _, _ = s.Clone().GroupByInterval() }) },
		func() string { return runOp("GroupByOffset", func() { _, _ = s.Clone().GroupByOffset() }) },
		func() string { return runOp("Dimensions.Normalize", func() { _, _ = s.Dimensions.Normalize() }) },
		func() string {
			// the interval is asked (and memoised) first, then the dimensions are replaced by those of other
			// statements and asked again (round-4 seeded change C13-1 trusted the memo and asserted the type of
			// the first time() argument)
			return runOp("GroupByInterval, Dimensions replaced, GroupByOffset", func() {
				c := s.Clone()
				_, _ = c.GroupByInterval()
				_, _ = c.GroupByOffset()
				for _, d := range oddDimensions() {
					c.Dimensions = d
					_, _ = c.GroupByOffset()
					_, _ = c.GroupByInterval()
					_, _ = c.Dimensions.Normalize()
					_ = c.String()
				}
			})
		},
		func() string {
			return runOp("ColumnNames", func() {
				for _, n := range s.ColumnNames() {
					_, _ = s.FieldExprByName(n)
				}
				_, _ = s.FieldExprByName("host")
			})
		},
		func() string {
			return runOp("Fields.Names", func() { _ = s.Fields.Names(); _ = s.Fields.AliasNames(); _ = s.Fields.String() })
		},
		func() string { return runOp("RequiredPrivileges", func() { _, _ = s.RequiredPrivileges() }) },
		func() string {
			return runOp("SetTimeRange", func() {
				c := s.Clone()
				_ = c.SetTimeRange(now, now.Add(time.Hour))
				_ = c.SetTimeRange(now.Add(time.Hour), now.Add(2*time.Hour))
				_ = c.String()
			})
		},
		func() string {
			return runOp("Has*/Time*", func() {
				_ = s.HasWildcard()
				_ = s.HasFieldWildcard()
				_ = s.HasDimensionWildcard()
				_ = s.TimeAscending()
				_ = s.TimeFieldName()
				_ = s.Sources.Measurements()
				_ = s.Sources.String()
			})
		},
		// the protobuf codec of Sources: MarshalBinary returns bytes or an error (a subquery source is an
		// error since the fix: commit); the bytes decode to sources that print like the original
		func() string {
			var res string
			if p := runOp("Sources.MarshalBinary/UnmarshalBinary", func() {
				buf, err := s.Sources.MarshalBinary()
				if err != nil {
					return
				}
				var back influxql.Sources
				if err := back.UnmarshalBinary(buf); err != nil {
					res = fmt.Sprintf("Sources.UnmarshalBinary rejects the bytes of MarshalBinary for %q: %v", s.Sources.String(), err)
					return
				}
				if back.String() != s.Sources.String() {
					res = fmt.Sprintf("Sources codec round trip: %q became %q", s.Sources.String(), back.String())
				}
			}); p != "" {
				return p
			}
			return res
		},
	}
	influxql.WalkFunc(s, func(n influxql.Node) {
		if e, ok := n.(influxql.Expr); ok {
			switch e.(type) {
			case *influxql.BinaryExpr, *influxql.Call, *influxql.ParenExpr:
				ops = append(ops, opsOnExpr(e, now)...)
			}
		}
	})
	if s.Condition != nil {
		ops = append(ops, opsOnExpr(s.Condition, now)...)
	}
	return ops
}

var oddDimensionsCache []influxql.Dimensions

// oddDimensions: the dimension lists of oddDims that parse.
func oddDimensions() []influxql.Dimensions {
	if oddDimensionsCache == nil {
		for _, d := range append([]string{"time(10s, 3s)", "time(v, 3s)", "time(10, 3s), host", "time('x', 3s)", "time(now(), 3s)"}, oddDims...) {
			st, err := influxql.ParseStatement("SELECT mean(value) FROM m GROUP BY " + d)
			if err != nil {
				continue
			}
			if sel, ok := st.(*influxql.SelectStatement); ok {
				oddDimensionsCache = append(oddDimensionsCache, sel.Dimensions)
			}
		}
	}
	return oddDimensionsCache
}

func selectOf(stmt influxql.Statement) *influxql.SelectStatement {
	switch st := stmt.(type) {
	case *influxql.SelectStatement:
		return st
	case *influxql.ExplainStatement:
		return st.Statement
	case *influxql.CreateContinuousQueryStatement:
		return st.Source
	}
	return nil
}

func propOpsTotal(args []string) string {
	text, err := decStr(args[0])
	if err != nil {
		return "skip"
	}
	stmt, perr := influxql.ParseStatement(text)
	if perr != nil {
		return "skip"
	}
	now := time.Unix(0, 946684800000000000).UTC()
	ops := []func() string{
		func() string { return runOp("Statement.String", func() { _ = stmt.String() }) },
		func() string {
			return runOp("Statement.RequiredPrivileges", func() { _, _ = stmt.RequiredPrivileges() })
		},
		func() string {
			return runOp("WalkFunc(stmt)", func() { influxql.WalkFunc(stmt, func(influxql.Node) {}) })
		},
		func() string {
			return runOp("DefaultDatabase", func() {
				if d, ok := stmt.(influxql.HasDefaultDatabase); ok {
					_ = d.DefaultDatabase()
				}
			})
		},
		func() string {
			return runOp("Query.String", func() { _ = (&influxql.Query{Statements: influxql.Statements{stmt}}).String() })
		},
		// the generic rewriter with the identity, on the statement and on a query holding it (round-3 seeded
		// change C13-3: new cases of Rewrite asserted a nil condition to Expr); run last of the
		// statement-level operations: Rewrite re-assigns the children in place
		func() string {
			return runOp("RewriteFunc(identity)", func() {
				before := stmt.String()
				influxql.RewriteFunc(stmt, func(n influxql.Node) influxql.Node { return n })
				influxql.RewriteFunc(&influxql.Query{Statements: influxql.Statements{stmt}}, func(n influxql.Node) influxql.Node { return n })
				if after := stmt.String(); after != before {
					panic("the identity rewrite changed the statement: " + before + " -> " + after)
				}
			})
		},
	}
	if s := selectOf(stmt); s != nil {
		ops = append(ops, opsOnSelect(s, now)...)
	} else {
		influxql.WalkFunc(stmt, func(n influxql.Node) {
			if e, ok := n.(influxql.Expr); ok {
				if _, ok := e.(*influxql.BinaryExpr); ok {
					ops = append(ops, opsOnExpr(e, now)...)
				}
			}
		})
	}
	for _, op := range ops {
		if r := op(); r != "" {
			return fmt.Sprintf("%s on %q", r, text)
		}
	}
	return ""
}

var oddCalls = []string{"top()", "bottom()", "top(value)", "top(value, 2)", "top(value, host, 2)", "bottom(value, host, region, 3)", "top(value, 2, host)",
	"mean()", "mean(value, 1)", "count(distinct(value))", "count(distinct())", "distinct()", "distinct(value, n)", "percentile(value)", "percentile(value, 'x')",
	"derivative()", "derivative(mean(value), 0s)", "derivative(value, -1s)", "moving_average(value, 0)", "holt_winters(mean(value), 0, -1)", "sample(value, 0)",
	"f()", "unknown(value, /re/, *)", "max(*)", "max(/re/)", "max(*::tag)", "mean(*::field)", "time()", "time(1s)", "now()", "abs(w)", "elapsed(value, 0s)",
	"cumulative_sum()", "integral(value, 0s)", "mode(value) + max(n)", "top(value, 1) / 0", "mean(value) % 0", "*", "*::tag", "/re/", "value::tag", "host::float",
	"(top(value, host, 1))", "-top(value, host, 1)", "(((value)))", "1 / 0", "10s / 0.5", "10s / 0", "1h % 0s", "9223372036854775807 + 1", "-9223372036854775808 / -1", "-9223372036854775808 % -1",
	"18446744073709551615 + 1", "1.5 % 0", "host =~ /a/ + 1", "1 !~ /b/ * c", "host =~ /a/ AND host !~ /b/ - 1", "host =~ /^(a|b)$/ OR host !~ /^c$/", "'a' + 'b'", "true AND 1", "value =~ /a/", "'x' =~ /x/", "1 =~ /1/", "time", "\"time\"", "time AS t", "value AS time"}

var oddDims = []string{"time()", "time(0s)", "time(-1s)", "time(1s)", "time(1s, 1s)", "time(0s, 1s)", "time(1s, 0s)", "time(1s, -1s)", "time(5)", "time(5, 5)", "time('x')", "time(1s, 'x')", "time(1s, now())",
	"time(1s, now() - 1h)", "time(1s, 2s, 3s)", "time(1s, '2000-01-01T00:00:00Z')", "time(value)", "Time(1s)", "host", "*", "*::tag", "*::field", "/re/", "f()", "f(1s)", "f(value, 1s)", "mean(value)", "host, region",
	"time(1w, 9223372036854775807ns)", "time(9223372036854775807ns, 1ns)", "value + 1", "\"time\"", "1s", "now()"}

func genOpsTotal(r *rand.Rand, n int, emit func(args ...string)) {
	e := func(s string) { emit(encStr(s)) }
	for _, c := range oddCalls {
		e("SELECT " + c + " FROM m")
		e("SELECT " + c + " INTO t FROM m")
		e("SELECT value FROM m WHERE " + strings.Replace(c, " AS t", "", 1) + " > 0")
	}
	for _, d := range oddDims {
		e("SELECT mean(value) FROM m GROUP BY " + d)
		e("SELECT value FROM m WHERE time > now() - 1h GROUP BY " + d + " fill(1)")
	}
	for _, s := range []string{"SELECT value FROM m ORDER BY time DESC", "SELECT value FROM m ORDER BY DESC", "SELECT a FROM (SELECT top() FROM m GROUP BY time())", "EXPLAIN ANALYZE SELECT top() FROM m",
		"SELECT value FROM m WHERE time > 9223372036854775807", "SELECT value FROM m WHERE time < -9223372036854775808", "SELECT value FROM m WHERE time > '9999-12-31T23:59:59Z'",
		"SELECT value FROM m WHERE time > '0000-01-01T00:00:00Z' - 1s", "SELECT value FROM m WHERE time = 'today'", "SELECT value FROM m WHERE time > now() + 9223372036854775807ns",
		"SELECT value FROM /re/", "SELECT value FROM db../re/", "SELECT value INTO :MEASUREMENT FROM m", "SELECT value INTO db..:MEASUREMENT FROM /re/", "SELECT mean(value) FROM m GROUP BY time(1s) fill(linear) TZ('UTC')",
		"CREATE CONTINUOUS QUERY q ON d RESAMPLE EVERY 1s FOR 2s BEGIN SELECT top() INTO t FROM m GROUP BY time() END", "SHOW TAG VALUES WITH KEY IN (a, b) WHERE a =~ /x/", "DELETE WHERE 10s / 0.5 > 1s", "SHOW SERIES WHERE time > now() - 1h / 0"} {
		e(s)
	}
	for i := 0; i < n; i++ {
		g := newSgen(r)
		switch r.Intn(6) {
		case 0:
			e(genStmtText(g))
		case 1:
			nf := 1 + r.Intn(3)
			fs := make([]string, nf)
			for j := range fs {
				fs[j] = pick(r, oddCalls)
				if r.Intn(4) == 0 {
					fs[j] += " AS " + pick(r, []string{"a", "time", "top", "host", "a_1"})
				}
			}
			s := "SELECT " + strings.Join(fs, ", ") + pick(r, []string{"", " INTO t", " INTO db.rp.t"}) + " FROM " + pick(r, []string{"m", "m, n", "/re/", "(SELECT " + pick(r, oddCalls) + " FROM m GROUP BY " + pick(r, oddDims) + ")"})
			if r.Intn(2) == 0 {
				s += " WHERE " + strings.Replace(pick(r, oddCalls), " AS t", "", 1) + pick(r, []string{" > 0", " = 'x'", " AND time > now() - 1h", " OR host = 'a'", ""})
			}
			if r.Intn(2) == 0 {
				s += " GROUP BY " + pick(r, oddDims)
				if r.Intn(3) == 0 {
					s += ", " + pick(r, oddDims)
				}
			}
			s += pick(r, []string{"", " fill(0)", " fill(none)", " fill(-1.5)", " ORDER BY time DESC", " LIMIT 0", " SLIMIT 1 SOFFSET 1", " TZ('UTC')"})
			e(s)
		default:
			e(g.selectStmt(r.Intn(1<<10), false))
		}
	}
}

// ---- groupby.ops: compared with the model ----

func genGroupByOps(r *rand.Rand, n int, emit func(args ...string)) {
	for _, d := range oddDims {
		var a []string
		for _, x := range strings.Split(d, ", ") {
			a = append(a, encStr(x))
		}
		emit(a...)
	}
	for i := 0; i < n; i++ {
		k := 1 + r.Intn(3)
		var a []string
		for j := 0; j < k; j++ {
			d := pick(r, oddDims)
			if r.Intn(3) == 0 {
				d = fmt.Sprintf("time(%s%s)", pick(r, []string{"1s", "0s", "-5m", "1w", "7", "1h30m", "9223372036854775807ns"}), pick(r, []string{"", ", 1s", ", -3s", ", 0s", ", 1500ms", ", now()", ", 5", ", 1h, 2h"}))
			}
			if strings.Contains(d, ", ") && !strings.Contains(d, "(") {
				d = "host"
			}
			a = append(a, encStr(d))
		}
		emit(a...)
	}
}

func implGroupByOps(args []string) string {
	dims, ok := decAll(args)
	if !ok {
		return "bad-arg"
	}
	text := "SELECT mean(value) FROM m GROUP BY " + strings.Join(dims, ", ")
	stmt, err := influxql.ParseStatement(text)
	if err != nil {
		return "skip-parse"
	}
	s := stmt.(*influxql.SelectStatement)
	if len(s.Dimensions) != len(dims) {
		return "skip-parse"
	}
	var b strings.Builder
	res := func(name string, fn func() string) {
		out := ""
		if p := runOp(name, func() { out = fn() }); p != "" {
			out = "panic"
		}
		b.WriteString(name + "=" + out + ";")
	}
	res("interval", func() string {
		d, err := s.Clone().GroupByInterval()
		if err != nil {
			return "err:" + encStr(err.Error())[2:]
		}
		return fmt.Sprint(int64(d))
	})
	res("offset", func() string {
		d, err := s.Clone().GroupByOffset()
		if err != nil {
			return "err:" + encStr(err.Error())[2:]
		}
		return fmt.Sprint(int64(d))
	})
	res("normalize", func() string {
		d, tags := s.Dimensions.Normalize()
		var t []string
		for _, x := range tags {
			t = append(t, encStr(x)[2:])
		}
		return fmt.Sprint(int64(d)) + "/" + strings.Join(t, "/")
	})
	return b.String()
}

func init() {
	register(&stream{name: "ops.total", gen: genOpsTotal, prop: propOpsTotal,
		impl: func(args []string) string {
			text, _ := decStr(args[0])
			if _, err := influxql.ParseStatement(text); err != nil {
				return "rejected"
			}
			return "accepted"
		},
		class:      func(args []string, out string) string { return out },
		nontrivial: func(args []string, out string) bool { return out == "accepted" }})
	register(&stream{name: "groupby.ops", gen: genGroupByOps, impl: implGroupByOps,
		prop: func(args []string) string {
			if strings.Contains(implGroupByOps(args), "=panic;") {
				return "a GROUP BY operation panicked: " + implGroupByOps(args)
			}
			return ""
		},
		class: func(args []string, out string) string {
			if strings.HasPrefix(out, "skip") {
				return "skip"
			}
			if strings.Contains(out, "err:") {
				return "some-error"
			}
			return "values"
		},
		nontrivial: func(args []string, out string) bool { return !strings.HasPrefix(out, "skip") }})
}

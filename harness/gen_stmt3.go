package main

import (
	"math/rand"
	"reflect"
	"strings"
	"time"

	"github.com/influxdata/influxql"
)

// Case generators of the statement streams.

var stmtCorners = []string{
	"", " ", ";", "SELECT", "SELECT *", "SELECT * FROM", "SELECT * FROM cpu", "select * from cpu;", "SELECT * FROM cpu ;", "FOO", "SHOW", "SHOW FOO",
	"SHOW TAG", "SHOW FIELD", "SHOW MEASUREMENT", "SHOW SHARD", "SHOW RETENTION", "SHOW CONTINUOUS", "SHOW GRANTS", "CREATE", "CREATE RETENTION", "DROP", "DROP CONTINUOUS",
	"ALTER", "ALTER RETENTION", "SET", "SET PASSWORD", "KILL", "GRANT", "REVOKE", "EXPLAIN", "DELETE", "DROP SERIES",
	"SELECT a, /*c*/ b FROM m", "SELECT a /*c*/, b FROM m", "SELECT a FROM /*c*/ m", "SELECT f(/*c*/ a) FROM m",
	"SELECT a FROM m WHERE a =~ /*c*/ /x/", "SELECT a FROM m GROUP BY a, /*c*/ b",
	"SELECT mean(value) FROM cpu WHERE time > now() - 1h GROUP BY time(10m), host fill(none) ORDER BY time DESC LIMIT 10 OFFSET 5 SLIMIT 3 SOFFSET 2 tz('America/New_York')",
	"SELECT value INTO db.rp.:MEASUREMENT FROM /.*/", "SELECT value INTO rp.:MEASUREMENT FROM cpu", "SELECT value INTO m :MEASUREMENT FROM cpu",
	"SELECT value FROM db..cpu", "SELECT value FROM db.rp./re/", "SELECT value FROM rp./re/", "SELECT value FROM a.b.c.d", "SELECT value FROM a. b",
	"SELECT a FROM (SELECT b FROM (SELECT c FROM m))", "SELECT a FROM (SELECT b FROM m), n", "SELECT a FROM (m)", "SELECT a FROM (SELECT b FROM m",
	"SELECT a = b FROM m", "SELECT (a = b) + (c < d) FROM m", "SELECT f(a = b) FROM m", "SELECT\n  a = 1 FROM m",
	"SELECT a FROM m fill(3.0)", "SELECT a FROM m fill(1e23)", "SELECT a FROM m fill(-1)", "SELECT a FROM m FILL(NULL)", "SELECT a FROM m fill('null')", "SELECT a FROM m fill()",
	"SELECT a FROM m fill (none)", "SELECT a FROM m fill", "SELECT a FROM m tz('')", "SELECT a FROM m tz('Local')", "SELECT a FROM m TZ('UTC') ", "SELECT a FROM m tz(x)",
	"SELECT a FROM m ORDER BY ASC", "SELECT a FROM m ORDER BY time, x", "SELECT a FROM m ORDER BY x", "SELECT a FROM m ORDER BY TIME", "SELECT a FROM m ORDER time",
	"SELECT a FROM m LIMIT 99999999999999999999", "SELECT a FROM m LIMIT -1", "SELECT a FROM m LIMIT 0", "SELECT a FROM m OFFSET 1 LIMIT 1", "SELECT a FROM m LIMIT x",
	"SELECT a AS b, c AS \"d e\" FROM m", "SELECT a AS FROM m", "SELECT DISTINCT a FROM m", "SELECT distinct(a) FROM m", "SELECT count(distinct a) FROM m", "SELECT * FROM m GROUP BY *",
	"DELETE FROM db.rp.m", "DELETE FROM rp.m", "DELETE FROM a, db..b", "DROP SERIES FROM rp.m", "DROP SERIES FROM db..m, rp.n", "DROP SERIES FROM db.rp.m, n", "DELETE WHERE a = 1", "DELETE FROM /x/ WHERE a = 1", "DELETE x",
	"SHOW SERIES EXACT", "SHOW SERIES EXACT ON db", "SHOW SERIES EXACT CARDINALITY", "SHOW SERIES CARDINALITY ON db FROM m WHERE a = 1 GROUP BY b LIMIT 1 OFFSET 2",
	"SHOW MEASUREMENT EXACT", "SHOW MEASUREMENT EXACT CARDINALITY ON db", "SHOW TAG VALUES EXACT WITH KEY = a", "SHOW TAG VALUES EXACT CARDINALITY WITH KEY = a", "SHOW TAG VALUES CARDINALITY WITH KEY IN (a, b)",
	"SHOW TAG KEY CARDINALITY", "SHOW TAG KEY EXACT", "SHOW TAG KEY x", "SHOW FIELD KEY EXACT CARDINALITY", "SHOW FIELD KEY x",
	"SHOW TAG KEYS WITH KEY = host", "SHOW TAG KEYS WITH KEY IN (a)", "SHOW TAG KEYS WITH KEY =~ /x/", "SHOW TAG KEYS WITH KEY =~ x", "SHOW TAG KEYS WITH x", "SHOW TAG VALUES", "SHOW TAG VALUES WITH KEY != \"a b\"",
	"SHOW MEASUREMENTS ON *.*", "SHOW MEASUREMENTS ON *", "SHOW MEASUREMENTS ON db.*", "SHOW MEASUREMENTS ON *.rp", "SHOW MEASUREMENTS ON \"a b\".\"c d\"", "SHOW MEASUREMENTS ON db . rp", "SHOW MEASUREMENTS ON 1",
	"SHOW MEASUREMENTS WITH MEASUREMENT = cpu", "SHOW MEASUREMENTS WITH MEASUREMENT =~ /cpu/", "SHOW MEASUREMENTS WITH MEASUREMENT = /cpu/", "SHOW MEASUREMENTS WITH MEASUREMENT =~ cpu", "SHOW MEASUREMENTS WITH MEASUREMENT = db.rp.cpu", "SHOW MEASUREMENTS WITH MEASUREMENT != cpu",
	"CREATE DATABASE d", "CREATE DATABASE d WITH", "CREATE DATABASE d WITH DURATION 1500ms", "CREATE DATABASE d WITH NAME rp DURATION 1h", "CREATE DATABASE d WITH DURATION INF REPLICATION 1 SHARD DURATION 1h FUTURE LIMIT 1h PAST LIMIT 2h NAME rp",
	"CREATE DATABASE d WITH SHARD 1h", "CREATE DATABASE d WITH REPLICATION 0", "CREATE DATABASE d WITH REPLICATION 2147483648", "CREATE DATABASE d WITH REPLICATION 99999999999999999999", "CREATE DATABASE d WITH FUTURE 1h",
	"CREATE RETENTION POLICY p ON d DURATION 1h REPLICATION 1", "CREATE RETENTION POLICY p ON d DURATION INF REPLICATION 1 SHARD DURATION INF", "CREATE RETENTION POLICY p ON d DURATION 1h REPLICATION 1 SHARD DURATION 30m DEFAULT FUTURE LIMIT 1h PAST LIMIT 1h",
	"CREATE RETENTION POLICY p ON d DURATION 1h REPLICATION 1 DEFAULT SHARD DURATION 1h", "CREATE RETENTION POLICY p ON d DURATION 15251w REPLICATION 1", "CREATE RETENTION POLICY p ON d REPLICATION 1 DURATION 1h",
	"ALTER RETENTION POLICY p ON d", "ALTER RETENTION POLICY default ON d DEFAULT", "ALTER RETENTION POLICY p ON d DURATION 1h DURATION 2h", "ALTER RETENTION POLICY p ON d SHARD DURATION INF", "ALTER RETENTION POLICY p ON d SHARD 1h",
	"ALTER RETENTION POLICY p ON d PAST LIMIT 1h FUTURE LIMIT 2s DEFAULT REPLICATION 3 SHARD DURATION 1h DURATION INF", "ALTER RETENTION POLICY p ON d DEFAULT x", "ALTER RETENTION POLICY 1 ON d DEFAULT",
	"CREATE USER u WITH PASSWORD 'p'", "CREATE USER u WITH PASSWORD 'p' WITH ALL PRIVILEGES", "CREATE USER u WITH PASSWORD 'p' WITH ALL", "CREATE USER \"[REDACTED]\" WITH PASSWORD '[REDACTED]'", "CREATE USER u WITH PASSWORD p", "SET PASSWORD FOR u = 'p'", "SET PASSWORD FOR u 'p'",
	"CREATE SUBSCRIPTION s ON d.r DESTINATIONS ALL 'a', 'b'", "CREATE SUBSCRIPTION s ON d.r DESTINATIONS ANY 'a'", "CREATE SUBSCRIPTION s ON d .r DESTINATIONS ANY 'a'", "CREATE SUBSCRIPTION s ON d. r DESTINATIONS ANY 'a'", "CREATE SUBSCRIPTION s ON d.r DESTINATIONS SOME 'a'", "DROP SUBSCRIPTION s ON d.r", "DROP SUBSCRIPTION s ON d r",
	"CREATE CONTINUOUS QUERY q ON d BEGIN SELECT mean(v) INTO m FROM c GROUP BY time(1m) END", "CREATE CONTINUOUS QUERY q ON d BEGIN SELECT mean(v) INTO m FROM c END", "CREATE CONTINUOUS QUERY q ON d BEGIN SELECT v INTO m FROM c END", "CREATE CONTINUOUS QUERY q ON d BEGIN SELECT v FROM c END",
	"CREATE CONTINUOUS QUERY q ON d RESAMPLE EVERY 10s FOR 2m BEGIN SELECT mean(v) INTO m FROM c GROUP BY time(1m) END", "CREATE CONTINUOUS QUERY q ON d RESAMPLE FOR 10s BEGIN SELECT mean(v) INTO m FROM c GROUP BY time(1m) END",
	"CREATE CONTINUOUS QUERY q ON d RESAMPLE EVERY 5m FOR 2m BEGIN SELECT mean(v) INTO m FROM c GROUP BY time(1m) END", "CREATE CONTINUOUS QUERY q ON d RESAMPLE BEGIN SELECT v INTO m FROM c END", "CREATE CONTINUOUS QUERY q ON d RESAMPLE EVERY 0s BEGIN SELECT v INTO m FROM c END",
	"CREATE CONTINUOUS QUERY q ON d BEGIN SELECT mean(v) INTO m FROM c GROUP BY time(0s) END", "CREATE CONTINUOUS QUERY q ON d BEGIN SELECT mean(v) INTO m FROM c GROUP BY time() END", "CREATE CONTINUOUS QUERY q ON d BEGIN SELECT mean(v) INTO m FROM c GROUP BY time(5) END",
	"CREATE CONTINUOUS QUERY q ON d BEGIN SELECT v INTO m FROM c GROUP BY time(5) END", "CREATE CONTINUOUS QUERY q ON d BEGIN SELECT mean(v) INTO m FROM c GROUP BY host END", "CREATE CONTINUOUS QUERY q ON d BEGIN SELECT mean(v) INTO m FROM c GROUP BY time(1m)", "CREATE CONTINUOUS QUERY q ON d BEGIN SELECT mean(v) INTO m FROM c\nEND",
	"GRANT READ ON d TO u", "GRANT ALL TO u", "GRANT ALL PRIVILEGES ON d TO u", "GRANT READ TO u", "GRANT ALL x", "GRANT READ x", "GRANT x", "REVOKE WRITE ON d FROM u", "REVOKE ALL PRIVILEGES FROM u", "REVOKE READ FROM u", "REVOKE ALL x",
	"KILL QUERY 1", "KILL QUERY 1 ON host", "KILL QUERY 18446744073709551615", "KILL QUERY 18446744073709551616", "KILL QUERY x", "KILL 1", "DROP SHARD 1", "DROP SHARD -1",
	"EXPLAIN SELECT * FROM m", "EXPLAIN ANALYZE VERBOSE SELECT * FROM m", "EXPLAIN VERBOSE ANALYZE SELECT * FROM m", "EXPLAIN SHOW DATABASES",
	"SHOW STATS FOR 'x'", "SHOW STATS FOR x", "SHOW DIAGNOSTICS FOR ''", "SHOW GRANTS FOR u", "SHOW GRANTS u",
	"SELECT \x00", "SELECT a FROM m\x00 WHERE", "SELECT a FROM m; \x00 DROP DATABASE d", "SELECT 'abc", "SELECT \"abc FROM m", "SELECT a FROM m WHERE a =~ /x", "SELECT $a FROM m", "SELECT a FROM $m",
}

// pendingCorners: witnesses of the defects reported but not yet recorded (see pendingFindings).
var pendingCorners = []string{
	"SELECT a FROM m,/x/", "SELECT a FROM m GROUP BY /x/ , b", "SHOW RETENTION POLICIES ON \"\"", "SELECT a FROM \"\"",
	"CREATE DATABASE d WITH SHARD DURATION INF", "CREATE DATABASE d WITH DURATION 1h FUTURE LIMIT 0s", "ALTER RETENTION POLICY p ON d PAST LIMIT INF",
}

// deepCorners: nesting depth, long chains, Unicode case folding of fill/tz, the depth-3 push-back of
// CREATE CONTINUOUS QUERY in several layouts.
func deepCorners() []string {
	out := []string{
		"SELECT a FROM m f\u0130ll(none)", "SELECT a FROM m F\u0130LL(1)", "SELECT a FROM m t\u212a('UTC')", "SELECT a FROM m \u0130", "SELECT f\u0130ll(a) FROM m",
		"SELECT \u212a(a) FROM m", "SELECT a::\u0130nteger FROM m", "SELECT a::fl\u00d6at FROM m",
		"CREATE CONTINUOUS QUERY q ON d BEGIN SELECT mean(v) INTO m FROM c/*x*/END", "CREATE CONTINUOUS QUERY q ON d BEGIN SELECT mean(v) INTO m FROM c -- x\nEND",
		"CREATE CONTINUOUS QUERY q ON d BEGIN SELECT mean(v) INTO m FROM c WHERE a = 1 END", "CREATE CONTINUOUS QUERY q ON d BEGIN SELECT mean(v) INTO m FROM c GROUP BY host fill(none) END",
		"CREATE CONTINUOUS QUERY q ON d BEGIN SELECT mean(v) INTO m FROM c LIMIT 1 END", "CREATE CONTINUOUS QUERY q ON d BEGIN SELECT mean(v) INTO m FROM c tz('UTC') END", "CREATE CONTINUOUS QUERY q ON d BEGIN SELECT mean(v) INTO m FROM c)",
		"CREATE CONTINUOUS QUERY q ON d BEGIN SELECT mean(v) INTO m FROM (SELECT v FROM c) END", "CREATE CONTINUOUS QUERY q ON d BEGIN SELECT mean(v) INTO m FROM c GROUP BY time(1m),", "CREATE CONTINUOUS QUERY q ON d BEGIN SELECT mean(v) INTO m FROM c ORDER BY time END",
		"SELECT a FROM m\r\nWHERE\rb = 1\r", "SELECT a\r\n,\r\nb FROM m", "SELECT 'a\r\nb' FROM m", "SELECT a FROM m WHERE b = 'x\ry'",
	}
	for _, d := range []int{1, 2, 10, 100, 500} {
		out = append(out, "SELECT a FROM "+strings.Repeat("(SELECT a FROM ", d)+"m"+strings.Repeat(")", d))
		out = append(out, "SELECT "+strings.Repeat("(", d)+"a"+strings.Repeat(")", d)+" FROM m")
		out = append(out, "SELECT "+strings.Repeat("f(", d)+"a"+strings.Repeat(")", d)+" FROM m")
		out = append(out, "SELECT "+strings.Repeat("-", d)+"a FROM m")
		out = append(out, "SELECT a FROM m WHERE a = 1"+strings.Repeat(" AND a = 1", d))
		out = append(out, strings.Repeat(";", d)+"SHOW USERS"+strings.Repeat(";", d))
		out = append(out, "SELECT a"+strings.Repeat(", a", d)+" FROM m"+strings.Repeat(", m", d)+" GROUP BY a"+strings.Repeat(", a", d))
		out = append(out, "SHOW TAG VALUES WITH KEY IN (a"+strings.Repeat(", a", d)+")")
		out = append(out, "SELECT a FROM m"+strings.Repeat(" ", d)+strings.Repeat("/* c */", d)+"WHERE a = 1")
	}
	return out
}

func newSgen(r *rand.Rand) *sgen { return &sgen{r: r, valid: true} }

// genStmtText returns a random statement of a random kind.
func genStmtText(g *sgen) string {
	var k stmtKind
	if g.r.Intn(10) < 3 {
		k = stmtKinds[0]
	} else {
		k = stmtKinds[g.r.Intn(len(stmtKinds))]
	}
	mask := g.r.Intn(1 << uint(k.bits))
	if k.bits > 4 && g.r.Intn(2) == 0 {
		mask &= g.r.Intn(1 << uint(k.bits)) // favour few clauses
	}
	return k.gen(g, mask)
}

// allSubsets emits every kind with every subset of its optional clauses (SELECT: every subset too).
func allSubsets(r *rand.Rand, emit func(text string, valid bool)) {
	for _, k := range stmtKinds {
		for mask := 0; mask < 1<<uint(k.bits); mask++ {
			g := newSgen(r)
			g.plain = mask%3 == 0
			emit(k.gen(g, mask), g.valid)
		}
	}
}

// lookaheadCorners: comments (both kinds, flanked or not, terminated or not, at the end of the
// input) at every place where the parser looks at runes instead of tokens: parseRegex (after `(`
// and `,` of a call, `=~`/`!~`, FROM, `,` of sources / fields / dimensions, GROUP BY, the
// operator of WITH MEASUREMENT / WITH KEY), the `.` of parseSegmentedIdents, `::`, `:MEASUREMENT`,
// and the raw Scan for the comma of parseDimensions. C16 finding comment-before-regex-lookahead.
var lookaheadCorners = []string{
	"SELECT a, -- c\n b FROM m", "SELECT a,/*c*/b FROM m", "SELECT a, -- c\r\n b FROM m", "SELECT /*c*/ /f/ FROM m", "SELECT -- c\n/f/ FROM m", "SELECT a, /*c*/ /f/ FROM m",
	"SELECT a FROM -- c\n m", "SELECT a FROM /*c*/ /m/", "SELECT a FROM -- c\n /m/", "SELECT a FROM -- c\r/m/", "SELECT a FROM/*c*//m/", "SELECT a FROM/*c*/m",
	"SELECT a FROM m, /*c*/ /n/", "SELECT a FROM m, -- c\n n", "SELECT a FROM m,/*c*/n", "SELECT a FROM m,/*c*//n/", "SELECT a FROM /*c*/ (SELECT b FROM /*d*/ n)",
	"SELECT a FROM db./*c*/m", "SELECT a FROM db./*c*//m/", "SELECT a FROM db. /m/", "SELECT a FROM db. m", "SELECT a FROM db./*c*/.m", "SELECT a FROM db.-- c\nm", "SELECT a FROM db.rp./*c*//m/",
	"SELECT a FROM m GROUP BY /*c*/ /t/", "SELECT a FROM m GROUP BY -- c\n /t/", "SELECT a FROM m GROUP BY /*c*/ t", "SELECT a FROM m GROUP BY/*c*/t", "SELECT a FROM m GROUP BY x, -- c\n /t/",
	"SELECT a FROM m GROUP BY x,/*c*/y", "SELECT a FROM m GROUP BY x, /*c*/ /t/, -- d\n time(1m)", "SELECT a FROM m GROUP BY /t/ /*c*/, y", "SELECT a FROM m GROUP BY /t/ /*c*/ , y",
	"SELECT a FROM m GROUP BY /t/ , y", "SELECT a FROM m GROUP BY /t/ -- c\n, y", "SELECT a FROM m GROUP BY x /*c*/, y", "SELECT a FROM m GROUP BY x /*c*/ , y",
	"SELECT a FROM m WHERE t =~ -- c\n /x/", "SELECT a FROM m WHERE t !~ /*c*/ /x/", "SELECT a FROM m WHERE t !~/*c*//x/", "SELECT a FROM m WHERE t =~ /*c*/ 'x'", "SELECT a FROM m WHERE t =~ /*c*/ /x/ AND u !~ -- d\n /y/",
	"SELECT f(/*c*/) FROM m", "SELECT f(-- c\n) FROM m", "SELECT f(a, /*c*/ /x/) FROM m", "SELECT f(/*c*/ /x/, -- d\n 1) FROM m", "SELECT f(a, /*c*/ -1) FROM m", "SELECT f(a, -- c\n-1) FROM m", "SELECT f(a, /*c*//*d*/ -- e\n b) FROM m",
	"SHOW MEASUREMENTS WITH MEASUREMENT = /* c */ cpu", "SHOW MEASUREMENTS WITH MEASUREMENT = -- c\n cpu", "SHOW MEASUREMENTS WITH MEASUREMENT =~ /* c */ /cpu/", "SHOW MEASUREMENTS WITH MEASUREMENT =~ -- c\n /cpu/",
	"SHOW MEASUREMENTS WITH MEASUREMENT =/*c*/cpu", "SHOW MEASUREMENTS WITH MEASUREMENT =~/*c*//cpu/", "SHOW MEASUREMENTS WITH MEASUREMENT /*c*/ = cpu", "SHOW MEASUREMENTS WITH MEASUREMENT = /*c*/ db.rp.cpu",
	"SHOW TAG VALUES WITH KEY =~ /* c */ /k/", "SHOW TAG VALUES WITH KEY !~ -- c\n /k/", "SHOW TAG VALUES WITH KEY = /*c*/ k", "SHOW TAG VALUES WITH KEY IN (/*c*/ a, -- d\n b)", "SHOW TAG KEYS WITH KEY =~ /*c*/ /k/",
	"SHOW TAG KEYS FROM /*c*/ /m/", "SHOW SERIES FROM -- c\n /m/", "SHOW FIELD KEYS FROM /*c*/ m", "SHOW TAG VALUES FROM /*c*/ /m/ WITH KEY = k", "DELETE FROM /*c*/ /m/", "DROP SERIES FROM -- c\n /m/", "DROP MEASUREMENT /*c*/ m",
	"SELECT a::/*c*/float FROM m", "SELECT a/*c*/::float FROM m", "SELECT a:: -- c\n float FROM m", "SELECT a:: float FROM m", "SELECT *::/*c*/field FROM m",
	"SELECT a INTO db.rp /*c*/ :MEASUREMENT FROM m", "SELECT a INTO db.rp./*c*/:MEASUREMENT FROM m", "SELECT a INTO db.rp :MEASUREMENT FROM m", "SELECT a INTO /*c*/ n FROM m",
	// a comment up to the end of the input
	"SELECT a FROM /*c*/", "SELECT a FROM -- c", "SELECT a, -- c", "SELECT a, /*c*/", "SELECT a FROM m WHERE t =~ /*c*/", "SELECT a FROM m WHERE t =~ -- /x/", "SELECT a FROM m GROUP BY -- c", "SELECT f(a, -- c", "SELECT f(/*c*/",
	"SHOW MEASUREMENTS WITH MEASUREMENT = -- cpu", "SHOW TAG VALUES WITH KEY =~ /*c*/",
	// unterminated block comment
	"SELECT a FROM /* c", "SELECT a, /* c", "SELECT f( /* c", "SELECT f(a, /* c", "SELECT a FROM m WHERE t =~ /* c", "SELECT a FROM m WHERE t =~ /*", "SELECT a FROM m GROUP BY /* c", "SELECT a FROM m, /*",
	"SHOW MEASUREMENTS WITH MEASUREMENT = /* c", "SHOW MEASUREMENTS WITH MEASUREMENT =~ /* c", "SHOW TAG VALUES WITH KEY =~ /* c", "SELECT a FROM /*c*/ /* d", "SELECT a FROM -- c\n /* d", "SELECT a FROM /*/",
	// NUL is the reader's eof rune: peekRune consumes it, peekComment does not
	"SELECT a FROM m WHERE t =~ /*c*/\x00/x/", "SELECT f(\x00/*c*/ /x/) FROM m", "SELECT f( \x00\x00/x/) FROM m", "SELECT f(/*c*/\x00 /x/) FROM m", "SELECT a FROM /*c*/\x00", "SELECT a FROM -\x00- c\n m", "SELECT a FROM /\x00* c */ m",
	// not comments
	"SELECT a FROM / * c */ m", "SELECT a FROM - - c\n m", "SELECT f(a, / * c) FROM m", "SELECT a FROM m WHERE t =~ /-- c/", "SELECT a FROM m WHERE t =~ /\\/* c/",
}

func genStmtCases(r *rand.Rand, n int, emit func(text string, params map[string]interface{}, valid bool)) {
	none := map[string]interface{}{}
	for _, s := range stmtCorners {
		emit(s, none, false)
	}
	for _, s := range pendingCorners {
		emit(s, none, true)
	}
	for _, s := range lookaheadCorners {
		emit(s, none, false)
	}
	for _, s := range deepCorners() {
		emit(s, none, false)
	}
	allSubsets(r, func(text string, valid bool) { emit(text, none, valid) })
	for i := 0; i < n; i++ {
		g := newSgen(r)
		if r.Intn(400) == 0 { // deep nesting: subqueries, parentheses, calls
			d := 5 + r.Intn(60)
			var text string
			switch r.Intn(4) {
			case 0:
				text = "SELECT a FROM " + strings.Repeat("(SELECT a FROM ", d) + "m" + strings.Repeat(")", d-r.Intn(2))
			case 1:
				text = "SELECT " + strings.Repeat("(", d) + "a" + strings.Repeat(")", d-r.Intn(2)) + " FROM m"
			case 2:
				text = "SELECT a FROM m WHERE " + strings.Repeat("f(", d) + "a" + strings.Repeat(")", d) + " > " + strings.Repeat("-", d%7) + "1"
			default:
				text = "EXPLAIN SELECT a FROM m WHERE a = 1" + strings.Repeat(" AND a = 1 OR b < 2 * 3", d)
			}
			emit(text, none, false)
			continue
		}
		switch x := r.Intn(100); {
		case x < 3:
			emit(randLexText(r, false), none, false)
		case x < 20:
			g.params = r.Intn(3) == 0
			emit(mutate(r, genStmtText(g)), none, false)
		case x < 40:
			g.params = true
			text := genStmtText(g)
			params := none
			if strings.Contains(text, "$") {
				params = randStmtParams(r)
			}
			emit(text, params, g.valid && len(params) == 0 && !strings.Contains(text, "$"))
		default:
			text := genStmtText(g)
			emit(text, none, g.valid)
		}
	}
}

func genParseStmt(r *rand.Rand, n int, emit func(args ...string)) {
	genStmtCases(r, n, func(text string, params map[string]interface{}, valid bool) {
		emit(stmtCase(text, params, valid)...)
	})
}

func genPrintStmt(r *rand.Rand, n int, emit func(args ...string)) {
	genStmtCases(r, n, func(text string, params map[string]interface{}, valid bool) {
		emit(stmtCase(text, params, valid)...)
	})
}

func genParseQuery(r *rand.Rand, n int, emit func(args ...string)) {
	none := map[string]interface{}{}
	for _, s := range []string{"", ";", ";;", " ; ", "SELECT * FROM m", "SELECT * FROM m;", ";SELECT * FROM m", "SELECT * FROM m; SELECT * FROM n", "SELECT * FROM m SELECT * FROM n",
		"SELECT * FROM m;;SELECT * FROM n;", "SHOW DATABASES; x", "SHOW DATABASES x", "SHOW DATABASES -- c\n; SHOW USERS", "SHOW DATABASES /* c */ SHOW USERS", "SHOW DATABASES;\x00SHOW USERS", "DROP DATABASE d; DROP DATABASE",
		"SELECT * FROM m LIMIT 1; DELETE FROM m", "SELECT * FROM m LIMIT; DELETE FROM m", "SHOW STATS FOR 'a';SHOW STATS FOR 'b'"} {
		emit(stmtCase(s, none, false)...)
	}
	for _, s := range deepCorners() {
		emit(stmtCase(s, none, false)...)
	}
	for i := 0; i < n; i++ {
		k := r.Intn(5)
		var b strings.Builder
		valid := true
		if r.Intn(6) == 0 {
			b.WriteString(pick(r, []string{";", " ", "; ;", "\n"}))
		}
		params := none
		for j := 0; j < k; j++ {
			g := newSgen(r)
			g.params = r.Intn(8) == 0
			var text string
			if r.Intn(3) == 0 {
				text = genStmtText(g)
			} else {
				kd := stmtKinds[1+r.Intn(len(stmtKinds)-1)]
				text = kd.gen(g, r.Intn(1<<uint(kd.bits))&r.Intn(1<<uint(kd.bits)))
			}
			if r.Intn(15) == 0 {
				text = mutate(r, text)
				valid = false
			}
			valid = valid && g.valid
			b.WriteString(text)
			if j < k-1 || r.Intn(3) == 0 {
				sep := pick(r, []string{";", "; ", " ;", ";\n", ";;", " ; ", ";"})
				if r.Intn(20) == 0 {
					sep = pick(r, []string{" ", "", "\n"})
					if j < k-1 {
						valid = false
					}
				}
				b.WriteString(sep)
			}
		}
		text := b.String()
		if strings.Contains(text, "$") {
			params = randStmtParams(r)
			valid = false
		}
		emit(stmtCase(text, params, valid)...)
	}
}

// ---- known classes of print -> parse failures (C02) ----

func knownPrintStmt(args []string) string {
	text, params, ok := decStmtArgs(args)
	if !ok || len(params) > 0 {
		return ""
	}
	stmt, err := newStmtParser(text, nil).ParseStatement()
	if err != nil {
		return ""
	}
	// expression-level classes, inside any clause of the statement
	class := ""
	influxql.WalkFunc(stmt, func(n influxql.Node) {
		if class != "" {
			return
		}
		if e, ok := n.(influxql.Expr); ok {
			if c := knownExprClass(e); c != "" {
				class = c
			}
		}
	})
	if class == "" {
		for _, e := range stmtExprs(stmt) {
			if c := knownExprClass(e); c != "" {
				class = c
				break
			}
		}
	}
	if class != "" {
		return class
	}
	return knownStmtClass(stmt, text)
}

// stmtExprs lists the expressions Walk does not reach (dimensions and conditions of statements
// without a Walk case, tag key expressions).
func stmtExprs(stmt influxql.Statement) []influxql.Expr {
	var out []influxql.Expr
	add := func(e influxql.Expr) {
		if e != nil {
			out = append(out, e)
		}
	}
	dims := func(ds influxql.Dimensions) {
		for _, d := range ds {
			add(d.Expr)
		}
	}
	switch s := stmt.(type) {
	case *influxql.ShowMeasurementsStatement:
		add(s.Condition)
	case *influxql.ShowSeriesCardinalityStatement:
		dims(s.Dimensions)
	case *influxql.ShowMeasurementCardinalityStatement:
		dims(s.Dimensions)
	case *influxql.ShowTagKeyCardinalityStatement:
		dims(s.Dimensions)
	case *influxql.ShowFieldKeyCardinalityStatement:
		dims(s.Dimensions)
	case *influxql.ShowTagValuesCardinalityStatement:
		dims(s.Dimensions)
	}
	return out
}

// knownExprClass applies the two recorded expression-level classes to one expression tree.
func knownExprClass(e influxql.Expr) string {
	class := ""
	influxql.WalkFunc(e, func(n influxql.Node) {
		be, ok := n.(*influxql.BinaryExpr)
		if !ok {
			return
		}
		if c, ok := be.RHS.(*influxql.BinaryExpr); ok {
			if il, ok := c.LHS.(*influxql.IntegerLiteral); ok && c.Op == influxql.MUL && (il.Val == 1 || il.Val == -1) && be.Op.Precedence() >= 5 {
				class = "negated-operand-printed-without-grouping"
			}
		}
	})
	if class != "" {
		return class
	}
	influxql.WalkFunc(e, func(n influxql.Node) {
		if c, ok := n.(*influxql.Call); ok && influxql.IdentNeedsQuotes(c.Name) && c.Name != "distinct" {
			class = "call-name-printed-unquoted"
		}
	})
	return class
}

// knownStmtClass: statement-level classes (filled in from the failures found; see notes/C02.md).
func knownStmtClass(stmt influxql.Statement, text string) string {
	zero := func(d *time.Duration) bool { return d != nil && *d <= 0 }
	switch s := stmt.(type) {
	case *influxql.CreateDatabaseStatement:
		// `FUTURE LIMIT 0s` / `PAST LIMIT INF` are stored as pointers to 0 and not printed; a WITH
		// clause whose only option is `SHARD DURATION 0s|INF` prints as a bare WITH.
		if s.RetentionPolicyCreate && (zero(s.FutureWriteLimit) || zero(s.PastWriteLimit)) {
			return "zero-duration-option-not-printed"
		}
		if s.RetentionPolicyCreate && s.RetentionPolicyDuration == nil && s.RetentionPolicyReplication == nil && s.RetentionPolicyShardGroupDuration <= 0 &&
			s.FutureWriteLimit == nil && s.PastWriteLimit == nil && s.RetentionPolicyName == "" {
			return "zero-duration-option-not-printed"
		}
	case *influxql.AlterRetentionPolicyStatement:
		if zero(s.FutureWriteLimit) || zero(s.PastWriteLimit) {
			return "zero-duration-option-not-printed"
		}
	}
	if textHasEmptyIdent(text) || hasNamelessMeasurement(reflect.ValueOf(stmt)) {
		return "empty-identifier-not-printed"
	}
	return ""
}

// hasNamelessMeasurement: a source measurement with neither name nor regex (`FROM a..` followed by
// something that is not a name: the empty segment lands in the name position).
func hasNamelessMeasurement(v reflect.Value) bool {
	if !v.IsValid() {
		return false
	}
	switch v.Kind() {
	case reflect.Ptr, reflect.Interface:
		if v.IsNil() {
			return false
		}
		if m, ok := v.Interface().(*influxql.Measurement); ok {
			return m.Name == "" && m.Regex == nil && m.SystemIterator == "" && !m.IsTarget
		}
		return hasNamelessMeasurement(v.Elem())
	case reflect.Struct:
		if v.Type().PkgPath() != "github.com/influxdata/influxql" {
			return false
		}
		for i := 0; i < v.NumField(); i++ {
			if v.Type().Field(i).PkgPath == "" && hasNamelessMeasurement(v.Field(i)) {
				return true
			}
		}
	case reflect.Slice:
		for i := 0; i < v.Len(); i++ {
			if hasNamelessMeasurement(v.Index(i)) {
				return true
			}
		}
	}
	return false
}

// textHasEmptyIdent: the statement was written with an empty quoted identifier (`""`); the
// printers take the empty string for "absent" (or print nothing where a name must stand).
func textHasEmptyIdent(text string) bool {
	sc := influxql.NewScanner(strings.NewReader(text))
	for i := 0; i < len(text)+4; i++ {
		tok, _, lit := sc.Scan()
		if tok == influxql.EOF {
			break
		}
		if tok == influxql.IDENT && lit == "" {
			return true
		}
	}
	return false
}

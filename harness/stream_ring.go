package main

import (
	"fmt"
	"math/rand"
	"strings"

	"github.com/influxdata/influxql"
)

// Streams for the two 3-slot push-back rings of scanner.go (C05 / C04 state anchors
// reader.buf / reader.n and bufScanner.buf / bufScanner.n), driven through the verif hooks
// VerifReaderOps / VerifTokenOps:
//
//	ring.ops <ops over r,u,c> s:<text>      rune reader: read / unread / curr
//	ring.tok <ops over s,x,u,c> s:<text>    token ring: Scan / ScanRegex / Unscan / curr
//
// Output "ok <item>|<item>…" with every value returned by a read/scan or curr, or "depth" when the
// depth assertion of the hooks fires (more than two elements pushed back when curr runs).
// The model side is Model/Ring.lean (the ring as written); the theorems of Props/C05.lean say that
// this machine is the unbounded history / the pure look-ahead cursor.

func ringDepthPanic(r interface{}) bool {
	return strings.Contains(fmt.Sprint(r), "pushback depth exceeds")
}

func implRingOps(args []string) (out string) {
	if len(args) != 2 {
		return "bad-arg"
	}
	text, err := decStr(args[1])
	if err != nil {
		return "bad-arg"
	}
	defer func() {
		if r := recover(); r != nil {
			if ringDepthPanic(r) {
				out = "depth"
				return
			}
			panic(r)
		}
	}()
	rs := influxql.VerifReaderOps(text, args[0])
	parts := make([]string, len(rs))
	for i, x := range rs {
		parts[i] = fmt.Sprintf("%x@%d:%d", x.Ch, x.Pos.Line, x.Pos.Char)
	}
	return "ok " + strings.Join(parts, "|")
}

func implRingTok(args []string) (out string) {
	if len(args) != 2 {
		return "bad-arg"
	}
	text, err := decStr(args[1])
	if err != nil {
		return "bad-arg"
	}
	defer func() {
		if r := recover(); r != nil {
			if ringDepthPanic(r) {
				out = "depth"
				return
			}
			panic(r)
		}
	}()
	ts := influxql.VerifTokenOps(text, args[0])
	parts := make([]string, len(ts))
	for i, t := range ts {
		parts[i] = fmt.Sprintf("%d#%d:%d:%s", int(t.Tok), t.Pos.Line, t.Pos.Char, encStr(t.Lit)[2:])
	}
	return "ok " + strings.Join(parts, "|")
}

// propRingOps: an independent reading of the reader as pure look-ahead. The delivered stream is
// computed from the text (CR / CRLF folded, zero-based line and column, NUL = end of input: the column
// stops counting after the first one); read returns the rune at the logical position, unread steps back,
// curr is the rune before the position. Applies when nothing is pushed back that was not read and at most
// two runes are pushed back when curr runs.
func propRingOps(args []string) string {
	if len(args) != 2 {
		return "skip"
	}
	text, err := decStr(args[1])
	if err != nil {
		return "skip"
	}
	type rp struct {
		ch        rune
		line, col int
	}
	var stream []rp
	rs := []rune(text)
	line, col, frozen := 0, 0, false
	push := func(c rune) {
		stream = append(stream, rp{c, line, col})
		if c == '\n' {
			line++
			col = 0
		} else if !frozen {
			col++
		}
		if c == 0 {
			frozen = true
		}
	}
	for i := 0; i < len(rs); i++ {
		c := rs[i]
		if c == '\r' {
			if i+1 < len(rs) && rs[i+1] == '\n' {
				i++
			}
			c = '\n'
		}
		push(c)
	}
	at := func(k int) rp {
		for k >= len(stream) {
			push(0)
		}
		return stream[k]
	}
	var want []string
	k, high := 0, 0
	for _, op := range args[0] {
		switch op {
		case 'r':
			if high-k > 3 {
				return "skip"
			}
			x := at(k)
			want = append(want, fmt.Sprintf("%x@%d:%d", x.ch, x.line, x.col))
			k++
			if k > high {
				high = k
			}
		case 'u':
			if k == 0 {
				return "skip"
			}
			k--
		case 'c':
			if high-k > 2 {
				return "skip"
			}
			if k == 0 {
				want = append(want, "0@0:0")
			} else {
				x := at(k - 1)
				want = append(want, fmt.Sprintf("%x@%d:%d", x.ch, x.line, x.col))
			}
		}
	}
	got := implRingOps(args)
	if exp := "ok " + strings.Join(want, "|"); got != exp {
		return fmt.Sprintf("reader returned %s, look-ahead reading of the text gives %s", got, exp)
	}
	return ""
}

// propRingTok: push-back is invisible. The tokens handed out, with the re-deliveries after Unscan and the
// curr() values removed, are the tokens the same scan calls produce on a scanner that is never pushed
// back; every re-delivery equals the token delivered at that place before.
func propRingTok(args []string) string {
	if len(args) != 2 {
		return "skip"
	}
	text, err := decStr(args[1])
	if err != nil {
		return "skip"
	}
	got := implRingTok(args)
	if got == "depth" {
		return "skip"
	}
	items := strings.Split(strings.TrimPrefix(got, "ok "), "|")
	if got == "ok " {
		items = nil
	}
	// replay: the fresh scans in order
	var fresh strings.Builder
	var hist []string
	k, idx := 0, 0
	for _, op := range args[0] {
		switch op {
		case 's', 'x':
			if idx >= len(items) {
				return "fewer outputs than operations"
			}
			if k < len(hist) {
				if items[idx] != hist[k] {
					return fmt.Sprintf("re-delivered token %s differs from the token delivered there before (%s)", items[idx], hist[k])
				}
			} else {
				hist = append(hist, items[idx])
				fresh.WriteRune(op)
			}
			k++
			idx++
		case 'u':
			if k == 0 {
				return "skip"
			}
			k--
		case 'c':
			if idx >= len(items) {
				return "fewer outputs than operations"
			}
			if k > 0 && items[idx] != hist[k-1] {
				return fmt.Sprintf("curr() gives %s, the token before the position is %s", items[idx], hist[k-1])
			}
			idx++
		}
	}
	plain := implRingTok([]string{fresh.String(), encStr(text)})
	if exp := "ok " + strings.Join(hist, "|"); plain != exp {
		return fmt.Sprintf("with push-back the scans delivered %s, without %s", exp, plain)
	}
	return ""
}

func genRingWord(r *rand.Rand, alphabet string, readLetters string) string {
	n := 1 + r.Intn(24)
	var b strings.Builder
	k, high := 0, 0
	mode := r.Intn(10)
	for i := 0; i < n; i++ {
		switch {
		case mode == 0: // anything goes (depth violations, unread below the start)
			b.WriteByte(alphabet[r.Intn(len(alphabet))])
		default: // stay within the ring most of the time
			c := alphabet[r.Intn(len(alphabet))]
			switch {
			case strings.IndexByte(readLetters, c) >= 0:
				k++
				if k > high {
					high = k
				}
			case c == 'u':
				if k == 0 || (high-k >= 2 && mode != 1) {
					c = readLetters[r.Intn(len(readLetters))]
					k++
					if k > high {
						high = k
					}
				} else {
					k--
				}
			}
			b.WriteByte(c)
		}
	}
	return b.String()
}

func genRingOps(r *rand.Rand, n int, emit func(args ...string)) {
	texts := []string{"", "a", "abc", "a\r\nb", "a\rb", "\r", "\r\n", "\r\r\n", "\n\r", "a\x00b", "\x00", "\x00\x00x\ny", "é\n日本", "x\r\n\r\ny", "a\nb\nc", "ab\r"}
	words := []string{"-", "c", "r", "rc", "ru", "rur", "rrr", "rruur", "rruurc", "rrruuu", "rrruuur", "rrruuuc", "u", "ur", "uc", "uuur", "uuuur", "rrrrrruucrcrc", "rcucrc", "rrucuc", "rrrruucc", "rrrrrrrr", "rurururur", "rruurruurr"}
	for _, t := range texts {
		for _, w := range words {
			emit(w, encStr(t))
		}
	}
	for i := 0; i < n; i++ {
		var t string
		if i%3 == 0 {
			t = randLexText(r, i%5 == 0)
		} else {
			k := r.Intn(7)
			rs := make([]rune, k)
			for j := range rs {
				rs[j] = []rune("ab \r\n\r\n\x00é\t")[r.Intn(10)]
			}
			t = string(rs)
		}
		emit(genRingWord(r, "rrrruuc", "r"), encStr(t))
	}
}

func genRingTok(r *rand.Rand, n int, emit func(args ...string)) {
	texts := []string{"", "a", "a b", "SELECT * FROM m", "a =~ /x/ b", "/re/ 'str' 1.5s", "a\r\nb", "'unterminated", "x /a\\/b/ y", "1 + 2", "$p $q"}
	words := []string{"-", "c", "s", "sc", "su", "sus", "sss", "ssuus", "ssuusc", "sssuuu", "sssuuus", "sssuuuc", "u", "us", "uuus", "uuuus", "sx", "sxuus", "sxuux", "ssxuuusc", "xuxus", "ssssssuucscsc", "susxsusx"}
	for _, t := range texts {
		for _, w := range words {
			emit(w, encStr(t))
		}
	}
	for i := 0; i < n; i++ {
		emit(genRingWord(r, "sssxuuc", "sx"), encStr(randLexText(r, i%7 == 0)))
	}
}

func classRing(args []string, out string) string {
	switch {
	case out == "depth":
		return "depth-assertion"
	case strings.Contains(args[0], "u"):
		return "with-pushback"
	}
	return "no-pushback"
}

func init() {
	register(&stream{name: "ring.ops", gen: genRingOps, impl: implRingOps, prop: propRingOps, class: classRing,
		nontrivial: func(args []string, out string) bool { return strings.Contains(args[0], "u") && out != "depth" }})
	register(&stream{name: "ring.tok", gen: genRingTok, impl: implRingTok, prop: propRingTok, class: classRing,
		nontrivial: func(args []string, out string) bool { return strings.Contains(args[0], "u") && out != "depth" }})
}

package main

import (
	"fmt"
	"hash/fnv"
	"math/rand"
	"regexp"
	"strings"

	"github.com/influxdata/influxql"
)

// Streams for C03 / C02 (expressions) / C07 (expressions): ParseExpr.
//
//	parse.expr s:<text> p:<params> l:<lower table>

var binOps = []string{"+", "-", "*", "/", "%", "&", "|", "^", "AND", "OR", "=", "!=", "<>", "=~", "!~", "<", "<=", ">", ">="}

func exprCase(text string, params map[string]interface{}) []string {
	return []string{encStr(text), encParams(params), encLower(text)}
}

func randAtom(r *rand.Rand, depth int) string {
	switch r.Intn(18) {
	case 0, 1, 2:
		return randBareIdent(r)
	case 3:
		return `"` + strings.NewReplacer("\n", `\n`, `\`, `\\`, `"`, `\"`).Replace(pick(r, []string{"a b", "select", "x.y", "é", "a\"b", "1", ""})) + `"`
	case 4:
		return randNumberText(r)
	case 5:
		return pick(r, []string{"1", "42", "0", "9223372036854775807", "9223372036854775808", "18446744073709551615", "18446744073709551616", "1.5", "0.25", ".5", "100.0", "1."})
	case 6:
		return influxql.QuoteString(pick(r, []string{"x", "it's", "2000-01-01", "a\\b", "", "a\nb", "2000-01-01T00:00:00Z"}))
	case 7:
		return pick(r, []string{"true", "false", "TRUE", "False"})
	case 8:
		return pick(r, []string{"10s", "1h30m", "5µ", "1w", "0s", "3s7µ", "1ms500µ", randCompositeDuration(r)})
	case 9:
		if r.Intn(4) == 0 {
			return pick(r, []string{"-1", "+1", "-1.0"}) + " * " + randAtom(r, depth+1)
		}
		return "-" + randAtom(r, depth+1)
	case 10:
		return "+" + randAtom(r, depth+1)
	case 11, 12:
		if depth < 4 {
			return "(" + randExprText(r, depth+1, 1+r.Intn(3)) + ")"
		}
		return randBareIdent(r)
	case 13:
		if depth < 4 {
			n := r.Intn(4)
			args := make([]string, n)
			for i := range args {
				if r.Intn(6) == 0 {
					args[i] = pick(r, []string{"/re/", "*", "/a\\/b/", "*::tag"})
				} else {
					args[i] = randExprText(r, depth+1, r.Intn(2))
				}
			}
			return pick(r, []string{"mean", "MAX", "top", "f", "distinct", "Count", "time", "ÉK", "now"}) + "(" + strings.Join(args, pick(r, []string{", ", ",", " , "})) + ")"
		}
		return "now()"
	case 14:
		return randBareIdent(r) + pick(r, []string{"::float", "::integer", "::string", "::boolean", "::unsigned", "::field", "::tag", "::Float", "::bogus", "::", ":: float"})
	case 15:
		return pick(r, []string{"a.b", "a.b.c", `"a"."b"`, "a..c", "a.b.c.d", "a.", "a./x/"})
	case 16:
		return pick(r, []string{"*", "*::field", "*::tag", "*::x", "DISTINCT x", "distinct(x)", "DISTINCT  \"a b\"", "DISTINCT 1"})
	default:
		return "$" + pick(r, []string{"p", "q", "r", "", "1", `"a b"`})
	}
}

func randExprText(r *rand.Rand, depth, k int) string {
	var b strings.Builder
	b.WriteString(randAtom(r, depth))
	for i := 0; i < k; i++ {
		op := binOps[r.Intn(len(binOps))]
		sp := pick(r, []string{" ", " ", "  ", "\n", "\t"})
		if r.Intn(8) == 0 {
			sp = ""
		}
		b.WriteString(sp + randCase(r, op) + sp)
		if op == "=~" || op == "!~" {
			switch r.Intn(5) {
			case 0:
				b.WriteString(randAtom(r, depth))
			case 1:
				b.WriteString("$r")
			default:
				b.WriteString("/" + pick(r, []string{"a.*", "^cpu$", "a\\/b", "x y", "", "(a|b)", "["}) + "/")
			}
		} else {
			b.WriteString(randAtom(r, depth))
		}
	}
	return b.String()
}

// genErrPos: texts that end early or carry a stray token at every kind of place (statement prefixes cut after
// each token, a lone operator character at the end, after FROM, after a comma, after =~), plus the expression
// generator's cases.
func genErrPos(r *rand.Rand, n int, emit func(args ...string)) {
	none := map[string]interface{}{}
	bases := []string{"SELECT mean(x) FROM m WHERE y =~ z AND t > now() - 1h GROUP BY time(1m), host fill(none) ORDER BY time DESC LIMIT 1",
		"SELECT x FROM a, b", "DELETE FROM m WHERE a = 1", "SHOW TAG VALUES WITH KEY =~ k", "SHOW TAG VALUES WITH KEY IN (a, b)", "DROP SERIES FROM m",
		"CREATE RETENTION POLICY p ON d DURATION 1h REPLICATION 1", "a + b * (c - 1)", "f(a, b)", "a =~ b"}
	for _, b := range bases {
		words := strings.Fields(b)
		for i := 1; i <= len(words); i++ {
			prefix := strings.Join(words[:i], " ")
			for _, tail := range []string{"", " -", " +", " *", " )", " (", " ,", " ;", " !", " =", "\n-", " - ", " 'x", " \"y"} {
				emit(exprCase(prefix+tail, none)...)
			}
		}
	}
	// regexes that the scanner accepts and regexp.Compile rejects, written and bound, at several positions
	for _, re := range []string{"web(", "[", "a**", "(?P<n", "\\"} {
		bound := map[string]interface{}{"re": map[string]interface{}{"regex": re}}
		for _, t := range []string{"a =~ $re", "SELECT v FROM cpu WHERE host =~ $re", "SELECT value FROM cpu WHERE region = 'uswest' AND host =~ $re", "SELECT v\nFROM cpu\nWHERE host !~ $re"} {
			emit(exprCase(t, bound)...)
		}
		if !strings.Contains(re, "\\") {
			for _, t := range []string{"a =~ /" + re + "/", "SELECT v FROM /" + re + "/", "SHOW MEASUREMENTS WITH MEASUREMENT =~ /" + re + "/", "SELECT v FROM m\nWHERE host =~ /" + re + "/ AND x", "SELECT v FROM m GROUP BY /" + re + "/"} {
				emit(exprCase(t, none)...)
			}
		}
	}
	genParseExpr(r, n, emit)
}

func genParseExpr(r *rand.Rand, n int, emit func(args ...string)) {
	none := map[string]interface{}{}
	for _, s := range []string{"", "a", "a + b", "a + b * c", "a * b + c", "(a + b) * c", "a = 1 AND b = 2 OR c = 3", "a OR b AND c", "b / -a", "-a * b", "- - a", "-(-a)", "-1", "- 1", "-9223372036854775808", "-9223372036854775809", "-18446744073709551616", "a =~ /x/", "a =~ b", "a !~ /x", "a =~ /[/", "f()", "f(", "f(a,)", "f(a b)", "f (a)", "now() - 1h", "a.b.c.d", "*::tag", "DISTINCT", "1.5.2", "10s / 0.5", "-1.0", "-0.0", "- .5", "+a", "a AND", "AND", ")", "(", "(a", "a)", "1 2", "'x' 'y'", "a::", "$p", "$", "a = $p", "a =~ $r", "\"a\"(x)", "1e5", "99999999999999999999999999999999999999999999999999999999999999999999999999999999999999999999999999999999999999999999999999999999999999999999999999999999999999999999999999999999999999999999999999999999999999999999999999999999999999999999999999999999999999999999999999999999999999999999999999999999999999999999999.0"} {
		emit(exprCase(s, none)...)
	}
	// a written `-1 * x` is the same tree as the parser's desugaring of `-x`: every kind of right operand,
	// in every operand position (round-3 seeded change C03-3 printed every such node as `-x`: `-1 * -2` came
	// out as `--2`, a comment)
	for _, x := range []string{"-2", "2", "9223372036854775809", "9223372036854775808", "x", "(x)", "f(x)", "-x", "1.5", "-1.5", "10s", "-5m", "'x'", "true", "/r/"} {
		m := "-1 * " + x
		for _, t := range []string{m, "a - " + m, "x + " + m + " > 0 AND y", "now() - " + m, "a * " + m, m + " * b", "a / " + m + " + c", "(" + m + ")", "f(" + m + ")", "1 * " + m, "+1 * " + x, "a % +1 * " + x} {
			emit(exprCase(t, none)...)
		}
	}
	// exhaustive chains over all spellings for k<=2 (atoms a,b,c; regex operators get a regex operand)
	atomFor := func(op string, name string) string {
		if op == "=~" || op == "!~" {
			return "/" + name + "/"
		}
		return name
	}
	for _, o1 := range binOps {
		emit(exprCase("a "+o1+" "+atomFor(o1, "b"), none)...)
		for _, o2 := range binOps {
			emit(exprCase("a "+o1+" "+atomFor(o1, "b")+" "+o2+" "+atomFor(o2, "c"), none)...)
		}
	}
	// every chain of five operators over one representative per level: all ascending / descending /
	// mixed precedence profiles (the descent loop walks its longest path on strictly ascending ones)
	{
		reps := []string{"*", "+", "<", "AND", "OR"}
		names := []string{"a", "b", "c", "d", "e", "f", "g"}
		depth := 5
		if n >= 100000 {
			depth = 6
		}
		var rec func(ops []string)
		rec = func(ops []string) {
			if len(ops) == depth {
				var b strings.Builder
				b.WriteString(names[0])
				for i, o := range ops {
					b.WriteString(" " + o + " " + names[i+1])
				}
				emit(exprCase(b.String(), none)...)
				return
			}
			for _, o := range reps {
				rec(append(append([]string(nil), ops...), o))
			}
		}
		rec(nil)
	}
	if n >= 100000 { // thorough: k = 3 exhaustive, and all parenthesisations for k <= 4 over level representatives
		for _, o1 := range binOps {
			for _, o2 := range binOps {
				for _, o3 := range binOps {
					emit(exprCase("a "+o1+" "+atomFor(o1, "b")+" "+o2+" "+atomFor(o2, "c")+" "+o3+" "+atomFor(o3, "d"), none)...)
				}
			}
		}
		reps := []string{"*", "+", "<", "AND", "OR"}
		var rec func(ops []string)
		rec = func(ops []string) {
			if len(ops) == 4 {
				for _, t := range parenthesisations([]string{"a", "b", "c", "d", "e"}, ops) {
					emit(exprCase(t, none)...)
				}
				return
			}
			for _, o := range reps {
				rec(append(append([]string(nil), ops...), o))
			}
		}
		rec(nil)
	}
	for i := 0; i < n; i++ {
		var text string
		switch r.Intn(11) {
		case 10: // monotone precedence profiles with random spellings per level, possibly inside parentheses
			levels := [][]string{{"OR"}, {"AND"}, {"=", "!=", "<>", "<", "<=", ">", ">="}, {"+", "-", "|", "^"}, {"*", "/", "%", "&"}}
			var b strings.Builder
			b.WriteString(randBareIdent(r))
			asc := r.Intn(2) == 0
			for rep := 0; rep < 1+r.Intn(3); rep++ {
				for li := 0; li < 5; li++ {
					l := li
					if !asc {
						l = 4 - li
					}
					if r.Intn(6) == 0 {
						continue
					}
					b.WriteString(" " + pick(r, levels[l]) + " " + randBareIdent(r))
				}
			}
			text = b.String()
			if r.Intn(3) == 0 {
				text = randBareIdent(r) + " * (" + text + ")"
			}
		case 0:
			text = randLexText(r, false)
		case 1:
			text = randExprText(r, 0, 5+r.Intn(35))
		default:
			text = randExprText(r, 0, r.Intn(6))
		}
		params := none
		if strings.Contains(text, "$") {
			params = randParams(r, []string{"p", "q", "r", "a b", "1"})
		}
		emit(exprCase(text, params)...)
	}
}

// parenthesisations returns the texts of all ways of fully or partially
// parenthesising the chain atoms[0] ops[0] atoms[1] ... (every binary tree shape, written
// with explicit parentheses around each non-root internal node).
func parenthesisations(atoms, ops []string) []string {
	if len(atoms) == 1 {
		return []string{atoms[0]}
	}
	var out []string
	for i := range ops {
		ls := parenthesisations(atoms[:i+1], ops[:i])
		rs := parenthesisations(atoms[i+1:], ops[i+1:])
		for _, l := range ls {
			for _, r := range rs {
				if i > 0 {
					l = "(" + l + ")"
				}
				rr := r
				if i < len(ops)-1 {
					rr = "(" + r + ")"
				}
				out = append(out, l+" "+ops[i]+" "+rr)
			}
		}
	}
	return out
}

func parseExprWith(text string, params map[string]interface{}) (influxql.Expr, error) {
	if len(params) == 0 && viaPackageEntry(text) {
		return influxql.ParseExpr(text)
	}
	p := influxql.NewParser(strings.NewReader(text))
	applyParams(p, text, params)
	return p.ParseExpr()
}

// viaPackageEntry chooses, by a hash of the text, the cases that go through the package-level entry points
// (ParseExpr / ParseStatement / ParseQuery of a string) instead of NewParser(reader).ParseX(): the two are the
// same function, unless the entry points keep something between calls (round-4 seeded changes: pooled
// parsers whose rune ring survives, ASTs cached per text).
func viaPackageEntry(text string) bool {
	h := fnv.New32a()
	h.Write([]byte(text))
	return h.Sum32()%3 == 1
}

var placeholderNameRe = regexp.MustCompile(`\$"?([A-Za-z0-9_]+)`)

// applyParams binds the parameters the way a caller does. On every second text (by a hash of the text,
// so the choice is reproducible) the parser has been given other bindings before: every name of the map
// and every placeholder of the text bound to a marker string, plus an extra name. SetParams replaces the
// bindings, so the result must be the same as on a fresh parser; a SetParams that keeps or merges earlier
// bindings (round-3 seeded change C07-1) makes withdrawn values reappear.
func applyParams(p *influxql.Parser, text string, params map[string]interface{}) {
	h := fnv.New32a()
	h.Write([]byte(text))
	if h.Sum32()%2 == 0 {
		decoy := map[string]interface{}{"stale_extra": int64(7), "": "stale-decoy"}
		for k := range params {
			decoy[k] = "stale-decoy"
		}
		for _, m := range placeholderNameRe.FindAllStringSubmatch(text, -1) {
			decoy[m[1]] = "stale-decoy"
		}
		p.SetParams(decoy)
		p.SetParams(params)
		return
	}
	if len(params) > 0 {
		p.SetParams(params)
	}
}

// propErrPos (C05, "the line and column quoted in every parse error is … that token's first character"): the
// position of a parse error is the position of one of the tokens of the text, as a scanner run over the whole
// text places them (scan.ops judges those positions against an independent line/column count), the end of input
// included. Texts with a `/` are left out: a regex literal is one token for the parser and several for a plain scan.
// errPosMovesWithText: the position in a parse error is a position in the text that was parsed. The same
// text behind one more line break (two more blanks) fails with the same error one line further down (two
// characters further right on its first line). A position that is remembered from an earlier parse, or
// counted from anything but the text at hand, does not move.
func errPosMovesWithText(text string, params map[string]interface{}) string {
	type entry struct {
		name string
		run  func(t string) error
	}
	mk := func(t string) *influxql.Parser {
		p := influxql.NewParser(strings.NewReader(t))
		if len(params) > 0 {
			p.SetParams(params)
		}
		return p
	}
	if strings.HasPrefix(text, "'") || strings.HasPrefix(text, "\"") {
		// a string token is reported at the rune before its quote (known finding
		// C05-string-position-is-previous-rune); at the very start of a text there is no such rune
		return ""
	}
	for _, en := range []entry{
		{"ParseQuery", func(t string) error { _, e := mk(t).ParseQuery(); return e }},
		{"ParseExpr", func(t string) error { _, e := mk(t).ParseExpr(); return e }},
	} {
		pe, ok := en.run(text).(*influxql.ParseError)
		if ok && pe != nil && pe.Found == "EOF" && pe.Message == "" {
			// "found EOF" says that every token of the text was read and more was expected: a blank at
			// the end of the text changes nothing about that (round-5 seeded change C05-13 lost a final
			// `-` / `/` in a look-ahead and reported the end of input instead of that token)
			pe2, ok2 := en.run(text + " ").(*influxql.ParseError)
			// (where the parser reads its next token without skipping blanks, `a::`, the blank itself is what is found)
			if !ok2 || pe2 == nil || (pe2.Found != "EOF" && strings.TrimSpace(pe2.Found) != "") {
				return fmt.Sprintf("%s(%q) fails with %q (every token read, more expected), but with one blank appended the outcome is %v: a token of the text was not read", en.name, text, pe.Error(), pe2)
			}
		}
		if !ok || pe == nil || pe.Found == "EOF" || (pe.Pos == influxql.Pos{} && pe.Message != "") {
			continue
		}
		for _, sh := range []struct {
			prefix string
			dl, dc int
		}{{"\n", 1, 0}, {"  ", 0, 2}} {
			pe2, ok2 := en.run(sh.prefix + text).(*influxql.ParseError)
			if !ok2 || pe2 == nil {
				return fmt.Sprintf("%s(%q) fails with %q, but behind %q it gives %v", en.name, text, pe.Error(), sh.prefix, pe2)
			}
			want := influxql.Pos{Line: pe.Pos.Line + sh.dl, Char: pe.Pos.Char}
			if pe.Pos.Line == 0 {
				want.Char += sh.dc
			}
			if pe2.Message != pe.Message || pe2.Found != pe.Found || strings.Join(pe2.Expected, ",") != strings.Join(pe.Expected, ",") {
				return fmt.Sprintf("%s(%q) fails with %q, but behind %q with %q", en.name, text, pe.Error(), sh.prefix, pe2.Error())
			}
			if pe2.Pos != want {
				return fmt.Sprintf("%s(%q) fails at line %d, char %d (zero-based); behind %q the same error is reported at line %d, char %d instead of line %d, char %d: the position is not a position in the text at hand", en.name, text, pe.Pos.Line, pe.Pos.Char, sh.prefix, pe2.Pos.Line, pe2.Pos.Char, want.Line, want.Char)
			}
		}
	}
	return ""
}

func propErrPos(args []string) string {
	text, err := decStr(args[0])
	if err != nil {
		return "skip"
	}
	params, err := decParams(args[1])
	if err != nil {
		return "skip"
	}
	if m := errPosMovesWithText(text, params); m != "" {
		return m
	}
	if strings.Contains(text, "/") || len(params) > 0 {
		return ""
	}
	starts := map[influxql.Pos]bool{}
	sc := influxql.NewScanner(strings.NewReader(text))
	for i := 0; i < len(text)+8; i++ {
		tok, pos, _ := sc.Scan()
		starts[pos] = true
		if tok == influxql.EOF {
			break
		}
	}
	check := func(what string, perr error) string {
		pe, ok := perr.(*influxql.ParseError)
		if !ok || pe == nil || (pe.Pos == influxql.Pos{} && pe.Message != "") {
			return ""
		}
		if pe.Found == "EOF" {
			return "" // the end of input is no character of the text; the reader counts it once more after a peek (recorded in notes/C05.md)
		}
		if !starts[pe.Pos] {
			return fmt.Sprintf("%s(%q) fails with %q: line %d, char %d (zero-based) is not where a token of the text starts", what, text, perr.Error(), pe.Pos.Line, pe.Pos.Char)
		}
		return ""
	}
	_, e1 := influxql.NewParser(strings.NewReader(text)).ParseExpr()
	if m := check("ParseExpr", e1); m != "" {
		return m
	}
	_, e2 := influxql.NewParser(strings.NewReader(text)).ParseQuery()
	return check("ParseQuery", e2)
}

func isOracleError(err error) bool {
	m := err.Error()
	return strings.Contains(m, "error parsing regexp") || strings.Contains(m, "unable to find time zone")
}

// longNumberLiteral reports whether the text contains a number literal with more than 15
// significant digits: the model keeps number literals as exact decimals, which coincides with
// float64 formatting only up to 15 digits (DESIGN §3), so such cases are not compared.
// The check is purely textual and therefore conservative: any run of digits with one '.' carrying
// more than 15 significant digits counts, wherever it stands. (Tokenising with the plain Scanner
// misses literals that only the parser sees: after a ScanRegex the plain Scanner may be inside what
// it takes for a comment - a 1-in-10^6 false model/implementation difference.)
func longNumberLiteral(text string) bool {
	n := len(text)
	for i := 0; i < n; {
		if !(text[i] >= '0' && text[i] <= '9') && text[i] != '.' {
			i++
			continue
		}
		j := i
		dots := 0
		var digits []byte
		for j < n && ((text[j] >= '0' && text[j] <= '9') || (text[j] == '.' && dots == 0)) {
			if text[j] == '.' {
				dots++
			} else {
				digits = append(digits, text[j])
			}
			j++
		}
		if dots > 0 && len(strings.TrimLeft(string(digits), "0")) > 15 {
			return true
		}
		if j == i {
			j++
		}
		i = j
	}
	return false
}

func implParseExpr(args []string) string {
	text, err := decStr(args[0])
	if err != nil {
		return "bad-arg"
	}
	if longNumberLiteral(text) {
		return "skip-float-precision"
	}
	params, err := decParams(args[1])
	if err != nil {
		return "bad-arg"
	}
	e, perr := parseExprWith(text, params)
	if perr != nil {
		if isOracleError(perr) {
			return "skip-oracle-call " + encStr(perr.Error())
		}
		return "err " + encStr(perr.Error())
	}
	return "ok " + sexpExpr(e)
}

// ---- independent reference for C03: precedence climbing over the operator chain ----

type refNode struct {
	op   string // "" for an atom
	l, r *refNode
	atom int
}

func refLevel(op string) int {
	switch strings.ToUpper(op) {
	case "OR":
		return 1
	case "AND":
		return 2
	case "=", "!=", "<>", "=~", "!~", "<", "<=", ">", ">=":
		return 3
	case "+", "-", "|", "^":
		return 4
	case "*", "/", "%", "&":
		return 5
	}
	return 0
}

// refParse groups atoms 0..k with ops by precedence climbing (left associative).
func refParse(ops []string) *refNode {
	pos := 0
	var climb func(min int) *refNode
	atomIdx := 0
	next := func() *refNode { n := &refNode{atom: atomIdx}; atomIdx++; return n }
	climb = func(min int) *refNode {
		lhs := next()
		for pos < len(ops) && refLevel(ops[pos]) >= min {
			op := ops[pos]
			pos++
			rhs := climb(refLevel(op) + 1)
			lhs = &refNode{op: op, l: lhs, r: rhs}
		}
		return lhs
	}
	return climb(1)
}

func refShape(n *refNode) string {
	if n.op == "" {
		return fmt.Sprintf("%d", n.atom)
	}
	return "(" + refShape(n.l) + " " + canonOp(n.op) + " " + refShape(n.r) + ")"
}

func canonOp(op string) string {
	op = strings.ToUpper(op)
	if op == "<>" {
		return "!="
	}
	return op
}

// implShape renders the grouping of an implementation tree over chain atoms (anything that is not an
// unparenthesised binary node counts as an atom, numbered left to right).
func implShape(e influxql.Expr, counter *int, atoms map[influxql.Expr]bool) string {
	if be, ok := e.(*influxql.BinaryExpr); ok && !atoms[e] {
		l := implShape(be.LHS, counter, atoms)
		r := implShape(be.RHS, counter, atoms)
		return "(" + l + " " + be.Op.String() + " " + r + ")"
	}
	i := *counter
	*counter++
	return fmt.Sprintf("%d", i)
}

// simpleChain recognises texts of the form atom (op atom)* with atoms that are bare identifiers or
// /regex/ and returns the operator list.
func simpleChain(text string) ([]string, bool) {
	f := strings.Fields(text)
	if len(f)%2 == 0 {
		return nil, false
	}
	var ops []string
	for i, w := range f {
		if i%2 == 0 {
			afterRegexOp := i > 0 && (f[i-1] == "=~" || f[i-1] == "!~")
			if strings.HasPrefix(w, "/") {
				if !afterRegexOp || len(w) < 3 || !strings.HasSuffix(w, "/") || strings.Contains(w[1:len(w)-1], "/") || strings.Contains(w, "\\") {
					return nil, false
				}
				// `/*` opens a comment, also where a regex is expected (a regex cannot begin with `*`:
				// regexp.Compile rejects it), so `a =~ /*c*/` is not a chain with a regex atom
				if strings.HasPrefix(w, "/*") {
					return nil, false
				}
				continue
			}
			if afterRegexOp {
				return nil, false
			}
			for _, c := range w {
				if !(c >= 'a' && c <= 'z') {
					return nil, false
				}
			}
			if influxql.Lookup(w) != influxql.IDENT {
				return nil, false
			}
		} else {
			if refLevel(w) == 0 {
				return nil, false
			}
			ops = append(ops, w)
		}
	}
	return ops, true
}

func exprEqual(a, b influxql.Expr) bool {
	return strictly(func() string { return sexpExpr(a) }) == strictly(func() string { return sexpExpr(b) })
}

// propParseExpr: (C03) chains group by the five levels, left associative; (C02/C03) printing the
// tree and parsing it again gives the same tree.
func propParseExpr(args []string) string {
	text, err := decStr(args[0])
	if err != nil {
		return "skip"
	}
	params, err := decParams(args[1])
	if err != nil {
		return "skip"
	}
	e, perr := parseExprWith(text, params)
	if perr != nil {
		if ops, ok := simpleChain(text); ok && len(ops) > 0 && !isOracleError(perr) {
			return fmt.Sprintf("well-formed operator chain %q rejected: %v", text, perr)
		}
		return "skip"
	}
	if ops, ok := simpleChain(text); ok {
		want := refShape(refParse(ops))
		c := 0
		got := implShape(e, &c, map[influxql.Expr]bool{})
		if got != want {
			return fmt.Sprintf("%q groups as %s, the five precedence levels give %s", text, got, want)
		}
	}
	// every call of the package-level ParseExpr returns a tree of its own (see scribble in stream_stmt.go)
	if len(params) == 0 {
		if first, err1 := influxql.ParseExpr(text); err1 == nil {
			want := sexpExpr(first)
			scribble(first)
			if again, err2 := influxql.ParseExpr(text); err2 != nil || sexpExpr(again) != want {
				return fmt.Sprintf("%q parsed a second time after the first result was edited gives another tree (%v)", text, err2)
			}
		}
	}
	return propExprRoundTrip(text, params, e)
}

// propParseChain (C01): only the grouping half of propParseExpr — operator chains group as the
// five precedence levels say — without the print → parse half (which belongs to C02/C03).
func propParseChain(args []string) string {
	text, err := decStr(args[0])
	if err != nil {
		return "skip"
	}
	params, err := decParams(args[1])
	if err != nil {
		return "skip"
	}
	ops, ok := simpleChain(text)
	if !ok || len(ops) == 0 {
		return "skip"
	}
	e, perr := parseExprWith(text, params)
	if perr != nil {
		if isOracleError(perr) {
			return "skip"
		}
		return fmt.Sprintf("well-formed operator chain %q rejected: %v", text, perr)
	}
	want := refShape(refParse(ops))
	c := 0
	if got := implShape(e, &c, map[influxql.Expr]bool{}); got != want {
		return fmt.Sprintf("%q groups as %s, the five precedence levels give %s", text, got, want)
	}
	return ""
}

func propExprRoundTrip(text string, params map[string]interface{}, e influxql.Expr) string {
	// print → parse (texts without bound parameters: what was written is what is printed)
	if len(params) > 0 {
		return ""
	}
	printed := e.String()
	e2, perr2 := parseExprWith(printed, nil)
	if perr2 != nil {
		if isOracleError(perr2) {
			return ""
		}
		return fmt.Sprintf("%q parses, but its printed form %q does not: %v", text, printed, perr2)
	}
	if !exprEqual(e, e2) {
		return fmt.Sprintf("%q prints as %q, which parses to a different tree: %s vs %s", text, printed, sexpExpr(e), sexpExpr(e2))
	}
	return ""
}

// knownParseExpr classifies round-trip failures under the recorded findings.
func knownParseExpr(args []string) string {
	text, err := decStr(args[0])
	if err != nil {
		return ""
	}
	params, _ := decParams(args[1])
	e, perr := parseExprWith(text, params)
	if perr != nil {
		return ""
	}
	class := ""
	// (1) an unparenthesised `±1 * x` node (from unary minus/plus) below an operator of level 5
	// or on the right of any operator whose level is not below 5 re-groups when printed.
	influxql.WalkFunc(e, func(n influxql.Node) {
		be, ok := n.(*influxql.BinaryExpr)
		if !ok {
			return
		}
		for i, ch := range []influxql.Expr{be.LHS, be.RHS} {
			c, ok := ch.(*influxql.BinaryExpr)
			if !ok {
				continue
			}
			if il, ok := c.LHS.(*influxql.IntegerLiteral); ok && c.Op == influxql.MUL && (il.Val == 1 || il.Val == -1) {
				if (i == 1 && be.Op.Precedence() >= 5) || (i == 0 && false) {
					class = "negated-operand-printed-without-grouping"
				}
			}
		}
	})
	if class != "" {
		return class
	}
	// (2) call names are printed unquoted
	influxql.WalkFunc(e, func(n influxql.Node) {
		if c, ok := n.(*influxql.Call); ok && influxql.IdentNeedsQuotes(c.Name) && c.Name != "distinct" {
			class = "call-name-printed-unquoted"
		}
	})
	if class != "" {
		return class
	}
	return ""
}

func init() {
	register(&stream{name: "parse.chain", gen: genParseExpr, impl: implParseExpr, prop: propParseChain,
		class:      func(args []string, out string) string { return out[:2] },
		nontrivial: func(args []string, out string) bool { return strings.Count(args[0], ",") >= 3 }})
	register(&stream{name: "parse.errpos", gen: genErrPos, impl: implParseExpr, prop: propErrPos,
		class:      func(args []string, out string) string { return out[:2] },
		nontrivial: func(args []string, out string) bool { return strings.HasPrefix(out, "err") }})
	register(&stream{name: "parse.expr", gen: genParseExpr, impl: implParseExpr, prop: propParseExpr, known: knownParseExpr,
		class: func(args []string, out string) string {
			switch {
			case strings.HasPrefix(out, "ok (bin"):
				return "ok-binary"
			case strings.HasPrefix(out, "ok"):
				return "ok-atom"
			case strings.HasPrefix(out, "skip"):
				return "skip-oracle"
			case strings.HasPrefix(out, "panic"):
				return "panic"
			}
			return "error"
		},
		nontrivial: func(args []string, out string) bool { return strings.Count(args[0], ",") >= 3 }})
}

/-
Line protocol helpers for the oracle driver.
A case line is `<stream> <arg> <arg> ...`; arguments are
  s:<hex code points separated by ','>   a rune sequence (empty: `s:`)
  i:<decimal>                              an integer
  other words verbatim.
-/
namespace Oracle

def hexDigitVal (c : Char) : Option Nat :=
  if '0' ≤ c ∧ c ≤ '9' then some (c.toNat - 48)
  else if 'a' ≤ c ∧ c ≤ 'f' then some (c.toNat - 87)
  else if 'A' ≤ c ∧ c ≤ 'F' then some (c.toNat - 55)
  else none

def parseHex (s : String) : Option Nat :=
  if s.isEmpty then none else
  s.toList.foldl (fun acc c => match acc, hexDigitVal c with
    | some a, some d => some (a * 16 + d)
    | _, _ => none) (some 0)

/-- Decode `s:61,62` into runes. -/
def decStr (a : String) : Option (List Char) :=
  if !a.startsWith "s:" then none else
  let body := (a.drop 2).toString
  if body.isEmpty then some [] else
  (body.splitOn ",").foldr (fun h acc => match parseHex h, acc with
    | some n, some l => some (Char.ofNat n :: l)
    | _, _ => none) (some [])

def hexOfNat (n : Nat) : String := String.ofList (Nat.toDigits 16 n)

def encStr (l : List Char) : String :=
  "s:" ++ ",".intercalate (l.map fun c => hexOfNat c.toNat)

def decInt (a : String) : Option Int :=
  if !a.startsWith "i:" then none else (a.drop 2).toString.toInt?

def encInt (i : Int) : String := "i:" ++ toString i

end Oracle

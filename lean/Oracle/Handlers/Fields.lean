import Oracle.Sexp
import InfluxQL.Model.Fields
/-
Stream `fields.rewrite` (C12): `SelectStatement.RewriteFields` against a schema.
Case format: see harness/stream_fields.go.
-/
namespace Oracle.Handlers.Fields
open InfluxQL InfluxQL.Gen Oracle

def dataTypeOfNat : Nat → Option DataType
  | 0 => some .Unknown | 1 => some .Float | 2 => some .Integer | 3 => some .String | 4 => some .Boolean
  | 5 => some .Time | 6 => some .Duration | 7 => some .Tag | 8 => some .AnyField | 9 => some .Unsigned
  | _ => none

/-- `n<hex code points>` -/
def unhx (s : String) : Option Str :=
  if !s.startsWith "n" then none else decHexStr (s.drop 1).toString

def splitList (s : String) (sep : String) : List String :=
  if s.isEmpty then [] else s.splitOn sep

def decCols (s : String) : Option (List (Str × DataType)) :=
  (splitList s "+").mapM fun it =>
    match it.splitOn "=" with
    | [k, t] => do
      let name ← unhx k
      let n ← t.toNat?
      let ty ← dataTypeOfNat n
      pure (name, ty)
    | _ => none

def decNames (s : String) : Option (List Str) := (splitList s "+").mapM unhx

structure MSchema where
  name : Str
  err : Bool
  fields : List (Str × DataType)
  tags : List Str
  mt : List (Str × DataType)

def decSchema (a : String) : Option (List MSchema) :=
  if !a.startsWith "m:" then none else
  (splitList (a.drop 2).toString "|").mapM fun it =>
    match it.splitOn "/" with
    | [n, e, f, t, o] => do
      let name ← unhx n
      let fields ← decCols f
      let tags ← decNames t
      let mt ← decCols o
      pure { name := name, err := e == "1", fields := fields, tags := tags, mt := mt }
    | _ => none

/-- `x:<names>;<pairs>` -/
def decMatches (a : String) : Option (List Str × List (Str × Str)) :=
  if !a.startsWith "x:" then none else
  match (a.drop 2).toString.splitOn ";" with
  | [ns, ps] => do
    let names ← decNames ns
    let pairs ← (splitList ps "+").mapM fun it =>
      match it.splitOn "~" with
      | [r, n] => do
        let re ← unhx r
        let name ← unhx n
        pure (re, name)
      | _ => none
    pure (names, pairs)
  | _ => none

/-- `parseField` / `parseDimension`: a regex first, else an expression. -/
def parseFieldText (text : Str) (tbl : List (Char × Char)) : Except Fail Expr :=
  (do
    match ← parseRegex with
    | some re => pure re
    | none => parseExpr (fuelFor text)).run' (PState.init text [] tbl)

def lookupCol (k : Str) : List (Str × DataType) → Option DataType
  | [] => none
  | (k', t) :: rest => if k' = k then some t else lookupCol k rest

/-- The fixed `CallType` of the harness mapper (`schemaCallMapper.CallType`). -/
def harnessCallType (name : Str) (args : List DataType) : Except Str DataType :=
  if name = "mean".toList ∨ name = "median".toList ∨ name = "integral".toList ∨ name = "stddev".toList then .ok .Float
  else if name = "count".toList ∨ name = "elapsed".toList then .ok .Integer
  else if name = "badcall".toList then .error "bad call".toList
  else match args with
    | [] => .ok .Unknown
    | t :: _ => .ok t

def mkMapper (sch : List MSchema) (ct : Bool) : FieldMapper where
  fieldDimensions := fun ms =>
    match sch.find? (fun s => s.name = ms.name) with
    | none => .ok ([], [])
    | some s => if s.err then .error ("mapper error for ".toList ++ ms.name) else .ok (s.fields, s.tags)
  mapType := fun ms field =>
    match sch.find? (fun s => s.name = ms.name) with
    | none => .Unknown
    | some s =>
      match lookupCol field s.mt with
      | some t => t
      | none =>
        match lookupCol field s.fields with
        | some t => t
        | none => if field ∈ s.tags then .Tag else .Unknown
  callType := if ct then some harnessCallType else none

/-- Statement words in prefix notation (fuel: number of words). -/
def takeN {α} (f : List String → Option (α × List String)) : Nat → List String → Option (List α × List String)
  | 0, w => some ([], w)
  | n + 1, w => do
    let (x, w1) ← f w
    let (xs, w2) ← takeN f n w1
    pure (x :: xs, w2)

def mkStmt (fields : List Field) (dims : List Expr) (sources : List Source) (cond : Option Expr) : SelectStmt :=
  .mk fields none dims sources cond [] 0 0 0 0 false .null .none none [] false false [] false

def decStmt (tbl : List (Char × Char)) : Nat → List String → Option (Except String SelectStmt × List String)
  | 0, _ => none
  | fuel + 1, w =>
    match w with
    | "S" :: nf :: nd :: ns :: hc :: rest => do
      let nf ← nf.toNat?
      let nd ← nd.toNat?
      let ns ← ns.toNat?
      let (fs, w1) ← takeN (fun w => match w with
        | e :: a :: r => do
          let et ← decStr e
          let al ← decStr a
          pure ((et, al), r)
        | _ => none) nf rest
      let (ds, w2) ← takeN (fun w => match w with
        | e :: r => do pure (← decStr e, r)
        | _ => none) nd w1
      let (srcs, w3) ← takeN (fun w => match w with
        | "M" :: n :: r => do
          let name ← decStr n
          pure (Except.ok (Source.measurement { name := name }), r)
        | "Q" :: r => do
          let (st, r2) ← decStmt tbl fuel r
          pure (st.map Source.subquery, r2)
        | _ => none) ns w2
      let (condText, w4) ← (if hc == "1" then
          match w3 with
          | c :: r => do pure (some (← decStr c), r)
          | _ => none
        else some (none, w3))
      let build : Except String SelectStmt := do
        let fields ← fs.mapM fun (et, al) =>
          match parseFieldText et tbl with
          | .ok e => pure ({ expr := e, alias := al } : Field)
          | .error f => throw ("model-parse-fail " ++ showFail f)
        let dims ← ds.mapM fun et =>
          match parseFieldText et tbl with
          | .ok e => pure e
          | .error f => throw ("model-parse-fail " ++ showFail f)
        let sources ← srcs.mapM id
        let cond ← match condText with
          | none => pure none
          | some t =>
            match parseExprText t [] tbl with
            | .ok e => pure (some e)
            | .error f => throw ("model-parse-fail " ++ showFail f)
        pure (mkStmt fields dims sources cond)
      pure (build, w4)
    | _ => none

mutual
  def sexpStmt : SelectStmt → String
    | .mk fields _ dims sources cond _ _ _ _ _ _ _ _ _ _ _ _ _ _ =>
      "(stmt (fields" ++ String.join (fields.map fun f => " (f " ++ sexpExpr f.expr ++ " " ++ encStr f.alias ++ ")") ++
      ") (dims" ++ String.join (dims.map fun d => " " ++ sexpExpr d) ++
      ") (srcs" ++ sexpSources sources ++
      ") (cond " ++ (match cond with | none => "-" | some c => sexpExpr c) ++ "))"
  def sexpSources : List Source → String
    | [] => ""
    | s :: rest => sexpSource s ++ sexpSources rest
  def sexpSource : Source → String
    | .measurement m => " (m " ++ encStr m.name ++ ")"
    | .subquery st => " (q " ++ sexpStmt st ++ ")"
end

def render (r : Except Str SelectStmt) : String :=
  match r with
  | .ok st => "ok " ++ sexpStmt st
  | .error e => "err " ++ encStr e

/-- Operand of `types.eval`: the expression and, for a reference, the type the mapper gives it. -/
def evalOperand (kind : String) (name : Str) : Option (Expr × Option DataType) :=
  match kind with
  | "I" => some (.integer 1, none)
  | "U" => some (.unsigned 1, none)
  | "N" => some (.number ⟨false, 15, 1⟩, none)
  | "S" => some (.string ['s'], none)
  | "B" => some (.boolean true, none)
  | "D" => some (.duration 1, none)
  | "X" => some (.nil, none)
  | k =>
    if k.startsWith "r" then do
      let n ← (k.drop 1).toString.toNat?
      let t ← dataTypeOfNat n
      pure (.varRef name .Unknown, some t)
    else none

def handle (stream : String) (args : List String) : Option String :=
  match stream, args with
  | "types.less", [a, b] =>
    match decInt a, decInt b with
    | some x, some y =>
      match dataTypeOfNat x.toNat, dataTypeOfNat y.toNat with
      | some s, some t => some (if s.lessThan t then "true" else "false")
      | _, _ => some "bad-arg"
    | _, _ => some "bad-arg"
  | "types.eval", [o, l, r] =>
    match decInt o, evalOperand l ['l'], evalOperand r ['r'] with
    | some op, some (le, lt), some (re, rt) =>
      match Token.all[op.toNat]? with
      | none => some "bad-arg"
      | some tok =>
        let m : TypeMapper :=
          { mapType := fun _ f => if f = ['l'] then lt.getD .Unknown else if f = ['r'] then rt.getD .Unknown else .Unknown,
            callType := none }
        match evalTypeE m (resolveRef m [.measurement { name := ['m'] }]) (.binary tok le re) with
        | none => some "err"
        | some t => some ("ok " ++ toString t.toNat)
    | _, _, _ => some "bad-arg"
  | "fields.rewrite", ct :: sch :: x :: l :: words =>
    match decSchema sch, decMatches x, decLower l with
    | some schema, some (names, pairs), some tbl =>
      match decStmt tbl (words.length + 1) words with
      | some (.ok st, []) =>
        let m := mkMapper schema (ct == "ct:1")
        let re (dflt : Bool) (src name : Str) : Bool :=
          if names.contains name then pairs.contains (src, name) else dflt
        let out := render (rewriteFields m (re false) st)
        -- a name the generator did not foresee would make the answer depend on the default
        if out == render (rewriteFields m (re true) st) then some out else some "regex-oracle-miss"
      | some (.error e, []) => some e
      | _ => some "bad-arg"
    | _, _, _ => some "bad-arg"
  | _, _ => none

end Oracle.Handlers.Fields

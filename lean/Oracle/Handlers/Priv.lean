import Oracle.Proto
import InfluxQL.Model.Priv
/-
Stream `priv.required` (C19):

  priv.required s:<statement text> <Kind> f:<Name=hex;…> <exact 0|1|-> <sources> <select>

The model does not read the text: it rebuilds a `Statement` from the reduced description of the
AST (see harness/stream_priv.go for the grammar) and interprets the regenerated privilege table.
Output: `ok <n> <admin 0|1>/s:<name>/<privilege 0..3> …`.
-/
namespace Oracle.Handlers.Priv
open InfluxQL InfluxQL.Gen Oracle

def isDelim (c : Char) : Bool := c == ';' || c == ']' || c == '|' || c == '}'

def takeHex (cs : List Char) : List Char × List Char := cs.span (fun c => !isDelim c)

def decHexRunes (cs : List Char) : Option Str := decStr ("s:" ++ String.ofList cs)

def mkSelect (srcs : List Source) (target : Option Measurement) : SelectStmt :=
  .mk [] target [] srcs none [] 0 0 0 0 false .null .none none [] false false [] false

mutual
  def pSelect : Nat → List Char → Option (SelectStmt × List Char)
    | 0, _ => none
    | f + 1, '{' :: cs =>
      match pSources f cs with
      | none => none
      | some (srcs, rest) =>
        match rest with
        | '|' :: '-' :: '}' :: r => some (mkSelect srcs none, r)
        | '|' :: 't' :: r =>
          let (h, r') := takeHex r
          match r', decHexRunes h with
          | '}' :: r'', some db => some (mkSelect srcs (some { database := db, isTarget := true }), r'')
          | _, _ => none
        | _ => none
    | _ + 1, _ => none
  def pSources : Nat → List Char → Option (List Source × List Char)
    | 0, _ => none
    | _ + 1, '[' :: ']' :: cs => some ([], cs)
    | f + 1, '[' :: cs => pItems f cs
    | _ + 1, _ => none
  def pItems : Nat → List Char → Option (List Source × List Char)
    | 0, _ => none
    | f + 1, cs =>
      match pItem f cs with
      | none => none
      | some (it, ']' :: r) => some ([it], r)
      | some (it, ';' :: r) =>
        match pItems f r with
        | some (its, r') => some (it :: its, r')
        | none => none
      | some _ => none
  def pItem : Nat → List Char → Option (Source × List Char)
    | 0, _ => none
    | _ + 1, 'm' :: cs =>
      let (h, rest) := takeHex cs
      (decHexRunes h).map fun db => (.measurement { database := db }, rest)
    | f + 1, 'q' :: cs => (pSelect f cs).map fun (s, r) => (.subquery s, r)
    | _ + 1, _ => none
end

def decSources (a : String) : Option (Option (List Source)) :=
  if a == "-" then some none else
  match pSources (a.length + 2) a.toList with
  | some (srcs, []) => some (some srcs)
  | _ => none

def decSelect (a : String) : Option (Option SelectStmt) :=
  if a == "-" then some none else
  match pSelect (a.length + 2) a.toList with
  | some (s, []) => some (some s)
  | _ => none

def decExact (a : String) : Option Bool :=
  if a == "-" || a == "0" then some false else if a == "1" then some true else none

/-- `f:Name=hex;Name=hex` -/
def decFields (a : String) : Option (List (String × Str)) :=
  if !a.startsWith "f:" then none else
  let body := (a.drop 2).toString
  if body.isEmpty then some [] else
  (body.splitOn ";").mapM fun e =>
    match e.splitOn "=" with
    | [n, h] => (decStr ("s:" ++ h)).map fun v => (n, v)
    | _ => none

def privNat : Privilege → Nat
  | .none => 0 | .read => 1 | .write => 2 | .all => 3

def showPriv (p : ExecPriv) : String :=
  (if p.admin then "1" else "0") ++ "/" ++ encStr p.name ++ "/" ++ toString (privNat p.privilege)

def handle (stream : String) (args : List String) : Option String :=
  match stream, args with
  | "priv.required", [_, kind, fields, exact, sources, sel] =>
    match StmtKind.all.find? (fun k => k.name == kind), decFields fields, decExact exact, decSources sources, decSelect sel with
    | some k, some fs, some ex, some srcs, some sl =>
      let db := (fs.lookup "Database").getD []
      let st := Statement.skeleton k db ex (srcs.getD []) (sl.getD (mkSelect [] none))
      match requiredPrivileges st with
      | .ok ps => some ("ok " ++ toString ps.length ++ String.join (ps.map fun p => " " ++ showPriv p))
      | .error .nilTarget => some "panic-nil-target"
      | .error .emptyBase => some "panic-empty-base"
      | .error .noRule => some "no-rule"
    | none, _, _, _, _ => some ("unknown-kind " ++ kind)
    | _, _, _, _, _ => some "bad-arg"
  | "priv.required", _ => some "bad-arg"
  | _, _ => none

end Oracle.Handlers.Priv

import Oracle.Sexp
import InfluxQL.Model.Cond
/- Stream `cond.split` (C10): `ConditionExpr` on a parsed condition. -/
namespace Oracle.Handlers.Cond
open InfluxQL Oracle
open InfluxQL.CondTime

def decNow (a : String) : Option Int :=
  if a = "zero" then some zeroTime else decInt a

def decValuer (now : Int) (a : String) : Option (Option NowValuer) :=
  if a = "novaluer" then some none
  else if a = "noloc" then some (some ⟨now, none⟩)
  else if a.startsWith "off:" then
    match (a.drop 4).toString.toInt? with
    | some s => some (some ⟨now, some s⟩)
    | none => none
  else none

mutual
  /-- Time literals as `UnixNano()` shows them (the S-expression prints that accessor). -/
  def wrapTimes : Expr → Expr
    | .binary op l r => .binary op (wrapTimes l) (wrapTimes r)
    | .paren e => .paren (wrapTimes e)
    | .call n args => .call n (wrapTimesL args)
    | .time ns => .time (wrap64 ns)
    | e => e
  def wrapTimesL : List Expr → List Expr
    | [] => []
    | a :: rest => wrapTimes a :: wrapTimesL rest
end

def showBound (x : Int) : String := if x = zeroTime then "zero" else toString x

def dummyFA : FloatArith := fun _ _ _ => ⟨false, 0, 0⟩

def mkCtx (v : Option NowValuer) (tbl : List (Char × Char)) : CCtx :=
  { r := { valuer := v, fa := dummyFA }, lowerTbl := tbl }

def showErr (e : CondErr) : String :=
  match e with
  | .overflow t => "err " ++ encStr e.render ++ " sec=" ++ toString (t / 1000000000)
  | .underflow t => "err " ++ encStr e.render ++ " sec=" ++ toString (t / 1000000000)
  | _ => "err " ++ encStr e.render

def showSplit (res : Option Expr) (tr : TimeRange) : String :=
  let (sx, pr) := match res with
    | none => ("(none)", "-")
    | some e => (sexpExpr (wrapTimes e), encStr e.print)
  "ok " ++ sx ++ " " ++ pr ++ " min=" ++ showBound tr.min ++ " max=" ++ showBound tr.max ++
    " nano=" ++ toString tr.minTimeNano ++ "," ++ toString tr.maxTimeNano

def handle (stream : String) (args : List String) : Option String :=
  match stream, args with
  | "cond.split", [a, n, v, l] =>
    match decStr a, decNow n, decLower l with
    | some text, some now, some tbl =>
      match decValuer now v with
      | none => some "bad-arg"
      | some valuer =>
        match parseExprText text [] tbl with
        | .error _ => some "parse-error"
        | .ok e =>
          match ConditionExpr (mkCtx valuer tbl) (some e) with
          | .ok (res, tr) => some (showSplit res tr)
          | .error err => some (showErr err)
    | _, _, _ => some "bad-arg"
  | _, _ => none

end Oracle.Handlers.Cond

import Oracle.SexpStmt
import Oracle.Handlers.Priv
import InfluxQL.Model.PrivOfStmt
import InfluxQL.Model.ColumnsOfStmt
import Oracle.Handlers.Fields
import InfluxQL.Model.FieldsOfStmt
/-
Streams that run the model END TO END FROM THE STATEMENT TEXT (the part "text → AST" is the
statement parser model `parseStatementText`, not a description shipped by the Go side):

  priv.text s:<statement text> l:<lower table>
      ParseStatement(text).RequiredPrivileges()  -> ok <n> <admin 0|1>/s:<name>/<privilege> … | err s:<msg>
  columns.text s:<SELECT text> <omitTime 0|1> s:<timeAlias> l:<lower table> [arguments for the property oracle, not read]
      ParseStatement(text), OmitTime / TimeAlias set, ColumnNames()  -> ok <n> s:<name> … | err s:<msg> | not-select
  fields.text s:<SELECT text> ct:<0|1> m:<schema> x:<names;matching pairs> l:<lower table> [statement words of fields.rewrite, not read]
      ParseStatement(text).(*SelectStatement).RewriteFields(mapper of the schema)  -> ok (stmt …) | err s:<msg>   (as fields.rewrite)
-/
namespace Oracle.Handlers.TextTie
open InfluxQL InfluxQL.Gen Oracle Oracle.Handlers

def showPrivs (ps : List ExecPriv) : String :=
  "ok " ++ toString ps.length ++ String.join (ps.map fun p => " " ++ Oracle.Handlers.Priv.showPriv p)

def privText (a l : String) : String :=
  match decStr a, decLower l with
  | some text, some tbl =>
    -- the hypothesis of `C19.priv_text_total`, evaluated on the statement the model parser built
    match parseStatementText text [] tbl with
    | .ok st => if !st.privWellFormed then "parsed-statement-not-well-formed" else
      match privOfText text [] tbl with
      | .parseFail f => showFail f
      | .privFail .nilTarget => "panic-nil-target"
      | .privFail .emptyBase => "panic-empty-base"
      | .privFail .noRule => "no-rule"
      | .ok ps => showPrivs ps
    | .error _ =>
    match privOfText text [] tbl with
    | .parseFail f => showFail f
    | .privFail .nilTarget => "panic-nil-target"
    | .privFail .emptyBase => "panic-empty-base"
    | .privFail .noRule => "no-rule"
    | .ok ps => showPrivs ps
  | _, _ => "bad-arg"

def decFlag (a : String) : Option Bool :=
  if a == "0" then some false else if a == "1" then some true else none

def columnsText (a om ta l : String) : String :=
  match decStr a, decFlag om, decStr ta, decLower l with
  | some text, some omitTime, some timeAlias, some tbl =>
    match columnsOfText text [] tbl omitTime timeAlias with
    | .parseFail f => showFail f
    | .notSelect => "not-select"
    | .outOfFuel => "out-of-fuel"
    | .ok names => "ok " ++ toString names.length ++ String.join (names.map fun n => " " ++ encStr n)
  | _, _, _, _ => "bad-arg"

def fieldsText (a ct sch x l : String) : String :=
  match decStr a, Fields.decSchema sch, Fields.decMatches x, decLower l with
  | some text, some schema, some (names, pairs), some tbl =>
    let m := Fields.mkMapper schema (ct == "ct:1")
    let re (dflt : Bool) (src name : Str) : Bool :=
      if names.contains name then pairs.contains (src, name) else dflt
    match rewriteFieldsOfText m (re false) text [] tbl, rewriteFieldsOfText m (re true) text [] tbl with
    | .parseFail f, _ => showFail f
    | .notSelect, _ => "not-select"
    | .rewritten r, .rewritten r' =>
      -- a name the generator did not foresee would make the answer depend on the default
      if Fields.render r == Fields.render r' then Fields.render r else "regex-oracle-miss"
    | .rewritten _, _ => "regex-oracle-miss"
  | _, _, _, _ => "bad-arg"

def handle (stream : String) (args : List String) : Option String :=
  match stream, args with
  | "priv.text", [a, l] => some (privText a l)
  | "priv.text", _ => some "bad-arg"
  | "columns.text", a :: om :: ta :: l :: _ => some (columnsText a om ta l)
  | "columns.text", _ => some "bad-arg"
  | "fields.text", a :: ct :: sch :: x :: l :: _ => some (fieldsText a ct sch x l)
  | "fields.text", _ => some "bad-arg"
  | _, _ => none

end Oracle.Handlers.TextTie

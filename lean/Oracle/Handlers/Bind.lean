import Oracle.Sexp
import InfluxQL.Model.Bind
/- `bind.value g:<value>` (BindValue on the model's `GoVal`) and `bind.expr` (ParseExpr on a
template with bound parameters); encodings in harness/stream_bind.go. -/
namespace Oracle.Handlers.Bind
open InfluxQL Oracle

def splitFirst (s : String) (c : Char) : Option (String × String) :=
  match s.splitOn (String.singleton c) with
  | [] => none
  | [_] => none
  | a :: rest => some (a, (String.singleton c).intercalate rest)

/-- `e<hex>` / `v<payload>` -/
def decRes {α : Type} (s : String) (ok : String → Option α) : Option (Except Str α) :=
  if s.startsWith "e" then (decHexStr (s.drop 1).toString).map Except.error
  else if s.startsWith "v" then (ok (s.drop 1).toString).map Except.ok
  else none

def decGoVal : Nat → String → Option GoVal
  | 0, _ => none
  | fuel + 1, s =>
    if s.startsWith "f~" then (decHexStr (s.drop 2).toString).map GoVal.float
    else if s.startsWith "i" then do
      let (a, b) ← splitFirst (s.drop 1).toString '~'
      let i ← a.toInt?
      let t ← decHexStr b
      pure (.int i t)
    else if s.startsWith "s" then (decHexStr (s.drop 1).toString).map GoVal.str
    else if s = "b1" then some (.bool true)
    else if s = "b0" then some (.bool false)
    else if s.startsWith "j" then
      match (s.drop 1).toString.splitOn "~" with
      | [t, f, i] => do
        let text ← decHexStr t
        let asFloat ← decRes f decHexStr
        let asInt ← decRes i (fun p => do
          let (a, b) ← splitFirst p ':'
          let v ← a.toInt?
          let ft ← decHexStr b
          pure (v, ft))
        pure (.jsonNumber text asFloat asInt)
      | _ => none
    else if s.startsWith "t" then (decHexStr (s.drop 1).toString).map GoVal.other
    else if s = "m" then some .objectN
    else if s.startsWith "o" then do
      let (k, rest) ← splitFirst (s.drop 1).toString '='
      let key ← decHexStr k
      let v ← decGoVal fuel rest
      pure (.object key v)
    else none

def handle (stream : String) (args : List String) : Option String :=
  match stream, args with
  | "bind.value", [g] =>
    if !g.startsWith "g:" then some "bad-arg" else
    match decGoVal 8 (g.drop 2).toString with
    | none => some "bad-arg"
    | some v =>
      let b := bindValue v
      some (toString b.tokenType.toNat ++ "#" ++ ((encStr b.text).drop 2).toString)
  | "bind.expr", [a, p, l, _] =>
    match decStr a, decParams p, decLower l with
    | some text, some params, some tbl =>
      match parseExprText text params tbl with
      | .ok e => some ("ok " ++ sexpExpr e)
      | .error f => some (showFail f)
    | _, _, _ => some "bad-arg"
  | _, _ => none

end Oracle.Handlers.Bind

import Oracle.SexpStmt
import InfluxQL.Model.PrintStmt
import InfluxQL.Model.RewriteChecked
/-
Stream `rewrite.ops` (C13): `Rewrite(r, node)` of ast.go against `Checked.rewriteChecked`.

  rewrite.ops s:<text> p:<params> l:<lower> <flag> <rewriter> <target>

The text is parsed as one statement; `target` picks the node handed to `Rewrite` (`stmt`, `query` = a
`*Query` holding the statement, `sub` = a `*SubQuery` holding the SELECT, `fields`, `dims`, `cond`,
`src0`); `rewriter` is `id`, `paren` (wrap every expression in parentheses), `drop` (answer nil for a
variable reference) or `b-<kind>` (answer nodes of that kind with a `*Target`).
Output: `ok <kind of the result> [s:<its String()>]`, `panic <asserted Go type>`, `skip-…`.
-/
namespace Oracle.Handlers.Rewrite
open InfluxQL Oracle Checked

def kindName : Kind → String
  | .nil => "nil" | .query => "query" | .statements => "statements" | .select => "select"
  | .statement => "statement" | .fields => "fields" | .field => "field" | .dimensions => "dimensions"
  | .dimension => "dimension" | .sources => "sources" | .measurement => "measurement"
  | .subquery => "subquery" | .measurements => "measurements" | .sortFields => "sortFields"
  | .sortField => "sortField" | .target => "target" | .expr => "expr"

def allKinds : List Kind :=
  [.nil, .query, .statements, .select, .statement, .fields, .field, .dimensions, .dimension, .sources,
   .measurement, .subquery, .measurements, .sortFields, .sortField, .target, .expr]

def rewriterOf (name : String) : Option (Node → Node) :=
  match name with
  | "id" => some idRewriter
  | "paren" => some (exprRewriter .paren)
  | "drop" => some dropVarRefs
  | _ => (allKinds.find? fun k => "b-" ++ kindName k == name).map breakAt

def targetOf (target : String) (st : Statement) : Option Node :=
  match target, st with
  | "stmt", st => some (.statement st)
  | "query", st => some (.query [st])
  | "sub", .select s => some (.source (.subquery s))
  | "fields", .select s => some (.fields s.fields)
  | "dims", .select s => some (.dimensions s.dimensions)
  | "cond", .select s => s.condition.map .expr
  | "src0", .select s => s.sources.head?.map .source
  | _, _ => none

/-- The Go type the assertion of a site demands, as the runtime prints it. -/
def assertedType (site : Str) : String :=
  let tbl : List (Site × String) :=
    [(sRwStatements, "influxql.Statements"), (sRwStatement, "influxql.Statement"), (sRwFields, "influxql.Fields"),
     (sRwDimensions, "influxql.Dimensions"), (sRwSources, "influxql.Sources"), (sRwCond, "influxql.Expr"),
     (sRwSelect, "*influxql.SelectStatement"), (sRwField, "*influxql.Field"), (sRwNExpr, "influxql.Expr"),
     (sRwDimension, "*influxql.Dimension"), (sRwLHS, "influxql.Expr"), (sRwRHS, "influxql.Expr"),
     (sRwArg, "influxql.Expr")]
  match tbl.find? fun p => p.1.str == site with
  | some p => p.2
  | none => "?"

def joinStr (xs : List Str) : Str := (xs.intersperse [',', ' ']).flatten

def showNode (n : Node) : String :=
  kindName n.kind ++
    match n with
    | .statement st => " " ++ encStr st.print
    | .expr e => " " ++ encStr e.print
    | .fields fs => " " ++ encStr (joinStr (fs.map Field.print))
    | .field f => " " ++ encStr f.print
    | .dimensions ds => " " ++ encStr (joinStr (ds.map Expr.print))
    | .dimension d => " " ++ encStr d.print
    | .source s => " " ++ encStr s.print
    | _ => ""

def run (a p l rwName target : String) : String :=
  match decStr a, decParams p, decLower l with
  | some text, some params, some tbl =>
    match parseStatementText text params tbl with
    | .error _ => "skip-parse"
    | .ok st =>
      match rewriterOf rwName, targetOf target st with
      | some rw, some node =>
        match rewriteChecked rw node with
        | .ok m => "ok " ++ showNode m
        | .err _ => "err"
        | .panic site => "panic " ++ assertedType site
      | _, _ => "skip-target"
  | _, _, _ => "bad-arg"

def handle (stream : String) (args : List String) : Option String :=
  match stream with
  | "rewrite.ops" =>
    match args with
    | [a, p, l, _, rw, target] => some (run a p l rw target)
    | _ => some "bad-arg"
  | _ => none

end Oracle.Handlers.Rewrite

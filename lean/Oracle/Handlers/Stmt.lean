import Oracle.SexpStmt
import InfluxQL.Model.PrintStmt
/-
Streams over whole statements:
  parse.stmt  s:<text> p:<params> l:<lower> [flag]   ParseStatement  -> ok <sexp> | err s:<msg> | panic …
  parse.query s:<text> p:<params> l:<lower> [flag]   ParseQuery      -> ok (query <sexp>…) | err …
  print.stmt  s:<text> p:<params> l:<lower> [flag]   String() of the parsed statement -> ok s:<text> | err …
  total.stmt / total.query                            the same two on hostile inputs (C04)
A trailing free-form argument (the generator's validity flag) is ignored by the model.
-/
namespace Oracle.Handlers.Stmt
open InfluxQL Oracle

def withArgs (a p l : String) (k : Str → List (Str × BoundValue) → List (Char × Char) → String) : Option String :=
  match decStr a, decParams p, decLower l with
  | some text, some params, some tbl => some (k text params tbl)
  | _, _, _ => some "bad-arg"

def run (stream : String) (a p l : String) : Option String :=
  match (if stream = "bind.stmt" then "parse.stmt" else stream) with
  | "parse.stmt" => withArgs a p l fun text params tbl =>
    match parseStatementText text params tbl with
    | .ok s => "ok " ++ sexpStatement s
    | .error f => showFail f
  | "parse.query" => withArgs a p l fun text params tbl =>
    match parseQueryText text params tbl with
    | .ok ss => "ok " ++ sexpStatements ss
    | .error f => showFail f
  -- the same two entry points on hostile inputs (C04)
  | "total.stmt" => withArgs a p l fun text params tbl =>
    match parseStatementText text params tbl with
    | .ok s => "ok " ++ sexpStatement s
    | .error f => showFail f
  | "total.query" => withArgs a p l fun text params tbl =>
    match parseQueryText text params tbl with
    | .ok ss => "ok " ++ sexpStatements ss
    | .error f => showFail f
  | "print.stmt" => withArgs a p l fun text params tbl =>
    match parseStatementText text params tbl with
    | .ok s => "ok " ++ encStr s.print
    | .error f => showFail f
  | _ => none

def handle (stream : String) (args : List String) : Option String :=
  match args with
  | [a, p, l] => run stream a p l
  | [a, p, l, _] => run stream a p l
  | _ => if stream = "parse.stmt" ∨ stream = "parse.query" ∨ stream = "print.stmt" ∨ stream = "total.stmt" ∨ stream = "total.query" then some "bad-arg" else none

end Oracle.Handlers.Stmt

import Oracle.Proto
import InfluxQL.Model.Ring
import InfluxQL.Model.Scanner
import InfluxQL.Model.ScanOps
namespace Oracle.Handlers.Ring
open InfluxQL InfluxQL.Ring Oracle

/-- Reader operations from the letters of the case line. -/
def readerOps (w : String) : List (Op (Char × Pos) RSrc) :=
  w.toList.filterMap fun c =>
    if c = 'r' then some (.read readerNext) else if c = 'u' then some .unread
    else if c = 'c' then some .curr else none

def showRune (x : Char × Pos) : String :=
  hexOfNat x.1.toNat ++ "@" ++ toString x.2.line ++ ":" ++ toString x.2.char

/-- Token-ring operations: the source is the scanner's cursor, the producers are `Scan` and `ScanRegex`. -/
def tokenOps (w : String) : List (Op Lexeme Cursor) :=
  w.toList.filterMap fun c =>
    if c = 's' then some (.read scan) else if c = 'x' then some (.read scanRegex)
    else if c = 'u' then some .unread else if c = 'c' then some .curr else none

def showTok (lx : Lexeme) : String :=
  toString lx.tok.toNat ++ "#" ++ toString lx.pos.line ++ ":" ++ toString lx.pos.char ++ ":" ++
    ((encStr lx.lit).drop 2).toString

/-- The zero slot of `bufScanner.buf`: token 0 (ILLEGAL), `Pos{0,0}`, empty literal. -/
def zeroTok : Lexeme := { tok := .ILLEGAL, pos := ⟨0, 0⟩, lit := [] }

/-- Scanner calls from the letters of the case line. -/
def scanCalls (w : String) : List ScanOps.Call :=
  w.toList.filterMap fun c =>
    if c = 'S' then some .scan else if c = 'R' then some .scanRegex
    else if c = 'P' then some .peekRune else if c = 'C' then some .peekComment else none

def showOut : ScanOps.Out → String
  | .tok lx => showTok lx
  | .rune c => hexOfNat c.toNat
  | .bool b => if b then "t" else "f"

def handle (stream : String) (args : List String) : Option String :=
  match stream, args with
  | "ring.ops", [ops, a] =>
    match decStr a with
    | none => some "bad-arg"
    | some s =>
      match (readerInit s).run (readerOps ops) with
      | none => some "depth"
      | some (outs, _) => some ("ok " ++ "|".intercalate (outs.map showRune))
  | "ring.tok", [ops, a] =>
    match decStr a with
    | none => some "bad-arg"
    | some s =>
      match (Ring.init zeroTok (Cursor.ofRunes s)).run (tokenOps ops) with
      | none => some "depth"
      | some (outs, _) => some ("ok " ++ "|".intercalate (outs.map showTok))
  | "ring.scan", [ops, a] =>
    match decStr a with
    | none => some "bad-arg"
    | some s =>
      -- the transcribed scanner functions run on the ring as written
      match (ScanOps.opCalls (ScanOps.fuelFor s) (scanCalls ops)).runRing (readerInit s) with
      | none => some "depth"
      | some (outs, _) => some ("ok " ++ "|".intercalate (outs.map showOut))
  | _, _ => none

end Oracle.Handlers.Ring

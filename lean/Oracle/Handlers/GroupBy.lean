import Oracle.Sexp
import InfluxQL.Model.GroupBy
namespace Oracle.Handlers.GroupBy
open InfluxQL Oracle

def showInt : OpRes Int → String
  | .ok v => toString v
  | .err m => "err:" ++ ((encStr m).drop 2).toString
  | .panic _ => "panic"

def showNorm : OpRes (Int × List Str) → String
  | .ok (d, tags) => toString d ++ "/" ++ "/".intercalate (tags.map fun t => ((encStr t).drop 2).toString)
  | .err m => "err:" ++ ((encStr m).drop 2).toString
  | .panic _ => "panic"

/-- A dimension as `parseDimension` reads it: a regex, else an expression. -/
def parseDim (text : List Char) : Option Expr :=
  match text with
  | '/' :: _ => some (.regex [])      -- a regex dimension: neither a call nor a reference
  | _ =>
    match parseExprText text [] [] with
    | .ok e => some e
    | .error _ => none

def handle (stream : String) (args : List String) : Option String :=
  match stream with
  | "groupby.ops" =>
    match args.mapM decStr with
    | none => some "bad-arg"
    | some texts =>
      match texts.mapM parseDim with
      | none => some "skip-parse"
      | some dims =>
        some ("interval=" ++ showInt (groupByInterval dims) ++ ";offset=" ++ showInt (groupByOffset dims) ++
          ";normalize=" ++ showNorm (normalize dims) ++ ";")
  | _ => none

end Oracle.Handlers.GroupBy

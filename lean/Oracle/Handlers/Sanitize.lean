import Oracle.Proto
import InfluxQL.Model.Sanitize
namespace Oracle.Handlers.Sanitize
open InfluxQL Oracle

/-- `sanitize.text s:<runes as Go's regexp decodes the text> b:<raw bytes> <spans>`:
the model runs on the rune sequence; the answer is the rune sequence of `Sanitize(text)`. -/
def handle (stream : String) (args : List String) : Option String :=
  match stream, args with
  | "sanitize.text", a :: _ =>
    match decStr a with
    | none => some "bad-arg"
    | some s => some (encStr (InfluxQL.Sanitize.sanitize s))
  | "sanitize.print", [k, n, p, adm] =>
    match decStr n, decStr p with
    | some n, some p =>
      if k == "create" then some (encStr (InfluxQL.Sanitize.printCreateUser n p (adm == "true")))
      else if k == "set" then some (encStr (InfluxQL.Sanitize.printSetPasswordUser n p))
      else some "bad-arg"
    | _, _ => some "bad-arg"
  | _, _ => none

end Oracle.Handlers.Sanitize

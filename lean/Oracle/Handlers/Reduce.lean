import Oracle.Proto
import InfluxQL.Model.Reduce
import InfluxQL.Model.Float64
import InfluxQL.Model.TimeLit
/-
Streams of C09 (mirrors harness/stream_reduce.go).

  reduce.expr | reduce.time   <tree> <valuer> <bindings>           → tree of Reduce(e, valuer)
  eval.expr                   <tree> <ifd 0|1> <valuer> <bindings> → value of ValuerEval{valuer, ifd}.Eval(e)
  reduce.eval | reduce.ill    <tree> <bindings1> <bindings2>       → tree of Reduce(e, b1), Eval(Reduce(e, b1), b2),
                                                                      Eval(e, b1 ∪ b2)  (IntegerFloatDivision on)

tree: tokens in prefix order joined by `;` —
  B<op> l r | P e | C<n>:<hex name> a1..an | V<type>:<hex> | D:<hex> | W<tok> | R:<hex> | S:<hex> |
  F<bits> | I<int> | U<nat> | T0 | T1 | d<ns> | t<ns> | N | L<n>:<hex>|…|<hex> | Q:<hex>
value: n | b0 | b1 | i<int> | u<nat> | f<bits> | fnan | s:<hex> | t<ns> | d<ns> | r:<hex>
bindings: `-` or `<hex name>=<value>` joined by `;`
valuer: map | now/<ns>/<zone> | multi/<ns>/<zone>   (zone: `-` or seconds east)
Hex strings are code points joined by `,` as in `encStr` without the `s:` prefix.
-/
namespace Oracle.Handlers.Reduce
open InfluxQL InfluxQL.Gen Oracle

abbrev E := RExpr Float
abbrev Val := Value Float

def decHex (h : String) : Option (List Char) := decStr ("s:" ++ h)
def encHex (l : List Char) : String := (encStr l).drop 2 |>.toString

def afterColon (s : String) : Option (String × String) :=
  match s.splitOn ":" with
  | [a, b] => some (a, b)
  | _ => none

def tokenOfNat (n : Nat) : Option Token := Token.all[n]?

def dataTypeOfNat : Nat → DataType
  | 1 => .Float | 2 => .Integer | 3 => .String | 4 => .Boolean | 5 => .Time | 6 => .Duration
  | 7 => .Tag | 8 => .AnyField | 9 => .Unsigned | _ => .Unknown

def isNaNBits (f : Float) : Bool := f != f

def encFloat (f : Float) : String := if isNaNBits f then "nan" else toString f.toBits.toNat

/-- Parses one tree from the token list. -/
def parseTree : Nat → List String → Option (E × List String)
  | 0, _ => none
  | _, [] => none
  | fuel + 1, t :: rest =>
    let body := (t.drop 1).toString
    match t.front with
    | 'B' => do
      let op ← body.toNat? >>= tokenOfNat
      let (l, r1) ← parseTree fuel rest
      let (r, r2) ← parseTree fuel r1
      pure (.binary op l r, r2)
    | 'P' => do
      let (e, r1) ← parseTree fuel rest
      pure (.paren e, r1)
    | 'C' => do
      let (n, h) ← afterColon body
      let n ← n.toNat?
      let name ← decHex h
      let (args, r1) ← parseArgs fuel n rest
      pure (.call name args, r1)
    | 'V' => do
      let (n, h) ← afterColon body
      let n ← n.toNat?
      let name ← decHex h
      pure (.varRef name (dataTypeOfNat n), rest)
    | 'D' => do let (_, h) ← afterColon body; let s ← decHex h; pure (.distinct s, rest)
    | 'W' => do let tk ← body.toNat? >>= tokenOfNat; pure (.wildcard tk, rest)
    | 'R' => do let (_, h) ← afterColon body; let s ← decHex h; pure (.regex s, rest)
    | 'S' => do let (_, h) ← afterColon body; let s ← decHex h; pure (.str s, rest)
    | 'F' =>
      if body == "nan" then pure (.num floatNaN, rest)
      else do let b ← body.toNat?; pure (.num (Float.ofBits (UInt64.ofNat b)), rest)
    | 'I' => do let v ← body.toInt?; pure (.int v, rest)
    | 'U' => do let v ← body.toNat?; pure (.uint v, rest)
    | 'T' => pure (.bool (body == "1"), rest)
    | 'd' => do let v ← body.toInt?; pure (.dur v, rest)
    | 't' => do let v ← body.toInt?; pure (.time v, rest)
    | 'N' => pure (.nil, rest)
    | 'L' => do
      let (n, h) ← afterColon body
      let n ← n.toNat?
      let vals ← if n == 0 then some [] else (h.splitOn "|").mapM decHex
      pure (.list vals, rest)
    | 'Q' => do let (_, h) ← afterColon body; let s ← decHex h; pure (.boundParam s, rest)
    | _ => none
where
  parseArgs (fuel : Nat) : Nat → List String → Option (List E × List String)
    | 0, rest => some ([], rest)
    | n + 1, rest => do
      let (a, r1) ← parseTree fuel rest
      let (as, r2) ← parseArgs fuel n r1
      pure (a :: as, r2)

def decTree (a : String) : Option E :=
  let toks := a.splitOn ";"
  match parseTree (toks.length + 1) toks with
  | some (e, []) => some e
  | _ => none

mutual
  def encTree : E → List String
    | .binary op l r => ("B" ++ toString op.toNat) :: (encTree l ++ encTree r)
    | .paren e => "P" :: encTree e
    | .call name args => ("C" ++ toString args.length ++ ":" ++ encHex name) :: encArgs args
    | .varRef v t => ["V" ++ toString t.toNat ++ ":" ++ encHex v]
    | .distinct v => ["D:" ++ encHex v]
    | .wildcard t => ["W" ++ toString t.toNat]
    | .regex s => ["R:" ++ encHex s]
    | .str s => ["S:" ++ encHex s]
    | .num f => ["F" ++ encFloat f]
    | .int v => ["I" ++ toString v]
    | .uint v => ["U" ++ toString v]
    | .bool b => [if b then "T1" else "T0"]
    | .dur v => ["d" ++ toString v]
    | .time v => ["t" ++ toString v]
    | .nil => ["N"]
    | .list vals => ["L" ++ toString vals.length ++ ":" ++ "|".intercalate (vals.map encHex)]
    | .boundParam s => ["Q:" ++ encHex s]
  def encArgs : List E → List String
    | [] => []
    | a :: rest => encTree a ++ encArgs rest
end

def showTree (e : E) : String := ";".intercalate (encTree e)

def decValue (s : String) : Option Val :=
  let body := (s.drop 1).toString
  match s.front with
  | 'n' => some .nil
  | 'b' => some (.bool (body == "1"))
  | 'i' => body.toInt?.map .int
  | 'u' => body.toNat?.map .uint
  | 'f' => if body == "nan" then some (.float floatNaN) else body.toNat?.map fun b => .float (Float.ofBits (UInt64.ofNat b))
  | 's' => (decStr s).map .str
  | 't' => body.toInt?.map .time
  | 'd' => body.toInt?.map .dur
  | 'r' => (decStr ("s" ++ body)).map .regex
  | _ => none

def encValue : Val → String
  | .nil => "n"
  | .bool b => if b then "b1" else "b0"
  | .int v => "i" ++ toString v
  | .uint v => "u" ++ toString v
  | .float f => "f" ++ encFloat f
  | .str s => encStr s
  | .time t => "t" ++ toString t
  | .dur d => "d" ++ toString d
  | .regex s => "r:" ++ encHex s

def decBindings (a : String) : Option (List (Str × Val)) :=
  if a == "-" then some [] else
  (a.splitOn ";").mapM fun b =>
    match b.splitOn "=" with
    | [n, v] => do
      let name ← decHex n
      let v ← decValue v
      pure (name, v)
    | _ => none

def lookup (m : List (Str × Val)) (k : Str) : Option Val :=
  match m.find? (fun p => p.1 == k) with
  | some p => some p.2
  | none => none

def decZone (z : String) : Option (Option Int) :=
  if z == "-" then some none else z.toInt?.map some

def decValuer (a : String) (m : List (Str × Val)) : Option (Valuer Float) :=
  match a.splitOn "/" with
  | ["map"] => some (Valuer.map (lookup m))
  | ["now", ns, z] => do
    let ns ← ns.toInt?
    let z ← decZone z
    pure (Valuer.now ns z)
  | ["multi", ns, z] => do
    let ns ← ns.toInt?
    let z ← decZone z
    pure (Valuer.multi (Valuer.now ns z) (Valuer.map (lookup m)))
  | _ => none

def A := float64Alg
def S := goStrAlg

def handle (stream : String) (args : List String) : Option String :=
  match stream, args with
  | "reduce.expr", [t, v, b] | "reduce.time", [t, v, b] =>
    match decTree t, decBindings b with
    | some e, some m =>
      match decValuer v m with
      | some V => some (showTree (Reduce A S V e))
      | none => some "bad-arg"
    | _, _ => some "bad-arg"
  | "eval.expr", [t, ifd, v, b] =>
    match decTree t, decBindings b with
    | some e, some m =>
      match decValuer v m with
      | some V => some (encValue (eval A S (ifd == "1") V e))
      | none => some "bad-arg"
    | _, _ => some "bad-arg"
  | "reduce.eval", [t, b1, b2] | "reduce.ill", [t, b1, b2] =>
    match decTree t, decBindings b1, decBindings b2 with
    | some e, some m1, some m2 =>
      let red := Reduce A S (Valuer.map (lookup m1)) e
      let v1 := eval A S true (Valuer.map (lookup m2)) red
      let v2 := eval A S true (Valuer.map (lookup (m1 ++ m2))) e
      some (showTree red ++ " " ++ encValue v1 ++ " " ++ encValue v2)
    | _, _, _ => some "bad-arg"
  | _, _ => none

end Oracle.Handlers.Reduce

import Oracle.Sexp
import InfluxQL.Model.Columns
/-
Stream `columns.names` (C20):

  columns.names <omitTime 0|1> s:<timeAlias> <into 0|1> l:<lower table> (s:<field expression text> s:<alias>)*

Each field expression is parsed with the expression-parser model (`parseExprText`, no bound
parameters); output `ok <n> s:<name> …` or `err-parse <index>` when a field text does not parse.
-/
namespace Oracle.Handlers.Columns
open InfluxQL Oracle

def decFlag (a : String) : Option Bool :=
  if a == "0" then some false else if a == "1" then some true else none

def decFields (tbl : List (Char × Char)) : Nat → List String → Option (Except Nat (List Field))
  | _, [] => some (.ok [])
  | i, e :: a :: rest =>
    match decStr e, decStr a with
    | some text, some alias =>
      match parseExprText text [] tbl with
      | .error _ => some (.error i)
      | .ok ex =>
        match decFields tbl (i + 1) rest with
        | some (.ok fs) => some (.ok ({ expr := ex, alias := alias } :: fs))
        | other => other
    | _, _ => none
  | _, _ => none

def handle (stream : String) (args : List String) : Option String :=
  match stream, args with
  | "columns.names", om :: ta :: into :: l :: rest =>
    match decFlag om, decStr ta, decFlag into, decLower l with
    | some omitTime, some timeAlias, some hasTarget, some tbl =>
      match decFields tbl 0 rest with
      | none => some "bad-arg"
      | some (.error i) => some ("err-parse " ++ toString i)
      | some (.ok fields) =>
        match columnNamesOf fields hasTarget omitTime timeAlias with
        | none => some "out-of-fuel"
        | some names => some ("ok " ++ toString names.length ++ String.join (names.map fun n => " " ++ encStr n))
    | _, _, _, _ => some "bad-arg"
  | "columns.names", _ => some "bad-arg"
  | _, _ => none

end Oracle.Handlers.Columns

import Oracle.Handlers.Cond
import InfluxQL.Model.SetTimeRange
/- Stream `settimerange.seq` (C18): a condition and a list of windows; after each `SetTimeRange`
the printed condition, its tree and what `ConditionExpr` makes of it. -/
namespace Oracle.Handlers.SetTimeRange
open InfluxQL Oracle Oracle.Handlers.Cond
open InfluxQL.CondTime

/-- `w:<start>:<end>,<start>:<end>,...` -/
def decWindows (a : String) : Option (List Window) :=
  if !a.startsWith "w:" then none else
  let body := (a.drop 2).toString
  if body.isEmpty then some [] else
  (body.splitOn ",").mapM fun e =>
    match e.splitOn ":" with
    | [x, y] => do
      let s ← x.toInt?
      let t ← y.toInt?
      pure ⟨s, t⟩
    | _ => none

def obsCtx (tbl : List (Char × Char)) : CCtx := mkCtx (some ⟨946684800000000000, none⟩) tbl

def showStep (tbl : List (Char × Char)) (r : Except Fail Expr) : String :=
  match r with
  | .error _ => "set-error"
  | .ok c =>
    let obs := match ConditionExpr (obsCtx tbl) (some c) with
      | .ok (res, tr) => showSplit res tr
      | .error err => showErr err
    encStr c.print ++ " " ++ sexpExpr (wrapTimes c) ++ " " ++ obs

def handle (stream : String) (args : List String) : Option String :=
  match stream, args with
  | "settimerange.seq", [a, w, l] =>
    match decStr a, decWindows w, decLower l with
    | some text, some ws, some tbl =>
      let cond : Except Fail (Option Expr) :=
        if text.all (fun c => c = ' ') then .ok none
        else match parseExprText text [] tbl with
          | .ok e => .ok (some e)
          | .error f => .error f
      match cond with
      | .error _ => some "parse-error"
      | .ok c0 =>
        let steps := setTimeRangeSeq dummyFA tbl c0 ws
        some ("ok" ++ String.join (steps.map fun r => " | " ++ showStep tbl r))
    | _, _, _ => some "bad-arg"
  | _, _ => none

end Oracle.Handlers.SetTimeRange

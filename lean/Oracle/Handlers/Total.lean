import Oracle.Sexp
/- `total.expr s:<text> p:<params> l:<lower>`: ParseExpr on hostile inputs (format of parse.expr). -/
namespace Oracle.Handlers.Total
open InfluxQL Oracle

def handle (stream : String) (args : List String) : Option String :=
  match stream, args with
  | "total.expr", [a, p, l] =>
    match decStr a, decParams p, decLower l with
    | some text, some params, some tbl =>
      match parseExprText text params tbl with
      | .ok e => some ("ok " ++ sexpExpr e)
      | .error f => some (showFail f)
    | _, _, _ => some "bad-arg"
  | _, _ => none

end Oracle.Handlers.Total

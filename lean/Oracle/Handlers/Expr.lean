import Oracle.Sexp
namespace Oracle.Handlers.Expr
open InfluxQL Oracle

def handle (stream : String) (args : List String) : Option String :=
  match (if stream = "parse.chain" ∨ stream = "dur.literal" ∨ stream = "parse.errpos" then "parse.expr" else stream), args with
  | "parse.expr", [a, p, l] =>
    match decStr a, decParams p, decLower l with
    | some text, some params, some tbl =>
      match parseExprText text params tbl with
      | .ok e => some ("ok " ++ sexpExpr e)
      | .error f => some (showFail f)
    | _, _, _ => some "bad-arg"
  | _, _ => none

end Oracle.Handlers.Expr

import Oracle.Proto
import InfluxQL.Model.Quote
namespace Oracle.Handlers.Quote
open InfluxQL Oracle

def handle (stream : String) (args : List String) : Option String :=
  match stream, args with
  | "quote.str", [a] =>
    match decStr a with
    | none => some "bad-arg"
    | some s => some (encStr (quoteString s))
  | "quote.needs", [a] =>
    match decStr a with
    | none => some "bad-arg"
    | some s => some (toString (identNeedsQuotes s))
  | "quote.ident", segs =>
    match segs.mapM decStr with
    | none => some "bad-arg"
    | some ss => some (encStr (quoteIdent ss))
  | _, _ => none

end Oracle.Handlers.Quote

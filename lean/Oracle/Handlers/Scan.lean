import Oracle.Proto
import InfluxQL.Model.Scanner
namespace Oracle.Handlers.Scan
open InfluxQL Oracle

def showLexeme (lx : Lexeme) (r : Cursor) : String :=
  toString lx.tok.toNat ++ "#" ++ toString lx.pos.line ++ ":" ++ toString lx.pos.char ++ ":" ++
    ((encStr lx.lit).drop 2).toString ++ ":" ++ toString r.off

/-- `ops` then `Scan` until EOF (at most `|text| + 8` more tokens). -/
def runScanOps (ops : List Char) (text : List Char) : String :=
  let r0 := Cursor.ofRunes text
  let (outs, r1) := ops.foldl (fun (acc : List String × Cursor) c =>
      let (lx, r') := if c = 'R' then scanRegex acc.2 else scan acc.2
      (showLexeme lx r' :: acc.1, r')) ([], r0)
  let rec go : Nat → Cursor → List String → List String
    | 0, _, acc => acc
    | fuel + 1, r, acc =>
      let (lx, r') := scan r
      let acc := showLexeme lx r' :: acc
      if lx.tok = .EOF then acc else go fuel r' acc
  "|".intercalate (go (text.length + 8) r1 outs).reverse

def handle (stream : String) (args : List String) : Option String :=
  match stream, args with
  | "scan.ops", [ops, a, _] =>
    match decStr a with
    | none => some "bad-arg"
    | some s => some (runScanOps (ops.toList.filter (fun c => c = 'S' ∨ c = 'R')) s)
  | _, _ => none

end Oracle.Handlers.Scan

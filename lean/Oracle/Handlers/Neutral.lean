import Oracle.Sexp
/- `neutral.expr s:<template> l:<lower>`: both layouts of the template through the expression
parser model (see harness/stream_neutral.go for the template format). -/
namespace Oracle.Handlers.Neutral
open InfluxQL Oracle

def gapOpen : Char := Char.ofNat 0xE000
def gapMid : Char := Char.ofNat 0xE001
def gapClose : Char := Char.ofNat 0xE002

/-- Split a template into its base and variant texts (`none`: markers out of order). -/
def deriveLayouts (tpl : List Char) : Option (List Char × List Char) :=
  let step := fun (st : Option (Nat × List Char × List Char)) (c : Char) =>
    match st with
    | none => none
    | some (mode, b, v) =>
      if c = gapOpen then (if mode = 0 then some (1, b, v) else none)
      else if c = gapMid then (if mode = 1 then some (2, b, v) else none)
      else if c = gapClose then (if mode = 2 then some (0, b, v) else none)
      else if mode = 0 then some (0, c :: b, c :: v)
      else if mode = 1 then some (1, c :: b, v)
      else some (2, b, c :: v)
  match tpl.foldl step (some (0, [], [])) with
  | some (0, b, v) => some (b.reverse, v.reverse)
  | _ => none

def showRes (text : List Char) (tbl : List (Char × Char)) : String :=
  match parseExprText text [] tbl with
  | .ok e => "ok " ++ sexpExpr e
  | .error f => showFail f

def handle (stream : String) (args : List String) : Option String :=
  match stream, args with
  | "neutral.expr", [a, l] =>
    match decStr a, decLower l with
    | some tpl, some tbl =>
      match deriveLayouts tpl with
      | some (base, variant) => some (showRes base tbl ++ " | " ++ showRes variant tbl)
      | none => some "bad-template"
    | _, _ => some "bad-arg"
  | _, _ => none

end Oracle.Handlers.Neutral

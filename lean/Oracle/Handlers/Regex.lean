import Oracle.Sexp
import InfluxQL.Model.Regex
/-
Streams of C11.
  regex.match <mode i:N> <src s:…> <tree>            the rewritten condition
  regex.sem   <src s:…> <tree> <alphabet s:…> <bound i:N>   Search / FullMatch bit vectors
<tree> = `(op.flags.r,r,….sub sub …)` (op, flags decimal; runes hex) or `err`.
-/
namespace Oracle.Handlers.Regex
open InfluxQL InfluxQL.Rx InfluxQL.Gen Oracle

def decNat (cs : List Char) : Option Nat :=
  if cs.isEmpty then none else
  cs.foldl (fun acc c => match acc with
    | some a => if '0' ≤ c ∧ c ≤ '9' then some (a * 10 + (c.toNat - 48)) else none
    | none => none) (some 0)

def hexNat (cs : List Char) : Option Nat :=
  if cs.isEmpty then none else
  cs.foldl (fun acc c => match acc, hexDigitVal c with
    | some a, some d => some (a * 16 + d)
    | _, _ => none) (some 0)

/-- Split at the first `sep`. -/
def cut (sep : Char) : List Char → List Char × List Char
  | [] => ([], [])
  | c :: cs => if c = sep then ([], cs) else let (a, b) := cut sep cs; (c :: a, b)

def splitOnChar (sep : Char) : List Char → List (List Char)
  | [] => [[]]
  | c :: cs =>
    match splitOnChar sep cs with
    | [] => [[c]]
    | h :: t => if c = sep then [] :: h :: t else (c :: h) :: t

def decRunes (cs : List Char) : Option (List Nat) :=
  if cs.isEmpty then some [] else (splitOnChar ',' cs).mapM hexNat

mutual
  def parseNode : Nat → List Char → Option (Regex × List Char)
    | 0, _ => none
    | fuel + 1, '(' :: cs =>
      let (opS, r1) := cut '.' cs
      let (flS, r2) := cut '.' r1
      let (ruS, r3) := cut '.' r2
      match decNat opS, decNat flS, decRunes ruS with
      | some opN, some fl, some ru =>
        match Op.ofNat? opN, parseNodes fuel r3 with
        | some op, some (subs, rest) => some (.mk op fl ru subs, rest)
        | _, _ => none
      | _, _, _ => none
    | _, _ => none
  def parseNodes : Nat → List Char → Option (List Regex × List Char)
    | 0, _ => none
    | _ + 1, ')' :: cs => some ([], cs)
    | fuel + 1, cs =>
      match parseNode fuel cs with
      | none => none
      | some (r, rest) =>
        match parseNodes fuel rest with
        | none => none
        | some (rs, rest') => some (r :: rs, rest')
end

def decTree (a : String) : Option Regex :=
  let cs := a.toList
  match parseNode (cs.length + 1) cs with
  | some (r, []) => some r
  | _ => none

def condition (mode : Int) (src : Str) : Expr :=
  let re := Expr.regex src
  let v (n : String) := Expr.varRef n.toList .Unknown
  if mode = 0 then .binary .EQREGEX (v "t") re
  else if mode = 1 then .binary .NEQREGEX (v "t") re
  else if mode = 2 then .paren (.binary .NEQREGEX (v "t") re)
  else if mode = 3 then
    .binary .AND
      (.binary .AND (.binary .EQ (v "a") (.string ['x']))
        (.paren (.binary .OR (.binary .NEQREGEX (v "t") re) (.call ['f'] [.binary .EQREGEX (v "t") re]))))
      (.paren (.paren (.binary .EQREGEX (v "t") re)))
  else if mode = 4 then
    .binary .OR (.binary .EQREGEX (v "t") re)
      (.binary .AND (.binary .NEQREGEX (v "u") re) (.binary .EQ (v "t") (.string ['a', 'b'])))
  else
    .binary .AND (.binary .NEQREGEX (v "u") re) (.binary .EQREGEX (v "t") re)

/-- All strings over `alpha` of length ≤ `bound`, by length, then in alphabet order. -/
def enumerate (alpha : List Char) : Nat → List Str × List Str
  | 0 => ([[]], [[]])
  | n + 1 =>
    let (all, prev) := enumerate alpha n
    let cur := prev.flatMap fun p => alpha.map fun a => p ++ [a]
    (all ++ cur, cur)

def hexDigit (n : Nat) : Char := (Nat.toDigits 16 n).headD '0'

def bitsHex : List Bool → List Char
  | [] => []
  | a :: b :: c :: d :: rest =>
    hexDigit ((if a then 8 else 0) + (if b then 4 else 0) + (if c then 2 else 0) + (if d then 1 else 0)) :: bitsHex rest
  | [a, b, c] => [hexDigit ((if a then 8 else 0) + (if b then 4 else 0) + (if c then 2 else 0))]
  | [a, b] => [hexDigit ((if a then 8 else 0) + (if b then 4 else 0))]
  | [a] => [hexDigit (if a then 8 else 0)]

def handle (stream : String) (args : List String) : Option String :=
  match stream, args with
  | "regex.match", [m, s, t] =>
    match decInt m, decStr s with
    | some mode, some src =>
      if t = "err" then some "err" else
      match decTree t with
      | none => some "bad-tree"
      | some tree =>
        if !tree.wf then some "illformed-tree" else
        let parseRe : Str → Option Regex := fun x => if x = src then some tree else none
        match rewriteCondition parseRe (some (condition mode src)) with
        | some e => some (sexpExpr e)
        | none => some "(none)"
    | _, _ => some "bad-arg"
  | "regex.sem", [s, t, a, b] =>
    match decStr s, decStr a, decInt b with
    | some _, some alpha, some bound =>
      if t = "err" then some "err" else
      match decTree t with
      | none => some "bad-tree"
      | some tree =>
        if !tree.wf then some "illformed-tree" else
        if !supported tree then some "skip-unsupported" else
        let strs := (enumerate alpha bound.toNat).1
        let sb := strs.map (searchB tree)
        let fb := strs.map fun x => matchB tree [] x []
        -- the foreign rune (last but one of the alphabet) written as a stray byte: read as U+FFFD
        let bb := match alpha.reverse with
          | _ :: f :: _ => strs.map fun x => searchB tree (decodeStr (x.map fun c => if c = f then GoUnit.bad 255 else GoUnit.ch c))
          | _ => strs.map fun _ => false
        some ("n" ++ toString strs.length ++ " S" ++ String.ofList (bitsHex sb) ++ " F" ++ String.ofList (bitsHex fb)
          ++ " B" ++ String.ofList (bitsHex bb))
    | _, _, _ => some "bad-arg"
  | _, _ => none

end Oracle.Handlers.Regex

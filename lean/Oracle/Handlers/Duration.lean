import Oracle.Proto
import InfluxQL.Model.Duration
namespace Oracle.Handlers.Duration
open InfluxQL Oracle

def durErrMsg : DurErr → List Char
  | .invalid => "invalid duration".toList
  | .overflow m u => "overflowed duration ".toList ++ intDigits m ++ u ++ ": choose a smaller duration or INF".toList

def handle (stream : String) (args : List String) : Option String :=
  match stream, args with
  | "dur.parse", [a] =>
    match decStr a with
    | none => some "bad-arg"
    | some s =>
      match parseDuration s with
      | .ok d => some ("ok " ++ encInt d)
      | .error e => some ("err " ++ encStr (durErrMsg e))
  | "dur.bytes", [a, _] =>
    -- the runes Go's `[]rune(string(bytes))` conversion yields (invalid bytes are U+FFFD)
    match decStr a with
    | none => some "bad-arg"
    | some s =>
      match parseDuration s with
      | .ok d => some ("ok " ++ encInt d)
      | .error e => some ("err " ++ encStr (durErrMsg e))
  | "dur.format", [a] =>
    match decInt a with
    | none => some "bad-arg"
    | some d => some (encStr (formatDuration d))
  | _, _ => none

end Oracle.Handlers.Duration

import Oracle.Sexp
import InfluxQL.Model.ParserStmt
/- Canonical S-expressions of statements (mirrors the reflective dump of harness/sexp.go:
`(GoTypeName field …)` with the exported fields in declaration order). -/
namespace Oracle
open InfluxQL InfluxQL.Gen

def sBool (b : Bool) : String := if b then "true" else "false"

def sOptInt : Option Int → String
  | none => "(none)"
  | some v => "(some " ++ toString v ++ ")"

def sOptExpr : Option Expr → String
  | none => "(none)"
  | some e => sexpExpr e

def sList (xs : List String) : String := "(list" ++ String.join (xs.map fun x => " " ++ x) ++ ")"

def sexpMeasurement (m : Measurement) : String :=
  "(Measurement " ++ encStr m.database ++ " " ++ encStr m.retentionPolicy ++ " " ++ encStr m.name ++ " " ++
    (match m.regex with
     | none => "(none)"
     | some src => "(re " ++ encStr src ++ ")") ++ " " ++
    sBool m.isTarget ++ " " ++ encStr m.systemIterator ++ ")"

def sexpSortFields (fs : List SortField) : String :=
  sList (fs.map fun f => "(SortField " ++ encStr f.name ++ " " ++ sBool f.ascending ++ ")")

def sexpFields (fs : List Field) : String :=
  sList (fs.map fun f => "(Field " ++ sexpExpr f.expr ++ " " ++ encStr f.alias ++ ")")

def sexpDimensions (ds : List Expr) : String :=
  sList (ds.map fun d => "(Dimension " ++ sexpExpr d ++ ")")

def FillOption.toNat : FillOption → Nat
  | .null => 0 | .none => 1 | .number => 2 | .previous => 3 | .linear => 4

def Privilege.toNat : Privilege → Nat
  | .none => 0 | .read => 1 | .write => 2 | .all => 3

def sexpFillValue : FillValue → String
  | .none => "(none)"
  | .int v => "(int " ++ toString v ++ ")"
  | .num v => "(num " ++ encStr v.print ++ ")"

def sOptLoc : Option Str → String
  | none => "(none)"
  | some n => "(loc " ++ encStr n ++ ")"

mutual
  def sexpSource : Source → String
    | .measurement m => sexpMeasurement m
    | .subquery s => "(SubQuery " ++ sexpSelect s ++ ")"
  def sexpSelect : SelectStmt → String
    | .mk fields target dims sources cond sort limit offset slimit soffset raw fill fv loc ta ot sn en dd =>
      "(SelectStatement " ++ sexpFields fields ++ " " ++
        (match target with
         | none => "(none)"
         | some m => "(Target " ++ sexpMeasurement m ++ ")") ++ " " ++
        sexpDimensions dims ++ " (list" ++ sexpSourcesTail sources ++ ") " ++ sOptExpr cond ++ " " ++
        sexpSortFields sort ++ " " ++ toString limit ++ " " ++ toString offset ++ " " ++ toString slimit ++ " " ++
        toString soffset ++ " " ++ sBool raw ++ " " ++ toString (FillOption.toNat fill) ++ " " ++ sexpFillValue fv ++ " " ++
        sOptLoc loc ++ " " ++ encStr ta ++ " " ++ sBool ot ++ " " ++ sBool sn ++ " " ++ encStr en ++ " " ++ sBool dd ++ ")"
  def sexpSourcesTail : List Source → String
    | [] => ""
    | s :: rest => " " ++ sexpSource s ++ sexpSourcesTail rest
end

def sexpSources (ss : List Source) : String := "(list" ++ sexpSourcesTail ss ++ ")"

def sOptSource : Option Source → String
  | none => "(none)"
  | some s => sexpSource s

def sp (xs : List String) : String := " ".intercalate xs

def sexpStatement : Statement → String
  | .alterRetentionPolicy name db d n dflt sh fu pa =>
    "(AlterRetentionPolicyStatement " ++ sp [encStr name, encStr db, sOptInt d, sOptInt n, sBool dflt, sOptInt sh, sOptInt fu, sOptInt pa] ++ ")"
  | .createContinuousQuery name db src ev fo =>
    "(CreateContinuousQueryStatement " ++ sp [encStr name, encStr db, sexpSelect src, toString ev, toString fo] ++ ")"
  | .createDatabase name rpc d n rpn sh fu pa =>
    "(CreateDatabaseStatement " ++ sp [encStr name, sBool rpc, sOptInt d, sOptInt n, encStr rpn, toString sh, sOptInt fu, sOptInt pa] ++ ")"
  | .createRetentionPolicy name db d n dflt sh fu pa =>
    "(CreateRetentionPolicyStatement " ++ sp [encStr name, encStr db, toString d, toString n, sBool dflt, toString sh, toString fu, toString pa] ++ ")"
  | .createSubscription name db rp dests mode =>
    "(CreateSubscriptionStatement " ++ sp [encStr name, encStr db, encStr rp, sList (dests.map encStr), encStr mode] ++ ")"
  | .createUser name pw admin => "(CreateUserStatement " ++ sp [encStr name, encStr pw, sBool admin] ++ ")"
  | .deleteSeries ss c => "(DeleteSeriesStatement " ++ sp [sexpSources ss, sOptExpr c] ++ ")"
  | .delete s c => "(DeleteStatement " ++ sp [sOptSource s, sOptExpr c] ++ ")"
  | .dropContinuousQuery name db => "(DropContinuousQueryStatement " ++ sp [encStr name, encStr db] ++ ")"
  | .dropDatabase name => "(DropDatabaseStatement " ++ encStr name ++ ")"
  | .dropMeasurement name => "(DropMeasurementStatement " ++ encStr name ++ ")"
  | .dropRetentionPolicy name db => "(DropRetentionPolicyStatement " ++ sp [encStr name, encStr db] ++ ")"
  | .dropSeries ss c => "(DropSeriesStatement " ++ sp [sexpSources ss, sOptExpr c] ++ ")"
  | .dropShard id => "(DropShardStatement " ++ toString id ++ ")"
  | .dropSubscription name db rp => "(DropSubscriptionStatement " ++ sp [encStr name, encStr db, encStr rp] ++ ")"
  | .dropUser name => "(DropUserStatement " ++ encStr name ++ ")"
  | .explain s a v => "(ExplainStatement " ++ sp [sexpSelect s, sBool a, sBool v] ++ ")"
  | .grant p on user => "(GrantStatement " ++ sp [toString (Privilege.toNat p), encStr on, encStr user] ++ ")"
  | .grantAdmin user => "(GrantAdminStatement " ++ encStr user ++ ")"
  | .killQuery id host => "(KillQueryStatement " ++ sp [toString id, encStr host] ++ ")"
  | .revoke p on user => "(RevokeStatement " ++ sp [toString (Privilege.toNat p), encStr on, encStr user] ++ ")"
  | .revokeAdmin user => "(RevokeAdminStatement " ++ encStr user ++ ")"
  | .select s => sexpSelect s
  | .setPasswordUser pw name => "(SetPasswordUserStatement " ++ sp [encStr pw, encStr name] ++ ")"
  | .showContinuousQueries => "(ShowContinuousQueriesStatement)"
  | .showDatabases => "(ShowDatabasesStatement)"
  | .showDiagnostics m => "(ShowDiagnosticsStatement " ++ encStr m ++ ")"
  | .showFieldKeyCardinality db ex ss c ds l o =>
    "(ShowFieldKeyCardinalityStatement " ++ sp [encStr db, sBool ex, sexpSources ss, sOptExpr c, sexpDimensions ds, toString l, toString o] ++ ")"
  | .showFieldKeys db ss sf l o =>
    "(ShowFieldKeysStatement " ++ sp [encStr db, sexpSources ss, sexpSortFields sf, toString l, toString o] ++ ")"
  | .showGrantsForUser name => "(ShowGrantsForUserStatement " ++ encStr name ++ ")"
  | .showMeasurementCardinality ex db ss c ds l o =>
    "(ShowMeasurementCardinalityStatement " ++ sp [sBool ex, encStr db, sexpSources ss, sOptExpr c, sexpDimensions ds, toString l, toString o] ++ ")"
  | .showMeasurements db rp wdb wrp src c sf l o =>
    "(ShowMeasurementsStatement " ++ sp [encStr db, encStr rp, sBool wdb, sBool wrp, sOptSource src, sOptExpr c, sexpSortFields sf, toString l, toString o] ++ ")"
  | .showQueries => "(ShowQueriesStatement)"
  | .showRetentionPolicies db => "(ShowRetentionPoliciesStatement " ++ encStr db ++ ")"
  | .showSeries db ss c sf l o =>
    "(ShowSeriesStatement " ++ sp [encStr db, sexpSources ss, sOptExpr c, sexpSortFields sf, toString l, toString o] ++ ")"
  | .showSeriesCardinality db ex ss c ds l o =>
    "(ShowSeriesCardinalityStatement " ++ sp [encStr db, sBool ex, sexpSources ss, sOptExpr c, sexpDimensions ds, toString l, toString o] ++ ")"
  | .showShardGroups => "(ShowShardGroupsStatement)"
  | .showShards => "(ShowShardsStatement)"
  | .showStats m => "(ShowStatsStatement " ++ encStr m ++ ")"
  | .showSubscriptions => "(ShowSubscriptionsStatement)"
  | .showTagKeyCardinality db ex ss c ds l o =>
    "(ShowTagKeyCardinalityStatement " ++ sp [encStr db, sBool ex, sexpSources ss, sOptExpr c, sexpDimensions ds, toString l, toString o] ++ ")"
  | .showTagKeys db ss op key c sf l o sl so =>
    "(ShowTagKeysStatement " ++ sp [encStr db, sexpSources ss, toString op.toNat, sOptExpr key, sOptExpr c, sexpSortFields sf,
      toString l, toString o, toString sl, toString so] ++ ")"
  | .showTagValues db ss op key c sf l o =>
    "(ShowTagValuesStatement " ++ sp [encStr db, sexpSources ss, toString op.toNat, sOptExpr key, sOptExpr c, sexpSortFields sf,
      toString l, toString o] ++ ")"
  | .showTagValuesCardinality db ex ss op key c ds l o =>
    "(ShowTagValuesCardinalityStatement " ++ sp [encStr db, sBool ex, sexpSources ss, toString op.toNat, sOptExpr key, sOptExpr c,
      sexpDimensions ds, toString l, toString o] ++ ")"
  | .showUsers => "(ShowUsersStatement)"

def sexpStatements (ss : List Statement) : String :=
  "(query" ++ String.join (ss.map fun s => " " ++ sexpStatement s) ++ ")"

end Oracle

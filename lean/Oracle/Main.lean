import Oracle.Proto
import InfluxQL.Model.Duration
open InfluxQL Oracle

def durErrMsg : DurErr → List Char
  | .invalid => "invalid duration".toList
  | .overflow m u => "overflowed duration ".toList ++ intDigits m ++ u ++ ": choose a smaller duration or INF".toList

def handle (stream : String) (args : List String) : String :=
  match stream, args with
  | "dur.parse", [a] =>
    match decStr a with
    | none => "bad-arg"
    | some s =>
      match parseDuration s with
      | .ok d => "ok " ++ encInt d
      | .error e => "err " ++ encStr (durErrMsg e)
  | "dur.format", [a] =>
    match decInt a with
    | none => "bad-arg"
    | some d => encStr (formatDuration d)
  | _, _ => "bad-op"

partial def loop (hin : IO.FS.Stream) (hout : IO.FS.Stream) : IO Unit := do
  let line ← hin.getLine
  if line.isEmpty then return ()
  let ws := (line.trimAscii.toString.splitOn " ").filter (· ≠ "")
  match ws with
  | [] => hout.putStrLn "bad-op"
  | s :: args => hout.putStrLn (handle s args)
  loop hin hout

def main : IO Unit := do
  let hin ← IO.getStdin
  let hout ← IO.getStdout
  loop hin hout
  hout.flush

import Oracle.Proto
import InfluxQL.Model.Duration
import InfluxQL.Model.Scanner
import InfluxQL.Model.Quote
import Oracle.Sexp
open InfluxQL Oracle

def durErrMsg : DurErr → List Char
  | .invalid => "invalid duration".toList
  | .overflow m u => "overflowed duration ".toList ++ intDigits m ++ u ++ ": choose a smaller duration or INF".toList

def showLexeme (lx : Lexeme) (r : Cursor) : String :=
  toString lx.tok.toNat ++ "#" ++ toString lx.pos.line ++ ":" ++ toString lx.pos.char ++ ":" ++
    ((encStr lx.lit).drop 2).toString ++ ":" ++ toString r.off

/-- `ops` then `Scan` until EOF (at most `limit` more tokens). -/
def runScanOps (ops : List Char) (text : List Char) : String :=
  let r0 := Cursor.ofRunes text
  let (outs, r1) := ops.foldl (fun (acc : List String × Cursor) c =>
      let (lx, r') := if c = 'R' then scanRegex acc.2 else scan acc.2
      (showLexeme lx r' :: acc.1, r')) ([], r0)
  let rec go : Nat → Cursor → List String → List String
    | 0, _, acc => acc
    | fuel + 1, r, acc =>
      let (lx, r') := scan r
      let acc := showLexeme lx r' :: acc
      if lx.tok = .EOF then acc else go fuel r' acc
  "|".intercalate (go (text.length + 8) r1 outs).reverse

def handle (stream : String) (args : List String) : String :=
  match stream, args with
  | "dur.parse", [a] =>
    match decStr a with
    | none => "bad-arg"
    | some s =>
      match parseDuration s with
      | .ok d => "ok " ++ encInt d
      | .error e => "err " ++ encStr (durErrMsg e)
  | "dur.format", [a] =>
    match decInt a with
    | none => "bad-arg"
    | some d => encStr (formatDuration d)
  | "scan.ops", [ops, a, _] =>
    match decStr a with
    | none => "bad-arg"
    | some s => runScanOps (if ops = "-" then [] else ops.toList) s
  | "quote.str", [a] =>
    match decStr a with
    | none => "bad-arg"
    | some s => encStr (quoteString s)
  | "quote.needs", [a] =>
    match decStr a with
    | none => "bad-arg"
    | some s => toString (identNeedsQuotes s)
  | "quote.ident", segs =>
    match segs.mapM decStr with
    | none => "bad-arg"
    | some ss => encStr (quoteIdent ss)
  | "parse.expr", [a, p, l] =>
    match decStr a, decParams p, decLower l with
    | some text, some params, some tbl =>
      match parseExprText text params tbl with
      | .ok e => "ok " ++ sexpExpr e
      | .error f => showFail f
    | _, _, _ => "bad-arg"
  | _, _ => "bad-op"

partial def loop (hin : IO.FS.Stream) (hout : IO.FS.Stream) : IO Unit := do
  let line ← hin.getLine
  if line.isEmpty then return ()
  let ws := (line.trimAscii.toString.splitOn " ").filter (· ≠ "")
  match ws with
  | [] => hout.putStrLn "bad-op"
  | s :: args => hout.putStrLn (handle s args)
  loop hin hout

def main : IO Unit := do
  let hin ← IO.getStdin
  let hout ← IO.getStdout
  loop hin hout
  hout.flush

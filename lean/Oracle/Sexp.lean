import Oracle.Proto
import InfluxQL.Model.ParserCore
/- Canonical S-expressions of the model's ASTs (mirrors harness/sexp.go). -/
namespace Oracle
open InfluxQL InfluxQL.Gen

mutual
  def sexpExpr : Expr → String
    | .binary op l r => "(bin " ++ toString op.toNat ++ " " ++ sexpExpr l ++ " " ++ sexpExpr r ++ ")"
    | .paren e => "(paren " ++ sexpExpr e ++ ")"
    | .call name args => "(call " ++ encStr name ++ sexpArgs args ++ ")"
    | .varRef v t => "(ref " ++ encStr v ++ " " ++ toString t.toNat ++ ")"
    | .distinct v => "(distinct " ++ encStr v ++ ")"
    | .wildcard t => "(wild " ++ toString t.toNat ++ ")"
    | .regex src => "(re " ++ encStr src ++ ")"
    | .string v => "(str " ++ encStr v ++ ")"
    | .number v => "(num " ++ encStr v.print ++ ")"
    | .integer v => "(int " ++ toString v ++ ")"
    | .unsigned v => "(uint " ++ toString v ++ ")"
    | .boolean b => "(bool " ++ (if b then "true" else "false") ++ ")"
    | .duration ns => "(dur " ++ toString ns ++ ")"
    | .time ns => "(time " ++ toString ns ++ ")"
    | .nil => "(nil)"
    | .list vals => "(list" ++ String.join (vals.map fun v => " " ++ encStr v) ++ ")"
    | .boundParam name => "(bp " ++ encStr name ++ ")"
  def sexpArgs : List Expr → String
    | [] => ""
    | a :: rest => " " ++ sexpExpr a ++ sexpArgs rest
end

def decHexStr (h : String) : Option (List Char) := decStr ("s:" ++ h)

/-- `p:<name hex>/<goval>/<tok>/<text hex>;...` -/
def decParams (a : String) : Option (List (Str × BoundValue)) :=
  if !a.startsWith "p:" then none else
  let body := (a.drop 2).toString
  if body.isEmpty then some [] else
  (body.splitOn ";").mapM fun e =>
    match e.splitOn "/" with
    | [n, _, t, v] => do
      let name ← decHexStr n
      let tokN ← t.toNat?
      let tok ← Token.all[tokN]?
      let text ← decHexStr v
      pure (name, { tok := tok, text := text })
    | _ => none

/-- `l:<hex>-<hex>,...` -/
def decLower (a : String) : Option (List (Char × Char)) :=
  if !a.startsWith "l:" then none else
  let body := (a.drop 2).toString
  if body.isEmpty then some [] else
  (body.splitOn ",").mapM fun e =>
    match e.splitOn "-" with
    | [x, y] => do
      let a ← parseHex x
      let b ← parseHex y
      pure (Char.ofNat a, Char.ofNat b)
    | _ => none

def showFail : Fail → String
  | .err e => "err " ++ encStr e.render
  | .panic site => "panic " ++ encStr site
  | .fuel => "out-of-fuel"

end Oracle

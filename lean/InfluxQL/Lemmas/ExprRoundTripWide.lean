import InfluxQL.Lemmas.ExprLeavesWide
/-
Print → parse for the wide class of expressions (C03): `Lemmas/ExprRoundTrip.lean` + duration and
number literals of either sign, wildcards, `DISTINCT x`, `distinct(…)`, and call / type names
characterised by the lower-casing table itself (`lowerStr tbl name = name`) instead of a hypothesis
on the table. The continuation is the `ExprEnd` of `Lemmas/ExprSep.lean`, so the state-level form
serves inside statements too.
-/
namespace InfluxQL.RT
open InfluxQL Gen Prec

/-! ## the class -/

/-- The type names of a cast are lower-cased through the table before they are compared. -/
def castW (tbl : List (Char × Char)) (t : DataType) : Bool :=
  castB t && (castTok t != .IDENT || lowerStr tbl t.str == t.str)

def distinctName : Str := ['d', 'i', 's', 't', 'i', 'n', 'c', 't']

/-- **Call names in the image of the parser.** A name that is printed bare and scanned as one
identifier (or the keyword `distinct`), and that `strings.ToLower` (the table) leaves alone —
`parseCall` lower-cases every name, so no other `Call` node is ever returned. -/
def callNameW (tbl : List (Char × Char)) (name : Str) : Bool :=
  ((!identNeedsQuotes name && name != []) || name == distinctName) && lowerStr tbl name == name

mutual
  /-- **The wide printable class** (relative to the lower-casing table of the input). -/
  def wOK (tbl : List (Char × Char)) : Expr → Bool
    | .binary op l r =>
      op.isOperator && wOK tbl l && (if op.isRegexOp then regexLitB r else wOK tbl r) &&
        topGeB op.precedence l && topGeB (op.precedence + 1) r
    | .paren e => wOK tbl e
    | .call name args => callNameW tbl name && wOKArgs tbl args
    | .varRef v t => exprB v && (t == .Unknown || castW tbl t)
    | .string v => exprB v
    | .integer n => decide (minInt64 ≤ n) && decide (n ≤ maxInt64)
    | .unsigned v => decide (maxInt64 < (v : Int)) && decide ((v : Int) ≤ maxUInt64)
    | .boolean _ => true
    | .duration d => decide (minInt64 < d) && decide (d ≤ maxInt64)
    | .number d => d.canonical && d.finite
    | .wildcard t => wildB t
    | .distinct v => exprB v
    | _ => false
  def wOKArgs (tbl : List (Char × Char)) : List Expr → Bool
    | [] => true
    | a :: rest => (regexLitB a || wOK tbl a) && wOKArgs tbl rest
end

variable {tbl : List (Char × Char)}

theorem wOK_binary {op : Token} {l r : Expr} (h : wOK tbl (.binary op l r) = true) :
    op.isOperator = true ∧ wOK tbl l = true ∧ (if op.isRegexOp then regexLitB r = true else wOK tbl r = true) ∧
      topGeB op.precedence l = true ∧ topGeB (op.precedence + 1) r = true := by
  rw [wOK] at h
  simp only [Bool.and_eq_true] at h
  obtain ⟨⟨⟨⟨h1, h3⟩, h4⟩, h5⟩, h6⟩ := h
  refine ⟨h1, h3, ?_, h5, h6⟩
  split <;> simp_all

theorem wOK_wellGrouped (e : Expr) (h : wOK tbl e = true) : WellGrouped (toT e) := by
  fun_induction toT e with
  | case1 op l r ihl ihr =>
    obtain ⟨_, h3, h4, h5, h6⟩ := wOK_binary h
    refine ⟨topGeB_toT h5, topGeB_toT h6, ihl h3, ?_⟩
    split at h4
    · obtain ⟨src, rfl, _⟩ := regexLitB_elim h4
      trivial
    · exact ihr h4
  | case2 e hnb => trivial

/-- An operator of the chain with the operand after it. -/
def WOp (tbl : List (Char × Char)) (p : Token × Expr) : Prop :=
  p.1.isOperator = true ∧ NB p.2 ∧ (if p.1.isRegexOp then regexLitB p.2 = true else wOK tbl p.2 = true)

theorem wOK_chain (e : Expr) (h : wOK tbl e = true) : wOK tbl (firstA e) = true ∧ ∀ p ∈ opsOf e, WOp tbl p := by
  fun_induction opsOf e with
  | case1 op l r ihl ihr =>
    obtain ⟨h1, h3, h4, _, _⟩ := wOK_binary h
    refine ⟨(ihl h3).1, ?_⟩
    intro p hp
    simp only [List.mem_append, List.mem_cons] at hp
    by_cases hre : op.isRegexOp = true
    · rw [if_pos hre] at h4
      obtain ⟨src, rfl, hsrc⟩ := regexLitB_elim h4
      rcases hp with hp | rfl | hp
      · exact (ihl h3).2 p hp
      · refine ⟨h1, firstA_nb _, ?_⟩
        show (if op.isRegexOp = true then regexLitB (firstA (.regex src)) = true else _)
        rw [if_pos hre]; exact hsrc
      · simp [opsOf] at hp
    · rw [if_neg hre] at h4
      rcases hp with hp | rfl | hp
      · exact (ihl h3).2 p hp
      · refine ⟨h1, firstA_nb r, ?_⟩
        show (if op.isRegexOp = true then _ else wOK tbl (firstA r) = true)
        rw [if_neg hre]; exact (ihr h4).1
      · exact (ihr h4).2 p hp
  | case2 e hnb =>
    refine ⟨?_, fun p hp => by cases hp⟩
    rw [firstA_of_nb (fun op l r he => hnb op l r he)]; exact h

theorem sepU_printOpsW (rest : List (Token × Expr)) (k : List Char)
    (hrest : ∀ p ∈ rest, WOp tbl p) (hk : SepU k) : SepU (printOps rest ++ k) := by
  cases rest with
  | nil => exact hk
  | cons p rest =>
    obtain ⟨c, t, hct, h1, h2⟩ := headOK_of_B (binOps_head p.1 (isOperator_mem (hrest p (by simp)).1))
    refine Or.inr ⟨c, t ++ ' ' :: (p.2.print ++ printOps rest) ++ k, ?_, h1, h2⟩
    simp [printOps, hct]

theorem wOKArgs_cons {a : Expr} {rest : List Expr} (h : wOKArgs tbl (a :: rest) = true) :
    (regexLitB a = true ∨ wOK tbl a = true) ∧ wOKArgs tbl rest = true := by
  rw [wOKArgs] at h
  simpa using h

theorem callNameW_facts {name : List Char} (h : callNameW tbl name = true) :
    lowerStr tbl name = name ∧
      ((lookup name = .IDENT ∧ ∃ c tl, name = c :: tl ∧ isIdentFirstChar c = true ∧ ∀ y ∈ tl, isIdentChar y = true) ∨
        name = distinctName) := by
  unfold callNameW at h
  simp only [Bool.and_eq_true, Bool.or_eq_true, Bool.not_eq_true', bne_iff_ne, ne_eq, beq_iff_eq] at h
  obtain ⟨h1, h2⟩ := h
  refine ⟨h2, ?_⟩
  rcases h1 with ⟨h1, hne⟩ | h1
  · exact Or.inl ((identNeedsQuotes_false_iff name hne).mp h1)
  · exact Or.inr h1

theorem callName_word {name : List Char} (h : callNameW tbl name = true) :
    ∃ c tl, name = c :: tl ∧ isIdentFirstChar c = true ∧ (∀ y ∈ tl, isIdentChar y = true) ∧
      (lookup name = .IDENT ∨ lookup name = .DISTINCT) := by
  rcases (callNameW_facts h).2 with ⟨hl, c, tl, e, hc, htl⟩ | rfl
  · exact ⟨c, tl, e, hc, htl, Or.inl hl⟩
  · exact ⟨'d', _, rfl, by decide, by decide, Or.inr (by decide)⟩

/-- The old leaves, seen as members of the class of `ExprRoundTrip.lean`. -/
def OldLeaf (a : Expr) : Prop :=
  (∃ v, a = .string v) ∨ (∃ n, a = .integer n) ∨ (∃ n, a = .unsigned n) ∨ (∃ b, a = .boolean b) ∨
    (∃ v, a = .varRef v .Unknown)

theorem oldLeaf_rtOK {a : Expr} (h : OldLeaf a) (ha : wOK tbl a = true) : rtOK false a = true := by
  rcases h with ⟨v, rfl⟩ | ⟨n, rfl⟩ | ⟨n, rfl⟩ | ⟨b, rfl⟩ | ⟨v, rfl⟩
  · rw [wOK] at ha; rw [rtOK]; exact ha
  · rw [wOK] at ha; rw [rtOK]; exact ha
  · rw [wOK] at ha; rw [rtOK]; exact ha
  · rw [rtOK]
  · rw [wOK] at ha; rw [rtOK]; simpa using ha

theorem print_wildcard_star (t : Token) : ∃ rest, (Expr.wildcard t).print = '*' :: rest := by
  show ∃ rest, (if t = .FIELD then "*::field".toList else if t = .TAG then "*::tag".toList else ['*']) = '*' :: rest
  split
  · exact ⟨_, rfl⟩
  · split
    · exact ⟨_, rfl⟩
    · exact ⟨_, rfl⟩

/-- How the text of an operand of the wide class begins: not like a regex literal, a bound
parameter or a comment, and its first token is significant and no `)`. -/
theorem atomW_start (a : Expr) (ha : wOK tbl a = true) (hnb : NB a) (k : List Char) (hk : SepU k) :
    NoRegexStart (a.print ++ k) ∧
      ∀ r : Cursor, r.chars = a.print ++ k → (scan r).1.tok ≠ .RPAREN ∧ (scan r).1.tok ≠ .BOUNDPARAM ∧
        (scan r).1.tok ≠ .WS ∧ (scan r).1.tok ≠ .COMMENT := by
  have hminus : ∀ (d : Char) (t : List Char), isDigit d = true →
      NoRegexStart ('-' :: d :: t) ∧ ∀ r : Cursor, r.chars = '-' :: d :: t → (scan r).1.tok ≠ .RPAREN ∧
        (scan r).1.tok ≠ .BOUNDPARAM ∧ (scan r).1.tok ≠ .WS ∧ (scan r).1.tok ≠ .COMMENT := by
    intro d t hd
    refine ⟨⟨'-', _, rfl, by decide, by decide, by decide, by decide, fun _ => ⟨d, t, rfl, ?_⟩⟩, fun r hr => ?_⟩
    · intro e; subst e; revert hd; decide
    · rw [(scan_minus r d t hd hr).1]; exact ⟨by decide, by decide, by decide, by decide⟩
  cases a with
  | binary op l r => exact absurd rfl (hnb op l r)
  | paren e =>
    rw [print_paren]
    refine ⟨nrs_of '(' _ (by decide), fun r hr => ?_⟩
    rw [(scan_lparen r _ hr).1]; exact ⟨by decide, by decide, by decide, by decide⟩
  | string v => exact atom_sig (x := false) _ (oldLeaf_rtOK (Or.inl ⟨_, rfl⟩) ha) hnb k hk
  | integer n => exact atom_sig (x := false) _ (oldLeaf_rtOK (Or.inr (Or.inl ⟨_, rfl⟩)) ha) hnb k hk
  | unsigned n => exact atom_sig (x := false) _ (oldLeaf_rtOK (Or.inr (Or.inr (Or.inl ⟨_, rfl⟩))) ha) hnb k hk
  | boolean b => exact atom_sig (x := false) _ (oldLeaf_rtOK (Or.inr (Or.inr (Or.inr (Or.inl ⟨_, rfl⟩)))) ha) hnb k hk
  | varRef v t =>
    refine atom_sig (x := true) _ ?_ hnb k hk
    rw [wOK] at ha
    rw [rtOK]
    simp only [Bool.and_eq_true, Bool.or_eq_true, beq_iff_eq, castW, Bool.true_and] at ha ⊢
    exact ⟨ha.1, ha.2.imp id (fun h => h.1)⟩
  | call name args =>
    rw [wOK] at ha
    simp only [Bool.and_eq_true] at ha
    obtain ⟨c, tl, rfl, hc, htl, hlk⟩ := callName_word ha.1
    rw [print_call]
    refine ⟨by simpa using nrs_identFirst _ hc, fun r hr => ?_⟩
    have := scan_word r c tl ('(' :: (joinWith [',', ' '] (printArgs args) ++ [')'] ++ k)) hc htl
      (Or.inr ⟨'(', _, rfl, by decide, by decide, by decide⟩) (by rw [hr]; simp)
    rcases hlk with hlk | hlk <;> (rw [this.1, hlk]; exact ⟨by decide, by decide, by decide, by decide⟩)
  | duration d =>
    rw [wOK] at ha
    simp only [Bool.and_eq_true, decide_eq_true_eq] at ha
    rw [print_duration]
    by_cases h0 : 0 ≤ d
    · obtain ⟨q, sfx, hf, _⟩ := formatDuration_shape d h0
      obtain ⟨c, ct, e, hcd⟩ := natDigits_head_digit q
      refine ⟨by rw [hf, e]; exact nrs_digit _ hcd, fun r hr => ?_⟩
      rw [((scansAs_dur d h0 k (sepU_durEnd hk)).2.2 r hr).1]
      exact ⟨by decide, by decide, by decide, by decide⟩
    · rw [formatDuration_neg d (by omega)]
      obtain ⟨q, sfx, hf, _⟩ := formatDuration_shape (-d) (by omega)
      obtain ⟨c, ct, e, hcd⟩ := natDigits_head_digit q
      rw [hf, e]
      exact hminus c _ hcd
  | number d =>
    rw [print_number]
    by_cases hneg : d.neg = true
    · rw [Dec.print_neg d hneg, Dec.print_eq _ rfl]
      obtain ⟨c, ct, e, hcd⟩ := natDigits_head_digit (d.mant / 10 ^ d.scale)
      simp only [e]
      exact hminus c _ hcd
    · have hneg' : d.neg = false := by simpa using hneg
      rw [wOK] at ha
      simp only [Bool.and_eq_true] at ha
      obtain ⟨x0, t0, rfl, hx1, _, _, _, _, _⟩ := sepU_head_facts hk
      have hfne : d.fracDigits ≠ [] := by
        intro h
        have := d.fracDigits_length ha.1
        rw [h] at this
        have hc := ha.1
        unfold Dec.canonical at hc
        simp only [Bool.and_eq_true, decide_eq_true_eq] at hc
        simp at this; omega
      rw [Dec.print_eq d hneg']
      obtain ⟨c, ct, e, hcd⟩ := natDigits_head_digit (d.mant / 10 ^ d.scale)
      refine ⟨by rw [e]; exact nrs_digit _ hcd, fun r hr => ?_⟩
      rw [(scan_number_text r (natDigits (d.mant / 10 ^ d.scale)) d.fracDigits x0 t0 (natDigits_ne_nil _)
        (natDigits_all_digits _) hfne d.fracDigits_digits hx1 (by rw [hr]; simp)).1]
      exact ⟨by decide, by decide, by decide, by decide⟩
  | wildcard t =>
    obtain ⟨rest, e⟩ := print_wildcard_star t
    rw [e]
    refine ⟨nrs_of '*' _ (by decide), fun r hr => ?_⟩
    rw [(scan_star r _ hr).1]; exact ⟨by decide, by decide, by decide, by decide⟩
  | distinct v =>
    rw [print_distinct]
    refine ⟨nrs_identFirst (c := 'D') _ (by decide), fun r hr => ?_⟩
    have := scan_word r 'D' ['I', 'S', 'T', 'I', 'N', 'C', 'T'] (' ' :: (quoteIdent [v] ++ k)) (by decide) (by decide)
      (Or.inr ⟨' ', _, rfl, by decide, by decide, by decide⟩) (by rw [hr]; simp)
    rw [this.1.trans (show lookup ['D', 'I', 'S', 'T', 'I', 'N', 'C', 'T'] = Token.DISTINCT by decide)]
    exact ⟨by decide, by decide, by decide, by decide⟩
  | _ => simp [wOK] at ha

/-- The same for a whole expression followed by any operand separator. -/
theorem exprW_start (e : Expr) (he : wOK tbl e = true) (k : List Char) (hk : SepU k) :
    NoRegexStart (e.print ++ k) ∧
      ∀ r : Cursor, r.chars = e.print ++ k → (scan r).1.tok ≠ .RPAREN ∧ (scan r).1.tok ≠ .BOUNDPARAM ∧
        (scan r).1.tok ≠ .WS ∧ (scan r).1.tok ≠ .COMMENT := by
  obtain ⟨hfirst, hops⟩ := wOK_chain e he
  rw [print_chain e, List.append_assoc]
  exact atomW_start (firstA e) hfirst (firstA_nb e) _ (sepU_printOpsW _ k hops hk)

/-! ## the specifications -/

theorem SepC.noBlank {k : List Char} (hk : SepC k) : NoBlank k := by
  intro t e
  rcases hk with rfl | ⟨t', rfl | rfl⟩ <;>
    (simp only [List.cons.injEq] at e; exact absurd e.1 (by decide))

theorem Stand.at_of_sepC {s : PState} {k : List Char} (h : Stand s k) (hk : SepC k) : At s k := by
  rcases h with h | ⟨txt, e, _, _⟩
  · exact h
  · exact absurd e (hk.noBlank txt)

theorem tblOf {s s' : PState} (h : s.lowerTbl = tbl) (hs : Same s s') : s'.lowerTbl = tbl := hs.2.trans h

/-- `parseUnaryExpr` on the printed form of an operand of the wide class. -/
def WSpecU (tbl : List (Char × Char)) (F : Nat) : Prop := ∀ (s : PState) (a : Expr) (k : List Char),
  s.lowerTbl = tbl → wOK tbl a = true → NB a → SepU k → AtW s (a.print ++ k) →
  wp (parseUnaryExpr F) s (fun e' s' => e' = a ∧ At s' k ∧ Same s s') IsFuel

/-- The loop of `ParseExpr` on the printed operators and operands, followed by an `ExprEnd`. -/
def WSpecL (tbl : List (Char × Char)) (F : Nat) : Prop :=
  ∀ (s : PState) (root : Expr) (rest : List (Token × Expr)) (k : List Char),
  s.lowerTbl = tbl → (∀ p ∈ rest, WOp tbl p) → ExprEnd k → At s (printOps rest ++ k) →
  wp (exprLoop F root) s
    (fun e' s' => e' = rest.foldl (fun t p => insertOp t p.1 p.2) root ∧ Stand s' k ∧ Same s s') IsFuel

/-- `ParseExpr` on the printed form of an expression of the wide class. -/
def WSpecE (tbl : List (Char × Char)) (F : Nat) : Prop := ∀ (s : PState) (e : Expr) (k : List Char),
  s.lowerTbl = tbl → wOK tbl e = true → ExprEnd k → AtW s (e.print ++ k) →
  wp (parseExpr F) s (fun e' s' => e' = e ∧ Stand s' k ∧ Same s s') IsFuel

/-- `parseCall` after the opening parenthesis. -/
def WSpecC (tbl : List (Char × Char)) (F : Nat) : Prop :=
  ∀ (s : PState) (name : Str) (args : List Expr) (k : List Char),
  s.lowerTbl = tbl → callNameW tbl name = true → wOKArgs tbl args = true → SepU k → s.n = 0 →
  s.r.chars = joinWith [',', ' '] (printArgs args) ++ ')' :: k →
  wp (parseCall F name) s (fun e' s' => e' = .call name args ∧ At s' k ∧ Same s s') IsFuel

/-- The argument loop of `parseCall` after some arguments. -/
def WSpecA (tbl : List (Char × Char)) (F : Nat) : Prop :=
  ∀ (s : PState) (name : Str) (done rest : List Expr) (k : List Char),
  s.lowerTbl = tbl → wOKArgs tbl rest = true → SepU k → At s (printMore rest ++ ')' :: k) →
  wp (callArgs F name done) s (fun e' s' => e' = .call name (done ++ rest) ∧ At s' k ∧ Same s s') IsFuel

theorem wspecA_step (F : Nat) (ihE : WSpecE tbl F) (ihA : WSpecA tbl F) : WSpecA tbl (F + 1) := by
  intro s name done rest k htb hrest hk hat
  rw [callArgs, wp_bind]
  cases rest with
  | nil =>
    obtain ⟨lx, s1, r1, hrun, hsame, hj, _, htok⟩ := scanIW_close s (')' :: k) hat (Or.inr ⟨k, Or.inl rfl⟩)
    rcases htok with ⟨h, _⟩ | ⟨t, ht, htk, hch⟩ | ⟨t, ht, _, _⟩
    · cases h
    · simp only [List.cons.injEq, true_and] at ht
      subst ht
      rw [wp_of_run_ok hrun, wp_ite, if_pos (by rw [htk]; decide), wp_bind, unscan_wp, wp_bind,
        wp_of_run_ok (pscan_redeliver s1 lx r1 hj (by rw [htk]; decide))]
      dsimp only
      rw [wp_ite, if_neg (by rw [htk]; simp), wp_pure]
      exact ⟨by simp, hj.at (Or.inl hch), hsame⟩
    · cases ht
  | cons a rest' =>
    obtain ⟨ha, hrest'⟩ := wOKArgs_cons hrest
    obtain ⟨lx, s1, r1, hrun, hsame, hj, _, htok⟩ := scanIW_close s _ hat (Or.inr ⟨_, Or.inr rfl⟩)
    rcases htok with ⟨h, _⟩ | ⟨t, ht, _, _⟩ | ⟨t, ht, htk, hch⟩
    · cases h
    · cases ht
    · have ht' : t = ' ' :: (a.print ++ (printMore rest' ++ ')' :: k)) := by
        simp only [printMore, List.cons_append, List.cons.injEq, true_and, List.append_assoc] at ht
        exact ht.symm
      subst ht'
      rw [wp_of_run_ok hrun, wp_ite, if_neg (by rw [htk]; simp), wp_bind]
      have hs1r : s1.r.chars = ' ' :: (a.print ++ (printMore rest' ++ ')' :: k)) := by rw [hj.2.2]; exact hch
      rcases ha with ha | ha
      · obtain ⟨src, rfl, hsrc⟩ := regexLitB_elim ha
        obtain ⟨lx2, s2, hrun2, hj2, hch2, hsame2⟩ := parseRegex_text s1 src (printMore rest' ++ ')' :: k) hj.1 hsrc
          (Or.inr (by rw [hs1r, print_regex]; simp))
        rw [wp_of_run_ok hrun2]
        dsimp only
        refine wp_mono (ihA s2 name _ rest' k (tblOf htb (hsame.trans hsame2)) hrest' hk (hj2.at (Or.inl hch2))) ?_
          (fun _ h => h)
        intro e' s3 ⟨he', hat3, hsame3⟩
        exact ⟨by rw [he']; simp, hat3, (hsame.trans hsame2).trans hsame3⟩
      · have hsc := sepC_printMore rest' k
        obtain ⟨hnrs, _⟩ := exprW_start a ha _ (Or.inl hsc)
        obtain ⟨s2, hrun2, hn2, hch2, hsame2⟩ := parseRegex_none s1 _ hj.1 hnrs (Or.inr hs1r)
        rw [wp_of_run_ok hrun2]
        dsimp only
        rw [wp_bind]
        refine wp_mono (ihE s2 a _ (tblOf htb (hsame.trans hsame2)) ha (ExprEnd.of_sepC hsc)
          ⟨s2.r, Or.inl ⟨hn2, rfl⟩, Or.inl hch2⟩) ?_ (fun _ h => h)
        intro e' s3 ⟨he', hat3, hsame3⟩
        subst he'
        refine wp_mono (ihA s3 name _ rest' k (tblOf htb ((hsame.trans hsame2).trans hsame3)) hrest' hk
          (hat3.at_of_sepC hsc)) ?_ (fun _ h => h)
        intro e'' s4 ⟨he'', hat4, hsame4⟩
        exact ⟨by rw [he'']; simp, hat4, ((hsame.trans hsame2).trans hsame3).trans hsame4⟩

theorem wspecC_step (F : Nat) (ihE : WSpecE tbl F) (ihA : WSpecA tbl F) : WSpecC tbl (F + 1) := by
  intro s name args k htb hname hargs hk hn hch
  have hlow := (callNameW_facts hname).1
  rw [parseCall, wp_bind, wp_get]
  dsimp only
  rw [htb, hlow, wp_bind]
  cases args with
  | nil =>
    have hch' : s.r.chars = ')' :: k := by simpa [printArgs, joinWith] using hch
    obtain ⟨s2, hrun2, hn2, hch2, hsame2⟩ := parseRegex_none s (')' :: k) hn
      (nrs_of ')' k (by decide)) (Or.inl hch')
    rw [wp_of_run_ok hrun2]
    dsimp only
    have hclose := scan_close s2.r (')' :: k) (Or.inl hch2) (Or.inr ⟨k, Or.inl rfl⟩)
    rcases hclose with ⟨h, _⟩ | ⟨t, ht, htk, hcht⟩ | ⟨t, ht, _, _⟩
    · cases h
    · simp only [List.cons.injEq, true_and] at ht
      subst ht
      obtain ⟨s3, hrun3, hj3, hsame3⟩ := pscan_look s2 s2.r (Or.inl ⟨hn2, rfl⟩) (by rw [htk]; decide)
      rw [wp_bind, wp_of_run_ok hrun3, wp_ite, if_pos htk, wp_pure]
      exact ⟨rfl, hj3.at (Or.inl hcht), hsame2.trans hsame3⟩
    · cases ht
  | cons a rest =>
    obtain ⟨ha, hrest⟩ := wOKArgs_cons hargs
    rw [joinArgs_cons, List.append_assoc] at hch
    rcases ha with ha | ha
    · obtain ⟨src, rfl, hsrc⟩ := regexLitB_elim ha
      obtain ⟨lx2, s2, hrun2, hj2, hch2, hsame2⟩ := parseRegex_text s src (printMore rest ++ ')' :: k) hn hsrc
        (Or.inl (by rw [hch, print_regex]; simp))
      rw [wp_of_run_ok hrun2]
      dsimp only
      refine wp_mono (ihA s2 name _ rest k (tblOf htb hsame2) hrest hk (hj2.at (Or.inl hch2))) ?_ (fun _ h => h)
      intro e' s3 ⟨he', hat3, hsame3⟩
      exact ⟨by rw [he']; simp, hat3, hsame2.trans hsame3⟩
    · have hsc := sepC_printMore rest k
      obtain ⟨hnrs, htoks⟩ := exprW_start a ha _ (Or.inl hsc)
      obtain ⟨s2, hrun2, hn2, hch2, hsame2⟩ := parseRegex_none s _ hn hnrs (Or.inl hch)
      rw [wp_of_run_ok hrun2]
      dsimp only
      obtain ⟨htk1, htk2, _, _⟩ := htoks s2.r hch2
      obtain ⟨s3, hrun3, hj3, hsame3⟩ := pscan_look s2 s2.r (Or.inl ⟨hn2, rfl⟩) htk2
      rw [wp_bind, wp_of_run_ok hrun3, wp_ite, if_neg htk1, wp_bind, unscan_wp, wp_bind]
      have hsm : Same s (unsc s3) := (hsame2.trans hsame3).trans (unsc_same s3)
      refine wp_mono (ihE (unsc s3) a _ (tblOf htb hsm) ha (ExprEnd.of_sepC hsc)
        ⟨s2.r, look_unsc s3 s2.r hj3, Or.inl hch2⟩) ?_ (fun _ h => h)
      intro e' s4 ⟨he', hat4, hsame4⟩
      subst he'
      refine wp_mono (ihA s4 name _ rest k (tblOf htb (hsm.trans hsame4)) hrest hk (hat4.at_of_sepC hsc)) ?_
        (fun _ h => h)
      intro e'' s5 ⟨he'', hat5, hsame5⟩
      exact ⟨by rw [he'']; simp, hat5, (hsm.trans hsame4).trans hsame5⟩

theorem wspecE_step (F : Nat) (ihU : WSpecU tbl F) (ihL : WSpecL tbl F) : WSpecE tbl (F + 1) := by
  intro s e k htb he hk hat
  obtain ⟨hfirst, hops⟩ := wOK_chain e he
  rw [parseExpr, wp_bind]
  rw [print_chain e, List.append_assoc] at hat
  refine wp_mono (ihU s (firstA e) (printOps (opsOf e) ++ k) htb hfirst (firstA_nb e)
    (sepU_printOpsW _ k hops hk.1) hat) ?_ (fun _ h => h)
  intro a s1 ⟨ha, hat1, hsame1⟩
  subst ha
  refine wp_mono (ihL s1 (firstA e) (opsOf e) k (tblOf htb hsame1) hops hk hat1) ?_ (fun _ h => h)
  intro e' s2 ⟨he', hat2, hsame2⟩
  exact ⟨by rw [he', insertOp_chain e (wOK_wellGrouped e he)], hat2, hsame1.trans hsame2⟩

theorem wspecL_step (F : Nat) (ihU : WSpecU tbl F) (ihL : WSpecL tbl F) : WSpecL tbl (F + 1) := by
  intro s root rest k htb hrest hk hat
  rw [exprLoop, wp_bind]
  cases rest with
  | nil =>
    obtain ⟨_, T, hT, hTop⟩ := hk
    obtain ⟨lx, s1, hrun, htok, hst, hsame⟩ := scanIW_starts s k T (Or.inl (by simpa [printOps] using hat)) hT
    rw [wp_of_run_ok hrun]
    have hnop : (!lx.tok.isOperator) = true := by rw [htok, hTop]; rfl
    rw [wp_ite, if_pos hnop, wp_bind, unscan_wp, wp_pure]
    exact ⟨rfl, hst, hsame.trans (unsc_same s1)⟩
  | cons p rest' =>
    obtain ⟨hop, hnb, hok⟩ := hrest p (by simp)
    have hat' : AtW s (p.1.str ++ ' ' :: (p.2.print ++ (printOps rest' ++ k))) := by
      apply At.atW
      simpa [printOps] using hat
    obtain ⟨lx, s1, r1, hrun, htok, hlit, hj, hq, hsame⟩ := scanIW_first s _ hat'
      ((headOK_of_B (binOps_head p.1 (isOperator_mem hop))).append _) p.1 []
      (fun r => r.chars = ' ' :: (p.2.print ++ (printOps rest' ++ k)))
      (fun r hr => scan_op p.1 hop r _ hr)
      (by have := isOperator_mem hop; revert this; generalize p.1 = t; intro ht
          simp only [binOps, List.mem_cons, List.not_mem_nil, or_false] at ht
          rcases ht with h | h | h | h | h | h | h | h | h | h | h | h | h | h | h | h | h | h <;> subst h <;>
            exact ⟨by decide, by decide, by decide⟩)
    rw [wp_of_run_ok hrun]
    have hnop : ¬ (!lx.tok.isOperator) = true := by rw [htok, hop]; simp
    rw [wp_ite, if_neg hnop]
    dsimp only
    have hrest' : ∀ q ∈ rest', WOp tbl q := fun q hq => hrest q (by simp [hq])
    by_cases hre : p.1.isRegexOp = true
    · rw [if_pos hre] at hok
      obtain ⟨src, hp2, hsrc⟩ := regexLitB_elim hok
      rw [hp2, print_regex] at hq
      obtain ⟨lx2, s2, hrun2, hj2, hch2, hsame2⟩ := parseRegex_text s1 src (printOps rest' ++ k) hj.1 hsrc
        (Or.inr (by rw [hj.2.2]; simpa using hq))
      rw [wp_ite, if_pos (by rw [htok]; exact hre), wp_bind, wp_of_run_ok hrun2]
      dsimp only
      rw [wp_bind, wp_pure]
      refine wp_mono (ihL s2 _ rest' k (tblOf htb (hsame.trans hsame2)) hrest' hk (hj2.at (Or.inl hch2))) ?_ (fun _ h => h)
      intro e' s3 ⟨he', hat3, hsame3⟩
      exact ⟨by rw [he', htok, List.foldl_cons, hp2], hat3, (hsame.trans hsame2).trans hsame3⟩
    · rw [if_neg hre] at hok
      have hnre' : ¬ lx.tok.isRegexOp = true := by rw [htok]; exact hre
      rw [wp_ite, if_neg hnre', wp_bind]
      refine wp_mono (ihU s1 p.2 (printOps rest' ++ k) (tblOf htb hsame) hok hnb
        (sepU_printOpsW _ k hrest' hk.1) ⟨r1, Or.inl ⟨hj.1, hj.2.2⟩, Or.inr hq⟩) ?_ (fun _ h => h)
      intro a s2 ⟨ha, hat2, hsame2⟩
      subst ha
      refine wp_mono (ihL s2 _ rest' k (tblOf htb (hsame.trans hsame2)) hrest' hk hat2) ?_ (fun _ h => h)
      intro e' s3 ⟨he', hat3, hsame3⟩
      exact ⟨by rw [he', htok]; rfl, hat3, (hsame.trans hsame2).trans hsame3⟩

/-! ### type casts and calls, with the table condition of the class -/

theorem parseVarRef_castW (s : PState) (lx t1 : Lexeme) (hn : s.n = 2) (h1 : s.buf[1]? = some lx)
    (h0 : s.buf[0]? = some t1) (hlx : lx.tok = .IDENT) (ht1 : t1.tok = .DOUBLECOLON) (dt : DataType)
    (hdt : castB dt = true) (hlow : castTok dt = .IDENT → lowerStr s.lowerTbl dt.str = dt.str)
    (htok : (scan s.r).1.tok = castTok dt) (hlit : (scan s.r).1.lit = castLit dt) :
    parseVarRef.run s = .ok (.varRef lx.lit dt,
      { s with n := 0, r := (scan s.r).2, buf := ((scan s.r).1 :: s.buf).take 3 }) := by
  unfold parseVarRef
  rw [P.run_bind _ _ _ _ _ (parseSegmentedIdents_single s lx t1 hn h1 h0 hlx (by rw [ht1]; decide) (by rw [ht1]; decide))]
  rw [P.run_bind _ _ _ _ _ (pscan_buffered { s with n := 1 } 0 t1 rfl h0 (by rw [ht1]; decide))]
  simp only [ht1, if_true]
  have hps := pscan_fresh ({ s with n := 0 } : PState) rfl (by
    show (scan s.r).1.tok ≠ .BOUNDPARAM
    rw [htok]; cases dt <;> decide)
  rw [P.run_bind _ _ _ _ _ hps, P.run_bind _ _ _ _ _ (P.run_get _)]
  cases dt <;> first
    | (exfalso; revert hdt; decide)
    | (have hl := hlow rfl
       simp only [castTok, castLit] at htok hlit
       simp only [htok, hlit, hl]
       rfl)
    | (simp only [castTok, castLit] at htok hlit
       simp only [htok, hlit]
       rfl)

theorem unary_ident_castW (F : Nat) (s s1 : PState) (lx : Lexeme) (r1 : Cursor)
    (h1 : scanIW.run s = .ok (lx, s1)) (hj : Just s1 lx r1) (htok : lx.tok = .IDENT) (dt : DataType)
    (hdt : castB dt = true) (k : List Char) (hk : SepU k)
    (hlow : castTok dt = .IDENT → lowerStr s1.lowerTbl dt.str = dt.str)
    (hch : r1.chars = ':' :: ':' :: (dt.str ++ k)) :
    ∃ lx' s', (parseUnaryExpr (F + 1)).run s = .ok (.varRef lx.lit dt, s') ∧ Just s' lx' s'.r ∧ Rem s'.r k ∧
      Same s1 s' := by
  have hsig : lx.tok ≠ .BOUNDPARAM ∧ lx.tok ≠ .WS ∧ lx.tok ≠ .COMMENT := by rw [htok]; decide
  have hnp : ¬ lx.tok = .LPAREN := by rw [htok]; decide
  obtain ⟨hn0, hb0, hr0⟩ := hj
  subst hr0
  obtain ⟨hdc, hch2⟩ := scan_dcolon s1.r _ hch
  have hps := pscan_fresh s1 hn0 (by rw [hdc]; decide)
  obtain ⟨c1, c2, c3⟩ := scan_castword dt hdt k hk (scan s1.r).2 hch2
  have hvr := parseVarRef_castW
    (unsc (unsc { s1 with r := (scan s1.r).2, buf := ((scan s1.r).1 :: s1.buf).take 3 })) lx (scan s1.r).1
    (by simp [unsc, hn0]) (by simp [unsc, hb0]) (by simp [unsc]) htok hdc dt hdt hlow c1 c2
  refine ⟨(scan (scan s1.r).2).1, ?st, ?run, ?j, ?rem, ?sm⟩
  case run =>
    rw [parseUnaryExpr, P.run_bind _ _ _ _ _ h1, P.run_ite, if_neg hnp, P.run_bind _ _ _ _ _ (unscan_run' s1),
      P.run_bind _ _ _ _ _ (scanIW_redeliver s1 lx s1.r ⟨hn0, hb0, rfl⟩ hsig.1 hsig.2.1 hsig.2.2)]
    obtain ⟨tok, pos, lit⟩ := lx
    simp only at htok
    subst htok
    show (pscan >>= _).run s1 = _
    rw [P.run_bind _ _ _ _ _ hps, P.run_ite, if_neg (by rw [hdc]; decide), P.run_bind _ _ _ _ _ (unscan_run' _),
      P.run_bind _ _ _ _ _ (unscan_run' _)]
    exact hvr
  case j => exact ⟨rfl, by simp [unsc], rfl⟩
  case rem => exact c3
  case sm => exact ⟨rfl, rfl⟩

theorem wspecU_step (F : Nat) (ihE : WSpecE tbl F) (ihC : WSpecC tbl F) : WSpecU tbl (F + 1) := by
  intro s a k htb ha hnb hk hat
  have hold : OldLeaf a → wp (parseUnaryExpr (F + 1)) s (fun e' s' => e' = a ∧ At s' k ∧ Same s s') IsFuel :=
    fun ho => (rt_specs false (F + 1)).2.2.1 s a k (fun h => by cases h) (oldLeaf_rtOK ho ha) hnb hk hat
  cases a with
  | binary op l r => exact absurd rfl (hnb op l r)
  | string v => exact hold (Or.inl ⟨_, rfl⟩)
  | integer n => exact hold (Or.inr (Or.inl ⟨_, rfl⟩))
  | unsigned n => exact hold (Or.inr (Or.inr (Or.inl ⟨_, rfl⟩)))
  | boolean b => exact hold (Or.inr (Or.inr (Or.inr (Or.inl ⟨_, rfl⟩))))
  | duration d =>
    rw [wOK] at ha
    simp only [Bool.and_eq_true, decide_eq_true_eq] at ha
    rw [print_duration] at hat
    by_cases h0 : 0 ≤ d
    · exact leaf_duration (F + 1) s d k h0 ha.2 hk hat
    · exact leaf_duration_neg (F + 1) s d k (by omega) ha.1 hk hat
  | number d =>
    rw [wOK] at ha
    simp only [Bool.and_eq_true] at ha
    rw [print_number] at hat
    by_cases hneg : d.neg = true
    · exact leaf_number_neg (F + 1) s d k hneg ha.1 ha.2 hk hat
    · exact leaf_number (F + 1) s d k (by simpa using hneg) ha.1 ha.2 hk hat
  | wildcard t => exact leaf_wildcard (F + 1) s t k (by rw [wOK] at ha; exact ha) hk hat
  | distinct v => exact leaf_distinct (F + 1) s v k (exprB_expressible (by rw [wOK] at ha; exact ha)) hk hat
  | paren e =>
    have he : wOK tbl e = true := by rw [wOK] at ha; exact ha
    have hat' : AtW s ('(' :: (e.print ++ ')' :: k)) := by simpa [print_paren] using hat
    obtain ⟨lx, s1, r1, hrun, htok, _, hj, hq, hsame⟩ := scanIW_first s _ hat'
      ⟨'(', _, rfl, by decide, by decide⟩ .LPAREN [] (fun r => r.chars = e.print ++ ')' :: k)
      (fun r hr => by
        obtain ⟨h1, h2⟩ := scan_lparen r _ hr
        have hl : (scan r).1.lit = [] := by
          obtain ⟨c1, _, _⟩ := Cursor.chars_cons hr
          unfold scan; rw [c1]; rfl
        exact ⟨h1, hl, h2⟩)
      ⟨by decide, by decide, by decide⟩
    have hsc : SepC (')' :: k) := Or.inr ⟨k, Or.inl rfl⟩
    rw [parseUnaryExpr, wp_bind, wp_of_run_ok hrun, wp_ite, if_pos htok, wp_bind]
    refine wp_mono (ihE s1 e (')' :: k) (tblOf htb hsame) he (ExprEnd.of_sepC hsc)
      ⟨r1, Or.inl ⟨hj.1, hj.2.2⟩, Or.inl hq⟩) ?_ (fun _ h => h)
    intro e' s2 ⟨he', hst2, hsame2⟩
    subst he'
    obtain ⟨lx2, s3, r3, hrun3, hsame3, hj3, _, htok3⟩ := scanIW_close s2 (')' :: k) (hst2.at_of_sepC hsc) hsc
    rw [wp_bind, wp_of_run_ok hrun3]
    rcases htok3 with ⟨h, _⟩ | ⟨t, ht, htk, hch⟩ | ⟨t, ht, _, _⟩
    · cases h
    · simp only [List.cons.injEq, true_and] at ht
      subst ht
      dsimp only
      rw [wp_ite, if_neg (by rw [htk]; simp), wp_pure]
      exact ⟨rfl, hj3.at (Or.inl hch), (hsame.trans hsame2).trans hsame3⟩
    · cases ht
  | varRef v t =>
    by_cases htu : t = .Unknown
    · subst htu
      exact hold (Or.inr (Or.inr (Or.inr (Or.inr ⟨_, rfl⟩))))
    · rw [wOK] at ha
      simp only [Bool.and_eq_true, Bool.or_eq_true, beq_iff_eq] at ha
      obtain ⟨hv, ht⟩ := ha
      have hv' : Expressible v := exprB_expressible hv
      have hcw : castW tbl t = true := by
        rcases ht with h | h
        · exact absurd h htu
        · exact h
      unfold castW at hcw
      simp only [Bool.and_eq_true, Bool.or_eq_true, bne_iff_ne, ne_eq, beq_iff_eq] at hcw
      obtain ⟨hcb, hlw⟩ := hcw
      have hat' : AtW s (quoteIdent [v] ++ (':' :: ':' :: (t.str ++ k))) := by
        simpa [print_varRef, htu] using hat
      obtain ⟨lx, s1, r1, hrun, htok, hlit, hj, hq, hsame⟩ := scanIW_first s _ hat'
        ((headOK_quoteIdent v).append _) .IDENT v (fun r => r.chars = ':' :: ':' :: (t.str ++ k))
        (fun r hr => by
          have := scan_ident_text r v _ hv' (Or.inr ⟨':', _, rfl, by decide, by decide, by decide⟩) hr
          exact ⟨this.1, this.2.1, this.2.2.chars_of_cons (by decide)⟩)
        ⟨by decide, by decide, by decide⟩
      obtain ⟨lx', s', hrun', hj', hrem', hsame'⟩ := unary_ident_castW F s s1 lx r1 hrun hj htok t hcb k hk
        (fun hi => by
          rw [tblOf htb hsame]
          rcases hlw with h | h
          · exact absurd hi h
          · exact h) hq
      rw [wp_of_run_ok hrun']
      exact ⟨by rw [hlit], hj'.at hrem', hsame.trans hsame'⟩
  | call name args =>
    rw [wOK] at ha
    simp only [Bool.and_eq_true] at ha
    obtain ⟨hname, hargs⟩ := ha
    obtain ⟨c, tl, hnm, hc, htl, _⟩ := callName_word hname
    have hat' : AtW s (name ++ '(' :: (joinWith [',', ' '] (printArgs args) ++ ')' :: k)) := by
      simpa [print_call] using hat
    have hword : ∀ r : Cursor, r.chars = name ++ '(' :: (joinWith [',', ' '] (printArgs args) ++ ')' :: k) →
        (scan r).1.tok = lookup name ∧ (scan r).1.lit = (if lookup name = .IDENT then name else []) ∧
          (scan r).2.chars = '(' :: (joinWith [',', ' '] (printArgs args) ++ ')' :: k) := fun r hr => by
      have := scan_word r c tl ('(' :: (joinWith [',', ' '] (printArgs args) ++ ')' :: k)) hc htl
        (Or.inr ⟨'(', _, rfl, by decide, by decide, by decide⟩) (by rw [hr, hnm])
      rw [← hnm] at this
      exact ⟨this.1, this.2.1, this.2.2.chars_of_cons (by decide)⟩
    have hhead : HeadOK (name ++ '(' :: (joinWith [',', ' '] (printArgs args) ++ ')' :: k)) := by
      rw [hnm]; exact ⟨c, _, rfl, (isIdentFirstChar_facts hc).1, (isIdentFirstChar_facts hc).2.2.2.2⟩
    rcases (callNameW_facts hname).2 with ⟨hlk, _⟩ | hdist
    · obtain ⟨lx, s1, r1, hrun, htok, hlit, hj, hq, hsame⟩ := scanIW_first s _ hat' hhead
        .IDENT name (fun r => r.chars = '(' :: (joinWith [',', ' '] (printArgs args) ++ ')' :: k))
        (fun r hr => by
          have := hword r hr
          rw [hlk] at this
          exact ⟨this.1, by simpa using this.2.1, this.2.2⟩)
        ⟨by decide, by decide, by decide⟩
      have hsig : lx.tok ≠ .BOUNDPARAM ∧ lx.tok ≠ .WS ∧ lx.tok ≠ .COMMENT := by rw [htok]; decide
      have hnp : ¬ lx.tok = .LPAREN := by rw [htok]; decide
      rw [parseUnaryExpr, wp_bind, wp_of_run_ok hrun, wp_ite, if_neg hnp, wp_bind, unscan_wp, wp_bind,
        wp_of_run_ok (scanIW_redeliver s1 lx r1 hj hsig.1 hsig.2.1 hsig.2.2)]
      obtain ⟨hlp, hchp⟩ := scan_lparen r1 _ hq
      obtain ⟨s2, hrun2, hj2, hsame2⟩ := pscan_look s1 r1 (Or.inl ⟨hj.1, hj.2.2⟩) (by rw [hlp]; decide)
      obtain ⟨tok, pos, lit⟩ := lx
      simp only at htok hlit
      subst htok hlit
      dsimp only
      rw [wp_bind, wp_of_run_ok hrun2, wp_ite, if_pos hlp]
      refine wp_mono (ihC s2 lit args k (tblOf htb (hsame.trans hsame2)) hname hargs hk hj2.1
        (by rw [hj2.2.2]; exact hchp)) ?_ (fun _ h => h)
      intro e' s3 ⟨he', hat3, hsame3⟩
      exact ⟨he', hat3, (hsame.trans hsame2).trans hsame3⟩
    · have hlk : lookup name = .DISTINCT := by rw [hdist]; decide
      obtain ⟨lx, s1, r1, hrun, htok, _, hj, hq, hsame⟩ := scanIW_first s _ hat' hhead
        .DISTINCT [] (fun r => r.chars = '(' :: (joinWith [',', ' '] (printArgs args) ++ ')' :: k))
        (fun r hr => by
          have := hword r hr
          rw [hlk] at this
          exact ⟨this.1, by simpa using this.2.1, this.2.2⟩)
        ⟨by decide, by decide, by decide⟩
      have hsig : lx.tok ≠ .BOUNDPARAM ∧ lx.tok ≠ .WS ∧ lx.tok ≠ .COMMENT := by rw [htok]; decide
      have hnp : ¬ lx.tok = .LPAREN := by rw [htok]; decide
      rw [parseUnaryExpr, wp_bind, wp_of_run_ok hrun, wp_ite, if_neg hnp, wp_bind, unscan_wp, wp_bind,
        wp_of_run_ok (scanIW_redeliver s1 lx r1 hj hsig.1 hsig.2.1 hsig.2.2)]
      obtain ⟨hlp, hchp⟩ := scan_lparen r1 _ hq
      obtain ⟨s2, hrun2, hj2, hsame2⟩ := pscan_look s1 r1 (Or.inl ⟨hj.1, hj.2.2⟩) (by rw [hlp]; decide)
      obtain ⟨tok, pos, lit⟩ := lx
      simp only at htok
      subst htok
      dsimp only
      rw [wp_bind, wp_of_run_ok hrun2, wp_ite, if_pos hlp]
      have hnm' : "distinct".toList = name := by rw [hdist]; rfl
      rw [hnm']
      refine wp_mono (ihC s2 name args k (tblOf htb (hsame.trans hsame2)) hname hargs hk hj2.1
        (by rw [hj2.2.2]; exact hchp)) ?_ (fun _ h => h)
      intro e' s3 ⟨he', hat3, hsame3⟩
      exact ⟨he', hat3, (hsame.trans hsame2).trans hsame3⟩
  | _ => simp [wOK] at ha

/-- The specifications hold for every amount of fuel. -/
theorem w_specs (tbl : List (Char × Char)) (F : Nat) :
    WSpecE tbl F ∧ WSpecL tbl F ∧ WSpecU tbl F ∧ WSpecC tbl F ∧ WSpecA tbl F := by
  induction F with
  | zero =>
    refine ⟨?_, ?_, ?_, ?_, ?_⟩
    · intro s e k _ _ _ _; rw [parseExpr, wp_throw]; rfl
    · intro s root rest k _ _ _ _; rw [exprLoop, wp_throw]; rfl
    · intro s a k _ _ _ _ _; rw [parseUnaryExpr, wp_throw]; rfl
    · intro s name args k _ _ _ _ _ _; rw [parseCall, wp_throw]; rfl
    · intro s name done rest k _ _ _ _; rw [callArgs, wp_throw]; rfl
  | succ F ih =>
    obtain ⟨ihE, ihL, ihU, ihC, ihA⟩ := ih
    exact ⟨wspecE_step F ihU ihL, wspecL_step F ihU ihL, wspecU_step F ihE ihC, wspecC_step F ihE ihA,
      wspecA_step F ihE ihA⟩

/-! ## the whole text -/

theorem noCR_of_pred (p : Char → Bool) (hp : p '\r' = false) {l : List Char} (h : ∀ c ∈ l, p c = true) : NoCR l := by
  intro c hc e
  subst e
  rw [h _ hc] at hp
  cases hp

theorem noCR_single (c : Char) (h : c ≠ '\r') : NoCR [c] := by
  intro x hx; simp at hx; subst hx; exact h

theorem noCR_formatDuration_nonneg (d : Int) (h0 : 0 ≤ d) : NoCR (formatDuration d) := by
  obtain ⟨q, sfx, hf, hs⟩ := formatDuration_shape d h0
  rw [hf]
  refine (noCR_natDigits q).append ?_
  cases sfx with
  | nil => cases hs
  | cons c tail =>
    simp only [InfluxQL.suffixOK, Bool.and_eq_true, List.all_eq_true] at hs
    refine noCR_of_pred isDurTailChar (by decide) ?_
    intro y hy
    simp only [List.mem_cons] at hy
    rcases hy with rfl | hy
    · exact (isDurChar_facts hs.1).2.2.2
    · exact hs.2 y hy

theorem noCR_formatDuration (d : Int) : NoCR (formatDuration d) := by
  by_cases h0 : 0 ≤ d
  · exact noCR_formatDuration_nonneg d h0
  · rw [formatDuration_neg d (by omega)]
    exact (noCR_single '-' (by decide)).append (noCR_formatDuration_nonneg (-d) (by omega))

theorem noCR_decPrint (d : Dec) : NoCR d.print := by
  have hpos : ∀ d : Dec, d.neg = false → NoCR d.print := by
    intro d h
    rw [Dec.print_eq d h]
    exact (noCR_natDigits _).append ((noCR_single '.' (by decide)).append
      (noCR_of_pred isDigit (by decide) d.fracDigits_digits))
  by_cases h : d.neg = true
  · rw [Dec.print_neg d h]
    exact (noCR_single '-' (by decide)).append (hpos _ rfl)
  · exact hpos d (by simpa using h)

mutual
theorem printW_noCR : ∀ e : Expr, wOK tbl e = true → NoCR e.print
  | .binary op l r, h => by
    obtain ⟨h1, h3, h4, _, _⟩ := wOK_binary h
    rw [print_binary]
    have hop : NoCR op.str := by
      intro c hc
      have := List.all_eq_true.mp (binOps_noCR op (isOperator_mem h1)) c hc
      simpa using this
    have hsp : NoCR [' '] := noCR_single ' ' (by decide)
    have hr : NoCR r.print := by
      split at h4
      · obtain ⟨src, rfl, hsrc⟩ := regexLitB_elim h4
        exact noCR_regex src hsrc
      · exact printW_noCR r h4
    exact ((((printW_noCR l h3).append hsp).append hop).append hsp).append hr
  | .paren e, h => by
    have he : wOK tbl e = true := by rw [wOK] at h; exact h
    rw [print_paren]
    exact ((noCR_single '(' (by decide)).append (printW_noCR e he)).append (noCR_single ')' (by decide))
  | .string v, h => print_noCR (x := false) _ (oldLeaf_rtOK (Or.inl ⟨_, rfl⟩) h)
  | .integer n, h => print_noCR (x := false) _ (oldLeaf_rtOK (Or.inr (Or.inl ⟨_, rfl⟩)) h)
  | .unsigned v, h => print_noCR (x := false) _ (oldLeaf_rtOK (Or.inr (Or.inr (Or.inl ⟨_, rfl⟩))) h)
  | .boolean b, h => print_noCR (x := false) _ (oldLeaf_rtOK (Or.inr (Or.inr (Or.inr (Or.inl ⟨_, rfl⟩)))) h)
  | .varRef v t, h => by
    rw [wOK] at h
    simp only [Bool.and_eq_true, beq_iff_eq] at h
    obtain ⟨hv, _⟩ := h
    rw [print_varRef]
    refine (noCR_quoteIdent v (exprB_expressible hv)).append ?_
    split
    · intro c hc; cases hc
    · have h1 : NoCR [':', ':'] := by intro c hc; simp at hc; subst hc; decide
      exact h1.append (noCR_typeStr t)
  | .call name args, h => by
    rw [wOK] at h
    simp only [Bool.and_eq_true] at h
    obtain ⟨c, tl, hnm, hc, htl, _⟩ := callName_word h.1
    rw [print_call]
    have hname : NoCR name := by
      rw [hnm]
      refine noCR_of_pred isIdentChar (by decide) ?_
      intro y hy
      simp only [List.mem_cons] at hy
      rcases hy with rfl | hy
      · exact (isIdentFirstChar_facts hc).2.2.1
      · exact htl y hy
    exact ((hname.append (noCR_single '(' (by decide))).append (argsW_noCR args h.2)).append (noCR_single ')' (by decide))
  | .distinct v, h => by
    rw [print_distinct]
    have hv : Expressible v := exprB_expressible (by rw [wOK] at h; exact h)
    refine NoCR.append ?_ (noCR_quoteIdent v hv)
    intro c hc
    have : c ∈ ['D', 'I', 'S', 'T', 'I', 'N', 'C', 'T', ' '] := hc
    simp only [List.mem_cons, List.not_mem_nil, or_false] at this
    rcases this with rfl | rfl | rfl | rfl | rfl | rfl | rfl | rfl | rfl <;> decide
  | .wildcard t, h => by
    show NoCR (if t = .FIELD then "*::field".toList else if t = .TAG then "*::tag".toList else ['*'])
    split
    · exact noCR_of_pred (fun c => c != '\r') (by decide) (by decide)
    · split
      · exact noCR_of_pred (fun c => c != '\r') (by decide) (by decide)
      · exact noCR_single '*' (by decide)
  | .number d, _ => noCR_decPrint d
  | .duration d, _ => noCR_formatDuration d
  | .regex _, h => by simp [wOK] at h
  | .time _, h => by simp [wOK] at h
  | .nil, h => by simp [wOK] at h
  | .list _, h => by simp [wOK] at h
  | .boundParam _, h => by simp [wOK] at h
theorem argsW_noCR : ∀ args : List Expr, wOKArgs tbl args = true → NoCR (joinWith [',', ' '] (printArgs args))
  | [], _ => by intro c hc; simp [printArgs, joinWith] at hc
  | [a], h => by
    obtain ⟨ha, _⟩ := wOKArgs_cons h
    show NoCR a.print
    rcases ha with ha | ha
    · obtain ⟨src, rfl, hsrc⟩ := regexLitB_elim ha
      exact noCR_regex src hsrc
    · exact printW_noCR a ha
  | a :: b :: rest, h => by
    obtain ⟨ha, hr⟩ := wOKArgs_cons h
    show NoCR (a.print ++ [',', ' '] ++ joinWith [',', ' '] (printArgs (b :: rest)))
    have hsep : NoCR [',', ' '] := by intro c hc; simp at hc; rcases hc with rfl | rfl <;> decide
    refine (NoCR.append ?_ hsep).append (argsW_noCR (b :: rest) hr)
    rcases ha with ha | ha
    · obtain ⟨src, rfl, hsrc⟩ := regexLitB_elim ha
      exact noCR_regex src hsrc
    · exact printW_noCR a ha
end

/-- **Print → parse, wide class.** For every expression `e` of the wide class relative to the
lower-casing table `tbl`, `ParseExpr` on the text `e.String()` returns `e` — whatever the bound
parameters; no hypothesis on the table. -/
theorem parseExprText_printW (e : Expr) (params : List (Str × BoundValue)) (tbl : List (Char × Char))
    (h : wOK tbl e = true) : parseExprText e.print params tbl = .ok e := by
  have hch : (PState.init e.print params tbl).r.chars = e.print ++ [eofRune] := by
    show (Cursor.ofRunes e.print).chars = _
    rw [chars_ofRunes]
    have := foldCR_append_of_no_cr e.print [] (printW_noCR e h)
    rw [List.append_nil] at this
    rw [this]; simp [foldCR]
  have hat : AtW (PState.init e.print params tbl) (e.print ++ [eofRune]) :=
    ⟨_, Or.inl ⟨rfl, rfl⟩, Or.inl hch⟩
  have hwp := (w_specs tbl (fuelFor e.print)).1 (PState.init e.print params tbl) e [eofRune] rfl h
    (ExprEnd.of_sepC (Or.inl rfl)) hat
  have htot := parseExprText_total e.print params tbl
  unfold parseExprText at htot ⊢
  unfold wp at hwp
  show (Prod.fst <$> (parseExpr (fuelFor e.print)).run (PState.init e.print params tbl)) = .ok e
  change match (Prod.fst <$> (parseExpr (fuelFor e.print)).run (PState.init e.print params tbl)) with
    | .ok _ => True
    | .error f => f.isErr at htot
  cases hr : (parseExpr (fuelFor e.print)).run (PState.init e.print params tbl) with
  | error f =>
    rw [hr] at hwp htot
    have hf : f = .fuel := hwp
    subst hf
    exact absurd htot (by intro h; exact h)
  | ok p =>
    rw [hr] at hwp
    obtain ⟨he, _, _⟩ := hwp
    show Except.ok p.1 = Except.ok e
    rw [he]

/-! ## the class does not depend on the table when the table only has non-ASCII entries -/

theorem lowerRune_capital (tbl : List (Char × Char)) (c : Char) (h1 : 65 ≤ c.toNat) (h2 : c.toNat ≤ 90) :
    lowerRune tbl c ≠ c := by
  unfold lowerRune
  rw [if_pos ⟨h1, h2⟩]
  have hc : c = Char.ofNat c.toNat := (Char.ofNat_toNat c).symm
  generalize c.toNat = n at h1 h2 hc
  have hn : n = 65 ∨ n = 66 ∨ n = 67 ∨ n = 68 ∨ n = 69 ∨ n = 70 ∨ n = 71 ∨ n = 72 ∨ n = 73 ∨ n = 74 ∨ n = 75 ∨ n = 76 ∨ n = 77 ∨ n = 78 ∨ n = 79 ∨ n = 80 ∨ n = 81 ∨ n = 82 ∨ n = 83 ∨ n = 84 ∨ n = 85 ∨ n = 86 ∨ n = 87 ∨ n = 88 ∨ n = 89 ∨ n = 90 := by omega
  subst hc
  rcases hn with rfl | rfl | rfl | rfl | rfl | rfl | rfl | rfl | rfl | rfl | rfl | rfl | rfl | rfl | rfl | rfl | rfl | rfl | rfl | rfl | rfl | rfl | rfl | rfl | rfl | rfl <;> decide

/-- A name with an ASCII capital letter is changed by `strings.ToLower`, whatever the table: no
`Call` node the parser returns has such a name, and none is in the class. -/
theorem lowerStr_ascii_capital (tbl : List (Char × Char)) (name : List Char) (c : Char) (hc : c ∈ name)
    (h1 : 65 ≤ c.toNat) (h2 : c.toNat ≤ 90) : lowerStr tbl name ≠ name := by
  induction name with
  | nil => cases hc
  | cons x t ih =>
    intro e
    simp only [lowerStr, List.map_cons, List.cons.injEq] at e
    simp only [List.mem_cons] at hc
    rcases hc with rfl | hc
    · exact lowerRune_capital tbl c h1 h2 e.1
    · exact ih hc e.2

/-! ## the wide class contains the class of `ExprRoundTrip.lean` -/

theorem callNameB_W (htbl : AsciiFix tbl) {name : List Char} (h : callNameB name = true) :
    callNameW tbl name = true := by
  have hl := lowerStr_fix tbl htbl name (callNameB_facts h).1
  unfold callNameB at h
  simp only [Bool.and_eq_true, Bool.not_eq_true', bne_iff_ne, ne_eq] at h
  unfold callNameW
  simp only [Bool.and_eq_true, Bool.or_eq_true, Bool.not_eq_true', bne_iff_ne, ne_eq, beq_iff_eq]
  exact ⟨Or.inl ⟨h.1.1, h.1.2⟩, hl⟩

mutual
theorem rtOK_wOK (x : Bool) (htbl : AsciiFix tbl) : ∀ e : Expr, rtOK x e = true → wOK tbl e = true
  | .binary op l r, h => by
    obtain ⟨h1, h3, h4, h5, h6⟩ := rtOK_binary h
    rw [wOK]
    simp only [Bool.and_eq_true]
    refine ⟨⟨⟨⟨h1, rtOK_wOK x htbl l h3⟩, ?_⟩, h5⟩, h6⟩
    by_cases hre : op.isRegexOp = true
    · rw [if_pos hre] at h4 ⊢; exact h4
    · rw [if_neg hre] at h4 ⊢; exact rtOK_wOK x htbl r h4
  | .paren e, h => by rw [rtOK] at h; rw [wOK]; exact rtOK_wOK x htbl e h
  | .call name args, h => by
    rw [rtOK] at h
    simp only [Bool.and_eq_true] at h
    rw [wOK]
    simp only [Bool.and_eq_true]
    exact ⟨callNameB_W htbl h.1.2, rtOKArgs_wOK x htbl args h.2⟩
  | .varRef v t, h => by
    rw [rtOK] at h
    rw [wOK]
    simp only [Bool.and_eq_true, Bool.or_eq_true, beq_iff_eq] at h ⊢
    refine ⟨h.1, h.2.imp id (fun hc => ?_)⟩
    unfold castW
    simp only [Bool.and_eq_true, Bool.or_eq_true, beq_iff_eq]
    exact ⟨hc.2, Or.inr (lowerStr_fix tbl htbl _ (castTypes_low t))⟩
  | .string v, h => by rw [rtOK] at h; rw [wOK]; exact h
  | .integer n, h => by rw [rtOK] at h; rw [wOK]; exact h
  | .unsigned n, h => by rw [rtOK] at h; rw [wOK]; exact h
  | .boolean b, _ => by rw [wOK]
  | .distinct _, h => by simp [rtOK] at h
  | .wildcard _, h => by simp [rtOK] at h
  | .regex _, h => by simp [rtOK] at h
  | .number _, h => by simp [rtOK] at h
  | .duration _, h => by simp [rtOK] at h
  | .time _, h => by simp [rtOK] at h
  | .nil, h => by simp [rtOK] at h
  | .list _, h => by simp [rtOK] at h
  | .boundParam _, h => by simp [rtOK] at h
theorem rtOKArgs_wOK (x : Bool) (htbl : AsciiFix tbl) : ∀ args : List Expr, rtOKArgs x args = true → wOKArgs tbl args = true
  | [], _ => by rw [wOKArgs]
  | a :: rest, h => by
    obtain ⟨ha, hr⟩ := rtOKArgs_cons h
    rw [wOKArgs]
    simp only [Bool.and_eq_true, Bool.or_eq_true]
    exact ⟨ha.imp id (rtOK_wOK x htbl a), rtOKArgs_wOK x htbl rest hr⟩
end

end InfluxQL.RT

/-
Lemmas about the heap model (`Model/Heap.lean`): unfolding is stable under allocation, the clone
interpreter only allocates, every cell it allocates refers to cells it allocated (when the table
shares no reference), the copy unfolds to the same tree as the original (when the table drops
nothing and no `needs` guard fired), reachability facts, and the frame lemma for write histories.
-/
import InfluxQL.Model.Heap

namespace InfluxQL.Heap
open InfluxQL.CloneTable

/-! ### Unfolding -/

theorem unfoldFs_congr {r1 r2 : Nat → Option Tree} {vs : List FVal}
    (hh : ∀ a, FVal.ref (some a) ∈ vs → r1 a = r2 a) : unfoldFs r1 vs = unfoldFs r2 vs := by
  induction vs with
  | nil => rfl
  | cons v vs ih =>
    have hv : unfoldF r1 v = unfoldF r2 v := by
      cases v with
      | val x => rfl
      | lib o => rfl
      | ref o =>
        cases o with
        | none => rfl
        | some a => exact hh a (List.mem_cons_self ..)
    have ht := ih (fun a ha => hh a (List.mem_cons_of_mem _ ha))
    simp only [unfoldFs, hv, ht]

/-- Cells appended to a well-formed heap do not change any unfolding of an old address. -/
theorem unfold_ext {h : Heap} (hwf : WF h) (e : Heap) :
    ∀ n a, a < h.length → unfold n (h ++ e) a = unfold n h a := by
  intro n
  induction n with
  | zero => intros; rfl
  | succ n ih =>
    intro a ha
    have hc : (h ++ e)[a]? = h[a]? := List.getElem?_append_left ha
    simp only [unfold, hc]
    cases hcell : h[a]? with
    | none => rfl
    | some c =>
      have := unfoldFs_congr (r1 := unfold n (h ++ e)) (r2 := unfold n h) (vs := c.fields)
        (fun b hb => ih b (hwf a c hcell b hb))
      simp only [this]

theorem unfoldF_ext {h : Heap} (hwf : WF h) (e : Heap) (n : Nat) {v : FVal}
    (hv : ∀ r, v = .ref (some r) → r < h.length) :
    unfoldF (unfold n (h ++ e)) v = unfoldF (unfold n h) v := by
  cases v with
  | val x => rfl
  | lib o => rfl
  | ref o =>
    cases o with
    | none => rfl
    | some a => exact unfold_ext hwf e n a (hv a rfl)

theorem unfoldFs_ext {h : Heap} (hwf : WF h) (e : Heap) (n : Nat) {vs : List FVal}
    (hv : ∀ r, FVal.ref (some r) ∈ vs → r < h.length) :
    unfoldFs (unfold n (h ++ e)) vs = unfoldFs (unfold n h) vs :=
  unfoldFs_congr (fun a ha => unfold_ext hwf e n a (hv a ha))

/-! ### Specification of one clone step -/

/-- Every cell at or above `lo` refers only to cells at or above `lo`. -/
def NewClosed (lo : Nat) (h' : Heap) : Prop :=
  ∀ (x : Nat) (c : Cell), lo ≤ x → h'[x]? = some c → ∀ r, FVal.ref (some r) ∈ c.fields → lo ≤ r

/-- What cloning the object at `a` in `h` into `(h', a')` guarantees. `S`: the table shares no
reference; `D`: the table drops nothing. -/
structure Spec (S D : Prop) (h : Heap) (a : Nat) (h' : Heap) (a' : Nat) (q : Bool) : Prop where
  ext : ∃ e, h' = h ++ e
  wf : WF h'
  lo : h.length ≤ a'
  hi : a' < h'.length
  closed : S → NewClosed h.length h'
  faithful : D → q = false → ∀ n, unfold n h' a' = unfold n h a

/-- The same for a list of field values. -/
structure FsSpec (S D : Prop) (h : Heap) (vs : List FVal) (h1 : Heap) (vs' : List FVal) (q : Bool) : Prop where
  ext : ∃ e, h1 = h ++ e
  wf : WF h1
  bound : ∀ r, FVal.ref (some r) ∈ vs' → r < h1.length
  fresh : S → ∀ r, FVal.ref (some r) ∈ vs' → h.length ≤ r
  closed : S → NewClosed h.length h1
  faithful : D → q = false → ∀ n, unfoldFs (unfold n h1) vs' = unfoldFs (unfold n h) vs

def GoodRec (S D : Prop) (rec : CloneRec) : Prop :=
  ∀ via h a h' a' q, WF h → rec via h a = some (h', a', q) → Spec S D h a h' a' q

theorem newClosed_refl {h : Heap} : NewClosed h.length h := by
  intro x c hx hc
  have : x < h.length := by
    rcases List.getElem?_eq_some_iff.mp hc with ⟨hlt, _⟩
    exact hlt
  omega

theorem FsSpec.nil {S D : Prop} {h : Heap} (hwf : WF h) : FsSpec S D h [] h [] false where
  ext := ⟨[], by simp⟩
  wf := hwf
  bound := by intro r hr; cases hr
  fresh := by intro _ r hr; cases hr
  closed := fun _ => newClosed_refl
  faithful := by intros; rfl

theorem lt_length_of_getElem? {α} {l : List α} {i : Nat} {x : α} (h : l[i]? = some x) : i < l.length := by
  rcases List.getElem?_eq_some_iff.mp h with ⟨hlt, _⟩
  exact hlt

/-- Sequencing: the head value is rebuilt from `h` to `h1`, then the tail from `h1` to `h2`. -/
theorem FsSpec.cons {S D : Prop} {h h1 h2 : Heap} {v v' : FVal} {vs vs' : List FVal} {q1 q2 : Bool}
    (hwf : WF h)
    (hold : ∀ r, FVal.ref (some r) ∈ vs → r < h.length)
    (hd : FsSpec S D h [v] h1 [v'] q1) (tl : FsSpec S D h1 vs h2 vs' q2) :
    FsSpec S D h (v :: vs) h2 (v' :: vs') (q1 || q2) := by
  obtain ⟨e1, he1⟩ := hd.ext
  obtain ⟨e2, he2⟩ := tl.ext
  have hlen1 : h.length ≤ h1.length := by rw [he1]; simp
  have hlen2 : h1.length ≤ h2.length := by rw [he2]; simp
  refine ⟨⟨e1 ++ e2, by rw [he2, he1, List.append_assoc]⟩, tl.wf, ?_, ?_, ?_, ?_⟩
  · intro r hr
    rcases List.mem_cons.mp hr with hr | hr
    · have := hd.bound r (by rw [← hr]; exact List.mem_cons_self ..)
      omega
    · exact tl.bound r hr
  · intro hS r hr
    rcases List.mem_cons.mp hr with hr | hr
    · exact hd.fresh hS r (by rw [← hr]; exact List.mem_cons_self ..)
    · have := tl.fresh hS r hr
      omega
  · intro hS x c hx hc r hr
    by_cases hx1 : x < h1.length
    · have : h1[x]? = some c := by
        rw [he2, List.getElem?_append_left hx1] at hc
        exact hc
      exact hd.closed hS x c hx this r hr
    · have := tl.closed hS x c (by omega) hc r hr
      omega
  · intro hD hq n
    have hq1 : q1 = false := by cases q1 <;> simp_all
    have hq2 : q2 = false := by cases q2 <;> simp_all
    have hhd := hd.faithful hD hq1 n
    have htl := tl.faithful hD hq2 n
    -- head: transport from h1 to h2
    have hhd2 : unfoldFs (unfold n h2) [v'] = unfoldFs (unfold n h1) [v'] := by
      rw [he2]
      exact unfoldFs_ext hd.wf e2 n hd.bound
    -- tail: transport the original values from h to h1
    have htl0 : unfoldFs (unfold n h1) vs = unfoldFs (unfold n h) vs := by
      rw [he1]
      exact unfoldFs_ext hwf e1 n hold
    have e : unfoldF (unfold n h2) v' = unfoldF (unfold n h) v := by
      have := hhd2.trans hhd
      simp only [unfoldFs] at this
      cases h2v : unfoldF (unfold n h2) v' <;> cases h0v : unfoldF (unfold n h) v <;> simp_all
    simp only [unfoldFs, e, htl, htl0]

/-- A single value left untouched. -/
theorem FsSpec.keep {S D : Prop} {h : Heap} (hwf : WF h) {v : FVal}
    (hb : ∀ r, v = .ref (some r) → r < h.length) (hS : S → ∀ r, v ≠ .ref (some r)) :
    FsSpec S D h [v] h [v] false where
  ext := ⟨[], by simp⟩
  wf := hwf
  bound := by
    intro r hr
    exact hb r (List.mem_singleton.mp hr).symm
  fresh := by
    intro s r hr
    exact absurd (List.mem_singleton.mp hr).symm (hS s r)
  closed := fun _ => newClosed_refl
  faithful := by intros; rfl

/-- A single value replaced by nil (faithful only if it was nil, or the flag is raised). -/
theorem FsSpec.toNil {S D : Prop} {h : Heap} (hwf : WF h) {v : FVal} {q : Bool}
    (hf : q = false → v = .ref none) : FsSpec S D h [v] h [.ref none] q where
  ext := ⟨[], by simp⟩
  wf := hwf
  bound := by
    intro r hr
    cases List.mem_singleton.mp hr
  fresh := by
    intro _ r hr
    cases List.mem_singleton.mp hr
  closed := fun _ => newClosed_refl
  faithful := by
    intro _ hq n
    rw [hf hq]

/-- A single reference rebuilt by a recursive clone. -/
theorem FsSpec.ofSpec {S D : Prop} {h h' : Heap} {a a' : Nat} {q : Bool}
    (sp : Spec S D h a h' a' q) : FsSpec S D h [.ref (some a)] h' [.ref (some a')] q where
  ext := sp.ext
  wf := sp.wf
  bound := by
    intro r hr
    cases List.mem_singleton.mp hr
    exact sp.hi
  fresh := by
    intro _ r hr
    cases List.mem_singleton.mp hr
    exact sp.lo
  closed := sp.closed
  faithful := by
    intro hD hq n
    simp only [unfoldFs, unfoldF, sp.faithful hD hq n]

theorem WF.snoc {h : Heap} (hwf : WF h) {c : Cell}
    (hc : ∀ r, FVal.ref (some r) ∈ c.fields → r < h.length) : WF (h ++ [c]) := by
  intro a c' ha r hr
  rw [List.length_append]
  by_cases hlt : a < h.length
  · rw [List.getElem?_append_left hlt] at ha
    have := hwf a c' ha r hr
    omega
  · have hal := lt_length_of_getElem? ha
    rw [List.length_append] at hal
    have : a = h.length := by simp at hal; omega
    subst this
    rw [List.getElem?_concat_length] at ha
    cases ha
    have := hc r hr
    omega

/-- Allocating the cell built from rebuilt field values yields a clone of the original cell. -/
theorem Spec.alloc {S D : Prop} {h h1 : Heap} {a : Nat} {ty : Option Nat} {vs vs' : List FVal} {q : Bool}
    (hcell : h[a]? = some ⟨ty, vs⟩) (fs : FsSpec S D h vs h1 vs' q) :
    Spec S D h a (h1 ++ [⟨ty, vs'⟩]) h1.length q := by
  obtain ⟨e1, he1⟩ := fs.ext
  have hlen1 : h.length ≤ h1.length := by rw [he1]; simp
  refine ⟨⟨e1 ++ [⟨ty, vs'⟩], by rw [he1, List.append_assoc]⟩, fs.wf.snoc fs.bound, hlen1, by simp, ?_, ?_⟩
  · intro hS x c hx hc r hr
    by_cases hx1 : x < h1.length
    · rw [List.getElem?_append_left hx1] at hc
      exact fs.closed hS x c hx hc r hr
    · have hxl := lt_length_of_getElem? hc
      have : x = h1.length := by simp at hxl; omega
      subst this
      rw [List.getElem?_concat_length] at hc
      cases hc
      exact fs.fresh hS r hr
  · intro hD hq n
    cases n with
    | zero => rfl
    | succ n =>
      have h1' : unfoldFs (unfold n (h1 ++ [⟨ty, vs'⟩])) vs' = unfoldFs (unfold n h1) vs' :=
        unfoldFs_ext fs.wf _ n fs.bound
      simp only [unfold, List.getElem?_concat_length, hcell, h1', fs.faithful hD hq n]

/-! ### The interpreter meets the specification -/

theorem fits_ref_refKind {k : Kind} {o : Option Nat} (h : fits k (.ref o) = true) : refKind k = true := by
  cases k <;> simp_all [fits, refKind]

theorem cloneElem_spec {S D : Prop} {rec : CloneRec} (hrec : GoodRec S D rec)
    {ev : Option Nat} {g : Guard} {h : Heap} (hwf : WF h) {v : FVal}
    {h1 : Heap} {v' : FVal} {q : Bool} (hc : cloneElem rec ev g h v = some (h1, v', q)) :
    FsSpec S D h [v] h1 [v'] q := by
  cases v with
  | val x =>
    cases ev with
    | none =>
      simp only [cloneElem, Option.some.injEq, Prod.mk.injEq] at hc
      obtain ⟨rfl, rfl, rfl⟩ := hc
      exact FsSpec.keep hwf (by intro r hr; cases hr) (by intro _ r hr; cases hr)
    | some via => simp [cloneElem] at hc
  | lib o => simp [cloneElem] at hc
  | ref o =>
    cases o with
    | none =>
      cases ev with
      | none => simp [cloneElem] at hc
      | some via =>
        cases g with
        | nilOk =>
          simp only [cloneElem, Option.some.injEq, Prod.mk.injEq] at hc
          obtain ⟨rfl, rfl, rfl⟩ := hc
          exact FsSpec.keep hwf (by intro r hr; cases hr) (by intro _ r hr; cases hr)
        | nilPanics => simp [cloneElem] at hc
        | needs i => simp [cloneElem] at hc
    | some a =>
      cases ev with
      | none => simp [cloneElem] at hc
      | some via =>
        simp only [cloneElem] at hc
        cases hr : rec via h a with
        | none => simp [hr] at hc
        | some res =>
          obtain ⟨h', a', q'⟩ := res
          simp only [hr, Option.some.injEq, Prod.mk.injEq] at hc
          obtain ⟨rfl, rfl, rfl⟩ := hc
          exact FsSpec.ofSpec (hrec via h a h' a' q' hwf hr)

theorem cloneElems_spec {S D : Prop} {rec : CloneRec} (hrec : GoodRec S D rec)
    {ev : Option Nat} {g : Guard} :
    ∀ {vs : List FVal} {h : Heap}, WF h → (∀ r, FVal.ref (some r) ∈ vs → r < h.length) →
    ∀ {h1 : Heap} {vs' : List FVal} {q : Bool}, cloneElems rec ev g h vs = some (h1, vs', q) →
    FsSpec S D h vs h1 vs' q := by
  intro vs
  induction vs with
  | nil =>
    intro h hwf _ h1 vs' q hc
    simp only [cloneElems, Option.some.injEq, Prod.mk.injEq] at hc
    obtain ⟨rfl, rfl, rfl⟩ := hc
    exact FsSpec.nil hwf
  | cons v vs ih =>
    intro h hwf hold h1 vs' q hc
    simp only [cloneElems] at hc
    cases he : cloneElem rec ev g h v with
    | none => simp [he] at hc
    | some r1 =>
      obtain ⟨hm, v', q1⟩ := r1
      simp only [he] at hc
      cases ht : cloneElems rec ev g hm vs with
      | none => simp [ht] at hc
      | some r2 =>
        obtain ⟨h2, vs2, q2⟩ := r2
        simp only [ht, Option.some.injEq, Prod.mk.injEq] at hc
        obtain ⟨rfl, rfl, rfl⟩ := hc
        have hd := cloneElem_spec hrec hwf he
        obtain ⟨e1, he1⟩ := hd.ext
        have hold' : ∀ r, FVal.ref (some r) ∈ vs → r < h.length :=
          fun r hr => hold r (List.mem_cons_of_mem _ hr)
        have tl := ih hd.wf (fun r hr => by have := hold' r hr; rw [he1]; simp; omega) ht
        exact FsSpec.cons hwf hold' hd tl

theorem cloneField_spec {S D : Prop} {rec : CloneRec} (hrec : GoodRec S D rec)
    {h : Heap} (hwf : WF h) {fr : FieldRow} {v : FVal}
    (hS : S → ¬(fr.treat = .shared ∧ refKind fr.kind = true))
    (hD : D → fr.treat ≠ .dropped)
    (hv : ∀ r, v = .ref (some r) → r < h.length)
    {h1 : Heap} {v' : FVal} {q : Bool} (hc : cloneField rec h fr v = some (h1, v', q)) :
    FsSpec S D h [v] h1 [v'] q := by
  unfold cloneField at hc
  cases hfit : fits fr.kind v with
  | false => simp [hfit] at hc
  | true =>
    simp only [hfit, if_true] at hc
    cases htr : fr.treat with
    | copied =>
      rw [htr] at hc
      cases v with
      | val x =>
        simp only [Option.some.injEq, Prod.mk.injEq] at hc
        obtain ⟨rfl, rfl, rfl⟩ := hc
        exact FsSpec.keep hwf (by intro r hr; cases hr) (by intro _ r hr; cases hr)
      | lib o => simp at hc
      | ref o => cases o <;> simp at hc
    | shared =>
      rw [htr] at hc
      simp only [Option.some.injEq, Prod.mk.injEq] at hc
      obtain ⟨rfl, rfl, rfl⟩ := hc
      refine FsSpec.keep hwf hv ?_
      intro s r hr
      subst hr
      exact hS s ⟨htr, fits_ref_refKind hfit⟩
    | dropped =>
      rw [htr] at hc
      simp only [Option.some.injEq, Prod.mk.injEq] at hc
      obtain ⟨rfl, rfl, rfl⟩ := hc
      refine ⟨⟨[], by simp⟩, hwf, ?_, ?_, fun _ => newClosed_refl, ?_⟩
      · intro r hr
        have := (List.mem_singleton.mp hr)
        cases v <;> simp [zeroF] at this
      · intro _ r hr
        have := (List.mem_singleton.mp hr)
        cases v <;> simp [zeroF] at this
      · intro d
        exact absurd htr (hD d)
    | deepLib =>
      rw [htr] at hc
      cases v with
      | val x => simp at hc
      | lib o =>
        simp only [Option.some.injEq, Prod.mk.injEq] at hc
        obtain ⟨rfl, rfl, rfl⟩ := hc
        exact FsSpec.keep hwf (by intro r hr; cases hr) (by intro _ r hr; cases hr)
      | ref o => cases o <;> simp at hc
    | deep via g =>
      rw [htr] at hc
      cases v with
      | val x => simp at hc
      | lib o => simp at hc
      | ref o =>
        cases o with
        | none =>
          cases g with
          | nilPanics => simp at hc
          | nilOk =>
            simp only [Option.some.injEq, Prod.mk.injEq] at hc
            obtain ⟨rfl, rfl, rfl⟩ := hc
            exact FsSpec.toNil hwf (fun _ => rfl)
          | needs i =>
            simp only [Option.some.injEq, Prod.mk.injEq] at hc
            obtain ⟨rfl, rfl, rfl⟩ := hc
            exact FsSpec.toNil hwf (fun _ => rfl)
        | some a =>
          have viaRec : ∀ {h1 v' q}, (match rec via h a with
              | some (h', a', q) => some (h', FVal.ref (some a'), q)
              | none => none) = some (h1, v', q) → FsSpec S D h [.ref (some a)] h1 [v'] q := by
            intro h1 v' q hc
            cases hr : rec via h a with
            | none => simp [hr] at hc
            | some res =>
              obtain ⟨h', a', q'⟩ := res
              simp only [hr, Option.some.injEq, Prod.mk.injEq] at hc
              obtain ⟨rfl, rfl, rfl⟩ := hc
              exact FsSpec.ofSpec (hrec via h a h' a' q' hwf hr)
          cases g with
          | nilPanics => exact viaRec hc
          | nilOk => exact viaRec hc
          | needs i =>
            simp only at hc
            cases hin : innerNil h a i with
            | true =>
              simp only [hin, if_true, Option.some.injEq, Prod.mk.injEq] at hc
              obtain ⟨rfl, rfl, rfl⟩ := hc
              exact FsSpec.toNil hwf (fun hq => by cases hq)
            | false =>
              simp only [hin] at hc
              exact viaRec hc
    | deepSlice ev g =>
      rw [htr] at hc
      cases v with
      | val x => simp at hc
      | lib o => simp at hc
      | ref o =>
        cases o with
        | none =>
          simp only [Option.some.injEq, Prod.mk.injEq] at hc
          obtain ⟨rfl, rfl, rfl⟩ := hc
          exact FsSpec.toNil hwf (fun _ => rfl)
        | some a =>
          simp only at hc
          cases hcell : h[a]? with
          | none => simp [hcell] at hc
          | some c =>
            obtain ⟨ty, elems⟩ := c
            cases ty with
            | some ty => simp [hcell] at hc
            | none =>
              simp only [hcell] at hc
              cases hes : cloneElems rec ev g h elems with
              | none => simp [hes] at hc
              | some res =>
                obtain ⟨hm, elems', q'⟩ := res
                simp only [hes, Option.some.injEq, Prod.mk.injEq] at hc
                obtain ⟨rfl, rfl, rfl⟩ := hc
                have fs := cloneElems_spec hrec hwf (fun r hr => hwf a _ hcell r hr) hes
                exact FsSpec.ofSpec (Spec.alloc hcell fs)

theorem cloneFields_spec {S D : Prop} {rec : CloneRec} (hrec : GoodRec S D rec) :
    ∀ {frs : List FieldRow} {vs : List FVal} {h : Heap}, WF h →
    (∀ fr, fr ∈ frs → (S → ¬(fr.treat = .shared ∧ refKind fr.kind = true)) ∧ (D → fr.treat ≠ .dropped)) →
    (∀ r, FVal.ref (some r) ∈ vs → r < h.length) →
    ∀ {h1 : Heap} {vs' : List FVal} {q : Bool}, cloneFields rec h frs vs = some (h1, vs', q) →
    FsSpec S D h vs h1 vs' q := by
  intro frs
  induction frs with
  | nil =>
    intro vs h hwf _ _ h1 vs' q hc
    cases vs with
    | nil =>
      simp only [cloneFields, Option.some.injEq, Prod.mk.injEq] at hc
      obtain ⟨rfl, rfl, rfl⟩ := hc
      exact FsSpec.nil hwf
    | cons v vs => simp [cloneFields] at hc
  | cons fr frs ih =>
    intro vs h hwf hrows hold h1 vs' q hc
    cases vs with
    | nil => simp [cloneFields] at hc
    | cons v vs =>
      simp only [cloneFields] at hc
      cases he : cloneField rec h fr v with
      | none => simp [he] at hc
      | some r1 =>
        obtain ⟨hm, v', q1⟩ := r1
        simp only [he] at hc
        cases ht : cloneFields rec hm frs vs with
        | none => simp [ht] at hc
        | some r2 =>
          obtain ⟨h2, vs2, q2⟩ := r2
          simp only [ht, Option.some.injEq, Prod.mk.injEq] at hc
          obtain ⟨rfl, rfl, rfl⟩ := hc
          have hfr := hrows fr (List.mem_cons_self ..)
          have hd := cloneField_spec hrec hwf hfr.1 hfr.2
            (fun r hr => hold r (by rw [hr]; exact List.mem_cons_self ..)) he
          obtain ⟨e1, he1⟩ := hd.ext
          have hold' : ∀ r, FVal.ref (some r) ∈ vs → r < h.length :=
            fun r hr => hold r (List.mem_cons_of_mem _ hr)
          have tl := ih hd.wf (fun fr' hfr' => hrows fr' (List.mem_cons_of_mem _ hfr'))
            (fun r hr => by have := hold' r hr; rw [he1]; simp; omega) ht
          exact FsSpec.cons hwf hold' hd tl

theorem noSharedRefs_field {t : List Row} (ht : noSharedRefs t = true) {row : Row} (hr : row ∈ t)
    {fr : FieldRow} (hf : fr ∈ row.fields) : ¬(fr.treat = .shared ∧ refKind fr.kind = true) := by
  intro ⟨h1, h2⟩
  have := List.all_eq_true.mp (List.all_eq_true.mp ht row hr) fr hf
  simp [h1, h2] at this

theorem noDrop_field {t : List Row} (ht : noDrop t = true) {row : Row} (hr : row ∈ t)
    {fr : FieldRow} (hf : fr ∈ row.fields) : fr.treat ≠ .dropped := by
  intro h1
  have := List.all_eq_true.mp (List.all_eq_true.mp ht row hr) fr hf
  simp [h1] at this

/-- Master lemma: for every table, fuel, routine, heap and address, the interpreter meets `Spec`. -/
theorem cloneAddr_spec (t : List Row) :
    ∀ fuel, GoodRec (noSharedRefs t = true) (noDrop t = true) (cloneAddr t fuel) := by
  intro fuel
  induction fuel with
  | zero =>
    intro via h a h' a' q _ hc
    simp [cloneAddr] at hc
  | succ fuel ih =>
    intro via h a h' a' q hwf hc
    simp only [cloneAddr] at hc
    cases hcell : h[a]? with
    | none => simp [hcell] at hc
    | some c =>
      obtain ⟨ty, fs⟩ := c
      cases ty with
      | none => simp [hcell] at hc
      | some ty =>
        simp only [hcell] at hc
        cases hrow : findRow t via ty with
        | none => simp [hrow] at hc
        | some row =>
          simp only [hrow] at hc
          cases hfs : cloneFields (cloneAddr t fuel) h row.fields fs with
          | none => simp [hfs] at hc
          | some res =>
            obtain ⟨h1, fs', q'⟩ := res
            simp only [hfs, Option.some.injEq, Prod.mk.injEq] at hc
            obtain ⟨rfl, rfl, rfl⟩ := hc
            have hmem : row ∈ t := List.mem_of_find?_eq_some hrow
            have fsp := cloneFields_spec ih hwf
              (fun fr hfr => ⟨fun s => noSharedRefs_field s hmem hfr, fun d => noDrop_field d hmem hfr⟩)
              (fun r hr => hwf a _ hcell r hr) hfs
            exact Spec.alloc hcell fsp

/-! ### Reachability -/

theorem Reach.trans {h : Heap} {a b c : Nat} (h1 : Reach h a b) (h2 : Reach h b c) : Reach h a c := by
  induction h1 with
  | refl => exact h2
  | step hc hm _ ih => exact .step hc hm (ih h2)

/-- In a well-formed heap everything reachable from an allocated address is allocated. -/
theorem Reach.lt_length {h : Heap} (hwf : WF h) {a x : Nat} (hr : Reach h a x) (ha : a < h.length) :
    x < h.length := by
  induction hr with
  | refl => exact ha
  | step hc hm _ ih => exact ih (hwf _ _ hc _ hm)

/-- From an old address, an extended heap reaches exactly what the old heap reached. -/
theorem Reach.of_ext {h : Heap} (hwf : WF h) (e : Heap) {a x : Nat} (hr : Reach (h ++ e) a x)
    (ha : a < h.length) : Reach h a x := by
  induction hr with
  | refl => exact .refl _
  | step hc hm _ ih =>
    rw [List.getElem?_append_left ha] at hc
    exact .step hc hm (ih (hwf _ _ hc _ hm))

theorem Reach.to_ext {h : Heap} (e : Heap) {a x : Nat} (hr : Reach h a x) : Reach (h ++ e) a x := by
  induction hr with
  | refl => exact .refl _
  | step hc hm _ ih =>
    exact .step (by rw [List.getElem?_append_left (lt_length_of_getElem? hc)]; exact hc) hm ih

/-- From a new address everything reachable is new. -/
theorem Reach.ge_of_newClosed {lo : Nat} {h' : Heap} (hcl : NewClosed lo h') {a x : Nat}
    (hr : Reach h' a x) (ha : lo ≤ a) : lo ≤ x := by
  induction hr with
  | refl => exact ha
  | step hc hm _ ih => exact ih (hcl _ _ ha hc _ hm)

/-! ### Frame -/

theorem apply_length_le (h : Heap) (w : Write) : h.length ≤ (w.apply h).length := by
  cases w with
  | set a i v =>
    simp only [Write.apply]
    cases h[a]? <;> simp
  | alloc c => simp [Write.apply]

/-- One write inside `A` leaves every cell outside `A` (and below the allocation pointer) as it was. -/
theorem apply_set_other (h : Heap) (a i : Nat) (v : FVal) {x : Nat} (hx : x ≠ a) :
    (Write.apply h (.set a i v))[x]? = h[x]? := by
  simp only [Write.apply]
  cases h[a]? with
  | none => rfl
  | some c => exact List.getElem?_set_ne (Ne.symm hx)

/-- **Frame, cell level.** A history confined to `A` never changes a cell of a region `B` that is
disjoint from `A` and lies below the allocation pointer. -/
theorem frame_cells :
    ∀ (ws : List Write) (A : Nat → Prop) (B : Nat → Prop) (h : Heap),
    (∀ x, B x → x < h.length) → (∀ x, A x → ¬ B x) → Confined A h ws →
    ∀ x, B x → (applyAll h ws)[x]? = h[x]? := by
  intro ws
  induction ws with
  | nil => intros; rfl
  | cons w ws ih =>
    intro A B h hB hdisj hconf x hx
    cases w with
    | set a i v =>
      obtain ⟨hAa, _, hrest⟩ := hconf
      have hne : x ≠ a := fun e => hdisj a hAa (e ▸ hx)
      have hB' : ∀ y, B y → y < (Write.apply h (.set a i v)).length :=
        fun y hy => Nat.lt_of_lt_of_le (hB y hy) (apply_length_le h _)
      have := ih A B _ hB' hdisj hrest x hx
      simp only [applyAll, List.foldl_cons] at this ⊢
      rw [this, apply_set_other h a i v hne]
    | alloc c =>
      obtain ⟨_, hrest⟩ := hconf
      have hB' : ∀ y, B y → y < (h ++ [c]).length := fun y hy => by
        have := hB y hy
        simp
        omega
      have hdisj' : ∀ y, (A y ∨ y = h.length) → ¬ B y := by
        intro y hy hby
        rcases hy with hy | hy
        · exact hdisj y hy hby
        · have := hB y hby
          omega
      have := ih _ B _ hB' hdisj' hrest x hx
      simp only [applyAll, List.foldl_cons, Write.apply] at this ⊢
      rw [this, List.getElem?_append_left (hB x hx)]

/-- If every cell of a reference-closed region is the same in two heaps, every unfolding from an
address of the region is the same. -/
theorem unfold_of_cells_eq {h h' : Heap} {B : Nat → Prop}
    (hcl : ∀ x c, B x → h[x]? = some c → ∀ r, FVal.ref (some r) ∈ c.fields → B r)
    (heq : ∀ x, B x → h'[x]? = h[x]?) :
    ∀ n b, B b → unfold n h' b = unfold n h b := by
  intro n
  induction n with
  | zero => intros; rfl
  | succ n ih =>
    intro b hb
    simp only [unfold, heq b hb]
    cases hc : h[b]? with
    | none => rfl
    | some c =>
      have := unfoldFs_congr (r1 := unfold n h') (r2 := unfold n h) (vs := c.fields)
        (fun r hr => ih r (hcl b c hb hc r hr))
      simp only [this]


/-! ### Interleaved histories of two sides -/

theorem apply_set_length (h : Heap) (a i : Nat) (v : FVal) :
    (Write.apply h (.set a i v)).length = h.length := by
  simp only [Write.apply]
  cases h[a]? <;> simp

theorem apply_set_self_congr {h1 h2 : Heap} {a i : Nat} {v : FVal} (he : h1[a]? = h2[a]?) :
    (Write.apply h1 (.set a i v))[a]? = (Write.apply h2 (.set a i v))[a]? := by
  cases hc : h1[a]? with
  | none =>
    have hc2 : h2[a]? = none := he ▸ hc
    simp only [Write.apply, hc, hc2]
  | some c =>
    have hc2 : h2[a]? = some c := he ▸ hc
    have l1 := lt_length_of_getElem? hc
    have l2 := lt_length_of_getElem? hc2
    simp only [Write.apply, hc, hc2, List.getElem?_set_self l1, List.getElem?_set_self l2]

/-- After an overwrite confined to a reference-closed region the region is still closed. -/
theorem closed_after_set {h : Heap} {A : Nat → Prop} {a i : Nat} {v : FVal}
    (hcl : ∀ x c, A x → h[x]? = some c → ∀ r, FVal.ref (some r) ∈ c.fields → A r)
    (hv : ∀ r, v = .ref (some r) → A r) :
    ∀ x c, A x → (Write.apply h (.set a i v))[x]? = some c → ∀ r, FVal.ref (some r) ∈ c.fields → A r := by
  intro x c hx hc r hr
  by_cases hxa : x = a
  · subst hxa
    cases hc0 : h[x]? with
    | none =>
      simp only [Write.apply, hc0] at hc
      cases hc
    | some c0 =>
      have l0 := lt_length_of_getElem? hc0
      simp only [Write.apply, hc0, List.getElem?_set_self l0, Option.some.injEq] at hc
      subst hc
      rcases List.mem_or_eq_of_mem_set hr with hm | hm
      · exact hcl x c0 hx hc0 r hm
      · exact hv r hm.symm
  · rw [apply_set_other h a i v hxa] at hc
    exact hcl x c hx hc r hr

/-- **Non-interference for interleaved histories.** Two sides own disjoint regions `A` and `B`
(`A` closed under references) and take turns writing, each inside its own region, allocating as
they go.  Then on the left side's region — grown by its own allocations — the final heap is, cell
by cell, the heap the left side would have produced alone (`projLeft`).  By induction on the
history. -/
theorem interleaved_left :
    ∀ (ws : List (Bool × Write)) (A B : Nat → Prop) (h1 h2 : Heap),
    h1.length = h2.length → (∀ x, A x → h1[x]? = h2[x]?) →
    (∀ x, A x → x < h1.length) → (∀ x, B x → x < h1.length) → (∀ x, A x → ¬ B x) →
    (∀ x c, A x → h2[x]? = some c → ∀ r, FVal.ref (some r) ∈ c.fields → A r) →
    Confined2 A B h1 ws →
    ∃ A' : Nat → Prop, (∀ x, A x → A' x) ∧
      (∀ x, A' x → (applyAll h1 (ws.map Prod.snd))[x]? = (applyAll h2 (projLeft ws))[x]?) ∧
      (∀ x c, A' x → (applyAll h2 (projLeft ws))[x]? = some c →
        ∀ r, FVal.ref (some r) ∈ c.fields → A' r) := by
  intro ws
  induction ws with
  | nil =>
    intro A B h1 h2 _ hag _ _ _ hcl _
    exact ⟨A, fun _ hx => hx, hag, hcl⟩
  | cons sw ws ih =>
    intro A B h1 h2 hlen hag hA hB hdis hcl hconf
    obtain ⟨side, w⟩ := sw
    cases side with
    | true =>
      cases w with
      | set a i v =>
        obtain ⟨hAa, hv, hrest⟩ := hconf
        have hlen' : (Write.apply h1 (.set a i v)).length = (Write.apply h2 (.set a i v)).length := by
          rw [apply_set_length, apply_set_length, hlen]
        have hag' : ∀ x, A x → (Write.apply h1 (.set a i v))[x]? = (Write.apply h2 (.set a i v))[x]? := by
          intro x hx
          by_cases hxa : x = a
          · subst hxa
            exact apply_set_self_congr (hag x hx)
          · rw [apply_set_other h1 a i v hxa, apply_set_other h2 a i v hxa]
            exact hag x hx
        have := ih A B _ _ hlen' hag'
          (fun x hx => by rw [apply_set_length]; exact hA x hx)
          (fun x hx => by rw [apply_set_length]; exact hB x hx) hdis
          (closed_after_set hcl hv) hrest
        simpa only [applyAll, List.map_cons, List.foldl_cons, projLeft] using this
      | alloc c =>
        obtain ⟨hc, hrest⟩ := hconf
        have hlen' : (h1 ++ [c]).length = (h2 ++ [c]).length := by simp [hlen]
        have hag' : ∀ x, (A x ∨ x = h1.length) → (h1 ++ [c])[x]? = (h2 ++ [c])[x]? := by
          intro x hx
          rcases hx with hx | hx
          · rw [List.getElem?_append_left (hA x hx), List.getElem?_append_left (hlen ▸ hA x hx)]
            exact hag x hx
          · subst hx
            rw [List.getElem?_concat_length, hlen, List.getElem?_concat_length]
        have hcl' : ∀ x c', (A x ∨ x = h1.length) → (h2 ++ [c])[x]? = some c' →
            ∀ r, FVal.ref (some r) ∈ c'.fields → (A r ∨ r = h1.length) := by
          intro x c' hx hc' r hr
          rcases hx with hx | hx
          · rw [List.getElem?_append_left (hlen ▸ hA x hx)] at hc'
            exact Or.inl (hcl x c' hx hc' r hr)
          · subst hx
            rw [hlen, List.getElem?_concat_length] at hc'
            cases hc'
            exact Or.inl (hc r hr)
        have := ih (fun x => A x ∨ x = h1.length) B _ _ hlen' hag'
          (fun x hx => by
            rw [List.length_append]
            rcases hx with hx | hx
            · have := hA x hx; simp; omega
            · simp; omega)
          (fun x hx => by have := hB x hx; simp; omega)
          (fun x hx hb => by
            rcases hx with hx | hx
            · exact hdis x hx hb
            · have := hB x hb; omega)
          hcl' hrest
        obtain ⟨A', hsub, h1', h2'⟩ := this
        refine ⟨A', fun x hx => hsub x (Or.inl hx), ?_, ?_⟩
        · simpa only [applyAll, List.map_cons, List.foldl_cons, projLeft, Write.apply] using h1'
        · simpa only [applyAll, List.map_cons, List.foldl_cons, projLeft, Write.apply] using h2'
    | false =>
      cases w with
      | set b i v =>
        obtain ⟨hBb, _, hrest⟩ := hconf
        have hlen' : (Write.apply h1 (.set b i v)).length = h2.length := by
          rw [apply_set_length, hlen]
        have hag' : ∀ x, A x → (Write.apply h1 (.set b i v))[x]? = h2[x]? := by
          intro x hx
          have hxb : x ≠ b := fun e => hdis x hx (e ▸ hBb)
          rw [apply_set_other h1 b i v hxb]
          exact hag x hx
        have := ih A B _ h2 hlen' hag'
          (fun x hx => by rw [apply_set_length]; exact hA x hx)
          (fun x hx => by rw [apply_set_length]; exact hB x hx) hdis hcl hrest
        simpa only [applyAll, List.map_cons, List.foldl_cons, projLeft] using this
      | alloc c =>
        obtain ⟨_, hrest⟩ := hconf
        have hlen' : (h1 ++ [c]).length = (h2 ++ [(⟨none, []⟩ : Cell)]).length := by simp [hlen]
        have hag' : ∀ x, A x → (h1 ++ [c])[x]? = (h2 ++ [(⟨none, []⟩ : Cell)])[x]? := by
          intro x hx
          rw [List.getElem?_append_left (hA x hx), List.getElem?_append_left (hlen ▸ hA x hx)]
          exact hag x hx
        have hcl' : ∀ x c', A x → (h2 ++ [(⟨none, []⟩ : Cell)])[x]? = some c' →
            ∀ r, FVal.ref (some r) ∈ c'.fields → A r := by
          intro x c' hx hc' r hr
          rw [List.getElem?_append_left (hlen ▸ hA x hx)] at hc'
          exact hcl x c' hx hc' r hr
        have := ih A (fun x => B x ∨ x = h1.length) _ _ hlen' hag'
          (fun x hx => by have := hA x hx; simp; omega)
          (fun x hx => by
            rcases hx with hx | hx
            · have := hB x hx; simp; omega
            · simp; omega)
          (fun x hx hb => by
            rcases hb with hb | hb
            · exact hdis x hx hb
            · have := hA x hx; omega)
          hcl' hrest
        simpa only [applyAll, List.map_cons, List.foldl_cons, projLeft, Write.apply] using this


/-- Exchange the two sides of an interleaved history. -/
def swapSides (ws : List (Bool × Write)) : List (Bool × Write) := ws.map fun p => (!p.1, p.2)

theorem swapSides_snd (ws : List (Bool × Write)) : (swapSides ws).map Prod.snd = ws.map Prod.snd := by
  simp [swapSides, List.map_map, Function.comp_def]

theorem Confined2.swap : ∀ (ws : List (Bool × Write)) (A B : Nat → Prop) (h : Heap),
    Confined2 A B h ws → Confined2 B A h (swapSides ws) := by
  intro ws
  induction ws with
  | nil => intros; trivial
  | cons sw ws ih =>
    intro A B h hc
    obtain ⟨side, w⟩ := sw
    cases side <;> cases w with
    | set a i v =>
      obtain ⟨h1, h2, h3⟩ := hc
      exact ⟨h1, h2, ih _ _ _ h3⟩
    | alloc c =>
      obtain ⟨h1, h2⟩ := hc
      exact ⟨h1, ih _ _ _ h2⟩


/-! ### Without `needs` guards the flag is never raised -/

def NoFlagRec (rec : CloneRec) : Prop :=
  ∀ via h a h' a' q, rec via h a = some (h', a', q) → q = false

theorem cloneElem_noflag {rec : CloneRec} (hrec : NoFlagRec rec) {ev : Option Nat} {g : Guard} {h : Heap}
    {v : FVal} {h1 : Heap} {v' : FVal} {q : Bool} (hc : cloneElem rec ev g h v = some (h1, v', q)) :
    q = false := by
  cases v with
  | val x =>
    cases ev with
    | none =>
      simp only [cloneElem, Option.some.injEq, Prod.mk.injEq] at hc
      exact hc.2.2.symm
    | some via => simp [cloneElem] at hc
  | lib o => simp [cloneElem] at hc
  | ref o =>
    cases o with
    | none =>
      cases ev with
      | none => simp [cloneElem] at hc
      | some via =>
        cases g with
        | nilOk =>
          simp only [cloneElem, Option.some.injEq, Prod.mk.injEq] at hc
          exact hc.2.2.symm
        | nilPanics => simp [cloneElem] at hc
        | needs i => simp [cloneElem] at hc
    | some a =>
      cases ev with
      | none => simp [cloneElem] at hc
      | some via =>
        simp only [cloneElem] at hc
        cases hr : rec via h a with
        | none => simp [hr] at hc
        | some res =>
          obtain ⟨h', a', q'⟩ := res
          simp only [hr, Option.some.injEq, Prod.mk.injEq] at hc
          rw [← hc.2.2]
          exact hrec via h a h' a' q' hr

theorem cloneElems_noflag {rec : CloneRec} (hrec : NoFlagRec rec) {ev : Option Nat} {g : Guard} :
    ∀ {vs : List FVal} {h h1 : Heap} {vs' : List FVal} {q : Bool},
    cloneElems rec ev g h vs = some (h1, vs', q) → q = false := by
  intro vs
  induction vs with
  | nil =>
    intro h h1 vs' q hc
    simp only [cloneElems, Option.some.injEq, Prod.mk.injEq] at hc
    exact hc.2.2.symm
  | cons v vs ih =>
    intro h h1 vs' q hc
    simp only [cloneElems] at hc
    cases he : cloneElem rec ev g h v with
    | none => simp [he] at hc
    | some r1 =>
      obtain ⟨hm, v', q1⟩ := r1
      simp only [he] at hc
      cases ht : cloneElems rec ev g hm vs with
      | none => simp [ht] at hc
      | some r2 =>
        obtain ⟨h2, vs2, q2⟩ := r2
        simp only [ht, Option.some.injEq, Prod.mk.injEq] at hc
        rw [← hc.2.2, cloneElem_noflag hrec he, ih ht]
        rfl

theorem cloneField_noflag {rec : CloneRec} (hrec : NoFlagRec rec) {h : Heap} {fr : FieldRow} {v : FVal}
    (hN : ∀ via i, fr.treat ≠ .deep via (.needs i))
    {h1 : Heap} {v' : FVal} {q : Bool} (hc : cloneField rec h fr v = some (h1, v', q)) : q = false := by
  unfold cloneField at hc
  cases hfit : fits fr.kind v with
  | false => simp [hfit] at hc
  | true =>
    simp only [hfit, if_true] at hc
    have viaRec : ∀ {via a h1 v' q}, (match rec via h a with
        | some (h', a', q) => some (h', FVal.ref (some a'), q)
        | none => none) = some (h1, v', q) → q = false := by
      intro via a h1 v' q hc
      cases hr : rec via h a with
      | none => simp [hr] at hc
      | some res =>
        obtain ⟨h', a', q'⟩ := res
        simp only [hr, Option.some.injEq, Prod.mk.injEq] at hc
        rw [← hc.2.2]
        exact hrec via h a h' a' q' hr
    cases htr : fr.treat with
    | copied =>
      rw [htr] at hc
      cases v with
      | val x =>
        simp only [Option.some.injEq, Prod.mk.injEq] at hc
        exact hc.2.2.symm
      | lib o => simp at hc
      | ref o => cases o <;> simp at hc
    | shared =>
      rw [htr] at hc
      simp only [Option.some.injEq, Prod.mk.injEq] at hc
      exact hc.2.2.symm
    | dropped =>
      rw [htr] at hc
      simp only [Option.some.injEq, Prod.mk.injEq] at hc
      exact hc.2.2.symm
    | deepLib =>
      rw [htr] at hc
      cases v with
      | val x => simp at hc
      | lib o =>
        simp only [Option.some.injEq, Prod.mk.injEq] at hc
        exact hc.2.2.symm
      | ref o => cases o <;> simp at hc
    | deep via g =>
      rw [htr] at hc
      cases g with
      | needs i => exact absurd htr (hN via i)
      | nilOk =>
        cases v with
        | val x => simp at hc
        | lib o => simp at hc
        | ref o =>
          cases o with
          | none =>
            simp only [Option.some.injEq, Prod.mk.injEq] at hc
            exact hc.2.2.symm
          | some a => exact viaRec hc
      | nilPanics =>
        cases v with
        | val x => simp at hc
        | lib o => simp at hc
        | ref o =>
          cases o with
          | none => simp at hc
          | some a => exact viaRec hc
    | deepSlice ev g =>
      rw [htr] at hc
      cases v with
      | val x => simp at hc
      | lib o => simp at hc
      | ref o =>
        cases o with
        | none =>
          simp only [Option.some.injEq, Prod.mk.injEq] at hc
          exact hc.2.2.symm
        | some a =>
          simp only at hc
          cases hcell : h[a]? with
          | none => simp [hcell] at hc
          | some c =>
            obtain ⟨ty, elems⟩ := c
            cases ty with
            | some ty => simp [hcell] at hc
            | none =>
              simp only [hcell] at hc
              cases hes : cloneElems rec ev g h elems with
              | none => simp [hes] at hc
              | some res =>
                obtain ⟨hm, elems', q'⟩ := res
                simp only [hes, Option.some.injEq, Prod.mk.injEq] at hc
                rw [← hc.2.2]
                exact cloneElems_noflag hrec hes

theorem cloneFields_noflag {rec : CloneRec} (hrec : NoFlagRec rec) :
    ∀ {frs : List FieldRow} {vs : List FVal} {h h1 : Heap} {vs' : List FVal} {q : Bool},
    (∀ fr, fr ∈ frs → ∀ via i, fr.treat ≠ .deep via (.needs i)) →
    cloneFields rec h frs vs = some (h1, vs', q) → q = false := by
  intro frs
  induction frs with
  | nil =>
    intro vs h h1 vs' q _ hc
    cases vs with
    | nil =>
      simp only [cloneFields, Option.some.injEq, Prod.mk.injEq] at hc
      exact hc.2.2.symm
    | cons v vs => simp [cloneFields] at hc
  | cons fr frs ih =>
    intro vs h h1 vs' q hrows hc
    cases vs with
    | nil => simp [cloneFields] at hc
    | cons v vs =>
      simp only [cloneFields] at hc
      cases he : cloneField rec h fr v with
      | none => simp [he] at hc
      | some r1 =>
        obtain ⟨hm, v', q1⟩ := r1
        simp only [he] at hc
        cases ht : cloneFields rec hm frs vs with
        | none => simp [ht] at hc
        | some r2 =>
          obtain ⟨h2, vs2, q2⟩ := r2
          simp only [ht, Option.some.injEq, Prod.mk.injEq] at hc
          rw [← hc.2.2, cloneField_noflag hrec (hrows fr (List.mem_cons_self ..)) he,
            ih (fun fr' hfr' => hrows fr' (List.mem_cons_of_mem _ hfr')) ht]
          rfl

theorem noNeeds_field {t : List Row} (ht : noNeeds t = true) {row : Row} (hr : row ∈ t)
    {fr : FieldRow} (hf : fr ∈ row.fields) : ∀ via i, fr.treat ≠ .deep via (.needs i) := by
  intro via i h1
  have := List.all_eq_true.mp (List.all_eq_true.mp ht row hr) fr hf
  simp [h1] at this

/-- A table without `needs` guards never raises the flag. -/
theorem cloneAddr_noflag {t : List Row} (ht : noNeeds t = true) : ∀ fuel, NoFlagRec (cloneAddr t fuel) := by
  intro fuel
  induction fuel with
  | zero =>
    intro via h a h' a' q hc
    simp [cloneAddr] at hc
  | succ fuel ih =>
    intro via h a h' a' q hc
    simp only [cloneAddr] at hc
    cases hcell : h[a]? with
    | none => simp [hcell] at hc
    | some c =>
      obtain ⟨ty, fs⟩ := c
      cases ty with
      | none => simp [hcell] at hc
      | some ty =>
        simp only [hcell] at hc
        cases hrow : findRow t via ty with
        | none => simp [hrow] at hc
        | some row =>
          simp only [hrow] at hc
          cases hfs : cloneFields (cloneAddr t fuel) h row.fields fs with
          | none => simp [hfs] at hc
          | some res =>
            obtain ⟨h1, fs', q'⟩ := res
            simp only [hfs, Option.some.injEq, Prod.mk.injEq] at hc
            rw [← hc.2.2]
            exact cloneFields_noflag ih
              (fun fr hfr => noNeeds_field ht (List.mem_of_find?_eq_some hrow) hfr) hfs

end InfluxQL.Heap

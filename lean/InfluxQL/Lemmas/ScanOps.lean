import InfluxQL.Model.ScanOps
import InfluxQL.Lemmas.Ring
/-
The operation-level transcription of scanner.go (`Model/ScanOps.lean`) stays within the 3-slot
ring and never pushes back what was not read — for every text, every entry position and every
entry push-back count ≤ 2.

`wp text p k n Q`: running `p` from logical position `k` with `n` runes pushed back, every
`unread` happens at a position > 0, every `curr()` (also the one inside a re-delivering `read`)
sees fewer than three pushed-back runes, and the result, final position and final push-back count
satisfy `Q`. `wp_sound` turns this into `Balanced` / `depthOK` of the emitted trace.
-/
namespace InfluxQL.ScanOps
open InfluxQL InfluxQL.Ring Gen

variable {α β : Type}

/-- The push-back count after a trace. -/
def endN : List ROp → Nat → Nat
  | [], n => n
  | .read :: ops, n => endN ops (n - 1)
  | .unread :: ops, n => endN ops (n + 1)
  | .curr :: ops, n => endN ops n

/-- The logical position after a trace. -/
def endK : List ROp → Nat → Nat
  | [], k => k
  | .read :: ops, k => endK ops (k + 1)
  | .unread :: ops, k => endK ops (k - 1)
  | .curr :: ops, k => endK ops k

def wp (text : List Char) : Prog α → Nat → Nat → (α → Nat → Nat → Prop) → Prop
  | .ret a, k, n, Q => Q a k n
  | .read f, k, n, Q => n ≤ 3 ∧ wp text (f (streamAt text k)) (k + 1) (n - 1) Q
  | .unread p, k, n, Q => 0 < k ∧ wp text p (k - 1) (n + 1) Q
  | .curr f, k, n, Q => n < 3 ∧ wp text (f (currAt text k)) k n Q

theorem wp_mono (text : List Char) (p : Prog α) {Q Q' : α → Nat → Nat → Prop} (k n : Nat)
    (h : wp text p k n Q) (hq : ∀ a k' n', Q a k' n' → Q' a k' n') : wp text p k n Q' := by
  induction p generalizing k n with
  | ret a => exact hq _ _ _ h
  | read f ih => exact ⟨h.1, ih _ _ _ h.2⟩
  | unread p ih => exact ⟨h.1, ih _ _ h.2⟩
  | curr f ih => exact ⟨h.1, ih _ _ _ h.2⟩

theorem wp_bind' (text : List Char) (p : Prog α) (g : α → Prog β) (k n : Nat)
    (Q : β → Nat → Nat → Prop) :
    wp text (p.bind g) k n Q ↔ wp text p k n (fun a k1 n1 => wp text (g a) k1 n1 Q) := by
  induction p generalizing k n with
  | ret a => exact Iff.rfl
  | read f ih => simp only [Prog.bind, wp]; rw [ih]
  | unread p ih => simp only [Prog.bind, wp]; rw [ih]
  | curr f ih => simp only [Prog.bind, wp]; rw [ih]

theorem wp_bind (text : List Char) (p : Prog α) (g : α → Prog β) (k n : Nat)
    (Q : β → Nat → Nat → Prop) :
    wp text (p >>= g) k n Q ↔ wp text p k n (fun a k1 n1 => wp text (g a) k1 n1 Q) :=
  wp_bind' text p g k n Q

theorem wp_pure (text : List Char) (a : α) (k n : Nat) (Q : α → Nat → Nat → Prop) :
    wp text (pure a : Prog α) k n Q ↔ Q a k n := Iff.rfl

theorem wp_rd (text : List Char) (k n : Nat) (Q : Rune → Nat → Nat → Prop) :
    wp text rd k n Q ↔ (n ≤ 3 ∧ Q (streamAt text k) (k + 1) (n - 1)) := Iff.rfl

theorem wp_unrd (text : List Char) (k n : Nat) (Q : Unit → Nat → Nat → Prop) :
    wp text unrd k n Q ↔ (0 < k ∧ Q () (k - 1) (n + 1)) := Iff.rfl

theorem wp_cur (text : List Char) (k n : Nat) (Q : Rune → Nat → Nat → Prop) :
    wp text cur k n Q ↔ (n < 3 ∧ Q (currAt text k) k n) := Iff.rfl

theorem wp_readRune (text : List Char) (k n : Nat) (Q : Char × Bool → Nat → Nat → Prop) :
    wp text readRune k n Q ↔
      (n ≤ 3 ∧ Q ((streamAt text k).1, (streamAt text k).1 == eofRune) (k + 1) (n - 1)) := Iff.rfl

theorem wp_unreadRune (text : List Char) (k n : Nat) (Q : Unit → Nat → Nat → Prop) :
    wp text unreadRune k n Q ↔ (0 < k ∧ Q () (k - 1) (n + 1)) := Iff.rfl

theorem wp_ite (text : List Char) (c : Prop) [Decidable c] (p q : Prog α) (k n : Nat)
    (Q : α → Nat → Nat → Prop) :
    wp text (if c then p else q) k n Q ↔ ((c → wp text p k n Q) ∧ (¬ c → wp text q k n Q)) := by
  by_cases h : c <;> simp [h]

/-! ## soundness: `wp` gives `Balanced` and `depthOK` of the emitted trace -/

theorem run_endK (text : List Char) (p : Prog α) (k : Nat) :
    endK (p.run text k).1 k = (p.run text k).2.2 := by
  induction p generalizing k with
  | ret a => rfl
  | read f ih => simp only [Prog.run, endK]; exact ih _ _
  | unread p ih => simp only [Prog.run, endK]; exact ih _
  | curr f ih => simp only [Prog.run, endK]; exact ih _ _

theorem wp_sound (text : List Char) (p : Prog α) (k n : Nat) (Q : α → Nat → Nat → Prop)
    (h : wp text p k n Q) :
    Balanced (p.run text k).1 k = true ∧
    depthOK ((p.run text k).1.map ROp.toOp) n = true ∧
    Q (p.run text k).2.1 (p.run text k).2.2 (endN (p.run text k).1 n) := by
  induction p generalizing k n with
  | ret a => exact ⟨rfl, rfl, h⟩
  | read f ih =>
    obtain ⟨h1, h2⟩ := h
    obtain ⟨a, b, c⟩ := ih _ _ _ h2
    refine ⟨by simpa only [Prog.run, Balanced] using a, ?_, by simpa only [Prog.run, endN] using c⟩
    simp only [Prog.run, List.map_cons, ROp.toOp, depthOK]
    by_cases hn : n > 0
    · have : n - 1 < 3 := by omega
      simp only [hn, ↓reduceIte, this, decide_true, Bool.true_and]
      exact b
    · have hn0 : n = 0 := by omega
      subst hn0
      simpa using b
  | unread p ih =>
    obtain ⟨h1, h2⟩ := h
    obtain ⟨a, b, c⟩ := ih _ _ h2
    refine ⟨?_, by simpa only [Prog.run, List.map_cons, ROp.toOp, depthOK] using b,
      by simpa only [Prog.run, endN] using c⟩
    simp only [Prog.run, Balanced, Bool.and_eq_true, decide_eq_true_eq]
    exact ⟨h1, a⟩
  | curr f ih =>
    obtain ⟨h1, h2⟩ := h
    obtain ⟨a, b, c⟩ := ih _ _ _ h2
    refine ⟨by simpa only [Prog.run, Balanced] using a, ?_, by simpa only [Prog.run, endN] using c⟩
    simp only [Prog.run, List.map_cons, ROp.toOp, depthOK, h1, decide_true, Bool.true_and]
    exact b

/-- The values a program sees on the pure stream are the ones `idxRun` assigns to its trace. -/
def Prog.outs (text : List Char) : Prog α → Nat → List Rune
  | .ret _, _ => []
  | .read f, k => streamAt text k :: (f (streamAt text k)).outs text (k + 1)
  | .unread p, k => p.outs text (k - 1)
  | .curr f, k => currAt text k :: (f (currAt text k)).outs text k

theorem run_idxRun (text : List Char) (p : Prog α) (k : Nat) :
    idxRun text (p.run text k).1 k = p.outs text k := by
  induction p generalizing k with
  | ret a => rfl
  | read f ih => simp only [Prog.run, idxRun, Prog.outs]; rw [ih]
  | unread p ih => simp only [Prog.run, idxRun, Prog.outs]; exact ih _
  | curr f ih => simp only [Prog.run, idxRun, Prog.outs, currAt]; rw [ih]

/-- If the ring as written gets through the trace of `p` and returns what `idxRun` says, then
running `p` itself on the ring returns the result computed on the pure stream. -/
theorem runRing_of_trace (text : List Char) (p : Prog α) (k : Nat) (r r' : Ring Rune RSrc)
    (outs : List Rune)
    (hrun : r.run ((p.run text k).1.map ROp.toOp) = some (outs, r'))
    (hout : outs = idxRun text (p.run text k).1 k) :
    p.runRing r = some ((p.run text k).2.1, r') := by
  induction p generalizing k r outs with
  | ret a =>
    simp only [Prog.run, List.map_nil, Ring.run, Option.some.injEq, Prod.mk.injEq] at hrun
    simp only [Prog.runRing, Prog.run, hrun.2]
  | read f ih =>
    simp only [Prog.run, List.map_cons, ROp.toOp, Ring.run] at hrun
    simp only [Prog.runRing]
    split at hrun
    · cases hrun
    · rename_i x r1 hr
      simp only [Option.map_eq_some_iff, Prod.mk.injEq] at hrun
      obtain ⟨⟨xs, r2⟩, hrest, rfl, rfl⟩ := hrun
      simp only [Prog.run, idxRun, List.cons.injEq] at hout
      rw [hr]
      simp only
      rw [hout.1]
      exact ih _ _ _ xs hrest hout.2
  | unread p ih =>
    simp only [Prog.run, List.map_cons, ROp.toOp, Ring.run] at hrun
    simp only [Prog.run, idxRun] at hout
    simp only [Prog.runRing, Prog.run]
    exact ih _ _ outs hrun hout
  | curr f ih =>
    simp only [Prog.run, List.map_cons, ROp.toOp, Ring.run] at hrun
    simp only [Prog.runRing]
    split at hrun
    · cases hrun
    · rename_i x hc
      simp only [Option.map_eq_some_iff, Prod.mk.injEq] at hrun
      obtain ⟨⟨xs, r2⟩, hrest, rfl, rfl⟩ := hrun
      simp only [Prog.run, idxRun, List.cons.injEq] at hout
      rw [hc]
      simp only
      have hx : x = currAt text k := by rw [hout.1]; rfl
      rw [hx]
      exact ih _ _ _ xs hrest hout.2

/-! ## every function stays within two pushed-back runes -/

/-- Post-condition used throughout: at most two runes are pushed back on return. -/
abbrev Safe (text : List Char) (p : Prog α) (k n : Nat) : Prop :=
  wp text p k n (fun _ _ n' => n' ≤ 2)

theorem wsLoop_safe (text : List Char) (fuel : Nat) : ∀ k n, n ≤ 2 → Safe text (wsLoop fuel) k n := by
  induction fuel with
  | zero => intro k n hn; exact hn
  | succ fuel ih =>
    intro k n hn
    simp only [Safe, wsLoop, wp_bind, wp_rd, wp_ite, wp_pure, wp_unrd]
    refine ⟨by omega, fun _ => by omega, fun _ => ⟨fun _ => ⟨by omega, by omega⟩, fun _ => ?_⟩⟩
    exact wp_mono text _ _ _ (ih (k + 1) (n - 1) (by omega)) (fun _ _ _ h => h)

macro "safe_split" : tactic => `(tactic| repeat' (first | with_reducible apply And.intro | with_reducible intro _))

theorem opScanWhitespace_safe (text : List Char) (fuel k n : Nat) (hn : n ≤ 2) :
    Safe text (opScanWhitespace fuel) k n := by
  simp only [Safe, opScanWhitespace, wp_bind, wp_cur, wp_pure]
  exact ⟨by omega, wsLoop_safe text fuel k n hn⟩

theorem opSkipUntilNewline_safe (text : List Char) (fuel : Nat) :
    ∀ k n, n ≤ 2 → Safe text (opSkipUntilNewline fuel) k n := by
  induction fuel with
  | zero => intro k n hn; exact hn
  | succ fuel ih =>
    intro k n hn
    simp only [Safe, opSkipUntilNewline, wp_bind, wp_rd, wp_ite, wp_pure]
    exact ⟨by omega, fun _ => by omega, fun _ => ih (k + 1) (n - 1) (by omega)⟩

theorem opSkipUntilEndComment_safe (text : List Char) (fuel : Nat) :
    ∀ b k n, n ≤ 2 → Safe text (opSkipUntilEndComment fuel b) k n := by
  induction fuel with
  | zero => intro b k n hn; exact hn
  | succ fuel ih =>
    intro b k n hn
    cases b
    · simp only [Safe, opSkipUntilEndComment, wp_bind, wp_rd, wp_ite, wp_pure]
      exact ⟨by omega, fun _ => ih _ _ _ (by omega), fun _ => ⟨fun _ => by omega,
        fun _ => ih _ _ _ (by omega)⟩⟩
    · simp only [Safe, opSkipUntilEndComment, wp_bind, wp_rd, wp_ite, wp_pure]
      exact ⟨by omega, fun _ => by omega, fun _ => ⟨fun _ => ih _ _ _ (by omega),
        fun _ => ⟨fun _ => by omega, fun _ => ih _ _ _ (by omega)⟩⟩⟩

theorem opScanDigits_safe (text : List Char) (fuel : Nat) :
    ∀ k n, n ≤ 2 → Safe text (opScanDigits fuel) k n := by
  induction fuel with
  | zero => intro k n hn; exact hn
  | succ fuel ih =>
    intro k n hn
    simp only [Safe, opScanDigits, wp_bind, wp_rd, wp_ite, wp_pure, wp_unrd]
    exact ⟨by omega, fun _ => ⟨by omega, by omega⟩, fun _ => ih (k + 1) (n - 1) (by omega)⟩

theorem durLoop1_safe (text : List Char) (fuel : Nat) :
    ∀ k n, n ≤ 2 → Safe text (durLoop1 fuel) k n := by
  induction fuel with
  | zero => intro k n hn; exact hn
  | succ fuel ih =>
    intro k n hn
    simp only [Safe, durLoop1, wp_bind, wp_rd, wp_ite, wp_pure, wp_unrd]
    exact ⟨by omega, fun _ => ⟨by omega, by omega⟩, fun _ => ih (k + 1) (n - 1) (by omega)⟩

theorem durLoop2_safe (text : List Char) (fuel : Nat) :
    ∀ k n, n ≤ 2 → Safe text (durLoop2 fuel) k n := by
  induction fuel with
  | zero => intro k n hn; exact hn
  | succ fuel ih =>
    intro k n hn
    simp only [Safe, durLoop2, wp_bind, wp_rd, wp_ite, wp_pure, wp_unrd]
    exact ⟨by omega, fun _ => ih (k + 1) (n - 1) (by omega), fun _ => ⟨by omega, by omega⟩⟩

theorem opScanBareIdent_safe (text : List Char) (fuel : Nat) :
    ∀ k n, n ≤ 2 → Safe text (opScanBareIdent fuel) k n := by
  induction fuel with
  | zero => intro k n hn; exact hn
  | succ fuel ih =>
    intro k n hn
    simp only [Safe, opScanBareIdent, wp_bind, wp_readRune, wp_ite, wp_pure, wp_unreadRune]
    exact ⟨by omega, fun _ => by omega, fun _ => ⟨fun _ => ⟨by omega, by omega⟩,
      fun _ => ih (k + 1) (n - 1) (by omega)⟩⟩

theorem strLoop_safe (text : List Char) (ending : Char) (fuel : Nat) :
    ∀ acc k n, n ≤ 2 → Safe text (strLoop ending fuel acc) k n := by
  induction fuel with
  | zero => intro acc k n hn; exact hn
  | succ fuel ih =>
    intro acc k n hn
    simp only [Safe, strLoop, wp_bind, wp_readRune, wp_ite, wp_pure]
    safe_split
    all_goals first
      | omega
      | exact ih _ _ _ (by omega)

theorem opScanString_safe (text : List Char) (fuel k n : Nat) (hn : n ≤ 2) :
    Safe text (opScanString fuel) k n := by
  simp only [Safe, opScanString, wp_bind, wp_readRune, wp_ite, wp_pure]
  exact ⟨by omega, fun _ => by omega, fun _ => strLoop_safe text _ fuel _ _ _ (by omega)⟩

theorem opScannerScanString_safe (text : List Char) (fuel k n : Nat) (hn : n ≤ 1) (hk : 0 < k) :
    Safe text (opScannerScanString fuel) k n := by
  simp only [Safe, opScannerScanString, wp_bind, wp_unrd, wp_cur]
  refine ⟨hk, by omega, ?_⟩
  refine wp_mono text _ _ _ (opScanString_safe text fuel (k - 1) (n + 1) (by omega)) ?_
  intro r k1 n1 h1
  split
  · exact h1
  · simp only [wp_bind, wp_cur, wp_pure]; exact ⟨by omega, h1⟩
  · exact h1

theorem identLoop_safe (text : List Char) (fuel0 : Nat) (pos : Pos) (fuel : Nat) :
    ∀ buf k n, n ≤ 2 → Safe text (identLoop fuel0 pos fuel buf) k n := by
  induction fuel with
  | zero => intro buf k n hn; exact hn
  | succ fuel ih =>
    intro buf k n hn
    simp only [Safe, identLoop, wp_bind, wp_rd, wp_ite, wp_pure, wp_unrd]
    refine ⟨by omega, fun _ => by omega, fun _ => ⟨fun _ => ?_, fun _ => ⟨fun _ => ⟨by omega, ?_⟩,
      fun _ => ⟨by omega, by omega⟩⟩⟩⟩
    · refine wp_mono text _ _ _ (opScannerScanString_safe text fuel0 (k + 1) (n - 1) (by omega)
        (by omega)) ?_
      intro lx k1 n1 h1
      exact ⟨fun _ => h1, fun _ => h1⟩
    · refine wp_mono text _ _ _ (opScanBareIdent_safe text fuel0 _ _ (by omega)) ?_
      intro cs k1 n1 h1
      exact ih _ _ _ h1

theorem opScanIdent_safe (text : List Char) (fuel : Nat) (lk : Bool) (k n : Nat) (hn : n ≤ 2) :
    Safe text (opScanIdent fuel lk) k n := by
  simp only [Safe, opScanIdent, wp_bind, wp_rd, wp_unrd]
  refine ⟨by omega, by omega, ?_⟩
  refine wp_mono text _ _ _ (identLoop_safe text fuel _ fuel [] _ _ (by omega)) ?_
  intro r k1 n1 h1
  split
  · exact h1
  · simp only [wp_ite, wp_pure]; exact ⟨fun _ => h1, fun _ => h1⟩

theorem numberTail_safe (text : List Char) (fuel : Nat) (pos : Pos) (buf : List Char) (d : Bool)
    (k n : Nat) (hn : n ≤ 2) : Safe text (numberTail fuel pos buf d) k n := by
  simp only [Safe, numberTail, wp_bind, wp_rd, wp_ite, wp_pure, wp_unrd]
  refine ⟨fun _ => ⟨by omega, fun _ => ?_, fun _ => ⟨by omega, by omega⟩⟩, fun _ => hn⟩
  refine wp_mono text _ _ _ (durLoop1_safe text fuel _ _ (by omega)) ?_
  intro l1 k3 n3 h3
  exact durLoop2_safe text fuel _ _ h3

theorem numberFrac_safe (text : List Char) (fuel : Nat) (ds : List Char) (k n : Nat) (hn : n ≤ 2) :
    Safe text (numberFrac fuel ds) k n := by
  simp only [Safe, numberFrac, wp_bind, wp_rd, wp_ite, wp_pure, wp_unrd]
  refine ⟨by omega, fun _ => ⟨by omega, fun _ => ?_, fun _ => ⟨by omega, by omega⟩⟩,
    fun _ => ⟨by omega, by omega⟩⟩
  exact opScanDigits_safe text fuel _ _ (by omega)

theorem numberRest_safe (text : List Char) (fuel : Nat) (pos : Pos) (k n : Nat) (hn : n ≤ 2) :
    Safe text (numberRest fuel pos) k n := by
  simp only [Safe, numberRest, wp_bind]
  refine wp_mono text _ _ _ (opScanDigits_safe text fuel k n hn) ?_
  intro ds k1 n1 h1
  refine wp_mono text _ _ _ (numberFrac_safe text fuel ds k1 n1 h1) ?_
  intro r k2 n2 h2
  exact numberTail_safe text fuel pos _ _ k2 n2 h2

theorem opScanNumber_safe (text : List Char) (fuel k n : Nat) (hn : n ≤ 1) (hk : 0 < k) :
    Safe text (opScanNumber fuel) k n := by
  simp only [Safe, opScanNumber, wp_bind, wp_cur, wp_ite, wp_rd, wp_unrd, wp_pure]
  refine ⟨by omega, fun _ => ⟨by omega, by omega, fun _ => by omega, fun _ => ⟨by omega, ?_⟩⟩,
    fun _ => ⟨hk, ?_⟩⟩
  · exact numberRest_safe text fuel _ _ _ (by omega)
  · exact numberRest_safe text fuel _ _ _ (by omega)

theorem opScan4_safe (text : List Char) (ch0 : Char) (pos : Pos) (k n : Nat) (hn : n ≤ 2) :
    Safe text (opScan4 ch0 pos) k n := by
  simp only [Safe, opScan4, wp_bind, wp_ite, wp_rd, wp_unrd, wp_pure]
  safe_split
  all_goals omega

theorem opScan3_safe (text : List Char) (ch0 : Char) (pos : Pos) (k n : Nat) (hn : n ≤ 2) :
    Safe text (opScan3 ch0 pos) k n := by
  simp only [Safe, opScan3, wp_bind, wp_ite, wp_rd, wp_unrd, wp_pure]
  safe_split
  all_goals first
    | omega
    | exact opScan4_safe text _ _ _ _ hn

theorem opScan2_safe (text : List Char) (fuel : Nat) (ch0 : Char) (pos : Pos) (k n : Nat)
    (hn : n ≤ 2) : Safe text (opScan2 fuel ch0 pos) k n := by
  simp only [Safe, opScan2, wp_bind, wp_ite, wp_rd, wp_unrd, wp_pure]
  safe_split
  all_goals first
    | omega
    | exact opScan3_safe text _ _ _ _ hn
    | exact wp_mono text _ _ _ (opSkipUntilNewline_safe text fuel _ _ (by omega)) (fun _ _ _ h => h)
    | exact wp_mono text _ _ _ (opSkipUntilEndComment_safe text fuel _ _ _ (by omega))
        (fun _ _ _ h => ⟨fun _ => h, fun _ => h⟩)

theorem opScanFrom_safe (text : List Char) (fuel : Nat) (ch0 : Char) (pos : Pos) (k n : Nat)
    (hn : n ≤ 1) (hk : 0 < k) : Safe text (opScanFrom fuel ch0 pos) k n := by
  simp only [Safe, opScanFrom, wp_bind, wp_ite, wp_rd, wp_unrd, wp_pure]
  safe_split
  all_goals first
    | omega
    | exact opScanWhitespace_safe text fuel _ _ (by omega)
    | exact opScanIdent_safe text fuel _ _ _ (by omega)
    | exact opScanNumber_safe text fuel _ _ (by omega) (by omega)
    | exact opScannerScanString_safe text fuel _ _ (by omega) (by omega)
    | exact opScan2_safe text fuel _ _ _ _ (by omega)
    | exact wp_mono text _ _ _ (opScanIdent_safe text fuel _ _ _ (by omega))
        (fun _ _ _ h => ⟨fun _ => h, fun _ => h⟩)

theorem opScan_safe (text : List Char) (fuel k n : Nat) (hn : n ≤ 2) :
    Safe text (opScan fuel) k n := by
  simp only [Safe, opScan, wp_bind, wp_rd]
  exact ⟨by omega, opScanFrom_safe text fuel _ _ _ _ (by omega) (by omega)⟩

theorem delimLoop_safe (text : List Char) (ending : Char) (escapes : Char → Option Char)
    (passThru : Bool) (fuel : Nat) :
    ∀ acc k n, n ≤ 2 → Safe text (delimLoop ending escapes passThru fuel acc) k n := by
  induction fuel with
  | zero => intro acc k n hn; exact hn
  | succ fuel ih =>
    intro acc k n hn
    simp only [Safe, delimLoop, wp_bind, wp_readRune, wp_ite, wp_pure]
    refine ⟨by omega, fun _ => by omega, fun _ => ⟨fun _ => by omega, fun _ => ⟨fun _ => by omega,
      fun _ => ⟨fun _ => ⟨by omega, fun _ => by omega, fun _ => ?_⟩, fun _ => ih _ _ _ (by omega)⟩⟩⟩⟩
    split
    · simp only [wp_ite, wp_bind, wp_unreadRune, wp_pure]
      exact ⟨fun _ => ⟨by omega, ih _ _ _ (by omega)⟩, fun _ => by omega⟩
    · exact ih _ _ _ (by omega)

theorem opScanDelimited_safe (text : List Char) (fuel : Nat) (start ending : Char)
    (escapes : Char → Option Char) (passThru : Bool) (k n : Nat) (hn : n ≤ 2) :
    Safe text (opScanDelimited fuel start ending escapes passThru) k n := by
  simp only [Safe, opScanDelimited, wp_bind, wp_readRune, wp_ite, wp_pure]
  exact ⟨by omega, fun _ => by omega, fun _ => ⟨fun _ => by omega,
    fun _ => delimLoop_safe text _ _ _ fuel _ _ _ (by omega)⟩⟩

theorem opScanRegex_safe (text : List Char) (fuel k n : Nat) (hn : n ≤ 2) :
    Safe text (opScanRegex fuel) k n := by
  simp only [Safe, opScanRegex, wp_bind, wp_cur]
  refine ⟨by omega, ?_⟩
  refine wp_mono text _ _ _ (opScanDelimited_safe text fuel _ _ _ _ k n hn) ?_
  intro r k1 n1 h1
  split
  · simp only [wp_bind, wp_cur, wp_pure]; exact ⟨by omega, h1⟩
  · exact h1
  · exact h1

theorem opPeekRune_safe (text : List Char) (k n : Nat) (hn : n ≤ 2) :
    Safe text opPeekRune k n := by
  simp only [Safe, opPeekRune, wp_bind, wp_readRune, wp_ite, wp_unreadRune, wp_pure]
  exact ⟨by omega, fun _ => ⟨by omega, by omega⟩, fun _ => by omega⟩

theorem opPeekComment_safe (text : List Char) (k n : Nat) (hn : n ≤ 2) :
    Safe text opPeekComment k n := by
  simp only [Safe, opPeekComment, wp_bind, wp_rd, wp_unrd, wp_pure]
  omega

theorem opCall_safe (text : List Char) (fuel : Nat) (c : Call) (k n : Nat) (hn : n ≤ 2) :
    Safe text (opCall fuel c) k n := by
  cases c <;> simp only [Safe, opCall, wp_bind, wp_pure]
  · exact opScan_safe text fuel k n hn
  · exact opScanRegex_safe text fuel k n hn
  · exact opPeekRune_safe text k n hn
  · exact opPeekComment_safe text k n hn

theorem opCalls_safe (text : List Char) (fuel : Nat) (cs : List Call) :
    ∀ k n, n ≤ 2 → Safe text (opCalls fuel cs) k n := by
  induction cs with
  | nil => intro k n hn; exact hn
  | cons c cs ih =>
    intro k n hn
    simp only [Safe, opCalls, wp_bind, wp_pure]
    refine wp_mono text _ _ _ (opCall_safe text fuel c k n hn) ?_
    intro o k1 n1 h1
    exact ih k1 n1 h1

end InfluxQL.ScanOps
